(* C02 proofs, part 8: the reader re-assembles the lines of a feature (same ID, type, seqid) into one feature. *)
From Coq Require Import List ZArith NArith Bool Lia Sorted.
From Coq.Strings Require Import Byte.
Import ListNotations.
From SV Require Import Text G_gff C02_Model C02_Lemmas C02_Order C02_Line C02_Score C02_Dict C02_Feat.
Local Open Scope Z_scope.

(* ------------------------------------------------------------------ LocationTuple on an already ordered list *)
Fixpoint adjZ (le : Z -> Z -> bool) (ks : list Z) : bool :=
  match ks with
  | a :: r => match r with b :: _ => le a b && adjZ le r | [] => true end
  | [] => true
  end.
Definition oneK (ss : list byte) : bool := match ss with [] => true | s :: r => forallb (fun y => byte_eqb y s) r end.
Definition geb (a b : Z) : bool := Z.leb b a.
(* keys of an ordered, single-strand location list *)
Definition locs_sorted (L : list loc) : bool :=
  oneK (map lstrand L) &&
  match L with
  | x :: _ => if byte_eqb (lstrand x) "-"%byte then adjZ geb (map lstop L) else adjZ Z.leb (map lstart L)
  | [] => false
  end.
Lemma forallb_map {A B} (f : B -> bool) (g : A -> B) l : forallb f (map g l) = forallb (fun x => f (g x)) l.
Proof. induction l as [|x l IH]; [reflexivity|]. cbn. rewrite IH. reflexivity. Qed.
Lemma one_strand_K L : one_strand L = oneK (map lstrand L).
Proof. destruct L as [|x r]; [reflexivity|]. cbn [one_strand map oneK]. rewrite forallb_map. reflexivity. Qed.
Lemma sort_asc_adj L : adjZ Z.leb (map lstart L) = true -> sort_asc L = L.
Proof.
  induction L as [|x l IH]; [reflexivity|]. cbn [map adjZ]. intros H. rewrite sort_asc_cons.
  destruct l as [|y l']; [reflexivity|]. cbn [map] in H. apply andb_prop in H. destruct H as [H1 H2].
  rewrite (IH H2). cbn [ins_asc]. rewrite H1. reflexivity.
Qed.
Lemma sort_desc_adj L : adjZ geb (map lstop L) = true -> sort_desc L = L.
Proof.
  induction L as [|x l IH]; [reflexivity|]. cbn [map adjZ]. intros H. rewrite sort_desc_cons.
  destruct l as [|y l']; [reflexivity|]. cbn [map] in H. apply andb_prop in H. destruct H as [H1 H2].
  rewrite (IH H2). cbn [ins_desc]. unfold geb in H1. rewrite H1. reflexivity.
Qed.
Lemma loc_tuple_sorted L : locs_sorted L = true -> loc_tuple L = Some L.
Proof.
  unfold locs_sorted. intros H. apply andb_prop in H. destruct H as [H1 H2]. destruct L as [|x r]; [discriminate H2|].
  unfold loc_tuple. rewrite one_strand_K, H1. destruct (byte_eqb (lstrand x) "-"%byte).
  - rewrite (sort_desc_adj _ H2). reflexivity.
  - rewrite (sort_asc_adj _ H2). reflexivity.
Qed.
Lemma adjZ_prefix le a b : adjZ le (a ++ b) = true -> adjZ le a = true.
Proof.
  induction a as [|x a IH]; [reflexivity|]. cbn [app adjZ]. destruct a as [|y a'].
  - intros _. reflexivity.
  - cbn [app]. intros H. apply andb_prop in H. destruct H as [H1 H2]. rewrite H1. apply IH. exact H2.
Qed.
Lemma locs_sorted_prefix a b : a <> [] -> locs_sorted (a ++ b) = true -> locs_sorted a = true.
Proof.
  intros N. unfold locs_sorted. destruct a as [|x a]; [congruence|]. cbn [app map oneK]. rewrite !map_app, forallb_app.
  intros H. rewrite !andb_true_iff in H. destruct H as [[H1 _] H2]. rewrite H1. cbn [andb].
  destruct (byte_eqb (lstrand x) "-"%byte).
  - change (lstop x :: map lstop a ++ map lstop b) with ((lstop x :: map lstop a) ++ map lstop b) in H2. apply adjZ_prefix in H2. exact H2.
  - change (lstart x :: map lstart a ++ map lstart b) with ((lstart x :: map lstart a) ++ map lstart b) in H2. apply adjZ_prefix in H2. exact H2.
Qed.
(* the order depends on (start, stop, strand) only *)
Lemma locs_sorted_keys L L' :
  map lstart L' = map lstart L -> map lstop L' = map lstop L -> map lstrand L' = map lstrand L ->
  locs_sorted L = true -> locs_sorted L' = true.
Proof.
  intros E1 E2 E3. unfold locs_sorted. rewrite E1, E2, E3. destruct L as [|x r], L' as [|x' r']; try discriminate; auto.
  cbn [map] in E3. injection E3 as E4 _. rewrite E4. auto.
Qed.
(* a list that LocationTuple leaves unchanged is ordered *)
Lemma SS_adj_asc L : asc_sorted L -> adjZ Z.leb (map lstart L) = true.
Proof.
  unfold asc_sorted. induction 1 as [|x l S IH F]; [reflexivity|]. cbn [map adjZ]. destruct l as [|y l']; [reflexivity|].
  cbn [map]. cbn [map] in IH. rewrite IH. inversion F; subst. apply Z.leb_le in H1. rewrite H1. reflexivity.
Qed.
Lemma SS_adj_desc L : desc_sorted L -> adjZ geb (map lstop L) = true.
Proof.
  unfold desc_sorted. induction 1 as [|x l S IH F]; [reflexivity|]. cbn [map adjZ]. destruct l as [|y l']; [reflexivity|].
  cbn [map]. cbn [map] in IH. rewrite IH. inversion F; subst. unfold geb. apply Z.leb_le in H1. rewrite H1. reflexivity.
Qed.
Theorem loc_tuple_fix_sorted L : loc_tuple L = Some L -> locs_sorted L = true.
Proof.
  intros H. destruct (loc_tuple_spec L L H) as [N [O S]]. destruct L as [|x r]; [congruence|].
  unfold locs_sorted. rewrite <- one_strand_K, O. cbn [andb]. destruct (byte_eqb (lstrand x) "-"%byte).
  - apply SS_adj_desc. rewrite S at 1. apply sort_desc_sorted.
  - apply SS_adj_asc. rewrite S at 1. apply sort_asc_sorted.
Qed.

(* ------------------------------------------------------------------ one reader step on a well-shaped data line *)
Definition gl_id (gl : gline) : option gid :=
  match aget k_ID (g_attrs gl) with Some i => Some (i, g_type gl, g_seqid gl) | None => None end.
Definition same_id (a b : option gid) : bool := match a, b with Some x, Some y => gid_eqb x y | _, _ => false end.
Definition new_feat (gl : gline) : feat :=
  mkFeat (match g_type gl with Some t => [(k_type, AS t)] | None => [] end) (Some (g_attrs gl)) [g_loc gl].
Definition ometa (d : adict) : option adict := match d with [] => None | _ => Some d end.
Definition merge_loc (A0 : adict) (gl : gline) : loc :=
  mkLoc (lstart (g_loc gl)) (lstop (g_loc gl)) (lstrand (g_loc gl)) (ometa (diff_attrs (g_attrs gl) A0 [])).

Lemma read_step line rest acc lastid gl : line_ok line gl ->
  read_lines (line :: rest) acc lastid =
  match same_id (gl_id gl) lastid, acc with
  | true, f :: acc' =>
      match loc_tuple (flocs f ++ [merge_loc (getgff f) gl]) with
      | None => None
      | Some locs' => read_lines rest (mkFeat (fmeta f) (fgff f) locs' :: acc') (gl_id gl)
      end
  | _, _ => read_lines rest (new_feat gl :: acc) (gl_id gl)
  end.
Proof.
  intros [P [S1 [_ [S3 S4]]]]. destruct line as [|b r]; [congruence|].
  cbn [read_lines]. cbn [startswith bs bytes_of_bstr] in S1. rewrite andb_true_r in S1.
  assert (startswith (bs "##FASTA"%bs) (b :: r) = false) as F by (cbn [startswith bs bytes_of_bstr]; rewrite S1; reflexivity).
  rewrite F. cbn [startswith bs bytes_of_bstr]. rewrite S1. cbn [andb orb]. rewrite S3. cbn [length Nat.eqb]. rewrite P.
  unfold same_id, gl_id, new_feat, merge_loc, ometa. destruct (aget k_ID (g_attrs gl)); destruct lastid; try reflexivity.
Qed.

Lemma read_merge ts : forall gls P' acc' more m0 A0 gid0,
  Forall2 line_ok ts gls ->
  (forall gl, In gl gls -> gl_id gl = Some gid0) -> gid_eqb gid0 gid0 = true ->
  locs_sorted (P' ++ map g_loc gls) = true -> P' <> [] ->
  read_lines (ts ++ more) (mkFeat m0 (Some A0) P' :: acc') (Some gid0) =
  read_lines more (mkFeat m0 (Some A0) (P' ++ map (merge_loc A0) gls) :: acc') (Some gid0).
Proof.
  induction ts as [|t ts IH]; intros gls P' acc' more m0 A0 gid0 F Hid Hrefl Hs Np.
  - inversion F; subst. cbn [app map]. rewrite app_nil_r. reflexivity.
  - inversion F as [|? gl ? gls' Hl F']; subst. cbn [app].
    rewrite (read_step t (ts ++ more) _ _ gl Hl).
    rewrite (Hid gl (or_introl eq_refl)). cbn [same_id]. rewrite Hrefl. cbn [flocs fmeta fgff getgff].
    assert (locs_sorted ((P' ++ [merge_loc A0 gl]) ++ map g_loc gls') = true) as Hs'.
    { refine (locs_sorted_keys _ _ _ _ _ Hs); cbn [map]; rewrite <- !app_assoc, !map_app; reflexivity. }
    assert (P' ++ [merge_loc A0 gl] <> []) as Np' by (destruct P'; discriminate).
    rewrite (loc_tuple_sorted _ (locs_sorted_prefix _ _ Np' Hs')).
    rewrite (IH gls' (P' ++ [merge_loc A0 gl]) acc' more m0 A0 gid0 F' (fun g H => Hid g (or_intror H)) Hrefl Hs' Np').
    cbn [map]. rewrite <- app_assoc. reflexivity.
Qed.

(* ------------------------------------------------------------------ identifiers *)
Lemma strs_eqb_eq a : forall b, strs_eqb a b = true <-> a = b.
Proof.
  induction a as [|x a IH]; intros [|y b]; cbn; split; intros H; try congruence; try discriminate.
  - apply andb_prop in H. destruct H as [H1 H2]. apply str_eqb_eq in H1. apply IH in H2. congruence.
  - inversion H; subst. rewrite str_eqb_refl. apply IH. reflexivity.
Qed.
Lemma aval_eqb_eq a b : aval_eqb a b = true <-> a = b.
Proof.
  destruct a, b; cbn; split; intros H; try discriminate; try congruence.
  - apply str_eqb_eq in H. congruence. - inversion H. apply str_eqb_refl.
  - apply strs_eqb_eq in H. congruence. - inversion H. apply strs_eqb_eq. reflexivity.
  - apply str_eqb_eq in H. congruence. - inversion H. apply str_eqb_refl.
  - apply Z.eqb_eq in H. congruence. - inversion H. apply Z.eqb_refl.
Qed.
Lemma opt_str_eqb_eq a b : opt_str_eqb a b = true <-> a = b.
Proof.
  destruct a, b; cbn; split; intros H; try discriminate; try congruence.
  - apply str_eqb_eq in H. congruence. - inversion H. apply str_eqb_refl.
Qed.
Lemma gid_eqb_eq a b : gid_eqb a b = true <-> a = b.
Proof.
  destruct a as [[i1 t1] s1], b as [[i2 t2] s2]. cbn. rewrite !andb_true_iff, aval_eqb_eq, opt_str_eqb_eq, str_eqb_eq.
  split; [intros [[-> ->] ->]; reflexivity|intros H; inversion H; auto].
Qed.
Lemma gid_eqb_refl a : gid_eqb a a = true.
Proof. apply gid_eqb_eq. reflexivity. Qed.
Lemma same_id_sym a b : same_id a b = same_id b a.
Proof.
  destruct a as [a|], b as [b|]; try reflexivity. cbn. destruct (gid_eqb a b) eqn:E1, (gid_eqb b a) eqn:E2; try reflexivity.
  - apply gid_eqb_eq in E1. subst. rewrite gid_eqb_refl in E2. discriminate.
  - apply gid_eqb_eq in E2. subst. rewrite gid_eqb_refl in E1. discriminate.
Qed.

Lemma aget_ID_back d sid src sc ph : aget k_ID (attrs_back d sid src sc ph) = aget k_ID d.
Proof.
  unfold attrs_back. rewrite aget_app. destruct (aget k_ID d); [reflexivity|].
  destruct sid, src, sc, ph; reflexivity.
Qed.
Lemma aget_ID_pop5 g : aget k_ID (pop5 g) = aget k_ID g.
Proof. unfold pop5, pop3. rewrite !aget_apop_other by reflexivity. reflexivity. Qed.
Definition gid_of (g : adict) : option gid :=
  match aget k_ID g with Some i => Some (i, ocol k_type g, sid_back (ocol k_seqid g)) | None => None end.
Lemma gl_id_0 g l : gl_id (gl_of g (pop5 g) l) = gid_of g.
Proof. unfold gl_id, gl_of, gid_of. cbn [g_attrs g_type g_seqid]. rewrite aget_ID_back, aget_ID_pop5. reflexivity. Qed.
Lemma gl_id_i g l : gl_id (gl_of g (dline_i g (idv_of g) l) l) = Some (idv_of g, ocol k_type g, sid_back (ocol k_seqid g)).
Proof. unfold gl_id, gl_of, dline_i. cbn [g_attrs g_type g_seqid]. rewrite aget_ID_back, aget_aset_same. reflexivity. Qed.
Lemma feat_gid_of ft : feat_ok ft = true -> feat_gid ft = gid_of (g0 ft).
Proof.
  intros W. unfold feat_gid, gid_of. rewrite (merged_is_g0 ft W). unfold ocol.
  destruct (aget k_ID (g0 ft)); [|reflexivity]. destruct (aget k_seqid (g0 ft)) as [[]|]; reflexivity.
Qed.

(* ------------------------------------------------------------------ the feature the reader assembles *)
Definition asm (g : adict) (l0 : loc) (rest : list loc) : feat :=
  let gl0 := gl_of g (pop5 g) l0 in
  mkFeat (match ocol k_type g with Some t => [(k_type, AS t)] | None => [] end) (Some (g_attrs gl0))
         (g_loc gl0 :: map (fun l => merge_loc (g_attrs gl0) (gl_of g (dline_i g (idv_of g) l) l)) rest).
Definition asm_f (ft : feat) : feat := match flocs ft with l0 :: rest => asm (g0 ft) l0 rest | [] => ft end.

Lemma read_feature g l0 rest texts more acc lastid :
  Forall2 line_ok texts (glines g l0 rest) -> locs_sorted (l0 :: rest) = true ->
  (rest <> [] -> aget k_ID g = Some (idv_of g)) -> same_id (gid_of g) lastid = false ->
  read_lines (texts ++ more) acc lastid = read_lines more (asm g l0 rest :: acc) (gid_of g).
Proof.
  intros F Hs Hid Hn. unfold glines in F. inversion F as [|t0 gl0 ts gls H0 F']; subst. cbn [app].
  rewrite (read_step t0 (ts ++ more) acc lastid _ H0). rewrite gl_id_0, Hn.
  assert (read_lines (ts ++ more) (new_feat (gl_of g (pop5 g) l0) :: acc) (gid_of g) =
          read_lines more (asm g l0 rest :: acc) (gid_of g)) as E; [|destruct acc; exact E].
  destruct rest as [|l1 r].
  - inversion F'; subst. reflexivity.
  - assert (gid_of g = Some (idv_of g, ocol k_type g, sid_back (ocol k_seqid g))) as G
      by (unfold gid_of; rewrite (Hid ltac:(discriminate)); reflexivity).
    rewrite G. unfold new_feat. cbn [g_type gl_of].
    rewrite (read_merge ts _ [g_loc (gl_of g (pop5 g) l0)] acc more _ (g_attrs (gl_of g (pop5 g) l0)) _ F').
    + unfold asm. cbn [app]. rewrite map_map. reflexivity.
    + intros gl Hin. apply in_map_iff in Hin. destruct Hin as [l [<- _]]. apply gl_id_i.
    + apply gid_eqb_refl.
    + refine (locs_sorted_keys _ _ _ _ _ Hs); cbn [app map]; rewrite !map_map; reflexivity.
    + discriminate.
Qed.

(* ------------------------------------------------------------------ the whole file *)
Lemma split_lines ls : Forall (fun t => has x0a t = false) ls ->
  split_on x0a (concat (map (fun t => t ++ nl) ls)) = ls ++ [[]].
Proof.
  induction 1 as [|t ls H _ IH]; [reflexivity|]. cbn [map concat]. unfold nl at 1. rewrite <- app_assoc. cbn [app].
  rewrite split_on_app by exact H. rewrite IH. reflexivity.
Qed.
Lemma file_lines_concat ls : Forall (fun t => has x0a t = false) ls -> file_lines (concat (map (fun t => t ++ nl) ls)) = ls.
Proof.
  intros H. unfold file_lines. rewrite (split_lines ls H). rewrite rev_app_distr. cbn [rev app]. apply rev_involutive.
Qed.
Definition header_line : str := bs "##gff-version 3"%bs.
Lemma header_eq : gff_header = header_line ++ nl.
Proof. reflexivity. Qed.

Definition good (ft : feat) : Prop :=
  feat_ok ft = true /\ normalised ft = true /\ locs_sorted (flocs ft) = true.

Lemma good_lines ft : good ft -> exists l0 rest texts, flocs ft = l0 :: rest /\
  write_feat ft = Some (concat (map (fun t => t ++ nl) texts)) /\ Forall2 line_ok texts (glines (g0 ft) l0 rest).
Proof.
  intros [W [Nm Hs]]. destruct (flocs ft) as [|l0 rest] eqn:Hl; [discriminate Hs|].
  destruct (feat_lines ft l0 rest W Nm Hl) as [texts [A B]]. exists l0, rest, texts. auto.
Qed.

Lemma read_feats x : Forall good x -> adjacent_distinct x = true -> forall acc lastid,
  match x with f :: _ => same_id (feat_gid f) lastid = false | [] => True end ->
  exists tss, Forall2 (fun f ts => write_feat f = Some (concat (map (fun t => t ++ nl) ts)) /\ Forall (fun t => has x0a t = false) ts) x tss /\
              read_lines (concat tss) acc lastid = Some (rev acc ++ map asm_f x).
Proof.
  induction 1 as [|f x G Gx IH]; intros Adj acc lastid Hn.
  - exists []. split; [constructor|]. cbn. rewrite app_nil_r. reflexivity.
  - destruct (good_lines f G) as [l0 [rest [texts [Hl [Wf Fl]]]]]. destruct G as [W [Nm Hs]].
    assert (match x with f' :: _ => same_id (feat_gid f') (feat_gid f) = false | [] => True end) as Hn'.
    { destruct x as [|f' x']; [exact I|]. cbn [adjacent_distinct] in Adj. apply andb_prop in Adj. destruct Adj as [A _].
      apply negb_true_iff in A. rewrite same_id_sym. exact A. }
    assert (adjacent_distinct x = true) as Adj'.
    { destruct x as [|f' x']; [reflexivity|]. cbn [adjacent_distinct] in Adj. apply andb_prop in Adj. tauto. }
    destruct (IH Adj' (asm_f f :: acc) (feat_gid f) Hn') as [tss [F2 R]].
    exists (texts :: tss). split.
    + constructor; [|exact F2]. split; [exact Wf|].
      clear -Fl. induction Fl as [|t gl ts gls [_ [_ [S _]]] _ IH']; constructor; assumption.
    + cbn [concat]. rewrite (feat_gid_of f W) in *. rewrite Hl in Hs.
      assert (rest <> [] -> aget k_ID (g0 f) = Some (idv_of (g0 f))) as Hid.
      { intros NE. destruct (multi_has_id f W) as [v Hv]; [rewrite Hl; destruct rest; [congruence|cbn; lia]|].
        unfold idv_of. rewrite Hv. reflexivity. }
      refine (eq_trans (read_feature (g0 f) l0 rest texts (concat tss) acc lastid Fl Hs Hid Hn) _).
      assert (asm_f f = asm (g0 f) l0 rest) as Ea by (unfold asm_f; rewrite Hl; reflexivity).
      rewrite Ea in R. rewrite R. cbn [rev map]. rewrite <- app_assoc, Ea. reflexivity.
Qed.

Lemma concat_opt_feats x tss :
  Forall2 (fun f ts => write_feat f = Some (concat (map (fun t => t ++ nl) ts)) /\ Forall (fun t => has x0a t = false) ts) x tss ->
  concat_opt (map write_feat x) = Some (concat (map (fun t => t ++ nl) (concat tss))) /\ Forall (fun t => has x0a t = false) (concat tss).
Proof.
  induction 1 as [|f ts x tss [H1 H2] _ [IH1 IH2]]; [split; [reflexivity|constructor]|].
  cbn [map concat_opt concat]. rewrite H1, IH1. cbn [option_map]. rewrite map_app, concat_app. split; [reflexivity|].
  apply Forall_app. auto.
Qed.

(* reading what was written gives, feature by feature, the assembled feature with the aliases copied in *)
Theorem read_write x : Forall good x -> adjacent_distinct x = true ->
  exists w1, write_gff x = Some w1 /\ read_gff w1 = Some (map (fun f => copy_attrs_in (asm_f f)) x).
Proof.
  intros G Adj. destruct (read_feats x G Adj [] None) as [tss [F R]]; [destruct x; [exact I|]; destruct (feat_gid f); reflexivity|].
  destruct (concat_opt_feats x tss F) as [C N].
  unfold write_gff. rewrite C. cbn [option_map]. eexists. split; [reflexivity|].
  unfold read_gff. rewrite header_eq.
  change ((header_line ++ nl) ++ concat (map (fun t => t ++ nl) (concat tss)))
    with (concat (map (fun t => t ++ nl) (header_line :: concat tss))).
  rewrite file_lines_concat by (constructor; [reflexivity|exact N]).
  change (read_lines (header_line :: concat tss) [] None) with (read_lines (concat tss) [] None).
  rewrite R. cbn [rev app option_map]. rewrite map_map. reflexivity.
Qed.
