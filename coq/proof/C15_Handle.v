(* C15 proofs, round 6: handle positions (successive reads consume exactly their alignment), the command-line
   converter as a transport, line layout of the writer, widths of column annotations. *)
From Coq Require Import List ZArith NArith Bool Arith Lia.
From Coq.Strings Require Import Byte.
Import ListNotations.
From SV Require Import Text G_flags C15_Model C15_Lemmas C15_Read C15_Fold C15_Blocks.

(* ------------------------------------------------------------------ the sniffer accepts what the writers produce *)
Lemma is_stockholm_header x : is_stockholm (HEADER ++ x) = true.
Proof. reflexivity. Qed.

Lemma is_stockholm_write a rest : is_stockholm (write_text a ++ rest) = true.
Proof.
  unfold write_text. rewrite write_lines_eq. unfold content_lines. cbn [app].
  rewrite join_cons by (destruct (map (kvline GFt []) (a_gf a) ++ flat_map gs_lines (a_rows a) ++ flat_map seq_lines (a_rows a)
                                  ++ map (kvline GCt []) (a_gc a)); discriminate).
  rewrite <- app_assoc. apply is_stockholm_header.
Qed.
Lemma is_stockholm_blocks bw a rest : is_stockholm (render_blocks bw a ++ rest) = true.
Proof.
  unfold render_blocks. rewrite render_lines_eq. unfold blocks_content. cbn [app].
  rewrite join_cons by (destruct ((map (kvline GFt []) (a_gf a) ++ flat_map gs_lines (a_rows a))
                                  ++ flat_map (block_lines bw a) (seq 0 (nblocks bw (width a)))); discriminate).
  rewrite <- app_assoc. apply is_stockholm_header.
Qed.

(* x is a rendering of a: whatever follows on the handle, one read returns a and leaves exactly what follows,
   and the sniffer accepts the text at this position *)
Definition renders (a : aln) (x : str) : Prop :=
  forall rest, read_text (x ++ rest) = (Some a, rest) /\ is_stockholm (x ++ rest) = true.

Lemma renders_write a : wf_aln a = true -> renders a (write_text a).
Proof. intros H rest. split; [apply read_write_rest; exact H|apply is_stockholm_write]. Qed.
Lemma renders_blocks bw a : wf_aln a = true -> 1 <= bw -> renders a (render_blocks bw a).
Proof. intros H Hb rest. split; [apply read_blocks_rest; assumption|apply is_stockholm_blocks]. Qed.

(* ------------------------------------------------------------------ one read at an offset *)
Lemma skipn_app_len {A} (p x : list A) : skipn (length p) (p ++ x) = x.
Proof. induction p as [|c p IH]; [reflexivity|exact IH]. Qed.

Lemma read_at_renders auto pre a x post : renders a x ->
  read_at auto (pre ++ x ++ post) (length pre) = (Some (Some a), length pre + length x).
Proof.
  intros H. destruct (H post) as [R S]. unfold read_at. rewrite skipn_app_len, S, R.
  rewrite andb_false_r. cbn [fst snd]. f_equal. rewrite !app_length. lia.
Qed.

(* reading at the end of the handle with the format given: an empty basket, the handle stays *)
Definition empty_read : option (option aln) := Some (Some empty_aln).
Lemma read_at_eof t : read_at false t (length t) = (empty_read, length t).
Proof.
  unfold read_at. rewrite skipn_all. cbn [andb]. change (read_text []) with (Some empty_aln, @nil byte).
  cbn [fst snd length]. rewrite Nat.sub_0_r. reflexivity.
Qed.
(* detection at the end of the handle fails and the handle stays *)
Lemma read_at_eof_auto t : read_at true t (length t) = (None, length t).
Proof. unfold read_at. rewrite skipn_all. reflexivity. Qed.

(* ------------------------------------------------------------------ successive reads *)
Definition got (a : aln) : option (option aln) := Some (Some a).

Theorem chain_renders : forall (axs : list (aln * str)) flags pre post,
  Forall (fun ax => renders (fst ax) (snd ax)) axs -> length flags = length axs ->
  chain flags (pre ++ concat (map snd axs) ++ post) (length pre)
  = combine (map (fun ax => got (fst ax)) axs) (offsets (length pre) (map snd axs)).
Proof.
  induction axs as [|[a x] axs IH]; intros flags pre post HF HL.
  - destruct flags; [reflexivity|discriminate].
  - destruct flags as [|au flags]; [discriminate|]. injection HL as HL. inversion HF as [|? ? Ha HF']; subst.
    cbn [map concat fst snd chain offsets combine] in *. rewrite <- app_assoc.
    rewrite (read_at_renders au pre a x (concat (map snd axs) ++ post) Ha). cbn [snd]. f_equal.
    rewrite <- app_length. rewrite app_assoc. apply IH; assumption.
Qed.

Lemma map_snd_pair {A} (f : A -> str) (g : A -> aln) l : map snd (map (fun p => (g p, f p)) l) = map f l.
Proof. rewrite map_map. reflexivity. Qed.
Lemma map_got_pair {A} (f : A -> str) (g : A -> aln) l :
  map (fun ax : aln * str => got (fst ax)) (map (fun p => (g p, f p)) l) = map (fun p => got (g p)) l.
Proof. rewrite map_map. reflexivity. Qed.

(* files written by write_stockholm, any leading bytes the caller consumed, anything behind, detection or not at each step *)
Theorem chain_offsets alns flags pre post : forallb wf_aln alns = true -> length flags = length alns ->
  chain flags (pre ++ concat (map write_text alns) ++ post) (length pre)
  = combine (map got alns) (offsets (length pre) (map write_text alns)).
Proof.
  intros H HL.
  pose proof (chain_renders (map (fun a => (a, write_text a)) alns) flags pre post) as C.
  rewrite (map_snd_pair write_text (fun a => a)), (map_got_pair write_text (fun a => a)), map_length in C. apply C; [|exact HL].
  apply Forall_forall. intros ax Hin. apply in_map_iff in Hin. destruct Hin as (a & <- & Ha). cbn [fst snd].
  apply renders_write. rewrite forallb_forall in H. apply H. exact Ha.
Qed.

(* every alignment in its own block layout *)
Definition wf_layout (p : aln * nat) : bool := wf_aln (fst p) && Nat.leb 1 (snd p).
Definition layout_text (p : aln * nat) : str := render_blocks (snd p) (fst p).
Theorem chain_any_layout ps flags pre post : forallb wf_layout ps = true -> length flags = length ps ->
  chain flags (pre ++ concat (map layout_text ps) ++ post) (length pre)
  = combine (map (fun p => got (fst p)) ps) (offsets (length pre) (map layout_text ps)).
Proof.
  intros H HL.
  pose proof (chain_renders (map (fun p => (fst p, layout_text p)) ps) flags pre post) as C.
  rewrite (map_snd_pair layout_text fst), (map_got_pair layout_text fst), map_length in C. apply C; [|exact HL].
  apply Forall_forall. intros ax Hin. apply in_map_iff in Hin. destruct Hin as (p & <- & Hp). cbn [fst snd].
  rewrite forallb_forall in H. specialize (H p Hp). unfold wf_layout in H. apply andb_prop in H. destruct H as [H1 H2].
  apply renders_blocks; [exact H1|apply Nat.leb_le; exact H2].
Qed.

(* the offsets tile the file: the last one is the end of the last alignment *)
Lemma offsets_last texts : forall off, last (offsets off texts) off = off + length (concat texts).
Proof.
  induction texts as [|x r IH]; intros off; [cbn; lia|].
  cbn [offsets concat]. rewrite app_length.
  destruct r as [|y r']; [cbn; lia|].
  change (last (off + length x :: offsets (off + length x) (y :: r')) off) with (last (offsets (off + length x) (y :: r')) off).
  assert (L : forall d1 d2 o, last (offsets o (y :: r')) d1 = last (offsets o (y :: r')) d2).
  { intros d1 d2 o. cbn [offsets]. generalize (offsets (o + length y) r'). intros l. revert d1 d2.
    generalize (o + length y). induction l as [|z l IHl]; intros n d1 d2; [reflexivity|]. cbn [last]. destruct l; [reflexivity|]. apply (IHl z). }
  rewrite (L off (off + length x)). rewrite IH. lia.
Qed.
Lemma offsets_length off texts : length (offsets off texts) = length texts.
Proof. revert off. induction texts as [|x r IH]; intros off; [reflexivity|]. cbn. rewrite IH. reflexivity. Qed.

(* after the last alignment: an empty basket (format given), the handle stays at the end of the file *)
Theorem chain_then_empty alns flags pre : forallb wf_aln alns = true -> length flags = length alns ->
  let t := pre ++ concat (map write_text alns) in
  chain (flags ++ [false]) t (length pre)
  = combine (map got alns) (offsets (length pre) (map write_text alns)) ++ [(empty_read, length t)].
Proof.
  intros H HL t.
  assert (G : forall fl t off, chain (fl ++ [false]) t off
              = chain fl t off ++ [read_at false t (last (map snd (chain fl t off)) off)]).
  { induction fl as [|au fl IH]; intros t0 off; [reflexivity|]. cbn [app chain map]. rewrite IH. cbn [app]. f_equal. f_equal. f_equal.
    destruct (chain fl t0 (snd (read_at au t0 off))) eqn:E; [reflexivity|]. cbn [map].
    generalize (map snd l). generalize (snd p). intros n l0. revert n.
    induction l0 as [|z l0 IHl]; intros n; [reflexivity|]. cbn [last]. destruct l0; [reflexivity|]. apply (IHl z). }
  rewrite G. subst t.
  pose proof (chain_offsets alns flags pre [] H HL) as C. rewrite app_nil_r in C. rewrite C. f_equal. f_equal.
  assert (S : map snd (combine (map got alns) (offsets (length pre) (map write_text alns))) = offsets (length pre) (map write_text alns)).
  { assert (Hl : length (map got alns) = length (offsets (length pre) (map write_text alns))) by (rewrite offsets_length, !map_length; reflexivity).
    revert Hl. generalize (offsets (length pre) (map write_text alns)). generalize (map got alns).
    induction l as [|u l IHl]; intros [|v l']; cbn; intros Hl; try discriminate; [reflexivity|]. f_equal. apply IHl. lia. }
  rewrite S, offsets_last. rewrite <- app_length. apply read_at_eof.
Qed.

(* the handle positioned by the caller behind the first k alignments (seek, or earlier reads): alignment k is returned *)
Theorem read_at_kth alns k a pre post auto : forallb wf_aln alns = true -> nth_error alns k = Some a ->
  let texts := map write_text alns in
  let off := length pre + length (concat (firstn k texts)) in
  read_at auto (pre ++ concat texts ++ post) off = (got a, off + length (write_text a)).
Proof.
  intros H Hn texts off. subst texts off.
  destruct (nth_error_split alns k Hn) as (l1 & l2 & -> & Hk). subst k.
  rewrite !map_app, firstn_app, map_length, Nat.sub_diag. cbn [map firstn]. rewrite app_nil_r.
  rewrite <- (map_length write_text l1) at 1 2. rewrite firstn_all. rewrite !concat_app. cbn [concat].
  rewrite <- app_length. rewrite <- !app_assoc. rewrite (app_assoc pre).
  apply read_at_renders. apply renders_write.
  rewrite forallb_app in H. apply andb_prop in H. destruct H as [_ H]. cbn [forallb] in H. apply andb_prop in H. apply H.
Qed.

(* ------------------------------------------------------------------ the converter *)
Theorem convert_fixpoint a : wf_aln a = true -> convert_text false (write_text a) = Some (write_text a).
Proof. intros H. unfold convert_text. rewrite (stk_roundtrip a H). cbn [fst]. rewrite app_nil_r. reflexivity. Qed.

Theorem convert_blocks bw a stdout : wf_aln a = true -> 1 <= bw ->
  exists out, convert_text stdout (render_blocks bw a) = Some out
              /\ out = write_text a ++ (if stdout then [NL] else [])
              /\ fst (read_text out) = Some a.
Proof.
  intros H Hb. exists (write_text a ++ (if stdout then [NL] else [])). split; [|split; [reflexivity|]].
  - unfold convert_text. destruct (stk_interleave bw a H Hb) as [_ R]. rewrite R. reflexivity.
  - rewrite (read_write_rest a _ H). reflexivity.
Qed.

(* iter_ yields every sequence of the written alignment with its own GS / GR, in order; also from any block layout *)
Theorem iter_rows a : wf_aln a = true ->
  iter_text (write_text a) = Some (a_rows a) /\ (forall bw, 1 <= bw -> iter_text (render_blocks bw a) = Some (a_rows a)).
Proof.
  intros H. unfold iter_text. split.
  - rewrite (stk_roundtrip a H). reflexivity.
  - intros bw Hb. destruct (stk_interleave bw a H Hb) as [_ R]. rewrite R. reflexivity.
Qed.

(* ------------------------------------------------------------------ line layout of the writer *)
Lemma length_flat_map {A B} (g : A -> list B) l : length (flat_map g l) = list_sum (map (fun x => length (g x)) l).
Proof. induction l as [|x l IH]; [reflexivity|]. cbn. rewrite app_length, IH. reflexivity. Qed.
Lemma list_sum_S {A} (g : A -> nat) l : list_sum (map (fun x => S (g x)) l) = length l + list_sum (map g l).
Proof. induction l as [|x l IH]; [reflexivity|]. unfold list_sum in *. cbn [map length fold_right]. rewrite IH. lia. Qed.

Definition n_gs (a : aln) : nat := list_sum (map (fun r => length (r_gs r)) (a_rows a)).
Definition n_gr (a : aln) : nat := list_sum (map (fun r => length (r_gr r)) (a_rows a)).

Theorem write_layout a : wf_aln a = true ->
  py_lines (write_text a) = map addnl (content_lines a) ++ [ENDL]
  /\ length (py_lines (write_text a)) = 2 + length (a_gf a) + n_gs a + length (a_rows a) + n_gr a + length (a_gc a).
Proof.
  intros H. pose proof (wf_aln_ok a H) as Hok.
  assert (P : py_lines (write_text a) = map addnl (content_lines a) ++ [ENDL]).
  { unfold write_text. rewrite write_lines_eq, join_snoc. rewrite (py_lines_lines _ _ (lines_no_nl a Hok)). reflexivity. }
  split; [exact P|]. rewrite P, app_length, map_length. unfold content_lines. cbn [length].
  rewrite !app_length, !map_length, !length_flat_map. unfold gs_lines, seq_lines, n_gs, n_gr.
  rewrite (map_ext (fun r => length (map (kvline GSt (r_id r ++ [SP])) (r_gs r))) (fun r => length (r_gs r)))
    by (intros; apply map_length).
  rewrite (map_ext (fun r => length ((r_id r ++ SP :: r_data r) :: map (kvline GRt (r_id r ++ [SP])) (r_gr r))) (fun r => S (length (r_gr r))))
    by (intros; cbn [length]; rewrite map_length; reflexivity).
  rewrite list_sum_S. lia.
Qed.

(* ------------------------------------------------------------------ widths of column annotations *)
Lemma length_concat (l : list str) : length (concat l) = list_sum (map (@length byte) l).
Proof. induction l as [|x l IH]; [reflexivity|]. cbn. rewrite app_length, IH. reflexivity. Qed.

(* a file whose GC (GR) fragments are, block by block, as wide as the fragments of a sequence row reads to a GC (GR)
   annotation exactly as wide as that row, whatever the placement of the lines *)
Theorem width_invariant its i d ds : seq_frags i its = d :: ds ->
  let S := fold_left step its st0 in
  exists y, lookup i (s_seqs S) = Some y /\ length y = list_sum (map (@length byte) (d :: ds))
  /\ (forall k v vs, gc_frags k its = v :: vs -> map (@length byte) (v :: vs) = map (@length byte) (d :: ds) ->
        exists x, lookup k (s_gc S) = Some x /\ length x = length y)
  /\ (forall j k v vs, gr_frags j k its = v :: vs -> map (@length byte) (v :: vs) = map (@length byte) (d :: ds) ->
        exists x, lookup k (getd j (s_gr S)) = Some x /\ length x = length y).
Proof.
  intros Hs S. destruct (stk_columns_anywhere its) as (Cgc & Cseq & Cgr).
  exists (concat (d :: ds)). split; [apply Cseq; exact Hs|]. split; [apply length_concat|]. split.
  - intros k v vs Hk Hl. exists (concat (v :: vs)). split; [apply Cgc; exact Hk|]. rewrite !length_concat, Hl. reflexivity.
  - intros j k v vs Hk Hl. exists (concat (v :: vs)). split; [apply Cgr; exact Hk|]. rewrite !length_concat, Hl. reflexivity.
Qed.

(* the alignment read back from any block width has every row, GR and GC value of the alignment's width *)
Definition all_width (a : aln) (w : nat) : bool :=
  forallb (fun r => Nat.eqb (length (r_data r)) w && forallb (fun kv => Nat.eqb (length (snd kv)) w) (r_gr r)) (a_rows a)
  && forallb (fun kv => Nat.eqb (length (snd kv)) w) (a_gc a).
Lemma wf_all_width a : wf_aln a = true -> all_width a (width a) = true.
Proof.
  unfold wf_aln, all_width. intros H.
  repeat (apply andb_prop in H; let H2 := fresh "H" in destruct H as [H H2]).
  apply andb_true_intro. split.
  - apply forallb_forall. intros r Hr. rewrite forallb_forall in H3. specialize (H3 r Hr). unfold wf_row in H3.
    repeat (apply andb_prop in H3; let H2 := fresh "K" in destruct H3 as [H3 H2]).
    unfold wf_data, wf_col in K1. apply andb_prop in K1. destruct K1 as [K1 _]. apply andb_prop in K1. destruct K1 as [_ K1]. rewrite K1. cbn [andb].
    unfold wf_dict in K. apply andb_prop in K. destruct K as [K _]. apply forallb_forall. intros kv Hkv. rewrite forallb_forall in K.
    specialize (K kv Hkv). apply andb_prop in K. destruct K as [_ K]. unfold wf_col in K. apply andb_prop in K. apply K.
  - unfold wf_dict in H0. apply andb_prop in H0. destruct H0 as [K _]. apply forallb_forall. intros kv Hkv. rewrite forallb_forall in K.
    specialize (K kv Hkv). apply andb_prop in K. destruct K as [_ K]. unfold wf_col in K. apply andb_prop in K. apply K.
Qed.
Theorem read_widths bw a rest : wf_aln a = true -> 1 <= bw ->
  exists b, read_text (render_blocks bw a ++ rest) = (Some b, rest) /\ all_width b (width a) = true /\ width b = width a.
Proof.
  intros H Hb. exists a. split; [apply read_blocks_rest; assumption|]. split; [apply wf_all_width; exact H|reflexivity].
Qed.
