(* C13 proofs: matcher soundness/completeness, finditer, gap counting and frames, span/strand statements. *)
From Coq Require Import List ZArith NArith Bool Lia.
From Coq.Strings Require Import Byte.
Import ListNotations.
From SV Require Import Text G_codes C05_Model C13_Model.
Local Open Scope Z_scope.

(* ------------------------------------------------------------------ generic list facts *)
Lemma first_some_hd {A B} (f : A -> option B) l : first_some f l = hd_error (filter_map f l).
Proof. induction l as [|x l IH]; [reflexivity|]. cbn. destruct (f x); [reflexivity|exact IH]. Qed.

Lemma in_filter_map {A B} (f : A -> option B) l y :
  In y (filter_map f l) <-> exists x, In x l /\ f x = Some y.
Proof.
  induction l as [|x l IH]; cbn.
  - split; [tauto|]. intros (x & [] & _).
  - destruct (f x) eqn:E.
    + cbn. rewrite IH. split.
      * intros [H|(x' & Hi & Hf)]; [exists x; subst; auto|exists x'; auto].
      * intros (x' & [Hx|Hi] & Hf); [subst; left; congruence|right; exists x'; auto].
    + rewrite IH. split.
      * intros (x' & Hi & Hf). exists x'; auto.
      * intros (x' & [Hx|Hi] & Hf); [subst; congruence|exists x'; auto].
Qed.

Lemma hd_error_app {A} (a b : list A) :
  hd_error (a ++ b) = match hd_error a with Some x => Some x | None => hd_error b end.
Proof. destruct a; reflexivity. Qed.

Lemma firstn_repeat {A} (x : A) k t : firstn k (repeat x k ++ t) = repeat x k.
Proof. induction k; cbn; [reflexivity|]. now rewrite IHk. Qed.
Lemma skipn_repeat {A} (x : A) k t : skipn k (repeat x k ++ t) = t.
Proof. induction k; cbn; [reflexivity|]. exact IHk. Qed.

(* ------------------------------------------------------------------ the matcher *)
Definition all_in (g : str) (l : str) : bool := forallb (fun x => has x g) l.

Lemma star_aux_sound g k s n :
  star_aux g k s = Some n ->
  exists j n', n = (j + n')%nat /\ (j <= length s)%nat /\ all_in g (firstn j s) = true /\ k (skipn j s) = Some n'.
Proof.
  revert n. induction s as [|x s IH]; intros n H; cbn in H.
  - exists 0%nat, n. cbn. auto.
  - destruct (has x g) eqn:E.
    + destruct (star_aux g k s) as [m|] eqn:Es.
      * inversion H; subst n. destruct (IH m eq_refl) as (j & n' & -> & Hl & Hf & Hk).
        exists (S j), n'. cbn [firstn skipn length]. unfold all_in in *. cbn [forallb]. rewrite E, Hf. repeat split; auto; lia.
      * exists 0%nat, n. cbn. repeat split; auto; lia.
    + exists 0%nat, n. cbn. repeat split; auto; lia.
Qed.

Lemma m_items_sound its : forall s n, m_items its s = Some n -> (n <= length s)%nat /\ irel its (firstn n s).
Proof.
  induction its as [|it r IH]; intros s n H.
  - cbn in H. inversion H. cbn. split; [lia|constructor].
  - destruct it as [c| |g]; cbn [m_items] in H.
    + destruct s as [|x s]; [discriminate|]. destruct (byte_eqb x c) eqn:E; [|discriminate].
      destruct (m_items r s) as [m|] eqn:Em; [|discriminate]. cbn in H. inversion H; subst n.
      apply byte_eqb_eq in E; subst x. destruct (IH _ _ Em) as [Hl Hr]. cbn. split; [lia|now constructor].
    + destruct s as [|x s]; [discriminate|]. destruct (byte_eqb x cnl) eqn:E; [discriminate|].
      destruct (m_items r s) as [m|] eqn:Em; [|discriminate]. cbn in H. inversion H; subst n.
      apply byte_eqb_neq in E. destruct (IH _ _ Em) as [Hl Hr]. cbn. split; [lia|now constructor].
    + apply star_aux_sound in H. destruct H as (j & n' & -> & Hl & Hf & Hk).
      destruct (IH _ _ Hk) as [Hl' Hr]. rewrite skipn_length in Hl'. split; [lia|].
      rewrite <- (firstn_skipn j s) at 1.
      rewrite firstn_app. rewrite firstn_length_le by lia.
      replace (j + n' - j)%nat with n' by lia.
      rewrite firstn_all2 by (rewrite firstn_length_le; lia). now constructor.
Qed.

Lemma star_aux_not_none g k s : k s <> None -> star_aux g k s <> None.
Proof.
  destruct s as [|x s]; cbn; [auto|]. intros H. destruct (has x g); [|exact H].
  destruct (star_aux g k s); [discriminate|exact H].
Qed.
Lemma star_aux_gaps g k gs s : all_in g gs = true -> k s <> None -> star_aux g k (gs ++ s) <> None.
Proof.
  intros Hg H. induction gs as [|x gs IH]; cbn [app].
  - now apply star_aux_not_none.
  - unfold all_in in Hg. cbn [forallb] in Hg. apply andb_prop in Hg. destruct Hg as [Hx Hg].
    cbn. rewrite Hx. specialize (IH Hg). destruct (star_aux g k (gs ++ s)); [discriminate|contradiction].
Qed.

(* backtracking is complete: if some prefix of the input matches the word, the matcher reports a match *)
Lemma m_items_complete its t : irel its t -> forall u, m_items its (t ++ u) <> None.
Proof.
  induction 1 as [|c r t _ IH|x r t Hx _ IH|g gs r t Hgs _ IH]; intros u.
  - cbn. discriminate.
  - cbn. rewrite byte_eqb_refl. specialize (IH u). destruct (m_items r (t ++ u)); [discriminate|contradiction].
  - cbn. apply byte_eqb_neq in Hx. rewrite Hx. specialize (IH u). destruct (m_items r (t ++ u)); [discriminate|contradiction].
  - cbn [m_items]. rewrite <- app_assoc. apply star_aux_gaps; [exact Hgs|apply IH].
Qed.

Lemma m_alts_sound alts s n : m_alts alts s = Some n -> exists a, In a alts /\ m_items a s = Some n.
Proof.
  induction alts as [|a r IH]; cbn; [discriminate|].
  destruct (m_items a s) eqn:E.
  - intros H; inversion H; subst. exists a; auto.
  - intros H. destruct (IH H) as (a' & Hi & Hm). exists a'; auto.
Qed.
Lemma m_alts_none alts s : m_alts alts s = None -> forall a, In a alts -> m_items a s = None.
Proof.
  induction alts as [|a r IH]; cbn; [intros _ a []|].
  destruct (m_items a s) eqn:E; [discriminate|]. intros H a' [<-|Hi]; auto.
Qed.

(* ------------------------------------------------------------------ finditer *)
Lemma chain_weaken l : forall lo lo', (lo' <= lo)%nat -> chain lo l -> chain lo' l.
Proof. destruct l as [|[b e] r]; cbn; [auto|]. intros lo lo' H (H1 & H2 & H3). repeat split; auto; lia. Qed.

Lemma finditer_chain alts s : forall pos skip, chain (pos + skip) (finditer alts s pos skip).
Proof.
  induction s as [|x s IH]; intros pos skip; cbn [finditer]; [exact I|].
  destruct skip as [|k].
  - destruct (m_alts alts (x :: s)) as [[|n]|] eqn:E.
    + eapply chain_weaken; [|apply IH]. lia.
    + cbn [chain]. repeat split; try lia. eapply chain_weaken; [|apply IH]. lia.
    + eapply chain_weaken; [|apply IH]. lia.
  - eapply chain_weaken; [|apply IH]. lia.
Qed.

Lemma finditer_sound alts s : forall pos skip b e, In (b, e) (finditer alts s pos skip) ->
  (pos + skip <= b)%nat /\ (b < e)%nat /\ (e <= pos + length s)%nat /\ m_alts alts (skipn (b - pos) s) = Some (e - b)%nat.
Proof.
  induction s as [|x s IH]; intros pos skip b e H; cbn [finditer] in H; [destruct H|].
  assert (Hrec : forall k, In (b, e) (finditer alts s (S pos) k) ->
            (S pos + k <= b)%nat /\ (b < e)%nat /\ (e <= pos + length (x :: s))%nat /\ m_alts alts (skipn (b - pos) (x :: s)) = Some (e - b)%nat).
  { intros k Hk. destruct (IH _ _ _ _ Hk) as (H1 & H2 & H3 & H4). cbn [length]. repeat split; try lia.
    replace (b - pos)%nat with (S (b - S pos)) by lia. exact H4. }
  destruct skip as [|k].
  - destruct (m_alts alts (x :: s)) as [[|n]|] eqn:E.
    + destruct (Hrec _ H) as (H1 & H2 & H3 & H4). repeat split; auto; lia.
    + destruct H as [H|H].
      * inversion H; subst b e. cbn [length]. pose proof (m_alts_sound _ _ _ E) as (a & _ & Hm).
        apply m_items_sound in Hm. cbn [length] in Hm. repeat split; try lia.
        replace (pos - pos)%nat with 0%nat by lia. replace (pos + S n - pos)%nat with (S n) by lia. exact E.
      * destruct (Hrec _ H) as (H1 & H2 & H3 & H4). repeat split; auto; lia.
    + destruct (Hrec _ H) as (H1 & H2 & H3 & H4). repeat split; auto; lia.
  - destruct (Hrec _ H) as (H1 & H2 & H3 & H4). repeat split; auto; lia.
Qed.

(* leftmost completeness: an occurrence that is not stepped over is reported or lies inside a reported span *)
Lemma finditer_complete alts s : forall pos skip p n, (skip <= p)%nat ->
  m_alts alts (skipn p s) = Some (S n) ->
  exists b e, In (b, e) (finditer alts s pos skip) /\ (b <= pos + p)%nat /\ (pos + p < e)%nat.
Proof.
  induction s as [|x s IH]; intros pos skip p n Hp H.
  - rewrite skipn_nil in H. apply m_alts_sound in H. destruct H as (a & _ & Hm). apply m_items_sound in Hm. cbn in Hm. lia.
  - cbn [finditer]. destruct skip as [|k].
    + destruct (m_alts alts (x :: s)) as [[|m]|] eqn:E.
      * destruct p as [|p]; [cbn in H; congruence|]. cbn [skipn] in H.
        destruct (IH (S pos) 0%nat p n ltac:(lia) H) as (b & e & Hi & H1 & H2). exists b, e. repeat split; auto; lia.
      * destruct (Nat.le_gt_cases p m) as [Hle|Hgt].
        -- exists pos, (pos + S m)%nat. split; [left; reflexivity|lia].
        -- destruct p as [|p]; [lia|]. cbn [skipn] in H.
           destruct (IH (S pos) m p n ltac:(lia) H) as (b & e & Hi & H1 & H2). exists b, e. split; [right; exact Hi|lia].
      * destruct p as [|p]; [cbn in H; congruence|]. cbn [skipn] in H.
        destruct (IH (S pos) 0%nat p n ltac:(lia) H) as (b & e & Hi & H1 & H2). exists b, e. repeat split; auto; lia.
    + destruct p as [|p]; [lia|]. cbn [skipn] in H.
      destruct (IH (S pos) k p n ltac:(lia) H) as (b & e & Hi & H1 & H2). exists b, e. repeat split; auto; lia.
Qed.

(* ------------------------------------------------------------------ gap positions, bisect, frames *)
Fixpoint cnt (g : str) (s : str) (pos start i : Z) : Z :=
  match s with
  | [] => 0
  | x :: r => (if has x g && (start <=? pos) && (pos <? i) then 1 else 0) + cnt g r (pos + 1) start i
  end.
Lemma cnt_zero g s : forall pos start i, i <= pos -> cnt g s pos start i = 0.
Proof.
  induction s as [|x s IH]; intros pos start i H; cbn [cnt]; [reflexivity|].
  rewrite IH by lia. destruct (has x g), (start <=? pos) eqn:E1, (pos <? i) eqn:E2; cbn; lia.
Qed.
Lemma bisect_cnt g s : forall pos start i, bisect (gap_positions g s pos start) i = cnt g s pos start i.
Proof.
  induction s as [|x s IH]; intros pos start i; cbn [gap_positions cnt]; [reflexivity|].
  destruct (has x g) eqn:Ex; cbn [andb app].
  - destruct (start <=? pos) eqn:E1; cbn [andb app].
    + cbn [bisect]. destruct (pos <? i) eqn:E2.
      * rewrite IH. reflexivity.
      * rewrite cnt_zero by lia. reflexivity.
    + rewrite IH. lia.
  - rewrite IH. lia.
Qed.

Definition countg (g : str) (t : str) : Z := Z.of_nat (length (filter (fun c => has c g) t)).
Lemma countg_cons g x t : countg g (x :: t) = (if has x g then 1 else 0) + countg g t.
Proof. unfold countg. cbn [filter]. destruct (has x g); cbn [length]; lia. Qed.

Lemma slice_nil b e : slice b e [] = [].
Proof. unfold slice. rewrite skipn_nil. apply firstn_nil. Qed.
Lemma slice_cons_0 e x s : slice 0 (S e) (x :: s) = x :: slice 0 e s.
Proof. unfold slice. cbn. now rewrite Nat.sub_0_r. Qed.
Lemma slice_cons_S b e x s : slice (S b) (S e) (x :: s) = slice b e s.
Proof. reflexivity. Qed.
Lemma slice_empty b s : slice b 0 s = [].
Proof. reflexivity. Qed.
Lemma slice_S0 b x s : slice (S b) 0 (x :: s) = [].
Proof. reflexivity. Qed.

Lemma cnt_slice g s : forall pos start i,
  cnt g s pos start i = countg g (slice (Z.to_nat (start - pos)) (Z.to_nat (i - pos)) s).
Proof.
  induction s as [|x s IH]; intros pos start i; cbn [cnt].
  - rewrite slice_nil. reflexivity.
  - rewrite IH.
    destruct (Z.to_nat (start - pos)) as [|lo] eqn:Elo; destruct (Z.to_nat (i - pos)) as [|hi] eqn:Ehi.
    + rewrite slice_empty.
      replace (Z.to_nat (start - (pos + 1))) with 0%nat by lia. replace (Z.to_nat (i - (pos + 1))) with 0%nat by lia.
      rewrite slice_empty. destruct (has x g), (start <=? pos) eqn:E1, (pos <? i) eqn:E2; cbn; lia.
    + replace (Z.to_nat (start - (pos + 1))) with 0%nat by lia. replace (Z.to_nat (i - (pos + 1))) with hi by lia.
      rewrite slice_cons_0, countg_cons.
      destruct (has x g), (start <=? pos) eqn:E1, (pos <? i) eqn:E2; cbn; lia.
    + rewrite slice_S0.
      replace (Z.to_nat (i - (pos + 1))) with 0%nat by lia. rewrite slice_empty.
      destruct (has x g), (start <=? pos) eqn:E1, (pos <? i) eqn:E2; cbn; lia.
    + replace (Z.to_nat (start - (pos + 1))) with lo by lia. replace (Z.to_nat (i - (pos + 1))) with hi by lia.
      rewrite slice_cons_S.
      destruct (has x g), (start <=? pos) eqn:E1, (pos <? i) eqn:E2; cbn; lia.
Qed.

Lemma nth_error_skipn_add {A} (s : list A) : forall st k, nth_error (skipn st s) k = nth_error s (st + k).
Proof. induction s as [|x s IH]; intros [|st] k; cbn; auto. now destruct k. Qed.
Lemma firstn_snoc {A} (t : list A) : forall k x, nth_error t k = Some x -> firstn (S k) t = firstn k t ++ [x].
Proof.
  induction t as [|y t IH]; intros [|k] x H; cbn in H; try discriminate.
  - inversion H; reflexivity.
  - change (y :: firstn (S k) t = y :: (firstn k t ++ [x])). f_equal. apply IH. exact H.
Qed.
Lemma slice_snoc s st b x : (st <= b)%nat -> nth_error s b = Some x -> slice st (S b) s = slice st b s ++ [x].
Proof.
  intros H Hn. unfold slice. replace (S b - st)%nat with (S (b - st)) by lia.
  apply firstn_snoc. rewrite nth_error_skipn_add. replace (st + (b - st))%nat with b by lia. exact Hn.
Qed.
Lemma slice_length s st b : (st <= b)%nat -> (b <= length s)%nat -> length (slice st b s) = (b - st)%nat.
Proof. intros H1 H2. unfold slice. rewrite firstn_length_le; [reflexivity|]. rewrite skipn_length. lia. Qed.
Lemma countg_app g a b : countg g (a ++ b) = countg g a + countg g b.
Proof. unfold countg. rewrite filter_app, app_length. lia. Qed.
Lemma residues_some g t : residues (Some g) t = Z.of_nat (length t) - countg g t.
Proof.
  unfold residues, countg, is_gap. induction t as [|x t IH]; [reflexivity|].
  cbn [filter length]. destruct (has x g); cbn [negb length]; lia.
Qed.
Lemma residues_none t : residues None t = Z.of_nat (length t).
Proof. unfold residues, is_gap. induction t as [|x t IH]; [reflexivity|]. cbn [filter negb length] in *. lia. Qed.

(* P0 frame_is_residue_count: the frame computed by the code is the number of residues (non-gap characters) between the
   start offset and the match column, modulo 3 *)
Lemma frame_formula gap s start b : 0 <= start <= Z.of_nat b -> (b <= length s)%nat ->
  frame_of (option_map (fun g => gap_positions g s 0 start) gap) start (Z.of_nat b)
  = residues gap (slice (Z.to_nat start) b s) mod 3.
Proof.
  intros Hs Hb. unfold frame_of. f_equal. destruct gap as [g|]; cbn [option_map].
  - rewrite bisect_cnt, cnt_slice. rewrite residues_some.
    replace (Z.to_nat (start - 0)) with (Z.to_nat start) by lia.
    replace (Z.to_nat (Z.of_nat b - 0)) with b by lia.
    rewrite slice_length by lia. lia.
  - rewrite residues_none, slice_length by lia. lia.
Qed.

(* ------------------------------------------------------------------ strands *)
From SV Require Import C05_Lemmas.
Lemma complement_cmap s : complement s = map (cmap (has cU s)) s.
Proof.
  unfold complement, cmap, t2u, u2t, replace1, py_translate. destruct (has cU s); rewrite ?map_map; reflexivity.
Qed.
Lemma rc_as_map s : rc s = rev (map (cmap (has cU s)) s).
Proof. unfold rc, reverse. rewrite complement_cmap, has_rev, map_rev. reflexivity. Qed.

Lemma slice_rev {A} (l : list A) b e : (b <= e)%nat -> (e <= length l)%nat ->
  firstn (e - b) (skipn b (rev l)) = rev (firstn ((length l - b) - (length l - e)) (skipn (length l - e) l)).
Proof.
  intros H1 H2. rewrite skipn_rev, firstn_rev. f_equal.
  rewrite firstn_length_le by lia. rewrite skipn_firstn_comm.
  replace (length l - b - (e - b))%nat with (length l - e)%nat by lia. reflexivity.
Qed.
Lemma slice_map f b e (s : str) : slice b e (map f s) = map f (slice b e s).
Proof. unfold slice. now rewrite skipn_map, firstn_map. Qed.
Lemma slice_rc s b e : (b <= e)%nat -> (e <= length s)%nat ->
  slice b e (rc s) = rev (map (cmap (has cU s)) (slice (length s - e) (length s - b) s)).
Proof.
  intros H1 H2. rewrite rc_as_map. unfold slice at 1. rewrite slice_rev by (rewrite ?map_length; lia).
  rewrite map_length. f_equal. fold (slice (length s - e) (length s - b) (map (cmap (has cU s)) s)). apply slice_map.
Qed.

(* ------------------------------------------------------------------ one reported match *)
Lemma zmem_In z l : zmem z l = true <-> In z l.
Proof.
  unfold zmem. rewrite existsb_exists. split.
  - intros (x & Hi & He). apply Z.eqb_eq in He. now subst.
  - intros H. exists z. split; [exact H|apply Z.eqb_refl].
Qed.

Lemma raw_pass_spec gap sub s start b e :
  In (b, e) (raw_pass (compile gap (expand_sub sub)) s start) ->
  (b < e <= length s)%nat /\ start <= Z.of_nat b /\ word_match gap sub (slice b e s).
Proof.
  unfold raw_pass. rewrite filter_In. cbn [fst]. intros [Hi Hs]. apply Z.leb_le in Hs.
  apply finditer_sound in Hi. destruct Hi as (_ & H2 & H3 & H4). cbn in H3.
  repeat split; try lia.
  rewrite Nat.sub_0_r in H4. apply m_alts_sound in H4. destruct H4 as (a & Ha & Hm).
  apply m_items_sound in Hm. destruct Hm as [_ Hm].
  unfold compile in Ha. apply in_map_iff in Ha. destruct Ha as (w & <- & Hw).
  exists w. split; [exact Hw|exact Hm].
Qed.

Lemma fwd_one_spec gap sub s start rfn b e m : 0 <= start ->
  In (b, e) (raw_pass (compile gap (expand_sub sub)) s start) ->
  fwd_one s start (fwd_gaps gap rfn s start) rfn (b, e) = Some m ->
  fwd_spec s sub rfn start gap m.
Proof.
  intros H0 Hi Hf. apply raw_pass_spec in Hi. destruct Hi as (Hbe & Hs & Hw).
  exists b, e. unfold fwd_one in Hf. destruct rfn as [l|].
  - destruct (zmem _ l) eqn:Ez; [|discriminate]. inversion Hf; subst m; clear Hf. cbn.
    repeat split; auto; try lia.
    eexists. split; [reflexivity|]. apply zmem_In in Ez. split; [exact Ez|].
    split; [unfold frame_of; apply Z.mod_pos_bound; lia|].
    replace (fwd_gaps gap (Some l) s start) with (option_map (fun g => gap_positions g s 0 start) gap)
      by (destruct gap; reflexivity).
    apply frame_formula; lia.
  - inversion Hf; subst m. cbn. repeat split; auto; lia.
Qed.

Lemma bwd_one_spec gap sub s start l b e m : 0 <= start ->
  In (b, e) (raw_pass (compile gap (expand_sub sub)) (rc s) start) ->
  bwd_one (rc s) start (bwd_gaps gap (rc s) start) l (b, e) = Some m ->
  bwd_spec s sub l start gap m.
Proof.
  intros H0 Hi Hf. apply raw_pass_spec in Hi. destruct Hi as (Hbe & Hs & Hw). rewrite rc_length in Hbe.
  exists b, e. unfold bwd_one in Hf.
  set (t := frame_of (bwd_gaps gap (rc s) start) start (Z.of_nat b)) in *.
  destruct (zmem (-1 * t - 1) l) eqn:Ez; [|discriminate]. inversion Hf; subst m; clear Hf. cbn.
  assert (Ht : 0 <= t < 3) by (unfold t, frame_of; apply Z.mod_pos_bound; lia).
  rewrite rc_length. repeat split; auto; try lia.
  - apply slice_rc; lia.
  - exists (-1 * t - 1). split; [reflexivity|]. apply zmem_In in Ez. split; [exact Ez|]. split; [lia|].
    replace (- (-1 * t - 1) - 1) with t by lia. unfold t, bwd_gaps. apply frame_formula; [lia|rewrite rc_length; lia].
Qed.

(* ------------------------------------------------------------------ matchall / match / baskets *)
Lemma fwd_list_spec gap sub s start rfn m : 0 <= start ->
  In m (fwd_list (compile gap (expand_sub sub)) s start gap rfn) -> fwd_spec s sub rfn start gap m.
Proof.
  intros H0. unfold fwd_list. destruct (runs_fwd rfn); [|intros []].
  rewrite in_filter_map. intros ([b e] & Hi & Hf). eapply fwd_one_spec; eauto.
Qed.
Lemma bwd_list_spec gap sub s start rfn m : 0 <= start ->
  In m (bwd_list (compile gap (expand_sub sub)) s start gap rfn) -> exists l, rfn = Some l /\ bwd_spec s sub l start gap m.
Proof.
  intros H0. unfold bwd_list. destruct rfn as [l|]; [|intros []]. destruct (has_bwd l); [|intros []].
  cbv zeta. rewrite in_filter_map. intros ([b e] & Hi & Hf). exists l. split; [reflexivity|]. eapply bwd_one_spec; eauto.
Qed.

Lemma matchall_sound s sub rf start gap out : 0 <= start ->
  matchall s sub rf start gap = Some out ->
  exists rfn F B, norm_rf rf = Some rfn /\ out = F ++ B /\
    (forall m, In m F -> fwd_spec s sub rfn start gap m) /\
    (forall m, In m B -> exists l, rfn = Some l /\ bwd_spec s sub l start gap m).
Proof.
  intros H0. unfold matchall. destruct (norm_rf rf) as [rfn|]; [|discriminate]. intros H; inversion H; subst out; clear H.
  exists rfn, (fwd_list (compile gap (expand_sub sub)) s start gap rfn), (bwd_list (compile gap (expand_sub sub)) s start gap rfn).
  repeat split; auto.
  - intros m. now apply fwd_list_spec.
  - intros m. now apply bwd_list_spec.
Qed.

(* match() is the head of matchall() *)
Lemma match_first_hd s sub rf start gap :
  match_first s sub rf start gap = option_map (@hd_error bm) (matchall s sub rf start gap).
Proof.
  unfold match_first, matchall. destruct (norm_rf rf) as [rfn|]; [|reflexivity]. cbn [option_map].
  rewrite hd_error_app. unfold fwd_list, bwd_list.
  destruct (runs_fwd rfn).
  - rewrite first_some_hd.
    destruct (hd_error (filter_map _ _)) as [m|]; [reflexivity|].
    destruct rfn as [l|]; [|reflexivity]. destruct (has_bwd l); [|reflexivity]. cbv zeta. rewrite first_some_hd. reflexivity.
  - cbn [hd_error]. destruct rfn as [l|]; [|reflexivity]. destruct (has_bwd l); [|reflexivity]. cbv zeta. rewrite first_some_hd. reflexivity.
Qed.

Lemma basket_matchall_spec seqs sub rf start gap rfn : norm_rf rf = Some rfn ->
  basket_matchall seqs sub rf start gap =
  Some (flat_map (fun s => match matchall s sub rf start gap with Some l => l | None => [] end) seqs).
Proof.
  intros Hn.
  assert (Hm : forall s, matchall s sub rf start gap = Some (fwd_list (compile gap (expand_sub sub)) s start gap rfn ++ bwd_list (compile gap (expand_sub sub)) s start gap rfn))
    by (intros s; unfold matchall; rewrite Hn; reflexivity).
  induction seqs as [|s r IH]; [reflexivity|]. cbn [basket_matchall flat_map].
  rewrite IH. rewrite (Hm s). reflexivity.
Qed.
Lemma basket_match_spec seqs sub rf start gap rfn : norm_rf rf = Some rfn ->
  basket_match seqs sub rf start gap =
  Some (map (fun s => match matchall s sub rf start gap with Some l => hd_error l | None => None end) seqs).
Proof.
  intros Hn.
  assert (Hm : forall s, matchall s sub rf start gap = Some (fwd_list (compile gap (expand_sub sub)) s start gap rfn ++ bwd_list (compile gap (expand_sub sub)) s start gap rfn))
    by (intros s; unfold matchall; rewrite Hn; reflexivity).
  induction seqs as [|s r IH]; [reflexivity|]. cbn [basket_match map].
  rewrite IH. rewrite match_first_hd. rewrite (Hm s). reflexivity.
Qed.

(* rf normalisation *)
Lemma norm_rf_cases rf rfn : norm_rf rf = Some rfn ->
  match rf with
  | RNone => rfn = None
  | RInt z => rfn = Some [z]
  | RList l => rfn = Some l
  | RStr t => (t = bs "fwd"%bs /\ rfn = Some [0; 1; 2]) \/ (t = bs "bwd"%bs /\ rfn = Some [-1; -2; -3]) \/
              (t = bs "both"%bs /\ rfn = Some [0; 1; 2; -1; -2; -3])
  end.
Proof.
  destruct rf as [|z|t|l]; cbn [norm_rf]; try (intros H; inversion H; reflexivity).
  destruct (str_eqb t (bs "fwd"%bs)) eqn:E1; [apply str_eqb_eq in E1; intros H; inversion H; auto|].
  destruct (str_eqb t (bs "bwd"%bs)) eqn:E2; [apply str_eqb_eq in E2; intros H; inversion H; auto|].
  destruct (str_eqb t (bs "both"%bs)) eqn:E3; [apply str_eqb_eq in E3; intros H; inversion H; auto|discriminate].
Qed.

(* ------------------------------------------------------------------ order of the reported matches *)
Lemma chain_filter p l : forall lo, chain lo l -> chain lo (filter p l).
Proof.
  induction l as [|[b e] r IH]; intros lo H; cbn [filter]; [exact I|].
  cbn [chain] in H. destruct H as (H1 & H2 & H3). destruct (p (b, e)).
  - cbn [chain]. repeat split; auto.
  - apply IH. eapply chain_weaken; [|exact H3]. lia.
Qed.
Lemma map_filter_map {A B} (f : A -> option B) (g : B -> A) l :
  (forall x y, In x l -> f x = Some y -> g y = x) ->
  map g (filter_map f l) = filter (fun x => match f x with Some _ => true | None => false end) l.
Proof.
  induction l as [|x l IH]; intros H; [reflexivity|]. cbn [filter_map filter].
  destruct (f x) as [y|] eqn:E.
  - cbn [map]. rewrite (H x y (or_introl eq_refl) E). f_equal. apply IH. intros x' y' Hi. apply H. now right.
  - apply IH. intros x' y' Hi. apply H. now right.
Qed.
Lemma raw_pass_chain alts s start : chain 0 (raw_pass alts s start).
Proof. unfold raw_pass. apply chain_filter. apply (finditer_chain alts s 0 0). Qed.

Lemma fwd_list_chain alts s start gap rfn : chain 0 (map span_of (fwd_list alts s start gap rfn)).
Proof.
  unfold fwd_list. destruct (runs_fwd rfn); [|exact I].
  rewrite map_filter_map.
  - apply chain_filter. apply raw_pass_chain.
  - intros [b e] y _ Hf. unfold fwd_one in Hf. destruct rfn as [l|].
    + destruct (zmem _ l); [|discriminate]. inversion Hf. unfold span_of. cbn. now rewrite !Nat2Z.id.
    + inversion Hf. unfold span_of. cbn. now rewrite !Nat2Z.id.
Qed.
Lemma bwd_list_chain alts s start gap rfn : chain 0 (map (rc_span_of (length s)) (bwd_list alts s start gap rfn)).
Proof.
  unfold bwd_list. destruct rfn as [l|]; [|exact I]. destruct (has_bwd l); [|exact I]. cbv zeta.
  rewrite map_filter_map.
  - apply chain_filter. apply raw_pass_chain.
  - intros [b e] y Hi Hf. unfold raw_pass in Hi. apply filter_In in Hi. destruct Hi as [Hi _].
    apply finditer_sound in Hi. destruct Hi as (_ & H2 & H3 & _). rewrite rc_length in H3. cbn in H3.
    unfold bwd_one in Hf. destruct (zmem _ l); [|discriminate]. inversion Hf. unfold rc_span_of. cbn.
    rewrite rc_length. f_equal; lia.
Qed.

Lemma matchall_order s sub rf start gap out : matchall s sub rf start gap = Some out ->
  exists F B, out = F ++ B /\ chain 0 (map span_of F) /\ chain 0 (map (rc_span_of (length s)) B) /\
    (forall m, In m F -> match bm_rf m with Some t => 0 <= t | None => True end) /\
    (forall m, In m B -> match bm_rf m with Some t => t < 0 | None => False end).
Proof.
  unfold matchall. destruct (norm_rf rf) as [rfn|]; [|discriminate]. intros H; inversion H; subst out; clear H.
  eexists _, _. split; [reflexivity|]. split; [apply fwd_list_chain|]. split; [apply bwd_list_chain|]. split.
  - intros m. unfold fwd_list. destruct (runs_fwd rfn); [|intros []]. rewrite in_filter_map.
    intros ([b e] & _ & Hf). unfold fwd_one in Hf. destruct rfn as [l|].
    + destruct (zmem _ l); [|discriminate]. inversion Hf. cbn. unfold frame_of. apply Z.mod_pos_bound. lia.
    + inversion Hf. exact I.
  - intros m. unfold bwd_list. destruct rfn as [l|]; [|intros []]. destruct (has_bwd l); [|intros []]. cbv zeta.
    rewrite in_filter_map. intros ([b e] & _ & Hf). unfold bwd_one in Hf. destruct (zmem _ l); [|discriminate].
    injection Hf as <-.
    change (-1 * frame_of (bwd_gaps gap (rc s) start) start (Z.of_nat b) - 1 < 0).
    assert (Ht : 0 <= frame_of (bwd_gaps gap (rc s) start) start (Z.of_nat b) < 3) by (unfold frame_of; apply Z.mod_pos_bound; lia).
    lia.
Qed.

(* ------------------------------------------------------------------ nothing requested is lost *)
Lemma fwd_reported s sub rf start gap l b e out :
  matchall s sub rf start gap = Some out -> norm_rf rf = Some (Some l) -> has_fwd l = true ->
  In (b, e) (finditer (compile gap (expand_sub sub)) s 0 0) -> start <= Z.of_nat b ->
  In (frame_of (fwd_gaps gap (Some l) s start) start (Z.of_nat b)) l ->
  In (mk_bm (Z.of_nat b) (Z.of_nat e) (slice b e s) (Some (frame_of (fwd_gaps gap (Some l) s start) start (Z.of_nat b)))) out.
Proof.
  intros Hm Hn Hf Hi Hs Hr. unfold matchall in Hm. rewrite Hn in Hm. inversion Hm; subst out; clear Hm.
  apply in_or_app. left. unfold fwd_list. cbn [runs_fwd]. rewrite Hf. apply in_filter_map.
  exists (b, e). split.
  - unfold raw_pass. apply filter_In. split; [exact Hi|]. cbn. now apply Z.leb_le.
  - unfold fwd_one. apply zmem_In in Hr. rewrite Hr. reflexivity.
Qed.
Lemma fwd_reported_norf s sub rf start gap b e out :
  matchall s sub rf start gap = Some out -> norm_rf rf = Some None ->
  In (b, e) (finditer (compile gap (expand_sub sub)) s 0 0) -> start <= Z.of_nat b ->
  In (mk_bm (Z.of_nat b) (Z.of_nat e) (slice b e s) None) out.
Proof.
  intros Hm Hn Hi Hs. unfold matchall in Hm. rewrite Hn in Hm. inversion Hm; subst out; clear Hm.
  apply in_or_app. left. unfold fwd_list. cbn [runs_fwd]. apply in_filter_map.
  exists (b, e). split; [|reflexivity].
  unfold raw_pass. apply filter_In. split; [exact Hi|]. cbn. now apply Z.leb_le.
Qed.
Lemma bwd_reported s sub rf start gap l b e out :
  matchall s sub rf start gap = Some out -> norm_rf rf = Some (Some l) -> has_bwd l = true ->
  In (b, e) (finditer (compile gap (expand_sub sub)) (rc s) 0 0) -> start <= Z.of_nat b ->
  In (-1 * frame_of (bwd_gaps gap (rc s) start) start (Z.of_nat b) - 1) l ->
  In (mk_bm (Z.of_nat (length (rc s)) - Z.of_nat e) (Z.of_nat (length (rc s)) - Z.of_nat b) (slice b e (rc s))
        (Some (-1 * frame_of (bwd_gaps gap (rc s) start) start (Z.of_nat b) - 1))) out.
Proof.
  intros Hm Hn Hf Hi Hs Hr. unfold matchall in Hm. rewrite Hn in Hm. inversion Hm; subst out; clear Hm.
  apply in_or_app. right. unfold bwd_list. rewrite Hf. cbv zeta. apply in_filter_map.
  exists (b, e). split.
  - unfold raw_pass. apply filter_In. split; [exact Hi|]. cbn. now apply Z.leb_le.
  - unfold bwd_one. apply zmem_In in Hr. rewrite Hr. reflexivity.
Qed.

(* every occurrence of a word is reported by finditer or overlaps a reported match that starts at or before it *)
Lemma irel_nonempty gap w t : w <> [] -> irel (compile_word gap w) t -> t <> [].
Proof.
  destruct w as [|c r]; [congruence|]. intros _ H.
  assert (exists it rest, compile_word gap (c :: r) = it :: rest /\ it = item_of c) as (it & rest & E & Eit).
  { destruct r as [|c' r]; cbn; [eauto|]. destruct gap; eauto. }
  rewrite E in H. subst it. unfold item_of in H. destruct (byte_eqb c cdot); inversion H; discriminate.
Qed.
Lemma m_alts_pos gap ws s n : forallb nonempty ws = true ->
  m_alts (map (compile_word gap) ws) s = Some n -> (0 < n)%nat.
Proof.
  intros Hw H. apply m_alts_sound in H. destruct H as (a & Ha & Hm). apply in_map_iff in Ha. destruct Ha as (w & <- & Hi).
  rewrite forallb_forall in Hw. specialize (Hw w Hi). apply m_items_sound in Hm. destruct Hm as [_ Hr].
  apply irel_nonempty in Hr; [|destruct w; [discriminate|congruence]].
  destruct n; [cbn in Hr; congruence|lia].
Qed.
Lemma occurrences_complete gap sub s w t u p : wf_sub sub = true ->
  In w (words sub) -> irel (compile_word gap w) t -> skipn p s = t ++ u ->
  exists b e, In (b, e) (finditer (compile gap (expand_sub sub)) s 0 0) /\ (b <= p < e)%nat.
Proof.
  intros Hwf Hw Hr Hs. unfold wf_sub in Hwf. apply andb_prop in Hwf. destruct Hwf as [_ Hne].
  unfold compile. fold (words sub) in *.
  destruct (m_alts (map (compile_word gap) (words sub)) (skipn p s)) as [n|] eqn:E.
  - pose proof (m_alts_pos _ _ _ _ Hne E) as Hn. destruct n as [|n]; [lia|].
    destruct (finditer_complete _ s 0%nat 0%nat p n ltac:(lia) E) as (b & e & Hi & H1 & H2).
    exists b, e. split; [exact Hi|lia].
  - exfalso. eapply m_alts_none in E; [|apply in_map; exact Hw]. rewrite Hs in E.
    now apply (m_items_complete _ _ Hr u).
Qed.

(* ------------------------------------------------------------------ what a matched group looks like *)
Lemma degap_app g a b : degap g (a ++ b) = degap g a ++ degap g b.
Proof. unfold degap. apply filter_app. Qed.
Lemma degap_gaps g gs : all_in g gs = true -> degap g gs = [].
Proof.
  induction gs as [|x gs IH]; [reflexivity|]. unfold all_in. cbn [forallb]. intros H. apply andb_prop in H. destruct H as [Hx H].
  cbn. rewrite Hx. cbn. apply IH. exact H.
Qed.
(* gap set, word without '.' and without gap characters: removing the gap characters from the group gives the word *)
Lemma irel_degap g w : forall t,
  forallb (fun c => negb (has c g) && negb (byte_eqb c cdot)) w = true ->
  irel (compile_word (Some g) w) t -> degap g t = w.
Proof.
  induction w as [|c r IH]; intros t Hw H.
  - cbn in H. inversion H. reflexivity.
  - cbn [forallb] in Hw. apply andb_prop in Hw. destruct Hw as [Hc Hr]. apply andb_prop in Hc. destruct Hc as [Hg Hd].
    apply negb_true_iff in Hg, Hd.
    destruct r as [|c' r].
    + cbn in H. unfold item_of in H. rewrite Hd in H. inversion H as [|? ? ? H1| |]; subst. inversion H1; subst.
      cbn. now rewrite Hg.
    + change (compile_word (Some g) (c :: c' :: r)) with (item_of c :: IStar g :: compile_word (Some g) (c' :: r)) in H.
      unfold item_of at 1 in H. rewrite Hd in H. inversion H as [|? ? ? H1| |]; subst. inversion H1 as [| | |? gs ? t' Hgs H2]; subst.
      cbn [degap filter]. rewrite Hg. cbn [negb]. f_equal. fold (degap g (gs ++ t')).
      rewrite degap_app, (degap_gaps _ _ Hgs). cbn [app]. apply IH; assumption.
Qed.
(* gap None: the group has the length of the word and matches it character by character *)
Lemma irel_nogap w : forall t, irel (compile_word None w) t -> Forall2 (fun c x => cmatch c x = true) w t.
Proof.
  induction w as [|c r IH]; intros t H.
  - cbn in H. inversion H. constructor.
  - assert (E : compile_word None (c :: r) = item_of c :: compile_word None r) by (destruct r; reflexivity).
    rewrite E in H. unfold item_of in H. destruct (byte_eqb c cdot) eqn:Ed.
    + inversion H as [| |x ? t' Hx H1|]; subst. constructor; [|now apply IH].
      unfold cmatch. rewrite Ed. apply byte_eqb_neq in Hx. now rewrite Hx.
    + inversion H as [|? ? t' H1| |]; subst. constructor; [|now apply IH].
      unfold cmatch. rewrite Ed. apply byte_eqb_refl.
Qed.

(* ------------------------------------------------------------------ backward frames in forward coordinates *)
(* table fact over the regenerated COMPLEMENT tables: complementing never creates or removes a gap symbol '-', '.', '~' *)
Lemma cmap_gap_char u c g : gap_char_ok g = true -> byte_eqb (cmap u c) g = byte_eqb c g.
Proof.
  intros Hg. assert (E : g = "-"%byte \/ g = "."%byte \/ g = "~"%byte).
  { destruct g; vm_compute in Hg; try discriminate; auto. }
  destruct E as [->|[->| ->]]; destruct u; destruct c; vm_compute; reflexivity.
Qed.
Lemma cmap_gap u c gs : forallb gap_char_ok gs = true -> has (cmap u c) gs = has c gs.
Proof.
  induction gs as [|g gs IH]; [reflexivity|]. cbn [forallb]. intros H. apply andb_prop in H. destruct H as [Hg H].
  unfold has in *. cbn [existsb]. rewrite IH by exact H. fold (byte_eqb (cmap u c) g). rewrite (cmap_gap_char u c g Hg). reflexivity.
Qed.

Lemma residues_rev_map gap (f : byte -> byte) t :
  (forall c, is_gap gap (f c) = is_gap gap c) -> residues gap (rev (map f t)) = residues gap t.
Proof.
  intros H. unfold residues. rewrite filter_rev_len. rewrite filter_map_len; [reflexivity|].
  intros c _. now rewrite H.
Qed.
Lemma bwd_residues_forward gap s st b : wf_gap gap = true -> (st <= b)%nat -> (b <= length s)%nat ->
  residues gap (slice st b (rc s)) = residues gap (slice (length s - b) (length s - st) s).
Proof.
  intros Hg H1 H2. rewrite slice_rc by lia. apply residues_rev_map.
  intros c. destruct gap as [g|]; [|reflexivity]. cbn [is_gap]. apply cmap_gap.
  destruct g as [|x r]; [discriminate|]. cbn [wf_gap] in Hg. apply andb_prop in Hg. tauto.
Qed.

(* ------------------------------------------------------------------ every reported frame, in terms of the output alone *)
Lemma matchall_frames_full s sub rf start gap out : 0 <= start ->
  matchall s sub rf start gap = Some out ->
  forall m, In m out ->
    match bm_rf m with
    | None => norm_rf rf = Some None
    | Some f =>
        (0 <= f < 3 /\ f = residues gap (slice (Z.to_nat start) (Z.to_nat (bm_b m)) s) mod 3) \/
        (-3 <= f <= -1 /\ - f - 1 = residues gap (slice (Z.to_nat start) (length s - Z.to_nat (bm_e m)) (rc s)) mod 3)
    end.
Proof.
  intros H0 Hm m Hi. unfold matchall in Hm. destruct (norm_rf rf) as [rfn|]; [|discriminate].
  inversion Hm; subst out; clear Hm. apply in_app_or in Hi. destruct Hi as [Hi|Hi].
  - unfold fwd_list in Hi. destruct (runs_fwd rfn); [|destruct Hi]. apply in_filter_map in Hi.
    destruct Hi as ([b e] & Hr & Hf).
    pose proof (fwd_one_spec _ _ _ _ _ _ _ _ H0 Hr Hf) as (b' & e' & Hbe & Hs & Hb & He & _ & _ & Hfr).
    unfold fwd_one in Hf. destruct rfn as [l|].
    + destruct (zmem _ l); [|discriminate]. injection Hf as <-. cbn [bm_rf bm_b] in *.
      assert (b' = b) by lia. subst b'. destruct Hfr as (t & Ht & _ & Hrange & Heq). injection Ht as <-.
      left. split; [exact Hrange|]. rewrite Nat2Z.id. exact Heq.
    + injection Hf as <-. reflexivity.
  - unfold bwd_list in Hi. destruct rfn as [l|]; [|destruct Hi]. destruct (has_bwd l); [|destruct Hi]. cbv zeta in Hi.
    apply in_filter_map in Hi. destruct Hi as ([b e] & Hr & Hf).
    pose proof (bwd_one_spec _ _ _ _ _ _ _ _ H0 Hr Hf) as (b' & e' & Hbe & Hs & Hb & He & _ & _ & _ & f & Hf' & _ & Hrange & Heq).
    rewrite Hf'. right. split; [exact Hrange|].
    unfold bwd_one in Hf. destruct (zmem _ l); [|discriminate]. injection Hf as <-. cbn [bm_rf bm_b bm_e] in *.
    rewrite rc_length in *.
    assert (Hb' : b' = b) by lia. subst b'.
    replace (length s - Z.to_nat (Z.of_nat (length s) - Z.of_nat b))%nat with b by lia.
    exact Heq.
Qed.

