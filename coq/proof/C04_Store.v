(* C04, round 6: histories over an object store with duplicates.  The residue strings of the objects evolve as the
   fold of the corresponding str / list operations; an object changes only through steps that address it. *)
From Coq Require Import List ZArith NArith Bool Lia ZifyBool.
From Coq.Strings Require Import Byte.
Import ListNotations.
From SV Require Import Text C04_PySlice C04_Model C04_Lemmas C04_Str.
Local Open Scope Z_scope.

Definition lift (s : bioseq) (r : res str) : res bioseq :=
  match r with Ok d => Ok (set_data s d) | Err x => Err x end.

(* one edit through the code path = the edit on the residue string; the id is kept *)
Lemma seq_edit_is_str_edit e s : seq_edit e s = lift s (str_edit e (data s)).
Proof.
  destruct e as [ix v|t|d| |m| | | |old new cnt|w f|w f|w f|cs|cs|cs|p|p|x y z]; try reflexivity.
  2: { cbn [seq_edit str_edit]. destruct (py_maketrans x y z); reflexivity. }
  destruct ix as [i|sl].
  - cbn [seq_edit str_edit]. pose proof (seq_setitem_int s i v) as H.
    destruct (getitem (data s) i) as [x|x] eqn:E; [|exact H].
    destruct H as (d1 & d2 & Hd & Hlen & Hs). rewrite Hs. cbn [lift]. unfold set_data. f_equal. f_equal.
    set (p := Z.to_nat (if i <? 0 then i + Z.of_nat (length (data s)) else i)).
    assert (Hp : p = length d1) by (unfold p; lia).
    rewrite Hp, Hd. rewrite firstn_app, Nat.sub_diag, firstn_all. cbn [firstn]. rewrite app_nil_r.
    f_equal. f_equal.
    replace (S (length d1)) with (length (d1 ++ [x])) by (rewrite app_length; cbn; lia).
    replace (d1 ++ x :: d2) with ((d1 ++ [x]) ++ d2) by (rewrite <- app_assoc; reflexivity).
    rewrite skipn_app, skipn_all, Nat.sub_diag. reflexivity.
  - cbn [seq_edit str_edit]. apply seq_setitem_is_list_assign.
Qed.
Lemma seq_edit_sid e s s' : seq_edit e s = Ok s' -> sid s' = sid s.
Proof. rewrite seq_edit_is_str_edit. destruct (str_edit e (data s)); cbn; [|discriminate]. intros H; inversion H; reflexivity. Qed.
Lemma seq_edit_data e s s' : seq_edit e s = Ok s' -> str_edit e (data s) = Ok (data s').
Proof. rewrite seq_edit_is_str_edit. destruct (str_edit e (data s)); cbn; [|discriminate]. intros H; inversion H; reflexivity. Qed.
Lemma seq_edit_err e s x : seq_edit e s = Err x -> str_edit e (data s) = Err x.
Proof. rewrite seq_edit_is_str_edit. destruct (str_edit e (data s)); cbn; [discriminate|]. intros H; inversion H; reflexivity. Qed.

(* every question asked through the code path = the question asked of the residue string *)
Lemma seq_query_is_str_query q s : seq_query q s = str_query_run q (data s).
Proof.
  destruct q; try reflexivity.
  cbn [seq_query str_query_run]. rewrite seq_gc_counts_spec. reflexivity.
Qed.

(* basket-level edits *)
Lemma edit_all_spec e : forall b,
  map data (fst (edit_all e b)) = fst (str_edit_all e (map data b)) /\
  map sid (fst (edit_all e b)) = map sid b /\
  snd (edit_all e b) = snd (str_edit_all e (map data b)) /\
  length (fst (edit_all e b)) = length b.
Proof.
  induction b as [|s b IH]; [repeat split|].
  cbn [edit_all map str_edit_all]. destruct (seq_edit e s) as [s'|x] eqn:E.
  - rewrite (seq_edit_data _ _ _ E). cbn [fst snd map length]. destruct IH as (H1 & H2 & H3 & H4).
    rewrite H1, H2, H3, H4, (seq_edit_sid _ _ _ E). repeat split.
  - rewrite (seq_edit_err _ _ _ E). cbn [fst snd map length]. repeat split.
Qed.
(* when no sequence raises, the basket-level edit is the edit on every residue string *)
Lemma str_edit_all_ok e : forall ds r, mapM (str_edit e) ds = Ok r -> str_edit_all e ds = (r, None).
Proof.
  induction ds as [|d ds IH]; intros r H; cbn in *.
  - inversion H; reflexivity.
  - destruct (str_edit e d) as [d'|x]; [|discriminate]. destruct (mapM (str_edit e) ds) as [r'|x]; [|discriminate].
    inversion H; subst. rewrite (IH r' eq_refl). reflexivity.
Qed.

Lemma set_nth_id {A} (l : list A) k x : nth_error l k = Some x -> set_nth l k x = l.
Proof.
  intros H. destruct (nth_error_split l k H) as (l1 & l2 & -> & <-). apply set_nth_app.
Qed.

(* a subscript (gap-aware or not, any step) goes through the constructor: the str subscript, upper-cased, same id *)
Lemma seq_getitem_is_str_getitem gap s ix :
  seq_getitem gap s ix = match str_getitem gap (data s) ix with Ok r => Ok (mkseq (py_upper r) (sid s)) | Err e => Err e end.
Proof.
  unfold seq_getitem, str_getitem. destruct (adjust_index gap (data s) ix) as [ix'|e]; [|reflexivity].
  destruct (pyget (data s) ix'); reflexivity.
Qed.

(* ---- one step ---- *)
Lemma dstep_data st h : map data (fst (dstep_run st h)) = strs_step (map data st) h.
Proof.
  destruct h as [k|k e|k q|k j|e| |k gap ix|k gap ix|k t|k t]; cbn [dstep_run strs_step].
  - rewrite nth_error_map. destruct (nth_error st k) as [s|]; cbn [option_map fst]; [|reflexivity].
    rewrite map_app. reflexivity.
  - rewrite nth_error_map. destruct (nth_error st k) as [s|] eqn:Ek; cbn [option_map fst]; [|reflexivity].
    destruct (seq_edit e s) as [s'|x] eqn:E.
    + rewrite (seq_edit_data _ _ _ E). cbn [fst]. symmetry. apply set_nth_map.
    + rewrite (seq_edit_err _ _ _ E). reflexivity.
  - destruct (nth_error st k); reflexivity.
  - destruct (nth_error st k); [destruct (nth_error st j)|]; reflexivity.
  - cbn [fst]. apply edit_all_spec.
  - reflexivity.
  - rewrite nth_error_map. destruct (nth_error st k) as [s|]; cbn [option_map fst]; [|reflexivity].
    rewrite seq_getitem_is_str_getitem. destruct (str_getitem gap (data s) ix); cbn [fst]; [|reflexivity].
    rewrite map_app. reflexivity.
  - rewrite nth_error_map. destruct (nth_error st k) as [s|]; cbn [option_map fst]; [|reflexivity].
    rewrite seq_getitem_is_str_getitem. destruct (str_getitem gap (data s) ix); cbn [fst]; [|reflexivity].
    rewrite map_app. cbn [map data]. f_equal. symmetry.
    exact (set_nth_map data st k (set_data s (py_upper x))).
  - rewrite nth_error_map. destruct (nth_error st k) as [s|]; cbn [option_map fst]; [|reflexivity]. rewrite map_app. reflexivity.
  - rewrite nth_error_map. destruct (nth_error st k) as [s|]; cbn [option_map fst]; [|reflexivity]. rewrite map_app. reflexivity.
Qed.
Lemma dstep_ids st h : map sid (fst (dstep_run st h)) = ids_step_d (map data st) (map sid st) h.
Proof.
  destruct h as [k|k e|k q|k j|e| |k gap ix|k gap ix|k t|k t]; cbn [dstep_run ids_step ids_step_d].
  - rewrite nth_error_map. destruct (nth_error st k) as [s|]; cbn [option_map fst]; [|reflexivity].
    rewrite map_app. reflexivity.
  - destruct (nth_error st k) as [s|] eqn:Ek; [|reflexivity].
    destruct (seq_edit e s) as [s'|x] eqn:E; [|reflexivity]. cbn [fst].
    rewrite <- set_nth_map. rewrite (seq_edit_sid _ _ _ E). apply set_nth_id. rewrite nth_error_map, Ek. reflexivity.
  - destruct (nth_error st k); reflexivity.
  - destruct (nth_error st k); [destruct (nth_error st j)|]; reflexivity.
  - cbn [fst]. apply edit_all_spec.
  - reflexivity.
  - rewrite !nth_error_map. destruct (nth_error st k) as [s|]; cbn [option_map fst]; [|reflexivity].
    rewrite seq_getitem_is_str_getitem. destruct (str_getitem gap (data s) ix); cbn [fst]; [|reflexivity].
    rewrite map_app. reflexivity.
  - rewrite !nth_error_map. destruct (nth_error st k) as [s|] eqn:Ek; cbn [option_map fst]; [|reflexivity].
    rewrite seq_getitem_is_str_getitem. destruct (str_getitem gap (data s) ix); cbn [fst]; [|reflexivity].
    rewrite map_app. cbn [map sid set_data]. f_equal.
    rewrite <- set_nth_map. cbn [sid set_data]. apply set_nth_id. rewrite nth_error_map, Ek. reflexivity.
  - rewrite nth_error_map. destruct (nth_error st k) as [s|]; cbn [option_map fst]; [|reflexivity]. rewrite map_app. reflexivity.
  - rewrite nth_error_map. destruct (nth_error st k) as [s|]; cbn [option_map fst]; [|reflexivity]. rewrite map_app. reflexivity.
Qed.
Lemma dstep_length st h : (length st <= length (fst (dstep_run st h)))%nat.
Proof.
  destruct h as [k|k e|k q|k j|e| |k gap ix|k gap ix|k t|k t]; cbn [dstep_run].
  - destruct (nth_error st k); cbn [fst]; [rewrite app_length; lia|lia].
  - destruct (nth_error st k) as [s|]; [|cbn; lia]. destruct (seq_edit e s); cbn [fst]; [rewrite set_nth_length|]; lia.
  - destruct (nth_error st k); cbn; lia.
  - destruct (nth_error st k); [destruct (nth_error st j)|]; cbn; lia.
  - cbn [fst]. destruct (edit_all_spec e st) as (_ & _ & _ & ->). lia.
  - cbn; lia.
  - destruct (nth_error st k) as [s|]; [|cbn; lia]. destruct (seq_getitem gap s ix); cbn [fst]; [rewrite app_length|]; lia.
  - destruct (nth_error st k) as [s|]; [|cbn; lia].
    destruct (seq_getitem gap s ix); cbn [fst]; [rewrite app_length, set_nth_length|]; lia.
  - destruct (nth_error st k); cbn [fst]; [rewrite app_length; lia|lia].
  - destruct (nth_error st k); cbn [fst]; [rewrite app_length; lia|lia].
Qed.
(* what a query step answers *)
Lemma dstep_query st k q :
  dstep_run st (DQuery k q) =
  (st, match nth_error (map data st) k with Some d => str_query_run q d | None => show_exc IndexError end).
Proof.
  cbn [dstep_run]. rewrite nth_error_map. destruct (nth_error st k) as [s|]; cbn [option_map]; [|reflexivity].
  rewrite seq_query_is_str_query. reflexivity.
Qed.
(* seq == seq between two objects of the store: same residues and same id *)
Lemma dstep_eqobj st k j s t : nth_error st k = Some s -> nth_error st j = Some t ->
  dstep_run st (DEqObj k j) = (st, VB (str_eqb (data s) (data t) && str_eqb (sid s) (sid t))).
Proof. intros H1 H2. cbn [dstep_run]. rewrite H1, H2. reflexivity. Qed.

(* an object changes only through steps that address it *)
Lemma edit_all_nil e : edit_all e [] = ([], None).
Proof. reflexivity. Qed.
Lemma dstep_frame st h j : edits h j = false -> (j < length st)%nat ->
  nth_error (fst (dstep_run st h)) j = nth_error st j.
Proof.
  intros He Hj. destruct h as [k|k e|k q|k i|e| |k gap ix|k gap ix|k t|k t]; cbn [dstep_run edits] in *.
  - destruct (nth_error st k); cbn [fst]; [|reflexivity]. apply nth_error_app1. exact Hj.
  - destruct (nth_error st k) as [s|]; [|reflexivity]. destruct (seq_edit e s); cbn [fst]; [|reflexivity].
    apply set_nth_other. intros ->. rewrite Nat.eqb_refl in He. discriminate.
  - destruct (nth_error st k); reflexivity.
  - destruct (nth_error st k); [destruct (nth_error st i)|]; reflexivity.
  - discriminate.
  - reflexivity.
  - destruct (nth_error st k); [|reflexivity]. destruct (seq_getitem gap b ix); cbn [fst]; [|reflexivity].
    apply nth_error_app1. exact Hj.
  - destruct (nth_error st k) as [s|]; [|reflexivity]. destruct (seq_getitem gap s ix); cbn [fst]; [|reflexivity].
    rewrite nth_error_app1 by (rewrite set_nth_length; exact Hj).
    apply set_nth_other. intros ->. rewrite Nat.eqb_refl in He. discriminate.
  - destruct (nth_error st k); cbn [fst]; [|reflexivity]. apply nth_error_app1. exact Hj.
  - destruct (nth_error st k); cbn [fst]; [|reflexivity]. apply nth_error_app1. exact Hj.
Qed.
(* + and right-+ go through the constructor: the whole result is upper-cased, the id is that of the sequence *)
Lemma dstep_add st k t s : nth_error st k = Some s ->
  dstep_run st (DAdd k t) = (st ++ [mkseq (py_upper (data s ++ t)) (sid s)], show_seq (mkseq (py_upper (data s ++ t)) (sid s))) /\
  dstep_run st (DRadd k t) = (st ++ [mkseq (py_upper (t ++ data s)) (sid s)], show_seq (mkseq (py_upper (t ++ data s)) (sid s))).
Proof. intros H. cbn [dstep_run]. rewrite H. split; reflexivity. Qed.
(* what a slicing step answers and appends: the upper-cased str subscript with the id of the source *)
Lemma dstep_slice st k gap ix s : nth_error st k = Some s ->
  dstep_run st (DSlice k gap ix) =
  match str_getitem gap (data s) ix with
  | Ok r => (st ++ [mkseq (py_upper r) (sid s)], show_seq (mkseq (py_upper r) (sid s)))
  | Err x => (st, show_exc x)
  end.
Proof. intros H. cbn [dstep_run]. rewrite H, seq_getitem_is_str_getitem. destruct (str_getitem gap (data s) ix); reflexivity. Qed.
Lemma dstep_dup st k s : nth_error st k = Some s ->
  fst (dstep_run st (DDup k)) = st ++ [s] /\
  nth_error (fst (dstep_run st (DDup k))) (length st) = Some s.
Proof.
  intros H. cbn [dstep_run]. rewrite H. cbn [fst]. split; [reflexivity|].
  rewrite nth_error_app2 by lia. rewrite Nat.sub_diag. reflexivity.
Qed.

(* ---- whole histories ---- *)
Lemma store_history : forall hs st,
  map data (store_final st hs) = fold_left strs_step hs (map data st) /\
  (map data (store_final st hs), map sid (store_final st hs)) = fold_left pair_step hs (map data st, map sid st) /\
  (length st <= length (store_final st hs))%nat.
Proof.
  unfold store_final. induction hs as [|h hs IH]; intros st; cbn [fold_left].
  - repeat split; lia.
  - destruct (IH (fst (dstep_run st h))) as (H1 & H2 & H3).
    rewrite H2, H1. unfold pair_step at 2. cbn [fst snd]. rewrite dstep_data, dstep_ids. repeat split.
    pose proof (dstep_length st h). lia.
Qed.
Lemma store_frame : forall hs st j, (forall h, In h hs -> edits h j = false) -> (j < length st)%nat ->
  nth_error (store_final st hs) j = nth_error st j.
Proof.
  unfold store_final. induction hs as [|h hs IH]; intros st j Hall Hj; cbn [fold_left]; [reflexivity|].
  rewrite IH.
  - apply dstep_frame; [apply Hall; left; reflexivity|exact Hj].
  - intros h' Hh'. apply Hall. right. exact Hh'.
  - pose proof (dstep_length st h). lia.
Qed.
(* a duplicate keeps the value its source had when it was made, whatever is done to the other objects afterwards;
   the source keeps its value whatever is done to the duplicate *)
Lemma dup_independent st k s hs : nth_error st k = Some s ->
  ((forall h, In h hs -> edits h (length st) = false) ->
     nth_error (store_final st (DDup k :: hs)) (length st) = Some s) /\
  ((forall h, In h hs -> edits h k = false) ->
     nth_error (store_final st (DDup k :: hs)) k = Some s).
Proof.
  intros Hk. destruct (dstep_dup st k s Hk) as (Hst & Hn).
  assert (Hlen : (k < length st)%nat) by (apply nth_error_Some; rewrite Hk; discriminate).
  unfold store_final. cbn [fold_left]. fold (store_final (fst (dstep_run st (DDup k))) hs). split; intros Hall.
  - rewrite store_frame; [exact Hn|exact Hall|]. rewrite Hst, app_length. cbn. lia.
  - rewrite store_frame; [|exact Hall|rewrite Hst, app_length; cbn; lia].
    rewrite Hst. rewrite nth_error_app1 by exact Hlen. exact Hk.
Qed.
(* the recorded history is the list of step results along the fold *)
Lemma store_run_length : forall hs st, length (store_run st hs) = length hs.
Proof. induction hs as [|h hs IH]; intros st; cbn; [reflexivity|]. rewrite IH. reflexivity. Qed.
Lemma store_run_nth : forall hs st n h, nth_error hs n = Some h ->
  nth_error (store_run st hs) n =
  Some (let p := dstep_run (store_final st (firstn n hs)) h in VL [snd p; show_basket (fst p)]).
Proof.
  induction hs as [|h0 hs IH]; intros st n h Hn; [destruct n; discriminate|].
  destruct n as [|n]; cbn [nth_error] in Hn.
  - inversion Hn; subst. reflexivity.
  - cbn [store_run nth_error firstn]. rewrite (IH _ _ _ Hn). unfold store_final. cbn [fold_left]. reflexivity.
Qed.
(* letter counts over all objects of the store: those of the concatenated residue strings of the str history *)
Lemma store_countall st hs : store_final st hs <> [] ->
  exists k, snd (dstep_run (store_final st hs) DCountall) = show_counter k /\
    forall c, k c = C04_Model.count c (concat (fold_left strs_step hs (map data st))).
Proof.
  intros Hne. destruct (countall_spec _ Hne) as (k & Hk & Hc). exists k. cbn [dstep_run snd]. rewrite Hk.
  split; [reflexivity|]. intros c. rewrite Hc. destruct (store_history hs st) as (-> & _). reflexivity.
Qed.

(* seq['type'] selects the str slice of the first feature whose type equals the name up to ASCII case *)
Lemma seq_getitem_type_spec gap s fts name :
  match ft_get fts name with
  | None => seq_getitem_type gap s fts name = Err ValueError
  | Some (a, b) =>
      seq_getitem_type gap s fts name =
      match seq_getitem gap s (ISlice (mkslice (Some a) (Some b) None)) with Ok r => Ok r | Err e => Err e end
  end.
Proof.
  unfold seq_getitem_type. destruct (ft_get fts name) as [[a b]|]; [|reflexivity].
  unfold seq_getitem. destruct (adjust_index gap (data s) _) as [ix|e]; [|reflexivity].
  destruct (pyget (data s) ix) as [d|e]; [|reflexivity].
  unfold new_seq. cbn [data sid]. rewrite py_upper_idem. reflexivity.
Qed.

(* probabilities (countall(rtype='prob')) over the objects of the store after a history *)
From Coq Require Import QArith.
Lemma store_probabilities st hs k : countall (store_final st hs) = Ok k ->
  (0 < length (concat (fold_left strs_step hs (map data st))))%nat ->
  (forall c, (prob_of k c == Z.of_nat (C04_Model.count c (concat (fold_left strs_step hs (map data st)))) #
                             Pos.of_nat (length (concat (fold_left strs_step hs (map data st)))))%Q) /\
  (fold_right Qplus 0%Q (map (prob_of k) all_bytes) == 1)%Q.
Proof.
  intros Hk Hlen. destruct (store_history hs st) as (Hd & _). rewrite <- Hd in *.
  apply prob_spec; assumption.
Qed.
