(* C03 proofs: position restore, soundness of detection on writer prefixes, extension tables, keyword plumbing,
   resolve decision. *)
From Coq Require Import List ZArith NArith Bool Lia.
From Coq.Strings Require Import Byte.
Import ListNotations.
From SV Require Import Text G_c03 C03_Model.

(* ------------------------------------------------------------------ chains are the regenerated priority lists *)
Lemma chains_pinned :
  map fst PLUGINS_seqs = FMTS_ALL_seqs /\ map fst PLUGINS_fts = FMTS_ALL_fts /\
  firstn (length FMTS_seqs) FMTS_ALL_seqs = FMTS_seqs /\ firstn (length FMTS_fts) FMTS_ALL_fts = FMTS_fts.
Proof. vm_compute. repeat split; reflexivity. Qed.

(* every plugin that declares a sniffer has one in the model, and none is binary *)
Definition plugin_known (w : what) (p : plugin) : bool :=
  negb (p_has_sniffer p) || (negb (p_binary p) && match sniffer_of w (p_name p) with Some _ => true | None => false end).
Lemma plugins_known : forallb (plugin_known Seqs) PLUGINS_seqs = true /\ forallb (plugin_known Fts) PLUGINS_fts = true.
Proof. vm_compute. split; reflexivity. Qed.

(* ------------------------------------------------------------------ detect restores the position *)
Lemma detect_loop_pos : forall w o fpos ps h,
  h_pos h = fpos -> h_pos (snd (detect_loop w o fpos ps h)) = fpos.
Proof.
  intros w o fpos ps. induction ps as [|p rest IH]; intros h Hh; cbn [detect_loop].
  - exact Hh.
  - destruct (negb (p_has_sniffer p)); [apply IH; exact Hh|].
    destruct (p_binary p && negb (h_binary h)); [apply IH; exact Hh|].
    destruct (p_binary p); [reflexivity|].
    destruct (sniffer_of w (p_name p)) as [sn|]; [|reflexivity].
    destruct (sn o (h_rest h)) as [[|]|]; cbn [snd]; try reflexivity; apply IH; reflexivity.
Qed.
Lemma detect_restores_pos : forall w o h,
  h_pos (snd (detect_h w o h)) = h_pos h /\ h_content (snd (detect_h w o h)) = h_content h.
Proof.
  intros w o h. split; [apply detect_loop_pos; reflexivity|].
  unfold detect_h. generalize (h_tell h) as fpos. generalize (chain w) as ps.
  intros ps. revert h. induction ps as [|p rest IH]; intros h fpos; cbn [detect_loop]; [reflexivity|].
  destruct (negb (p_has_sniffer p)); [apply IH|].
  destruct (p_binary p && negb (h_binary h)); [apply IH|].
  destruct (p_binary p); [reflexivity|].
  destruct (sniffer_of w (p_name p)) as [sn|]; [|reflexivity].
  destruct (sn o (h_rest h)) as [[|]|]; cbn [snd]; try reflexivity; rewrite IH; reflexivity.
Qed.
(* detection at an offset is detection of the remaining content, whatever the handle kind *)
Lemma detect_loop_offset : forall w o ps fpos c b,
  fst (detect_loop w o fpos ps {| h_content := c; h_pos := fpos; h_binary := b |}) =
  fst (detect_loop w o 0 ps {| h_content := skipn fpos c; h_pos := 0; h_binary := b |}).
Proof.
  intros w o ps. induction ps as [|p rest IH]; intros fpos c b; cbn [detect_loop]; [reflexivity|].
  destruct (negb (p_has_sniffer p)); [apply IH|].
  cbn [h_binary].
  destruct (p_binary p && negb b); [apply IH|].
  destruct (p_binary p); [reflexivity|].
  destruct (sniffer_of w (p_name p)) as [sn|]; [|reflexivity].
  unfold h_rest. cbn [h_pos h_content skipn].
  destruct (sn o (skipn fpos c)) as [[|]|]; cbn [fst]; try reflexivity;
    unfold h_after_sniff, h_seek; cbn [h_content h_binary h_pos]; apply IH.
Qed.
Lemma detect_binary_irrelevant : forall w o ps fpos c,
  forallb (fun p => negb (p_binary p)) ps = true ->
  fst (detect_loop w o fpos ps {| h_content := c; h_pos := fpos; h_binary := true |}) =
  fst (detect_loop w o fpos ps {| h_content := c; h_pos := fpos; h_binary := false |}).
Proof.
  intros w o ps. induction ps as [|p rest IH]; intros fpos c Hb; cbn [detect_loop]; [reflexivity|].
  cbn [forallb] in Hb. apply andb_prop in Hb. destruct Hb as [Hp Hr].
  destruct (p_binary p); [discriminate|]. cbn [andb].
  destruct (negb (p_has_sniffer p)); [apply IH; exact Hr|].
  destruct (sniffer_of w (p_name p)) as [sn|]; [|reflexivity].
  unfold h_rest. cbn [h_pos h_content].
  destruct (sn o (skipn fpos c)) as [[|]|]; cbn [fst]; try reflexivity;
    unfold h_after_sniff, h_seek; cbn [h_content h_binary h_pos]; apply IH; exact Hr.
Qed.
Lemma detect_at_offset : forall w o c pos b,
  fst (detect_h w o {| h_content := c; h_pos := pos; h_binary := b |}) = detect w o (skipn pos c).
Proof.
  intros w o c pos b. unfold detect, detect_h. cbn [h_tell h_pos].
  rewrite detect_loop_offset.
  destruct b; [reflexivity|].
  symmetry. apply detect_binary_irrelevant.
  destruct w; vm_compute; reflexivity.
Qed.

(* ------------------------------------------------------------------ string lemmas *)
Lemma startswith_app : forall p s, startswith p s = true -> exists r, s = p ++ r.
Proof.
  induction p as [|a p IH]; intros s H.
  - exists s. reflexivity.
  - destruct s as [|b s]; [discriminate|]. cbn [startswith] in H. apply andb_prop in H. destruct H as [H1 H2].
    apply byte_eqb_eq in H1. subst b. destruct (IH s H2) as [r Hr]. exists r. subst s. reflexivity.
Qed.
Lemma startswith_self_app : forall p r, startswith p (p ++ r) = true.
Proof. induction p as [|a p IH]; intros r; [reflexivity|]. cbn [startswith app]. rewrite byte_eqb_refl, IH. reflexivity. Qed.

Lemma lstrip_ws_snoc : forall a c,
  lstrip_ws (a ++ [c]) = match lstrip_ws a with [] => (if is_ws c then [] else [c]) | r => r ++ [c] end.
Proof.
  induction a as [|x a IH]; intros c.
  - cbn. destruct (is_ws c); reflexivity.
  - cbn [app lstrip_ws]. destruct (is_ws x) eqn:E; [apply IH|reflexivity].
Qed.
Lemma rstrip_ws_cons : forall c s,
  rstrip_ws (c :: s) = match rstrip_ws s with [] => (if is_ws c then [] else [c]) | r => c :: r end.
Proof.
  intros c s. unfold rstrip_ws. cbn [rev]. rewrite lstrip_ws_snoc.
  destruct (lstrip_ws (rev s)) as [|y l] eqn:E.
  - cbn. destruct (is_ws c); reflexivity.
  - rewrite rev_app_distr. change (rev [c]) with [c]. change ([c] ++ rev (y :: l)) with (c :: rev (y :: l)).
    destruct (rev (y :: l)) eqn:E2; [|reflexivity].
    apply (f_equal (@length byte)) in E2. rewrite rev_length in E2. discriminate.
Qed.
Lemma rstrip_ws_app_nonws : forall a x t, is_ws x = false -> rstrip_ws (a ++ x :: t) = a ++ x :: rstrip_ws t.
Proof.
  induction a as [|c a IH]; intros x t Hx.
  - cbn [app]. rewrite rstrip_ws_cons, Hx. destruct (rstrip_ws t); reflexivity.
  - cbn [app]. rewrite rstrip_ws_cons, IH by exact Hx. destruct a; reflexivity.
Qed.
(* a prefix that starts and ends with a non-blank character survives strip() *)
Lemma strip_keeps_prefix : forall h a x t,
  is_ws h = false -> is_ws x = false ->
  strip_ws ((h :: a) ++ x :: t) = (h :: a) ++ x :: rstrip_ws t.
Proof.
  intros h a x t Hh Hx. unfold strip_ws. cbn [app lstrip_ws]. rewrite Hh.
  change (h :: a ++ x :: t) with ((h :: a) ++ x :: t). apply rstrip_ws_app_nonws. exact Hx.
Qed.
(* strip() of text whose first character is not blank still starts with that character *)
Lemma strip_head : forall h t, is_ws h = false -> exists r, strip_ws (h :: t) = h :: r.
Proof.
  intros h t Hh. unfold strip_ws. cbn [lstrip_ws]. rewrite Hh. rewrite rstrip_ws_cons, Hh.
  destruct (rstrip_ws t); eauto.
Qed.

Lemma splitn_no_sep : forall c s n, forallb (fun x => negb (byte_eqb x c)) s = true -> splitn c s n = [s].
Proof.
  intros c s. induction s as [|x r IH]; intros n H; [reflexivity|].
  cbn [forallb] in H. apply andb_prop in H. destruct H as [H1 H2].
  cbn [splitn]. destruct n as [|n']; [reflexivity|].
  destruct (byte_eqb x c); [discriminate|]. rewrite IH by exact H2. reflexivity.
Qed.
Lemma no_tab_firstn_app : forall p r n, no_tab (firstn n (p ++ r)) = true -> length p <= n ->
  no_tab (firstn n (p ++ r)) = true.
Proof. intros. assumption. Qed.
(* is_gff on text without a tab in its first 100 characters and not starting like a GFF pragma: unpacking fails *)
Lemma is_gff_no_tab : forall c,
  startswith (bs "##gff-version 3"%bs) (strip_ws (firstn 100 c)) = false ->
  no_tab (firstn 100 c) = true -> is_gff c = None.
Proof.
  intros c H1 H2. unfold is_gff, read_n. rewrite H1.
  rewrite (splitn_no_sep tab (firstn 100 c) 9 H2). reflexivity.
Qed.

(* ------------------------------------------------------------------ soundness on the writers' prefixes *)
Local Ltac prefix c H := apply startswith_app in H; destruct H as [r H]; subst c.

Lemma sniff_fasta : forall r, is_fasta (">"%byte :: r) = Some true.
Proof.
  intros r. unfold is_fasta, read_n. change (firstn 50 (">"%byte :: r)) with (">"%byte :: firstn 49 r).
  destruct (strip_head ">"%byte (firstn 49 r) eq_refl) as [q Hq]. rewrite Hq. reflexivity.
Qed.
Lemma not_fasta_head : forall h t, is_ws h = false -> byte_eqb ">"%byte h = false -> is_fasta (h :: t) = Some false.
Proof.
  intros h t Hh Hn. unfold is_fasta, read_n. change (firstn 50 (h :: t)) with (h :: firstn 49 t).
  destruct (strip_head h (firstn 49 t) Hh) as [q Hq]. rewrite Hq. cbn [startswith bs bytes_of_bstr]. rewrite Hn. reflexivity.
Qed.

Lemma detect_fasta_sound : forall o c, shape_fasta c = true -> detect Seqs o c = DFound (bs "fasta"%bs).
Proof.
  intros o c H. unfold shape_fasta in H. prefix c H.
  unfold detect, detect_h. cbn [h_tell h_pos chain].
  unfold PLUGINS_seqs. cbn [detect_loop p_has_sniffer p_binary p_name fst snd negb andb h_binary].
  change (sniffer_of Seqs (bs "fasta"%bs)) with (Some (fun _ : opts => is_fasta)).
  cbn beta iota. unfold h_rest. cbn [h_pos h_content skipn bs bytes_of_bstr app].
  rewrite sniff_fasta. reflexivity.
Qed.

(* the general step: a sniffer that says "no" (or raises) is skipped *)
Lemma detect_step_no : forall w o fpos p rest h sn,
  p_has_sniffer p = true -> p_binary p = false -> sniffer_of w (p_name p) = Some sn ->
  sn o (h_rest h) <> Some true ->
  fst (detect_loop w o fpos (p :: rest) h) = fst (detect_loop w o fpos rest (h_seek fpos (h_after_sniff h))).
Proof.
  intros w o fpos p rest h sn H1 H2 H3 H4. cbn [detect_loop]. rewrite H1, H2, H3. cbn [negb andb].
  destruct (sn o (h_rest h)) as [[|]|]; [congruence|reflexivity|reflexivity].
Qed.
Lemma detect_step_yes : forall w o fpos p rest h sn,
  p_has_sniffer p = true -> p_binary p = false -> sniffer_of w (p_name p) = Some sn ->
  sn o (h_rest h) = Some true ->
  fst (detect_loop w o fpos (p :: rest) h) = DFound (p_name p).
Proof.
  intros w o fpos p rest h sn H1 H2 H3 H4. cbn [detect_loop]. rewrite H1, H2, H3, H4. reflexivity.
Qed.

(* content-level characterisation of detect as "first sniffer in the chain that accepts" *)
Fixpoint first_accepting (w : what) (o : opts) (ps : list plugin) (c : str) : dres :=
  match ps with
  | [] => DNothing
  | p :: rest =>
      match sniffer_of w (p_name p) with
      | Some sn => match sn o c with Some true => DFound (p_name p) | _ => first_accepting w o rest c end
      | None => DUnknownPlugin (p_name p)
      end
  end.
Lemma detect_loop_first : forall w o ps c pos b,
  forallb (plugin_known w) ps = true -> forallb p_has_sniffer ps = true ->
  fst (detect_loop w o pos ps {| h_content := c; h_pos := pos; h_binary := b |}) =
  first_accepting w o ps (skipn pos c).
Proof.
  intros w o ps c. induction ps as [|p rest IH]; intros pos b Hk Hs; [reflexivity|].
  cbn [forallb] in Hk, Hs. apply andb_prop in Hk. destruct Hk as [Hk Hkr]. apply andb_prop in Hs. destruct Hs as [Hs Hsr].
  unfold plugin_known in Hk. rewrite Hs in Hk. cbn [negb orb] in Hk. apply andb_prop in Hk. destruct Hk as [Hb Hsn].
  cbn [detect_loop first_accepting]. rewrite Hs. cbn [negb].
  destruct (p_binary p); [discriminate|]. cbn [andb].
  destruct (sniffer_of w (p_name p)) as [sn|]; [|discriminate].
  unfold h_rest. cbn [h_pos h_content].
  destruct (sn o (skipn pos c)) as [[|]|] eqn:E; cbn [fst]; try reflexivity.
  - unfold h_after_sniff, h_seek. cbn [h_content h_pos h_binary]. rewrite IH by assumption. reflexivity.
  - unfold h_after_sniff, h_seek. cbn [h_content h_pos h_binary]. rewrite IH by assumption. reflexivity.
Qed.
Lemma detect_is_first_accepting : forall w o c, detect w o c = first_accepting w o (chain w) c.
Proof.
  intros w o c. unfold detect, detect_h. cbn [h_tell h_pos].
  rewrite (detect_loop_first w o (chain w) c 0 true); [reflexivity| |]; destruct w; vm_compute; reflexivity.
Qed.

Lemma detect_stockholm_sound : forall o c, shape_stockholm c = true -> detect Seqs o c = DFound (bs "stockholm"%bs).
Proof.
  intros o c H. unfold shape_stockholm in H. prefix c H.
  rewrite detect_is_first_accepting. unfold chain, PLUGINS_seqs. cbn [first_accepting p_name fst].
  change (sniffer_of Seqs (bs "fasta"%bs)) with (Some (fun _ : opts => is_fasta)).
  change (sniffer_of Seqs (bs "genbank"%bs)) with (Some (fun _ : opts => is_genbank)).
  change (sniffer_of Seqs (bs "stockholm"%bs)) with (Some (fun _ : opts => is_stockholm)).
  cbn beta iota. cbn [bs bytes_of_bstr app].
  rewrite not_fasta_head by reflexivity. reflexivity.
Qed.

Lemma strip_gff_prefix : forall t,
  startswith (bs "##gff-version 3"%bs) (strip_ws (bs "##gff-version 3"%bs ++ t)) = true.
Proof.
  intros t.
  change (bs "##gff-version 3"%bs ++ t) with (("#"%byte :: bs "#gff-version "%bs) ++ "3"%byte :: t).
  rewrite strip_keeps_prefix by reflexivity.
  change (("#"%byte :: bs "#gff-version "%bs) ++ "3"%byte :: rstrip_ws t) with (bs "##gff-version 3"%bs ++ rstrip_ws t).
  apply startswith_self_app.
Qed.
Lemma sniff_gff_pragma : forall r, is_gff (bs "##gff-version 3"%bs ++ r) = Some true.
Proof.
  intros r. unfold is_gff, read_n.
  replace (firstn 100 (bs "##gff-version 3"%bs ++ r)) with (bs "##gff-version 3"%bs ++ firstn 85 r) by reflexivity.
  rewrite strip_gff_prefix. reflexivity.
Qed.
Lemma detect_gff_seqs_sound : forall o c, shape_gff c = true -> detect Seqs o c = DFound (bs "gff"%bs).
Proof.
  intros o c H. unfold shape_gff in H. prefix c H.
  rewrite detect_is_first_accepting. unfold chain, PLUGINS_seqs. cbn [first_accepting p_name fst].
  change (sniffer_of Seqs (bs "fasta"%bs)) with (Some (fun _ : opts => is_fasta)).
  change (sniffer_of Seqs (bs "genbank"%bs)) with (Some (fun _ : opts => is_genbank)).
  change (sniffer_of Seqs (bs "stockholm"%bs)) with (Some (fun _ : opts => is_stockholm)).
  change (sniffer_of Seqs (bs "gff"%bs)) with (Some (fun _ : opts => is_gff)).
  cbn beta iota. rewrite sniff_gff_pragma.
  cbn [bs bytes_of_bstr app]. rewrite not_fasta_head by reflexivity. reflexivity.
Qed.
Lemma detect_gff_fts_sound : forall o c, shape_gff c = true -> detect Fts o c = DFound (bs "gff"%bs).
Proof.
  intros o c H. unfold shape_gff in H. prefix c H.
  rewrite detect_is_first_accepting. unfold chain, PLUGINS_fts. cbn [first_accepting p_name fst].
  change (sniffer_of Fts (bs "gff"%bs)) with (Some (fun _ : opts => is_gff)).
  cbn beta iota. rewrite sniff_gff_pragma. reflexivity.
Qed.

(* GenBank: LOCUS + no tab among the first 100 characters *)
Lemma not_gff_head : forall h t, is_ws h = false -> byte_eqb "#"%byte h = false ->
  startswith (bs "##gff-version 3"%bs) (strip_ws (firstn 100 (h :: t))) = false.
Proof.
  intros h t Hh Hn. change (firstn 100 (h :: t)) with (h :: firstn 99 t). destruct (strip_head h (firstn 99 t) Hh) as [q Hq]. rewrite Hq.
  cbn [startswith bs bytes_of_bstr]. rewrite Hn. reflexivity.
Qed.
Lemma detect_genbank_sound : forall o c, shape_genbank c = true ->
  detect Seqs o c = DFound (bs "genbank"%bs) /\ detect Fts o c = DFound (bs "genbank"%bs).
Proof.
  intros o c H. unfold shape_genbank in H. apply andb_prop in H. destruct H as [H Ht].
  apply startswith_app in H. destruct H as [r H]. subst c. split.
  - rewrite detect_is_first_accepting. unfold chain, PLUGINS_seqs. cbn [first_accepting p_name fst].
    change (sniffer_of Seqs (bs "fasta"%bs)) with (Some (fun _ : opts => is_fasta)).
    change (sniffer_of Seqs (bs "genbank"%bs)) with (Some (fun _ : opts => is_genbank)).
    cbn beta iota. cbn [bs bytes_of_bstr app]. rewrite not_fasta_head by reflexivity. reflexivity.
  - rewrite detect_is_first_accepting. unfold chain, PLUGINS_fts. cbn [first_accepting p_name fst].
    change (sniffer_of Fts (bs "gff"%bs)) with (Some (fun _ : opts => is_gff)).
    change (sniffer_of Fts (bs "genbank"%bs)) with (Some (fun _ : opts => is_genbank)).
    cbn beta iota. rewrite is_gff_no_tab; [reflexivity| |exact Ht].
    cbn [bs bytes_of_bstr app]. apply not_gff_head; reflexivity.
Qed.

(* SJSON *)
Lemma contains_here : forall p s, startswith p s = true -> contains p s = true.
Proof. intros p s H. destruct s; cbn [contains]; [exact H|]. rewrite H. reflexivity. Qed.
Lemma contains_cons : forall p c s, contains p s = true -> contains p (c :: s) = true.
Proof. intros p c s H. cbn [contains]. rewrite H. apply orb_true_r. Qed.
Lemma contains_app : forall a p x, contains p (a ++ p ++ x) = true.
Proof.
  induction a as [|c a IH]; intros p x.
  - change ([] ++ p ++ x) with (p ++ x). apply contains_here. apply startswith_self_app.
  - change ((c :: a) ++ p ++ x) with (c :: a ++ p ++ x). apply contains_cons. apply IH.
Qed.
Definition sjson_tail : str := bs """_fmtcomment"": """%bs.
Lemma sjson_prefix_eq : bs "{""_fmtcomment"": """%bs = "{"%byte :: sjson_tail.
Proof. reflexivity. Qed.
Lemma sniff_sjson : forall r, is_sjson (("{"%byte :: sjson_tail ++ firstn 17 SJSON_COMMENT) ++ r) = Some true.
Proof.
  intros r. unfold is_sjson, read_n.
  set (m := firstn 17 SJSON_COMMENT).
  set (pre := "{"%byte :: sjson_tail ++ m).
  change 51 with (length pre + 17). rewrite firstn_app_2.
  unfold lower, pre. change ("{"%byte :: sjson_tail ++ m) with (("{"%byte :: sjson_tail) ++ m).
  rewrite !map_app, <- app_assoc. rewrite contains_app. reflexivity.
Qed.
Lemma detect_sjson_sound : forall o c, shape_sjson c = true -> detect Seqs o c = DFound (bs "sjson"%bs).
Proof.
  intros o c H. unfold shape_sjson in H. apply andb_prop in H. destruct H as [H Ht].
  apply startswith_app in H. destruct H as [r H]. subst c.
  rewrite sjson_prefix_eq in *.
  change (("{"%byte :: sjson_tail) ++ firstn 17 SJSON_COMMENT) with ("{"%byte :: sjson_tail ++ firstn 17 SJSON_COMMENT) in *.
  rewrite detect_is_first_accepting. unfold chain, PLUGINS_seqs. cbn [first_accepting p_name fst].
  change (sniffer_of Seqs (bs "fasta"%bs)) with (Some (fun _ : opts => is_fasta)).
  change (sniffer_of Seqs (bs "genbank"%bs)) with (Some (fun _ : opts => is_genbank)).
  change (sniffer_of Seqs (bs "stockholm"%bs)) with (Some (fun _ : opts => is_stockholm)).
  change (sniffer_of Seqs (bs "gff"%bs)) with (Some (fun _ : opts => is_gff)).
  change (sniffer_of Seqs (bs "sjson"%bs)) with (Some (fun _ : opts => is_sjson)).
  cbn beta iota.
  rewrite sniff_sjson.
  rewrite is_gff_no_tab; [| |exact Ht].
  - set (tl := firstn 17 SJSON_COMMENT) in *.
    change (("{"%byte :: sjson_tail ++ tl) ++ r) with ("{"%byte :: (sjson_tail ++ tl) ++ r).
    rewrite not_fasta_head by reflexivity.
    assert (Hg : is_genbank ("{"%byte :: (sjson_tail ++ tl) ++ r) = Some false /\
                 is_stockholm ("{"%byte :: (sjson_tail ++ tl) ++ r) = Some false) by (split; reflexivity).
    destruct Hg as [Hg1 Hg2]. rewrite Hg1, Hg2. reflexivity.
  - change (("{"%byte :: sjson_tail ++ firstn 17 SJSON_COMMENT) ++ r) with ("{"%byte :: (sjson_tail ++ firstn 17 SJSON_COMMENT) ++ r).
    apply not_gff_head; reflexivity.
Qed.

(* ------------------------------------------------------------------ extension tables (finite, regenerated) *)
Definition ext_roundtrip (w : what) : bool :=
  forallb (fun p => forallb (fun e => match detect_ext_loop e (chain w) with Some f => str_eqb f (p_name p) | None => false end)
                            (p_exts p)) (chain w).
Definition all_exts (w : what) : list str := flat_map (fun p => if p_has_ext p then p_exts p else []) (chain w).
Fixpoint nodup_str (l : list str) : bool :=
  match l with [] => true | x :: r => negb (mem_str x r) && nodup_str r end.
Lemma ext_tables_ok :
  ext_roundtrip Seqs = true /\ ext_roundtrip Fts = true /\ nodup_str (all_exts Seqs) = true /\ nodup_str (all_exts Fts) = true.
Proof. vm_compute. repeat split; reflexivity. Qed.
Lemma mem_str_In : forall x l, In x l -> mem_str x l = true.
Proof.
  intros x l H. unfold mem_str. apply existsb_exists. exists x. split; [exact H|apply str_eqb_refl].
Qed.
Lemma detect_ext_declared : forall w p e, In p (chain w) -> In e (p_exts p) ->
  detect_ext_loop e (chain w) = Some (p_name p).
Proof.
  intros w p e Hp He.
  assert (H : ext_roundtrip w = true) by (destruct w; vm_compute; reflexivity).
  unfold ext_roundtrip in H. rewrite forallb_forall in H. specialize (H p Hp). rewrite forallb_forall in H.
  specialize (H e He). destruct (detect_ext_loop e (chain w)) as [f|]; [|discriminate].
  apply str_eqb_eq in H. subst f. reflexivity.
Qed.
(* splitext on  <stem>.<ext>  where the stem has a non-dot character and no slash, and ext has neither dot nor slash *)
Lemma last_dot_suffix_nodot : forall e, forallb (fun c => negb (byte_eqb c dot)) e = true -> last_dot_suffix e = None.
Proof.
  induction e as [|c e IH]; intros H; [reflexivity|]. cbn [forallb] in H. apply andb_prop in H. destruct H as [H1 H2].
  cbn [last_dot_suffix]. rewrite IH by exact H2. destruct (byte_eqb c dot); [discriminate|reflexivity].
Qed.
Lemma last_dot_suffix_app : forall s e, forallb (fun c => negb (byte_eqb c dot)) e = true ->
  last_dot_suffix (s ++ dot :: e) = Some (dot :: e).
Proof.
  induction s as [|c s IH]; intros e H.
  - cbn [app last_dot_suffix]. rewrite last_dot_suffix_nodot by exact H. unfold dot at 1. rewrite byte_eqb_refl. reflexivity.
  - cbn [app last_dot_suffix]. rewrite IH by exact H. reflexivity.
Qed.
Lemma split_on_noslash : forall s, forallb (fun c => negb (byte_eqb c slash)) s = true -> split_on slash s = [s].
Proof.
  induction s as [|c s IH]; intros H; [reflexivity|]. cbn [forallb] in H. apply andb_prop in H. destruct H as [H1 H2].
  cbn [split_on]. destruct (byte_eqb c slash); [discriminate|]. rewrite IH by exact H2. reflexivity.
Qed.
Lemma forallb_app_b : forall (f : byte -> bool) a b, forallb f (a ++ b) = forallb f a && forallb f b.
Proof. intros f a b. apply forallb_app. Qed.
Lemma splitext_simple : forall stem e,
  forallb (fun c => negb (byte_eqb c slash)) stem = true -> forallb (fun c => byte_eqb c dot) stem = false ->
  forallb (fun c => negb (byte_eqb c dot)) e = true -> forallb (fun c => negb (byte_eqb c slash)) e = true ->
  removeprefix [dot] (splitext_ext (stem ++ dot :: e)) = e.
Proof.
  intros stem e Hs Hd He Hes. unfold splitext_ext, basename.
  rewrite split_on_noslash.
  2:{ rewrite forallb_app_b, Hs. cbn [forallb]. rewrite Hes. reflexivity. }
  cbn [last]. rewrite last_dot_suffix_app by exact He.
  rewrite app_length. cbn [length].
  replace (length stem + S (length e) - S (length e)) with (length stem) by lia.
  rewrite firstn_app, firstn_all, Nat.sub_diag. cbn [firstn]. rewrite app_nil_r, Hd.
  unfold removeprefix. cbn [startswith]. unfold dot at 1. rewrite byte_eqb_refl. reflexivity.
Qed.
Lemma detect_ext_spec : forall w p e stem,
  In p (chain w) -> In e (p_exts p) ->
  forallb (fun c => negb (byte_eqb c slash)) stem = true -> forallb (fun c => byte_eqb c dot) stem = false ->
  detect_ext w (stem ++ dot :: e) = Some (p_name p).
Proof.
  intros w p e stem Hp He Hs Hd. unfold detect_ext.
  assert (Hok : forallb (fun x => forallb (fun c => negb (byte_eqb c dot) && negb (byte_eqb c slash)) x) (all_exts w ++ flat_map p_exts (chain w)) = true)
    by (destruct w; vm_compute; reflexivity).
  rewrite forallb_forall in Hok.
  assert (Hin : In e (all_exts w ++ flat_map p_exts (chain w))).
  { apply in_or_app. right. apply in_flat_map. exists p. split; assumption. }
  specialize (Hok e Hin).
  assert (H1 : forallb (fun c => negb (byte_eqb c dot)) e = true).
  { rewrite forallb_forall in *. intros x Hx. specialize (Hok x Hx). apply andb_prop in Hok. tauto. }
  assert (H2 : forallb (fun c => negb (byte_eqb c slash)) e = true).
  { rewrite forallb_forall in *. intros x Hx. specialize (Hok x Hx). apply andb_prop in Hok. tauto. }
  rewrite splitext_simple by assumption. apply detect_ext_declared; assumption.
Qed.

(* ------------------------------------------------------------------ keyword plumbing *)
Lemma kw_drop_absent : forall k kw, kw_has k kw = false -> kw_drop k kw = kw.
Proof.
  intros k kw. unfold kw_has, kw_drop. induction kw as [|[a b] kw IH]; intros H; [reflexivity|].
  cbn [existsb fst] in H. apply orb_false_iff in H. destruct H as [H1 H2].
  cbn [filter fst]. rewrite H1. cbn [negb]. rewrite IH by exact H2. reflexivity.
Qed.
Definition kw_free (w : what) (kw : kwargs) : bool :=
  negb (kw_has "archive"%bs kw) && negb (kw_has "mode"%bs kw) && negb (kw_has "fname"%bs kw) && negb (kw_has "fmt"%bs kw)
  && match w with Seqs => negb (kw_has "tool"%bs kw) && negb (kw_has "encoding"%bs kw) | Fts => true end.
Lemma kwargs_passthrough : forall w e kw, kw_free w kw = true -> plugin_kw w e kw = Some kw.
Proof.
  intros w e kw H. unfold kw_free in H.
  repeat (apply andb_prop in H; destruct H as [H ?]).
  repeat match goal with Hx : negb _ = true |- _ => apply negb_true_iff in Hx end.
  assert (Hm : main_write_kw w kw = kw).
  { unfold main_write_kw. destruct w.
    - apply andb_prop in H0. destruct H0 as [Ht He]. apply negb_true_iff in Ht. apply negb_true_iff in He.
      rewrite (kw_drop_absent "archive"%bs) by assumption. rewrite (kw_drop_absent "mode"%bs) by assumption.
      rewrite (kw_drop_absent "tool"%bs) by assumption. rewrite (kw_drop_absent "encoding"%bs) by assumption. reflexivity.
    - rewrite (kw_drop_absent "archive"%bs) by assumption. rewrite (kw_drop_absent "mode"%bs) by assumption. reflexivity. }
  destruct e; cbn [plugin_kw]; rewrite ?Hm; try reflexivity.
  - rewrite H2, H1. reflexivity.
  - rewrite H2, H1. reflexivity.
Qed.
Lemma kwargs_entries_agree : forall w e1 e2 kw a b,
  plugin_kw w e1 kw = Some a -> plugin_kw w e2 kw = Some b -> a = b.
Proof.
  intros w e1 e2 kw a b H1 H2.
  destruct e1, e2; cbn [plugin_kw] in *;
    repeat match goal with H : (if ?c then _ else _) = Some _ |- _ => destruct c; [discriminate|] end; congruence.
Qed.
(* keys other than the ones write()/write_fts() bind themselves are never dropped, whatever else is passed *)
Lemma kw_drop_keeps : forall k kw a v, In (a, v) kw -> str_eqb a (bs k) = false -> In (a, v) (kw_drop k kw).
Proof.
  intros k kw a v Hin Hne. unfold kw_drop. apply filter_In. split; [exact Hin|]. cbn [fst]. rewrite Hne. reflexivity.
Qed.
Lemma kwargs_foreign_kept : forall w e kw got a v,
  plugin_kw w e kw = Some got -> In (a, v) kw ->
  str_eqb a (bs "archive"%bs) = false -> str_eqb a (bs "mode"%bs) = false ->
  str_eqb a (bs "tool"%bs) = false -> str_eqb a (bs "encoding"%bs) = false -> In (a, v) got.
Proof.
  intros w e kw got a v H Hin Ha Hm Ht He.
  assert (Hmw : In (a, v) (main_write_kw w kw)).
  { unfold main_write_kw. destruct w; repeat apply kw_drop_keeps; assumption. }
  destruct e; cbn [plugin_kw] in H;
    repeat match goal with H : (if ?c then _ else _) = Some _ |- _ => destruct c; [discriminate|] end;
    inversion H; subst; exact Hmw.
Qed.

(* ------------------------------------------------------------------ resolve decision *)
Definition plain_name (name : str) : bool :=
  negb (startswith (bs "!data/"%bs) name) && negb (str_eqb name (bs "-"%bs)) && negb (contains (bs "://"%bs) (firstn 10 name))
  && negb (has_magic name).
Definition has_archive_ext (name : str) : bool := existsb (fun ext => endswith (dot :: ext) name) ARCHIVE_EXTS.
Lemma resolve_spec : forall dd ex name a, plain_name name = true ->
  resolve dd ex (FStr name) a =
    if archive_requested a || has_archive_ext name then DArchive name (match a with AStr s => Some s | _ => None end)
    else if is_gz_arg a || endswith (bs ".gz"%bs) name then DGz name
    else DPlain name.
Proof.
  intros dd ex name a H. unfold plain_name in H.
  repeat (apply andb_prop in H; destruct H as [H ?]).
  repeat match goal with Hx : negb _ = true |- _ => apply negb_true_iff in Hx end.
  unfold resolve. rewrite H, H2, H1, H0. reflexivity.
Qed.
Lemma resolve_path_is_str : forall dd ex s a, resolve dd ex (FPath s) a = resolve dd ex (FStr s) a.
Proof. reflexivity. Qed.
Lemma resolve_handle : forall dd ex a, resolve dd ex FHandle a = DPassHandle /\ resolve dd ex FBytes a = DErrBytes.
Proof. intros. split; reflexivity. Qed.
Lemma resolve_glob_first : forall dd ex name a,
  startswith (bs "!data/"%bs) name = false -> str_eqb name (bs "-"%bs) = false ->
  contains (bs "://"%bs) (firstn 10 name) = false -> has_magic name = true ->
  resolve dd ex (FStr name) a = DGlob name.
Proof. intros dd ex name a H1 H2 H3 H4. unfold resolve. rewrite H1, H2, H3, H4. reflexivity. Qed.

(* ------------------------------------------------------------------ witnesses (non-vacuity) *)
Lemma witness_shapes :
  shape_fasta (bs ">id1 desc"%bs ++ [x0a] ++ bs "ACGT"%bs ++ [x0a]) = true /\
  shape_stockholm (bs "# STOCKHOLM 1.0"%bs ++ [x0a] ++ bs "a ACGT"%bs ++ [x0a] ++ bs "//"%bs ++ [x0a]) = true /\
  shape_gff (bs "##gff-version 3"%bs ++ [x0a]) = true /\
  shape_sjson (bs "{""_fmtcomment"": ""sugar JSON format written by sugar v0.1"", ""data"": []}"%bs) = true /\
  shape_genbank (bs "LOCUS       AB000001 10 bp    DNA"%bs ++ [x0a]) = true.
Proof. vm_compute. repeat split; reflexivity. Qed.

Lemma witness_hit_tables :
  let row p := bs "q1"%bs ++ [x09] ++ bs "s1"%bs ++ [x09] ++ p ++ [x09] ++ bs "100"%bs ++ [x09] ++ bs "0"%bs ++ [x09] ++ bs "0"%bs ++ [x09]
               ++ bs "1"%bs ++ [x09] ++ bs "100"%bs ++ [x09] ++ bs "500"%bs ++ [x09] ++ bs "401"%bs ++ [x09] ++ bs "1e-20"%bs ++ [x09]
               ++ bs "180"%bs ++ [x0a] in
  detect Fts no_opts (row (bs "95.408"%bs)) = DFound (bs "blast"%bs) /\
  detect Fts no_opts (row (bs "0.954"%bs)) = DFound (bs "mmseqs"%bs) /\
  detect Fts no_opts (row (bs "1.0000000000000001"%bs)) = DFound (bs "mmseqs"%bs) /\
  detect Fts no_opts (row (bs "1.01"%bs)) = DFound (bs "blast"%bs) /\
  detect Fts no_opts (row (bs "100.01"%bs)) = DNothing.
Proof. vm_compute. repeat split; reflexivity. Qed.

Lemma witness_kwargs_ext_resolve :
  kw_free Fts [(bs "header"%bs, bs "x"%bs)] = true /\
  plugin_kw Seqs ETofmtstr [(bs "mode"%bs, bs "w"%bs); (bs "header"%bs, bs "x"%bs)] = Some [(bs "header"%bs, bs "x"%bs)] /\
  detect_ext Seqs (bs "dir.d/my.seqs.fasta"%bs) = Some (bs "fasta"%bs) /\
  detect_ext Fts (bs "x.fasta"%bs) = None /\
  plain_name (bs "a.tar.gz"%bs) = true /\
  resolve [] [] (FStr (bs "a.tar.gz"%bs)) ANone = DArchive (bs "a.tar.gz"%bs) None /\
  resolve [] [] (FStr (bs "a.fa.gz"%bs)) ANone = DGz (bs "a.fa.gz"%bs) /\
  resolve [] [] (FStr (bs "a*.zip"%bs)) ATrue = DGlob (bs "a*.zip"%bs).
Proof. vm_compute. repeat split; reflexivity. Qed.
