(* C02 proofs, part 13: reader leniency on foreign text (comments, blank lines, ##FASTA, lower-case and superfluous escapes,
   blanks around keys and values) and the table bridge over whole lists. *)
From Coq Require Import List ZArith NArith Bool Lia.
From Coq.Strings Require Import Byte.
Import ListNotations.
From SV Require Import Text G_gff C02_Model C02_Lemmas C02_Order C02_Line.
Local Open Scope Z_scope.

(* ------------------------------------------------------------------ comment lines, blank lines, ##FASTA *)
Definition is_fasta_mark (line : str) : bool := startswith (bs "##FASTA"%bs) line.
Definition skippable (line : str) : bool :=
  negb (is_fasta_mark line) && (startswith (bs "#"%bs) line || Nat.eqb (length (strip line)) 0).

Theorem read_skip line rest acc id : skippable line = true -> read_lines (line :: rest) acc id = read_lines rest acc id.
Proof.
  unfold skippable, is_fasta_mark. intros H. apply andb_prop in H. destruct H as [H1 H2]. apply negb_true_iff in H1.
  cbn [read_lines]. rewrite H1, H2. reflexivity.
Qed.
Theorem read_fasta_mark line rest acc id : is_fasta_mark line = true -> read_lines (line :: rest) acc id = Some (rev acc).
Proof. unfold is_fasta_mark. intros H. cbn [read_lines]. rewrite H. reflexivity. Qed.

(* comment and blank lines may be inserted or removed anywhere without changing what is read *)
Theorem read_ignores_comments ls : forall acc id,
  read_lines (filter (fun l => negb (skippable l)) ls) acc id = read_lines ls acc id.
Proof.
  induction ls as [|line rest IH]; intros acc id; [reflexivity|]. cbn [filter].
  destruct (skippable line) eqn:S; cbn [negb].
  - rewrite (read_skip line rest acc id S). apply IH.
  - cbn [read_lines]. destruct (startswith (bs "##FASTA"%bs) line); [reflexivity|].
    destruct (startswith (bs "#"%bs) line || Nat.eqb (length (strip line)) 0); [apply IH|].
    destruct (parse_line line) as [gl|]; [|reflexivity].
    destruct (match match aget k_ID (g_attrs gl) with Some i => Some (i, g_type gl, g_seqid gl) | None => None end, id with
              | Some a, Some b => gid_eqb a b | _, _ => false end); [|apply IH].
    destruct acc as [|f acc']; [apply IH|].
    destruct (loc_tuple _); [apply IH|reflexivity].
Qed.
(* everything after the ##FASTA line is ignored *)
Theorem read_stops_at_fasta pre line post acc id : is_fasta_mark line = true ->
  Forall (fun l => is_fasta_mark l = false) pre ->
  read_lines (pre ++ line :: post) acc id = read_lines pre acc id.
Proof.
  intros Hm. revert acc id. induction pre as [|l pre IH]; intros acc id Hp.
  - cbn [app]. rewrite (read_fasta_mark line post acc id Hm). reflexivity.
  - inversion Hp as [|? ? Hl Hp']; subst. unfold is_fasta_mark in Hl. cbn [app read_lines]. rewrite Hl.
    destruct (startswith (bs "#"%bs) l || Nat.eqb (length (strip l)) 0); [apply IH; exact Hp'|].
    destruct (parse_line l) as [gl|]; [|reflexivity].
    destruct (match match aget k_ID (g_attrs gl) with Some i => Some (i, g_type gl, g_seqid gl) | None => None end, id with
              | Some a, Some b => gid_eqb a b | _, _ => false end); [|apply IH; exact Hp'].
    destruct acc as [|f acc']; [apply IH; exact Hp'|].
    destruct (loc_tuple _); [apply IH; exact Hp'|reflexivity].
Qed.

(* ------------------------------------------------------------------ escapes: lower case, superfluous *)
Definition hexdigitL (n : N) : byte :=
  match n with
  | 0 => "0" | 1 => "1" | 2 => "2" | 3 => "3" | 4 => "4" | 5 => "5" | 6 => "6" | 7 => "7"
  | 8 => "8" | 9 => "9" | 10 => "a" | 11 => "b" | 12 => "c" | 13 => "d" | 14 => "e" | _ => "f"
  end%N%byte.
(* admissible encodings of one byte: itself (unless it is the escape introducer) or %XX with digits of either case *)
Definition enc_ok (c : byte) (e : str) : Prop :=
  (e = [c] /\ byte_eqb c "%"%byte = false) \/
  exists h1 h2, e = ["%"%byte; h1; h2] /\ (h1 = hexdigitU (N.div (bcode c) 16) \/ h1 = hexdigitL (N.div (bcode c) 16))
                                     /\ (h2 = hexdigitU (N.modulo (bcode c) 16) \/ h2 = hexdigitL (N.modulo (bcode c) 16)).
Lemma unq3_any : forall c h1 h2,
  (h1 = hexdigitU (N.div (bcode c) 16) \/ h1 = hexdigitL (N.div (bcode c) 16)) ->
  (h2 = hexdigitU (N.modulo (bcode c) 16) \/ h2 = hexdigitL (N.modulo (bcode c) 16)) -> unq3 h1 h2 = Some c.
Proof. intros c h1 h2 [->| ->] [->| ->]; destruct c; vm_compute; reflexivity. Qed.
Theorem unquote_any_encoding : forall (s : str) (es : list str), Forall2 enc_ok s es -> unquote (concat es) = s.
Proof.
  induction 1 as [|c e s es He _ IH]; [reflexivity|]. cbn [concat].
  destruct He as [[-> Hc]|[h1 [h2 [-> [H1 H2]]]]].
  - cbn [app unquote]. rewrite Hc, IH. reflexivity.
  - cbn [app unquote]. change (byte_eqb "%"%byte "%"%byte) with true. cbv iota. rewrite (unq3_any c h1 h2 H1 H2), IH. reflexivity.
Qed.

(* ------------------------------------------------------------------ blanks around an item, a key, a value *)
Lemma lstrip_ws_app ws s : forallb is_ws ws = true -> lstrip (ws ++ s) = lstrip s.
Proof. induction ws as [|c ws IH]; [reflexivity|]. cbn [forallb app lstrip]. intros H. apply andb_prop in H. destruct H as [H1 H2]. rewrite H1. apply IH. exact H2. Qed.
Theorem strip_padded ws1 ws2 s : forallb is_ws ws1 = true -> forallb is_ws ws2 = true ->
  starts_ok s = true -> ends_ok s = true -> strip (ws1 ++ s ++ ws2) = s.
Proof.
  intros H1 H2 S E. unfold strip, rstrip. rewrite (lstrip_ws_app ws1 _ H1). 
  assert (lstrip (s ++ ws2) = s ++ ws2 \/ s = []) as [L|L].
  { destruct s as [|c r]; [right; reflexivity|left]. cbn [app lstrip]. cbn in S. unfold nws in S. destruct (is_ws c); [discriminate S|reflexivity]. }
  - rewrite L, rev_app_distr. rewrite (lstrip_ws_app (rev ws2) _) by (rewrite forallb_rev; exact H2).
    rewrite (lstrip_id (rev s) E). apply rev_involutive.
  - subst s. cbn [app]. clear -H2. assert (lstrip ws2 = []) as Z by (induction ws2 as [|c w IH]; [reflexivity|]; cbn in *; apply andb_prop in H2; destruct H2 as [A B]; rewrite A; apply IH; exact B).
    rewrite Z. reflexivity.
Qed.
(* an item surrounded by blanks is read like the item itself *)
Theorem parse_kv_padded ws1 ws2 item : forallb is_ws ws1 = true -> forallb is_ws ws2 = true ->
  starts_ok item = true -> ends_ok item = true -> parse_kv (ws1 ++ item ++ ws2) = parse_kv item.
Proof.
  intros H1 H2 S E. unfold parse_kv. rewrite (strip_padded ws1 ws2 item H1 H2 S E), (strip_id item S E). reflexivity.
Qed.

(* ------------------------------------------------------------------ TSV/CSV over whole lists *)
Definition loc_valid (f : feat) : bool := negb (Nat.eqb (length (flocs f)) 0) && forallb (fun l => Z.ltb (lstart l) (lstop l)) (flocs f).
Theorem xsv_list ks x : xsel ks = true -> forallb loc_valid x = true ->
  map (xrecord ks) (map (xrow ks) x) =
  map (fun f => Some (Some (if xhas KType ks then feat_type f else None, fst (loc_range (flocs f)), snd (loc_range (flocs f)),
                            if xhas KStrand ks then feat_strand f else "?"%byte))) x.
Proof.
  intros S V. rewrite map_map. apply map_ext_in. intros f Hin. rewrite forallb_forall in V. specialize (V f Hin).
  unfold loc_valid in V. apply andb_prop in V. destruct V as [V1 V2]. apply xsv_arith; [exact S|].
  apply range_lt; [|exact V2]. intros E. rewrite E in V1. discriminate V1.
Qed.

(* ------------------------------------------------------------------ the reader with options, all options off, is the reader of the theorems *)
Lemma parse_line_cols line gl0 : parse_line line = Some gl0 ->
  exists c1 c2 c3 c4 c5 c6 c7 c8 c9, split_on c_tab (strip line) = [c1; c2; c3; c4; c5; c6; c7; c8; c9] /\
    g_type gl0 = (if str_eqb (unquote c3) dot then None else Some (unquote c3)).
Proof.
  unfold parse_line.
  destruct (split_on c_tab (strip line)) as [|c1 [|c2 [|c3 [|c4 [|c5 [|c6 [|c7 [|c8 [|c9 [|c10 r]]]]]]]]]]; try discriminate.
  intros H. exists c1, c2, c3, c4, c5, c6, c7, c8, c9. split; [reflexivity|].
  repeat match type of H with
         | match ?x with _ => _ end = Some _ => destruct x eqn:?; try discriminate H
         | (if ?x then _ else _) = Some _ => destruct x eqn:?; try discriminate H
         end.
  all: inversion H; reflexivity.
Qed.
Lemma parse_line_none_cols line : (forall c1 c2 c3 c4 c5 c6 c7 c8 c9, split_on c_tab (strip line) <> [c1; c2; c3; c4; c5; c6; c7; c8; c9]) ->
  parse_line line = None.
Proof.
  intros H. unfold parse_line.
  destruct (split_on c_tab (strip line)) as [|c1 [|c2 [|c3 [|c4 [|c5 [|c6 [|c7 [|c8 [|c9 [|c10 r]]]]]]]]]]; try reflexivity.
  exfalso. apply (H c1 c2 c3 c4 c5 c6 c7 c8 c9). reflexivity.
Qed.
Theorem read_lines_o_default ls : forall acc id cm,
  option_map fst (read_lines_o no_opts ls acc id cm) = read_lines ls acc id.
Proof.
  induction ls as [|line rest IH]; intros acc id cm; [reflexivity|].
  cbn [read_lines_o read_lines no_opts o_fast o_filt o_default].
  destruct (startswith (bs "##FASTA"%bs) line); [reflexivity|].
  destruct (startswith (bs "#"%bs) line || Nat.eqb (length (strip line)) 0); [apply IH|].
  destruct (parse_line line) as [gl0|] eqn:P.
  - destruct (parse_line_cols line gl0 P) as [c1 [c2 [c3 [c4 [c5 [c6 [c7 [c8 [c9 [E T]]]]]]]]]]. rewrite E.
    rewrite <- T. cbn [g_type g_seqid g_loc g_attrs].
    destruct (match match aget k_ID (g_attrs gl0) with Some i => Some (i, g_type gl0, g_seqid gl0) | None => None end, id with
              | Some a, Some b => gid_eqb a b | _, _ => false end); [|apply IH].
    destruct acc as [|f acc']; [apply IH|].
    destruct (loc_tuple _); [apply IH|reflexivity].
  - destruct (split_on c_tab (strip line)) as [|c1 [|c2 [|c3 [|c4 [|c5 [|c6 [|c7 [|c8 [|c9 [|c10 r]]]]]]]]]]; reflexivity.
Qed.
