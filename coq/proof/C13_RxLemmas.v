(* C13 proofs for the pattern language (model/C13_Rx.v): the gap rewriting on text and tree, matcher soundness, meaning of the
   rewritten pattern, generic finditer / matchall statements, span mirroring, groupby, rf decision table. *)
From Coq Require Import List ZArith NArith Bool Lia.
From Coq.Strings Require Import Byte.
Import ListNotations.
From SV Require Import Text G_codes C05_Model C05_Lemmas C13_Model C13_Rx C13_Lemmas.
Local Open Scope Z_scope.

(* ================================================================== the rewriting: text level = tree level *)
(* the units of the text of a tree *)
Fixpoint toks (r : rx) : list str :=
  match r with
  | XChr c => [[c]]
  | XDot => [[cdot]]
  | XCls neg cs => [show_cls neg cs]
  | XCat a b => toks a ++ toks b
  | XAlt a b => toks a ++ [cbar] :: toks b
  | XStar a => toks a ++ [["*"%byte]]
  | XPlus a => toks a ++ [["+"%byte]]
  | XOpt a => toks a ++ [["?"%byte]]
  | XGrp cap a => ["("%byte] :: (if cap then [] else [["?"%byte]; [":"%byte]]) ++ toks a ++ [[")"%byte]]
  end.

Lemma toks_len r : (length (toks r) <= length (show r))%nat.
Proof.
  induction r; cbn [toks show]; rewrite ?app_length; cbn [length]; rewrite ?app_length; cbn [length]; try lia.
  - unfold show_cls. cbn [length]. lia.
  - destruct cap; cbn [app length]; rewrite ?app_length; cbn [length]; lia.
Qed.

Lemma units_nil fuel : units fuel [] = [].
Proof. destruct fuel; reflexivity. Qed.
Lemma units_char fuel c rest : byte_eqb c cbo = false -> (S (length rest) <= fuel)%nat ->
  units fuel (c :: rest) = [c] :: units (fuel - 1) rest.
Proof. intros Hc Hf. destruct fuel as [|f]; [lia|]. cbn [units]. rewrite Hc. cbn. now rewrite Nat.sub_0_r. Qed.

Lemma cls_char_facts c : cls_char_ok c = true -> byte_eqb c cbc = false /\ byte_eqb c chat = false.
Proof. destruct c; intros H; try discriminate H; split; reflexivity. Qed.
Lemma lit_not_bo c : lit_ok c = true -> byte_eqb c cbo = false.
Proof. destruct c; intros H; try discriminate H; reflexivity. Qed.

Lemma to_close_cs cs rest : forallb cls_char_ok cs = true -> to_close (cs ++ cbc :: rest) = Some (cs ++ [cbc], rest).
Proof.
  induction cs as [|x cs IH]; intros H; [reflexivity|]. cbn [forallb] in H. apply andb_prop in H. destruct H as [Hx H].
  cbn [app to_close]. rewrite (proj1 (cls_char_facts x Hx)). now rewrite IH.
Qed.
Lemma class_unit_cls (neg : bool) cs rest : cls_ok cs = true ->
  class_unit ((if neg then [chat] else []) ++ cs ++ cbc :: rest) = Some ((if neg then [chat] else []) ++ cs ++ [cbc], rest).
Proof.
  intros H. destruct cs as [|x r]; [discriminate|]. unfold cls_ok in H. apply andb_prop in H. destruct H as [H _].
  pose proof H as H'. cbn [forallb] in H'. apply andb_prop in H'. destruct H' as [Hx _].
  destruct (cls_char_facts x Hx) as [Hc Hh].
  destruct neg; unfold class_unit; cbn [app].
  - replace (byte_eqb chat chat) with true by reflexivity. rewrite Hc.
    change (x :: r ++ cbc :: rest) with ((x :: r) ++ cbc :: rest). now rewrite to_close_cs.
  - rewrite Hh, Hc. change (x :: r ++ cbc :: rest) with ((x :: r) ++ cbc :: rest). now rewrite to_close_cs.
Qed.

Ltac fin_units := repeat (f_equal; try (rewrite ?app_length; cbn [length]; lia)).
Lemma units_show r : forall rest fuel, rx_ok r = true -> (length (show r) + length rest <= fuel)%nat ->
  units fuel (show r ++ rest) = toks r ++ units (fuel - length (toks r)) rest.
Proof.
  induction r; intros rest fuel Hok Hf; cbn [show toks rx_ok] in *.
  - cbn [app length] in *. now rewrite units_char by (try apply lit_not_bo; auto; lia).
  - cbn [app length] in *. now rewrite units_char by (try reflexivity; lia).
  - unfold show_cls in *. cbn [app length] in *. rewrite <- !app_assoc. cbn [app].
    destruct fuel as [|f]; [lia|]. cbn [units]. replace (byte_eqb cbo cbo) with true by reflexivity.
    rewrite class_unit_cls by exact Hok. cbn [app length]. replace (S f - 1)%nat with f by lia. reflexivity.
  - apply andb_prop in Hok. destruct Hok as [Hok _]. apply andb_prop in Hok. destruct Hok as [Hok _].
    apply andb_prop in Hok. destruct Hok as [Hok1 Hok2].
    rewrite app_length in Hf. pose proof (toks_len r1). pose proof (toks_len r2).
    rewrite <- app_assoc. rewrite IHr1 by (auto; rewrite app_length; lia). rewrite IHr2 by (auto; lia).
    rewrite <- app_assoc. fin_units.
  - apply andb_prop in Hok. destruct Hok as [Hok1 Hok2].
    rewrite app_length in Hf. cbn [length] in Hf. pose proof (toks_len r1). pose proof (toks_len r2).
    rewrite <- app_assoc. cbn [app]. rewrite IHr1 by (auto; cbn [length]; rewrite app_length; lia).
    rewrite units_char by (try reflexivity; rewrite app_length; lia). rewrite IHr2 by (auto; lia).
    rewrite <- app_assoc. cbn [app]. fin_units.
  - apply andb_prop in Hok. destruct Hok as [Hok _]. apply andb_prop in Hok. destruct Hok as [Hok _].
    rewrite app_length in Hf. cbn [length] in Hf. pose proof (toks_len r).
    rewrite <- app_assoc. cbn [app]. rewrite IHr by (auto; cbn [length]; lia).
    rewrite units_char by (try reflexivity; lia). rewrite <- app_assoc. cbn [app]. fin_units.
  - apply andb_prop in Hok. destruct Hok as [Hok _]. apply andb_prop in Hok. destruct Hok as [Hok _].
    rewrite app_length in Hf. cbn [length] in Hf. pose proof (toks_len r).
    rewrite <- app_assoc. cbn [app]. rewrite IHr by (auto; cbn [length]; lia).
    rewrite units_char by (try reflexivity; lia). rewrite <- app_assoc. cbn [app]. fin_units.
  - apply andb_prop in Hok. destruct Hok as [Hok _]. apply andb_prop in Hok. destruct Hok as [Hok _].
    rewrite app_length in Hf. cbn [length] in Hf. pose proof (toks_len r).
    rewrite <- app_assoc. cbn [app]. rewrite IHr by (auto; cbn [length]; lia).
    rewrite units_char by (try reflexivity; lia). rewrite <- app_assoc. cbn [app]. fin_units.
  - pose proof (toks_len r). destruct cap; cbn [app length] in *; rewrite ?app_length in Hf; cbn [length] in Hf.
    + rewrite units_char by (try reflexivity; rewrite !app_length; cbn [length]; rewrite ?app_length; cbn [length]; lia).
      rewrite <- app_assoc. cbn [app]. rewrite IHr by (auto; cbn [length]; lia).
      rewrite units_char by (try reflexivity; lia). rewrite <- app_assoc. cbn [app]. fin_units.
    + rewrite ?app_length in Hf. cbn [length] in Hf.
      rewrite units_char by (try reflexivity; cbn [length]; rewrite !app_length; cbn [length]; rewrite ?app_length; cbn [length]; lia).
      rewrite units_char by (try reflexivity; cbn [length]; rewrite !app_length; cbn [length]; rewrite ?app_length; cbn [length]; lia).
      rewrite units_char by (try reflexivity; rewrite !app_length; cbn [length]; rewrite ?app_length; cbn [length]; lia).
      rewrite <- app_assoc. cbn [app]. rewrite IHr by (auto; cbn [length]; lia).
      rewrite units_char by (try reflexivity; lia). rewrite <- app_assoc. cbn [app]. fin_units.
Qed.

(* joining with the knowledge whether the unit that follows is a letter unit *)
Fixpoint joinn (g : str) (us : list str) (nx : bool) : str :=
  match us with
  | [] => []
  | u :: r => u ++ (if isletter u && (match r with n :: _ => isletter n | [] => nx end) then gapstr g else []) ++ joinn g r nx
  end.
Definition hdl (us : list str) (nx : bool) : bool := match us with n :: _ => isletter n | [] => nx end.

Lemma join_joinn g us : join_units g us = joinn g us false.
Proof.
  induction us as [|u r IH]; [reflexivity|]. cbn [join_units joinn]. rewrite IH. destruct r as [|n r']; [|reflexivity].
  now rewrite andb_false_r.
Qed.
Lemma joinn_app g a : forall b nx, joinn g (a ++ b) nx = joinn g a (hdl b nx) ++ joinn g b nx.
Proof.
  induction a as [|u a IH]; intros b nx; [reflexivity|].
  cbn [app joinn]. rewrite IH. destruct a as [|n a']; cbn [app]; rewrite <- ?app_assoc; cbn [app]; reflexivity.
Qed.
Lemma joinn_cons_nonletter g u r nx : isletter u = false -> joinn g (u :: r) nx = u ++ joinn g r nx.
Proof. intros H. cbn [joinn]. rewrite H. reflexivity. Qed.
Lemma toks_nonempty r : toks r <> [].
Proof.
  induction r; cbn; try discriminate; try (intros H; apply app_eq_nil in H; destruct H as [H _]; contradiction).
Qed.
Lemma hdl_app a b nx nx' : a <> [] -> hdl (a ++ b) nx = hdl a nx'.
Proof. destruct a; [contradiction|reflexivity]. Qed.
Lemma isletter_cls neg cs : isletter (show_cls neg cs) = true.
Proof. unfold show_cls. destruct neg; [reflexivity|]. destruct cs; reflexivity. Qed.
Lemma first_plain_spec r : forall nx, hdl (toks r) nx = first_plain r.
Proof.
  induction r; intros nx; cbn [toks first_plain]; try reflexivity.
  - cbn [hdl]. apply isletter_cls.
  - rewrite (hdl_app _ _ nx nx (toks_nonempty r1)). apply IHr1.
  - rewrite (hdl_app _ _ nx nx (toks_nonempty r1)). apply IHr1.
  - rewrite (hdl_app _ _ nx nx (toks_nonempty r)). apply IHr.
  - rewrite (hdl_app _ _ nx nx (toks_nonempty r)). apply IHr.
  - rewrite (hdl_app _ _ nx nx (toks_nonempty r)). apply IHr.
Qed.

Lemma show_filler g : show (filler g) = gapstr g.
Proof. unfold filler, gapstr. cbn. rewrite <- app_assoc. reflexivity. Qed.

Lemma joinn_toks g r : forall nx,
  joinn g (toks r) nx = show (gapify g r) ++ (if last_plain r && nx then gapstr g else []).
Proof.
  induction r; intros nx; cbn [toks show gapify last_plain].
  - cbn [joinn isletter app]. now rewrite app_nil_r.
  - cbn [joinn isletter app]. now rewrite app_nil_r.
  - cbn [joinn]. rewrite isletter_cls. cbn [andb]. now rewrite app_nil_r.
  - rewrite joinn_app, first_plain_spec, IHr1, IHr2.
    destruct (last_plain r1 && first_plain r2); cbn [show]; rewrite ?show_filler, <- ?app_assoc; cbn [app]; reflexivity.
  - rewrite joinn_app. cbn [hdl]. replace (isletter [cbar]) with false by reflexivity.
    rewrite IHr1. rewrite andb_false_r, app_nil_r.
    rewrite joinn_cons_nonletter by reflexivity. rewrite IHr2. rewrite <- app_assoc. reflexivity.
  - rewrite joinn_app. cbn [hdl]. replace (isletter ["*"%byte]) with false by reflexivity.
    rewrite IHr. rewrite andb_false_r, !app_nil_r. rewrite joinn_cons_nonletter by reflexivity. reflexivity.
  - rewrite joinn_app. cbn [hdl]. replace (isletter ["+"%byte]) with false by reflexivity.
    rewrite IHr. rewrite andb_false_r, !app_nil_r. rewrite joinn_cons_nonletter by reflexivity. reflexivity.
  - rewrite joinn_app. cbn [hdl]. replace (isletter ["?"%byte]) with false by reflexivity.
    rewrite IHr. rewrite andb_false_r, !app_nil_r. rewrite joinn_cons_nonletter by reflexivity. reflexivity.
  - rewrite app_nil_r. destruct cap; cbn [app].
    + rewrite joinn_cons_nonletter by reflexivity. rewrite joinn_app. cbn [hdl]. replace (isletter [")"%byte]) with false by reflexivity.
      rewrite IHr. rewrite andb_false_r, app_nil_r. rewrite joinn_cons_nonletter by reflexivity. reflexivity.
    + rewrite !joinn_cons_nonletter by reflexivity. rewrite joinn_app. cbn [hdl]. replace (isletter [")"%byte]) with false by reflexivity.
      rewrite IHr. rewrite andb_false_r, app_nil_r. rewrite joinn_cons_nonletter by reflexivity. reflexivity.
Qed.

(* cane.py:217-223 applied to the text of a tree is the text of the rewritten tree *)
Lemma rw_show_gapify g r : rx_ok r = true -> rw g (show r) = show (gapify g r).
Proof.
  intros H. unfold rw. rewrite <- (app_nil_r (show r)) at 2. rewrite units_show by (auto; cbn [length]; lia).
  rewrite units_nil, app_nil_r, join_joinn, joinn_toks. now rewrite andb_false_r, app_nil_r.
Qed.

(* ================================================================== matcher soundness *)
Lemma firstn_add {A} (l : list A) : forall a b, firstn (a + b) l = firstn a l ++ firstn b (skipn a l).
Proof.
  induction l as [|x l IH]; intros a b.
  - rewrite !firstn_nil, skipn_nil, firstn_nil. reflexivity.
  - destruct a; [reflexivity|]. cbn. rewrite IH. reflexivity.
Qed.
Lemma skipn_add {A} (l : list A) : forall a b, skipn (a + b) l = skipn b (skipn a l).
Proof.
  induction l as [|x l IH]; intros a b.
  - rewrite !skipn_nil. reflexivity.
  - destruct a; [reflexivity|]. cbn. apply IH.
Qed.

Definition msound (r : rx) (ma : str -> (str -> option nat) -> option nat) : Prop :=
  forall s k n, ma s k = Some n ->
    exists n1 n2, (n = n1 + n2)%nat /\ (n1 <= length s)%nat /\ lang r (firstn n1 s) /\ k (skipn n1 s) = Some n2.

Lemma star_loop_S ma k f s : star_loop ma k (S f) s =
  match ma s (fun s' => if (length s' <? length s)%nat then star_loop ma k f s' else None) with Some n => Some n | None => k s end.
Proof. reflexivity. Qed.

Lemma star_loop_sound a ma : msound a ma -> forall fuel s k n, star_loop ma k fuel s = Some n ->
  exists n1 n2, (n = n1 + n2)%nat /\ (n1 <= length s)%nat /\ lang (XStar a) (firstn n1 s) /\ k (skipn n1 s) = Some n2.
Proof.
  intros Ha. induction fuel as [|f IH]; intros s k n H.
  - cbn in H. exists 0%nat, n. repeat split; [lia|constructor|exact H].
  - rewrite star_loop_S in H.
    destruct (ma s (fun s' => if (length s' <? length s)%nat then star_loop ma k f s' else None)) as [n'|] eqn:E.
    + injection H as <-. apply Ha in E. destruct E as (n1 & n2 & -> & Hl & Hlang & Hk).
      destruct (length (skipn n1 s) <? length s)%nat; [|discriminate].
      apply IH in Hk. destruct Hk as (n3 & n4 & -> & Hl3 & Hlang3 & Hk4).
      rewrite skipn_length in Hl3.
      exists (n1 + n3)%nat, n4. repeat split; [lia|lia| |rewrite skipn_add; exact Hk4].
      rewrite firstn_add. constructor; assumption.
    + exists 0%nat, n. repeat split; [lia|constructor|exact H].
Qed.

Lemma mrx_sound r : msound r (mrx r).
Proof.
  induction r; intros s k n H; cbn [mrx] in H.
  - destruct s as [|x s']; [discriminate|]. destruct (byte_eqb x c) eqn:E; [|discriminate].
    apply byte_eqb_eq in E. subst x. destruct (k s') as [n2|] eqn:Ek; [|discriminate]. inversion H; subst n.
    exists 1%nat, n2. repeat split; [cbn; lia|cbn; constructor|exact Ek].
  - destruct s as [|x s']; [discriminate|]. destruct (byte_eqb x cnl) eqn:E; [discriminate|].
    apply byte_eqb_neq in E. destruct (k s') as [n2|] eqn:Ek; [|discriminate]. inversion H; subst n.
    exists 1%nat, n2. repeat split; [cbn; lia|cbn; constructor; exact E|exact Ek].
  - destruct s as [|x s']; [discriminate|]. destruct (Bool.eqb (has x cs) (negb neg)) eqn:E; [|discriminate].
    apply eqb_prop in E. destruct (k s') as [n2|] eqn:Ek; [|discriminate]. inversion H; subst n.
    exists 1%nat, n2. repeat split; [cbn; lia|cbn; constructor; exact E|exact Ek].
  - apply IHr1 in H. destruct H as (n1 & n2 & -> & Hl & Hlang & Hk).
    apply IHr2 in Hk. destruct Hk as (n3 & n4 & -> & Hl3 & Hlang3 & Hk4). rewrite skipn_length in Hl3.
    exists (n1 + n3)%nat, n4. repeat split; [lia|lia| |rewrite skipn_add; exact Hk4].
    rewrite firstn_add. constructor; assumption.
  - destruct (mrx r1 s k) as [n'|] eqn:E.
    + injection H as <-. apply IHr1 in E. destruct E as (n1 & n2 & -> & Hl & Hlang & Hk).
      exists n1, n2. repeat split; auto. now apply L_altl.
    + apply IHr2 in H. destruct H as (n1 & n2 & -> & Hl & Hlang & Hk).
      exists n1, n2. repeat split; auto. now apply L_altr.
  - exact (star_loop_sound r (mrx r) IHr _ _ _ _ H).
  - apply IHr in H. destruct H as (n1 & n2 & -> & Hl & Hlang & Hk).
    apply (star_loop_sound r (mrx r) IHr) in Hk. destruct Hk as (n3 & n4 & -> & Hl3 & Hlang3 & Hk4). rewrite skipn_length in Hl3.
    exists (n1 + n3)%nat, n4. repeat split; [lia|lia| |rewrite skipn_add; exact Hk4].
    rewrite firstn_add. constructor; assumption.
  - destruct (mrx r s k) as [n'|] eqn:E.
    + injection H as <-. apply IHr in E. destruct E as (n1 & n2 & -> & Hl & Hlang & Hk).
      exists n1, n2. repeat split; auto. now apply L_opt1.
    + exists 0%nat, n. repeat split; [lia|constructor|exact H].
  - apply IHr in H. destruct H as (n1 & n2 & -> & Hl & Hlang & Hk).
    exists n1, n2. repeat split; auto. now constructor.
Qed.

Lemma m_rx_sound r s n : m_rx r s = Some n -> (n <= length s)%nat /\ lang r (firstn n s).
Proof.
  unfold m_rx. intros H. apply mrx_sound in H. destruct H as (n1 & n2 & -> & Hl & Hlang & Hk).
  inversion Hk; subst n2. rewrite Nat.add_0_r. split; assumption.
Qed.

(* ================================================================== meaning of the rewritten pattern *)
Lemma lang_star_inv_gen (P : str -> Prop) a :
  P [] -> (forall t u, lang a t -> P u -> P (t ++ u)) -> forall t, lang (XStar a) t -> P t.
Proof.
  intros H0 HS t H. remember (XStar a) as r eqn:Er. induction H; inversion Er; subst.
  - exact H0.
  - apply HS; [assumption|]. apply IHlang2. reflexivity.
Qed.

Lemma lang_chr_inv c t : lang (XChr c) t -> t = [c].
Proof. intros H; inversion H; subst; reflexivity. Qed.
Lemma lang_cls_inv neg cs t : lang (XCls neg cs) t -> exists x, t = [x] /\ has x cs = negb neg.
Proof. intros H; inversion H; subst; eauto. Qed.
Lemma lang_cat_inv a b t : lang (XCat a b) t -> exists t1 t2, t = t1 ++ t2 /\ lang a t1 /\ lang b t2.
Proof. intros H; inversion H; subst; eauto. Qed.
Lemma lang_alt_inv a b t : lang (XAlt a b) t -> lang a t \/ lang b t.
Proof. intros H; inversion H; subst; auto. Qed.
Lemma lang_plus_inv a t : lang (XPlus a) t -> exists t1 t2, t = t1 ++ t2 /\ lang a t1 /\ lang (XStar a) t2.
Proof. intros H; inversion H; subst; eauto. Qed.
Lemma lang_opt_inv a t : lang (XOpt a) t -> t = [] \/ lang a t.
Proof. intros H; inversion H; subst; auto. Qed.
Lemma lang_grp_inv c a t : lang (XGrp c a) t -> lang a t.
Proof. intros H; inversion H; subst; auto. Qed.

Lemma lang_filler g t : lang (filler g) t -> all_in g t = true.
Proof.
  unfold filler. intros H0. apply (lang_star_inv_gen (fun t => all_in g t = true) (XCls false g)); [reflexivity| |exact H0].
  intros t' u H Hu. apply lang_cls_inv in H. destruct H as (x & -> & Hx). unfold all_in in *. cbn [app forallb].
  rewrite Hx. exact Hu.
Qed.

Lemma has_forall_not x cs g : has x cs = true -> forallb (fun c => negb (has c g)) cs = true -> has x g = false.
Proof.
  unfold has at 1. rewrite existsb_exists, forallb_forall. intros (c & Hi & He) H. apply byte_eqb_eq in He. subst c.
  apply H in Hi. now apply negb_true_iff in Hi.
Qed.

Lemma degap_one g x : has x g = false -> degap g [x] = [x].
Proof. intros H. unfold degap. cbn. rewrite H. reflexivity. Qed.

(* every string matched by the rewritten pattern is, with its gap characters removed, matched by the original pattern *)
Lemma gapify_degap g r : gapfree g r = true -> forall t, lang (gapify g r) t -> lang r (degap g t).
Proof.
  induction r; intros Hg t H; cbn [gapify gapfree] in *.
  - apply lang_chr_inv in H. subst t. rewrite degap_one by (now apply negb_true_iff). constructor.
  - discriminate.
  - apply andb_prop in Hg. destruct Hg as [Hn Hg]. apply negb_true_iff in Hn. subst neg.
    apply lang_cls_inv in H. destruct H as (x & -> & Hx). cbn in Hx.
    rewrite degap_one by (eapply has_forall_not; eauto). now constructor.
  - apply andb_prop in Hg. destruct Hg as [Hg1 Hg2]. apply lang_cat_inv in H. destruct H as (t1 & t2 & -> & H1 & H2).
    rewrite degap_app. constructor; [now apply IHr1|].
    destruct (last_plain r1 && first_plain r2).
    + apply lang_cat_inv in H2. destruct H2 as (gs & t3 & -> & Hf & H3).
      rewrite degap_app. rewrite (degap_gaps g gs) by (now apply lang_filler). now apply IHr2.
    + now apply IHr2.
  - apply andb_prop in Hg. destruct Hg as [Hg1 Hg2]. apply lang_alt_inv in H.
    destruct H as [H|H]; [apply L_altl; now apply IHr1|apply L_altr; now apply IHr2].
  - apply (lang_star_inv_gen (fun t => lang (XStar r) (degap g t)) (gapify g r)); [constructor| |exact H].
    intros t' u Ht Hu. rewrite degap_app. constructor; [now apply IHr|exact Hu].
  - apply lang_plus_inv in H. destruct H as (t1 & t2 & -> & H1 & H2). rewrite degap_app. constructor; [now apply IHr|].
    apply (lang_star_inv_gen (fun t => lang (XStar r) (degap g t)) (gapify g r)); [constructor| |exact H2].
    intros t' u' Ht Hu. rewrite degap_app. constructor; [now apply IHr|exact Hu].
  - apply lang_opt_inv in H. destruct H as [->|H]; [cbn; constructor|apply L_opt1; now apply IHr].
  - apply lang_grp_inv in H. constructor. now apply IHr.
Qed.

(* ... and everything the original pattern matches is still matched (the fillers may be empty) *)
Lemma gapify_keeps g r t : lang r t -> lang (gapify g r) t.
Proof.
  induction 1; cbn [gapify]; try (now constructor).
  - constructor; [assumption|]. destruct (last_plain a && first_plain b); [|assumption].
    change u with ([] ++ u). constructor; [constructor|assumption].
Qed.

(* ================================================================== finditer / matchall over any matcher *)
Section Finder.
Variable m : str -> option nat.
Hypothesis Hm : forall s n, m s = Some n -> (n <= length s)%nat.

Lemma finditer_m_chain s : forall pos skip, chain (pos + skip) (finditer_m m s pos skip).
Proof.
  induction s as [|x s IH]; intros pos skip; cbn [finditer_m]; [exact I|].
  destruct skip as [|k].
  - destruct (m (x :: s)) as [[|n]|] eqn:E.
    + eapply chain_weaken; [|apply IH]. lia.
    + cbn [chain]. repeat split; try lia. eapply chain_weaken; [|apply IH]. lia.
    + eapply chain_weaken; [|apply IH]. lia.
  - eapply chain_weaken; [|apply IH]. lia.
Qed.

Lemma finditer_m_sound s : forall pos skip b e, In (b, e) (finditer_m m s pos skip) ->
  (pos + skip <= b)%nat /\ (b < e)%nat /\ (e <= pos + length s)%nat /\ m (skipn (b - pos) s) = Some (e - b)%nat.
Proof.
  induction s as [|x s IH]; intros pos skip b e H; cbn [finditer_m] in H; [destruct H|].
  assert (Hrec : forall k, In (b, e) (finditer_m m s (S pos) k) ->
            (S pos + k <= b)%nat /\ (b < e)%nat /\ (e <= pos + length (x :: s))%nat /\ m (skipn (b - pos) (x :: s)) = Some (e - b)%nat).
  { intros k Hk. destruct (IH _ _ _ _ Hk) as (H1 & H2 & H3 & H4). cbn [length]. repeat split; try lia.
    replace (b - pos)%nat with (S (b - S pos)) by lia. exact H4. }
  destruct skip as [|k].
  - destruct (m (x :: s)) as [[|n]|] eqn:E.
    + destruct (Hrec _ H) as (H1 & H2 & H3 & H4). repeat split; auto; lia.
    + destruct H as [H|H].
      * inversion H; subst b e. pose proof (Hm _ _ E) as Hl. repeat split; try lia.
        replace (pos - pos)%nat with 0%nat by lia. replace (pos + S n - pos)%nat with (S n) by lia. exact E.
      * destruct (Hrec _ H) as (H1 & H2 & H3 & H4). repeat split; auto; lia.
    + destruct (Hrec _ H) as (H1 & H2 & H3 & H4). repeat split; auto; lia.
  - destruct (Hrec _ H) as (H1 & H2 & H3 & H4). repeat split; auto; lia.
Qed.

Lemma raw_pass_m_spec s start b e : In (b, e) (raw_pass_m m s start) ->
  (b < e <= length s)%nat /\ start <= Z.of_nat b /\ m (skipn b s) = Some (e - b)%nat.
Proof.
  unfold raw_pass_m. rewrite filter_In. cbn [fst]. intros [Hi Hs]. apply Z.leb_le in Hs.
  apply finditer_m_sound in Hi. destruct Hi as (_ & H2 & H3 & H4). cbn in H3. rewrite Nat.sub_0_r in H4.
  repeat split; auto; lia.
Qed.

Lemma raw_pass_m_chain s start : chain 0 (raw_pass_m m s start).
Proof. unfold raw_pass_m. apply chain_filter. exact (finditer_m_chain s 0%nat 0%nat). Qed.

Lemma fwd_list_m_chain s start gap rfn : chain 0 (map span_of (fwd_list_m m s start gap rfn)).
Proof.
  unfold fwd_list_m. destruct (runs_fwd rfn); [|exact I].
  rewrite map_filter_map.
  - apply chain_filter. apply raw_pass_m_chain.
  - intros [b e] y _ Hf. unfold fwd_one in Hf. destruct rfn as [l|].
    + destruct (zmem _ l); [|discriminate]. inversion Hf. unfold span_of. cbn. now rewrite !Nat2Z.id.
    + inversion Hf. unfold span_of. cbn. now rewrite !Nat2Z.id.
Qed.
Lemma bwd_list_m_chain s start gap rfn : chain 0 (map (rc_span_of (length s)) (bwd_list_m m s start gap rfn)).
Proof.
  unfold bwd_list_m. destruct rfn as [l|]; [|exact I]. destruct (has_bwd l); [|exact I]. cbv zeta.
  rewrite map_filter_map.
  - apply chain_filter. apply raw_pass_m_chain.
  - intros [b e] y Hi Hf. apply raw_pass_m_spec in Hi. destruct Hi as (Hbe & _ & _). rewrite rc_length in Hbe.
    unfold bwd_one in Hf. destruct (zmem _ l); [|discriminate]. inversion Hf. unfold rc_span_of. cbn.
    rewrite rc_length. f_equal; lia.
Qed.
End Finder.

Lemma fwd_one_spec_m (P : str -> Prop) gap s start rfn b e x : 0 <= start ->
  (b < e <= length s)%nat -> start <= Z.of_nat b -> P (slice b e s) ->
  fwd_one s start (fwd_gaps gap rfn s start) rfn (b, e) = Some x ->
  fwd_spec_m P s rfn start gap x.
Proof.
  intros H0 Hbe Hs Hw Hf.
  exists b, e. unfold fwd_one in Hf. destruct rfn as [l|].
  - destruct (zmem _ l) eqn:Ez; [|discriminate]. inversion Hf; subst x; clear Hf. cbn.
    repeat split; auto; try lia.
    eexists. split; [reflexivity|]. apply zmem_In in Ez. split; [exact Ez|].
    split; [unfold frame_of; apply Z.mod_pos_bound; lia|].
    replace (fwd_gaps gap (Some l) s start) with (option_map (fun g => gap_positions g s 0 start) gap)
      by (destruct gap; reflexivity).
    apply frame_formula; lia.
  - inversion Hf; subst x. cbn. repeat split; auto; lia.
Qed.

Lemma bwd_one_spec_m (P : str -> Prop) gap s start l b e x : 0 <= start ->
  (b < e <= length s)%nat -> start <= Z.of_nat b -> P (slice b e (rc s)) ->
  bwd_one (rc s) start (bwd_gaps gap (rc s) start) l (b, e) = Some x ->
  bwd_spec_m P s l start gap x.
Proof.
  intros H0 Hbe Hs Hw Hf.
  exists b, e. unfold bwd_one in Hf.
  set (t := frame_of (bwd_gaps gap (rc s) start) start (Z.of_nat b)) in *.
  destruct (zmem (-1 * t - 1) l) eqn:Ez; [|discriminate]. injection Hf as <-. cbv [bm_b bm_e bm_group bm_rf].
  assert (Ht : 0 <= t < 3) by (unfold t, frame_of; apply Z.mod_pos_bound; lia).
  rewrite rc_length.
  assert (Hneg : (-1 * t - 1 <? 0) = true) by (apply Z.ltb_lt; lia).
  repeat split; auto; try lia.
  - change ((Z.of_nat (length s) - Z.of_nat e, Z.of_nat (length s) - Z.of_nat b)
            = span_mirror (Some (-1 * t - 1)) (Z.of_nat (length s)) (Z.of_nat b, Z.of_nat e)).
    unfold span_mirror. rewrite Hneg. reflexivity.
  - apply slice_rc; lia.
  - exists (-1 * t - 1). split; [reflexivity|]. apply zmem_In in Ez. split; [exact Ez|]. split; [lia|].
    replace (- (-1 * t - 1) - 1) with t by lia. unfold t, bwd_gaps. apply frame_formula; [lia|rewrite rc_length; lia].
Qed.

(* every match reported for a pattern tree: forward matches first, then backward ones, each with span, text, membership in the
   language of the effective pattern, and frame as the property says *)
Lemma rx_matchall_sound r s rfn start gap : 0 <= start ->
  exists F B, matchall_m (m_rx (eff_rx gap r)) s rfn start gap = F ++ B /\
    (forall x, In x F -> fwd_spec_m (lang (eff_rx gap r)) s rfn start gap x) /\
    (forall x, In x B -> exists l, rfn = Some l /\ bwd_spec_m (lang (eff_rx gap r)) s l start gap x).
Proof.
  intros H0. set (m := m_rx (eff_rx gap r)).
  assert (Hm : forall s n, m s = Some n -> (n <= length s)%nat) by (intros s' n H; now apply m_rx_sound in H).
  exists (fwd_list_m m s start gap rfn), (bwd_list_m m s start gap rfn). split; [reflexivity|]. split.
  - intros x. unfold fwd_list_m. destruct (runs_fwd rfn); [|intros []].
    rewrite in_filter_map. intros ([b e] & Hi & Hf).
    apply (raw_pass_m_spec m Hm) in Hi. destruct Hi as (Hbe & Hs & Hmm).
    eapply fwd_one_spec_m; eauto. apply m_rx_sound in Hmm. exact (proj2 Hmm).
  - intros x. unfold bwd_list_m. destruct rfn as [l|]; [|intros []]. destruct (has_bwd l); [|intros []].
    cbv zeta. rewrite in_filter_map. intros ([b e] & Hi & Hf). exists l. split; [reflexivity|].
    apply (raw_pass_m_spec m Hm) in Hi. destruct Hi as (Hbe & Hs & Hmm). rewrite rc_length in Hbe.
    eapply bwd_one_spec_m; eauto. apply m_rx_sound in Hmm. exact (proj2 Hmm).
Qed.

(* match() is the head of matchall(), for any matcher *)
Lemma match_first_m_hd m s rfn start gap :
  match_first_m m s rfn start gap = hd_error (matchall_m m s rfn start gap).
Proof.
  unfold match_first_m, matchall_m. rewrite hd_error_app. unfold fwd_list_m, bwd_list_m.
  destruct (runs_fwd rfn).
  - rewrite first_some_hd.
    destruct (hd_error (filter_map _ _)) as [x|]; [reflexivity|].
    destruct rfn as [l|]; [|reflexivity]. destruct (has_bwd l); [|reflexivity]. cbv zeta. rewrite first_some_hd. reflexivity.
  - cbn [hd_error]. destruct rfn as [l|]; [|reflexivity]. destruct (has_bwd l); [|reflexivity]. cbv zeta. rewrite first_some_hd. reflexivity.
Qed.

(* the word-list model of C13_Model is the instance "matcher = ordered alternation of compiled words" *)
Lemma finditer_is_m alts s : forall pos skip, finditer alts s pos skip = finditer_m (m_alts alts) s pos skip.
Proof.
  induction s as [|x s IH]; intros pos skip; [reflexivity|]. cbn [finditer finditer_m].
  destruct skip; [|apply IH]. destruct (m_alts alts (x :: s)) as [[|n]|]; rewrite IH; reflexivity.
Qed.
Lemma matchall_is_m s sub rf start gap :
  matchall s sub rf start gap =
  option_map (fun rfn => matchall_m (m_alts (compile gap (expand_sub sub))) s rfn start gap) (norm_rf rf).
Proof.
  unfold matchall, matchall_m, fwd_list, fwd_list_m, bwd_list, bwd_list_m, raw_pass, raw_pass_m.
  destruct (norm_rf rf) as [rfn|]; [|reflexivity]. cbn [option_map]. rewrite !finditer_is_m. reflexivity.
Qed.

Lemma rx_matchall_order r s rfn start gap :
  chain 0 (map span_of (fwd_list_m (m_rx r) s start gap rfn)) /\
  chain 0 (map (rc_span_of (length s)) (bwd_list_m (m_rx r) s start gap rfn)).
Proof.
  assert (Hm : forall s n, m_rx r s = Some n -> (n <= length s)%nat) by (intros s' n H; now apply m_rx_sound in H).
  split; [apply fwd_list_m_chain|apply (bwd_list_m_chain _ Hm)].
Qed.

(* ================================================================== BioMatch.span *)
Lemma span_mirror_involutive rf L be : span_mirror rf L (span_mirror rf L be) = be.
Proof.
  destruct be as [b e]. unfold span_mirror. destruct rf as [f|]; [|reflexivity].
  destruct (f <? 0); [|reflexivity]. cbn [fst snd]. f_equal; lia.
Qed.
Lemma span_mirror_cases rf L b e :
  span_mirror rf L (b, e) = match rf with Some f => if f <? 0 then (L - e, L - b) else (b, e) | None => (b, e) end.
Proof. reflexivity. Qed.
Lemma span_mirror_bounds rf L b e : 0 <= b <= e -> e <= L ->
  let be := span_mirror rf L (b, e) in 0 <= fst be <= snd be /\ snd be <= L /\ snd be - fst be = e - b.
Proof.
  intros H1 H2. unfold span_mirror. destruct rf as [f|]; [destruct (f <? 0)|]; cbn [fst snd]; lia.
Qed.

(* ================================================================== groupby *)
Section GroupBy.
Context {K V : Type}.
Variable keq : K -> K -> bool.
Hypothesis keq_spec : forall a b, keq a b = true <-> a = b.
Variable key : V -> K.

Definition keys_of (d : list (K * list V)) : list K := map fst d.

Lemma keq_refl a : keq a a = true.
Proof. now apply keq_spec. Qed.

Lemma gb_insert_keys k v d :
  keys_of (gb_insert keq k v d) = if existsb (keq k) (keys_of d) then keys_of d else keys_of d ++ [k].
Proof.
  induction d as [|[k' vs] d IH]; [reflexivity|]. cbn [gb_insert keys_of map fst existsb].
  destruct (keq k k') eqn:E; cbn [orb]; [reflexivity|].
  cbn [map fst]. fold (keys_of (gb_insert keq k v d)). rewrite IH. fold (keys_of d).
  destruct (existsb (keq k) (keys_of d)); reflexivity.
Qed.

(* the group of key k after the insertion *)
Definition group_of (k : K) (d : list (K * list V)) : list V :=
  match find (fun kv => keq k (fst kv)) d with Some kv => snd kv | None => [] end.

Lemma gb_insert_group k v d k0 : NoDup (keys_of d) ->
  group_of k0 (gb_insert keq k v d) = group_of k0 d ++ (if keq k0 k then [v] else []).
Proof.
  induction d as [|[k' vs] d IH]; intros Hnd.
  - unfold group_of. cbn. destruct (keq k0 k); reflexivity.
  - cbn [gb_insert]. inversion Hnd as [|? ? Hni Hnd']; subst.
    destruct (keq k k') eqn:E.
    + apply keq_spec in E. subst k'. unfold group_of. cbn [find fst snd].
      destruct (keq k0 k) eqn:E0; [reflexivity|].
      destruct (find _ d); now rewrite app_nil_r.
    + unfold group_of. cbn [find fst snd]. destruct (keq k0 k') eqn:E0.
      * apply keq_spec in E0. subst k'. destruct (keq k0 k) eqn:E1; [|now rewrite app_nil_r].
        apply keq_spec in E1. subst k0. rewrite keq_refl in E. discriminate.
      * apply IH. exact Hnd'.
Qed.

Lemma groupby_snoc l v : groupby_l keq key (l ++ [v]) = gb_insert keq (key v) v (groupby_l keq key l).
Proof. unfold groupby_l. rewrite fold_left_app. reflexivity. Qed.

Lemma existsb_keq_in k ks : existsb (keq k) ks = true <-> In k ks.
Proof.
  rewrite existsb_exists. split.
  - intros (x & Hi & He). apply keq_spec in He. now subst.
  - intros H. exists k. split; [exact H|apply keq_refl].
Qed.

Lemma groupby_keys_nodup l : NoDup (keys_of (groupby_l keq key l)).
Proof.
  induction l as [|v l IH] using rev_ind; [constructor|].
  rewrite groupby_snoc, gb_insert_keys.
  destruct (existsb (keq (key v)) (keys_of (groupby_l keq key l))) eqn:E; [exact IH|].
  apply NoDup_rev in IH. rewrite <- (rev_involutive (_ ++ [key v])). apply NoDup_rev. rewrite rev_app_distr. cbn.
  constructor; [|exact IH]. rewrite <- in_rev. intros Hi. apply existsb_keq_in in Hi. congruence.
Qed.

Lemma existsb_ext_in k a b : (In k a <-> In k b) -> existsb (keq k) a = existsb (keq k) b.
Proof.
  intros H. destruct (existsb (keq k) a) eqn:Ea, (existsb (keq k) b) eqn:Eb; try reflexivity.
  - apply existsb_keq_in in Ea. apply H in Ea. apply existsb_keq_in in Ea. congruence.
  - apply existsb_keq_in in Eb. apply H in Eb. apply existsb_keq_in in Eb. congruence.
Qed.

Lemma dedup_in k ks : In k (dedup keq ks) <-> In k ks.
Proof.
  induction ks as [|k0 r IH]; [reflexivity|]. cbn [dedup In]. rewrite filter_In, IH. split.
  - intros [H|[H _]]; auto.
  - intros [H|H]; [now left|]. destruct (keq k k0) eqn:E; [apply keq_spec in E; left; congruence|right; split; [exact H|reflexivity]].
Qed.

Lemma dedup_snoc ks k : dedup keq (ks ++ [k]) = if existsb (keq k) ks then dedup keq ks else dedup keq ks ++ [k].
Proof.
  induction ks as [|k0 r IH]; [reflexivity|]. cbn [app dedup existsb]. rewrite IH.
  destruct (keq k k0) eqn:E0; cbn [orb].
  - destruct (existsb (keq k) r); [reflexivity|]. rewrite filter_app. cbn [filter]. rewrite E0. cbn [negb]. now rewrite app_nil_r.
  - destruct (existsb (keq k) r); [reflexivity|]. rewrite filter_app. cbn [filter]. rewrite E0. reflexivity.
Qed.

Lemma groupby_keys l : keys_of (groupby_l keq key l) = dedup keq (map key l).
Proof.
  induction l as [|v l IH] using rev_ind; [reflexivity|].
  rewrite groupby_snoc, gb_insert_keys, map_app. cbn [map]. rewrite dedup_snoc, IH.
  rewrite (existsb_ext_in (key v) (dedup keq (map key l)) (map key l)) by apply dedup_in. reflexivity.
Qed.

Lemma groupby_group k l : group_of k (groupby_l keq key l) = filter (fun v => keq k (key v)) l.
Proof.
  induction l as [|v l IH] using rev_ind; [reflexivity|].
  rewrite groupby_snoc, gb_insert_group by apply groupby_keys_nodup. rewrite IH, filter_app. reflexivity.
Qed.

Lemma in_group_of k vs d : NoDup (keys_of d) -> In (k, vs) d -> group_of k d = vs.
Proof.
  induction d as [|[k' vs'] d IH]; intros Hnd Hi; [destruct Hi|].
  inversion Hnd as [|? ? Hni Hnd']; subst. unfold group_of. cbn [find fst snd]. destruct Hi as [Hi|Hi].
  - inversion Hi; subst. now rewrite keq_refl.
  - destruct (keq k k') eqn:E.
    + apply keq_spec in E. subst k'. exfalso. apply Hni. unfold keys_of. apply in_map_iff. exists (k, vs). auto.
    + apply IH; assumption.
Qed.

(* BioMatchList.groupby(key): an order-preserving partition, keys in order of first occurrence, no empty group *)
Lemma groupby_partition l :
  keys_of (groupby_l keq key l) = dedup keq (map key l) /\ NoDup (keys_of (groupby_l keq key l)) /\
  (forall k vs, In (k, vs) (groupby_l keq key l) -> vs = filter (fun v => keq k (key v)) l /\ vs <> []) /\
  (forall v, In v l -> exists vs, In (key v, vs) (groupby_l keq key l) /\ In v vs).
Proof.
  split; [apply groupby_keys|]. split; [apply groupby_keys_nodup|]. split.
  - intros k vs Hi. pose proof (in_group_of k vs _ (groupby_keys_nodup l) Hi) as Hg. rewrite groupby_group in Hg. subst vs.
    split; [reflexivity|].
    assert (Hk : In k (keys_of (groupby_l keq key l))) by (unfold keys_of; apply in_map_iff; eexists; split; [|exact Hi]; reflexivity).
    rewrite groupby_keys in Hk. apply (proj1 (dedup_in _ _)) in Hk. apply in_map_iff in Hk. destruct Hk as (v & <- & Hv).
    intros Hn. assert (Hin : In v (filter (fun v0 => keq (key v) (key v0)) l)) by (apply filter_In; split; [exact Hv|apply keq_refl]).
    rewrite Hn in Hin. destruct Hin.
  - intros v Hv.
    assert (Hk : In (key v) (keys_of (groupby_l keq key l))).
    { rewrite groupby_keys. apply dedup_in. now apply in_map. }
    unfold keys_of in Hk. apply in_map_iff in Hk. destruct Hk as ([k vs] & Hkk & Hi). cbn in Hkk. subst k.
    exists vs. split; [exact Hi|].
    pose proof (in_group_of _ _ _ (groupby_keys_nodup l) Hi) as Hg. rewrite groupby_group in Hg. subst vs.
    apply filter_In. split; [exact Hv|apply keq_refl].
Qed.
End GroupBy.

Lemma oz_eqb_spec a b : oz_eqb a b = true <-> a = b.
Proof.
  destruct a as [x|], b as [y|]; cbn; try (split; [discriminate|congruence]); [|tauto].
  rewrite Z.eqb_eq. split; congruence.
Qed.

(* ================================================================== rf decision table *)
Lemma str_eqb_false a b : str_eqb a b = false -> a <> b.
Proof. intros H ->. rewrite str_eqb_refl in H. discriminate. Qed.

Lemma rf_decide_table a :
  match a with
  | RfArg RNone => rf_decide a = inr None
  | RfArg (RInt z) => rf_decide a = inr (Some [z])
  | RfArg (RList l) => rf_decide a = inr (Some l)
  | RfArg (RStr t) =>
      (t = bs "fwd"%bs /\ rf_decide a = inr (Some [0; 1; 2])) \/
      (t = bs "bwd"%bs /\ rf_decide a = inr (Some [-1; -2; -3])) \/
      (t = bs "both"%bs /\ rf_decide a = inr (Some [0; 1; 2; -1; -2; -3])) \/
      (t <> bs "fwd"%bs /\ t <> bs "bwd"%bs /\ t <> bs "both"%bs /\ rf_decide a = inl (bs "AssertionError"%bs))
  | RfBool b => rf_decide a = rf_decide (RfArg (RInt (if b then 1 else 0)))
  | RfNonIter => rf_decide a = inl (bs "TypeError"%bs)
  end.
Proof.
  destruct a as [[|z|t|l]|b|]; try reflexivity.
  unfold rf_decide, norm_rf.
  destruct (str_eqb t (bs "fwd"%bs)) eqn:E1; [apply str_eqb_eq in E1; left; auto|].
  destruct (str_eqb t (bs "bwd"%bs)) eqn:E2; [apply str_eqb_eq in E2; right; left; auto|].
  destruct (str_eqb t (bs "both"%bs)) eqn:E3; [apply str_eqb_eq in E3; right; right; left; auto|].
  right; right; right. repeat split; auto using str_eqb_false.
Qed.

Lemma has_fwd_iff l : has_fwd l = true <-> exists z, In z l /\ 0 <= z <= 2.
Proof.
  unfold has_fwd. rewrite existsb_exists. split; intros (z & Hi & H); exists z; (split; [exact Hi|]).
  - apply zmem_In in H. cbn in H. lia.
  - apply zmem_In. cbn. lia.
Qed.
Lemma has_bwd_iff l : has_bwd l = true <-> exists z, In z l /\ -3 <= z <= -1.
Proof.
  unfold has_bwd. rewrite existsb_exists. split; intros (z & Hi & H); exists z; (split; [exact Hi|]).
  - apply zmem_In in H. cbn in H. lia.
  - apply zmem_In. cbn. lia.
Qed.

Lemma groupby_rf_partition l :
  map fst (groupby_rf l) = dedup oz_eqb (map bm_rf l) /\ NoDup (map fst (groupby_rf l)) /\
  (forall k vs, In (k, vs) (groupby_rf l) -> vs = filter (fun v => oz_eqb k (bm_rf v)) l /\ vs <> []) /\
  (forall v, In v l -> exists vs, In (bm_rf v, vs) (groupby_rf l) /\ In v vs).
Proof. exact (groupby_partition oz_eqb oz_eqb_spec bm_rf l). Qed.
