(* C11 round 7: int() on the integer columns, both directions: py_int v = Some z exactly when v is
   [blanks] [sign] digits [blanks] with at least one digit and z its value *)
From Coq Require Import List ZArith NArith Bool Lia.
From Coq.Strings Require Import Byte.
Import ListNotations.
From SV Require Import Text G_tab C11_Model C11_Lemmas C11_TextLemmas C11_FileLemmas C11_IntLemmas C11_FloatLemmas C11_FloatSound.
Local Open Scope Z_scope.

Definition int_shape (v : str) (z : Z) : Prop :=
  exists a b sg ds, v = a ++ (sg ++ ds) ++ b /\ all_space_num a = true /\ all_space_num b = true /\
    sign_ok sg = true /\ all_digits ds = true /\ ds <> [] /\ z = (if sign_neg sg then - dval ds 0 else dval ds 0).

Definition Z_of_dec' (s : str) : option Z :=
  match s with
  | c :: r => if byte_eqb c "-"%byte then option_map Z.opp (nat_of_dec r)
              else if byte_eqb c "+"%byte then nat_of_dec r else nat_of_dec s
  | [] => nat_of_dec s
  end.
Lemma Z_of_dec_alt s : Z_of_dec s = Z_of_dec' s.
Proof. destruct s as [|c r]; [reflexivity|]. destruct c; reflexivity. Qed.

Lemma digits_acc_dval ds : forall acc, all_digits ds = true -> digits_acc ds acc = Some (dval ds acc).
Proof.
  induction ds as [|c ds IH]; intros acc A; [reflexivity|].
  cbn [all_digits forallb] in A. apply andb_prop in A. destruct A as [A1 A2]. unfold is_digit in A1.
  cbn [digits_acc dval]. destruct (digit_val c); [|discriminate]. apply IH. exact A2.
Qed.
Lemma digits_acc_inv s : forall acc z, digits_acc s acc = Some z -> all_digits s = true /\ z = dval s acc.
Proof.
  induction s as [|c s IH]; intros acc z H; cbn [digits_acc] in H.
  - inversion H. split; reflexivity.
  - destruct (digit_val c) as [dg|] eqn:D; [|discriminate]. destruct (IH _ _ H) as [A E].
    split; [cbn [all_digits forallb]; unfold is_digit; rewrite D; exact A|cbn [dval]; rewrite D; exact E].
Qed.
Lemma nat_of_dec_iff s z : nat_of_dec s = Some z <-> (all_digits s = true /\ s <> [] /\ z = dval s 0).
Proof.
  unfold nat_of_dec. split.
  - destruct s as [|c r]; [discriminate|]. intros H. destruct (digits_acc_inv _ _ _ H) as [A E]. repeat split; [exact A|discriminate|exact E].
  - intros (A & NE & ->). destruct s as [|c r]; [congruence|]. apply digits_acc_dval. exact A.
Qed.

Lemma int_parse sg ds a b : sign_ok sg = true -> all_digits ds = true -> ds <> [] ->
  all_space_num a = true -> all_space_num b = true ->
  py_int (a ++ (sg ++ ds) ++ b) = Some (if sign_neg sg then - dval ds 0 else dval ds 0).
Proof.
  intros S D NE A B. unfold py_int.
  rewrite strip_num_pad; [|exact A|exact B|rewrite nonsp_app, (sign_nonsp _ S), (digits_nonsp _ D); reflexivity|].
  2: { intros X. apply app_eq_nil in X. destruct X as [_ X]. exact (NE X). }
  rewrite Z_of_dec_alt.
  assert (N : nat_of_dec ds = Some (dval ds 0)) by (apply nat_of_dec_iff; repeat split; assumption).
  destruct sg as [|c [|d q]]; cbn in S; try discriminate S.
  - cbn [app sign_neg]. destruct ds as [|x r]; [congruence|]. cbn [all_digits forallb] in D. apply andb_prop in D. destruct D as [D1 _].
    unfold Z_of_dec'. destruct (digit_facts x D1) as (_ & -> & -> & _). exact N.
  - cbn [app]. unfold Z_of_dec'. destruct (byte_eqb c "-"%byte) eqn:E.
    + apply byte_eqb_eq in E. subst c. cbn [sign_neg]. replace (byte_eqb "-"%byte "-"%byte) with true by reflexivity.
      rewrite N. reflexivity.
    + rewrite orb_false_r in S. rewrite S. cbn [sign_neg]. rewrite E. exact N.
Qed.

Lemma int_sound v z : py_int v = Some z -> int_shape v z.
Proof.
  unfold py_int. rewrite Z_of_dec_alt. destruct (strip_num_decomp v) as (a & b & EV & SA & SB).
  destruct (strip_num v) as [|c r] eqn:ST; [discriminate|]. unfold Z_of_dec'.
  destruct (byte_eqb c "-"%byte) eqn:E1; [|destruct (byte_eqb c "+"%byte) eqn:E2].
  - apply byte_eqb_eq in E1. subst c. destruct (nat_of_dec r) as [n|] eqn:N; [|discriminate]. intros H. inversion H.
    apply nat_of_dec_iff in N. destruct N as (D & NE & ->).
    exists a, b, (bs "-"%bs), r. repeat split; try assumption.
  - apply byte_eqb_eq in E2. subst c. intros N. apply nat_of_dec_iff in N. destruct N as (D & NE & ->).
    exists a, b, (bs "+"%bs), r. repeat split; try assumption.
  - intros N. apply nat_of_dec_iff in N. destruct N as (D & NE & ->).
    exists a, b, [], (c :: r). repeat split; try assumption.
Qed.

Lemma int_iff v z : py_int v = Some z <-> int_shape v z.
Proof.
  split; [apply int_sound|]. intros (a & b & sg & ds & -> & A & B & S & D & NE & ->). apply int_parse; assumption.
Qed.

Lemma witness_int :
  py_int (bs " +007 "%bs) = Some 7 /\ py_int (bs "-39923568"%bs) = Some (-39923568) /\ py_int (bs "1.0"%bs) = None /\
  py_int (bs "+"%bs) = None /\ py_int [] = None /\ py_int (bs "1 2"%bs) = None /\ py_int (unhex (bs "371f"%bs)) = None /\
  py_int (unhex (bs "a03785"%bs)) = Some 7.
Proof. repeat split; vm_compute; reflexivity. Qed.
