(* C01 proofs, part 3: Stockholm sequence lines write -> read. *)
From Coq Require Import List ZArith NArith Bool Lia.
From Coq.Strings Require Import Byte.
Import ListNotations.
From SV Require Import Text C01_Lines G_codes G_c01_io C01_Model C01_Lemmas.

Lemma str_eqb_sym a b : str_eqb a b = str_eqb b a.
Proof.
  destruct (str_eqb a b) eqn:E.
  - apply str_eqb_eq in E. subst. symmetry. apply str_eqb_refl.
  - destruct (str_eqb b a) eqn:E2; [|reflexivity]. apply str_eqb_eq in E2. subst. rewrite str_eqb_refl in E. discriminate.
Qed.

Lemma dict_append_fresh k v d : existsb (str_eqb k) (map fst d) = false -> dict_append k v d = d ++ [(k, v)].
Proof.
  induction d as [|[k0 v0] d IH]; intros H; [reflexivity|].
  cbn [map fst existsb] in H. apply orb_false_iff in H. destruct H as [H1 H2].
  cbn [dict_append]. rewrite str_eqb_sym, H1. cbn [app]. rewrite (IH H2). reflexivity.
Qed.

Lemma distinct_app_fresh a x b : distinct (a ++ x :: b) = true -> existsb (str_eqb x) a = false.
Proof.
  induction a as [|y a IH]; intros H; [reflexivity|].
  cbn [app distinct] in H. apply andb_prop in H. destruct H as [H1 H2]. apply negb_true_iff in H1.
  rewrite existsb_app in H1. apply orb_false_iff in H1. destruct H1 as [_ H1]. cbn [existsb] in H1.
  apply orb_false_iff in H1. destruct H1 as [H1 _].
  cbn [existsb]. rewrite str_eqb_sym, H1. cbn. apply IH. exact H2.
Qed.

Lemma startswith_cons_false c p x s : byte_eqb c x = false -> startswith (c :: p) (x :: s) = false.
Proof. intros H. unfold startswith. cbn. rewrite H. reflexivity. Qed.

Lemma hash_prefix_false (p : str) x s : head_is HASH p = true -> byte_eqb HASH x = false -> startswith p (x :: s) = false.
Proof.
  destruct p as [|c p]; [discriminate|]. cbn [head_is]. intros H Hx. apply byte_eqb_eq in H. subst.
  apply startswith_cons_false. exact Hx.
Qed.

Lemma slashes_app i rest : i <> [] -> startswith (bs "//"%bs) i = false -> startswith (bs "//"%bs) (i ++ SP :: rest) = false.
Proof.
  intros Hne H. destruct i as [|a [|b i]]; [contradiction| |].
  - unfold startswith. cbn [app strip_prefix bs bytes_of_bstr]. destruct (byte_eqb "/"%byte a); reflexivity.
  - unfold startswith in *. cbn [app strip_prefix bs bytes_of_bstr] in *.
    destruct (byte_eqb "/"%byte a); [|reflexivity]. destruct (byte_eqb "/"%byte b); [discriminate|reflexivity].
Qed.

Lemma dropwhile_app_stop p a c b : forallb p a = true -> p c = false -> dropwhile p (a ++ c :: b) = c :: b.
Proof.
  intros Ha Hc. induction a as [|x a IH]; cbn.
  - rewrite Hc. reflexivity.
  - cbn in Ha. apply andb_prop in Ha. destruct Ha as [Hx Ha]. rewrite Hx. apply IH. exact Ha.
Qed.

Lemma id_stk_ok_facts i : id_stk_ok i = true ->
  i <> [] /\ forallb is_graph i = true /\ head_is HASH i = false /\ startswith (bs "//"%bs) i = false.
Proof.
  unfold id_stk_ok, id_plain. intros H. apply andb_prop in H. destruct H as [H H3]. apply andb_prop in H. destruct H as [H1 H2].
  destruct i as [|a i]; [discriminate|]. split; [discriminate|]. split; [exact H1|].
  split; apply negb_true_iff; assumption.
Qed.

Lemma wfb_stk_facts s : wfb_stk s = true ->
  exists i c r, b_id s = Some i /\ id_stk_ok i = true /\ wfb_common s = true /\ b_data s = c :: r.
Proof.
  unfold wfb_stk. intros H. apply andb_prop in H. destruct H as [H H3]. apply andb_prop in H. destruct H as [H1 H2].
  destruct (b_id s) as [i|]; [|discriminate]. destruct (b_data s) as [|c r] eqn:E; [discriminate|].
  exists i, c, r. auto.
Qed.

Lemma stk_row_step i c r d : id_stk_ok i = true -> residues_ok (c :: r) = true ->
  stk_line (i ++ SP :: c :: r) d = Ok (dict_append i (c :: r) d, false).
Proof.
  intros Hi Hres.
  destruct (id_stk_ok_facts i Hi) as (Hne & Hg & Hh & Hsl).
  pose proof (residues_non_ws _ Hres) as Hnw.
  assert (W : is_ws c = false).
  { cbn in Hnw. apply andb_prop in Hnw. destruct Hnw as [Hnw _]. unfold non_ws in Hnw. apply negb_true_iff in Hnw. exact Hnw. }
  unfold stk_line.
  rewrite (strip_id_suffix i (SP :: c :: r) Hne (graph_non_ws i Hg)).
  2:{ right. exists c, r. split; [reflexivity|]. split; [exact W|]. apply (rstrip_all_non_ws (c :: r) Hnw). }
  assert (Hgn : forallb non_ws i = true) by (apply graph_non_ws; exact Hg).
  assert (Esplit : split1 (i ++ SP :: c :: r) = (i, c :: r)).
  { unfold split1. rewrite takewhile_app_stop, dropwhile_app_stop by (auto).
    change (lstrip (SP :: c :: r)) with (lstrip (c :: r)). rewrite (lstrip_non_ws c r W). reflexivity. }
  assert (Emem : mem SP (i ++ SP :: c :: r) = true).
  { unfold mem. rewrite existsb_app. cbn [existsb]. rewrite byte_eqb_refl. cbn. apply orb_true_r. }
  assert (Esl : startswith (bs "//"%bs) (i ++ SP :: c :: r) = false) by (apply slashes_app; assumption).
  rewrite Esl, Emem, Esplit.
  destruct i as [|a i]; [contradiction|]. cbn [head_is] in Hh. rewrite byte_eqb_sym in Hh.
  cbn [app]. unfold STK_HEAD.
  rewrite (hash_prefix_false (bs "# STOCKHOLM"%bs) a _ eq_refl Hh), (hash_prefix_false (bs "#=GF"%bs) a _ eq_refl Hh),
    (hash_prefix_false (bs "#=GC"%bs) a _ eq_refl Hh), (hash_prefix_false (bs "#=GS"%bs) a _ eq_refl Hh),
    (hash_prefix_false (bs "#=GR"%bs) a _ eq_refl Hh).
  cbn [orb head_is]. rewrite byte_eqb_sym, Hh. reflexivity.
Qed.

Lemma stk_seq_step s d : wfb_stk s = true ->
  stk_line (stk_seq_line s) d = Ok (dict_append (id_or_empty s) (b_data s) d, false).
Proof.
  intros H. destruct (wfb_stk_facts s H) as (i & c & r & Ei & Hi & Hc & Ed).
  destruct (wfb_common_facts s Hc) as (Hres & _ & _). rewrite Ed in Hres.
  unfold stk_seq_line, id_or_empty. rewrite Ei, Ed. cbn [py_str_opt]. apply stk_row_step; assumption.
Qed.

Definition row (s : bseq) : str * str := (id_or_empty s, b_data s).

Lemma stk_loop_seqs b : forall d, forallb wfb_stk b = true -> distinct (map fst d ++ ids_of b) = true ->
  stk_loop (map stk_seq_line b ++ [bs "//"%bs]) d = Ok (d ++ map row b).
Proof.
  induction b as [|s b IH]; intros d H Hd.
  - cbn [map app]. rewrite app_nil_r. reflexivity.
  - cbn [forallb] in H. apply andb_prop in H. destruct H as [Hs Hb].
    cbn [map app stk_loop]. rewrite (stk_seq_step s d Hs). cbn [bind].
    unfold ids_of in Hd. cbn [map] in Hd. fold (ids_of b) in Hd.
    rewrite (dict_append_fresh _ _ d (distinct_app_fresh _ _ _ Hd)).
    rewrite IH; [rewrite <- app_assoc; reflexivity|exact Hb|].
    rewrite map_app. cbn [map fst]. rewrite <- app_assoc. exact Hd.
Qed.

Lemma bioseq_row s : wfb_stk s = true ->
  bioseq (snd (row s)) (Some (fst (row s))) = mk_bseq (b_data s) (b_id s) (b_nt s) None None.
Proof.
  intros H. destruct (wfb_stk_facts s H) as (i & c & r & Ei & Hi & Hc & Ed).
  destruct (wfb_common_facts s Hc) as (_ & Hu & Hn).
  unfold row, bioseq, id_or_empty. cbn [fst snd]. rewrite Ei, Hu, Hn. reflexivity.
Qed.

Lemma stk_lines_clean b c : (c = nl \/ c = cr) -> forallb wfb_stk b = true ->
  forallb (no_byte c) (write_stockholm_lines b) = true.
Proof.
  intros Hc H. unfold write_stockholm_lines. cbn [forallb].
  assert (E0 : no_byte c (bs "# STOCKHOLM 1.0"%bs) = true) by (destruct Hc; subst; reflexivity). rewrite E0. cbn [andb].
  rewrite forallb_app. cbn [forallb].
  assert (E1 : no_byte c (bs "//"%bs) = true) by (destruct Hc; subst; reflexivity). rewrite E1. rewrite !andb_true_r.
  rewrite forallb_forall. intros l Hl. apply in_map_iff in Hl. destruct Hl as (s & E & Hs). subst.
  rewrite forallb_forall in H. specialize (H s Hs).
  destruct (wfb_stk_facts s H) as (i & c0 & r & Ei & Hi & Hcm & Ed).
  destruct (id_stk_ok_facts i Hi) as (_ & Hg & _). destruct (wfb_common_facts s Hcm) as (Hres & _ & _).
  unfold stk_seq_line. rewrite Ei. cbn [py_str_opt]. rewrite no_byte_app. rewrite (graph_no c i Hc Hg). cbn [andb].
  cbn [no_byte forallb]. fold (no_byte c (b_data s)). rewrite (residues_no c _ Hc Hres).
  destruct Hc; subst; reflexivity.
Qed.


Lemma stk_lines_norm f b : write_stockholm_lines (map (norm_plain f) b) = write_stockholm_lines b.
Proof. unfold write_stockholm_lines. rewrite map_map. reflexivity. Qed.

Theorem stockholm_roundtrip b : wf_stk_basket b = true ->
  exists t, write_w Stockholm b = Ok t /\ read_content Stockholm t = Ok (map (norm_plain Stockholm) b)
            /\ write_w Stockholm (map (norm_plain Stockholm) b) = Ok t.
Proof.
  unfold wf_stk_basket. intros H. apply andb_prop in H. destruct H as [H Hd].
  exists (CText (unlines (write_stockholm_lines b))). split; [reflexivity|]. split.
  - unfold read_content. rewrite text_lines_unlines by (apply stk_lines_clean; auto).
    unfold read_stockholm_lines, write_stockholm_lines. cbn [stk_loop].
    change (stk_line (bs "# STOCKHOLM 1.0"%bs) []) with (@Ok (list (str * str) * bool) ([], false)). cbn [bind].
    rewrite (stk_loop_seqs b [] H Hd). cbn [app bind]. f_equal. rewrite !map_map. apply map_ext_in. intros s Hs.
    rewrite forallb_forall in H. rewrite (bioseq_row s (H s Hs)). reflexivity.
  - change (write_w Stockholm (map (norm_plain Stockholm) b))
      with (@Ok content (CText (unlines (write_stockholm_lines (map (norm_plain Stockholm) b))))).
    rewrite stk_lines_norm. reflexivity.
Qed.

(* ---------------------------------------------------------------- interleaved blocks: rows with the same id are concatenated *)
Lemma dict_append_twice k v1 v2 d : dict_append k v2 (dict_append k v1 d) = dict_append k (v1 ++ v2) d.
Proof.
  induction d as [|[k0 v0] d IH].
  - cbn. rewrite str_eqb_refl. reflexivity.
  - cbn [dict_append]. destruct (str_eqb k0 k) eqn:E; cbn [dict_append]; rewrite E.
    + rewrite app_assoc. reflexivity.
    + rewrite IH. reflexivity.
Qed.
(* a row of an id that is already present commutes with a row of any other id *)
Lemma dict_append_comm k1 v1 k2 v2 d : str_eqb k1 k2 = false ->
  existsb (str_eqb k1) (map fst d) = true ->
  dict_append k1 v1 (dict_append k2 v2 d) = dict_append k2 v2 (dict_append k1 v1 d).
Proof.
  intros Hne. induction d as [|[k0 v0] d IH]; [discriminate|]. cbn [map fst existsb]. intros H1.
  cbn [dict_append]. destruct (str_eqb k0 k2) eqn:E2; destruct (str_eqb k0 k1) eqn:E1; cbn [dict_append]; rewrite ?E1, ?E2; try reflexivity.
  - apply str_eqb_eq in E1. apply str_eqb_eq in E2. subst. rewrite str_eqb_refl in Hne. discriminate.
  - rewrite str_eqb_sym, E1 in H1. cbn [orb] in H1. rewrite (IH H1). reflexivity.
Qed.
Lemma dict_append_present k v d x : existsb (str_eqb x) (map fst d) = true -> existsb (str_eqb x) (map fst (dict_append k v d)) = true.
Proof.
  induction d as [|[k0 v0] d IH]; [discriminate|]. cbn [map fst existsb dict_append]. intros H.
  destruct (str_eqb k0 k); cbn [map fst existsb]; [exact H|].
  apply orb_true_iff in H. destruct H as [H|H]; [rewrite H; reflexivity|rewrite (IH H), orb_true_r; reflexivity].
Qed.
Lemma dict_append_has k v d : existsb (str_eqb k) (map fst (dict_append k v d)) = true.
Proof.
  induction d as [|[k0 v0] d IH]; cbn [dict_append map fst existsb].
  - rewrite str_eqb_refl. reflexivity.
  - destruct (str_eqb k0 k) eqn:E; cbn [map fst existsb]; [rewrite str_eqb_sym, E; reflexivity|rewrite IH, orb_true_r; reflexivity].
Qed.

Definition dict_fold (rows : list (str * str)) (d : list (str * str)) : list (str * str) :=
  fold_left (fun d kv => dict_append (fst kv) (snd kv) d) rows d.

Lemma dict_fold_comm k w rows : forall d, existsb (str_eqb k) (map fst d) = true ->
  existsb (str_eqb k) (map fst rows) = false ->
  dict_append k w (dict_fold rows d) = dict_fold rows (dict_append k w d).
Proof.
  induction rows as [|[kr vr] rows IH]; intros d Hp Ha; [reflexivity|].
  cbn [map fst existsb] in Ha. apply orb_false_iff in Ha. destruct Ha as [Ha1 Ha2].
  unfold dict_fold in *. cbn [fold_left fst snd].
  rewrite IH; [|apply dict_append_present; exact Hp|exact Ha2].
  rewrite (dict_append_comm k w kr vr d Ha1 Hp). reflexivity.
Qed.

(* two blocks with the same ids in the same order are read as one block of concatenated rows (dictionary level) *)
Theorem stk_interleave_dict ks : forall vs ws d, distinct ks = true -> length vs = length ks -> length ws = length ks ->
  dict_fold (combine ks ws) (dict_fold (combine ks vs) d) = dict_fold (combine ks (zip_app vs ws)) d.
Proof.
  induction ks as [|k ks IH]; intros vs ws d Hd Lv Lw; [reflexivity|].
  destruct vs as [|v vs]; [discriminate|]. destruct ws as [|w ws]; [discriminate|].
  cbn [distinct] in Hd. apply andb_prop in Hd. destruct Hd as [Hk Hd]. apply negb_true_iff in Hk.
  cbn [length] in Lv, Lw. injection Lv as Lv. injection Lw as Lw.
  cbn [combine zip_app]. unfold dict_fold in *. cbn [fold_left fst snd].
  fold (dict_fold (combine ks vs) (dict_append k v d)).
  rewrite (dict_fold_comm k w (combine ks vs) (dict_append k v d)).
  - rewrite dict_append_twice. unfold dict_fold. apply IH; assumption.
  - apply dict_append_has.
  - clear - Hk Lv. revert vs Lv. induction ks as [|k0 ks IH]; intros vs Lv; [reflexivity|].
    destruct vs as [|v0 vs]; [discriminate|]. cbn [existsb] in Hk. apply orb_false_iff in Hk. destruct Hk as [H1 H2].
    cbn [combine map fst existsb]. rewrite H1. cbn [orb]. apply IH; [exact H2|]. cbn [length] in Lv. lia.
Qed.

(* line level: a run of well-formed sequence rows is a fold of dictionary updates *)

Lemma stk_loop_rows rows : forall rest d, forallb row_ok rows = true ->
  stk_loop (map row_line rows ++ rest) d = stk_loop rest (dict_fold rows d).
Proof.
  induction rows as [|[k v] rows IH]; intros rest d H; [reflexivity|].
  cbn [forallb] in H. apply andb_prop in H. destruct H as [Hr Hrows].
  unfold row_ok in Hr. cbn [fst snd] in Hr. apply andb_prop in Hr. destruct Hr as [Hr Hne]. apply andb_prop in Hr. destruct Hr as [Hi Hres].
  destruct v as [|c r]; [discriminate|].
  cbn [map app stk_loop]. unfold row_line at 1. cbn [fst snd]. rewrite (stk_row_step k c r d Hi Hres). cbn [bind].
  rewrite (IH rest _ Hrows). reflexivity.
Qed.

(* an interleaved alignment (two blocks, optionally separated by blank lines) is read like the alignment with the rows of
   each id concatenated *)
Theorem stk_interleave ks vs ws sep rest d : distinct ks = true -> length vs = length ks -> length ws = length ks ->
  forallb row_ok (combine ks vs) = true -> forallb row_ok (combine ks ws) = true ->
  forallb row_ok (combine ks (zip_app vs ws)) = true ->
  forallb (fun l => match strip l with [] => true | _ => false end) sep = true ->
  stk_loop (map row_line (combine ks vs) ++ sep ++ map row_line (combine ks ws) ++ rest) d
  = stk_loop (map row_line (combine ks (zip_app vs ws)) ++ rest) d.
Proof.
  intros Hd Lv Lw H1 H2 H3 Hsep.
  rewrite (stk_loop_rows _ _ d H1).
  assert (Hskip : forall d0 tail, stk_loop (sep ++ tail) d0 = stk_loop tail d0).
  { induction sep as [|l sep IHs]; intros d0 tail; [reflexivity|].
    cbn [forallb] in Hsep. apply andb_prop in Hsep. destruct Hsep as [Hl Hs].
    cbn [app stk_loop]. unfold stk_line. destruct (strip l); [|discriminate]. cbn [bind]. apply IHs. exact Hs. }
  rewrite Hskip. rewrite (stk_loop_rows _ _ _ H2). rewrite (stk_loop_rows _ _ d H3).
  rewrite (stk_interleave_dict ks vs ws d Hd Lv Lw). reflexivity.
Qed.
