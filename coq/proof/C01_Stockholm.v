(* C01 proofs, part 3: Stockholm sequence lines write -> read. *)
From Coq Require Import List ZArith NArith Bool Lia.
From Coq.Strings Require Import Byte.
Import ListNotations.
From SV Require Import Text C01_Lines G_codes G_c01_io C01_Model C01_Lemmas.

Lemma str_eqb_sym a b : str_eqb a b = str_eqb b a.
Proof.
  destruct (str_eqb a b) eqn:E.
  - apply str_eqb_eq in E. subst. symmetry. apply str_eqb_refl.
  - destruct (str_eqb b a) eqn:E2; [|reflexivity]. apply str_eqb_eq in E2. subst. rewrite str_eqb_refl in E. discriminate.
Qed.

Lemma dict_append_fresh k v d : existsb (str_eqb k) (map fst d) = false -> dict_append k v d = d ++ [(k, v)].
Proof.
  induction d as [|[k0 v0] d IH]; intros H; [reflexivity|].
  cbn [map fst existsb] in H. apply orb_false_iff in H. destruct H as [H1 H2].
  cbn [dict_append]. rewrite str_eqb_sym, H1. cbn [app]. rewrite (IH H2). reflexivity.
Qed.

Lemma distinct_app_fresh a x b : distinct (a ++ x :: b) = true -> existsb (str_eqb x) a = false.
Proof.
  induction a as [|y a IH]; intros H; [reflexivity|].
  cbn [app distinct] in H. apply andb_prop in H. destruct H as [H1 H2]. apply negb_true_iff in H1.
  rewrite existsb_app in H1. apply orb_false_iff in H1. destruct H1 as [_ H1]. cbn [existsb] in H1.
  apply orb_false_iff in H1. destruct H1 as [H1 _].
  cbn [existsb]. rewrite str_eqb_sym, H1. cbn. apply IH. exact H2.
Qed.

Lemma startswith_cons_false c p x s : byte_eqb c x = false -> startswith (c :: p) (x :: s) = false.
Proof. intros H. unfold startswith. cbn. rewrite H. reflexivity. Qed.

Lemma hash_prefix_false (p : str) x s : head_is HASH p = true -> byte_eqb HASH x = false -> startswith p (x :: s) = false.
Proof.
  destruct p as [|c p]; [discriminate|]. cbn [head_is]. intros H Hx. apply byte_eqb_eq in H. subst.
  apply startswith_cons_false. exact Hx.
Qed.

Lemma slashes_app i rest : i <> [] -> startswith (bs "//"%bs) i = false -> startswith (bs "//"%bs) (i ++ SP :: rest) = false.
Proof.
  intros Hne H. destruct i as [|a [|b i]]; [contradiction| |].
  - unfold startswith. cbn [app strip_prefix bs bytes_of_bstr]. destruct (byte_eqb "/"%byte a); reflexivity.
  - unfold startswith in *. cbn [app strip_prefix bs bytes_of_bstr] in *.
    destruct (byte_eqb "/"%byte a); [|reflexivity]. destruct (byte_eqb "/"%byte b); [discriminate|reflexivity].
Qed.

Lemma dropwhile_app_stop p a c b : forallb p a = true -> p c = false -> dropwhile p (a ++ c :: b) = c :: b.
Proof.
  intros Ha Hc. induction a as [|x a IH]; cbn.
  - rewrite Hc. reflexivity.
  - cbn in Ha. apply andb_prop in Ha. destruct Ha as [Hx Ha]. rewrite Hx. apply IH. exact Ha.
Qed.

Lemma id_stk_ok_facts i : id_stk_ok i = true ->
  i <> [] /\ forallb is_graph i = true /\ head_is HASH i = false /\ startswith (bs "//"%bs) i = false.
Proof.
  unfold id_stk_ok, id_plain. intros H. apply andb_prop in H. destruct H as [H H3]. apply andb_prop in H. destruct H as [H1 H2].
  destruct i as [|a i]; [discriminate|]. split; [discriminate|]. split; [exact H1|].
  split; apply negb_true_iff; assumption.
Qed.

Lemma wfb_stk_facts s : wfb_stk s = true ->
  exists i c r, b_id s = Some i /\ id_stk_ok i = true /\ wfb_common s = true /\ b_data s = c :: r.
Proof.
  unfold wfb_stk. intros H. apply andb_prop in H. destruct H as [H H3]. apply andb_prop in H. destruct H as [H1 H2].
  destruct (b_id s) as [i|]; [|discriminate]. destruct (b_data s) as [|c r] eqn:E; [discriminate|].
  exists i, c, r. auto.
Qed.

Lemma stk_seq_step s d : wfb_stk s = true ->
  stk_line (stk_seq_line s) d = Ok (dict_append (id_or_empty s) (b_data s) d, false).
Proof.
  intros H. destruct (wfb_stk_facts s H) as (i & c & r & Ei & Hi & Hc & Ed).
  destruct (id_stk_ok_facts i Hi) as (Hne & Hg & Hh & Hsl).
  destruct (wfb_common_facts s Hc) as (Hres & _ & _). rewrite Ed in Hres.
  pose proof (residues_non_ws _ Hres) as Hnw.
  assert (W : is_ws c = false).
  { cbn in Hnw. apply andb_prop in Hnw. destruct Hnw as [Hnw _]. unfold non_ws in Hnw. apply negb_true_iff in Hnw. exact Hnw. }
  unfold stk_seq_line, id_or_empty, stk_line. rewrite Ei, Ed. cbn [py_str_opt].
  rewrite (strip_id_suffix i (SP :: c :: r) Hne (graph_non_ws i Hg)).
  2:{ right. exists c, r. split; [reflexivity|]. split; [exact W|]. apply (rstrip_all_non_ws (c :: r) Hnw). }
  assert (Hgn : forallb non_ws i = true) by (apply graph_non_ws; exact Hg).
  assert (Esplit : split1 (i ++ SP :: c :: r) = (i, c :: r)).
  { unfold split1. rewrite takewhile_app_stop, dropwhile_app_stop by (auto).
    change (lstrip (SP :: c :: r)) with (lstrip (c :: r)). rewrite (lstrip_non_ws c r W). reflexivity. }
  assert (Emem : mem SP (i ++ SP :: c :: r) = true).
  { unfold mem. rewrite existsb_app. cbn [existsb]. rewrite byte_eqb_refl. cbn. apply orb_true_r. }
  assert (Esl : startswith (bs "//"%bs) (i ++ SP :: c :: r) = false) by (apply slashes_app; assumption).
  rewrite Esl, Emem, Esplit.
  destruct i as [|a i]; [contradiction|]. cbn [head_is] in Hh. rewrite byte_eqb_sym in Hh.
  cbn [app]. unfold STK_HEAD.
  rewrite (hash_prefix_false (bs "# STOCKHOLM"%bs) a _ eq_refl Hh), (hash_prefix_false (bs "#=GF"%bs) a _ eq_refl Hh),
    (hash_prefix_false (bs "#=GC"%bs) a _ eq_refl Hh), (hash_prefix_false (bs "#=GS"%bs) a _ eq_refl Hh),
    (hash_prefix_false (bs "#=GR"%bs) a _ eq_refl Hh).
  cbn [orb head_is]. rewrite byte_eqb_sym, Hh. reflexivity.
Qed.

Definition row (s : bseq) : str * str := (id_or_empty s, b_data s).

Lemma stk_loop_seqs b : forall d, forallb wfb_stk b = true -> distinct (map fst d ++ ids_of b) = true ->
  stk_loop (map stk_seq_line b ++ [bs "//"%bs]) d = Ok (d ++ map row b).
Proof.
  induction b as [|s b IH]; intros d H Hd.
  - cbn [map app]. rewrite app_nil_r. reflexivity.
  - cbn [forallb] in H. apply andb_prop in H. destruct H as [Hs Hb].
    cbn [map app stk_loop]. rewrite (stk_seq_step s d Hs). cbn [bind].
    unfold ids_of in Hd. cbn [map] in Hd. fold (ids_of b) in Hd.
    rewrite (dict_append_fresh _ _ d (distinct_app_fresh _ _ _ Hd)).
    rewrite IH; [rewrite <- app_assoc; reflexivity|exact Hb|].
    rewrite map_app. cbn [map fst]. rewrite <- app_assoc. exact Hd.
Qed.

Lemma bioseq_row s : wfb_stk s = true ->
  bioseq (snd (row s)) (Some (fst (row s))) = mk_bseq (b_data s) (b_id s) (b_nt s) None None.
Proof.
  intros H. destruct (wfb_stk_facts s H) as (i & c & r & Ei & Hi & Hc & Ed).
  destruct (wfb_common_facts s Hc) as (_ & Hu & Hn).
  unfold row, bioseq, id_or_empty. cbn [fst snd]. rewrite Ei, Hu, Hn. reflexivity.
Qed.

Lemma stk_lines_clean b c : (c = nl \/ c = cr) -> forallb wfb_stk b = true ->
  forallb (no_byte c) (write_stockholm_lines b) = true.
Proof.
  intros Hc H. unfold write_stockholm_lines. cbn [forallb].
  assert (E0 : no_byte c (bs "# STOCKHOLM 1.0"%bs) = true) by (destruct Hc; subst; reflexivity). rewrite E0. cbn [andb].
  rewrite forallb_app. cbn [forallb].
  assert (E1 : no_byte c (bs "//"%bs) = true) by (destruct Hc; subst; reflexivity). rewrite E1. rewrite !andb_true_r.
  rewrite forallb_forall. intros l Hl. apply in_map_iff in Hl. destruct Hl as (s & E & Hs). subst.
  rewrite forallb_forall in H. specialize (H s Hs).
  destruct (wfb_stk_facts s H) as (i & c0 & r & Ei & Hi & Hcm & Ed).
  destruct (id_stk_ok_facts i Hi) as (_ & Hg & _). destruct (wfb_common_facts s Hcm) as (Hres & _ & _).
  unfold stk_seq_line. rewrite Ei. cbn [py_str_opt]. rewrite no_byte_app. rewrite (graph_no c i Hc Hg). cbn [andb].
  cbn [no_byte forallb]. fold (no_byte c (b_data s)). rewrite (residues_no c _ Hc Hres).
  destruct Hc; subst; reflexivity.
Qed.


Lemma stk_lines_norm f b : write_stockholm_lines (map (norm_plain f) b) = write_stockholm_lines b.
Proof. unfold write_stockholm_lines. rewrite map_map. reflexivity. Qed.

Theorem stockholm_roundtrip b : wf_stk_basket b = true ->
  exists t, write_w Stockholm b = Ok t /\ read_content Stockholm t = Ok (map (norm_plain Stockholm) b)
            /\ write_w Stockholm (map (norm_plain Stockholm) b) = Ok t.
Proof.
  unfold wf_stk_basket. intros H. apply andb_prop in H. destruct H as [H Hd].
  exists (CText (unlines (write_stockholm_lines b))). split; [reflexivity|]. split.
  - unfold read_content. rewrite text_lines_unlines by (apply stk_lines_clean; auto).
    unfold read_stockholm_lines, write_stockholm_lines. cbn [stk_loop].
    change (stk_line (bs "# STOCKHOLM 1.0"%bs) []) with (@Ok (list (str * str) * bool) ([], false)). cbn [bind].
    rewrite (stk_loop_seqs b [] H Hd). cbn [app bind]. f_equal. rewrite !map_map. apply map_ext_in. intros s Hs.
    rewrite forallb_forall in H. rewrite (bioseq_row s (H s Hs)). reflexivity.
  - change (write_w Stockholm (map (norm_plain Stockholm) b))
      with (@Ok content (CText (unlines (write_stockholm_lines (map (norm_plain Stockholm) b))))).
    rewrite stk_lines_norm. reflexivity.
Qed.
