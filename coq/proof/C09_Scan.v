(* C09 proofs, part 6: _iter_fasta_index.  One pass of the scanner loop on a file  pre ++ header line ++ W ++ post,
   the loop as a chain of passes, and the scanner on a rendered record list (P1 scan_index, unbounded). *)
From Coq Require Import List Arith Lia ZArith NArith Bool.
From Coq.Strings Require Import Byte.
Import ListNotations.
From SV Require Import Text C09_Model C09_Lemmas C09_Extract C09_Record C09_Unterm C09_Box.

Lemma take_line_length t : length (take_line t) <= length t.
Proof. induction t as [|c t IH]; [simpl; lia|]. simpl. destruct (byte_eqb c LF); simpl; lia. Qed.

Lemma take_line_nl nl t rest : nl = [LF] \/ nl = [CR; LF] -> forallb notLF t = true ->
  take_line (t ++ nl ++ rest) = t ++ nl.
Proof.
  intros [-> | ->] Ht.
  - apply take_line_app. exact Ht.
  - replace (t ++ [CR; LF] ++ rest) with ((t ++ [CR]) ++ LF :: rest) by (rewrite <- app_assoc; reflexivity).
    rewrite take_line_app; [rewrite <- app_assoc; reflexivity|].
    rewrite forallb_app, Ht. reflexivity.
Qed.

Section ScanStep.
Variables pre hrest nl W post : str.
Hypothesis nl_cases : nl = [LF] \/ nl = [CR; LF].
Hypothesis hrest_ok : forallb nonnl hrest = true.
Hypothesis W_noGT : forallb notGT W = true.
Hypothesis post_ok : post = [] \/ exists p, post = GT :: p.
Variable id : str.
Hypothesis Hid : first_word (hrest ++ nl) = Some id.
Hypothesis Hline : W = [] \/ take_line (W ++ post) = take_line W.

Let F := file pre hrest nl W post.
Let off0 := offset pre hrest nl.
Let e := length (take_line W).

Lemma readline_after_gt : readline_at F (start pre + 1) = hrest ++ nl.
Proof.
  unfold readline_at, F, file, start, hl. rewrite skipn_app_plus. cbn [app skipn].
  rewrite <- app_assoc. apply take_line_nl; [exact nl_cases|]. apply nonnl_notLF. exact hrest_ok.
Qed.

Lemma file_length : length F = off0 + length W + length post.
Proof. unfold F, off0, file, offset, start. rewrite !app_length. lia. Qed.

Theorem scan_step_around (fn : nat) :
  scan_step F fn (start pre)
  = Ok (Entry id fn (if e =? length W then 0 else e) (start pre), nextpos pre hrest nl W post).
Proof.
  unfold scan_step. rewrite readline_after_gt, Hid. cbv zeta.
  assert (Eo: start pre + 1 + length (hrest ++ nl) = off0 + 0).
  { unfold off0, offset, hl. cbn [length]. lia. }
  rewrite Eo.
  assert (He: e <= length W) by apply take_line_length.
  assert (Eend: (if opt_nat_eqb (mfind GT F (off0 + 0) (Some (off0 + 0 + 1))) (off0 + 0) then off0 + 0
                 else off0 + 0 + length (readline_at F (off0 + 0))) = off0 + e).
  { unfold mfind, readline_at, F, off0. rewrite skipn_offset by lia. cbn [skipn].
    replace (offset pre hrest nl + 0 + 1 - (offset pre hrest nl + 0)) with 1 by lia.
    destruct W as [|c W0] eqn:EW.
    - subst e. cbn [app take_line length]. destruct post_ok as [-> | [p ->]].
      + cbn. lia.
      + cbn [firstn find_b]. rewrite byte_eqb_refl. cbn [option_map opt_nat_eqb].
        rewrite Nat.add_0_r, Nat.eqb_refl. lia.
    - cbn [app firstn find_b]. cbn [forallb] in W_noGT. apply andb_prop in W_noGT. destruct W_noGT as [Hc _].
      unfold notGT in Hc. destruct (byte_eqb c GT); [discriminate|]. cbn [option_map opt_nat_eqb].
      destruct Hline as [Hl|Hl]; [discriminate|]. cbn [app] in Hl. rewrite Hl. subst e. lia. }
  rewrite Eend. unfold off0, F. rewrite (mfind_open pre hrest nl W post W_noGT post_ok e He).
  f_equal. f_equal. f_equal.
  fold off0. fold F. destruct post_ok as [E | [p E]].
  - rewrite (nextpos_nil pre hrest nl W post E). cbn [opt_nat_eqb is_none orb andb].
    rewrite file_length, E. cbn [length]. rewrite Nat.add_0_r.
    destruct (e =? length W) eqn:E1.
    + apply Nat.eqb_eq in E1. rewrite E1, Nat.eqb_refl. reflexivity.
    + apply Nat.eqb_neq in E1. assert (off0 + e =? off0 + length W = false) as -> by (apply Nat.eqb_neq; lia). lia.
  - rewrite (nextpos_cons pre hrest nl W post p E). cbn [opt_nat_eqb is_none orb andb]. rewrite orb_false_r.
    fold off0. destruct (e =? length W) eqn:E1.
    + apply Nat.eqb_eq in E1. rewrite E1, Nat.eqb_refl. reflexivity.
    + apply Nat.eqb_neq in E1. assert (off0 + length W =? off0 + e = false) as -> by (apply Nat.eqb_neq; lia). lia.
Qed.
End ScanStep.

(* ------------------------------------------------------------------ the first line of a wrapped body *)
Section FirstLine.
Variable crlf : bool.
Variable w : nat.
Hypothesis w_pos : 0 < w.
Let nl := nl_of crlf.
Let r0 := ARec [] [] [] w.

Lemma boff0 m : boff nl w 0 m = m + (m / w) * length nl.
Proof. unfold boff. rewrite Nat.div_0_l by lia. simpl. lia. Qed.

Lemma wrap_lt (t : str) : length t < w -> wrap_from nl w 0 t = t.
Proof.
  intros H.
  pose proof (firstn_wrap_small crlf r0 ltac:(simpl; lia) t 0 (length t) ltac:(simpl; lia) (le_n _)) as E.
  cbn [rw r0] in E. fold nl in E. rewrite firstn_all in E.
  transitivity (firstn (length t) (wrap_from nl w 0 t)); [|exact E].
  symmetry. apply firstn_all2.
  rewrite (length_wrap nl w w_pos), boff0, Nat.div_small by lia. lia.
Qed.

Lemma wrap_exact (t : str) : length t = w -> wrap_from nl w 0 t = t ++ nl.
Proof.
  intros H.
  assert (Hne: t <> []) by (intros ->; simpl in H; lia).
  destruct (wrap_ends_nl nl w w_pos t 0 Hne) as [W' E].
  { simpl. rewrite H. apply Nat.mod_same. lia. }
  pose proof (length_wrap nl w w_pos t 0) as L. rewrite boff0, H, Nat.div_same, E, app_length in L by lia.
  pose proof (firstn_wrap_small crlf r0 ltac:(simpl; lia) t 0 w ltac:(simpl; lia) ltac:(lia)) as F.
  cbn [rw r0] in F. fold nl in F. rewrite E in F.
  rewrite firstn_app in F. replace (w - length W') with 0 in F by lia.
  rewrite firstn_O, app_nil_r, firstn_all2 in F by lia.
  rewrite <- H, firstn_all in F. rewrite E, F. reflexivity.
Qed.

Lemma wrap_first_line (t : str) : w <= length t ->
  wrap_from nl w 0 t = firstn w t ++ nl ++ skipn (w + length nl) (wrap_from nl w 0 t).
Proof.
  intros H.
  pose proof (firstn_wrap nl w w_pos t 0 w H) as E.
  rewrite boff0, Nat.div_same, Nat.mul_1_l in E by lia.
  rewrite (wrap_exact (firstn w t)) in E by (rewrite firstn_length_le; lia).
  rewrite app_assoc, <- E. symmetry. apply firstn_skipn.
Qed.
End FirstLine.

Section BodyLine.
Variable crlf : bool.
Variable r : arec.
Let nl := nl_of crlf.
Let s := rseq r.
Let w := rw r.
Hypothesis w_pos : 1 <= w.
Hypothesis s_nonnl : forallb nonnl s = true.

Lemma body_first_line (post : str) :
  (body nl r = [] \/ take_line (body nl r ++ post) = take_line (body nl r))
  /\ (if length (take_line (body nl r)) =? length (body nl r) then 0 else length (take_line (body nl r)))
     = linelen_of crlf r.
Proof.
  pose proof (nonnl_notLF _ s_nonnl) as SL.
  pose proof (body_eq crlf r) as BE. unfold C09_Record.tail in BE.
  unfold nl, linelen_of.
  change (rseq r) with s in BE |- *. change (rw r) with w in BE |- *.
  destruct (le_lt_dec (length s) w) as [Hn|Hn].
  - assert (length s <=? w = true) as -> by (apply Nat.leb_le; exact Hn).
    destruct (Nat.eq_dec (length s) 0) as [H0|H0].
    + assert (B: body (nl_of crlf) r = []).
      { rewrite BE. destruct s; [|discriminate]. cbn. rewrite Nat.mod_0_l by lia. reflexivity. }
      rewrite B. cbn. auto.
    + assert (B: body (nl_of crlf) r = s ++ nl_of crlf).
      { rewrite BE. destruct (Nat.eq_dec (length s) w) as [E|E].
        - rewrite (wrap_exact crlf w ltac:(lia) s E). rewrite E, Nat.mod_same by lia. cbn [Nat.eqb]. apply app_nil_r.
        - rewrite (wrap_lt crlf w ltac:(lia) s ltac:(lia)). rewrite Nat.mod_small by lia.
          destruct (length s =? 0) eqn:E0; [apply Nat.eqb_eq in E0; lia|reflexivity]. }
      rewrite B. rewrite <- app_assoc.
      rewrite (take_line_nl (nl_of crlf) s post (nl_of_cases crlf) SL).
      pose proof (take_line_nl (nl_of crlf) s [] (nl_of_cases crlf) SL) as T0. rewrite app_nil_r in T0.
      rewrite T0, Nat.eqb_refl. auto.
  - assert (length s <=? w = false) as -> by (apply Nat.leb_gt; exact Hn).
    pose proof (wrap_first_line crlf w ltac:(lia) s ltac:(lia)) as E.
    set (R := skipn (w + length (nl_of crlf)) (wrap_from (nl_of crlf) w 0 s)) in *.
    set (T := if length s mod w =? 0 then [] else nl_of crlf) in *.
    assert (SLw: forallb notLF (firstn w s) = true) by (apply forallb_firstn; exact SL).
    assert (LW: length (wrap_from (nl_of crlf) w 0 s) = length s + length s / w * length (nl_of crlf)).
    { rewrite (length_wrap (nl_of crlf) w ltac:(lia)). apply (boff0 crlf w ltac:(lia)). }
    assert (D: 1 <= length s / w) by (apply Nat.div_le_lower_bound; lia).
    pose proof (nl_of_len crlf) as NL.
    assert (LR: 1 <= length R).
    { unfold R. rewrite skipn_length, LW. nia. }
    assert (B: body (nl_of crlf) r = firstn w s ++ nl_of crlf ++ (R ++ T)).
    { rewrite BE, E. rewrite <- !app_assoc. reflexivity. }
    rewrite B. rewrite <- !app_assoc.
    rewrite (take_line_nl (nl_of crlf) (firstn w s) (R ++ T ++ post) (nl_of_cases crlf) SLw).
    rewrite (take_line_nl (nl_of crlf) (firstn w s) (R ++ T) (nl_of_cases crlf) SLw).
    split; [right; reflexivity|].
    rewrite !app_length, firstn_length_le by lia.
    destruct (w + length (nl_of crlf) =? w + (length (nl_of crlf) + (length R + length T))) eqn:E1;
      [apply Nat.eqb_eq in E1; lia|reflexivity].
Qed.
Lemma body_short : 0 < length s -> length s <= w -> body nl r = s ++ nl.
Proof.
  intros H0 Hn. pose proof (body_eq crlf r) as BE. unfold C09_Record.tail in BE.
  unfold nl. change (rseq r) with s in BE |- *. change (rw r) with w in BE |- *.
  rewrite BE. destruct (Nat.eq_dec (length s) w) as [E|E].
  - rewrite (wrap_exact crlf w ltac:(lia) s E). rewrite E, Nat.mod_same by lia. cbn [Nat.eqb]. apply app_nil_r.
  - rewrite (wrap_lt crlf w ltac:(lia) s ltac:(lia)). rewrite Nat.mod_small by lia.
    destruct (length s =? 0) eqn:E0; [apply Nat.eqb_eq in E0; lia|reflexivity].
Qed.

Lemma body_long : w < length s ->
  exists RT, body nl r = firstn w s ++ nl ++ RT /\ 1 + length nl <= length RT.
Proof.
  intros Hn. pose proof (body_eq crlf r) as BE. unfold C09_Record.tail in BE.
  unfold nl. change (rseq r) with s in BE |- *. change (rw r) with w in BE |- *.
  pose proof (wrap_first_line crlf w ltac:(lia) s ltac:(lia)) as E.
  set (R := skipn (w + length (nl_of crlf)) (wrap_from (nl_of crlf) w 0 s)) in *.
  set (T := if length s mod w =? 0 then [] else nl_of crlf) in *.
  exists (R ++ T). split.
  - rewrite BE, E. rewrite <- !app_assoc. reflexivity.
  - assert (LW: length (wrap_from (nl_of crlf) w 0 s) = length s + length s / w * length (nl_of crlf)).
    { rewrite (length_wrap (nl_of crlf) w ltac:(lia)). apply (boff0 crlf w ltac:(lia)). }
    assert (D: 1 <= length s / w) by (apply Nat.div_le_lower_bound; lia).
    pose proof (nl_of_len crlf) as NL.
    pose proof (Nat.div_mod_eq (length s) w) as DM.
    rewrite app_length. unfold R. rewrite skipn_length, LW.
    destruct (Nat.eq_dec (length s / w) 1) as [Q1|Q1].
    + assert (M: length s mod w <> 0) by nia.
      unfold T. destruct (length s mod w =? 0) eqn:EM; [apply Nat.eqb_eq in EM; lia|]. rewrite Q1. lia.
    + assert (2 <= length s / w) by lia. nia.
Qed.

(* the same for a body that lost its last line terminator *)
Lemma body_unterm_line (W' : str) : body nl r = W' ++ nl ->
  (if length (take_line W') =? length W' then 0 else length (take_line W')) = linelen_of crlf r.
Proof.
  intros EB. pose proof (nonnl_notLF _ s_nonnl) as SL. pose proof (nl_of_len crlf) as NL. fold nl in NL.
  unfold linelen_of. change (rseq r) with s. change (rw r) with w.
  destruct (le_lt_dec (length s) w) as [Hn|Hn].
  - assert (length s <=? w = true) as -> by (apply Nat.leb_le; exact Hn).
    destruct (Nat.eq_dec (length s) 0) as [H0|H0].
    + exfalso. pose proof (body_eq crlf r) as BE. unfold C09_Record.tail in BE.
      change (rseq r) with s in BE. destruct s; [|discriminate]. cbn in BE. rewrite Nat.mod_0_l in BE by lia. cbn in BE.
      fold nl in BE. rewrite BE in EB. symmetry in EB. apply app_eq_nil in EB. destruct EB as [_ EB]. rewrite EB in NL. simpl in NL. lia.
    + rewrite (body_short ltac:(lia) Hn) in EB. apply app_inv_tail in EB. subst W'.
      rewrite (take_line_nolf s SL), Nat.eqb_refl. reflexivity.
  - assert (length s <=? w = false) as -> by (apply Nat.leb_gt; exact Hn).
    destruct (body_long Hn) as [RT [EB2 LRT]]. rewrite EB in EB2.
    assert (EW: W' = firstn (length W') (firstn w s ++ nl ++ RT)).
    { rewrite <- EB2, firstn_app, Nat.sub_diag, firstn_O, app_nil_r, firstn_all. reflexivity. }
    assert (LW: length W' + length nl = w + (length nl + length RT)).
    { apply (f_equal (@length byte)) in EB2. rewrite !app_length, firstn_length_le in EB2 by lia. exact EB2. }
    rewrite app_assoc, firstn_app, firstn_all2 in EW by (rewrite app_length, firstn_length_le; lia).
    rewrite app_length, firstn_length_le in EW by lia.
    set (X := firstn (length W' - (w + length nl)) RT) in *.
    assert (LX: 1 <= length X) by (unfold X; rewrite firstn_length; lia).
    assert (SLw: forallb notLF (firstn w s) = true) by (apply forallb_firstn; exact SL).
    assert (TL: take_line W' = firstn w s ++ nl).
    { rewrite EW, <- app_assoc. apply (take_line_nl nl (firstn w s) X (nl_of_cases crlf) SLw). }
    rewrite TL.
    rewrite app_length, firstn_length_le by lia.
    destruct (w + length nl =? length W') eqn:E1; [apply Nat.eqb_eq in E1|reflexivity].
    apply (f_equal (@length byte)) in EW. rewrite !app_length, firstn_length_le in EW by lia. lia.
Qed.
End BodyLine.

(* ------------------------------------------------------------------ the id the scanner takes from a header line *)
Lemma id_char_nows c : id_char c = true -> is_ws_bytes c = false.
Proof. destruct c; vm_compute; intro H; first [reflexivity | discriminate H]. Qed.

Lemma take_word_app a rest : forallb (fun c => negb (is_ws_bytes c)) a = true ->
  (rest = [] \/ exists d t, rest = d :: t /\ is_ws_bytes d = true) -> take_word (a ++ rest) = a.
Proof.
  intros Ha Hr. induction a as [|c a IH].
  - cbn [app]. destruct Hr as [-> | [d [t [-> Hd]]]]; [reflexivity|]. cbn [take_word]. rewrite Hd. reflexivity.
  - cbn [forallb] in Ha. apply andb_prop in Ha. destruct Ha as [Hc Ha]. cbn [app take_word].
    destruct (is_ws_bytes c); [discriminate|]. rewrite IH by exact Ha. reflexivity.
Qed.

Lemma first_word_id (i rest : str) : wf_id i = true ->
  (rest = [] \/ exists d t, rest = d :: t /\ is_ws_bytes d = true) -> first_word (i ++ rest) = Some i.
Proof.
  intros Hi Hr. unfold wf_id in Hi. apply andb_prop in Hi. destruct Hi as [Hne Hc].
  assert (Hn: forallb (fun c => negb (is_ws_bytes c)) i = true).
  { rewrite forallb_forall in *. intros x Hx. rewrite (id_char_nows x (Hc x Hx)). reflexivity. }
  destruct i as [|c i]; [discriminate|].
  unfold first_word. cbn [app drop_ws]. cbn [forallb] in Hn. apply andb_prop in Hn. destruct Hn as [Hc0 Hn].
  destruct (is_ws_bytes c) eqn:Ec; [discriminate|].
  change (c :: i ++ rest) with ((c :: i) ++ rest). rewrite take_word_app; [reflexivity| |exact Hr].
  cbn [forallb]. rewrite Ec, Hn. reflexivity.
Qed.

Lemma desc_nl_ws crlf d : wf_desc d = true ->
  exists c t, d ++ nl_of crlf = c :: t /\ is_ws_bytes c = true.
Proof.
  intros H. destruct d as [|c d].
  - destruct crlf; cbn; eauto.
  - unfold wf_desc in H. apply andb_prop in H. destruct H as [H _]. exists c, (d ++ nl_of crlf). split; [reflexivity|].
    apply orb_prop in H. destruct H as [H|H]; apply byte_eqb_eq in H; subst c; reflexivity.
Qed.

Lemma wf_rec_id_desc mode nllen r : wf_rec mode nllen r = true -> wf_id (rid r) = true /\ wf_desc (rdesc r) = true.
Proof.
  unfold wf_rec. intros H.
  apply andb_prop in H. destruct H as [H _]. apply andb_prop in H. destruct H as [H _].
  apply andb_prop in H. destruct H as [H _]. apply andb_prop in H. exact H.
Qed.

(* ------------------------------------------------------------------ one scanner pass on a rendered record *)
Definition next_of (pre : str) (rr post : str) : option nat :=
  match post with [] => None | _ => Some (length pre + length rr) end.

Theorem scan_step_rendered mode crlf (r : arec) (pre post : str) (fn : nat) :
  wf_rec mode (length (nl_of crlf)) r = true ->
  (post = [] \/ exists p, post = GT :: p) ->
  scan_step (pre ++ render_rec (nl_of crlf) r ++ post) fn (length pre)
  = Ok (Entry (rid r) fn (linelen_of crlf r) (length pre), next_of pre (render_rec (nl_of crlf) r) post).
Proof.
  intros Hwf Hpost. destruct (wf_rec_facts _ _ _ Hwf) as [Hw [H1 [H2 [H3 H4]]]].
  destruct (wf_rec_id_desc _ _ _ Hwf) as [Hi Hd].
  pose proof (the_file_eq crlf r pre post) as FE. unfold the_file in FE. rewrite FE.
  destruct (body_first_line crlf r Hw H3 post) as [HL HE].
  assert (Hid: first_word ((rid r ++ rdesc r) ++ nl_of crlf) = Some (rid r)).
  { rewrite <- app_assoc. apply first_word_id; [exact Hi|]. right. destruct (desc_nl_ws crlf _ Hd) as [c [t [E Hc]]]. eauto. }
  pose proof (scan_step_around pre (rid r ++ rdesc r) (nl_of crlf) (body (nl_of crlf) r) post (nl_of_cases crlf) H1
                (body_noGT crlf r H4) Hpost (rid r) Hid HL fn) as S.
  unfold start in S. rewrite S, HE. f_equal. f_equal.
  unfold next_of. destruct Hpost as [E | [p E]].
  - rewrite (nextpos_nil _ _ _ _ _ E), E. reflexivity.
  - rewrite (nextpos_cons _ _ _ _ _ p E), E. f_equal. unfold offset, start, render_rec.
    rewrite (header_eq crlf r), !app_length. lia.
Qed.

(* ------------------------------------------------------------------ the loop as a chain of passes *)
Inductive steps (F : str) (fn : nat) : nat -> list entry -> Prop :=
| steps_last pos e : scan_step F fn pos = Ok (e, None) -> steps F fn pos [e]
| steps_cons pos e pos' es : scan_step F fn pos = Ok (e, Some pos') -> steps F fn pos' es -> steps F fn pos (e :: es).

Lemma steps_loop F fn pos es : steps F fn pos es -> forall fuel, length es <= fuel -> scan_loop fuel F fn pos = Ok es.
Proof.
  induction 1 as [pos e H | pos e pos' es H Hs IH]; intros fuel Hf.
  - destruct fuel as [|fuel]; [simpl in Hf; lia|]. cbn [scan_loop]. rewrite H. reflexivity.
  - destruct fuel as [|fuel]; [simpl in Hf; lia|]. cbn [scan_loop]. rewrite H.
    rewrite (IH fuel) by (simpl in Hf; lia). reflexivity.
Qed.

Lemma steps_nonempty F fn pos es : steps F fn pos es -> es <> [].
Proof. destruct 1; discriminate. Qed.

Lemma render_recs_cons nl r rs : render_recs nl (r :: rs) = render_rec nl r ++ render_recs nl rs.
Proof. reflexivity. Qed.

Lemma render_recs_head nl rs : rs <> [] -> exists p, render_recs nl rs = GT :: p.
Proof. destruct rs as [|r rs]; [congruence|]. intros _. rewrite render_recs_cons. unfold render_rec, header_line. cbn [app]. eauto. Qed.

(* records, followed by a tail piece T that is empty or scanned on its own (a last record without final newline) *)
Lemma steps_recs mode crlf fn (T : str) (esT : list entry) : forall (rs : list arec) (pre : str),
  Forall (fun r => wf_rec mode (length (nl_of crlf)) r = true) rs ->
  let F := pre ++ render_recs (nl_of crlf) rs ++ T in
  ((T = [] /\ esT = []) \/ ((exists t, T = GT :: t) /\ steps F fn (length pre + length (render_recs (nl_of crlf) rs)) esT)) ->
  (rs <> [] \/ esT <> []) ->
  steps F fn (length pre) (expected_from (nl_of crlf) fn (length pre) rs ++ esT).
Proof.
  induction rs as [|r rs IH]; intros pre Hwf F HT Hne.
  - cbn [expected_from app]. destruct HT as [[_ ->] | [_ Hs]]; [destruct Hne; congruence|].
    cbn [render_recs map concat length] in Hs. rewrite Nat.add_0_r in Hs. exact Hs.
  - inversion Hwf as [|r' rs' Hr Hrs]; subst r' rs'.
    set (nl := nl_of crlf) in *.
    set (post := render_recs nl rs ++ T).
    assert (EF: F = pre ++ render_rec nl r ++ post).
    { unfold F, post. rewrite render_recs_cons, <- app_assoc. reflexivity. }
    assert (Hpost: post = [] \/ exists p, post = GT :: p).
    { unfold post. destruct rs as [|r2 rs2].
      - cbn [render_recs map concat app]. destruct HT as [[-> _] | [[t ->] _]]; [left; reflexivity|right; eauto].
      - destruct (render_recs_head nl (r2 :: rs2) ltac:(discriminate)) as [p ->]. right. cbn [app]. eauto. }
    pose proof (scan_step_rendered mode crlf r pre post fn Hr Hpost) as S. fold nl in S. rewrite <- EF in S.
    cbn [expected_from app]. fold nl. change (if length (rseq r) <=? rw r then 0 else rw r + length nl) with (linelen_of crlf r).
    destruct post as [|c post0] eqn:Ep.
    + (* last record of the file *)
      unfold post in Ep. apply app_eq_nil in Ep. destruct Ep as [Er ET].
      assert (rs = []) as -> by (destruct rs; [reflexivity|destruct (render_recs_head nl (a :: rs) ltac:(discriminate)) as [p E]; rewrite E in Er; discriminate]).
      assert (esT = []) as ->.
      { destruct HT as [[_ ->] | [[t E] _]]; [reflexivity|rewrite E in ET; discriminate]. }
      cbn [expected_from app]. apply steps_last. exact S.
    + unfold next_of in S.
      assert (EF2: F = (pre ++ render_rec nl r) ++ render_recs nl rs ++ T).
      { rewrite EF. unfold post in Ep. rewrite <- Ep, <- app_assoc. reflexivity. }
      assert (Hne2: rs <> [] \/ esT <> []).
      { destruct rs; [right|left; discriminate]. destruct HT as [[ET _] | [_ Hs]].
        - unfold post in Ep. rewrite ET in Ep. discriminate.
        - exact (steps_nonempty _ _ _ _ Hs). }
      specialize (IH (pre ++ render_rec nl r) Hrs).
      cbv zeta in IH. rewrite <- EF2 in IH. rewrite app_length in IH.
      apply steps_cons with (pos' := length pre + length (render_rec nl r)); [exact S|].
      apply IH; [|exact Hne2].
      destruct HT as [HT | [Ht Hs]]; [left; exact HT|right]. split; [exact Ht|].
      rewrite render_recs_cons, app_length in Hs.
      replace (length pre + length (render_rec nl r) + length (render_recs nl rs))
        with (length pre + (length (render_rec nl r) + length (render_recs nl rs))) by lia. exact Hs.
Qed.

Lemma expected_length nl fn pos rs : length (expected_from nl fn pos rs) = length rs.
Proof. revert pos. induction rs as [|r rs IH]; intros pos; [reflexivity|]. cbn [expected_from length]. rewrite IH. reflexivity. Qed.

Lemma recs_length nl rs : length rs <= length (render_recs nl rs).
Proof.
  induction rs as [|r rs IH]; [simpl; lia|]. rewrite render_recs_cons, app_length. unfold render_rec, header_line.
  rewrite app_length. cbn [length]. lia.
Qed.

Lemma scan_file_steps F fn es : (exists p, F = GT :: p) -> steps F fn 0 es -> length es <= S (length F) ->
  scan_file F fn = Ok es.
Proof.
  intros [p E] Hs Hl. unfold scan_file. rewrite E at 1. rewrite E at 1. unfold mfind. cbn [skipn find_b].
  rewrite byte_eqb_refl. cbn [option_map Nat.add]. apply steps_loop; assumption.
Qed.

(* P1 scan_index, unbounded: for every non-empty list of well-formed records (any widths, LF or CRLF, file with final
   newline) the scanner yields exactly one entry per record, with the offset of the record and the line length that
   extract_record assumes *)
Theorem scan_index mode crlf (rs : list arec) (fn : nat) :
  rs <> [] -> Forall (fun r => wf_rec mode (length (nl_of crlf)) r = true) rs ->
  scan_file (render_file crlf true rs) fn = Ok (expected_from (nl_of crlf) fn 0 rs).
Proof.
  intros Hne Hwf. unfold render_file.
  pose proof (steps_recs mode crlf fn [] [] rs [] Hwf (or_introl (conj eq_refl eq_refl)) (or_introl Hne)) as S.
  cbv zeta in S. cbn [app length] in S. rewrite !app_nil_r in S.
  apply scan_file_steps.
  - apply render_recs_head. exact Hne.
  - exact S.
  - rewrite expected_length. pose proof (recs_length (nl_of crlf) rs). lia.
Qed.

(* ------------------------------------------------------------------ a last record that is only a header without newline *)
Section Degenerate.
Variables pre hrest id : str.
Hypothesis hrest_ok : forallb nonnl hrest = true.
Hypothesis hrest_noGT : forallb notGT hrest = true.
Hypothesis Hid : first_word hrest = Some id.
Let F := pre ++ GT :: hrest.

Lemma degenerate_length : length F = length pre + 1 + length hrest.
Proof. unfold F. rewrite app_length. cbn [length]. lia. Qed.

Lemma skipn_end k : skipn (length F + k) F = [].
Proof. apply skipn_all2. lia. Qed.

Lemma scan_step_degenerate fn : scan_step F fn (length pre) = Ok (Entry id fn 0 (length pre), None).
Proof.
  unfold scan_step.
  assert (RL: readline_at F (length pre + 1) = hrest).
  { unfold readline_at, F. rewrite skipn_app_plus. cbn [skipn]. apply take_line_nolf. apply nonnl_notLF. exact hrest_ok. }
  rewrite RL, Hid. cbv zeta.
  replace (length pre + 1 + length hrest) with (length F + 0) by (rewrite degenerate_length; lia).
  unfold mfind, readline_at. rewrite !skipn_end. rewrite firstn_nil. cbn [find_b option_map opt_nat_eqb take_line length].
  rewrite <- plus_n_O. rewrite (skipn_all2 F) by lia. cbn [find_b option_map opt_nat_eqb is_none orb andb].
  rewrite <- plus_n_O, Nat.eqb_refl. reflexivity.
Qed.

(* every query on it returns the header and no residues *)
Lemma extract_degenerate (q : qkind) :
  (match q with QRange (Some i) _ => (0 <= i)%Z | _ => True end) ->
  (match q with QRange _ (Some j) => (0 <= j)%Z | _ => True end) ->
  extract F 0 (length pre) q = Ok (GT :: hrest).
Proof.
  intros Hi Hj.
  assert (RL: readline_at F (length pre) = GT :: hrest).
  { unfold readline_at, F. rewrite skipn_app_len. apply (take_line_nolf (GT :: hrest)). cbn [forallb].
    rewrite (nonnl_notLF _ hrest_ok). reflexivity. }
  assert (EO: length pre + length (GT :: hrest) = length F + 0) by (rewrite degenerate_length; cbn [length]; lia).
  destruct q as [| |oi oj]; unfold extract.
  - rewrite RL. reflexivity.
  - unfold mfind, read_at, F. rewrite skipn_app_plus. cbn [skipn]. rewrite (find_b_none hrest hrest_noGT).
    cbn [option_map]. rewrite skipn_app_len. reflexivity.
  - rewrite RL, EO. cbv zeta. cbn [Nat.eqb negb andb].
    assert (RE: opt_or (mfind GT F (length F + 0) None) (length F) - (length F + 0) = 0).
    { unfold mfind. rewrite skipn_end. cbn. lia. }
    rewrite RE.
    assert (I2: forall i1, (if 0 <? i1 then 0 else i1) = 0).
    { intros i1. destruct (0 <? i1) eqn:E; [reflexivity|]. apply Nat.ltb_ge in E. lia. }
    assert (Hri: exists i1, match oi with
                            | Some z => if (z <? 0)%Z then Ok 0 else if false then Err (bs "ZeroDivisionError"%bs) else Ok (Z.to_nat z)
                            | None => Ok 0 end = Ok i1).
    { destruct oi as [z|]; [|eauto]. destruct (z <? 0)%Z; eauto. }
    destruct Hri as [i1 ->]. rewrite I2.
    destruct oj as [z|].
    + assert ((z <? 0)%Z = false) as -> by (apply Z.ltb_ge; exact Hj).
      unfold mfind, read_at. rewrite !Nat.add_0_r, (skipn_all2 F) by lia. rewrite firstn_nil. cbn [find_b option_map].
      destruct (Z.to_nat z <? 0) eqn:E; [apply Nat.ltb_lt in E; lia|]. rewrite firstn_nil, app_nil_r. reflexivity.
    + unfold mfind, read_at. rewrite !Nat.add_0_r, (skipn_all2 F) by lia. cbn [find_b option_map]. rewrite app_nil_r. reflexivity.
Qed.
End Degenerate.

(* ------------------------------------------------------------------ scan_index for a file without final newline *)
Lemma expected_app nl fn pos a b :
  expected_from nl fn pos (a ++ b)
  = expected_from nl fn pos a ++ expected_from nl fn (pos + length (render_recs nl a)) b.
Proof.
  revert pos. induction a as [|r a IH]; intros pos.
  - cbn. rewrite Nat.add_0_r. reflexivity.
  - cbn [app expected_from]. rewrite IH, render_recs_cons, app_length. f_equal. f_equal. f_equal. lia.
Qed.

Theorem scan_index_unterminated mode crlf (init : list arec) (r : arec) (fn : nat) :
  Forall (fun r => wf_rec mode (length (nl_of crlf)) r = true) (init ++ [r]) ->
  scan_file (render_file crlf false (init ++ [r])) fn = Ok (expected_from (nl_of crlf) fn 0 (init ++ [r])).
Proof.
  intros Hall. apply Forall_app in Hall. destruct Hall as [Hinit Hr0]. inversion Hr0 as [|r' l' Hr _]; subst r' l'.
  destruct (wf_rec_facts _ _ _ Hr) as [Hw [H1 [H2 [H3 H4]]]].
  destruct (wf_rec_id_desc _ _ _ Hr) as [Hi Hd].
  set (nl := nl_of crlf) in *.
  rewrite (render_file_unterminated crlf init r). fold nl.
  set (U := firstn (length (render_rec nl r) - length nl) (render_rec nl r)).
  set (pre := render_recs nl init).
  set (e := Entry (rid r) fn (linelen_of crlf r) (length pre)).
  assert (HU: (exists t, U = GT :: t) /\ scan_step (pre ++ U) fn (length pre) = Ok (e, None)).
  { assert (D: rseq r = [] \/ rseq r <> []) by (destruct (rseq r); [left; reflexivity | right; discriminate]).
    destruct D as [Es|Hne].
    - (* only a header, without newline *)
      assert (EU: U = GT :: (rid r ++ rdesc r)).
      { unfold U, render_rec, body, header_line. rewrite Es. cbn [wrap_from length app]. rewrite Nat.mod_0_l by lia.
        cbn [Nat.eqb]. rewrite !app_nil_r.
        assert (X: GT :: rid r ++ rdesc r ++ nl = (GT :: rid r ++ rdesc r) ++ nl) by (cbn [app]; rewrite <- app_assoc; reflexivity).
        rewrite X.
        replace (S (length (rid r ++ rdesc r ++ nl)) - length nl) with (length (GT :: rid r ++ rdesc r))
          by (cbn [length]; rewrite !app_length; lia).
        rewrite firstn_app, Nat.sub_diag, firstn_O, app_nil_r, firstn_all. reflexivity. }
      split; [rewrite EU; eauto|]. rewrite EU.
      assert (Hid: first_word (rid r ++ rdesc r) = Some (rid r)).
      { apply first_word_id; [exact Hi|]. destruct (rdesc r) as [|c d] eqn:Ed; [left; reflexivity|right].
        unfold wf_desc in Hd. apply andb_prop in Hd. destruct Hd as [Hc _]. exists c, d. split; [reflexivity|].
        apply orb_prop in Hc. destruct Hc as [Hc|Hc]; apply byte_eqb_eq in Hc; subst c; reflexivity. }
      rewrite (scan_step_degenerate pre (rid r ++ rdesc r) (rid r) H1 Hid fn).
      unfold e, linelen_of. rewrite Es. reflexivity.
    - destruct (body_ends_nl crlf r Hw Hne) as [W' EW]. fold nl in EW.
      assert (EU: pre ++ U = file pre (rid r ++ rdesc r) nl W' []).
      { unfold U, render_rec. rewrite EW. unfold nl. rewrite (header_eq crlf r). fold nl. unfold file. rewrite app_nil_r.
        rewrite (app_assoc (hl _ _) W'). rewrite app_length, Nat.add_sub.
        rewrite firstn_app, Nat.sub_diag, firstn_O, app_nil_r, firstn_all. reflexivity. }
      split.
      { apply (app_inv_head pre) in EU. rewrite EU. unfold file, hl. cbn [app]. eauto. }
      rewrite EU.
      pose proof (body_noGT crlf r H4) as BG. fold nl in BG. rewrite EW, forallb_app in BG. apply andb_prop in BG. destruct BG as [BG _].
      assert (Hid: first_word ((rid r ++ rdesc r) ++ nl) = Some (rid r)).
      { rewrite <- app_assoc. apply first_word_id; [exact Hi|]. right. destruct (desc_nl_ws crlf _ Hd) as [c [t [E Hc]]]. eauto. }
      pose proof (scan_step_around pre (rid r ++ rdesc r) nl W' [] (nl_of_cases crlf) H1 BG (or_introl eq_refl) (rid r) Hid
                    (or_intror (f_equal take_line (app_nil_r W'))) fn) as S.
      rewrite (body_unterm_line crlf r Hw H3 W' EW) in S. rewrite (nextpos_nil _ _ _ _ _ eq_refl) in S. exact S. }
  destruct HU as [HUg HUs].
  pose proof (steps_recs mode crlf fn U [e] init [] Hinit) as S. cbv zeta in S. cbn [app length] in S. fold nl pre in S.
  assert (S2: steps (pre ++ U) fn 0 (expected_from nl fn 0 init ++ [e])).
  { apply S; [right; split; [exact HUg|apply steps_last; exact HUs]|right; discriminate]. }
  rewrite expected_app. cbn [expected_from]. fold nl pre. rewrite Nat.add_0_l.
  change (if length (rseq r) <=? rw r then 0 else rw r + length nl) with (linelen_of crlf r). fold e.
  apply scan_file_steps; [| exact S2 |].
  - destruct init as [|r1 init1].
    + cbn [render_recs map concat app] in *. unfold pre. cbn [render_recs map concat app]. exact HUg.
    + destruct (render_recs_head nl (r1 :: init1) ltac:(discriminate)) as [p E]. unfold pre. rewrite E. cbn [app]. eauto.
  - rewrite app_length, expected_length, app_length. cbn [length]. pose proof (recs_length nl init). fold pre in H. lia.
Qed.
