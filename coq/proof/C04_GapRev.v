(* C04, round 7: gap-aware subscripts with step -1 select the residues of the degapped reversed slice
   (for bounds not below -number of residues) *)
From Coq Require Import List ZArith NArith Bool Lia ZifyBool.
From Coq.Strings Require Import Byte.
Import ListNotations.
From SV Require Import Text C04_PySlice C04_Model C04_Lemmas C04_Str C04_Str7.
Local Open Scope Z_scope.

Lemma nth_error_skipn_ {A} : forall m (l : list A) n, nth_error (skipn m l) n = nth_error l (m + n).
Proof. induction m as [|m IH]; intros l n; [reflexivity|]. destruct l; [destruct n; reflexivity|]. cbn [skipn plus nth_error]. apply IH. Qed.
Lemma firstn_S_snoc {A} : forall n (l : list A) x, nth_error l n = Some x -> firstn (S n) l = firstn n l ++ [x].
Proof.
  induction n as [|n IH]; intros l x H; destruct l as [|y l]; try discriminate.
  - cbn in H. inversion H. reflexivity.
  - cbn [nth_error] in H. cbn [firstn app]. f_equal. change (firstn (S n) l = firstn n l ++ [x]). apply IH. exact H.
Qed.
Lemma take_step_neg1 {A} (l : list A) : forall n cur, Z.of_nat n <= cur + 1 -> cur < Z.of_nat (length l) ->
  take_step n cur (-1) l = rev (firstn n (skipn (Z.to_nat (cur + 1) - n) l)).
Proof.
  induction n as [|n IH]; intros cur H1 H2; [reflexivity|].
  cbn [take_step].
  destruct (nth_error l (Z.to_nat cur)) as [x|] eqn:E.
  2: { apply nth_error_None in E. lia. }
  rewrite IH by lia.
  replace (Z.to_nat (cur + -1 + 1) - n)%nat with (Z.to_nat (cur + 1) - S n)%nat by lia.
  set (m := (Z.to_nat (cur + 1) - S n)%nat).
  rewrite (firstn_S_snoc n (skipn m l) x).
  - rewrite rev_app_distr. reflexivity.
  - rewrite nth_error_skipn_. replace (m + n)%nat with (Z.to_nat cur) by (unfold m; lia). exact E.
Qed.

(* start + 1 and stop + 1 of PySlice_AdjustIndices for step -1 *)
Definition hi1 (len : Z) (o : option Z) : Z := match o with None => len | Some i => adj_bound len (-1) i + 1 end.
Definition lo1 (len : Z) (o : option Z) : Z := match o with None => 0 | Some i => adj_bound len (-1) i + 1 end.
Lemma adj_bound_neg_range len i : 0 <= len -> -1 <= adj_bound len (-1) i <= len - 1.
Proof.
  intros H. unfold adj_bound.
  repeat match goal with |- context [if ?b then _ else _] => destruct b eqn:? end; lia.
Qed.
Lemma getslice_neg1 {A} (l : list A) a b :
  getslice l (mkslice a b (Some (-1))) =
  Ok (rev (firstn (Z.to_nat (hi1 (Z.of_nat (length l)) a - lo1 (Z.of_nat (length l)) b))
                  (skipn (Z.to_nat (lo1 (Z.of_nat (length l)) b)) l))).
Proof.
  set (len := Z.of_nat (length l)). assert (Hlen : 0 <= len) by (unfold len; lia).
  unfold getslice, slice_indices. cbn [sl_step sl_start sl_stop]. fold len.
  change (-1 =? 0) with false. change (-1 <? 0) with true. cbn iota.
  set (start := match a with Some i => adj_bound len (-1) i | None => len - 1 end).
  set (stop := match b with Some i => adj_bound len (-1) i | None => -1 end).
  assert (Hs : hi1 len a = start + 1) by (unfold hi1, start; destruct a; lia).
  assert (Ht : lo1 len b = stop + 1) by (unfold lo1, stop; destruct b; lia).
  assert (R1 : -1 <= start <= len - 1) by (unfold start; destruct a; [apply adj_bound_neg_range; exact Hlen|lia]).
  assert (R2 : -1 <= stop <= len - 1) by (unfold stop; destruct b; [apply adj_bound_neg_range; exact Hlen|lia]).
  rewrite Hs, Ht. unfold slicelength. change (-1 <? 0) with true. cbn iota. change (- -1) with 1. rewrite Z.div_1_r.
  destruct (stop <? start) eqn:E.
  - destruct (start - stop - 1 + 1 <=? 0) eqn:E2; [lia|].
    change (-1 =? 1) with false. cbn iota.
    rewrite take_step_neg1 by (unfold len in *; lia).
    f_equal. f_equal. f_equal; [lia|]. f_equal. lia.
  - cbn. replace (Z.to_nat (start + 1 - (stop + 1))) with O by lia. reflexivity.
Qed.

(* cuts *)
Lemma pos_lt g d : forall k, (k < length (degap g d))%nat -> (pos g d k < length d)%nat.
Proof.
  unfold degap. induction d as [|c d IH]; intros k H; cbn [pos length filter] in *; [cbn in H; lia|].
  destruct (in_gap g c); cbn [negb] in H.
  - specialize (IH k H). lia.
  - cbn [length] in H. destruct k; [lia|]. specialize (IH k). lia.
Qed.
Lemma degap_firstn_pos_S g d : forall k, (k < length (degap g d))%nat ->
  degap g (firstn (S (pos g d k)) d) = firstn (S k) (degap g d).
Proof.
  unfold degap. induction d as [|c d IH]; intros k H; cbn [pos filter] in *; [cbn in H; lia|].
  destruct (in_gap g c) eqn:E; cbn [negb] in H.
  - cbn [firstn filter]. rewrite E. cbn [negb]. apply IH. exact H.
  - cbn [length] in H. destruct k.
    + cbn [firstn filter]. rewrite E. reflexivity.
    + cbn [firstn filter]. rewrite E. cbn [negb firstn]. f_equal. apply IH. lia.
Qed.
Lemma cut_succ g d k : (k < length (degap g d))%nat -> cut g d (S (pos g d k)) (S k).
Proof. intros H. split; [pose proof (pos_lt g d k H); lia|]. split; [apply degap_firstn_pos_S; exact H|lia]. Qed.
Lemma degap_length_firstn g d k : (k <= length (degap g d))%nat -> length (firstn k (degap g d)) = k.
Proof. intros H. apply firstn_length_le. exact H. Qed.
(* between two cuts, whatever their order *)
Lemma cut_between_gen g d p1 k1 p2 k2 : cut g d p1 k1 -> cut g d p2 k2 ->
  degap g (firstn (p2 - p1) (skipn p1 d)) = firstn (k2 - k1) (skipn k1 (degap g d)).
Proof.
  intros (Hp1 & C1 & Hk1) (Hp2 & C2 & Hk2).
  destruct (Nat.le_gt_cases p1 p2) as [H|H].
  - pose proof (firstn_split d p1 p2 H) as S1.
    assert (Hk : (k1 <= k2)%nat).
    { pose proof (f_equal (@length byte) C2) as L2. rewrite S1, degap_app, C1, app_length in L2.
      rewrite !degap_length_firstn in L2 by assumption. lia. }
    pose proof (firstn_split (degap g d) k1 k2 Hk) as S2.
    rewrite S1, degap_app, C1 in C2. rewrite S2 in C2. apply app_inv_head in C2. exact C2.
  - assert (Hk : (k2 <= k1)%nat).
    { assert (Hle : (p2 <= p1)%nat) by lia. pose proof (firstn_split d p2 p1 Hle) as S1.
      pose proof (f_equal (@length byte) C1) as L1. rewrite S1, degap_app, C2, app_length in L1.
      rewrite !degap_length_firstn in L1 by assumption. lia. }
    replace (p2 - p1)%nat with O by lia. replace (k2 - k1)%nat with O by lia. reflexivity.
Qed.

(* a bound of a step -1 slice: column side and residue side are the same cut *)
Lemma bound_cut g d i : - Z.of_nat (length (degap g d)) <= i ->
  exists p k, cut g d p k /\
    adj_bound (Z.of_nat (length d)) (-1) (Z.of_nat (pos g d (Z.to_nat (norm (Z.of_nat (length (degap g d))) i)))) + 1 = Z.of_nat p /\
    adj_bound (Z.of_nat (length (degap g d))) (-1) i + 1 = Z.of_nat k.
Proof.
  intros Hi. set (N := Z.of_nat (length (degap g d))) in *. set (L := Z.of_nat (length d)).
  assert (HN : 0 <= N) by (unfold N; lia).
  destruct (Z_lt_ge_dec i N) as [Hlt|Hge].
  - (* a residue *)
    set (k := Z.to_nat (norm N i)).
    assert (Hk : (k < length (degap g d))%nat) by (unfold k, norm, N in *; destruct (i <? 0) eqn:E; lia).
    assert (Hkz : Z.of_nat k = if i <? 0 then i + N else i) by (unfold k, norm, N in *; destruct (i <? 0) eqn:E; lia).
    exists (S (pos g d k)), (S k). split; [apply cut_succ; exact Hk|].
    pose proof (pos_lt g d k Hk) as Hp. split.
    + fold k. unfold adj_bound. fold L.
      repeat match goal with |- context [if ?b then _ else _] => destruct b eqn:? end; unfold L in *; lia.
    + unfold adj_bound. destruct (i <? 0) eqn:E.
      * destruct (i + N <? 0) eqn:E2; lia.
      * destruct (i >=? N) eqn:E2; lia.
  - (* beyond the last residue: the end *)
    exists (length d), (length (degap g d)). split; [apply cut_end|].
    assert (Hn : norm N i = N) by (unfold norm; destruct (i <? 0) eqn:E; lia).
    rewrite Hn. unfold N at 1. rewrite Nat2Z.id. rewrite pos_ge by lia. fold L. split.
    + unfold adj_bound. repeat match goal with |- context [if ?b then _ else _] => destruct b eqn:? end; unfold L in *; lia.
    + fold N. unfold adj_bound. repeat match goal with |- context [if ?b then _ else _] => destruct b eqn:? end; lia.
Qed.

Lemma degap_rev g x : degap g (rev x) = rev (degap g x).
Proof. apply filter_rev. Qed.
Lemma gap_reverse_slice_str g d a b :
  rev_bound_ok (Z.of_nat (length (degap g d))) a -> rev_bound_ok (Z.of_nat (length (degap g d))) b ->
  exists r, str_getitem (Some g) d (ISlice (mkslice a b (Some (-1)))) = Ok r /\
            getslice (degap g d) (mkslice a b (Some (-1))) = Ok (degap g r).
Proof.
  intros Ha Hb. unfold str_getitem, adjust_index. cbn [pyget sl_start sl_stop sl_step].
  rewrite !getslice_neg1. eexists. split; [reflexivity|]. f_equal.
  rewrite degap_rev. f_equal.
  set (L := Z.of_nat (length d)). set (N := Z.of_nat (length (degap g d))).
  assert (Hhi : exists p k, cut g d p k /\ hi1 L (adj (nogaps g d) L a) = Z.of_nat p /\ hi1 N a = Z.of_nat k).
  { destruct a as [i|].
    - unfold L. rewrite adj_pos. cbn [hi1]. apply bound_cut. exact Ha.
    - exists (length d), (length (degap g d)). split; [apply cut_end|]. split; reflexivity. }
  assert (Hlo : exists p k, cut g d p k /\ lo1 L (adj (nogaps g d) L b) = Z.of_nat p /\ lo1 N b = Z.of_nat k).
  { destruct b as [i|].
    - unfold L. rewrite adj_pos. cbn [lo1]. apply bound_cut. exact Hb.
    - exists O, O. split; [apply cut_0|]. split; reflexivity. }
  destruct Hhi as (p2 & k2 & C2 & -> & ->). destruct Hlo as (p1 & k1 & C1 & -> & ->).
  replace (Z.to_nat (Z.of_nat p2 - Z.of_nat p1)) with (p2 - p1)%nat by lia.
  replace (Z.to_nat (Z.of_nat k2 - Z.of_nat k1)) with (k2 - k1)%nat by lia.
  rewrite !Nat2Z.id. symmetry. apply cut_between_gen; assumption.
Qed.

Lemma seq_gap_reverse_slice g s a b :
  rev_bound_ok (Z.of_nat (length (degap g (data s)))) a -> rev_bound_ok (Z.of_nat (length (degap g (data s)))) b ->
  no_lower (data s) = true ->
  exists r, seq_getitem (Some g) s (ISlice (mkslice a b (Some (-1)))) = Ok (mkseq r (sid s)) /\
            pyget (degap g (data s)) (ISlice (mkslice a b (Some (-1)))) = Ok (degap g r).
Proof.
  intros Ha Hb Hl. destruct (gap_reverse_slice_str g (data s) a b Ha Hb) as (r & Hr & Hd).
  exists r. split; [|exact Hd]. unfold str_getitem in Hr. unfold seq_getitem.
  destruct (adjust_index (Some g) (data s) (ISlice (mkslice a b (Some (-1))))) as [ix|e]; [|discriminate].
  rewrite Hr. unfold new_seq. rewrite py_upper_id; [reflexivity|].
  eapply no_lower_incl; [eapply pyget_incl; exact Hr|exact Hl].
Qed.
