(* C17: the script body of convert.py as a whole: from the per-call facts to the object dumped to gc.json. *)
From Coq Require Import List ZArith NArith Bool Lia.
From Coq.Strings Require Import Byte.
Import ListNotations.
From SV Require Import Text G_codes C17_Model C17_Convert C17_GenSpec C17_ConvSpec C17_ConvLemmas
  G_gc_ids G_gc_prt_text G_gc_all G_gc_conv_all C17_Lemmas C17_ConvTables.

Fixpoint mapM {A B} (g : A -> res B) (l : list A) : res (list B) :=
  match l with
  | [] => inr []
  | x :: r => match g x with
              | inl e => inl e
              | inr v => match mapM g r with inl e => inl e | inr vs => inr (v :: vs) end
              end
  end.
Definition store {V} (gcs : list (N * V)) (ev : entry * V) : list (N * V) := set_assoc gcs (e_id (fst ev)) (snd ev).

(* the loop = generate every emitted entry in file order, store under its id *)
Lemma convert_with_emitted {V} (g : entry -> res V) : forall lines st gcs es vs,
  emitted lines st = inr es -> mapM g es = inr vs ->
  convert_with g lines st gcs = inr (fold_left store (combine es vs) gcs).
Proof.
  induction lines as [|l r IH]; intros st gcs es vs He Hm; simpl in *; unfold ok in *.
  - inversion He; subst. simpl in Hm. inversion Hm; subst. reflexivity.
  - destruct (step l st) as [x|[st' [en|]]]; [discriminate| |].
    + destruct (emitted r st') as [x|es'] eqn:Ee; [discriminate|]. inversion He; subst. simpl in Hm.
      destruct (g en) as [x|v]; [discriminate|]. destruct (mapM g es') as [x|vs'] eqn:Em; [discriminate|].
      inversion Hm; subst. simpl. exact (IH st' _ es' vs' Ee Em).
    + exact (IH st' gcs es vs He Hm).
Qed.

Lemma set_assoc_fresh {V} (d : list (N * V)) k v : ~ In k (map fst d) -> set_assoc d k v = d ++ [(k, v)].
Proof.
  induction d as [|[k' v'] d IH]; simpl; intros H; [reflexivity|].
  destruct (N.eqb k' k) eqn:E.
  - apply N.eqb_eq in E. subst. exfalso. apply H. left. reflexivity.
  - rewrite IH; [reflexivity|]. intros Hin. apply H. right. exact Hin.
Qed.

Lemma fold_store_fresh {V} : forall (es : list entry) (vs : list V) gcs,
  length es = length vs -> NoDup (map e_id es) -> (forall e, In e es -> ~ In (e_id e) (map fst gcs)) ->
  fold_left store (combine es vs) gcs = gcs ++ combine (map e_id es) vs.
Proof.
  induction es as [|e es IH]; intros [|v vs] gcs L Hn Hd; simpl in *; try discriminate.
  - rewrite app_nil_r. reflexivity.
  - inversion Hn as [|? ? Hni Hn']; subst. unfold store at 2. cbn [fst snd].
    rewrite (set_assoc_fresh gcs (e_id e) v (Hd e (or_introl eq_refl))).
    rewrite IH; [rewrite <- app_assoc; reflexivity|lia|exact Hn'|].
    intros e' He'. rewrite map_app, in_app_iff. simpl. intros [H|[H|[]]].
    + exact (Hd e' (or_intror He') H).
    + apply Hni. rewrite H. apply in_map. exact He'.
Qed.

Lemma mapM_total {A B} (g : A -> res B) : forall l,
  (forall n x, nth_error l n = Some x -> exists v, g x = inr v) -> exists vs, mapM g l = inr vs.
Proof.
  induction l as [|x l IH]; intros H; simpl; [eexists; reflexivity|].
  destruct (H 0%nat x eq_refl) as (v & E). rewrite E.
  destruct (IH (fun n y Hn => H (S n) y Hn)) as (vs & Ev). rewrite Ev. eexists. reflexivity.
Qed.

Lemma mapM_nth {A B} (g : A -> res B) : forall l vs, mapM g l = inr vs ->
  length vs = length l /\ forall n x, nth_error l n = Some x -> exists v, nth_error vs n = Some v /\ g x = inr v.
Proof.
  induction l as [|x l IH]; intros vs H; simpl in H.
  - inversion H; subst. split; [reflexivity|]. intros [|n] y Hn; discriminate.
  - destruct (g x) as [e|v] eqn:E; [discriminate|]. destruct (mapM g l) as [e|vs'] eqn:Em; [discriminate|].
    inversion H; subst. destruct (IH _ eq_refl) as [L N]. split; [simpl; rewrite L; reflexivity|].
    intros [|n] y Hn; simpl in Hn.
    + inversion Hn; subst. exists v. split; [reflexivity|exact E].
    + exact (N n y Hn).
Qed.

Lemma map_fst_combine {A B} : forall (a : list A) (b : list B), length a = length b -> map fst (combine a b) = a.
Proof. induction a as [|x a IH]; intros [|y b] L; simpl in *; try discriminate; [reflexivity|]. rewrite IH; [reflexivity|lia]. Qed.

Lemma nth_error_combine {A B} : forall (a : list A) (b : list B) n x y,
  nth_error a n = Some x -> nth_error b n = Some y -> nth_error (combine a b) n = Some (x, y).
Proof.
  induction a as [|x0 a IH]; intros [|y0 b] [|n] x y Ha Hb; simpl in *; try discriminate.
  - inversion Ha; inversion Hb; subst. reflexivity.
  - exact (IH b n x y Ha Hb).
Qed.

Lemma nodupN_NoDup l : nodupN l = true -> NoDup l.
Proof.
  induction l as [|x l IH]; simpl; intros H; constructor; apply andb_prop in H; destruct H as [H1 H2].
  - intros Hin. assert (memN x l = true); [|rewrite H in H1; discriminate].
    unfold memN. apply existsb_exists. exists x. split; [exact Hin|apply N.eqb_refl].
  - exact (IH H2).
Qed.

(* the whole script, run inside Coq on the text of gc.prt with sugar.data.CODES, yields the object of gc.json:
   same keys in the same order, and under every key the table of gc.json *)
Lemma convert_whole : exists gcs, convert CODES prt_text = inr gcs /\ map fst gcs = json_ids /\
  forall n t aa sc, nth_error all_tables n = Some t -> nth_error all_lines n = Some (aa, sc) ->
    exists g, nth_error gcs n = Some (t_key t, g) /\ gc_json_eqb g t aa sc = true.
Proof.
  pose proof emitted_ids_ok as I. unfold emitted_ids_check in I.
  destruct (emitted (lines_of prt_text []) st0) as [x|es] eqn:Ee; [discriminate|].
  apply andb_prop in I. destruct I as [I1 I2]. apply listN_eqb_eq in I1. apply nodupN_NoDup in I2.
  destruct ids_spec as (_ & _ & _ & Hk).
  assert (Lt : length all_tables = length es).
  { rewrite <- (map_length t_key all_tables), Hk, <- I1, map_length. reflexivity. }
  pose proof all_lines_len as Ll.
  (* every emitted entry is the n-th table's entry *)
  assert (Hpos : forall n en, nth_error es n = Some en ->
            exists t aa sc g, nth_error all_tables n = Some t /\ nth_error all_lines n = Some (aa, sc) /\
              e_id en = t_key t /\ generate_gc CODES en = inr g /\ gc_json_eqb g t aa sc = true).
  { intros n en Hn. assert (Hlt : (n < length es)%nat) by (apply nth_error_Some; congruence).
    destruct (nth_error all_tables n) as [t|] eqn:Et; [|apply nth_error_None in Et; lia].
    destruct (nth_error all_lines n) as [[aa sc]|] eqn:El; [|apply nth_error_None in El; lia].
    destruct (convert_tables n t aa sc Et El) as (es' & en' & g & E1 & _ & E3 & E4 & E5 & E6).
    rewrite Ee in E1. inversion E1; subst es'. rewrite Hn in E3. inversion E3; subst en'.
    exists t, aa, sc, g. repeat split; assumption. }
  destruct (mapM_total (generate_gc CODES) es) as (vs & Ev).
  { intros n en Hn. destruct (Hpos n en Hn) as (t & aa & sc & g & _ & _ & _ & Hg & _). exists g. exact Hg. }
  destruct (mapM_nth _ _ _ Ev) as [Lv Nv].
  exists (combine (map e_id es) vs). split; [|split].
  - unfold convert. rewrite (convert_with_emitted (generate_gc CODES) _ _ [] es vs Ee Ev).
    rewrite fold_store_fresh; [reflexivity|lia|rewrite I1; exact I2|intros e _ []].
  - rewrite map_fst_combine; [exact I1|rewrite map_length; lia].
  - intros n t aa sc Et El.
    assert (Hlt : (n < length es)%nat) by (rewrite <- Lt; apply nth_error_Some; congruence).
    destruct (nth_error es n) as [en|] eqn:En; [|apply nth_error_None in En; lia].
    destruct (Hpos n en En) as (t' & aa' & sc' & g & Et' & El' & Hid & Hg & Hj).
    rewrite Et in Et'. inversion Et'; subst t'. rewrite El in El'. inversion El'; subst aa' sc'.
    destruct (Nv n en En) as (v & Hv & Hgv). rewrite Hg in Hgv. inversion Hgv; subst v.
    exists g. split; [|exact Hj]. rewrite <- Hid.
    apply nth_error_combine; [|exact Hv]. rewrite (map_nth_error e_id n es En). reflexivity.
Qed.
