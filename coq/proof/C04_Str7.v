(* C04, round 7: characterisations of the remaining .str methods (removeprefix / removesuffix, split / rsplit,
   splitlines, isalpha / isascii, maketrans + translate) and gap-aware subscripts with any step. *)
From Coq Require Import List ZArith NArith Bool Lia ZifyBool.
From Coq.Strings Require Import Byte.
Import ListNotations.
From SV Require Import Text C04_PySlice C04_Model C04_Lemmas C04_Str.
Local Open Scope Z_scope.

(* ---- removeprefix / removesuffix ---- *)
Lemma removeprefix_spec s p :
  (forall t, s = p ++ t -> py_removeprefix s p = t) /\
  (prefixb p s = false -> py_removeprefix s p = s) /\
  (exists t, s = (if prefixb p s then p else []) ++ t /\ py_removeprefix s p = t).
Proof.
  unfold py_removeprefix. repeat split.
  - intros t ->. destruct (prefixb p (p ++ t)) eqn:E.
    + rewrite skipn_app, skipn_all, Nat.sub_diag. reflexivity.
    + assert (H : prefixb p (p ++ t) = true) by (apply prefixb_iff; exists t; reflexivity). congruence.
  - intros ->. reflexivity.
  - destruct (prefixb p s) eqn:E.
    + apply prefixb_iff in E. destruct E as (t & ->). exists t. split; [reflexivity|].
      rewrite skipn_app, skipn_all, Nat.sub_diag. reflexivity.
    + exists s. split; reflexivity.
Qed.
Lemma removesuffix_spec s p :
  (forall t, s = t ++ p -> py_removesuffix s p = t) /\
  (prefixb (rev p) (rev s) = false -> py_removesuffix s p = s) /\
  (exists t, s = t ++ (if prefixb (rev p) (rev s) then p else []) /\ py_removesuffix s p = t).
Proof.
  unfold py_removesuffix.
  assert (Hcut : forall t, firstn (length (t ++ p) - length p) (t ++ p) = t).
  { intros t. rewrite app_length. replace (length t + length p - length p)%nat with (length t) by lia.
    rewrite firstn_app, Nat.sub_diag, firstn_all. cbn [firstn]. apply app_nil_r. }
  repeat split.
  - intros t ->. destruct (prefixb (rev p) (rev (t ++ p))) eqn:E; [apply Hcut|].
    assert (H : prefixb (rev p) (rev (t ++ p)) = true) by (apply suffix_iff; exists t; reflexivity). congruence.
  - intros ->. reflexivity.
  - destruct (prefixb (rev p) (rev s)) eqn:E.
    + apply suffix_iff in E. destruct E as (t & ->). exists t. split; [reflexivity|apply Hcut].
    + exists s. split; [rewrite app_nil_r|]; reflexivity.
Qed.

(* ---- isalpha / isascii ---- *)
Lemma isalpha_spec s :
  (py_isalpha s = true <-> s <> [] /\ forall c, In c s -> is_alpha c = true) /\
  (py_isascii s = true <-> forall c, In c s -> is_ascii c = true) /\
  (py_isalpha s = true -> py_isascii s = true /\ (py_isupper s = true <-> py_upper s = s) /\ (py_islower s = true <-> py_lower s = s)).
Proof.
  assert (Ha : py_isalpha s = true <-> s <> [] /\ forall c, In c s -> is_alpha c = true).
  { unfold py_isalpha. rewrite andb_true_iff, forallb_forall. destruct s; cbn [length Nat.eqb negb]; split; intros [H1 H2];
      (split; [congruence || discriminate || reflexivity|exact H2]). }
  split; [exact Ha|]. split; [unfold py_isascii; apply forallb_forall|].
  intros H. apply Ha in H. destruct H as [Hne Hall]. split; [|split].
  - unfold py_isascii. apply forallb_forall. intros c Hc. specialize (Hall c Hc). revert Hall. clear.
    destruct c; vm_compute; congruence.
  - split; [apply py_isupper_fix|]. intros Hfix. unfold py_isupper. apply andb_true_iff. split.
    + rewrite <- Hfix. apply py_upper_no_lower.
    + destruct s as [|c r]; [congruence|]. cbn [existsb]. apply orb_true_iff. left.
      assert (Hc : ascii_upper c = c) by (unfold py_upper in Hfix; cbn [map] in Hfix; inversion Hfix as [[H1 H2]]; rewrite H1; exact H1).
      specialize (Hall c (or_introl eq_refl)). revert Hall Hc. clear. destruct c; vm_compute; congruence.
  - split; [apply py_islower_fix|]. intros Hfix. unfold py_islower. apply andb_true_iff. split.
    + rewrite <- Hfix. apply py_lower_no_upper.
    + destruct s as [|c r]; [congruence|]. cbn [existsb]. apply orb_true_iff. left.
      assert (Hc : ascii_lower c = c) by (unfold py_lower in Hfix; cbn [map] in Hfix; inversion Hfix as [[H1 H2]]; rewrite H1; exact H1).
      specialize (Hall c (or_introl eq_refl)). revert Hall Hc. clear. destruct c; vm_compute; congruence.
Qed.

(* ---- join / cons_head ---- *)
Lemma join_cons sep x l : l <> [] -> join sep (x :: l) = x ++ sep ++ join sep l.
Proof. destruct l; [congruence|reflexivity]. Qed.
Lemma join_cons_head sep c l : l <> [] -> join sep (cons_head c l) = c :: join sep l.
Proof. destruct l as [|h t]; [congruence|]. intros _. cbn [cons_head]. destruct t; reflexivity. Qed.
Lemma cons_head_ne c l : cons_head c l <> [].
Proof. destruct l; discriminate. Qed.
Lemma concat_cons_head c l : concat (cons_head c l) = c :: concat l.
Proof. destruct l; reflexivity. Qed.
Lemma join_snoc sep : forall l x, l <> [] -> join sep (l ++ [x]) = join sep l ++ sep ++ x.
Proof.
  induction l as [|y l IH]; intros x Hne; [congruence|].
  destruct l as [|z l]; [reflexivity|].
  change ((y :: z :: l) ++ [x]) with (y :: ((z :: l) ++ [x])).
  rewrite join_cons by (destruct l; discriminate). rewrite IH by discriminate.
  rewrite (join_cons sep y (z :: l)) by discriminate. rewrite <- !app_assoc. reflexivity.
Qed.
Lemma join_rev sep : forall l, join sep (rev (map (@rev byte) l)) = rev (join (rev sep) l).
Proof.
  induction l as [|x l IH]; [reflexivity|].
  cbn [map rev]. destruct l as [|y l]; [reflexivity|].
  rewrite join_snoc.
  - rewrite IH. change (join (rev sep) (x :: y :: l)) with (x ++ rev sep ++ join (rev sep) (y :: l)).
    rewrite !rev_app_distr, rev_involutive, <- app_assoc. reflexivity.
  - cbn [map rev]. intros H. apply app_eq_nil in H. destruct H as [_ H]. discriminate.
Qed.

(* ---- split(sep, maxsplit) ---- *)
Lemma split_sep_ne sep : forall w skip lim, split_sep_go sep w skip lim <> [].
Proof.
  induction w as [|c r IH]; intros skip lim; cbn [split_sep_go]; [discriminate|].
  destruct skip; [|apply IH]. destruct lim as [[|n]|]; try discriminate; (destruct (prefixb sep (c :: r)); [discriminate|apply cons_head_ne]).
Qed.
Lemma split_sep_skip sep : forall w skip lim, split_sep_go sep w skip lim = split_sep_go sep (skipn skip w) O lim.
Proof.
  induction w as [|c r IH]; intros skip lim.
  - destruct skip; reflexivity.
  - destruct skip as [|k]; [reflexivity|]. cbn [split_sep_go skipn]. apply IH.
Qed.
Lemma split_sep_join sep : sep <> [] -> forall n w lim, (length w <= n)%nat -> join sep (split_sep_go sep w O lim) = w.
Proof.
  intros Hsep. induction n as [|n IH]; intros w lim Hn.
  - destruct w; [reflexivity|cbn in Hn; lia].
  - destruct w as [|c r]; [reflexivity|]. cbn [split_sep_go].
    assert (Hgo : (if prefixb sep (c :: r)
                   then [] :: split_sep_go sep r (length sep - 1) (option_map pred lim)
                   else cons_head c (split_sep_go sep r O lim)) <> [] /\
                  join sep (if prefixb sep (c :: r)
                   then [] :: split_sep_go sep r (length sep - 1) (option_map pred lim)
                   else cons_head c (split_sep_go sep r O lim)) = c :: r).
    { destruct (prefixb sep (c :: r)) eqn:E.
      - split; [discriminate|]. apply prefixb_iff in E. destruct E as (t & Ht).
        destruct sep as [|c' sep']; [congruence|]. cbn [app] in Ht. inversion Ht; subst c' r.
        rewrite split_sep_skip. cbn [length]. replace (S (length sep') - 1)%nat with (length sep') by lia.
        rewrite skipn_app, skipn_all, Nat.sub_diag. cbn [skipn app].
        rewrite join_cons by apply split_sep_ne. rewrite IH.
        + reflexivity.
        + cbn [length] in Hn. rewrite app_length in Hn. lia.
      - split; [apply cons_head_ne|]. rewrite join_cons_head by apply split_sep_ne. rewrite IH; [reflexivity|cbn in Hn; lia]. }
    destruct lim as [[|k]|]; [reflexivity|exact (proj2 Hgo)|exact (proj2 Hgo)].
Qed.
(* no more than maxsplit cuts *)
Lemma split_sep_count sep : forall w skip k, (length (split_sep_go sep w skip (Some k)) <= S k)%nat.
Proof.
  induction w as [|c r IH]; intros skip k; cbn [split_sep_go]; [cbn; lia|].
  destruct skip; [|apply IH]. destruct k as [|k]; [cbn; lia|].
  destruct (prefixb sep (c :: r)).
  - cbn [length option_map pred]. specialize (IH (length sep - 1)%nat k). lia.
  - specialize (IH O (S k)). destruct (split_sep_go sep r 0 (Some (S k))); cbn [cons_head length] in *; lia.
Qed.
Lemma py_split_sep_spec s sep ms : sep <> [] ->
  exists l, py_split s (Some sep) ms = Ok l /\ join sep l = s /\ l <> [] /\
            (forall k, lim_of ms = Some k -> (length l <= S k)%nat).
Proof.
  intros Hsep. unfold py_split. destruct sep as [|c sp]; [congruence|].
  eexists. split; [reflexivity|]. split; [apply (split_sep_join _ Hsep (length s)); lia|].
  split; [apply split_sep_ne|]. intros k ->. apply split_sep_count.
Qed.
Lemma py_rsplit_sep_spec s sep ms : sep <> [] ->
  exists l, py_rsplit s (Some sep) ms = Ok l /\ join sep l = s /\ l <> [] /\
            (forall k, lim_of ms = Some k -> (length l <= S k)%nat).
Proof.
  intros Hsep. unfold py_rsplit. cbn [option_map].
  assert (Hr : rev sep <> []) by (intros H; apply Hsep; rewrite <- (rev_involutive sep), H; reflexivity).
  destruct (py_split_sep_spec (rev s) (rev sep) ms Hr) as (l & -> & Hj & Hne & Hk).
  eexists. split; [reflexivity|]. split; [|split].
  - rewrite join_rev, Hj. apply rev_involutive.
  - intros H. apply Hne. destruct l; [reflexivity|]. cbn [map rev] in H. apply app_eq_nil in H. destruct H as [_ H]; discriminate.
  - intros k Hlim. rewrite rev_length, map_length. apply Hk. exact Hlim.
Qed.
Lemma py_split_empty_sep s ms : py_split s (Some []) ms = Err ValueError /\ py_rsplit s (Some []) ms = Err ValueError.
Proof. split; reflexivity. Qed.

(* ---- split() on white space ---- *)
Lemma split_ws_concat : forall w b, concat (split_ws_go w b None) = filter nonws w.
Proof.
  induction w as [|c r IH]; intros b; cbn [split_ws_go filter].
  - destruct b; reflexivity.
  - unfold nonws at 1. destruct b; destruct (is_ws c); cbn [negb option_map];
      rewrite ?concat_cons_head; cbn [concat app]; rewrite ?IH; reflexivity.
Qed.
Lemma Forall_cons_head (P : str -> Prop) c l : (forall h, P h -> P (c :: h)) -> P [c] -> Forall P l -> Forall P (cons_head c l).
Proof. intros H1 H2 H. destruct l as [|h t]; cbn [cons_head]; [repeat constructor; exact H2|]. inversion H; subst. constructor; auto. Qed.
Lemma split_ws_pieces : forall w b, Forall (fun p => forallb nonws p = true) (split_ws_go w b None).
Proof.
  induction w as [|c r IH]; intros b; cbn [split_ws_go].
  - destruct b; repeat constructor.
  - destruct b; destruct (is_ws c) eqn:E; cbn [option_map]; try (constructor; [reflexivity|]); try apply IH;
      (apply Forall_cons_head; [intros h Hh; cbn [forallb]; unfold nonws at 1; rewrite E; exact Hh|cbn; unfold nonws; rewrite E; reflexivity|apply IH]).
Qed.
(* outside a word every piece is non-empty; inside a word every piece but the current one *)
Lemma split_ws_nonempty : forall (w : str) (b : bool),
  Forall (fun p : str => p <> []) (if b then tl (split_ws_go w b None) else split_ws_go w b None) /\
  (b = true -> split_ws_go w b None <> []).
Proof.
  induction w as [|c r IH]; intros b; cbn [split_ws_go].
  - destruct b; split; try constructor; try discriminate.
  - destruct b; destruct (is_ws c) eqn:E; cbn [option_map tl].
    + split; [apply (IH false)|discriminate].
    + destruct (IH true) as [H1 H2]. specialize (H2 eq_refl).
      destruct (split_ws_go r true None) as [|h t]; [congruence|]. cbn [cons_head tl] in *. split; [exact H1|discriminate].
    + split; [apply (IH false)|discriminate].
    + destruct (IH true) as [H1 H2]. specialize (H2 eq_refl).
      destruct (split_ws_go r true None) as [|h t]; [congruence|]. cbn [cons_head tl] in *. split; [|discriminate].
      constructor; [discriminate|exact H1].
Qed.
Lemma py_split_ws_spec s :
  exists l, py_split s None None = Ok l /\ concat l = filter nonws s /\
            Forall (fun p => p <> [] /\ forallb nonws p = true) l.
Proof.
  unfold py_split. cbn [lim_of]. eexists. split; [reflexivity|]. split; [apply split_ws_concat|].
  pose proof (split_ws_pieces s false) as H1. destruct (split_ws_nonempty s false) as [H2 _]. cbn in H2.
  rewrite Forall_forall in *. intros p Hp. split; [apply H2|apply H1]; exact Hp.
Qed.

(* ---- splitlines ---- *)
Lemma splitlines_keep_concat : forall n w b, (length w <= n)%nat -> concat (splitlines_go w true b) = w.
Proof.
  induction n as [|n IH]; intros w b Hn.
  - destruct w; [destruct b; reflexivity|cbn in Hn; lia].
  - destruct w as [|c r]; [destruct b; reflexivity|]. cbn [splitlines_go]. cbn [length] in Hn.
    destruct (is_linebreak c).
    + destruct r as [|d r'].
      * reflexivity.
      * destruct (byte_eqb c x0d && byte_eqb d x0a); cbn [concat app]; rewrite IH by (cbn [length] in *; lia); reflexivity.
    + rewrite concat_cons_head, IH by lia. reflexivity.
Qed.
Lemma splitlines_nokeep_pieces : forall n w b, (length w <= n)%nat ->
  Forall (fun p => forallb nonlb p = true) (splitlines_go w false b) /\
  concat (splitlines_go w false b) = filter nonlb w.
Proof.
  induction n as [|n IH]; intros w b Hn.
  - destruct w; [destruct b; split; repeat constructor|cbn in Hn; lia].
  - destruct w as [|c r]; [destruct b; split; repeat constructor|]. cbn [splitlines_go filter]. cbn [length] in Hn.
    unfold nonlb at 2. destruct (is_linebreak c) eqn:E; cbn [negb].
    + destruct r as [|d r'].
      * split; repeat constructor.
      * destruct (byte_eqb c x0d && byte_eqb d x0a) eqn:E2.
        -- apply andb_prop in E2. destruct E2 as [_ E2]. apply byte_eqb_eq in E2. subst d.
           destruct (IH r' false) as [H1 H2]; [cbn [length] in *; lia|]. split; [constructor; [reflexivity|exact H1]|].
           cbn [concat app filter]. replace (nonlb x0a) with false by reflexivity. exact H2.
        -- destruct (IH (d :: r') false) as [H1 H2]; [cbn [length] in *; lia|]. split; [constructor; [reflexivity|exact H1]|].
           cbn [concat app]. exact H2.
    + destruct (IH r true) as [H1 H2]; [lia|]. split.
      * apply Forall_cons_head; [intros h Hh; cbn [forallb]; unfold nonlb at 1; rewrite E; exact Hh|cbn; unfold nonlb; rewrite E; reflexivity|exact H1].
      * rewrite concat_cons_head, H2. reflexivity.
Qed.
Lemma py_splitlines_spec s :
  concat (py_splitlines s true) = s /\
  Forall (fun p => forallb nonlb p = true) (py_splitlines s false) /\
  concat (py_splitlines s false) = filter nonlb s.
Proof.
  unfold py_splitlines. split; [apply (splitlines_keep_concat (length s)); lia|].
  apply (splitlines_nokeep_pieces (length s)); lia.
Qed.

(* ---- maketrans + translate ---- *)
Lemma translate_tbl_app t a b : translate_tbl (a ++ b) t = translate_tbl a t ++ translate_tbl b t.
Proof. unfold translate_tbl. apply flat_map_app. Qed.
Lemma lookup_tbl_app c : forall m1 m2, (forall p, In p m1 -> fst p <> c) -> lookup_tbl c (m1 ++ m2) = lookup_tbl c m2.
Proof.
  induction m1 as [|[a b] m1 IH]; intros m2 H; [reflexivity|]. cbn [app lookup_tbl].
  destruct (byte_eqb a c) eqn:E.
  - apply byte_eqb_eq in E. exfalso. apply (H (a, b)); [left; reflexivity|exact E].
  - apply IH. intros p Hp. apply H. right. exact Hp.
Qed.
Lemma lookup_tbl_absent c : forall m, (forall p, In p m -> fst p <> c) -> lookup_tbl c m = None.
Proof. intros m H. rewrite <- (app_nil_r m). rewrite lookup_tbl_app by exact H. reflexivity. Qed.
Lemma byte_eqb_refl c : byte_eqb c c = true.
Proof. apply byte_eqb_eq. reflexivity. Qed.
Lemma in_combine_fst {A B} (x : A) (y : B) l1 l2 : In (x, y) (combine l1 l2) -> In x l1.
Proof. apply in_combine_l. Qed.
Lemma combine_app2 {A B} : forall (l1 : list A) (m1 : list B) l2 m2, length l1 = length m1 ->
  combine (l1 ++ l2) (m1 ++ m2) = combine l1 m1 ++ combine l2 m2.
Proof.
  induction l1 as [|a l1 IH]; intros [|b m1] l2 m2 H; cbn in H; try discriminate; [reflexivity|].
  cbn [app combine]. rewrite IH by lia. reflexivity.
Qed.
Lemma maketrans_spec x y z :
  (length x <> length y -> py_maketrans x y z = Err ValueError) /\
  (length x = length y -> exists t, py_maketrans x y z = Ok t /\
     (* characters of z are deleted *)
     (forall c, In c z -> translate_tbl [c] t = []) /\
     (* characters in neither x nor z are kept *)
     (forall c, ~ In c z -> ~ In c x -> translate_tbl [c] t = [c]) /\
     (* the LAST occurrence of a character in x decides *)
     (forall c b x1 x2 y1 y2, ~ In c z -> x = x1 ++ c :: x2 -> y = y1 ++ b :: y2 -> length x1 = length y1 -> ~ In c x2 ->
        translate_tbl [c] t = [b])).
Proof.
  unfold py_maketrans. split.
  - intros H. apply Nat.eqb_neq in H. rewrite H. reflexivity.
  - intros H. rewrite H, Nat.eqb_refl. eexists. split; [reflexivity|]. repeat split.
    + intros c Hc. unfold translate_tbl. cbn [flat_map]. rewrite app_nil_r.
      assert (Hl : forall m, lookup_tbl c (map (fun c0 => (c0, @None byte)) z ++ m) = Some None).
      { clear H. induction z as [|a z IH]; [destruct Hc|]. intros m. cbn [map app lookup_tbl].
        destruct (byte_eqb a c) eqn:E; [reflexivity|]. apply IH. destruct Hc as [->|Hc]; [rewrite byte_eqb_refl in E; discriminate|exact Hc]. }
      rewrite Hl. reflexivity.
    + intros c Hz Hx. unfold translate_tbl. cbn [flat_map]. rewrite app_nil_r. rewrite lookup_tbl_absent; [reflexivity|].
      intros [a b] Hp. cbn [fst]. intros ->. apply in_app_or in Hp. destruct Hp as [Hp|Hp].
      * apply in_map_iff in Hp. destruct Hp as (c' & Hc' & Hin). inversion Hc'; subst. exact (Hz Hin).
      * apply in_rev in Hp. apply in_combine_fst in Hp. exact (Hx Hp).
    + intros c b x1 x2 y1 y2 Hz -> -> Hlen Hx2. unfold translate_tbl. cbn [flat_map]. rewrite app_nil_r.
      rewrite lookup_tbl_app.
      2: { intros [a o] Hp. cbn [fst]. intros ->. apply in_map_iff in Hp. destruct Hp as (c' & Hc' & Hin). inversion Hc'; subst. exact (Hz Hin). }
      rewrite map_app. cbn [map]. rewrite combine_app2 by (rewrite map_length; exact Hlen). cbn [combine].
      rewrite rev_app_distr. cbn [rev]. rewrite <- app_assoc. rewrite lookup_tbl_app.
      2: { intros [a o] Hp. cbn [fst]. intros ->. apply in_rev in Hp. apply in_combine_fst in Hp. exact (Hx2 Hp). }
      cbn [app lookup_tbl]. rewrite byte_eqb_refl. reflexivity.
Qed.

(* ---- tuple arguments of startswith / endswith ---- *)
Lemma tailmatch_any_spec s ps a b :
  (py_startswith_any s ps a b = true <-> exists p, In p ps /\ py_startswith s p a b = true) /\
  (py_endswith_any s ps a b = true <-> exists p, In p ps /\ py_endswith s p a b = true).
Proof. unfold py_startswith_any, py_endswith_any. split; apply existsb_exists. Qed.

(* ---- gap-aware subscripts with any step, as the code is ---- *)
Lemma gap_any_step_as_is g s sl :
  seq_getitem (Some g) s (ISlice sl) =
  match getslice (data s) (mkslice (adj (nogaps g (data s)) (Z.of_nat (length (data s))) (sl_start sl))
                                   (adj (nogaps g (data s)) (Z.of_nat (length (data s))) (sl_stop sl)) (sl_step sl)) with
  | Ok d => Ok (mkseq (py_upper d) (sid s))
  | Err e => Err e
  end.
Proof. unfold seq_getitem, adjust_index, pyget. destruct (getslice _ _); reflexivity. Qed.
Lemma adj_cases ng len i :
  adj ng len None = None /\
  (0 <= i < Z.of_nat (length ng) -> adj ng len (Some i) = Some (nth (Z.to_nat i) ng len)) /\
  (Z.of_nat (length ng) <= i -> adj ng len (Some i) = Some len) /\
  (- Z.of_nat (length ng) <= i < 0 -> adj ng len (Some i) = Some (nth (Z.to_nat (i + Z.of_nat (length ng))) ng len)) /\
  (i < - Z.of_nat (length ng) -> adj ng len (Some i) = Some (nth O ng len)).
Proof.
  unfold adj. repeat split; intros H.
  - destruct (i <? 0) eqn:E; [lia|]. destruct (i <? Z.of_nat (length ng)) eqn:E2; [reflexivity|lia].
  - destruct (i <? 0) eqn:E; [lia|]. destruct (i <? Z.of_nat (length ng)) eqn:E2; [lia|reflexivity].
  - destruct (i <? 0) eqn:E; [|lia]. replace (Z.max (i + Z.of_nat (length ng)) 0) with (i + Z.of_nat (length ng)) by lia.
    destruct (i + Z.of_nat (length ng) <? Z.of_nat (length ng)) eqn:E2; [reflexivity|lia].
  - destruct (i <? 0) eqn:E; [|lia]. replace (Z.max (i + Z.of_nat (length ng)) 0) with 0 by lia.
    destruct (0 <? Z.of_nat (length ng)) eqn:E2; [reflexivity|].
    destruct ng; [reflexivity|cbn [length] in E2; lia].
Qed.
Lemma filter_rev {A} (f : A -> bool) : forall l, filter f (rev l) = rev (filter f l).
Proof.
  induction l as [|x l IH]; [reflexivity|]. cbn [rev filter]. rewrite filter_app, IH. cbn [filter].
  destruct (f x); [reflexivity|apply app_nil_r].
Qed.
(* the whole sequence reversed: survives (after removing the gaps again) *)
Lemma gap_reverse_whole g s :
  seq_getitem (Some g) s (ISlice (mkslice None None (Some (-1)))) = Ok (mkseq (py_upper (rev (data s))) (sid s)) /\
  degap g (rev (data s)) = rev (degap g (data s)) /\
  pyget (degap g (data s)) (ISlice (mkslice None None (Some (-1)))) = Ok (degap g (rev (data s))).
Proof.
  split; [|split].
  - rewrite gap_any_step_as_is. cbn [sl_start sl_stop sl_step adj]. rewrite getslice_reverse. reflexivity.
  - apply filter_rev.
  - cbn [pyget]. rewrite getslice_reverse. unfold degap. rewrite filter_rev. reflexivity.
Qed.
(* ... but not in general: REFUTED for a step of 2 (the step counts columns, gaps included) and for a negative step
   with a stop below -len (adj clamps it to the first residue, which a negative step then excludes) even without gaps *)
Lemma gap_step_refuted :
  ~ gap_slice_same_residues (bs "-"%bs) (mkseq (bs "A-CG"%bs) (bs "x"%bs)) (mkslice None None (Some 2)) /\
  ~ gap_slice_same_residues (bs "-"%bs) (mkseq (bs "ACG"%bs) (bs "x"%bs)) (mkslice None (Some (-100)) (Some (-1))).
Proof.
  repeat split; intros (r & H1 & H2); vm_compute in H1; inversion H1; subst r; vm_compute in H2; discriminate.
Qed.

(* ---- gap-aware subscript of a sequence WITHOUT gap characters: for every step > 0 it is the plain subscript ---- *)
Lemma nogaps_from_gapfree g : forall d off, (forall c, In c d -> in_gap g c = false) ->
  length (nogaps_from g off d) = length d /\
  forall k dflt, (k < length d)%nat -> nth k (nogaps_from g off d) dflt = off + Z.of_nat k.
Proof.
  induction d as [|c d IH]; intros off H; cbn [nogaps_from length].
  - split; [reflexivity|]. intros k dflt Hk. lia.
  - rewrite (H c (or_introl eq_refl)). destruct (IH (off + 1) (fun x Hx => H x (or_intror Hx))) as [H1 H2].
    cbn [length]. split; [rewrite H1; reflexivity|]. intros k dflt Hk. destruct k as [|k]; cbn [nth]; [lia|].
    rewrite H2 by lia. lia.
Qed.
Lemma adj_gapfree g d i : (forall c, In c d -> in_gap g c = false) ->
  adj (nogaps g d) (Z.of_nat (length d)) (Some i) = Some (norm (Z.of_nat (length d)) i).
Proof.
  intros H. destruct (nogaps_from_gapfree g d 0 H) as [Hlen Hnth]. unfold adj, nogaps, norm. rewrite Hlen.
  set (n := Z.of_nat (length d)). f_equal.
  destruct (i <? 0) eqn:E1.
  - destruct (Z.max (i + n) 0 <? n) eqn:E2.
    + rewrite Hnth by lia. lia.
    + lia.
  - destruct (i <? n) eqn:E2.
    + rewrite Hnth by lia. lia.
    + lia.
Qed.
Lemma adj_bound_norm len step i : 0 <= len -> 0 < step ->
  adj_bound len step (norm len i) = adj_bound len step i.
Proof.
  intros Hl Hs. unfold adj_bound, norm.
  repeat match goal with |- context [if ?b then _ else _] => destruct b eqn:? end; lia.
Qed.
Lemma gap_free_positive_step g s sl : (forall c, In c (data s) -> in_gap g c = false) ->
  match sl_step sl with None => True | Some k => 0 < k end ->
  seq_getitem (Some g) s (ISlice sl) = seq_getitem None s (ISlice sl).
Proof.
  intros Hfree Hstep. unfold seq_getitem, adjust_index. cbn [pyget].
  set (n := Z.of_nat (length (data s))).
  assert (Hsi : slice_indices n (mkslice (adj (nogaps g (data s)) n (sl_start sl)) (adj (nogaps g (data s)) n (sl_stop sl)) (sl_step sl))
                = slice_indices n sl).
  { unfold slice_indices. cbn [sl_start sl_stop sl_step].
    set (step := match sl_step sl with Some k => k | None => 1 end).
    assert (Hpos : 0 < step) by (unfold step; destruct (sl_step sl); [exact Hstep|lia]).
    destruct (step =? 0); [reflexivity|].
    assert (Hn : 0 <= n) by (unfold n; lia).
    assert (Hb : forall o dflt, match adj (nogaps g (data s)) n o with None => dflt | Some i => adj_bound n step i end
                              = match o with None => dflt | Some i => adj_bound n step i end).
    { intros [i|] dflt; [|reflexivity]. unfold n. rewrite adj_gapfree by exact Hfree. apply adj_bound_norm; assumption. }
    rewrite !Hb. reflexivity. }
  unfold getslice. fold n. rewrite Hsi. reflexivity.
Qed.

(* ---- subscripts commute with element-wise maps: the slice of a sequence holding lower case is the slice of the
   upper-cased residue string ---- *)
Lemma take_step_map {A B} (f : A -> B) : forall n cur step l, take_step n cur step (map f l) = map f (take_step n cur step l).
Proof.
  induction n as [|n IH]; intros cur step l; cbn [take_step]; [reflexivity|].
  rewrite nth_error_map. destruct (nth_error l (Z.to_nat cur)); cbn [option_map map]; [|reflexivity]. rewrite IH. reflexivity.
Qed.
Lemma getslice_map {A B} (f : A -> B) l s :
  getslice (map f l) s = match getslice l s with Ok r => Ok (map f r) | Err e => Err e end.
Proof.
  unfold getslice. rewrite map_length. destruct (slice_indices (Z.of_nat (length l)) s) as [[[[a b] c] n]|]; [|reflexivity].
  destruct (n <=? 0); [reflexivity|]. destruct (c =? 1).
  - rewrite skipn_map, firstn_map. reflexivity.
  - rewrite take_step_map. reflexivity.
Qed.
Lemma pyget_map {A B} (f : A -> B) l ix :
  pyget (map f l) ix = match pyget l ix with Ok r => Ok (map f r) | Err e => Err e end.
Proof.
  destruct ix as [i|s]; cbn [pyget]; [|apply getslice_map].
  unfold getitem. rewrite map_length, nth_error_map.
  destruct (_ || _); [reflexivity|]. destruct (nth_error l _); reflexivity.
Qed.
Lemma slice_lower_is_slice_of_upper s ix :
  seq_getitem None s ix = match pyget (py_upper (data s)) ix with Ok r => Ok (mkseq r (sid s)) | Err e => Err e end /\
  seq_getitem None s ix = seq_getitem None (new_seq (data s) (sid s)) ix.
Proof.
  assert (H : seq_getitem None s ix = match pyget (py_upper (data s)) ix with Ok r => Ok (mkseq r (sid s)) | Err e => Err e end).
  { unfold seq_getitem, adjust_index, py_upper. rewrite pyget_map. destruct (pyget (data s) ix); reflexivity. }
  split; [exact H|]. rewrite H. unfold seq_getitem, adjust_index, new_seq. cbn [data sid].
  destruct (pyget (py_upper (data s)) ix) as [r|e] eqn:E; [|reflexivity].
  f_equal. f_equal. symmetry. unfold py_upper in E. rewrite pyget_map in E. destruct (pyget (data s) ix); inversion E.
  apply py_upper_idem.
Qed.

(* ---- number of pieces of split(sep, maxsplit) = min(count(sep), maxsplit) + 1 ---- *)
Lemma cons_head_length c l : l <> [] -> length (cons_head c l) = length l.
Proof. destruct l; [congruence|reflexivity]. Qed.
Definition lim_min (cnt : nat) (lim : option nat) : nat := match lim with None => cnt | Some k => Nat.min cnt k end.
Lemma split_sep_length sep : forall w skip lim,
  length (split_sep_go sep w skip lim) = S (lim_min (count_in sep w skip) lim).
Proof.
  induction w as [|c r IH]; intros skip lim; cbn [split_sep_go count_in].
  - destruct lim; reflexivity.
  - destruct skip as [|k]; [|apply IH].
    destruct lim as [[|n]|].
    + cbn [lim_min length]. rewrite Nat.min_0_r. reflexivity.
    + destruct (prefixb sep (c :: r)).
      * cbn [length option_map pred]. rewrite IH. cbn [lim_min]. lia.
      * rewrite cons_head_length by apply split_sep_ne. apply IH.
    + destruct (prefixb sep (c :: r)).
      * cbn [length option_map]. rewrite IH. reflexivity.
      * rewrite cons_head_length by apply split_sep_ne. apply IH.
Qed.
Lemma py_split_count s sep ms : sep <> [] ->
  exists l, py_split s (Some sep) ms = Ok l /\
    Z.of_nat (length l) = match lim_of ms with
                          | None => py_count s sep None None + 1
                          | Some k => Z.min (py_count s sep None None) (Z.of_nat k) + 1
                          end.
Proof.
  intros Hsep. unfold py_split, py_count. rewrite window_full. destruct sep as [|c sp]; [congruence|].
  eexists. split; [reflexivity|]. rewrite split_sep_length. destruct (lim_of ms); cbn [lim_min]; lia.
Qed.

(* ---- rsplit() on white space: the mirror image ---- *)
Lemma concat_rev_map : forall l : list str, concat (rev (map (@rev byte) l)) = rev (concat l).
Proof.
  induction l as [|x l IH]; [reflexivity|]. cbn [map rev concat]. rewrite concat_app, IH. cbn [concat].
  rewrite app_nil_r, rev_app_distr. reflexivity.
Qed.
Lemma split_ws_spec0 (w : str) :
  concat (split_ws_go w false None) = filter nonws w /\
  Forall (fun p : str => p <> [] /\ forallb nonws p = true) (split_ws_go w false None).
Proof.
  split; [apply split_ws_concat|].
  pose proof (split_ws_pieces w false) as H1. destruct (split_ws_nonempty w false) as [H2 _]. cbn in H2.
  rewrite Forall_forall in *. intros p Hp. split; [apply H2|apply H1]; exact Hp.
Qed.
Lemma py_rsplit_ws_spec s :
  exists l, py_rsplit s None None = Ok l /\ concat l = filter nonws s /\
            Forall (fun p => p <> [] /\ forallb nonws p = true) l.
Proof.
  unfold py_rsplit, py_split, option_map. cbn [lim_of]. destruct (split_ws_spec0 (rev s)) as [Hc Hf].
  eexists. split; [reflexivity|]. split.
  - rewrite concat_rev_map, Hc, filter_rev, rev_involutive. reflexivity.
  - apply Forall_forall. intros p Hp. apply in_rev in Hp. apply in_map_iff in Hp. destruct Hp as (q & <- & Hq).
    rewrite Forall_forall in Hf. destruct (Hf q Hq) as [H1 H2]. split.
    + intros H. apply H1. rewrite <- (rev_involutive q), H. reflexivity.
    + rewrite forallb_rev. exact H2.
Qed.
