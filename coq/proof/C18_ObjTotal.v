(* C18 proofs, object model: copy() never leaves the modelled domain: on a heap without dangling references the fuelled DFS
   terminates within its fuel with a closed reachable set, so the graph copy of any existing object succeeds. *)
From Coq Require Import List ZArith NArith Bool Lia.
From Coq.Strings Require Import Byte.
Import ListNotations.
From SV Require Import Text G_attr G_codes C18_Model C18_Heap C18_Lemmas C18_HeapLemmas C18_HeapOps C18_Obj C18_ObjLemmas C18_ObjIso.

Fixpoint pot_aux (seen : list nat) (base : nat) (cells : list ocell) : nat :=
  match cells with
  | [] => 0
  | c :: r => (if memb base seen then 0 else S (length (ocell_refs c))) + pot_aux seen (S base) r
  end.
Lemma pot_aux_nil base cells : pot_aux [] base cells = length cells + fold_right (fun c a => length (ocell_refs c) + a) 0 cells.
Proof. revert base. induction cells as [|c r IH]; intros base; cbn; [reflexivity|]. rewrite IH. lia. Qed.
Lemma pot_aux_later l seen : forall cells base, l < base -> pot_aux (l :: seen) base cells = pot_aux seen base cells.
Proof.
  induction cells as [|c r IH]; intros base L; cbn [pot_aux]; [reflexivity|]. rewrite IH by lia.
  unfold memb. cbn [existsb]. replace (Nat.eqb base l) with false by (symmetry; apply Nat.eqb_neq; lia). reflexivity.
Qed.
Lemma pot_aux_step l seen c : memb l seen = false -> forall cells base, base <= l -> nth_error cells (l - base) = Some c ->
  pot_aux (l :: seen) base cells + S (length (ocell_refs c)) = pot_aux seen base cells.
Proof.
  intros M. induction cells as [|c0 r IH]; intros base L N; [destruct (l - base); discriminate|]. cbn [pot_aux].
  destruct (Nat.eq_dec base l) as [->|NE].
  - rewrite Nat.sub_diag in N. cbn in N. inversion N; subst. rewrite M. rewrite pot_aux_later by lia.
    unfold memb at 1. cbn [existsb]. rewrite Nat.eqb_refl. cbn. lia.
  - assert (l - base = S (l - S base)) as E by lia. rewrite E in N. cbn in N. specialize (IH (S base)). 
    unfold memb at 1. cbn [existsb]. replace (Nat.eqb base l) with false by (symmetry; apply Nat.eqb_neq; exact NE). cbn [orb].
    fold (memb base seen). rewrite <- (IH ltac:(lia) N). lia.
Qed.

Definition refs_lt (h : oheap) : Prop := forall l c, nth_error h l = Some c -> Forall (fun x => x < length h) (ocell_refs c).
Lemma oheap_ok_refs_lt h : oheap_ok h -> refs_lt h.
Proof.
  intros OK l c N. specialize (OK l c N). rewrite Forall_forall in *. intros x Hx. unfold ocell_refs in Hx. apply In_vrefs in Hx.
  apply (OK _ Hx).
Qed.

Lemma dfs_total h : refs_lt h -> forall fuel st seen, Forall (fun x => x < length h) st ->
  length st + pot_aux seen 0 h < fuel -> exists r, dfs fuel h st seen = Some r.
Proof.
  intros RL. induction fuel as [|fuel IH]; intros st seen St F; [lia|]. cbn [dfs].
  destruct st as [|l st]; [eauto|]. inversion St as [|? ? Hl St']; subst. cbn [length] in F.
  destruct (memb l seen) eqn:M; [apply IH; [exact St'|lia]|].
  destruct (nth_error h l) as [c|] eqn:N; [|apply nth_error_None in N; lia].
  apply IH.
  - apply Forall_app. split; [apply (RL l c N)|exact St'].
  - pose proof (pot_aux_step l seen c M h 0 (Nat.le_0_l l)) as P. rewrite Nat.sub_0_r in P. specialize (P N).
    rewrite app_length. lia.
Qed.

Lemma dfs_closed h : forall fuel st seen r, dfs fuel h st seen = Some r ->
  (forall a c x, In a seen -> nth_error h a = Some c -> In x (ocell_refs c) -> In x seen \/ In x st) ->
  (forall a c x, In a r -> nth_error h a = Some c -> In x (ocell_refs c) -> In x r) /\
  (forall a, In a seen -> In a r) /\ (forall a, In a st -> In a r).
Proof.
  induction fuel as [|fuel IH]; intros st seen r E Inv; cbn [dfs] in E; [discriminate|].
  destruct st as [|l st].
  - inversion E; subst. split; [|split; [auto|intros a []]]. intros a c x Ha N Hx. destruct (Inv a c x Ha N Hx) as [H|[]]. exact H.
  - destruct (memb l seen) eqn:M.
    + apply memb_In in M. destruct (IH st seen r E) as (A & B & C).
      * intros a c x Ha N Hx. destruct (Inv a c x Ha N Hx) as [H|[<-|H]]; auto.
      * split; [exact A|]. split; [exact B|]. intros a [<-|Ha]; auto.
    + destruct (nth_error h l) as [c|] eqn:N; [|discriminate]. destruct (IH (ocell_refs c ++ st) (l :: seen) r E) as (A & B & C).
      * intros a c0 x [<-|Ha] N0 Hx.
        -- rewrite N in N0. inversion N0; subst. right. apply in_or_app. left. exact Hx.
        -- destruct (Inv a c0 x Ha N0 Hx) as [H|[<-|H]]; [left; right; exact H|left; left; reflexivity|right; apply in_or_app; right; exact H].
      * split; [exact A|]. split; [intros a Ha; apply B; right; exact Ha|].
        intros a [<-|Ha]; [apply B; left; reflexivity|apply C; apply in_or_app; right; exact Ha].
Qed.

Lemma mapM_total {A B} (f : A -> option B) l : (forall x, In x l -> exists y, f x = Some y) -> exists ys, mapM f l = Some ys.
Proof.
  induction l as [|x r IH]; intros H; cbn; [eauto|]. destruct (H x (or_introl eq_refl)) as [y ->].
  destruct IH as [ys ->]; [intros z Hz; apply H; right; exact Hz|]. eauto.
Qed.
Lemma rename_total R n v : (forall a, v = HRef a -> In a R) -> exists v', rename R n v = Some v'.
Proof.
  intros H. destruct v; cbn; eauto. destruct (index_of_In R l (H l eq_refl)) as [i ->]. cbn. eauto.
Qed.
Lemma rename_cell_total R n c : (forall a, In a (ocell_refs c) -> In a R) -> exists c', rename_cell R n c = Some c'.
Proof.
  intros H. unfold rename_cell.
  destruct (mapM_total (fun kv : str * hval => option_map (pair (fst kv)) (rename R n (snd kv))) (ofs c)) as [fs ->].
  { intros [k v] Hkv. destruct (rename_total R n v) as [v' E].
    - intros a ->. apply H. unfold ocell_refs, ocell_vals. apply In_vrefs. apply in_or_app. left.
      change (HRef a) with (snd (k, HRef a)). apply in_map. exact Hkv.
    - cbn. rewrite E. cbn. eauto. }
  destruct (mapM_total (rename R n) (oes c)) as [es ->]; [|eauto].
  intros v Hv. apply rename_total. intros a ->. apply H. unfold ocell_refs, ocell_vals. apply In_vrefs. apply in_or_app. right. exact Hv.
Qed.

Theorem graph_copy_total h l : oheap_ok h -> l < length h -> exists h' l', graph_copy h l = Some (h', l').
Proof.
  intros OK L. pose proof (oheap_ok_refs_lt h OK) as RL. unfold graph_copy, reach_order.
  destruct (dfs_total h RL (dfs_fuel h [l]) [l] []) as [r E].
  - constructor; [exact L|constructor].
  - unfold dfs_fuel. rewrite pot_aux_nil. cbn [length]. lia.
  - rewrite E. cbn [option_map].
    destruct (dfs_closed h _ _ _ _ E) as (Cl & _ & St); [intros a c x []|].
    assert (Forall (fun x => x < length h) r) as Lt.
    { eapply dfs_seen_ok with (P := fun x => x < length h); [|constructor; [exact L|constructor]|constructor|exact E].
      intros a c _ N. apply (RL a c N). }
    rewrite Forall_forall in Lt.
    destruct (mapM_total (fun a => match nth_error h a with Some c => rename_cell (rev r) (length h) c | None => None end) (rev r)) as [cells ->].
    { intros a Ha. apply in_rev in Ha. destruct (nth_error h a) as [c|] eqn:N; [|apply nth_error_None in N; specialize (Lt a Ha); lia].
      apply rename_cell_total. intros x Hx. apply in_rev. rewrite rev_involutive. eapply Cl; eauto. }
    destruct (index_of_In (rev r) l) as [i ->]; [apply in_rev; rewrite rev_involutive; apply St; left; reflexivity|]. eauto.
Qed.

(* on every reachable state the graph copy of every existing object succeeds: copy() never leaves the modelled domain *)
Theorem copy_succeeds pre l : let s := oexec pre oinit in
  l < length (fst s) -> exists h' l', graph_copy (fst s) l = Some (h', l').
Proof.
  cbn zeta. intros L. destruct (oreachable_ok pre) as (_ & OK & _). apply graph_copy_total; assumption.
Qed.
