(* C11 round 7: ANY text read without outfmt= (BLAST, MMseqs2). The columns of a data line are those of the LAST '# Fields:'
   line above it (BLAST) / of the FIRST name row above it provided no data line came earlier (MMseqs2), else the defaults;
   every data line is read with row_feature under those columns, in order, first error wins. *)
From Coq Require Import List ZArith NArith Bool Lia.
From Coq.Strings Require Import Byte.
Import ListNotations.
From SV Require Import Text G_tab C11_Model C11_Lemmas C11_TextLemmas C11_FileLemmas C11_BlocksLemmas C11_AnyLemmas.

Definition fields_of (l : str) : res (list hdr) :=
  headers_from true Blast (map strip_ws (split_on ","%byte (remove_prefix (bs "# Fields:"%bs) l))).
Definition default_headers (d : dialect) : res (list hdr) :=
  match assoc (dialect_name d) DEFAULT_OUTFMT with None => Err eKey | Some names => headers_from false d names end.

Fixpoint any_features (d : dialect) (sep : option byte) (ftype : option str) (cur : option (list hdr)) (ls : list str)
  : res (list feat) :=
  match ls with
  | [] => Ok []
  | l :: r =>
      if (match d with Blast => starts_with (bs "# Fields:"%bs) l | _ => false end) then
        match fields_of l with
        | Err e => Err e
        | Ok hs => any_features d sep ftype (Some hs) r            (* a '# Fields:' line always replaces the columns *)
        end
      else if skip_any l then any_features d sep ftype cur r
      else if names_row d sep l then
        match cur with
        | Some _ => any_features d sep ftype cur r                 (* columns known: a name row is skipped *)
        | None => match headers_from false d (line_toks sep None l) with
                  | Err e => Err e
                  | Ok hs => any_features d sep ftype (Some hs) r
                  end
        end
      else
        match (match cur with Some hs => Ok hs | None => default_headers d end) with
        | Err e => Err e
        | Ok hs =>
            match row_feature d ftype hs (line_toks sep None l) with
            | Err e => Err e
            | Ok f => match any_features d sep ftype (Some hs) r with Ok fs => Ok (f :: fs) | Err e => Err e end
            end
        end
  end.

Lemma run_any d sep ftype : (match d with Infernal => false | _ => true end) = true -> forall ls st, s_maxsplit st = None ->
  match any_features d sep ftype (s_headers st) ls with
  | Ok fs => exists st', run d sep true ftype st ls = Ok st' /\ s_fts st' = rev fs ++ s_fts st
  | Err e => run d sep true ftype st ls = Err e
  end.
Proof.
  intros ND. induction ls as [|l r IH]; intros st MS; cbn [any_features run].
  - exists st. split; reflexivity.
  - unfold step. rewrite MS.
    destruct d; [| |discriminate]; cbn [andb].
    + (* BLAST *)
      destruct (starts_with (bs "# Fields:"%bs) l) eqn:F.
      * unfold fields_of.
        destruct (headers_from true Blast (map strip_ws (split_on ","%byte (remove_prefix (bs "# Fields:"%bs) l)))) as [hs|e]; cbn [snd]; [|reflexivity].
        apply (IH (mkState (Some hs) None (s_fts st))). reflexivity.
      * unfold skip_any, blank. destruct (starts_with (bs "#"%bs) l || match strip_ws l with [] => true | _ :: _ => false end); cbn [snd].
        -- apply IH. exact MS.
        -- cbn [names_row]. unfold default_headers, line_toks.
           destruct (match s_headers st with Some hs => Ok hs | None => _ end) as [hs|e]; cbn [snd]; [|reflexivity].
           destruct (row_feature Blast ftype hs (py_split sep None (strip_ws l))) as [f|e]; cbn [snd]; [|reflexivity].
           specialize (IH (mkState (Some hs) None (f :: s_fts st)) eq_refl). cbn [s_headers s_fts] in IH.
           destruct (any_features Blast sep ftype (Some hs) r) as [fs|e]; [|exact IH].
           destruct IH as (st' & R & S). exists st'. split; [exact R|]. rewrite S. cbn [rev]. rewrite <- app_assoc. reflexivity.
    + (* MMseqs2 *)
      unfold skip_any, blank. destruct (starts_with (bs "#"%bs) l || match strip_ws l with [] => true | _ :: _ => false end); cbn [snd].
      * apply IH. exact MS.
      * unfold names_row, line_toks.
        destruct (Nat.ltb 1 (length (py_split sep None (strip_ws l))) && subset (py_split sep None (strip_ws l)) MMSEQS_HEADER_NAMES).
        -- destruct (s_headers st) as [hs0|] eqn:HS.
           ++ cbn [snd]. specialize (IH st MS). rewrite HS in IH. exact IH.
           ++ destruct (headers_from false Mmseqs (py_split sep None (strip_ws l))) as [hs|e]; cbn [snd]; [|reflexivity].
              apply (IH (mkState (Some hs) None (s_fts st))). reflexivity.
        -- unfold default_headers.
           destruct (match s_headers st with Some hs => Ok hs | None => _ end) as [hs|e]; cbn [snd]; [|reflexivity].
           destruct (row_feature Mmseqs ftype hs (py_split sep None (strip_ws l))) as [f|e]; cbn [snd]; [|reflexivity].
           specialize (IH (mkState (Some hs) None (f :: s_fts st)) eq_refl). cbn [s_headers s_fts] in IH.
           destruct (any_features Mmseqs sep ftype (Some hs) r) as [fs|e]; [|exact IH].
           destruct IH as (st' & R & S). exists st'. split; [exact R|]. rewrite S. cbn [rev]. rewrite <- app_assoc. reflexivity.
Qed.

Lemma read_any_discover d sep ftype univ content : (match d with Infernal => false | _ => true end) = true ->
  snd (read_content d sep None ftype univ content) = any_features d sep ftype None (content_lines univ content).
Proof.
  intros ND. unfold read_content. fold (content_lines univ content).
  replace (match d with Infernal => None | _ => None end) with (@None str) by (destruct d; reflexivity).
  replace (eff_sep d sep) with sep by (destruct d; [reflexivity|reflexivity|discriminate]).
  rewrite read_lines_run.
  pose proof (run_any d sep ftype ND (content_lines univ content) (mkState None None []) eq_refl) as R. cbn [s_headers s_fts] in R.
  destruct (any_features d sep ftype None (content_lines univ content)) as [fs|e].
  - destruct R as (st' & -> & S). rewrite S, app_nil_r, rev_involutive. reflexivity.
  - rewrite R. reflexivity.
Qed.

(* consequence: a '# Fields:' line in the middle of a BLAST text: everything after it is read with ITS columns, whatever
   columns were in force before (a later block never inherits the columns of an earlier one) *)
Lemma fields_line_resets sep ftype cur l r hs : starts_with (bs "# Fields:"%bs) l = true -> fields_of l = Ok hs ->
  any_features Blast sep ftype cur (l :: r) = any_features Blast sep ftype (Some hs) r.
Proof. intros F H. cbn [any_features]. rewrite F, H. reflexivity. Qed.

Lemma any_features_app d sep ftype : forall a cur b,
  forallb (fun l => negb (match d with Blast => starts_with (bs "# Fields:"%bs) l | _ => false end) && negb (names_row d sep l)) a = true ->
  forall hs, cur = Some hs ->
  any_features d sep ftype cur (a ++ b) =
  match lines_features d ftype hs sep None a with
  | Ok fa => match any_features d sep ftype cur b with Ok fb => Ok (fa ++ fb) | Err e => Err e end
  | Err e => Err e
  end.
Proof.
  unfold lines_features. induction a as [|l a IH]; intros cur b F hs ->; cbn [app any_features filter map rows_features].
  - destruct (any_features d sep ftype (Some hs) b); reflexivity.
  - cbn [forallb] in F. apply andb_prop in F. destruct F as [F1 F2]. apply andb_prop in F1. destruct F1 as [G1 G2].
    destruct (match d with Blast => starts_with (bs "# Fields:"%bs) l | _ => false end); [discriminate|].
    destruct (names_row d sep l) eqn:NR; [discriminate|]. unfold data_line. rewrite NR. fold (skip_any l).
    destruct (skip_any l); cbn [negb andb].
    + apply IH; [exact F2|reflexivity].
    + cbn [map rows_features]. destruct (row_feature d ftype hs (line_toks sep None l)) as [f|e]; [|reflexivity].
      rewrite (IH (Some hs) b F2 hs eq_refl).
      destruct (rows_features d ftype hs _) as [fa|e]; [|reflexivity].
      destruct (any_features d sep ftype (Some hs) b); reflexivity.
Qed.

(* non-vacuity: two reports with different column orders in one file (the demo of a concatenated BLAST 7 run) *)
Definition ex4_lines : list str :=
  [bs "# BLASTN 2.15.0+"%bs; bs "# Fields: query id, subject id, q. start, q. end, s. start, s. end"%bs;
   join x09 [bs "q1"%bs; bs "chr1"%bs; bs "1"%bs; bs "90"%bs; bs "5089"%bs; bs "5000"%bs];
   bs "# BLASTN 2.15.0+"%bs; bs "# Fields: subject id, query id, s. start, s. end, q. start, q. end"%bs;
   join x09 [bs "chr7"%bs; bs "q2"%bs; bs "250"%bs; bs "309"%bs; bs "11"%bs; bs "70"%bs]; bs "# BLAST processed 2 queries"%bs].
Definition ex4_fields : str := bs "# Fields: subject id, query id, s. start, s. end, q. start, q. end"%bs ++ [x0a].
Lemma witness_discover :
  match snd (read_content Blast (Some x09) None None false (unlines ex4_lines)) with
  | Ok [f1; f2] => (f_start f1, f_stop f1, f_strand f1) = (4999%Z, 5089%Z, bs "-"%bs) /\
                   (f_start f2, f_stop f2, f_strand f2) = (249%Z, 309%Z, bs "+"%bs) /\
                   assoc (bs "seqid"%bs) (f_common f2) = Some (AStr (bs "chr7"%bs)) /\
                   assoc (bs "name"%bs) (f_common f2) = Some (AStr (bs "q2"%bs))
  | _ => False
  end /\
  (exists hs, fields_of ex4_fields = Ok hs).
Proof. split; [vm_compute; repeat split; reflexivity|]. eexists. vm_compute. reflexivity. Qed.
