(* C12 proofs, part 4: the gap option as a set of characters, custom start/stop codon sets, every rf form, is_orf *)
From Coq Require Import List ZArith NArith Bool Lia ZifyBool Sorted.
From Coq.Strings Require Import Byte.
Import ListNotations.
From SV Require Import Text C05_Model C05_Lemmas C12_Model C12_Lemmas C12_Gap C12_Modes.
Local Open Scope Z_scope.

(* ---- rewriting a text for the gap set g: gap characters become '-', a '-' that is no gap character becomes '#' ---------- *)
Definition STRAY : byte := "#"%byte.
Definition to_dash1 (g : str) (c : byte) : byte :=
  if is_gap_g g c then "-"%byte else if byte_eqb c "-"%byte then STRAY else c.
Definition to_dash (g : str) (s : str) : str := map (to_dash1 g) s.
Definition gap_safe (g : str) : bool := forallb (fun c => has c GAP_SAFE) g.
Definition clean1 (g : str) (c : byte) : Prop := is_gap_g g c = false /\ c <> "-"%byte /\ c <> STRAY.
Definition clean (g : str) (ws : list str) : Prop := forall w c, In w ws -> In c w -> clean1 g c.

Lemma is_gap_to_dash g x : is_gap (to_dash1 g x) = is_gap_g g x.
Proof.
  unfold to_dash1. destruct (is_gap_g g x); [reflexivity|]. destruct (byte_eqb x "-"%byte) eqn:E; [reflexivity|]. exact E.
Qed.

Lemma eqb_to_dash g x c : clean1 g c -> byte_eqb (to_dash1 g x) c = byte_eqb x c.
Proof.
  intros (G & D & S). unfold to_dash1. destruct (is_gap_g g x) eqn:Gx.
  - transitivity false; [apply byte_eqb_neq; congruence|]. symmetry. apply byte_eqb_neq. intros E. subst x. congruence.
  - destruct (byte_eqb x "-"%byte) eqn:E; [|reflexivity]. apply byte_eqb_eq in E. subst x.
    transitivity false; [apply byte_eqb_neq; congruence|]. symmetry. apply byte_eqb_neq. congruence.
Qed.

Lemma mw_transfer g : forall s sk w n, (forall c, In c w -> clean1 g c) -> mw_g g sk w s n = mw sk w (to_dash g s) n.
Proof.
  unfold to_dash. induction s as [|x s IH]; intros sk w n Hw; destruct w as [|c w']; try reflexivity.
  cbn [mw_g mw map]. rewrite eqb_to_dash by (apply Hw; left; reflexivity). rewrite is_gap_to_dash.
  destruct (byte_eqb x c).
  - apply IH. intros d Hd. apply Hw. right. exact Hd.
  - destruct (sk && is_gap_g g x); [|reflexivity]. apply IH. exact Hw.
Qed.

Lemma match_any_transfer g s : forall ws, clean g ws -> match_any_g g ws s = match_any ws (to_dash g s).
Proof.
  induction ws as [|w ws IH]; intros C; [reflexivity|]. cbn [match_any_g match_any].
  rewrite mw_transfer by (intros c Hc; apply (C w c); [left; reflexivity|exact Hc]).
  destruct (mw false w (to_dash g s) 0); [reflexivity|]. apply IH. intros w' c Hw' Hc. apply (C w' c); [right; exact Hw'|exact Hc].
Qed.

Lemma finditer_transfer g ws : clean g ws -> forall s pos sk, finditer_g g ws s pos sk = finditer ws (to_dash g s) pos sk.
Proof.
  intros C. induction s as [|x s IH]; intros pos sk; [reflexivity|].
  change (to_dash g (x :: s)) with (to_dash1 g x :: to_dash g s). cbn [finditer_g finditer].
  destruct sk as [|k]; [|apply IH].
  change (to_dash1 g x :: to_dash g s) with (to_dash g (x :: s)). rewrite match_any_transfer by exact C.
  destruct (match_any ws (to_dash g (x :: s))); rewrite IH; reflexivity.
Qed.

Lemma filter_len_map g : forall l, length (filter is_gap (map (to_dash1 g) l)) = length (filter (is_gap_g g) l).
Proof.
  induction l as [|x l IH]; [reflexivity|]. cbn [map filter]. rewrite is_gap_to_dash.
  destruct (is_gap_g g x); cbn [length]; rewrite IH; reflexivity.
Qed.

Lemma frame_of_transfer g s i : frame_of_g g s i = frame_of (to_dash g s) i.
Proof.
  unfold frame_of_g, frame_of, gaps_before_g, gaps_before, to_dash. rewrite firstn_map, filter_len_map. reflexivity.
Qed.

Lemma frame_start_transfer g : forall data k i, frame_start_from_g g data k i = frame_start_from (to_dash g data) k i.
Proof.
  unfold to_dash. induction data as [|c r IH]; intros k i; [reflexivity|]. cbn [frame_start_from_g frame_start_from map].
  rewrite is_gap_to_dash. destruct (is_gap_g g c); [apply IH|]. destruct k; [reflexivity|apply IH].
Qed.

Lemma last_res_transfer g : forall data, last_res_g g data = last_res (to_dash g data).
Proof.
  unfold to_dash. induction data as [|c r IH]; [reflexivity|]. cbn [last_res_g last_res map]. rewrite IH, is_gap_to_dash. reflexivity.
Qed.

(* every gap character of the safe set, '#', is its own complement and nothing else is complemented to it *)
Definition SAFE2 : str := STRAY :: GAP_SAFE.
Lemma cc_safe u c : has (cc u c) SAFE2 = true \/ has c SAFE2 = true -> cc u c = c.
Proof. destruct u; destruct c; vm_compute; intros [H|H]; try reflexivity; discriminate. Qed.

Lemma gap_safe_in g c : gap_safe g = true -> is_gap_g g c = true -> has c SAFE2 = true.
Proof.
  intros S G. unfold is_gap_g in G. apply existsb_exists in G. destruct G as [x [Hx E]]. apply byte_eqb_eq in E. subst x.
  unfold gap_safe in S. rewrite forallb_forall in S. specialize (S c Hx). unfold SAFE2, has in *. cbn [existsb]. rewrite S.
  apply orb_true_r.
Qed.

Lemma cc_dash u : cc u "-"%byte = "-"%byte.
Proof. destruct u; reflexivity. Qed.
Lemma cc_stray u : cc u STRAY = STRAY.
Proof. destruct u; reflexivity. Qed.

Lemma cc_to_dash g u c : gap_safe g = true -> cc u (to_dash1 g c) = to_dash1 g (cc u c).
Proof.
  intros S. unfold to_dash1. destruct (is_gap_g g c) eqn:G.
  - assert (E : cc u c = c) by (apply cc_safe; right; eapply gap_safe_in; eauto). rewrite E, G. apply cc_dash.
  - destruct (is_gap_g g (cc u c)) eqn:G2.
    + assert (E : cc u c = c) by (apply cc_safe; left; eapply gap_safe_in; eauto). rewrite E in G2. congruence.
    + destruct (byte_eqb c "-"%byte) eqn:D.
      * apply byte_eqb_eq in D. subst c. rewrite cc_dash. cbn. apply cc_stray.
      * destruct (byte_eqb (cc u c) "-"%byte) eqn:D2; [|reflexivity]. apply byte_eqb_eq in D2.
        assert (E : cc u c = c) by (apply cc_safe; left; rewrite D2; reflexivity).
        rewrite E in D2. subst c. discriminate.
Qed.

Lemma safe_not_U x : has x SAFE2 = true -> byte_eqb cU x = false.
Proof. destruct x; vm_compute; intros H; try reflexivity; discriminate. Qed.

Lemma has_U_to_dash g : gap_safe g = true -> forall l, has cU (map (to_dash1 g) l) = has cU l.
Proof.
  intros S. induction l as [|x l IH]; [reflexivity|]. unfold has in *. cbn [map existsb]. rewrite IH. f_equal.
  unfold to_dash1. destruct (is_gap_g g x) eqn:G.
  - rewrite (safe_not_U x) by (eapply gap_safe_in; eauto). reflexivity.
  - destruct (byte_eqb x "-"%byte) eqn:D; [|reflexivity]. apply byte_eqb_eq in D. subst x. reflexivity.
Qed.

Lemma rc_to_dash g s : gap_safe g = true -> rc (to_dash g s) = to_dash g (rc s).
Proof.
  intros S. rewrite !rc_as_map. unfold to_dash. rewrite <- map_rev, has_U_to_dash by exact S. rewrite !map_map.
  apply map_ext. intros c. apply cc_to_dash. exact S.
Qed.

Lemma to_dash_length g s : length (to_dash g s) = length s.
Proof. unfold to_dash. apply map_length. Qed.

Lemma strand_str_to_dash g s f : gap_safe g = true -> strand_str (to_dash g s) f = to_dash g (strand_str s f).
Proof. intros S. unfold strand_str. destruct (f >=? 0); [reflexivity|apply rc_to_dash; exact S]. Qed.
Lemma strand_data_to_dash g s f : strand_data (to_dash g s) f = to_dash g (strand_data s f).
Proof. unfold strand_data, to_dash. destruct (f >=? 0); [reflexivity|]. symmetry. apply map_rev. Qed.

Theorem hits_transfer g ws s f : gap_safe g = true -> clean g ws -> hits_g g ws s f = hits ws (to_dash g s) f.
Proof.
  intros S C. unfold hits_g, hits. rewrite strand_str_to_dash by exact S. rewrite finditer_transfer by exact C.
  apply filter_ext. intros m. rewrite frame_of_transfer. reflexivity.
Qed.

(* ---- the '-' model with the codon words as parameters ------------------------------------------------------------------- *)
Definition starts_w (sw : list str) (t : str) (f : Z) : list Z := map (fun m => Z.of_nat (fst m)) (hits sw t f).
Definition stops_w (pw : list str) (t : str) (f : Z) : list Z := map (fun m => Z.of_nat (snd m)) (hits pw t f).
Definition frame_orfs_w (sw pw : list str) (ns : nstart) (need_stop : bool) (minlen : Z) (t : str) (f : Z) : result :=
  let starts := starts_w sw t f in
  let stops := stops_w pw t f in
  let data := strand_data t f in
  frame_loop (length starts + length stops + 1) ns need_stop minlen (Z.of_nat (length t)) f
             (Z.of_nat (frame_start data f)) (Z.of_nat (last_res data)) starts stops None.

Lemma frame_orfs_w_default ns need_stop minlen t f : frame_orfs_w START_WORDS STOP_WORDS ns need_stop minlen t f = frame_orfs ns need_stop minlen t f.
Proof. reflexivity. Qed.

Lemma starts_x_transfer g sw s f : gap_safe g = true -> clean g sw -> starts_x g sw s f = starts_w sw (to_dash g s) f.
Proof. intros S C. unfold starts_x, starts_w. rewrite hits_transfer by assumption. reflexivity. Qed.
Lemma stops_x_transfer g pw s f : gap_safe g = true -> clean g pw -> stops_x g pw s f = stops_w pw (to_dash g s) f.
Proof. intros S C. unfold stops_x, stops_w. rewrite hits_transfer by assumption. reflexivity. Qed.

Lemma frame_orfs_x_transfer g sw pw ns need_stop minlen s f : gap_safe g = true -> clean g sw -> clean g pw ->
  frame_orfs_x g sw pw ns need_stop minlen s f = frame_orfs_w sw pw ns need_stop minlen (to_dash g s) f.
Proof.
  intros S C1 C2. unfold frame_orfs_x, frame_orfs_w. rewrite starts_x_transfer, stops_x_transfer by assumption.
  rewrite strand_data_to_dash. unfold frame_start_g, frame_start. rewrite frame_start_transfer, last_res_transfer.
  rewrite to_dash_length. reflexivity.
Qed.

Lemma orfs_frames_x_default g ns need_stop minlen s : gap_safe g = true -> clean g START_WORDS -> clean g STOP_WORDS ->
  forall frames, orfs_frames_x g START_WORDS STOP_WORDS ns need_stop minlen s frames = orfs_frames ns need_stop minlen (to_dash g s) frames.
Proof.
  intros S C1 C2. induction frames as [|f fr IH]; [reflexivity|]. cbn [orfs_frames_x orfs_frames].
  rewrite frame_orfs_x_transfer by assumption. rewrite frame_orfs_w_default, IH. reflexivity.
Qed.

(* the default codon words are clean for every safe gap set: their letters A, U, G, T are no safe gap characters *)
Lemma default_clean g : gap_safe g = true -> clean g START_WORDS /\ clean g STOP_WORDS.
Proof.
  intros S.
  assert (K : forall c, In c (bs "AUGT"%bs) -> clean1 g c).
  { intros c Hc. unfold clean1. split.
    - destruct (is_gap_g g c) eqn:G; [|reflexivity]. pose proof (gap_safe_in g c S G) as H.
      cbn in Hc. destruct Hc as [E|[E|[E|[E|[]]]]]; subst c; vm_compute in H; discriminate.
    - cbn in Hc. destruct Hc as [E|[E|[E|[E|[]]]]]; subst c; split; discriminate. }
  split; intros w c Hw Hc; apply K; cbn in Hw.
  - destruct Hw as [E|[E|[]]]; subst w; cbn in Hc; cbn; tauto.
  - destruct Hw as [E|[E|[E|[E|[E|[E|[]]]]]]]; subst w; cbn in Hc; cbn; tauto.
Qed.

(* the gap set is a renaming of the gap symbol: find_orfs with gap set g on s = find_orfs (gap '-') on the rewritten text *)
Theorem gapset_transfer g rf ns need_stop minlen s : gap_safe g = true ->
  find_orfs_x g START_WORDS STOP_WORDS rf ns need_stop minlen s = find_orfs rf ns need_stop minlen (to_dash g s).
Proof. intros S. destruct (default_clean g S) as [C1 C2]. apply orfs_frames_x_default; assumption. Qed.

(* ---- gap bijection for every gap set ------------------------------------------------------------------------------------- *)
Definition degap_g (g : str) (s : str) : str := filter (fun c => negb (is_gap_g g c)) s.
Definition rb_g (g : str) (s : str) (p : nat) : nat := length (degap_g g (firstn p s)).
Definition rbZ_g (g : str) (s : str) (z : Z) : Z := Z.of_nat (rb_g g s (Z.to_nat z)).

Lemma degap_to_dash g : forall s, degap (to_dash g s) = to_dash g (degap_g g s).
Proof.
  unfold to_dash, degap, degap_g. induction s as [|x s IH]; [reflexivity|]. cbn [map filter]. rewrite is_gap_to_dash.
  destruct (is_gap_g g x); cbn [negb map]; rewrite IH; reflexivity.
Qed.

Lemma rb_to_dash g s p : rb (to_dash g s) p = rb_g g s p.
Proof.
  unfold rb, rb_g. fold (degap (firstn p (to_dash g s))). unfold to_dash. rewrite firstn_map.
  fold (to_dash g (firstn p s)). rewrite degap_to_dash. unfold to_dash. apply map_length.
Qed.

Theorem gap_bijection_g g rf ns need_stop s : gap_safe g = true ->
  exists l, find_orfs_x g START_WORDS STOP_WORDS rf ns need_stop 0 s = ROk l /\
            find_orfs_x g START_WORDS STOP_WORDS rf ns need_stop 0 (degap_g g s) =
            ROk (map (fun o => mkorf (rbZ_g g s (o_start o)) (rbZ_g g s (o_stop o)) (o_plus o) (o_rf o)) l).
Proof.
  intros S. rewrite !gapset_transfer by exact S. rewrite <- degap_to_dash.
  destruct (gap_bijection rf ns need_stop (to_dash g s)) as [l [E1 E2]]. exists l. split; [exact E1|].
  rewrite E2. f_equal. apply map_ext. intros o. unfold ren_orf, rbZ, rbZ_g. rewrite !rb_to_dash. reflexivity.
Qed.

(* ---- custom codon sets: every mode is its specification over the custom codon lists ---------------------------------------- *)
Lemma starts_w_sorted sw t f : nonempty_words sw -> zsorted (starts_w sw t f).
Proof. intros NE. destruct (hits_sorted sw t f NE). apply sorted_map_fst; assumption. Qed.
Lemma stops_w_sorted pw t f : nonempty_words pw -> zsorted (stops_w pw t f).
Proof. intros NE. destruct (hits_sorted pw t f NE). apply sorted_map_snd; assumption. Qed.
Lemma starts_w_bound sw t f : nonempty_words sw -> Forall (start_in (Z.of_nat (length t))) (starts_w sw t f).
Proof.
  intros NE. apply Forall_forall. intros a H. unfold starts_w in H. apply in_map_iff in H.
  destruct H as [[i e] [E H]]. cbn in E. subst a. apply hits_bound in H; [|exact NE]. unfold start_in. lia.
Qed.
Lemma stops_w_bound pw t f : nonempty_words pw -> Forall (stop_in (Z.of_nat (length t))) (stops_w pw t f).
Proof.
  intros NE. apply Forall_forall. intros a H. unfold stops_w in H. apply in_map_iff in H.
  destruct H as [[i e] [E H]]. cbn in E. subst a. apply hits_bound in H; [|exact NE]. unfold stop_in. lia.
Qed.
Lemma starts_w_before_last sw t f : nonempty_words sw -> letters_ok sw ->
  Forall (fun a => a < Z.of_nat (last_res (strand_data t f))) (starts_w sw t f).
Proof.
  intros NE Lo. apply Forall_forall. intros a H. unfold starts_w in H. apply in_map_iff in H.
  destruct H as [[i e] [E H]]. cbn in E. subst a. unfold hits in H. apply filter_In in H. destruct H as [H _].
  destruct (finditer_head _ _ _ _ _ _ NE H) as [_ [c [w [Hw Hn]]]]. rewrite Nat.sub_0_r in Hn.
  rewrite <- last_res_strand.
  assert (G : is_gap c = false) by (apply (Lo (c :: w) c Hw); left; reflexivity).
  pose proof (last_res_nth _ _ _ Hn G). lia.
Qed.

Definition spec_w (sw pw : list str) (ns : nstart) (need_stop : bool) (t : str) (f : Z) : list (Z * Z) :=
  spec_mode ns need_stop (frame_fs t f) (frame_last t f) (Z.of_nat (length t)) (starts_w sw t f) (stops_w pw t f).

Theorem frame_modes_spec_w sw pw ns need_stop minlen t f :
  nonempty_words sw -> nonempty_words pw -> letters_ok sw ->
  frame_orfs_w sw pw ns need_stop minlen t f = ROk (orfs_of minlen f (Z.of_nat (length t)) (spec_w sw pw ns need_stop t f)).
Proof.
  intros NE1 NE2 Lo. unfold frame_orfs_w, spec_w, spec_mode. fold (frame_fs t f). fold (frame_last t f).
  pose proof (frame_last_le t f) as HL.
  destruct ns.
  - apply always_loop_spec_ns; auto.
    + apply starts_w_sorted; assumption.
    + apply stops_w_sorted; assumption.
    + apply starts_w_bound; assumption.
    + apply stops_w_bound; assumption.
    + apply starts_w_before_last; assumption.
    + eapply Forall_impl; [|apply stops_w_bound; assumption]. intros e He. unfold stop_in in He. lia.
    + lia.
  - pose proof (starts_w_bound sw t f NE1) as Hb. destruct (starts_w sw t f) as [|a ss] eqn:Est.
    + replace (length (@nil Z) + length (stops_w pw t f) + 1)%nat with (S (length (stops_w pw t f))) by (cbn; lia).
      cbn [frame_loop loop_cond is_nil negb is_some orb]. reflexivity.
    + replace (length (a :: ss) + length (stops_w pw t f) + 1)%nat with (S (length (a :: ss) + length (stops_w pw t f))) by lia.
      inversion Hb as [|? ? Ha Hbss]; subst. unfold start_in in Ha.
      apply (chain_first_spec _ NSOnce need_stop minlen _ f _ _ (a :: ss) _ a ss); auto.
      * left. reflexivity.
      * apply stops_w_sorted; assumption.
      * apply stops_w_bound; assumption.
      * lia.
      * cbn [length]. lia.
  - replace (length (starts_w sw t f) + length (stops_w pw t f) + 1)%nat
      with (S (length (starts_w sw t f) + length (stops_w pw t f))) by lia.
    apply (chain_first_spec _ NSNever need_stop minlen _ f _ _ (starts_w sw t f) _ (frame_fs t f) (starts_w sw t f)); auto.
    + right. reflexivity.
    + apply stops_w_sorted; assumption.
    + apply stops_w_bound; assumption.
    + unfold frame_fs. lia.
    + lia.
Qed.

(* boolean word conditions give the propositional ones *)
Lemma is_alpha_clean c : is_alpha c = true -> c <> "-"%byte /\ c <> STRAY.
Proof. destruct c; vm_compute; intros H; try discriminate; split; discriminate. Qed.

Lemma words_ok_facts g ws : words_ok g ws = true -> nonempty_words ws /\ clean g ws.
Proof.
  intros H. unfold words_ok in H. rewrite forallb_forall in H. split.
  - apply Forall_forall. intros w Hw E. specialize (H w Hw). subst w. discriminate.
  - intros w c Hw Hc. specialize (H w Hw). unfold word_ok in H. apply andb_prop in H. destruct H as [_ H].
    rewrite forallb_forall in H. specialize (H c Hc). apply andb_prop in H. destruct H as [A G].
    destruct (is_alpha_clean c A) as [D1 D2]. unfold clean1. split; [|split; assumption].
    destruct (is_gap_g g c); [discriminate|reflexivity].
Qed.

Lemma clean_letters_ok g ws : clean g ws -> letters_ok ws.
Proof.
  intros C w c Hw Hc. destruct (C w c Hw Hc) as (_ & D & _). unfold is_gap. apply byte_eqb_neq. exact D.
Qed.

(* the specification over the codon lists of the gap-set model itself *)
Definition fs_x (g : str) (s : str) (f : Z) : Z := Z.of_nat (frame_start_g g (strand_data s f) f).
Definition last_x (g : str) (s : str) (f : Z) : Z := Z.of_nat (last_res_g g (strand_data s f)).
Definition spec_x (g : str) (sw pw : list str) (ns : nstart) (need_stop : bool) (s : str) (f : Z) : list (Z * Z) :=
  spec_mode ns need_stop (fs_x g s f) (last_x g s f) (Z.of_nat (length s)) (starts_x g sw s f) (stops_x g pw s f).

Lemma spec_x_transfer g sw pw ns need_stop s f : gap_safe g = true -> clean g sw -> clean g pw ->
  spec_x g sw pw ns need_stop s f = spec_w sw pw ns need_stop (to_dash g s) f.
Proof.
  intros S C1 C2. unfold spec_x, spec_w, fs_x, last_x, frame_fs, frame_last.
  rewrite starts_x_transfer, stops_x_transfer by assumption. rewrite strand_data_to_dash.
  unfold frame_start_g, frame_start. rewrite frame_start_transfer, last_res_transfer.
  rewrite to_dash_length. reflexivity.
Qed.

Theorem frame_custom_spec g sw pw ns need_stop minlen s f :
  gap_safe g = true -> words_ok g sw = true -> words_ok g pw = true ->
  frame_orfs_x g sw pw ns need_stop minlen s f =
  ROk (orfs_of minlen f (Z.of_nat (length s)) (spec_x g sw pw ns need_stop s f)).
Proof.
  intros S W1 W2. destruct (words_ok_facts g sw W1) as [NE1 C1]. destruct (words_ok_facts g pw W2) as [NE2 C2].
  rewrite frame_orfs_x_transfer, spec_x_transfer by assumption.
  rewrite (frame_modes_spec_w sw pw ns need_stop minlen (to_dash g s) f NE1 NE2 (clean_letters_ok g sw C1)).
  rewrite to_dash_length. reflexivity.
Qed.

Definition custom_find_orfs (g : str) (sw pw : list str) (ns : nstart) (need_stop : bool) (minlen : Z) (s : str) (frames : list Z) : list orf :=
  concat (map (fun f => orfs_of minlen f (Z.of_nat (length s)) (spec_x g sw pw ns need_stop s f)) frames).

Theorem custom_modes_spec g sw pw rf ns need_stop minlen s :
  gap_safe g = true -> words_ok g sw = true -> words_ok g pw = true ->
  find_orfs_x g sw pw rf ns need_stop minlen s = ROk (custom_find_orfs g sw pw ns need_stop minlen s (frames_of rf)).
Proof.
  intros S W1 W2. unfold find_orfs_x, custom_find_orfs. induction (frames_of rf) as [|f fr IH]; [reflexivity|].
  cbn [orfs_frames_x map concat]. rewrite frame_custom_spec by assumption. rewrite IH. reflexivity.
Qed.

(* the custom codon lists: strictly increasing, inside the sequence; and what the specification of a frame lists, in order *)
Theorem custom_codon_lists g sw pw s f : gap_safe g = true -> words_ok g sw = true -> words_ok g pw = true ->
  zsorted (starts_x g sw s f) /\ zsorted (stops_x g pw s f) /\
  Forall (fun a => 0 <= a < Z.of_nat (length s)) (starts_x g sw s f) /\
  Forall (fun e => 0 < e <= Z.of_nat (length s)) (stops_x g pw s f).
Proof.
  intros S W1 W2. destruct (words_ok_facts g sw W1) as [NE1 C1]. destruct (words_ok_facts g pw W2) as [NE2 C2].
  rewrite starts_x_transfer, stops_x_transfer by assumption.
  assert (EL : length (to_dash g s) = length s) by (unfold to_dash; apply map_length). rewrite <- EL.
  split; [apply starts_w_sorted; assumption|]. split; [apply stops_w_sorted; assumption|].
  split; [apply starts_w_bound; assumption|apply stops_w_bound; assumption].
Qed.

(* ---- invariants for custom codon sets and every gap set (every mode) ------------------------------------------------------ *)
Lemma orfs_of_inv minlen f L ps : Forall (fun p => 0 <= fst p /\ fst p < snd p /\ snd p <= L) ps ->
  Forall (fun o => 0 <= o_start o /\ o_start o < o_stop o /\ o_stop o <= L /\ minlen <= o_stop o - o_start o /\
                   o_rf o = f /\ o_plus o = (o_rf o >=? 0)) (orfs_of minlen f L ps).
Proof.
  intros H. apply Forall_forall. intros o Ho. unfold orfs_of in Ho. apply filter_In in Ho. destruct Ho as [Ho Hm].
  apply in_map_iff in Ho. destruct Ho as [[a e] [E Hp]]. rewrite Forall_forall in H. specialize (H _ Hp). cbn [fst snd] in H.
  unfold long_enough in Hm. subst o. unfold mk_orf in *. cbn [fst snd] in *.
  destruct (f >=? 0) eqn:F; cbn [o_start o_stop o_rf o_plus] in *; rewrite ?F; repeat split; try lia.
Qed.

Theorem custom_invariants g sw pw rf ns need_stop minlen s :
  gap_safe g = true -> words_ok g sw = true -> words_ok g pw = true ->
  exists l, find_orfs_x g sw pw rf ns need_stop minlen s = ROk l /\
    Forall (fun o => 0 <= o_start o /\ o_start o < o_stop o /\ o_stop o <= Z.of_nat (length s) /\
                     minlen <= o_stop o - o_start o /\ In (o_rf o) (frames_of rf) /\ o_plus o = (o_rf o >=? 0)) l.
Proof.
  intros S W1 W2. destruct (words_ok_facts g sw W1) as [NE1 C1]. destruct (words_ok_facts g pw W2) as [NE2 C2].
  unfold find_orfs_x. induction (frames_of rf) as [|f fr IH].
  - exists []. split; [reflexivity|constructor].
  - destruct IH as [l2 [E2 F2]]. cbn [orfs_frames_x]. rewrite E2.
    pose proof (frame_orfs_x_transfer g sw pw ns need_stop minlen s f S C1 C2) as T. rewrite T.
    assert (G : good (Z.of_nat (length s)) minlen f (frame_orfs_w sw pw ns need_stop minlen (to_dash g s) f)).
    { assert (EL : length (to_dash g s) = length s) by (unfold to_dash; apply map_length). rewrite <- EL.
      unfold frame_orfs_w. apply frame_loop_good.
      - apply starts_w_bound; assumption.
      - apply stops_w_bound; assumption.
      - intros p E. discriminate.
      - lia.
      - pose proof (frame_last_le (to_dash g s) f) as H. unfold frame_last in H. exact H.
      - lia. }
    destruct G as [l1 [E1 F1]]. rewrite E1. cbn [app_res]. exists (l1 ++ l2). split; [reflexivity|].
    apply Forall_app. split.
    + eapply Forall_impl; [|exact F1]. intros o (O1 & O2 & O3 & O4 & O5 & O6). rewrite O5. repeat split; auto. left; reflexivity.
    + eapply Forall_impl; [|exact F2]. intros o (O1 & O2 & O3 & O4 & O5 & O6). repeat split; auto. right; exact O5.
Qed.

(* ---- the default-settings clause against the declarative predicate is_orf -------------------------------------------------- *)
Lemma is_orf_spec s f a e : In (a, e) (spec_default (frame_starts s f) (frame_stops s f) 0) <-> is_orf s f a e.
Proof.
  rewrite <- (spec_always_true (Z.of_nat (length s))). rewrite always_meaning_frame. unfold is_orf, closes. split.
  - intros (H1 & H2 & [H3|H3]); [|destruct H3 as [H3 _]; discriminate]. destruct H3 as (H3 & H4 & H5). tauto.
  - intros (H1 & H2 & H3 & H4 & H5). split; [exact H1|]. split; [exact H5|]. left. tauto.
Qed.

Definition default_list (s : str) (f : Z) : list (Z * Z) := spec_default (frame_starts s f) (frame_stops s f) 0.

Theorem default_is_orf rf s :
  find_orfs rf NSAlways true 0 s =
    ROk (concat (map (fun f => map (mk_orf f (Z.of_nat (length s))) (default_list s f)) (frames_of rf))) /\
  forall f, (forall a e, In (a, e) (default_list s f) <-> is_orf s f a e) /\
            NoDup (default_list s f) /\
            StronglySorted (fun p q => snd p <= fst q) (default_list s f).
Proof.
  split.
  - rewrite orf_modes_spec. unfold modes_find_orfs. f_equal. f_equal. apply map_ext. intros f.
    pose proof (frame_spec_ordered NSAlways true s f) as (_ & H & _).
    rewrite orfs_of_min0 by exact H. unfold frame_spec, spec_mode, default_list. rewrite spec_always_true. reflexivity.
  - intros f. split; [intros a e; apply is_orf_spec|].
    pose proof (frame_spec_ordered NSAlways true s f) as (H1 & _ & H3).
    unfold frame_spec, spec_mode in H1, H3. rewrite spec_always_true in H1, H3. split; [exact H3|exact H1].
Qed.

(* residues: an ORF of the default settings begins on the first residue of its start codon, ends behind the last residue
   of its stop codon, and holds a multiple of three residues, in a frame whose residue offset is the frame's *)
Theorem is_orf_residues s f a e : is_orf s f a e ->
  let t := strand_str s f in
  Z.of_nat (rb t (Z.to_nat a)) mod 3 = frame_key f /\
  (Z.of_nat (rb t (Z.to_nat e)) - Z.of_nat (rb t (Z.to_nat a))) mod 3 = 0 /\
  0 <= a /\ a < e /\ e <= Z.of_nat (length s).
Proof.
  intros H. pose proof H as (H1 & H2 & H3 & _). apply is_orf_spec in H. cbn zeta.
  split.
  - unfold frame_starts in H1. apply in_map_iff in H1. destruct H1 as [[i j] [E Hin]]. cbn in E. subst a.
    rewrite Nat2Z.id. destruct (codon_residues s f i j (or_introl Hin)) as [R _]. exact R.
  - split; [apply default_residues_div3; exact H|].
    pose proof (frame_starts_bound s f) as B1. pose proof (frame_stops_bound s f) as B2. rewrite Forall_forall in B1, B2.
    specialize (B1 _ H1). specialize (B2 _ H2). unfold start_in in B1. unfold stop_in in B2. lia.
Qed.

(* ---- repeated frames: the state-threading loop ------------------------------------------------------------------------------- *)
Lemma loop_body_st_fst (rec_st : list Z -> list Z -> option Z -> res3) rec need_stop minlen L frame i1 starts' stops i2 :
  (forall a b c, fst (rec_st a b c) = rec a b c) ->
  fst (loop_body_st rec_st need_stop minlen L frame i1 starts' stops i2) = loop_body rec need_stop minlen L frame i1 starts' stops i2.
Proof.
  intros H. unfold loop_body_st, loop_body.
  destruct (match i2 with Some p => i1 <? p | None => false end); [apply H|].
  destruct (next_stop i1 stops) as [[e r]|].
  - destruct (inds2orf i1 e frame L); [|reflexivity]. unfold cons_res3. cbn [fst].
    destruct (e =? L); [reflexivity|]. rewrite H. reflexivity.
  - destruct need_stop; [reflexivity|]. destruct (inds2orf i1 L frame L); [|reflexivity]. unfold cons_res3. cbn [fst].
    destruct (L =? L); [reflexivity|]. rewrite H. reflexivity.
Qed.

Lemma frame_loop_st_fst : forall fuel ns need_stop minlen L frame fs last starts stops i2,
  fst (frame_loop_st fuel ns need_stop minlen L frame fs last starts stops i2) =
  frame_loop fuel ns need_stop minlen L frame fs last starts stops i2.
Proof.
  induction fuel as [|fuel IH]; intros; [reflexivity|]. cbn [frame_loop_st frame_loop].
  destruct (negb (loop_cond ns starts i2)); [reflexivity|].
  destruct (fst (choose_i1 ns fs starts i2) >=? last); [reflexivity|].
  apply loop_body_st_fst. intros a b c. apply IH.
Qed.

Lemma lookup_st_none f : forall st, (forall k v, In (k, v) st -> k <> f) -> lookup_st f st = None.
Proof.
  induction st as [|[k v] st IH]; intros H; [reflexivity|]. cbn [lookup_st].
  destruct (k =? f) eqn:E; [exfalso; apply (H k v); [left; reflexivity|lia]|]. apply IH. intros k' v' Hin. apply (H k' v'). right. exact Hin.
Qed.

Lemma nodupz_cons x r : nodupz (x :: r) = true -> ~ In x r /\ nodupz r = true.
Proof.
  cbn [nodupz]. intros H. apply andb_prop in H. destruct H as [H1 H2]. split; [|exact H2].
  intros Hin. apply negb_true_iff in H1. assert (K : existsb (Z.eqb x) r = true) by (apply existsb_exists; exists x; split; [exact Hin|lia]).
  congruence.
Qed.

(* without repeated frames the state is never consulted: the loop is the plain one *)
Theorem orfs_frames_st_nodup g sw pw ns need_stop minlen s : forall frames st,
  nodupz frames = true -> (forall k v, In (k, v) st -> ~ In k frames) ->
  orfs_frames_st g sw pw ns need_stop minlen s st frames = orfs_frames_x g sw pw ns need_stop minlen s frames.
Proof.
  induction frames as [|f r IH]; intros st N D; [reflexivity|]. cbn [orfs_frames_st orfs_frames_x].
  apply nodupz_cons in N. destruct N as [N1 N2].
  assert (E : fst (frame_pass_st g sw pw ns need_stop minlen s st f) = frame_orfs_x g sw pw ns need_stop minlen s f).
  { unfold frame_pass_st. rewrite lookup_st_none by (intros k v Hin E; subst k; apply (D f v Hin); left; reflexivity).
    cbn [fst snd]. rewrite frame_loop_st_fst. reflexivity. }
  rewrite E. f_equal. apply IH; [exact N2|].
  intros k v [Hin|Hin].
  - inversion Hin; subst. exact N1.
  - intros Hk. apply (D k v Hin). right. exact Hk.
Qed.

(* ---- rf forms ---------------------------------------------------------------------------------------------------------------- *)
Theorem rf_forms gap start stop rf ns need_stop minlen s :
  find_orfs_any gap start stop rf ns need_stop minlen s =
  match rf with
  | RAbadstr => XErr (bs "AssertionError"%bs)
  | RAnpint _ | RAfloat | RAnone => XErr (bs "TypeError"%bs)
  | RAspec r => xres (orfs_frames_st (gap_set gap) (pat_words start) (pat_words stop) ns need_stop minlen s []
                        (match r with RFfwd => [0; 1; 2] | RFbwd => [-1; -2; -3] | RFboth => [0; 1; 2; -1; -2; -3]
                                    | RFint z => [z] | RFtuple l => l end))
  end /\
  (forall r, nodupz (frames_of r) = true ->
     find_orfs_any gap start stop (RAspec r) ns need_stop minlen s =
     xres (find_orfs_x (gap_set gap) (pat_words start) (pat_words stop) r ns need_stop minlen s)).
Proof.
  split; [destruct rf; reflexivity|]. intros r N. unfold find_orfs_any, find_orfs_x. f_equal.
  apply orfs_frames_st_nodup; [exact N|]. intros k v [].
Qed.

(* a frame outside -3..2 holds no codon: it contributes nothing when a start is needed, and with need_start='never' exactly
   the chain from its k-th residue over an empty stop list *)
Lemma frame_of_range t i : 0 <= frame_of t i < 3.
Proof. unfold frame_of. apply Z.mod_pos_bound. lia. Qed.

Lemma hits_out_of_range ws t f : frame_ok f = false -> hits ws t f = [].
Proof.
  intros F. unfold hits. induction (finditer ws (strand_str t f) 0 0) as [|m l IH]; [reflexivity|]. cbn [filter].
  pose proof (frame_of_range (strand_str t f) (fst m)) as R.
  assert (E : (frame_of (strand_str t f) (fst m) =? frame_key f) = false).
  { unfold frame_ok in F. unfold frame_key. destruct (f >=? 0) eqn:P; lia. }
  rewrite E. exact IH.
Qed.

Theorem out_of_range_frame ns need_stop minlen s f : frame_ok f = false ->
  frame_orfs ns need_stop minlen s f =
  match ns with
  | NSNever => ROk (orfs_of minlen f (Z.of_nat (length s))
                      (spec_chain need_stop (frame_last s f) (Z.of_nat (length s)) (frame_fs s f) []))
  | _ => ROk []
  end.
Proof.
  intros F. rewrite frame_modes_spec. unfold frame_spec, spec_mode, frame_starts, frame_stops.
  rewrite !hits_out_of_range by exact F. cbn [map]. destruct ns; try reflexivity; destruct need_stop; reflexivity.
Qed.

(* default settings with custom codon sets / any gap set: the frame's specification lists exactly the (a, e) with is_orf_x,
   each once, in increasing order *)
Theorem custom_is_orf g sw pw s f : gap_safe g = true -> words_ok g sw = true -> words_ok g pw = true ->
  (forall a e, In (a, e) (spec_x g sw pw NSAlways true s f) <-> is_orf_x g sw pw s f a e) /\
  NoDup (spec_x g sw pw NSAlways true s f) /\
  StronglySorted (fun p q => snd p <= fst q) (spec_x g sw pw NSAlways true s f).
Proof.
  intros S W1 W2. destruct (custom_codon_lists g sw pw s f S W1 W2) as (S1 & S2 & B1 & B2).
  assert (B2' : Forall (fun d => 0 <= d) (stops_x g pw s f)) by (eapply Forall_impl; [|exact B2]; intros d Hd; cbn in Hd; lia).
  split.
  - intros a e. unfold spec_x, spec_mode. rewrite (always_meaning_gen true _ _ S1 _ 0 a e S2 B2').
    unfold always_member, closes, is_orf_x. rewrite Forall_forall in B1. split.
    + intros (H1 & H2 & H3 & [H4|H4]); [|destruct H4 as [H4 _]; discriminate]. destruct H4 as (H4 & H5 & H6).
      repeat split; auto. intros a' Ha' Hlt. destruct (H3 a' Ha' Hlt) as [K|K]; [|exact K]. specialize (B1 _ Ha'). cbn in B1. lia.
    + intros (H1 & H2 & H3 & H4 & H5). split; [exact H1|]. split; [specialize (B1 _ H1); cbn in B1; lia|].
      split; [intros a' Ha' Hlt; right; apply H5; assumption|]. left. tauto.
  - unfold spec_x, spec_mode.
    assert (B1' : Forall (fun a => a < Z.of_nat (length s)) (starts_x g sw s f)) by (eapply Forall_impl; [|exact B1]; intros d Hd; cbn in Hd; lia).
    destruct (always_sorted true _ _ B1' (stops_x g pw s f) 0 S2 B2') as [T1 T2].
    assert (T3 : Forall (fun p => fst p < snd p) (spec_always true (Z.of_nat (length s)) (starts_x g sw s f) (stops_x g pw s f) 0))
      by (eapply Forall_impl; [|exact T2]; intros p [_ Hp]; exact Hp).
    split; [apply zbefore_nodup; assumption|exact T1].
Qed.

Lemma is_orf_witness : is_orf (bs "AUGCCCTAAUUAGGGCAU"%bs) 0 0 9.
Proof. unfold is_orf. cbn. repeat split; try tauto; try lia; intros; intuition lia. Qed.

(* ---- is_orf at the level of the TEXT (no matcher, no lists): in-frame codon occurrences by position and prefix ------------- *)
Definition is_orf_gen (St Sp : Z -> Prop) (a e : Z) : Prop :=
  St a /\ Sp e /\ a < e /\ (forall e', Sp e' -> e' < e -> e' <= a) /\
  (forall a', St a' -> a' < a -> exists e', Sp e' /\ a' < e' /\ e' <= a).
Lemma is_orf_gen_ext (St St' Sp Sp' : Z -> Prop) : (forall x, St x <-> St' x) -> (forall x, Sp x <-> Sp' x) ->
  forall a e, is_orf_gen St Sp a e <-> is_orf_gen St' Sp' a e.
Proof.
  intros H1 H2 a e. unfold is_orf_gen. split; intros (A & B & C & D & E).
  - split; [apply H1; exact A|]. split; [apply H2; exact B|]. split; [exact C|]. split.
    + intros e' He'. apply D. apply H2. exact He'.
    + intros a' Ha' Hlt. destruct (E a' (proj2 (H1 a') Ha') Hlt) as [e' [K1 K2]]. exists e'. split; [apply H2; exact K1|exact K2].
  - split; [apply H1; exact A|]. split; [apply H2; exact B|]. split; [exact C|]. split.
    + intros e' He'. apply D. apply H2. exact He'.
    + intros a' Ha' Hlt. destruct (E a' (proj1 (H1 a') Ha') Hlt) as [e' [K1 K2]]. exists e'. split; [apply H2; exact K1|exact K2].
Qed.

(* column i of the strand read in frame f begins an in-frame codon of the set ws: i = frame offset (mod 3) and one of the
   words is a prefix of the strand at i *)
Definition codon_at (ws : list str) (s : str) (f : Z) (i : nat) : Prop :=
  (i < length s)%nat /\ Z.of_nat i mod 3 = frame_key f /\ word_at ws (skipn i (strand_str s f)) = true.
Definition start_col (s : str) (f : Z) (a : Z) : Prop := exists i, a = Z.of_nat i /\ codon_at START_WORDS s f i.
Definition stop_end (s : str) (f : Z) (e : Z) : Prop := exists j, e = Z.of_nat (j + 3) /\ codon_at STOP_WORDS s f j.
Definition is_orf_text (s : str) (f : Z) (a e : Z) : Prop := is_orf_gen (start_col s f) (stop_end s f) a e.

Lemma starts_text s f : gapfree s = true -> forall a, In a (frame_starts s f) <-> start_col s f a.
Proof.
  intros G a. unfold frame_starts, start_col, codon_at. rewrite in_map_iff. split.
  - intros [[i e] [E H]]. cbn in E. subst a. apply (proj1 (codons_gapfree_complete s f G i e)) in H. exists i. tauto.
  - intros [i [E (H1 & H2 & H3)]]. exists (i, (i + 3)%nat). split; [cbn; auto|].
    apply (proj1 (codons_gapfree_complete s f G i (i + 3)%nat)). tauto.
Qed.
Lemma stops_text s f : gapfree s = true -> forall e, In e (frame_stops s f) <-> stop_end s f e.
Proof.
  intros G a. unfold frame_stops, stop_end, codon_at. rewrite in_map_iff. split.
  - intros [[i e] [E H]]. cbn in E. subst a. apply (proj2 (codons_gapfree_complete s f G i e)) in H. exists i.
    destruct H as (H1 & H2 & H3). subst e. tauto.
  - intros [i [E (H1 & H2 & H3)]]. exists (i, (i + 3)%nat). split; [cbn; auto|].
    apply (proj2 (codons_gapfree_complete s f G i (i + 3)%nat)). tauto.
Qed.

Theorem is_orf_text_iff s f a e : gapfree s = true -> (is_orf s f a e <-> is_orf_text s f a e).
Proof.
  intros G. change (is_orf s f a e) with (is_orf_gen (fun a => In a (frame_starts s f)) (fun e => In e (frame_stops s f)) a e).
  apply is_orf_gen_ext; [apply starts_text; exact G|apply stops_text; exact G].
Qed.

(* gapped texts: the default list of the degapped sequence is the image of the default list of the gapped one, in order *)
Theorem default_list_degap s f :
  default_list (degap s) f = map (ren2 (rbZ (strand_str s f))) (default_list s f).
Proof.
  unfold default_list. rewrite frame_starts_degap, frame_stops_degap. rewrite <- (rbZ_0 (strand_str s f)) at 1.
  apply (spec_default_rename (rbZ (strand_str s f))).
  - intros x y H. apply rbZ_mono. exact H.
  - apply frame_starts_res_col.
  - eapply Forall_impl; [|apply frame_stops_bound]. intros e He. unfold stop_in in He. lia.
  - lia.
Qed.

(* so: the ORFs reported for ANY text are, one to one and in order, the text-level ORFs of its degapped sequence *)
Theorem default_orfs_text s f :
  (forall a e, In (a, e) (default_list s f) -> is_orf_text (degap s) f (rbZ (strand_str s f) a) (rbZ (strand_str s f) e)) /\
  (forall a' e', is_orf_text (degap s) f a' e' ->
     exists a e, In (a, e) (default_list s f) /\ a' = rbZ (strand_str s f) a /\ e' = rbZ (strand_str s f) e).
Proof.
  pose proof (degap_gapfree s) as G. split.
  - intros a e H. apply is_orf_text_iff; [exact G|]. apply is_orf_spec. fold (default_list (degap s) f).
    rewrite default_list_degap. apply in_map_iff. exists (a, e). split; [reflexivity|exact H].
  - intros a' e' H. apply is_orf_text_iff in H; [|exact G]. apply is_orf_spec in H. fold (default_list (degap s) f) in H.
    rewrite default_list_degap in H. apply in_map_iff in H. destruct H as [[a e] [E H]]. exists a, e. split; [exact H|].
    unfold ren2 in E. cbn [fst snd] in E. inversion E. auto.
Qed.

Lemma is_orf_text_witness : is_orf_text (bs "CCATGAAATAAC"%bs) 2 2 11.
Proof. apply is_orf_text_iff; [reflexivity|]. apply is_orf_spec. vm_compute. left. reflexivity. Qed.

(* ---- every rf form, every mode: the invariants also hold with repeated frames ------------------------------------------------ *)
Definition left_ok (starts stops : list Z) (r : res3) : Prop := incl (fst (snd r)) starts /\ incl (snd (snd r)) stops.

Lemma choose_i1_incl ns fs starts i2 : incl (snd (choose_i1 ns fs starts i2)) starts.
Proof.
  unfold choose_i1, pop_start. destruct ns, i2, starts; cbn [snd]; try apply incl_refl; try (apply incl_tl; apply incl_refl).
Qed.

Lemma loop_body_st_left (rec : list Z -> list Z -> option Z -> res3) need_stop minlen L frame i1 starts' stops i2 :
  (forall a b c, left_ok a b (rec a b c)) ->
  left_ok starts' stops (loop_body_st rec need_stop minlen L frame i1 starts' stops i2).
Proof.
  intros H. unfold loop_body_st.
  destruct (match i2 with Some p => i1 <? p | None => false end); [apply H|].
  destruct (next_stop i1 stops) as [[e r]|] eqn:N.
  - apply next_stop_some in N. destruct N as (_ & _ & _ & Hr).
    destruct (inds2orf i1 e frame L); [|split; cbn [fst snd]; [apply incl_refl|exact Hr]].
    unfold cons_res3, left_ok. cbn [snd]. destruct (e =? L).
    + split; cbn [fst snd]; [apply incl_refl|exact Hr].
    + destruct (H starts' r (Some e)) as [A B]. split; [exact A|]. intros x Hx. apply Hr. apply B. exact Hx.
  - destruct need_stop; [split; cbn [fst snd]; [apply incl_refl|intros x []]|].
    destruct (inds2orf i1 L frame L); [|split; cbn [fst snd]; [apply incl_refl|intros x []]].
    unfold cons_res3, left_ok. cbn [snd]. destruct (L =? L).
    + split; cbn [fst snd]; [apply incl_refl|intros x []].
    + destruct (H starts' [] (Some L)) as [A B]. split; [exact A|]. intros x Hx. destruct (B x Hx).
Qed.

Lemma frame_loop_st_left : forall fuel ns need_stop minlen L frame fs last starts stops i2,
  left_ok starts stops (frame_loop_st fuel ns need_stop minlen L frame fs last starts stops i2).
Proof.
  induction fuel as [|fuel IH]; intros; cbn [frame_loop_st]; [split; apply incl_refl|].
  destruct (negb (loop_cond ns starts i2)); [split; apply incl_refl|].
  destruct (fst (choose_i1 ns fs starts i2) >=? last); [split; cbn [fst snd]; [apply choose_i1_incl|apply incl_refl]|].
  destruct (loop_body_st_left (frame_loop_st fuel ns need_stop minlen L frame fs last) need_stop minlen L frame
              (fst (choose_i1 ns fs starts i2)) (snd (choose_i1 ns fs starts i2)) stops i2) as [A B]; [intros a b c; apply IH|].
  split; [|exact B]. intros x Hx. apply (choose_i1_incl ns fs starts i2). apply A. exact Hx.
Qed.

Definition st_ok (L : Z) (st : list (Z * (list Z * list Z))) : Prop :=
  forall k v, In (k, v) st -> Forall (start_in L) (fst v) /\ Forall (stop_in L) (snd v).

Lemma lookup_st_in f : forall st v, lookup_st f st = Some v -> In (f, v) st.
Proof.
  induction st as [|[k w] st IH]; intros v H; [discriminate|]. cbn [lookup_st] in H. destruct (k =? f) eqn:E.
  - inversion H; subst. left. f_equal. lia.
  - right. apply IH. exact H.
Qed.

Theorem orfs_frames_st_good g sw pw ns need_stop minlen s :
  gap_safe g = true -> words_ok g sw = true -> words_ok g pw = true ->
  forall frames st, st_ok (Z.of_nat (length s)) st ->
  exists l, orfs_frames_st g sw pw ns need_stop minlen s st frames = ROk l /\
            Forall (orf_inv (Z.of_nat (length s)) minlen frames) l.
Proof.
  intros S W1 W2.
  induction frames as [|f r IH]; intros st Hst; cbn [orfs_frames_st]; [exists []; split; [reflexivity|constructor]|].
  set (ls := match lookup_st f st with Some p => p | None => (starts_x g sw s f, stops_x g pw s f) end).
  assert (Hls : Forall (start_in (Z.of_nat (length s))) (fst ls) /\ Forall (stop_in (Z.of_nat (length s))) (snd ls)).
  { unfold ls. destruct (lookup_st f st) as [v|] eqn:E.
    - apply lookup_st_in in E. apply (Hst f v E).
    - destruct (custom_codon_lists g sw pw s f S W1 W2) as (_ & _ & B1 & B2). cbn [fst snd]. split; assumption. }
  destruct Hls as [B1 B2].
  assert (HL : Z.of_nat (last_res_g g (strand_data s f)) <= Z.of_nat (length s)).
  { rewrite last_res_transfer. pose proof (last_res_le (to_dash g (strand_data s f))) as H. rewrite to_dash_length in H.
    assert (E : length (strand_data s f) = length s) by (unfold strand_data; destruct (f >=? 0); [reflexivity|apply rev_length]). lia. }
  pose proof (frame_loop_good (length (fst ls) + length (snd ls) + 1) ns need_stop minlen (Z.of_nat (length s)) f
                (Z.of_nat (frame_start_g g (strand_data s f) f)) (Z.of_nat (last_res_g g (strand_data s f))) (fst ls) (snd ls) None
                B1 B2) as G.
  destruct G as [l1 [E1 F1]]; [intros p E; discriminate|lia|exact HL|lia|].
  pose proof (frame_loop_st_left (length (fst ls) + length (snd ls) + 1) ns need_stop minlen (Z.of_nat (length s)) f
                (Z.of_nat (frame_start_g g (strand_data s f) f)) (Z.of_nat (last_res_g g (strand_data s f))) (fst ls) (snd ls) None) as [I1 I2].
  unfold frame_pass_st. fold ls. rewrite frame_loop_st_fst, E1.
  destruct (IH ((f, snd (frame_loop_st (length (fst ls) + length (snd ls) + 1) ns need_stop minlen (Z.of_nat (length s)) f
                (Z.of_nat (frame_start_g g (strand_data s f) f)) (Z.of_nat (last_res_g g (strand_data s f))) (fst ls) (snd ls) None)) :: st))
    as [l2 [E2 F2]].
  { intros k v [Hin|Hin]; [|apply (Hst k v Hin)]. inversion Hin; subst. split.
    - rewrite Forall_forall in *. intros x Hx. apply B1. apply I1. exact Hx.
    - rewrite Forall_forall in *. intros x Hx. apply B2. apply I2. exact Hx. }
  rewrite E2. cbn [app_res]. exists (l1 ++ l2). split; [reflexivity|]. apply Forall_app. split.
  - eapply Forall_impl; [|exact F1]. intros o (O1 & O2 & O3 & O4 & O5 & O6). unfold orf_inv. rewrite O5. repeat split; auto. left; reflexivity.
  - eapply Forall_impl; [|exact F2]. intros o (O1 & O2 & O3 & O4 & O5 & O6). unfold orf_inv. repeat split; auto. right; exact O5.
Qed.

(* every rf form: an error of the documented class, or a list satisfying the invariants *)
Theorem any_rf_invariants gap start stop rf ns need_stop minlen s :
  gap_safe (gap_set gap) = true -> words_ok (gap_set gap) (pat_words start) = true -> words_ok (gap_set gap) (pat_words stop) = true ->
  match rf with
  | RAspec r => exists l, find_orfs_any gap start stop rf ns need_stop minlen s = XOk l /\
      Forall (fun o => 0 <= o_start o /\ o_start o < o_stop o /\ o_stop o <= Z.of_nat (length s) /\
                       minlen <= o_stop o - o_start o /\ In (o_rf o) (frames_of r) /\ o_plus o = (o_rf o >=? 0)) l
  | RAbadstr => find_orfs_any gap start stop rf ns need_stop minlen s = XErr (bs "AssertionError"%bs)
  | _ => find_orfs_any gap start stop rf ns need_stop minlen s = XErr (bs "TypeError"%bs)
  end.
Proof.
  intros S W1 W2. destruct rf as [r| | | |]; try reflexivity.
  destruct (orfs_frames_st_good (gap_set gap) (pat_words start) (pat_words stop) ns need_stop minlen s S W1 W2 (frames_of r) [])
    as [l [E F]]; [intros k v []|].
  exists l. unfold find_orfs_any. rewrite E. split; [reflexivity|exact F].
Qed.

(* ---- default settings: a repeated frame contributes nothing the second time ---------------------------------------------------- *)
Definition dead (v : list Z * list Z) : Prop := fst v = [] \/ snd v = [].

Lemma default_pass_dead : forall fuel minlen L frame fs last starts stops i2,
  zsorted stops -> Forall (stop_in L) stops -> Forall (start_in L) starts -> Forall (fun a => a < last) starts ->
  (length starts + length stops < fuel)%nat ->
  dead (snd (frame_loop_st fuel NSAlways true minlen L frame fs last starts stops i2)).
Proof.
  induction fuel as [|fuel IH]; intros minlen L frame fs last starts stops i2 Ss Bs Ba Bl Hf; [lia|].
  cbn [frame_loop_st loop_cond]. destruct starts as [|a ss]; [left; reflexivity|].
  cbn [is_nil negb choose_i1 pop_start fst snd].
  inversion Ba as [|? ? Ba1 Ba2]; subst. inversion Bl as [|? ? Bl1 Bl2]; subst. unfold start_in in Ba1.
  destruct (a >=? last) eqn:Hbr; [lia|].
  cbn [length] in Hf. unfold loop_body_st.
  destruct (match i2 with Some p => a <? p | None => false end).
  { apply IH; auto. lia. }
  destruct (next_stop a stops) as [[e r]|] eqn:N.
  - pose proof (next_stop_sorted _ _ _ _ Ss N) as [Sr Fr]. apply next_stop_some in N. destruct N as (N1 & N2 & N3 & N4).
    assert (Br : Forall (stop_in L) r) by (rewrite Forall_forall in *; intros x Hx; apply Bs; apply N4; exact Hx).
    assert (Be : e <= L) by (rewrite Forall_forall in Bs; specialize (Bs e N2); unfold stop_in in Bs; lia).
    destruct (inds2orf_some a e frame L) as [o [Eo _]]; try lia. rewrite Eo. unfold cons_res3. cbn [snd].
    destruct (e =? L) eqn:EL.
    + right. cbn [snd]. destruct r as [|x r']; [reflexivity|]. inversion Fr; subst. inversion Br; subst. unfold stop_in in *. lia.
    + apply IH; auto. lia.
  - right. reflexivity.
Qed.

Lemma dead_pass_nothing fuel minlen L frame fs last v :
  dead v -> exists v', frame_loop_st (S fuel) NSAlways true minlen L frame fs last (fst v) (snd v) None = (ROk [], v') /\ dead v'.
Proof.
  destruct v as [starts stops]. unfold dead. cbn [fst snd]. intros [E|E]; subst.
  - exists ([], stops). split; [reflexivity|left; reflexivity].
  - destruct starts as [|a ss]; [exists ([], []); split; [reflexivity|left; reflexivity]|].
    cbn [frame_loop_st loop_cond is_nil negb choose_i1 pop_start fst snd].
    destruct (a >=? last); [exists (ss, []); split; [reflexivity|right; reflexivity]|].
    unfold loop_body_st. cbn [next_stop]. exists (ss, []). split; [reflexivity|right; reflexivity].
Qed.

Fixpoint dedup_from (seen frames : list Z) : list Z :=
  match frames with
  | [] => []
  | f :: r => if existsb (Z.eqb f) seen then dedup_from seen r else f :: dedup_from (f :: seen) r
  end.

Lemma app_res_nil b : app_res (ROk []) b = b.
Proof. destruct b; reflexivity. Qed.

Lemma starts_x_before_last g sw s f : gap_safe g = true -> words_ok g sw = true ->
  Forall (fun a => a < Z.of_nat (last_res_g g (strand_data s f))) (starts_x g sw s f).
Proof.
  intros S W. destruct (words_ok_facts g sw W) as [NE C]. rewrite starts_x_transfer by assumption.
  rewrite last_res_transfer, <- strand_data_to_dash. apply starts_w_before_last; [exact NE|eapply clean_letters_ok; eauto].
Qed.

Theorem default_repeats_nothing g sw pw minlen s : gap_safe g = true -> words_ok g sw = true -> words_ok g pw = true ->
  forall frames st seen,
  (forall f, lookup_st f st = None <-> existsb (Z.eqb f) seen = false) ->
  (forall k v, In (k, v) st -> dead v) ->
  orfs_frames_st g sw pw NSAlways true minlen s st frames = orfs_frames_x g sw pw NSAlways true minlen s (dedup_from seen frames).
Proof.
  intros S W1 W2. induction frames as [|f r IH]; intros st seen Hk Hd; [reflexivity|].
  cbn [orfs_frames_st dedup_from]. unfold frame_pass_st. destruct (existsb (Z.eqb f) seen) eqn:Ef.
  - destruct (lookup_st f st) as [v|] eqn:El; [|apply Hk in El; congruence].
    pose proof (Hd f v (lookup_st_in f st v El)) as Dv.
    replace (length (fst v) + length (snd v) + 1)%nat with (Datatypes.S (length (fst v) + length (snd v))%nat) by lia.
    destruct (dead_pass_nothing (length (fst v) + length (snd v))%nat minlen (Z.of_nat (length s)) f
                (Z.of_nat (frame_start_g g (strand_data s f) f)) (Z.of_nat (last_res_g g (strand_data s f))) v Dv) as [v' [E Dv']].
    rewrite E. cbn [fst snd]. rewrite app_res_nil. apply IH.
    + intros f'. cbn [lookup_st]. destruct (f =? f') eqn:E'; [|apply Hk].
      assert (f' = f) by lia. subst f'. split; [discriminate|congruence].
    + intros k w [Hin|Hin]; [inversion Hin; subst; exact Dv'|apply (Hd k w Hin)].
  - destruct (lookup_st f st) as [v|] eqn:El; [assert (K : lookup_st f st = None) by (apply Hk; exact Ef); congruence|].
    cbn [fst snd orfs_frames_x]. rewrite frame_loop_st_fst. fold (frame_orfs_x g sw pw NSAlways true minlen s f). f_equal.
    destruct (custom_codon_lists g sw pw s f S W1 W2) as (S1 & S2 & B1 & B2).
    apply IH.
    + intros f'. cbn [lookup_st existsb]. destruct (f =? f') eqn:E'.
      * assert (E'' : (f' =? f) = true) by lia. rewrite E''. cbn [orb]. split; discriminate.
      * assert (E'' : (f' =? f) = false) by lia. rewrite E''. cbn [orb]. apply Hk.
    + intros k w [Hin|Hin]; [|apply (Hd k w Hin)]. inversion Hin; subst.
      apply default_pass_dead; auto.
      * apply starts_x_before_last; assumption.
      * lia.
Qed.

Theorem default_any_frames g sw pw minlen s frames : gap_safe g = true -> words_ok g sw = true -> words_ok g pw = true ->
  orfs_frames_st g sw pw NSAlways true minlen s [] frames = orfs_frames_x g sw pw NSAlways true minlen s (dedup_from [] frames).
Proof.
  intros S W1 W2. apply default_repeats_nothing; auto.
  - intros f. split; reflexivity.
  - intros k v [].
Qed.

(* ---- custom codon sets: the codon lists are complete iff the words cannot overlap one another ------------------------------------ *)
Definition codons3 (ws : list str) : bool := forallb (fun w => Nat.eqb (length w) 3) ws.
Lemma codons3_words ws : codons3 ws = true -> codon_words ws.
Proof.
  intros H. unfold codons3 in H. rewrite forallb_forall in H. apply Forall_forall. intros w Hw.
  apply Nat.eqb_eq. apply H. exact Hw.
Qed.

Theorem custom_codons_complete ws s f : codons3 ws = true -> no_overlap ws = true -> gapfree s = true ->
  forall i e, In (i, e) (hits ws s f) <-> e = (i + 3)%nat /\ codon_at ws s f i.
Proof.
  intros C NO G i e. rewrite (hits_gapfree_char ws s f (codons3_words ws C) NO G). unfold codon_at. tauto.
Qed.

(* re.finditer reports non-overlapping matches: with words that can overlap (alternative start codons ATG|GTG|TTG: the G of ATG
   begins GTG) an in-frame codon is hidden behind an out-of-frame one *)
Theorem custom_overlap_refuted :
  exists ws s f i, codons3 ws = true /\ gapfree s = true /\ no_overlap ws = false /\
                   codon_at ws s f i /\ ~ In (Z.of_nat i) (starts_w ws s f).
Proof.
  exists [bs "ATG"%bs; bs "GTG"%bs; bs "TTG"%bs], (bs "AATGTGCCCTAA"%bs), 0, 3%nat.
  split; [reflexivity|]. split; [reflexivity|]. split; [reflexivity|]. split.
  - unfold codon_at. split; [cbn; lia|]. split; reflexivity.
  - vm_compute. intros [].
Qed.

(* the default codon words are custom words in the sense of words_ok, for every safe gap set: the custom-codon theorems
   (exact result of every mode, is_orf_x) therefore cover the default settings under every gap option *)
Lemma default_words_ok g : gap_safe g = true -> words_ok g START_WORDS = true /\ words_ok g STOP_WORDS = true.
Proof.
  intros S. destruct (default_clean g S) as [C1 C2].
  assert (K : forall ws, clean g ws -> forallb (fun w => negb (is_nil w) && forallb is_alpha w) ws = true -> words_ok g ws = true).
  { intros ws C H. unfold words_ok. rewrite forallb_forall in *. intros w Hw. specialize (H w Hw). apply andb_prop in H.
    destruct H as [H1 H2]. unfold word_ok. rewrite H1. cbn [andb]. rewrite forallb_forall in *. intros c Hc.
    rewrite (H2 c Hc). destruct (C w c Hw Hc) as [G _]. rewrite G. reflexivity. }
  split; apply K; auto.
Qed.

(* ---- P2 (gap bijection) for custom codon sets and every gap set ------------------------------------------------------------------- *)
Lemma starts_w_degap sw s f : letters_ok sw -> nonempty_words sw ->
  starts_w sw (degap s) f = map (rbZ (strand_str s f)) (starts_w sw s f).
Proof.
  intros Lo NE. unfold starts_w. rewrite hits_degap by assumption.
  rewrite !map_map. apply map_ext. intros [i e]. unfold rbZ, rb_pair. cbn [fst]. rewrite Nat2Z.id. reflexivity.
Qed.
Lemma stops_w_degap pw s f : letters_ok pw -> nonempty_words pw ->
  stops_w pw (degap s) f = map (rbZ (strand_str s f)) (stops_w pw s f).
Proof.
  intros Lo NE. unfold stops_w. rewrite hits_degap by assumption.
  rewrite !map_map. apply map_ext. intros [i e]. unfold rbZ, rb_pair. cbn [snd]. rewrite Nat2Z.id. reflexivity.
Qed.
Lemma starts_w_res_col sw s f : letters_ok sw -> nonempty_words sw -> Forall (res_col (strand_str s f)) (starts_w sw s f).
Proof.
  intros Lo NE. apply Forall_forall. intros a H. unfold starts_w in H. apply in_map_iff in H.
  destruct H as [[i e] [E H]]. cbn in E. subst a. unfold hits in H. apply filter_In in H. destruct H as [H _].
  destruct (finditer_head _ _ _ _ _ _ NE H) as [_ [c [w [Hw Hn]]]]. rewrite Nat.sub_0_r in Hn.
  assert (G : is_gap c = false) by (apply (Lo (c :: w) c Hw); left; reflexivity).
  split; [lia|]. unfold rbZ. replace (Z.to_nat (Z.of_nat i + 1)) with (Datatypes.S i) by lia.
  rewrite Nat2Z.id, (rb_S_res _ _ _ Hn G). lia.
Qed.
Lemma stops_w_stoplike pw s f : letters_ok pw -> nonempty_words pw ->
  Forall (stoplike (rbZ (strand_str s f)) (Z.of_nat (length s))) (stops_w pw s f).
Proof.
  intros Lo NE. apply Forall_forall. intros z H. pose proof (stops_w_bound pw s f NE) as B. rewrite Forall_forall in B.
  specialize (B _ H). unfold stop_in in B. split; [lia|].
  unfold stops_w in H. apply in_map_iff in H. destruct H as [[i e] [E H]]. cbn in E. subst z.
  unfold hits in H. apply filter_In in H. destruct H as [H _].
  destruct (finditer_last _ _ _ _ _ _ Lo NE H) as [Hlt [c [N G]]].
  rewrite Nat.sub_0_r in N. unfold rbZ. replace (Z.to_nat (Z.of_nat e - 1)) with (e - 1)%nat by lia.
  rewrite Nat2Z.id. pose proof (rb_S_res _ _ _ N G) as RS. replace (Datatypes.S (e - 1)) with e in RS by lia. lia.
Qed.

Theorem frame_gap_bijection_w sw pw ns need_stop s f :
  letters_ok sw -> nonempty_words sw -> letters_ok pw -> nonempty_words pw ->
  exists l, frame_orfs_w sw pw ns need_stop 0 s f = ROk l /\ frame_orfs_w sw pw ns need_stop 0 (degap s) f = ROk (map (ren_orf s) l).
Proof.
  intros Lo1 NE1 Lo2 NE2. set (t := strand_str s f).
  assert (S : sim (rbZ t) (Z.of_nat (length s)) (Z.of_nat (length (degap s))) f
                (frame_orfs_w sw pw ns need_stop 0 s f) (frame_orfs_w sw pw ns need_stop 0 (degap s) f)).
  { unfold frame_orfs_w. rewrite starts_w_degap, stops_w_degap, !map_length by assumption. fold t.
    rewrite strand_data_degap, (last_res_gapfree _ (degap_gapfree _)).
    assert (ELd : length (degap (strand_data s f)) = length (degap s)).
    { rewrite !nres_degap. unfold strand_data. destruct (f >=? 0); [reflexivity|apply nres_rev]. }
    rewrite ELd.
    change (@None Z) with (option_map (rbZ t) None) at 2.
    apply frame_loop_sim.
    - intros x y H. apply rbZ_mono. exact H.
    - intros x Hx. unfold rbZ. pose proof (rb_le_nres t (Z.to_nat x)). unfold t in *. rewrite nres_strand in H.
      rewrite nres_degap. lia.
    - unfold rbZ. rewrite Nat2Z.id. unfold t.
      replace (length s) with (length (strand_str s f)) by apply strand_str_length. rewrite rb_full, nres_strand.
      rewrite nres_degap. reflexivity.
    - pose proof (last_res_le (strand_data s f)).
      assert (length (strand_data s f) = length s) by (unfold strand_data; destruct (f >=? 0); [reflexivity|apply rev_length]).
      lia.
    - intros x Hx. rewrite <- last_res_strand. fold t. unfold rbZ. rewrite nres_degap, <- (nres_strand s f). fold t.
      pose proof (last_res_rb t (Z.to_nat x)). lia.
    - eapply Forall_impl; [|apply starts_w_res_col; assumption]. intros a Ha. exact Ha.
    - apply stops_w_stoplike; assumption.
    - intros p Ep. discriminate.
    - split; [lia|]. unfold frame_start.
      pose proof (frame_start_degap (strand_data s f) (Z.to_nat (if f >=? 0 then f else - f - 1))) as FD.
      cbn zeta in FD. destruct FD as [[F1 F2]|[F1 F2]].
      + left. split; [lia|]. rewrite F2. unfold rbZ, t. rewrite Nat2Z.id, rb_strand. reflexivity.
      + right. split; [lia|]. rewrite ELd in F2. lia.
    - lia.
    - lia. }
  destruct S as [ps [E [E' B]]]. exists (map (mk_orf f (Z.of_nat (length s))) ps). split; [exact E|].
  rewrite E'. f_equal. rewrite !map_map. apply map_ext_in. intros [a e] Hin.
  rewrite Forall_forall in B. specialize (B _ Hin). cbn [fst snd] in B.
  apply (mk_orf_ren s f a e); lia.
Qed.

Theorem custom_gap_bijection g sw pw rf ns need_stop s :
  gap_safe g = true -> words_ok g sw = true -> words_ok g pw = true ->
  exists l, find_orfs_x g sw pw rf ns need_stop 0 s = ROk l /\
            find_orfs_x g sw pw rf ns need_stop 0 (degap_g g s) =
            ROk (map (fun o => mkorf (rbZ_g g s (o_start o)) (rbZ_g g s (o_stop o)) (o_plus o) (o_rf o)) l).
Proof.
  intros S W1 W2. destruct (words_ok_facts g sw W1) as [NE1 C1]. destruct (words_ok_facts g pw W2) as [NE2 C2].
  pose proof (clean_letters_ok g sw C1) as Lo1. pose proof (clean_letters_ok g pw C2) as Lo2.
  unfold find_orfs_x. induction (frames_of rf) as [|f fr IH].
  - exists []. split; reflexivity.
  - destruct IH as [l2 [E2 D2]]. cbn [orfs_frames_x]. rewrite E2, D2.
    rewrite !frame_orfs_x_transfer by assumption. rewrite <- degap_to_dash.
    destruct (frame_gap_bijection_w sw pw ns need_stop (to_dash g s) f Lo1 NE1 Lo2 NE2) as [l1 [E1 D1]].
    rewrite E1, D1. cbn [app_res]. exists (l1 ++ l2). split; [reflexivity|]. rewrite map_app. f_equal. f_equal.
    apply map_ext. intros o. unfold ren_orf, rbZ, rbZ_g. rewrite !rb_to_dash. reflexivity.
Qed.

(* ---- custom three-letter codon sets: frames count residues, ORFs hold a multiple of three residues ---------------------------------- *)
Theorem custom_is_orf_residues g sw pw s f a e :
  gap_safe g = true -> words_ok g sw = true -> words_ok g pw = true -> codons3 sw = true -> codons3 pw = true ->
  is_orf_x g sw pw s f a e ->
  rbZ_g g (strand_str s f) a mod 3 = frame_key f /\
  (rbZ_g g (strand_str s f) e - rbZ_g g (strand_str s f) a) mod 3 = 0.
Proof.
  intros S W1 W2 K1 K2 (Ha & He & _). destruct (words_ok_facts g sw W1) as [NE1 C1]. destruct (words_ok_facts g pw W2) as [NE2 C2].
  rewrite starts_x_transfer in Ha by assumption. rewrite stops_x_transfer in He by assumption.
  unfold starts_w in Ha. apply in_map_iff in Ha. destruct Ha as [[i1 e1] [E1 H1]]. cbn [fst] in E1.
  unfold stops_w in He. apply in_map_iff in He. destruct He as [[i2 e2] [E2 H2]]. cbn [snd] in E2.
  apply hits_residues in H1; [|exact NE1|apply codons3_words; exact K1|eapply clean_letters_ok; eauto].
  apply hits_residues in H2; [|exact NE2|apply codons3_words; exact K2|eapply clean_letters_ok; eauto].
  destruct H1 as [M1 _]. destruct H2 as [M2 L2]. subst a e. unfold rbZ_g. rewrite !Nat2Z.id.
  rewrite strand_str_to_dash in M1, M2, L2 by exact S. rewrite !rb_to_dash in M1, M2, L2. rewrite ?rb_to_dash in L2.
  split; [exact M1|]. rewrite L2.
  replace (Z.of_nat (rb_g g (strand_str s f) i2 + 3)) with (Z.of_nat (rb_g g (strand_str s f) i2) + 3) by lia.
  eapply mod3_diff; eauto.
Qed.
