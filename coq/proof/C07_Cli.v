(* C07 proofs, part 7: the command line entry point (sugar/scripts.py): option decision table, one translation per line,
   file input = basket, table named by int or str; baskets as maps; T/U spelling; the property in IUPAC terms. *)
From Coq Require Import List ZArith NArith Bool Lia Arith.
From Coq.Strings Require Import Byte.
Import ListNotations.
From SV Require Import Text C01_Dec C05_Model G_gc_ids G_c07_tabs C07_Model C07_Lemmas C07_Spec C07_Tables C07_Wrap C07_Main.

(* ---------------------------------------------------------------- options *)
Lemma cli_tt_fold args : forall acc,
  fold_left (fun acc a => match a with ATt n => n | AComplete => acc end) args acc =
  match last_tt args with Some n => n | None => acc end.
Proof.
  induction args as [|a r IH]; intros acc; cbn [fold_left last_tt]; [reflexivity|].
  rewrite IH. destruct (last_tt r); [reflexivity|]. destruct a; reflexivity.
Qed.

Lemma cli_tt_spec args : cli_tt args = match last_tt args with Some n => n | None => 1%N end.
Proof. unfold cli_tt. apply cli_tt_fold. Qed.

Lemma last_tt_In args : forall n, last_tt args = Some n -> In (ATt n) args.
Proof.
  induction args as [|a r IH]; intros n; cbn [last_tt]; [discriminate|].
  destruct (last_tt r) as [m|].
  - intros H. right. apply IH. exact H.
  - destruct a as [k|]; [|discriminate]. intros H. inversion H. left. reflexivity.
Qed.

Lemma last_tt_None args : last_tt args = None <-> forall n, ~ In (ATt n) args.
Proof.
  induction args as [|a r IH]; cbn [last_tt].
  - split; [intros _ n []|reflexivity].
  - destruct (last_tt r) as [m|] eqn:E.
    + split; [discriminate|]. intros H. exfalso. apply (H m). right. apply last_tt_In. exact E.
    + destruct a as [k|].
      * split; [discriminate|]. intros H. exfalso. apply (H k). left. reflexivity.
      * split; [|reflexivity]. intros _ n [H|H]; [discriminate|]. destruct IH as [IH _]. exact (IH eq_refl n H).
Qed.

(* the last -tt is really the last: nothing after it names a table *)
Lemma last_tt_split args n : last_tt args = Some n ->
  exists p q, args = p ++ ATt n :: q /\ forall m, ~ In (ATt m) q.
Proof.
  revert n. induction args as [|a r IH]; intros n; cbn [last_tt]; [discriminate|].
  destruct (last_tt r) as [m|] eqn:E.
  - intros H. inversion H; subst. destruct (IH n eq_refl) as (p & q & H1 & H2).
    exists (a :: p), q. split; [rewrite H1; reflexivity|exact H2].
  - destruct a as [k|]; [|discriminate]. intros H. inversion H; subst.
    exists [], r. split; [reflexivity|]. apply last_tt_None. exact E.
Qed.

Lemma cli_complete_In args : cli_complete args = true <-> In AComplete args.
Proof.
  unfold cli_complete. rewrite existsb_exists. split.
  - intros ([k|] & H & E); [discriminate|exact H].
  - intros H. exists AComplete. split; [exact H|reflexivity].
Qed.

(* the command line is always inside the option domain of the property, for every shipped table *)
Lemma cli_opts_ok k t args : In (k, t) tabs -> opts_ok t (cli_opts args) = true /\ lines_ok (cli_opts args) = true.
Proof.
  intros HT. unfold opts_ok. split; [|reflexivity].
  rewrite (gap_sym_ok_shipped k t (cli_opts args) "-"%byte HT eq_refl eq_refl); [reflexivity| |];
    intros E; vm_compute in E; discriminate.
Qed.

Lemma cli_options args :
  cli_tt args = match last_tt args with Some n => n | None => 1%N end /\
  o_complete (cli_opts args) = cli_complete args /\
  eff_check_start (cli_opts args) = negb (cli_complete args) /\
  o_check_stop (cli_opts args) = false /\
  eff_final_stop (cli_opts args) = cli_complete args /\
  o_astop (cli_opts args) = "X"%byte /\ o_gap (cli_opts args) = Some "-"%byte /\ o_gap_after (cli_opts args) = Some 2%Z /\
  (cli_complete args = true <-> In AComplete args).
Proof.
  split; [apply cli_tt_spec|]. repeat split; try reflexivity; apply cli_complete_In.
Qed.

(* ---------------------------------------------------------------- one translation per line *)
Lemma map_res_ok f : forall ls outs, map_res f ls = inl outs <-> Forall2 (fun l a => f l = Ok a) ls outs.
Proof.
  induction ls as [|l r IH]; intros outs; cbn [map_res].
  - split; [intros H; inversion H; constructor|intros H; inversion H; reflexivity].
  - destruct (f l) as [a|e] eqn:E.
    + destruct (map_res f r) as [x|e'] eqn:M.
      * split.
        -- intros H. inversion H; subst. constructor; [exact E|]. apply IH. reflexivity.
        -- intros H. inversion H as [|? b ? outs' H1 H2]; subst. rewrite E in H1. inversion H1; subst.
           apply IH in H2. inversion H2. reflexivity.
      * split; [discriminate|]. intros H. inversion H as [|? b ? outs' H1 H2]; subst. apply IH in H2. discriminate.
    + split; [discriminate|]. intros H. inversion H as [|? b ? outs' H1 H2]; subst. rewrite E in H1. discriminate.
Qed.

Lemma map_res_err f : forall ls e, map_res f ls = inr e <->
  exists p l r outs, ls = p ++ l :: r /\ Forall2 (fun l a => f l = Ok a) p outs /\ f l = Err e.
Proof.
  induction ls as [|l r IH]; intros e; cbn [map_res].
  - split; [discriminate|]. intros (p & l & r & outs & H & _). destruct p; discriminate.
  - destruct (f l) as [a|e0] eqn:E.
    + destruct (map_res f r) as [x|e'] eqn:M.
      * split; [discriminate|]. intros (p & l' & r' & outs & H & H1 & H2).
        destruct p as [|y p].
        -- inversion H; subst. rewrite E in H2. discriminate.
        -- inversion H; subst. inversion H1 as [|? b ? outs' H3 H4]; subst.
           assert (X: @inl (list str) err x = inr e) by (apply IH; exists p, l', r', outs'; auto).
           discriminate.
      * split.
        -- intros H. inversion H; subst. destruct (proj1 (IH e) eq_refl) as (p & l' & r' & outs & H1 & H2 & H3).
           exists (l :: p), l', r', (a :: outs). subst. repeat split; [constructor; assumption|exact H3].
        -- intros (p & l' & r' & outs & H & H1 & H2). destruct p as [|y p].
           ++ inversion H; subst. rewrite E in H2. discriminate.
           ++ inversion H; subst. inversion H1 as [|? b ? outs' H3 H4]; subst.
              apply IH. exists p, l', r', outs'. auto.
    + split.
      * intros H. inversion H; subst. exists [], l, r, []. repeat split; [constructor|exact E].
      * intros (p & l' & r' & outs & H & H1 & H2). destruct p as [|y p].
        -- inversion H; subst. rewrite E in H2. inversion H2. reflexivity.
        -- inversion H; subst. inversion H1 as [|? b ? outs' H3 H4]; subst. rewrite E in H3. discriminate.
Qed.

Lemma cli_lines t o s :
  (forall outs, script_str t o s = inl outs <-> Forall2 (fun l a => translate t o l = Ok a) (splitlines s) outs) /\
  (forall e, script_str t o s = inr e <->
     exists p l r outs, splitlines s = p ++ l :: r /\ Forall2 (fun l a => translate t o l = Ok a) p outs /\ translate t o l = Err e).
Proof. unfold script_str. split; [apply map_res_ok|apply map_res_err]. Qed.

(* splitlines is the inverse of "\n".join on newline-free lines whose last one is not empty *)
Lemma splitlines_aux_line l : forall cur, no_nl l = true ->
  splitlines_aux cur l = match rev cur ++ l with [] => [] | x :: y => [x :: y] end.
Proof.
  induction l as [|x l IH]; intros cur H.
  - cbn [splitlines_aux]. rewrite app_nil_r. destruct cur as [|c cur]; [reflexivity|].
    cbn [rev]. destruct (rev cur ++ [c]) eqn:E; [destruct (rev cur); discriminate|reflexivity].
  - cbn [no_nl forallb] in H. apply andb_prop in H. destruct H as [Hx Hl]. apply negb_true_iff in Hx.
    cbn [splitlines_aux]. rewrite Hx. rewrite (IH (x :: cur) Hl). cbn [rev]. rewrite <- app_assoc. reflexivity.
Qed.

Lemma splitlines_aux_nl l : forall cur r, no_nl l = true ->
  splitlines_aux cur (l ++ cNL :: r) = (rev cur ++ l) :: splitlines_aux [] r.
Proof.
  induction l as [|x l IH]; intros cur r H.
  - cbn [app splitlines_aux]. rewrite byte_eqb_refl, app_nil_r. reflexivity.
  - cbn [no_nl forallb] in H. apply andb_prop in H. destruct H as [Hx Hl]. apply negb_true_iff in Hx.
    cbn [app splitlines_aux]. rewrite Hx. rewrite (IH (x :: cur) r Hl). cbn [rev]. rewrite <- app_assoc. reflexivity.
Qed.

Lemma splitlines_join : forall ls, forallb no_nl ls = true -> last ls [cNL] <> [] -> splitlines (join_nl ls) = ls.
Proof.
  unfold splitlines. induction ls as [|l r IH]; intros H HL; [reflexivity|].
  cbn [forallb] in H. apply andb_prop in H. destruct H as [Hl Hr].
  destruct r as [|l2 r].
  - cbn [join_nl]. rewrite (splitlines_aux_line l [] Hl). cbn [rev app]. cbn [last] in HL. destruct l; [contradiction|reflexivity].
  - change (join_nl (l :: l2 :: r)) with (l ++ cNL :: join_nl (l2 :: r)).
    rewrite (splitlines_aux_nl l [] _ Hl). cbn [rev app]. f_equal. apply IH; [exact Hr|]. exact HL.
Qed.

(* a text of one non-empty line: the command line prints exactly what cane.translate returns, and fails exactly when it raises *)
Lemma cli_single_line t o s : no_nl s = true -> s <> [] ->
  script_str t o s = match translate t o s with Ok a => inl [a] | Err e => inr e end.
Proof.
  intros H HN. unfold script_str, splitlines. rewrite (splitlines_aux_line s [] H). cbn [rev app].
  destruct s as [|x y]; [contradiction|]. cbn [map_res]. destruct (translate t o (x :: y)); reflexivity.
Qed.

(* ---------------------------------------------------------------- baskets (and file input) are maps *)
Lemma basket_map_res t o : forall b,
  match map_res (translate t o) (map b_data b) with
  | inl outs => basket_translate t o b = (map mk_aa outs, None)
  | inr e => snd (basket_translate t o b) = Some e
  end.
Proof.
  induction b as [|q r IH]; [reflexivity|].
  cbn [map map_res basket_translate]. unfold bioseq_translate.
  destruct (translate t o (b_data q)) as [a|e]; [|reflexivity].
  destruct (map_res (translate t o) (map b_data r)) as [outs|e].
  - rewrite IH. reflexivity.
  - destruct (basket_translate t o r) as [r' e']. cbn [snd] in *. exact IH.
Qed.

Lemma cli_file t o recs :
  match map_res (translate t o) (map (map upper1) recs) with
  | inl outs => script_recs t o recs = (map mk_aa outs, None)
  | inr e => snd (script_recs t o recs) = Some e
  end.
Proof.
  unfold script_recs. pose proof (basket_map_res t o (map bioseq_new recs)) as H.
  rewrite map_map in H. exact H.
Qed.

(* ---------------------------------------------------------------- the table named by an int or by its decimal string *)
Lemma dec_N_inj a b : dec_N a = dec_N b -> a = b.
Proof.
  unfold dec_N. intros H. apply (f_equal Z_of_dec) in H. rewrite !Z_of_dec_of_Z in H. inversion H as [H1].
  apply N2Z.inj. exact H1.
Qed.

Lemma lookup_key_tab k : forall l, lookup_key (dec_N k) l = option_map (pair k) (lookup_tab k l).
Proof.
  induction l as [|[i t] l IH]; cbn [lookup_key lookup_tab]; [reflexivity|].
  destruct (N.eqb i k) eqn:E.
  - apply N.eqb_eq in E. subst. rewrite str_eqb_refl. reflexivity.
  - destruct (str_eqb (dec_N i) (dec_N k)) eqn:S; [|exact IH].
    apply str_eqb_eq in S. apply dec_N_inj in S. subst. rewrite N.eqb_refl in E. discriminate.
Qed.

Lemma tt_key_spec k :
  gcode_lookup (TStr (dec_N k)) = gcode_lookup (TInt k) /\
  gcode_lookup (TInt k) = option_map (pair k) (lookup_tab k tabs).
Proof. split; [reflexivity|apply lookup_key_tab]. Qed.

(* ---------------------------------------------------------------- T / U spelling, with gaps and options *)
Lemma u2t_t2u l : u2t (t2u l) = u2t l.
Proof.
  unfold u2t, t2u, replace1. rewrite map_map. apply map_ext. intro c.
  destruct (byte_eqb c cT) eqn:E.
  - apply byte_eqb_eq in E. subst. reflexivity.
  - reflexivity.
Qed.

Lemma tu_mixed t o l1 l2 : u2t l1 = u2t l2 -> translate t o l1 = translate t o l2.
Proof. unfold translate. intros H. rewrite H. reflexivity. Qed.

Lemma tu_spelling t o l :
  translate t o (t2u l) = translate t o l /\ translate t o (u2t l) = translate t o l /\
  (wf_C07 t o l = true ->
     res_degap o (translate t o l) = translate t o (u2t (degap_in o l)) /\
     u2t (degap_in o l) = degap_in o (u2t l)).
Proof.
  split; [apply tu_mixed, u2t_t2u|]. split; [apply tu_equiv|].
  intros H. destruct (wf_parts t o l H) as (H1 & H2 & H3). split.
  - rewrite (translate_degap t o l H). symmetry. apply tu_equiv.
  - symmetry. apply (degap_u2t o H3).
Qed.

(* ---------------------------------------------------------------- the property in IUPAC terms *)
Lemma codons_Forall (P : byte -> Prop) : forall l, Forall P l ->
  Forall (fun c => exists a b d, c = [a; b; d] /\ P a /\ P b /\ P d) (codons l).
Proof.
  induction l as [| x | x y | x y z r IH] using triple_ind; intros H; try (cbn [codons]; constructor).
  - exists x, y, z. inversion H as [|? ? Hx H1]; subst. inversion H1 as [|? ? Hy H2]; subst. inversion H2 as [|? ? Hz H3]; subst.
    repeat split; assumption.
  - apply IH. inversion H as [|? ? Hx H1]; subst. inversion H1 as [|? ? Hy H2]; subst. inversion H2 as [|? ? Hz H3]; subst. exact H3.
Qed.

Lemma is_nt_u2t_letter x : is_nt x = true -> In (if byte_eqb x cU then cT else x) letters.
Proof.
  unfold is_nt, is_letter, has. intros H. destruct (byte_eqb x cU) eqn:E.
  - vm_compute. tauto.
  - rewrite orb_false_r in H. apply existsb_exists in H. destruct H as (y & Hy & Hxy). apply byte_eqb_eq in Hxy. subst. exact Hy.
Qed.

Lemma wf_letters t o l : wf_C07 t o l = true -> Forall (fun x => In x letters) (u2t (degap_in o l)).
Proof.
  unfold wf_C07. intros H. apply andb_prop in H. destruct H as [H _]. apply andb_prop in H. destruct H as [H _].
  apply andb_prop in H. destruct H as [H _]. unfold u2t, replace1, degap_in.
  induction l as [|x l IH]; cbn [filter map]; [constructor|].
  cbn [forallb] in H. apply andb_prop in H. destruct H as [Hx Hl].
  destruct (is_gap o x) eqn:G; cbn [negb]; [apply IH; exact Hl|].
  cbn [map]. constructor; [|apply IH; exact Hl]. rewrite orb_false_r in Hx. apply is_nt_u2t_letter. exact Hx.
Qed.

(* for every shipped table and every input of the domain: the degapped output is the codon-level specification, and for every
   codon the specification reads, symbol / start / stop are the IUPAC reading of the table *)
Lemma translate_iupac k t o l : In (k, t) tabs -> wf_C07 t o l = true ->
  res_degap o (translate t o l) = spec_translate t o (u2t (degap_in o l)) /\
  Forall (fun c => aa_of t (o_astop o) c = spec_aa t (o_astop o) c /\
                   can_start t c = existsb (fun e => in_set e (g_starts t)) (expand c) /\
                   (is_stop t c = true -> unamb c = true))
         (codons (u2t (degap_in o l))).
Proof.
  intros HT H. split; [apply translate_master; exact H|].
  pose proof (codons_Forall (fun x => In x letters) _ (wf_letters t o l H)) as F.
  eapply Forall_impl; [|exact F]. intros c (a & b & d & E & Ha & Hb & Hd). subst c.
  split; [apply (aa_of_spec k); assumption|]. split; [apply (can_start_spec k); assumption|].
  apply (stops_unambiguous k); assumption.
Qed.

(* the command line follows the selected table: a one-line text of the domain is printed as the codon-level specification of the
   degapped text (up to gap symbols), and the call fails exactly when the specification raises *)
Lemma cli_follows_table t o s : no_nl s = true -> s <> [] -> wf_C07 t o s = true ->
  match script_str t o s with
  | inl [a] => spec_translate t o (u2t (degap_in o s)) = Ok (degap_out o a)
  | inl _ => False
  | inr e => spec_translate t o (u2t (degap_in o s)) = Err e
  end.
Proof.
  intros H HN W. rewrite (cli_single_line t o s H HN). pose proof (translate_master t o s W) as M.
  destruct (translate t o s) as [a|e]; cbn [res_degap] in M; symmetry; exact M.
Qed.
