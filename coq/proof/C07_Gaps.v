(* C07 proofs, part 5: exact number and placement of the gap symbols written by translate(). *)
From Coq Require Import List ZArith NArith Bool Lia Arith.
From Coq.Strings Require Import Byte.
Import ListNotations.
From SV Require Import Text C05_Model G_gc_ids G_c07_tabs C07_Model C07_Lemmas C07_Spec.

Definition inv (o : opts) (n g : Z) : Prop :=
  match o_gap_after o with
  | Some k => ((g < k)%Z /\ n = g) \/ ((k <= g)%Z /\ (k - 3 <= n <= k - 1)%Z /\ (n - (k - 3))%Z = ((g - k) mod 3)%Z)
  | None => True
  end.
Definition res_cons (x : byte) (r : res) : res := match r with Ok a => Ok (x :: a) | Err e => Err e end.

Section Gaps.
Variable t : gtab.
Variable o : opts.
Hypothesis Hafter : gap_after_ok o = true.

Lemma emit_nogap a n g : inv o n g -> emit_gap o a n = (a, n).
Proof.
  unfold inv, emit_gap, gap_after_ok in *. destruct (o_gap o); [|reflexivity].
  destruct (o_gap_after o) as [k|]; [|reflexivity]. apply Z.leb_le in Hafter. intros H.
  destruct (Z.eqb n k) eqn:E; [|reflexivity]. apply Z.eqb_eq in E. lia.
Qed.

Lemma emit_gapchar gc a n g : o_gap o = Some gc -> inv o n g ->
  fst (emit_gap o a (n + 1)) = (if emits o (g + 1) then gc :: a else a) /\
  inv o (snd (emit_gap o a (n + 1))) (g + 1).
Proof.
  unfold inv, emit_gap, emits, gap_after_ok in *. intros G. rewrite G.
  destruct (o_gap_after o) as [k|]; [|intros _; split; [reflexivity|exact I]].
  apply Z.leb_le in Hafter. intros H.
  destruct (Z.eqb (n + 1) k) eqn:E; cbn [fst snd].
  - apply Z.eqb_eq in E.
    assert (M: ((g + 1 - k) mod 3 = 0)%Z).
    { destruct H as [[H1 H2]|(H1 & H2 & H3)].
      - replace (g + 1 - k)%Z with 0%Z by lia. reflexivity.
      - pose proof (Z.mod_pos_bound (g - k) 3 ltac:(lia)) as B.
        assert (Q: (g - k = 3 * ((g - k) / 3) + (g - k) mod 3)%Z) by (apply Z.div_mod; lia).
        assert (M2: ((g - k) mod 3 = 2)%Z) by lia.
        replace (g + 1 - k)%Z with (((g - k) / 3 + 1) * 3)%Z by lia. apply Z.mod_mul. lia. }
    assert (L: (k <=? g + 1)%Z = true) by (apply Z.leb_le; destruct H as [[H1 H2]|(H1 & H2 & H3)]; lia).
    rewrite L, M. split; [reflexivity|]. right. repeat split; try lia.
  - apply Z.eqb_neq in E. destruct H as [[H1 H2]|(H1 & H2 & H3)].
    + assert (L: (k <=? g + 1)%Z = false) by (apply Z.leb_gt; lia). rewrite L. split; [reflexivity|]. left. lia.
    + pose proof (Z.mod_pos_bound (g - k) 3 ltac:(lia)) as B.
      assert (Q: (g - k = 3 * ((g - k) / 3) + (g - k) mod 3)%Z) by (apply Z.div_mod; lia).
      assert (M: ((g + 1 - k) mod 3 = (g - k) mod 3 + 1)%Z).
      { symmetry. apply (Z.mod_unique_pos _ _ ((g - k) / 3)); lia. }
      rewrite M. assert (NZ: (((g - k) mod 3 + 1) =? 0)%Z = false) by (apply Z.eqb_neq; lia).
      rewrite NZ, andb_false_r. split; [reflexivity|]. right. repeat split; lia.
Qed.

Lemma gaps_S gc m : o_gap o = Some gc -> gaps o (S m) = gc :: gaps o m.
Proof. intros G. unfold gaps. rewrite G. reflexivity. Qed.

Lemma bump_spec gc cs ms : o_gap o = Some gc ->
  spec_go_g t o cs (bump ms) = res_cons gc (spec_go_g t o cs ms).
Proof.
  intros G.
  assert (HB: hd 0 (bump ms) = S (hd 0 ms) /\ tl (bump ms) = tl ms) by (destruct ms; split; reflexivity).
  destruct HB as [HB1 HB2].
  destruct cs as [|c rest]; cbn [spec_go_g]; rewrite HB1, ?HB2, (gaps_S gc _ G).
  - destruct (o_check_stop o); reflexivity.
  - destruct (is_stop t c && o_check_stop o && negb match rest with [] => true | _ => false end); [reflexivity|].
    destruct (is_stop t c && (match rest with [] => true | _ => false end || negb (o_complete o))); [reflexivity|].
    destruct (spec_go_g t o rest (tl ms)); reflexivity.
Qed.

Lemma spec_cs_cons gc b cs r : spec_cs t b cs (res_cons gc r) = res_cons gc (spec_cs t b cs r).
Proof. unfold spec_cs. destruct cs; [reflexivity|]. destruct (b && negb (can_start t s)); reflexivity. Qed.

Lemma res_prefix_cons gc a r : res_prefix (gc :: a) r = res_prefix a (res_cons gc r).
Proof. destruct r; simpl; [rewrite <- app_assoc|]; reflexivity. Qed.

Lemma degap_in_cons x l : degap_in o (x :: l) = if is_gap o x then degap_in o l else x :: degap_in o l.
Proof. unfold degap_in. simpl. destruct (is_gap o x); reflexivity. Qed.

Lemma gaps_0 : gaps o 0 = [].
Proof. unfold gaps. destruct (o_gap o); reflexivity. Qed.

Definition CS (s : st) (l : str) := codons (codon s ++ degap_in o l).

Lemma go_gaps : forall l s g, inv o (ngap s) g -> (length (codon s) < 3)%nat -> nres s = length (degap_in o l) ->
  go t o s l = res_prefix (aas s)
    (spec_cs t (cs s) (CS s l) (spec_go_g t o (CS s l) (marks o g (length (codon s)) l))).
Proof.
  induction l as [|x l IH]; intros s g Hinv Hlen Hres.
  - unfold CS. cbn [go marks]. rewrite short_not_in_set by exact Hlen.
    assert (E: codons (codon s ++ degap_in o []) = []).
    { unfold degap_in. simpl. rewrite app_nil_r. destruct (codon s) as [|a [|b [|d r]]]; try reflexivity. simpl in Hlen. lia. }
    rewrite E. cbn [spec_cs spec_go_g hd]. rewrite gaps_0.
    destruct (o_check_stop o); simpl; [reflexivity|]. rewrite app_nil_r. reflexivity.
  - cbn [go marks]. rewrite degap_in_cons in Hres. unfold CS in *. rewrite degap_in_cons.
    destruct (is_gap o x) eqn:G.
    + (* a gap character *)
      assert (HG: exists gc, o_gap o = Some gc) by (unfold is_gap in G; destruct (o_gap o); [eexists; reflexivity|discriminate]).
      destruct HG as [gc HG].
      destruct (emit_gapchar gc (aas s) (ngap s) g HG Hinv) as [E1 E2].
      unfold step. rewrite G.
      assert (E: Nat.eqb (length (codon s)) 3 = false) by (apply Nat.eqb_neq; lia).
      rewrite E. unfold continue_.
      rewrite (IH _ (g + 1)%Z); cbn [aas ngap codon cs nres]; [|exact E2|exact Hlen|exact Hres].
      rewrite E1. destruct (emits o (g + 1)); [|reflexivity].
      rewrite (bump_spec gc _ _ HG), spec_cs_cons, res_prefix_cons. reflexivity.
    + (* a residue *)
      unfold step. rewrite G, (emit_nogap _ _ g Hinv). cbn [fst snd].
      destruct (codon s) as [|a [|b [|d r]]] eqn:EC; cbn [length] in Hlen; try lia.
      * (* first residue of a codon *)
        cbn [app length Nat.eqb]. unfold continue_.
        rewrite (IH _ g); cbn [aas ngap codon cs nres length]; [|exact Hinv|lia|rewrite Hres; reflexivity].
        reflexivity.
      * cbn [app length Nat.eqb]. unfold continue_.
        rewrite (IH _ g); cbn [aas ngap codon cs nres length]; [|exact Hinv|lia|rewrite Hres; reflexivity].
        reflexivity.
      * (* third residue: the codon [a; b; x] is complete *)
        cbn [app length Nat.eqb codons spec_cs].
        destruct (cs s && negb (can_start t [a; b; x])); [reflexivity|].
        cbv zeta. cbn [spec_go_g hd tl]. rewrite gaps_0. cbn [app].
        rewrite Hres. cbn [length pred].
        pose proof (codons_nil_iff (degap_in o l)) as HN.
        assert (SC: forall q, spec_cs t false (codons (degap_in o l)) q = q)
          by (intro q; unfold spec_cs; destruct (codons (degap_in o l)); reflexivity).
        assert (STEP: go t o {| aas := aa_of t (o_astop o) [a; b; x] :: aas s; ngap := ngap s; codon := []; cs := false;
                                nres := length (degap_in o l) |} l =
                      res_prefix (aas s) match spec_go_g t o (codons (degap_in o l)) (marks o g 0 l) with
                                         | Ok r => Ok (aa_of t (o_astop o) [a; b; x] :: r) | Err e => Err e end).
        { rewrite (IH _ g); cbn [aas ngap codon cs nres length app]; [|exact Hinv|lia|reflexivity].
          rewrite SC. destruct (spec_go_g t o (codons (degap_in o l)) (marks o g 0 l)); simpl; [|reflexivity].
          rewrite <- app_assoc. reflexivity. }
        rewrite HN.
        destruct (is_stop t [a; b; x]) eqn:ST; cbn [andb].
        -- destruct (o_check_stop o) eqn:CK; cbn [andb].
           ++ destruct (Nat.leb 3 (length (degap_in o l))) eqn:L3; cbn [negb orb andb]; [reflexivity|].
              simpl. destruct (eff_final_stop o); simpl; rewrite ?app_nil_r; reflexivity.
           ++ destruct (Nat.leb 3 (length (degap_in o l))) eqn:L3; cbn [negb orb andb].
              ** destruct (o_complete o) eqn:CO; cbn [negb].
                 --- unfold continue_. exact STEP.
                 --- simpl. destruct (eff_final_stop o); simpl; rewrite ?app_nil_r; reflexivity.
              ** simpl. destruct (eff_final_stop o); simpl; rewrite ?app_nil_r; reflexivity.
        -- unfold continue_. exact STEP.
Qed.

End Gaps.

Lemma spec_cs_started t o cs r :
  spec_cs t (eff_check_start o) cs r = if started t o cs then r else Err ENoStart.
Proof.
  unfold spec_cs, started. destruct cs as [|c rest].
  - rewrite orb_true_r. reflexivity.
  - destruct (eff_check_start o); cbn [negb andb orb]; [|reflexivity]. destruct (can_start t c); reflexivity.
Qed.

(* the loop with gaps = the codon-level specification with the gap symbols placed by [marks] *)
Lemma translate_t_gaps t o l : gap_after_ok o = true -> translate_t t o l = spec_translate_g t o l.
Proof.
  intros Hafter. unfold translate_t, spec_translate_g.
  rewrite (go_gaps t o Hafter l (init o l) 0%Z).
  - unfold CS, init. cbn [aas cs codon app length]. rewrite res_prefix_nil. apply spec_cs_started.
  - unfold inv, init. cbn [ngap]. unfold gap_after_ok in Hafter. destruct (o_gap_after o) as [k|]; [|exact I].
    apply Z.leb_le in Hafter. left. lia.
  - unfold init. simpl. lia.
  - reflexivity.
Qed.

(* ---- how many gap symbols: one after the first gap_after gap characters, then one per three *)
Lemma ecount_step o g : gap_after_ok o = true ->
  (ecount o (g + 1) = ecount o g + (if emits o (g + 1) then 1 else 0))%Z.
Proof.
  unfold gap_after_ok, ecount, emits. destruct (o_gap o); [|reflexivity].
  destruct (o_gap_after o) as [k|]; [|reflexivity]. intros H. apply Z.leb_le in H.
  destruct (Z.ltb (g + 1) k) eqn:L1.
  - apply Z.ltb_lt in L1. assert (L2: (g <? k)%Z = true) by (apply Z.ltb_lt; lia).
    assert (L3: (k <=? g + 1)%Z = false) by (apply Z.leb_gt; lia). rewrite L2, L3. reflexivity.
  - apply Z.ltb_ge in L1. assert (L3: (k <=? g + 1)%Z = true) by (apply Z.leb_le; lia). rewrite L3. cbn [andb].
    destruct (Z.ltb g k) eqn:L2.
    + apply Z.ltb_lt in L2. replace (g + 1 - k)%Z with 0%Z by lia. reflexivity.
    + apply Z.ltb_ge in L2.
      pose proof (Z.mod_pos_bound (g - k) 3 ltac:(lia)) as B.
      pose proof (Z.mod_pos_bound (g + 1 - k) 3 ltac:(lia)) as B'.
      assert (Q: (g - k = 3 * ((g - k) / 3) + (g - k) mod 3)%Z) by (apply Z.div_mod; lia).
      assert (Q': (g + 1 - k = 3 * ((g + 1 - k) / 3) + (g + 1 - k) mod 3)%Z) by (apply Z.div_mod; lia).
      destruct (Z.eqb ((g + 1 - k) mod 3) 0) eqn:E.
      * apply Z.eqb_eq in E. lia.
      * apply Z.eqb_neq in E. lia.
Qed.

Lemma sum_bump ms : sum_nat (bump ms) = S (sum_nat ms).
Proof. destruct ms; reflexivity. Qed.

Lemma marks_total o : gap_after_ok o = true -> forall l g r,
  (Z.of_nat (sum_nat (marks o g r l)) = ecount o (g + count_gap o l) - ecount o g)%Z.
Proof.
  intros H. induction l as [|x l IH]; intros g r.
  - unfold count_gap. simpl. replace (g + 0)%Z with g by lia. lia.
  - cbn [marks]. unfold count_gap in *. cbn [filter].
    destruct (is_gap o x) eqn:G.
    + cbn [length]. rewrite Nat2Z.inj_succ.
      replace (g + Z.succ (Z.of_nat (length (filter (is_gap o) l))))%Z
        with ((g + 1) + Z.of_nat (length (filter (is_gap o) l)))%Z by lia.
      pose proof (ecount_step o g H) as ES.
      destruct (emits o (g + 1)).
      * rewrite sum_bump, Nat2Z.inj_succ, IH. lia.
      * rewrite IH. lia.
    + destruct (Nat.eqb r 2); [cbn [sum_nat fold_right Nat.add]; fold (sum_nat (marks o g 0 l))|]; rewrite IH; lia.
Qed.

(* ---- removing the gap symbols from the gapped specification gives the gap-free specification *)
Section Degap.
Variable t : gtab.
Variable o : opts.
Hypothesis Hsym : gap_sym_ok t o = true.

Lemma degap_gaps m rest : degap_out o (gaps o m ++ rest) = degap_out o rest.
Proof.
  unfold gaps. destruct (o_gap o) as [gc|] eqn:G; [|reflexivity].
  induction m as [|m IH]; [reflexivity|]. cbn [repeat app]. unfold degap_out in *. cbn [filter].
  unfold is_gap at 1. rewrite G, byte_eqb_refl. cbn [negb]. exact IH.
Qed.

Lemma spec_go_g_degap : forall cs ms, res_degap o (spec_go_g t o cs ms) = spec_go t o cs.
Proof.
  induction cs as [|c rest IH]; intros ms; cbn [spec_go_g spec_go].
  - destruct (o_check_stop o); [reflexivity|]. cbn [res_degap]. rewrite <- (app_nil_r (gaps o (hd 0 ms))), degap_gaps. reflexivity.
  - destruct (is_stop t c && o_check_stop o && negb match rest with [] => true | _ => false end); [reflexivity|].
    destruct (is_stop t c && (match rest with [] => true | _ => false end || negb (o_complete o))).
    + cbn [res_degap]. rewrite degap_gaps. destruct (eff_final_stop o); [|reflexivity].
      rewrite (degap_cons_aa t o Hsym). reflexivity.
    + rewrite <- (IH (tl ms)). destruct (spec_go_g t o rest (tl ms)); [|reflexivity].
      cbn [res_degap]. rewrite degap_gaps, (degap_cons_aa t o Hsym). reflexivity.
Qed.
End Degap.

Lemma bump_length ms : ms <> [] -> length (bump ms) = length ms.
Proof. destruct ms; [congruence|reflexivity]. Qed.

Lemma marks_length o : forall l g pc, (length pc < 3)%nat ->
  length (marks o g (length pc) l) = S (length (codons (pc ++ degap_in o l))).
Proof.
  induction l as [|x l IH]; intros g pc Hpc.
  - unfold degap_in. simpl. rewrite app_nil_r. destruct pc as [|a [|b [|d r]]]; try reflexivity. simpl in Hpc. lia.
  - cbn [marks]. rewrite degap_in_cons. destruct (is_gap o x) eqn:G.
    + pose proof (IH (g + 1)%Z pc Hpc) as H.
      destruct (emits o (g + 1)); [|exact H]. rewrite bump_length; [exact H|].
      intros E. rewrite E in H. discriminate.
    + destruct pc as [|a [|b [|d r]]]; cbn [length] in *; try lia.
      * cbn [Nat.eqb]. apply (IH g [x]). simpl. lia.
      * cbn [Nat.eqb]. apply (IH g [a; x]). simpl. lia.
      * cbn [Nat.eqb app codons length]. f_equal. apply (IH g []). simpl. lia.
Qed.

Section Count.
Variable t : gtab.
Variable o : opts.
Variable gc : byte.
Hypothesis Hgap : o_gap o = Some gc.
Hypothesis Hsym : gap_sym_ok t o = true.

Lemma count_gap_app a b : count_gap o (a ++ b) = (count_gap o a + count_gap o b)%Z.
Proof. unfold count_gap. rewrite filter_app, app_length. lia. Qed.
Lemma count_gap_gaps m : count_gap o (gaps o m) = Z.of_nat m.
Proof.
  unfold gaps, count_gap. rewrite Hgap. induction m as [|m IH]; [reflexivity|]. cbn [repeat filter].
  unfold is_gap at 1. rewrite Hgap, byte_eqb_refl. cbn [length]. lia.
Qed.
Lemma count_gap_aa c r : count_gap o (aa_of t (o_astop o) c :: r) = count_gap o r.
Proof. unfold count_gap. cbn [filter]. rewrite (aa_nogap t o Hsym). reflexivity. Qed.

(* no stop codon, no stop check: every bucket of [marks] is written *)
Lemma spec_go_g_nostop : o_check_stop o = false -> forall cs ms,
  forallb (fun c => negb (is_stop t c)) cs = true -> length ms = S (length cs) ->
  exists out, spec_go_g t o cs ms = Ok out /\ count_gap o out = Z.of_nat (sum_nat ms).
Proof.
  intros CK. induction cs as [|c rest IH]; intros ms NS L.
  - cbn [spec_go_g]. rewrite CK. eexists; split; [reflexivity|]. rewrite count_gap_gaps.
    destruct ms as [|m [|m' r]]; simpl in *; try lia.
  - cbn [forallb] in NS. apply andb_prop in NS. destruct NS as [N1 N2]. apply negb_true_iff in N1.
    cbn [spec_go_g]. rewrite N1. cbn [andb].
    destruct ms as [|m r]; [simpl in L; lia|]. cbn [hd tl].
    destruct (IH r N2) as (out & E & C); [simpl in L; lia|].
    rewrite E. eexists; split; [reflexivity|].
    rewrite count_gap_app, count_gap_gaps, count_gap_aa, C. cbn [sum_nat fold_right]. fold (sum_nat r). lia.
Qed.
End Count.
