(* C07 proofs, part 3: finite facts about the 27 regenerated tables, by complete enumeration (vm_compute). *)
From Coq Require Import List ZArith NArith Bool Lia Arith MSetPositive.
From Coq.Strings Require Import Byte.
Import ListNotations.
From SV Require Import Text C05_Model G_gc_ids G_c07_tabs C07_Model G_c07_ok.

(* all 15^3 IUPAC codons of all shipped tables: G_c07_ok.tabs_aa_ok, tabs_symbols_ok (regenerated, one file per table) *)

Lemma tabs_keys : map fst tabs = json_ids.
Proof. vm_compute. reflexivity. Qed.

Lemma mem_add x y s : PositiveSet.mem x (PositiveSet.add y s) = Pos.eqb x y || PositiveSet.mem x s.
Proof.
  apply eq_true_iff_eq. rewrite orb_true_iff, !PositiveSet.mem_spec, PositiveSet.add_spec, Pos.eqb_eq. tauto.
Qed.
Lemma mem_setN n l : PositiveSet.mem (N.succ_pos n) (setN l) = memN n l.
Proof.
  induction l as [|m l IH]; simpl; [reflexivity|].
  rewrite mem_add, IH. f_equal.
  apply eq_true_iff_eq. rewrite Pos.eqb_eq, N.eqb_eq. split; [|congruence].
  intros H. apply (f_equal Npos) in H. rewrite !N.succ_pos_spec in H. apply N.succ_inj. exact H.
Qed.
Lemma in_setS_ok c l : in_setS c (setN l) = in_set c l.
Proof. unfold in_setS, in_set. destruct (codon_num c); [apply mem_setN|reflexivity]. Qed.
Lemma aa_check_fast_ok t c : aa_check_fast t (setN (g_astops t)) (setN (g_astarts t)) c = aa_check t c.
Proof. unfold aa_check_fast, aa_check, can_start. rewrite !in_setS_ok. reflexivity. Qed.

Lemma aa_check_shipped k t a b d : In (k, t) tabs -> In a letters -> In b letters -> In d letters ->
  aa_check t [a; b; d] = true.
Proof.
  intros HT Ha Hb Hd. pose proof tabs_aa_ok as H. rewrite forallb_forall in H. specialize (H _ HT). simpl in H.
  unfold table_aa_ok in H. cbv zeta in H. rewrite forallb_forall in H. specialize (H _ Ha). cbv beta in H.
  rewrite forallb_forall in H. specialize (H _ Hb). cbv beta in H.
  rewrite forallb_forall in H. specialize (H _ Hd). cbv beta in H. rewrite aa_check_fast_ok in H. exact H.
Qed.

(* the symbol written for a codon is the property's per-codon clause *)
Lemma aa_of_spec k t astop a b d : In (k, t) tabs -> In a letters -> In b letters -> In d letters ->
  aa_of t astop [a; b; d] = spec_aa t astop [a; b; d].
Proof.
  intros HT Ha Hb Hd. pose proof (aa_check_shipped k t a b d HT Ha Hb Hd) as H.
  unfold aa_check in H. apply andb_prop in H. destruct H as [H H5].
  apply andb_prop in H. destruct H as [H H4]. apply andb_prop in H. destruct H as [H H3].
  apply andb_prop in H. destruct H as [H1 H2]. apply Bool.eqb_prop in H1.
  unfold aa_of. destruct (in_set [a; b; d] (g_astops t)) eqn:AS.
  - unfold spec_aa. symmetry in H1. apply andb_prop in H1. destruct H1 as [U E]. apply negb_true_iff in U.
    rewrite U, E. reflexivity.
  - cbn [orb] in H2. apply byte_eqb_eq in H2. rewrite H2. unfold spec_aa.
    destruct (unamb [a; b; d]); [reflexivity|]. cbn [negb andb] in H1. rewrite <- H1. reflexivity.
Qed.

(* stop codons of the shipped tables are unambiguous, and every unambiguous codon has a table entry *)
Lemma stops_unambiguous k t a b d : In (k, t) tabs -> In a letters -> In b letters -> In d letters ->
  is_stop t [a; b; d] = true -> unamb [a; b; d] = true.
Proof.
  intros HT Ha Hb Hd S. pose proof (aa_check_shipped k t a b d HT Ha Hb Hd) as H.
  unfold aa_check in H. apply andb_prop in H. destruct H as [H H5].
  apply andb_prop in H. destruct H as [H H4]. apply andb_prop in H. destruct H as [H H3].
  rewrite S in H3. cbn [negb orb] in H3. exact H3.
Qed.

(* a codon can be a start iff one of its unambiguous readings is a start codon of the table *)
Lemma can_start_spec k t a b d : In (k, t) tabs -> In a letters -> In b letters -> In d letters ->
  can_start t [a; b; d] = existsb (fun e => in_set e (g_starts t)) (expand [a; b; d]).
Proof.
  intros HT Ha Hb Hd. pose proof (aa_check_shipped k t a b d HT Ha Hb Hd) as H.
  unfold aa_check in H. apply andb_prop in H. destruct H as [H H5]. apply Bool.eqb_prop in H5. exact H5.
Qed.

Lemma gap_sym_ok_shipped k t o g : In (k, t) tabs -> o_gap o = Some g ->
  has g aa_symbols = false -> g <> cX -> g <> o_astop o -> gap_sym_ok t o = true.
Proof.
  intros HT G HA HX HS. unfold gap_sym_ok. rewrite G.
  assert (E1: byte_eqb (o_astop o) g = false) by (apply byte_eqb_neq; congruence).
  assert (E2: byte_eqb cX g = false) by (apply byte_eqb_neq; congruence).
  rewrite E1, E2. cbn [negb andb].
  pose proof tabs_symbols_ok as H. rewrite forallb_forall in H. specialize (H _ HT). simpl in H.
  unfold tt_symbols_ok in H. rewrite forallb_forall in H. apply forallb_forall. intros kv Hkv.
  specialize (H _ Hkv). apply negb_true_iff. apply byte_eqb_neq. intros E. rewrite E in H. congruence.
Qed.
