(* C20: decimal literals. Printing an integer / a decimal m/10^k canonically and reading it back with the model's
   int()/float() readers gives the same number. *)
From Coq Require Import List ZArith NArith Bool Lia.
From Coq.Strings Require Import Byte.
From Coq Require Import Decimal DecimalZ.
Import ListNotations.
From SV Require Import Text G_submat_index C20_Model.

Lemma digits_acc_pos u : forall acc, digits_acc (uint_bytes u) (Zpos acc) = Some (Zpos (Pos.of_uint_acc u acc)).
Proof.
  induction u; intros acc; cbn [uint_bytes digits_acc digit_val Pos.of_uint_acc]; try reflexivity;
    rewrite <- IHu; f_equal; lia.
Qed.
Lemma digits_acc_uint u : digits_acc (uint_bytes u) 0%Z = Some (Z.of_N (Pos.of_uint u)).
Proof.
  induction u; cbn [uint_bytes digits_acc digit_val Pos.of_uint]; try reflexivity;
    try (change (0 * 10 + 0)%Z with 0%Z; exact IHu);
    match goal with |- digits_acc _ ?a = _ => let a' := eval cbv in a in change a with a' end;
    rewrite digits_acc_pos; reflexivity.
Qed.
Lemma uint_bytes_digits u : forallb is_digit (uint_bytes u) = true.
Proof. induction u; cbn [uint_bytes forallb]; try reflexivity; rewrite IHu; reflexivity. Qed.

(* non-negative integers: dec_of_Z gives digits only, and they read back *)
Lemma dec_nonneg z : (0 <= z)%Z ->
  exists u, dec_of_Z z = uint_bytes u /\ uint_bytes u <> [] /\ Z.of_N (Pos.of_uint u) = z.
Proof.
  intros H. pose proof (DecimalZ.of_to z) as E. unfold dec_of_Z.
  destruct z as [|p|p]; [|cbn [Z.to_int] in *|lia].
  - exists (D0 Nil). split; [reflexivity|split; [discriminate|reflexivity]].
  - exists (Pos.to_uint p). split; [reflexivity|]. split; [|exact E].
    destruct (Pos.to_uint p) eqn:Eu; cbn; try discriminate.
Qed.
Lemma digits_nonneg z : (0 <= z)%Z -> forallb is_digit (dec_of_Z z) = true /\ dec_of_Z z <> [] /\
  digits_acc (dec_of_Z z) 0%Z = Some z.
Proof.
  intros H. destruct (dec_nonneg z H) as (u & -> & Hne & E).
  split; [apply uint_bytes_digits|]. split; [exact Hne|]. rewrite digits_acc_uint, E. reflexivity.
Qed.

Lemma digit_not_sign c r : is_digit c = true ->
  Z_of_dec (c :: r) = nat_of_dec (c :: r).
Proof. destruct c; cbn; intros H; try reflexivity; discriminate. Qed.

(* int(str(z)) = z *)
Lemma Z_of_dec_of_Z z : Z_of_dec (dec_of_Z z) = Some z.
Proof.
  destruct (Z.leb_spec 0 z) as [H|H].
  - destruct (digits_nonneg z H) as (Hd & Hne & E).
    destruct (dec_of_Z z) as [|c r]; [congruence|].
    cbn [forallb] in Hd. apply andb_prop in Hd. rewrite (digit_not_sign c r (proj1 Hd)).
    unfold nat_of_dec. exact E.
  - destruct z as [|p|p]; try lia.
    unfold dec_of_Z. cbn [Z.to_int].
    assert (Hp : (0 <= Zpos p)%Z) by lia. destruct (digits_nonneg (Zpos p) Hp) as (_ & Hne & E).
    unfold dec_of_Z in Hne, E. cbn [Z.to_int] in Hne, E.
    cbn [Z_of_dec]. unfold nat_of_dec.
    destruct (uint_bytes (Pos.to_uint p)); [congruence|]. rewrite E. reflexivity.
Qed.
Lemma dec_of_Z_no_dot z : has_dot (dec_of_Z z) = false.
Proof.
  assert (G : forall s, forallb is_digit s = true -> has_dot s = false).
  { induction s as [|c s IH]; [reflexivity|]. cbn [forallb]. intros H. apply andb_prop in H. destruct H as [H1 H2].
    unfold has_dot. cbn [existsb]. fold (has_dot s). rewrite (IH H2).
    destruct c; cbn in H1; try discriminate; reflexivity. }
  destruct (Z.leb_spec 0 z) as [H|H].
  - apply G. exact (proj1 (digits_nonneg z H)).
  - destruct z as [|p|p]; try lia. unfold dec_of_Z. cbn [Z.to_int].
    unfold has_dot. cbn [existsb]. apply (G _ (uint_bytes_digits _)).
Qed.

(* --- decimals --- *)
Lemma span_digits_dot ip t : forallb is_digit ip = true ->
  span_digits (ip ++ "."%byte :: t) = (ip, "."%byte :: t).
Proof.
  induction ip as [|c ip IH]; intros H; [reflexivity|].
  cbn [forallb] in H. apply andb_prop in H. destruct H as [H1 H2].
  simpl. rewrite H1, (IH H2). reflexivity.
Qed.
Lemma zeros_digits n : forallb is_digit (zeros n) = true.
Proof. induction n; [reflexivity|]. cbn. exact IHn. Qed.
Lemma zeros_length n : length (zeros n) = n.
Proof. induction n; [reflexivity|]. cbn. rewrite IHn. reflexivity. Qed.
Lemma digits_acc_zeros n s : digits_acc (zeros n ++ s) 0%Z = digits_acc s 0%Z.
Proof. induction n; [reflexivity|]. cbn [zeros List.app digits_acc digit_val]. exact IHn. Qed.
Lemma forallb_firstn {A} (P : A -> bool) n l : forallb P l = true -> forallb P (firstn n l) = true.
Proof.
  revert n; induction l as [|x l IH]; intros [|n] H; try reflexivity.
  cbn in *. apply andb_prop in H. destruct H as [H1 H2]. rewrite H1, (IH n H2). reflexivity.
Qed.
Lemma forallb_skipn {A} (P : A -> bool) n l : forallb P l = true -> forallb P (skipn n l) = true.
Proof.
  revert n; induction l as [|x l IH]; intros [|n] H; try reflexivity; [exact H|].
  cbn in *. apply andb_prop in H. exact (IH n (proj2 H)).
Qed.

Lemma udec_canonical ds k : forallb is_digit ds = true -> (k < length ds)%nat ->
  forall z, digits_acc ds 0%Z = Some z ->
  udec (firstn (length ds - k) ds ++ "."%byte :: skipn (length ds - k) ds) = Some (z, k).
Proof.
  intros Hd Hk z Hz. unfold udec.
  rewrite (span_digits_dot _ _ (forallb_firstn _ _ _ Hd)).
  rewrite byte_eqb_refl, (forallb_skipn _ _ _ Hd). cbn [andb].
  rewrite firstn_skipn.
  destruct ds as [|d ds']; [cbn in Hk; lia|]. rewrite Hz.
  rewrite skipn_length. f_equal. f_equal. lia.
Qed.

Lemma render_dec_digits m k :
  let ds := zeros (S k - length (dec_of_Z (Z.abs m))) ++ dec_of_Z (Z.abs m) in
  forallb is_digit ds = true /\ (k < length ds)%nat /\ digits_acc ds 0%Z = Some (Z.abs m).
Proof.
  cbn zeta. destruct (digits_nonneg (Z.abs m) (Z.abs_nonneg m)) as (Hd & _ & E).
  split; [rewrite forallb_app, zeros_digits, Hd; reflexivity|].
  split; [rewrite app_length, zeros_length; lia|].
  rewrite digits_acc_zeros. exact E.
Qed.

(* float(literal of m/10^k) reads m and k back *)
Lemma dec_of_token_render m k : dec_of_token (render_dec m k) = Some (m, k).
Proof.
  unfold render_dec. destruct (render_dec_digits m k) as (Hd & Hk & E). cbn zeta in *.
  set (ds := zeros (S k - length (dec_of_Z (Z.abs m))) ++ dec_of_Z (Z.abs m)) in *.
  pose proof (udec_canonical ds k Hd Hk _ E) as U.
  destruct (Z.ltb_spec m 0) as [Hm|Hm].
  - cbn [List.app dec_of_token]. rewrite U. f_equal. f_equal. lia.
  - cbn [app].
    assert (Hn : (0 < length ds - k)%nat) by lia.
    destruct ds as [|d ds'] eqn:Eds; [cbn in Hk; lia|].
    destruct (length (d :: ds') - k)%nat as [|n] eqn:En; [lia|].
    cbn [firstn List.app] in *. cbn [forallb] in Hd. apply andb_prop in Hd. destruct Hd as [Hd1 _].
    assert (G : dec_of_token (d :: firstn n ds' ++ "."%byte :: skipn (S n) (d :: ds')) =
                udec (d :: firstn n ds' ++ "."%byte :: skipn (S n) (d :: ds'))).
    { destruct d; cbn in Hd1; try discriminate; reflexivity. }
    rewrite G, U. f_equal. f_equal. lia.
Qed.
Lemma render_dec_has_dot m k : has_dot (render_dec m k) = true.
Proof.
  unfold render_dec, has_dot. rewrite !existsb_app. cbn [existsb]. rewrite byte_eqb_refl.
  cbn [orb]. rewrite !orb_true_r. reflexivity.
Qed.

(* the round trip for both kinds of cells, with the reader the row selects *)
Lemma parse_render_num v : parse_num (negb (is_int_num v)) (render_num v) = Some v /\
  has_dot (render_num v) = negb (is_int_num v).
Proof.
  destruct v as [z|m k]; cbn [is_int_num negb render_num parse_num]; unfold py_int, py_float.
  - rewrite Z_of_dec_of_Z, dec_of_Z_no_dot. split; reflexivity.
  - rewrite dec_of_token_render, render_dec_has_dot. split; reflexivity.
Qed.
