(* C11 round 7: _CONVERTH entry by entry, and typed columns / common metadata for every feature of a whole read *)
From Coq Require Import List ZArith NArith Bool Lia.
From Coq.Strings Require Import Byte.
Import ListNotations.
From SV Require Import Text G_tab C11_Model C11_Lemmas C11_TextLemmas C11_FileLemmas C11_IntLemmas C11_SelectLemmas C11_BlocksLemmas
  C11_AnyLemmas C11_TableLemmas.

(* every entry k -> col of _CONVERTH[d]: col is a column of d's table that declares k as its BLAST equivalent, and (frames
   apart) it has the type of BLAST's column k; hence the same key is converted with the same type in every dialect *)
Lemma converth_typed d k col : In (Some k, col) (converth_of d) ->
  exists hd, find_hdr false col (header_of d) = Some hd /\ hbeq hd = Some k /\
             (mem k frame_keys = false -> type_of_col Blast k = Some (htype hd)).
Proof.
  intros I. pose proof converth_typed_all as C. unfold converth_typed_ok in C. apply andb_prop in C. destruct C as [C _].
  rewrite forallb_forall in C. assert (ID : In d dialects) by (destruct d; cbn; auto). specialize (C d ID).
  rewrite forallb_forall in C. specialize (C _ I). unfold converth_entry_ok in C. cbn [fst snd] in C.
  destruct (find_hdr false col (header_of d)) as [hd|]; [|discriminate]. exists hd. split; [reflexivity|].
  destruct (hbeq hd) as [k'|]; [|discriminate]. apply andb_prop in C. destruct C as [C1 C2]. apply str_eqb_eq in C1. subst k'.
  split; [reflexivity|]. intros NF. rewrite NF in C2. cbn [orb] in C2.
  destruct (type_of_col Blast k) as [t|]; cbn in C2; [|discriminate]. apply coltype_eqb_eq in C2. congruence.
Qed.

Lemma rows_features_each d ftype hs : forall rows fs, rows_features d ftype hs rows = Ok fs ->
  Forall2 (fun toks f => row_feature d ftype hs toks = Ok f) rows fs.
Proof.
  induction rows as [|r rows IH]; intros fs H; cbn [rows_features] in H.
  - inversion H. constructor.
  - destruct (row_feature d ftype hs r) as [f|] eqn:R; [|discriminate]. destruct (rows_features d ftype hs rows) as [gs|]; [|discriminate].
    inversion H. constructor; [exact R|apply IH; reflexivity].
Qed.

(* what holds for every feature of a read with outfmt=, whatever the text is: every selected column is a key of the format
   metadata holding a token of that line converted with the declared type; the common metadata is the documented projection *)
Definition feature_typed (d : dialect) (ftype : option str) (hs : list hdr) (f : feat) : Prop :=
  (forall h, In h hs -> exists t v, assoc (hname h) (declared_types d) = Some t /\ assoc (hname h) (f_fmt f) = Some (conv t v)) /\
  (exists a, f_common f = type_entry ftype a ++ common_projection d (f_fmt f)).

Lemma row_feature_typed d ftype hs toks f : nodup_str (map hname hs) = true -> (forall h, In h hs -> In h (header_of d)) ->
  row_feature d ftype hs toks = Ok f -> feature_typed d ftype hs f.
Proof.
  intros ND IN R. split.
  - intros h Ih. destruct (In_nth_error _ _ Ih) as (i & Hi).
    destruct (row_to_feature d ftype hs toks f ND R) as (L & _).
    assert (LT : (i < length toks)%nat) by (rewrite L; apply nth_error_Some; congruence).
    destruct (nth_error toks i) as [v|] eqn:Hv; [|apply nth_error_None in Hv; lia].
    destruct (columns_typed d ftype hs toks f ND IN R i h v Hi Hv) as (t & T1 & T2). exists t, v. split; assumption.
  - exists (row_attrs hs toks). apply common_metadata_row. exact R.
Qed.

Lemma read_features_typed d sep o ftype univ hs content fs :
  (match d with Infernal => false | _ => true end) = true -> headers_from false d (split_ws o) = Ok hs ->
  nodup_str (map hname hs) = true -> snd (read_content d sep (Some o) ftype univ content) = Ok fs ->
  Forall (feature_typed d ftype hs) fs.
Proof.
  intros NDI H ND R. rewrite (read_any_outfmt d sep o ftype univ hs content NDI H) in R. unfold lines_features in R.
  apply rows_features_each in R.
  induction R as [|toks f rows fs' RF _ IH]; constructor; [|exact IH].
  eapply row_feature_typed; [exact ND|exact (headers_from_in false d _ hs H)|exact RF].
Qed.
