From Coq Require Import List ZArith NArith Bool Lia.
From Coq.Strings Require Import Byte.
Import ListNotations.
From SV Require Import Text G_codes C05_Model.

Ltac bytes c := destruct c; vm_compute; try reflexivity; try discriminate; auto.

(* ---------------- finite facts over the regenerated tables ---------------- *)
Lemma alphabet_sym_ok : forallb sym_ok alphabet = true.
Proof. vm_compute. reflexivity. Qed.
Lemma alphabet_tables_agree : forallb tables_agree alphabet = true.
Proof. vm_compute. reflexivity. Qed.

Lemma has_In c s : has c s = true <-> In c s.
Proof.
  unfold has. rewrite existsb_exists. split.
  - intros (x & Hx & E). apply byte_eqb_eq in E. subst. exact Hx.
  - intros H. exists c. split; [exact H|apply byte_eqb_refl].
Qed.

Lemma complement_table_sound c : In c alphabet ->
  set_eqb (iupac (trans1 c)) (map wc (iupac c)) = true /\
  In (trans1 c) alphabet /\
  (is_gapsym c = true -> trans1 c = c).
Proof.
  intros H. pose proof alphabet_sym_ok as A. rewrite forallb_forall in A. specialize (A c H).
  unfold sym_ok in A. apply andb_prop in A. destruct A as [A G]. apply andb_prop in A. destruct A as [A B].
  split; [exact A|]. split; [apply has_In; exact B|].
  intros Hg. rewrite Hg in G. apply byte_eqb_eq in G. exact G.
Qed.

Lemma trans_is_table c : In c alphabet -> lookupB c COMPLEMENT_ALL = Some (trans1 c).
Proof.
  intros H. pose proof alphabet_tables_agree as A. rewrite forallb_forall in A. specialize (A c H).
  unfold tables_agree in A. destruct (lookupB c COMPLEMENT_ALL) as [d|]; [|discriminate].
  apply byte_eqb_eq in A. congruence.
Qed.

(* per-byte facts (all 256 code points) *)
Lemma trans1_invol_alpha c : in_alpha c = true -> trans1 (trans1 c) = c.
Proof. bytes c. Qed.
Lemma trans1_alpha c : in_alpha c = true -> in_alpha (trans1 c) = true.
Proof. bytes c. Qed.
Lemma alpha_not_U c : in_alpha c = true -> byte_eqb cU c = false.
Proof. bytes c. Qed.
Lemma trans1_not_U c : byte_eqb cU c = false -> byte_eqb cU (trans1 c) = false.
Proof. bytes c. Qed.
Lemma trans1_U : trans1 cU = cU.
Proof. vm_compute. reflexivity. Qed.

(* ---------------- structural lemmas ---------------- *)
Lemma has_rev c s : has c (rev s) = has c s.
Proof.
  destruct (has c s) eqn:E.
  - apply has_In. apply -> in_rev. apply has_In. exact E.
  - destruct (has c (rev s)) eqn:E2; [|reflexivity].
    apply has_In in E2. apply in_rev in E2. apply has_In in E2. congruence.
Qed.

Lemma has_false_forall c s : has c s = false <-> forallb (fun x => negb (byte_eqb c x)) s = true.
Proof.
  unfold has. induction s as [|x s IH]; simpl; [tauto|].
  destruct (byte_eqb c x); simpl; [split; discriminate|exact IH].
Qed.

Lemma replace1_rev a b s : replace1 a b (rev s) = rev (replace1 a b s).
Proof. unfold replace1. apply map_rev. Qed.
Lemma py_translate_rev s : py_translate (rev s) = rev (py_translate s).
Proof. unfold py_translate. apply map_rev. Qed.

Lemma complement_rev s : complement (rev s) = rev (complement s).
Proof.
  unfold complement. rewrite has_rev. destruct (has cU s).
  - unfold t2u, u2t. rewrite replace1_rev, py_translate_rev, replace1_rev. reflexivity.
  - apply py_translate_rev.
Qed.

Lemma rc_defs s : rc s = complement (rev s) /\ rc s = rev (complement s).
Proof. unfold rc, reverse. split; [reflexivity|apply complement_rev]. Qed.

Lemma complement_length s : length (complement s) = length s.
Proof. unfold complement, t2u, u2t, replace1, py_translate. destruct (has cU s); rewrite ?map_length; reflexivity. Qed.
Lemma rc_length s : length (rc s) = length s.
Proof. unfold rc, reverse. rewrite complement_length. apply rev_length. Qed.

Lemma alpha_no_U s : forallb in_alpha s = true -> has cU s = false.
Proof.
  intros H. apply has_false_forall. rewrite forallb_forall in *. intros x Hx.
  rewrite alpha_not_U; [reflexivity|auto].
Qed.

Lemma complement_pointwise s : has cU s = false -> complement s = map trans1 s.
Proof. intros H. unfold complement. rewrite H. reflexivity. Qed.

Lemma complement_alpha s : forallb in_alpha s = true -> forallb in_alpha (complement s) = true.
Proof.
  intros H. rewrite complement_pointwise by (apply alpha_no_U; exact H).
  rewrite forallb_forall in *. intros y Hy. apply in_map_iff in Hy. destruct Hy as (x & E & Hx). subst.
  apply trans1_alpha. auto.
Qed.

Lemma complement_involutive s : forallb in_alpha s = true -> complement (complement s) = s.
Proof.
  intros H. rewrite (complement_pointwise (complement s)) by (apply alpha_no_U, complement_alpha, H).
  rewrite complement_pointwise by (apply alpha_no_U; exact H).
  rewrite map_map. rewrite <- (map_id s) at 2. apply map_ext_in. intros c Hc.
  apply trans1_invol_alpha. rewrite forallb_forall in H. auto.
Qed.

Lemma rev_alpha s : forallb in_alpha s = true -> forallb in_alpha (rev s) = true.
Proof. rewrite !forallb_forall. intros H x Hx. apply H. apply in_rev. exact Hx. Qed.

Lemma rc_involutive s : forallb in_alpha s = true -> rc (rc s) = s.
Proof.
  intros H. unfold rc at 1. unfold reverse. rewrite complement_rev. unfold rc, reverse.
  rewrite complement_involutive by (apply rev_alpha; exact H). apply rev_involutive.
Qed.

(* ---------------- GC content ---------------- *)
Lemma complement_as_map s : complement s = map (cc (has cU s)) s.
Proof.
  unfold complement, cc, t2u, u2t, replace1, py_translate. destruct (has cU s); rewrite ?map_map; reflexivity.
Qed.

Definition isGC (c : byte) := byte_eqb "G"%byte c || byte_eqb "C"%byte c.
Definition isATU (c : byte) := byte_eqb "A"%byte c || byte_eqb "T"%byte c || byte_eqb "U"%byte c.
Lemma cc_GC u c : (u = false -> byte_eqb cU c = false) -> isGC (cc u c) = isGC c /\ isATU (cc u c) = isATU c.
Proof.
  destruct u; intros H.
  - clear H. destruct c; vm_compute; split; reflexivity.
  - specialize (H eq_refl). revert H. destruct c; vm_compute; intros H; try discriminate; split; reflexivity.
Qed.

Definition nGC (s : str) := length (filter isGC s).
Definition nATU (s : str) := length (filter isATU s).

Lemma count_split (p q : byte -> bool) s : (forall c, p c && q c = false) ->
  length (filter (fun c => p c || q c) s) = length (filter p s) + length (filter q s).
Proof.
  intros D. induction s as [|x s IH]; simpl; [reflexivity|].
  specialize (D x). destruct (p x), (q x); simpl in *; try discriminate; lia.
Qed.

Lemma gc_counts_alt s : gc_counts s = (nGC s, nGC s + nATU s).
Proof.
  unfold gc_counts, nGC, nATU, isGC, isATU, count.
  rewrite (count_split (byte_eqb "G"%byte) (byte_eqb "C"%byte)) by (intros c; bytes c).
  rewrite (count_split (fun c => byte_eqb "A"%byte c || byte_eqb "T"%byte c) (byte_eqb "U"%byte)) by (intros c; bytes c).
  rewrite (count_split (byte_eqb "A"%byte) (byte_eqb "T"%byte)) by (intros c; bytes c).
  reflexivity.
Qed.

Lemma filter_map_len (f : byte -> byte) (p : byte -> bool) s :
  (forall c, In c s -> p (f c) = p c) -> length (filter p (map f s)) = length (filter p s).
Proof.
  induction s as [|x s IH]; intros H; simpl; [reflexivity|].
  rewrite (H x (or_introl eq_refl)). destruct (p x); simpl; rewrite IH; auto; intros; apply H; right; assumption.
Qed.

Lemma filter_rev_len (p : byte -> bool) s : length (filter p (rev s)) = length (filter p s).
Proof.
  induction s as [|x s IH]; simpl; [reflexivity|].
  rewrite filter_app, app_length, IH. simpl. destruct (p x); simpl; lia.
Qed.

Lemma gc_complement s : gc_counts (complement s) = gc_counts s.
Proof.
  rewrite !gc_counts_alt. rewrite complement_as_map. unfold nGC, nATU.
  assert (H: forall c, In c s -> isGC (cc (has cU s) c) = isGC c /\ isATU (cc (has cU s) c) = isATU c).
  { intros c Hc. apply cc_GC. intros Hu. apply has_false_forall in Hu. rewrite forallb_forall in Hu.
    specialize (Hu c Hc). destruct (byte_eqb cU c); [discriminate|reflexivity]. }
  rewrite !filter_map_len; [reflexivity| |]; intros c Hc; apply H; exact Hc.
Qed.

Lemma gc_rc s : gc_counts (rc s) = gc_counts s.
Proof.
  unfold rc, reverse. rewrite gc_complement. rewrite !gc_counts_alt. unfold nGC, nATU. rewrite !filter_rev_len. reflexivity.
Qed.

(* ---------------- RNA: identical up to writing U for T ---------------- *)
Lemma u2t_no_U s : has cU (u2t s) = false.
Proof.
  apply has_false_forall. unfold u2t, replace1. rewrite forallb_forall. intros y Hy.
  apply in_map_iff in Hy. destruct Hy as (x & E & _). subst. bytes x.
Qed.
Lemma u2t_id s : has cU s = false -> u2t s = s.
Proof.
  intros H. apply has_false_forall in H. unfold u2t, replace1. rewrite <- (map_id s) at 2.
  apply map_ext_in. intros c Hc. rewrite forallb_forall in H. specialize (H c Hc).
  destruct (byte_eqb c cU) eqn:E; [|reflexivity]. apply byte_eqb_eq in E. subst. discriminate.
Qed.
Lemma u2t_t2u s : u2t (t2u s) = u2t s.
Proof. unfold u2t, t2u, replace1. rewrite map_map. apply map_ext. intros c. bytes c. Qed.
Lemma translate_no_U s : has cU s = false -> has cU (py_translate s) = false.
Proof.
  intros H. apply has_false_forall. apply has_false_forall in H. unfold py_translate.
  rewrite forallb_forall in *. intros y Hy. apply in_map_iff in Hy. destruct Hy as (x & E & Hx). subst.
  specialize (H x Hx). rewrite trans1_not_U; [reflexivity|]. destruct (byte_eqb cU x); [discriminate|reflexivity].
Qed.

Lemma rna_complement s : u2t (complement s) = complement (u2t s).
Proof.
  unfold complement at 2. rewrite u2t_no_U. unfold complement. destruct (has cU s) eqn:E.
  - rewrite u2t_t2u. apply u2t_id. apply translate_no_U. apply u2t_no_U.
  - rewrite (u2t_id s E). apply u2t_id. apply translate_no_U. exact E.
Qed.
Lemma u2t_rev s : u2t (rev s) = rev (u2t s).
Proof. apply replace1_rev. Qed.
Lemma rna_rc s : u2t (rc s) = rc (u2t s).
Proof. unfold rc, reverse. rewrite rna_complement, u2t_rev. reflexivity. Qed.

Definition in_alpha_rna (c : byte) := in_alpha c || byte_eqb cU c.
Lemma u2t_alpha s : forallb in_alpha_rna s = true -> forallb in_alpha (u2t s) = true.
Proof.
  rewrite !forallb_forall. intros H y Hy. unfold u2t, replace1 in Hy. apply in_map_iff in Hy.
  destruct Hy as (x & E & Hx). subst. specialize (H x Hx). revert H. bytes x.
Qed.
Lemma rna_rc_involutive s : forallb in_alpha_rna s = true -> u2t (rc (rc s)) = u2t s.
Proof. intros H. rewrite !rna_rc. apply rc_involutive. apply u2t_alpha. exact H. Qed.

Lemma basket_rc_spec b : basket_rc b = map rc b /\ length (basket_rc b) = length b.
Proof. unfold basket_rc. split; [reflexivity|apply map_length]. Qed.

Ltac split_pos3 n q := match n with O => idtac | S ?m => destruct q as [q|q|]; [split_pos3 m q|split_pos3 m q|] end.
Lemma run_C05_lin_eq : forall op s, run_C05_lin op s = run_C05 op s.
Proof.
  intros op s. destruct op as [|p]; [reflexivity|]. split_pos3 3 p; cbn [run_C05_lin run_C05]; unfold rc, reverse;
    rewrite <- ?rev_alt; reflexivity.
Qed.
