(* C06, round 7: histories over the feature list.  The in-place edits are the list functions they are modelled as (stable sort by
   the default key / by len, item assignment, insert, delete, remove), the type-name lookup is the head of the selection in the list
   order AFTER the edits, and lookups leave no trace in a history. *)
From Coq Require Import List ZArith NArith Bool Lia ZifyBool Permutation Sorted.
From Coq.Strings Require Import Byte.
Import ListNotations.
From SV Require Import Text G_codes G_flags C05_Model C05_Lemmas C06_Model C06_Lemmas C06_Round6.
Local Open Scope Z_scope.

(* ------------------------------------------------------------------ sorted(): permutation, sorted, stable *)
Section GenSort.
  Context {A : Type} (lt : A -> A -> bool).
  Hypothesis Hasym : forall a b, lt a b = true -> lt b a = false.
  (* "not greater" is transitive (lt is a strict weak order) *)
  Hypothesis Hnt : forall a b c, lt b a = false -> lt c b = false -> lt c a = false.

  Lemma insert_gen_perm x l : Permutation (insert_gen lt x l) (x :: l).
  Proof.
    induction l as [|y t IH]; cbn; [apply Permutation_refl|].
    destruct (lt y x); [|apply Permutation_refl].
    eapply Permutation_trans; [apply perm_skip, IH|apply perm_swap].
  Qed.
  Lemma sort_gen_perm l : Permutation (sort_gen lt l) l.
  Proof.
    induction l as [|x t IH]; cbn; [apply perm_nil|].
    eapply Permutation_trans; [apply insert_gen_perm|apply perm_skip, IH].
  Qed.

  (* le a b: b is not smaller than a *)
  Definition le_of (a b : A) : Prop := lt b a = false.

  Lemma insert_gen_sorted x l : StronglySorted le_of l -> StronglySorted le_of (insert_gen lt x l).
  Proof.
    induction l as [|y t IH]; intros Hs; cbn.
    - constructor; constructor.
    - inversion Hs as [|y' t' Hst Hall]; subst.
      destruct (lt y x) eqn:E.
      + constructor; [apply IH, Hst|].
        rewrite Forall_forall in *. intros z Hz.
        apply (Permutation_in _ (insert_gen_perm x t)) in Hz. destruct Hz as [<-|Hz].
        * unfold le_of. apply Hasym, E.
        * apply Hall, Hz.
      + constructor; [exact Hs|]. constructor; [exact E|].
        rewrite Forall_forall in *. intros z Hz. unfold le_of in *.
        apply (Hnt x y z E). apply Hall, Hz.
  Qed.
  Lemma sort_gen_sorted l : StronglySorted le_of (sort_gen lt l).
  Proof. induction l as [|x t IH]; cbn; [constructor|apply insert_gen_sorted, IH]. Qed.

  (* stability: elements of one class of pairwise not-smaller elements keep their order *)
  Lemma insert_gen_filter p x l : (forall y, p y = true -> p x = true -> lt y x = false) ->
    filter p (insert_gen lt x l) = if p x then x :: filter p l else filter p l.
  Proof.
    intros Hp. induction l as [|y t IH]; cbn; [destruct (p x); reflexivity|].
    destruct (lt y x) eqn:E; cbn.
    - rewrite IH. destruct (p y) eqn:Py, (p x) eqn:Px; try reflexivity.
      rewrite (Hp y Py eq_refl) in E. discriminate.
    - reflexivity.
  Qed.
  Lemma sort_gen_stable p l : (forall a b, p a = true -> p b = true -> lt a b = false) ->
    filter p (sort_gen lt l) = filter p l.
  Proof.
    intros Hp. induction l as [|x t IH]; [reflexivity|].
    change (sort_gen lt (x :: t)) with (insert_gen lt x (sort_gen lt t)).
    rewrite insert_gen_filter by (intros y Py Px; apply Hp; assumption).
    rewrite IH. reflexivity.
  Qed.
End GenSort.

Lemma filter_rev_ {A} (p : A -> bool) l : filter p (rev l) = rev (filter p l).
Proof.
  induction l as [|x t IH]; cbn; [reflexivity|].
  rewrite filter_app, IH. cbn. destruct (p x); cbn; [reflexivity|apply app_nil_r].
Qed.
Lemma StronglySorted_app_one {A} (R : A -> A -> Prop) l x :
  StronglySorted R l -> Forall (fun y => R y x) l -> StronglySorted R (l ++ [x]).
Proof.
  induction l as [|y t IH]; intros Hs Hall; cbn.
  - constructor; constructor.
  - inversion Hs; subst. inversion Hall; subst.
    constructor; [apply IH; assumption|].
    apply Forall_app. split; [assumption|constructor; [assumption|constructor]].
Qed.
Lemma StronglySorted_rev {A} (R : A -> A -> Prop) l :
  StronglySorted R l -> StronglySorted (fun a b => R b a) (rev l).
Proof.
  induction l as [|y t IH]; intros Hs; cbn; [constructor|].
  inversion Hs; subst.
  apply StronglySorted_app_one; [apply IH; assumption|].
  rewrite Forall_forall in *. intros z Hz. apply in_rev in Hz. auto.
Qed.

(* the two keys of the model are strict weak orders *)
Lemma pair_lt_asym a b : pair_lt a b = true -> pair_lt b a = false.
Proof. unfold pair_lt. destruct a, b; cbn. lia. Qed.
Lemma pair_lt_nt a b c : pair_lt b a = false -> pair_lt c b = false -> pair_lt c a = false.
Proof. unfold pair_lt. destruct a, b, c; cbn. lia. Qed.
Lemma key_lt_asym k a b : key_lt k a b = true -> key_lt k b a = false.
Proof.
  unfold key_lt. destruct (k =? 0).
  - apply pair_lt_asym.
  - unfold ft_len_lt. lia.
Qed.
Lemma key_lt_nt k a b c : key_lt k b a = false -> key_lt k c b = false -> key_lt k c a = false.
Proof.
  unfold key_lt. destruct (k =? 0).
  - apply pair_lt_nt.
  - unfold ft_len_lt. lia.
Qed.

Lemma ft_pos_lt_asym a b : ft_pos_lt a b = true -> ft_pos_lt b a = false.
Proof. apply pair_lt_asym. Qed.
Lemma ft_pos_lt_nt a b c : ft_pos_lt b a = false -> ft_pos_lt c b = false -> ft_pos_lt c a = false.
Proof. apply pair_lt_nt. Qed.
Lemma ft_pos_lt_irrefl f : ft_pos_lt f f = false.
Proof. destruct (ft_pos_lt f f) eqn:E; [|reflexivity]. rewrite (ft_pos_lt_asym f f E) in E. discriminate. Qed.

(* sorted(objs, key, reverse): a permutation; ascending (descending with reverse=True) in the key; features that are not ordered
   by the key keep their relative order, in BOTH directions *)
Theorem sort_dir_spec k reverse l :
  Permutation (sort_dir (key_lt k) reverse l) l /\
  StronglySorted (fun a b => if reverse then key_lt k a b = false else key_lt k b a = false) (sort_dir (key_lt k) reverse l) /\
  (forall p, (forall a b, p a = true -> p b = true -> key_lt k a b = false) ->
             filter p (sort_dir (key_lt k) reverse l) = filter p l).
Proof.
  unfold sort_dir. destruct reverse.
  - split; [|split].
    + eapply Permutation_trans; [apply Permutation_sym, Permutation_rev|].
      eapply Permutation_trans; [apply sort_gen_perm|apply Permutation_sym, Permutation_rev].
    + apply (StronglySorted_rev (le_of (key_lt k))).
      apply sort_gen_sorted; [apply key_lt_asym|apply key_lt_nt].
    + intros p Hp. rewrite filter_rev_, (sort_gen_stable (key_lt k)) by exact Hp.
      rewrite filter_rev_, rev_involutive. reflexivity.
  - split; [|split].
    + apply sort_gen_perm.
    + apply (sort_gen_sorted _ (key_lt_asym k) (key_lt_nt k)).
    + intros p Hp. apply (sort_gen_stable (key_lt k)), Hp.
Qed.

(* FeatureList.sort(keys): the first key decides first: it is applied LAST, to the list sorted by the remaining keys *)
Theorem fts_sort_keys reverse l :
  fts_sort [] reverse l = l /\
  (forall k ks, fts_sort (k :: ks) reverse l = sort_dir (key_lt k) reverse (fts_sort ks reverse l)) /\
  (forall ks, Permutation (fts_sort ks reverse l) l).
Proof.
  split; [reflexivity|]. split.
  - intros k ks. unfold fts_sort. cbn [rev]. rewrite fold_left_app. reflexivity.
  - intros ks. induction ks as [|k ks IH]; [apply Permutation_refl|].
    unfold fts_sort in *. cbn [rev]. rewrite fold_left_app. cbn.
    eapply Permutation_trans; [apply sort_dir_spec|exact IH].
Qed.

(* ------------------------------------------------------------------ lookup = head of the selection *)
Lemma find_hd_filter {A} (p : A -> bool) l : find p l = hd_error (filter p l).
Proof. induction l as [|x t IH]; cbn; [reflexivity|]. destruct (p x); [reflexivity|exact IH]. Qed.
Theorem get_head_select name l :
  fts_get name l = hd_error (fts_select name l) /\
  (forall f, In f (fts_select name l) <-> In f l /\ type_matches name f = true) /\
  (forall a b, fts_select name (a ++ b) = fts_select name a ++ fts_select name b) /\
  (forall f, type_in [name] f = type_matches name f).
Proof.
  split; [rewrite fts_get_find; apply find_hd_filter|]. split; [intros f; apply filter_In|].
  split; [intros a b; apply filter_app|].
  intros f. unfold type_in, type_matches. destruct (ftype f); [|reflexivity]. cbn. apply orb_false_r.
Qed.
Lemma fts_get_app name a b :
  fts_get name (a ++ b) = match fts_get name a with Some f => Some f | None => fts_get name b end.
Proof.
  rewrite !fts_get_find. induction a as [|x t IH]; cbn; [reflexivity|].
  destruct (type_matches name x); [reflexivity|exact IH].
Qed.
Lemma fts_get_one name x : fts_get name [x] = if type_matches name x then Some x else None.
Proof. rewrite fts_get_find. cbn. destruct (type_matches name x); reflexivity. Qed.

(* the lookup after each in-place edit, from the pieces of the list before it *)
Theorem get_after_edit name l k x :
  (* fts[k] = x *)
  fts_get name (list_set l k x) =
    match fts_get name (firstn k l) with
    | Some f => Some f
    | None => if type_matches name x then Some x else fts_get name (skipn (S k) l)
    end /\
  (* del fts[k] / fts.pop(k) *)
  fts_get name (list_del l k) =
    match fts_get name (firstn k l) with Some f => Some f | None => fts_get name (skipn (S k) l) end /\
  (* fts.append(x) *)
  fts_get name (l ++ [x]) =
    match fts_get name l with Some f => Some f | None => if type_matches name x then Some x else None end /\
  (* fts.reverse(): the LAST feature of the type *)
  fts_get name (rev l) = hd_error (rev (fts_select name l)).
Proof.
  unfold list_set, list_del. repeat split.
  - rewrite fts_get_app. change (x :: skipn (S k) l) with ([x] ++ skipn (S k) l).
    rewrite fts_get_app, fts_get_one. destruct (type_matches name x); reflexivity.
  - apply fts_get_app.
  - rewrite fts_get_app, fts_get_one. reflexivity.
  - rewrite fts_get_find, find_hd_filter, filter_rev_. reflexivity.
Qed.
(* fts.insert(i, x): x is found iff nothing before the (clamped) position matches *)
Theorem get_after_insert name l i x :
  exists k, (k <= length l)%nat /\ list_ins l i x = firstn k l ++ x :: skipn k l /\
    fts_get name (list_ins l i x) =
      match fts_get name (firstn k l) with
      | Some f => Some f
      | None => if type_matches name x then Some x else fts_get name (skipn k l)
      end.
Proof.
  unfold list_ins.
  set (k := Z.to_nat (if i <? 0 then Z.max (i + Z.of_nat (length l)) 0 else Z.min i (Z.of_nat (length l)))).
  exists k. split; [subst k; destruct (i <? 0) eqn:E; lia|]. split; [reflexivity|].
  rewrite fts_get_app. change (x :: skipn k l) with ([x] ++ skipn k l).
  rewrite fts_get_app, fts_get_one. destruct (type_matches name x); reflexivity.
Qed.

(* ------------------------------------------------------------------ the lookup after sort() *)
Lemma hd_filter_sorted {A} (R : A -> A -> Prop) (p : A -> bool) l f :
  StronglySorted R l -> hd_error (filter p l) = Some f -> In f l /\ p f = true /\ forall g, In g l -> p g = true -> g = f \/ R f g.
Proof.
  induction l as [|x t IH]; intros Hs Hh; cbn in Hh; [discriminate|].
  inversion Hs as [|x' t' Hst Hall]; subst.
  destruct (p x) eqn:Px.
  - cbn in Hh. injection Hh as <-. split; [left; reflexivity|]. split; [exact Px|].
    intros g [<-|Hg] _; [left; reflexivity|right]. rewrite Forall_forall in Hall. apply Hall, Hg.
  - destruct (IH Hst Hh) as (Hin & Pf & Hmin). split; [right; exact Hin|]. split; [exact Pf|].
    intros g [<-|Hg] Pg; [congruence|]. apply Hmin; assumption.
Qed.

(* seq.fts.sort(); seq[name]: the answer is a feature of the type at the smallest position (start, then stop, of its whole range),
   and among the features of the type at that position the one that came first BEFORE the sort; a type is found after the sort
   iff it was found before *)
Theorem get_after_sort name l :
  (forall f, fts_get name (fts_sort [0] false l) = Some f ->
     In f l /\ type_matches name f = true /\
     (forall g, In g l -> type_matches name g = true -> ft_pos_lt g f = false) /\
     hd_error (filter (fun g => type_matches name g && negb (ft_pos_lt f g) && negb (ft_pos_lt g f)) l) = Some f) /\
  (fts_get name (fts_sort [0] false l) = None <-> fts_get name l = None).
Proof.
  assert (Hs : fts_sort [0] false l = sort_gen ft_pos_lt l) by reflexivity.
  rewrite Hs.
  pose proof (sort_gen_perm ft_pos_lt l) as Hperm.
  pose proof (sort_gen_sorted ft_pos_lt ft_pos_lt_asym ft_pos_lt_nt l) as Hsorted.
  split.
  - intros f Hf. rewrite fts_get_find, find_hd_filter in Hf.
    destruct (hd_filter_sorted _ _ _ _ Hsorted Hf) as (Hin & Pf & Hmin).
    assert (Hmin' : forall g, In g l -> type_matches name g = true -> ft_pos_lt g f = false).
    { intros g Hg Pg. apply (Permutation_in _ (Permutation_sym Hperm)) in Hg.
      destruct (Hmin g Hg Pg) as [->|H]; [|exact H].
      apply ft_pos_lt_irrefl. }
    split; [apply (Permutation_in _ Hperm), Hin|]. split; [exact Pf|]. split; [exact Hmin'|].
    set (p := fun g => type_matches name g && negb (ft_pos_lt f g) && negb (ft_pos_lt g f)).
    rewrite <- (sort_gen_stable ft_pos_lt p l).
    + (* in the sorted list f is the first match, and f is in its own class *)
      revert Hf. generalize (sort_gen ft_pos_lt l). intros s. induction s as [|x t IH]; cbn; [discriminate|].
      destruct (type_matches name x) eqn:Px; cbn.
      * intros [= ->]. unfold p. rewrite Pf. cbn.
        rewrite ft_pos_lt_irrefl. reflexivity.
      * intros H. unfold p at 1. rewrite Px. cbn. apply IH, H.
    + intros a b Pa Pb. unfold p in Pa, Pb.
      apply andb_true_iff in Pa as [Pa Pa3]. apply andb_true_iff in Pa as [_ Pa2].
      apply andb_true_iff in Pb as [Pb Pb3]. apply andb_true_iff in Pb as [_ Pb2].
      apply negb_true_iff in Pa2, Pa3, Pb2, Pb3.
      apply (ft_pos_lt_nt b f a); assumption.
  - destruct (type_lookup_spec name (sort_gen ft_pos_lt l)) as (_ & Hn1 & _).
    destruct (type_lookup_spec name l) as (_ & Hn2 & _).
    rewrite Hn1, Hn2, !forallb_forall. split; intros H g Hg; apply H.
    + apply (Permutation_in _ (Permutation_sym Hperm)), Hg.
    + apply (Permutation_in _ Hperm), Hg.
Qed.

(* ------------------------------------------------------------------ the list edits *)
Lemma nth_error_firstn_lt {A} (l : list A) k j : (j < k)%nat -> nth_error (firstn k l) j = nth_error l j.
Proof.
  revert k j. induction l as [|x t IH]; intros k j H.
  - rewrite firstn_nil. reflexivity.
  - destruct k; [lia|]. destruct j; cbn; [reflexivity|]. apply IH. lia.
Qed.
Lemma nth_error_skipn_ {A} (l : list A) k j : nth_error (skipn k l) j = nth_error l (k + j).
Proof.
  revert k. induction l as [|x t IH]; intros k.
  - rewrite skipn_nil. destruct j, k; reflexivity.
  - destruct k; cbn; [reflexivity|]. apply IH.
Qed.
(* l[k] = x, del l[k], l.insert(k, x) position by position *)
Theorem list_edit_spec {A} (l : list A) k x : (k < length l)%nat ->
  length (list_set l k x) = length l /\
  nth_error (list_set l k x) k = Some x /\
  (forall j, j <> k -> nth_error (list_set l k x) j = nth_error l j) /\
  S (length (list_del l k)) = length l /\
  (forall j, (j < k)%nat -> nth_error (list_del l k) j = nth_error l j) /\
  (forall j, (k <= j)%nat -> nth_error (list_del l k) j = nth_error l (S j)).
Proof.
  intros Hk. unfold list_set, list_del.
  assert (Hf : length (firstn k l) = k) by (rewrite firstn_length; lia).
  repeat split.
  - rewrite app_length. cbn [length]. rewrite Hf, skipn_length. lia.
  - rewrite nth_error_app2 by lia. rewrite Hf, Nat.sub_diag. reflexivity.
  - intros j Hj. destruct (Nat.lt_ge_cases j k) as [H|H].
    + rewrite nth_error_app1 by lia. apply nth_error_firstn_lt, H.
    + rewrite nth_error_app2 by lia. rewrite Hf.
      destruct (j - k)%nat as [|m] eqn:E; [lia|]. cbn [nth_error]. rewrite nth_error_skipn_. f_equal. lia.
  - rewrite app_length, Hf, skipn_length. lia.
  - intros j H. rewrite nth_error_app1 by lia. apply nth_error_firstn_lt, H.
  - intros j H. rewrite nth_error_app2 by lia. rewrite Hf, nth_error_skipn_. f_equal. lia.
Qed.
(* negative indices count from the end; out of range is an IndexError in every edit that addresses a position *)
Theorem norm_idx_spec len i : 0 <= len ->
  match norm_idx len i with
  | Some k => - len <= i < len /\ Z.of_nat k = (if i <? 0 then i + len else i)
  | None => i < - len \/ len <= i
  end.
Proof. intros H. unfold norm_idx. destruct (i <? 0) eqn:E; cbn; destruct (_ || _) eqn:F; lia. Qed.
(* fts.remove(x): the first feature equal to x goes, the others keep their order *)
Theorem remove_first_spec x l :
  match remove_first x l with
  | Some r => exists pre y post, l = pre ++ y :: post /\ r = pre ++ post /\ ft_eqb y x = true /\
                                 forallb (fun z => negb (ft_eqb z x)) pre = true
  | None => forallb (fun z => negb (ft_eqb z x)) l = true
  end.
Proof.
  induction l as [|y t IH]; cbn; [reflexivity|].
  destruct (ft_eqb y x) eqn:E.
  - exists [], y, t. repeat split. exact E.
  - destruct (remove_first x t) as [r|]; cbn; [|exact IH].
    destruct IH as (pre & z & post & -> & -> & Hz & Hpre).
    exists (y :: pre), z, post. repeat split; [exact Hz|]. cbn. rewrite E. exact Hpre.
Qed.

(* ------------------------------------------------------------------ lookups leave no trace in a history *)
Fixpoint fhist_state (qs : list bioseq) (steps : list (nat * fstep)) : list bioseq :=
  match steps with
  | [] => qs
  | (obj, st) :: r => fhist_state (snd (fstep_run qs obj st)) r
  end.
(* the steps that only ask: type-name lookups on the list, windows that are not in place, basket indexing *)
Definition is_lookup (st : fstep) : bool :=
  match st with
  | FGet _ | FGetAny _ | FSelect _ | FSelectAny _ => true
  | FSeq (HWin w _ _ _ _ inplace) => negb inplace && match w with RRc => false | _ => true end
  | FBasket ix _ _ _ _ => match ix with QRc => false | _ => true end
  | FAllGet _ | FAllSelect _ => true
  | _ => false
  end.
Lemma list_set_same {A} (l : list A) k x : nth_error l k = Some x -> list_set l k x = l.
Proof.
  unfold list_set. revert k. induction l as [|y t IH]; intros k H; destruct k; cbn in *; try discriminate.
  - congruence.
  - f_equal. apply IH, H.
Qed.
Lemma build_win_not_rc w : (match w with RRc => false | _ => true end) = true -> build_win w <> Ok None.
Proof.
  destruct w; cbn; try discriminate.
  - destruct (build_loc l); cbn; discriminate.
  - destruct (build_locs ls) as [ls'|]; cbn; [destruct (mk_loctuple ls'); cbn; discriminate|discriminate].
Qed.
Lemma lookup_keeps_state qs obj st : is_lookup st = true -> snd (fstep_run qs obj st) = qs.
Proof.
  intros H. unfold fstep_run. destruct (nth_error qs (Nat.modulo obj (length qs))) as [q|] eqn:Hq; [|reflexivity].
  destruct st as [h|e|n|ns|n|ns|ix u sp fi gap|n|n]; cbn in H; try discriminate; try reflexivity.
  - destruct h as [w u sp fi gap inplace| | | | | | | | | |]; try discriminate.
    apply andb_true_iff in H as [Hi Hw]. apply negb_true_iff in Hi. subst inplace.
    pose proof (build_win_not_rc w Hw) as Hb. cbn.
    destruct (build_win w) as [[win|]|e] eqn:E; cbn.
    + destruct (getitem_g q win u sp fi gap); cbn; apply list_set_same, Hq.
    + congruence.
    + apply list_set_same, Hq.
  - destruct (build_bidx ix) as [bx|e] eqn:E; [|reflexivity]. cbn.
    destruct bx; try reflexivity.
    destruct ix; cbn in E; try discriminate;
      repeat match type of E with context [build_bwin ?w] => destruct (build_bwin w); cbn in E end; discriminate.
Qed.
(* a history continues from the state its prefix produced, and that state does not depend on the lookups made on the way:
   the answers to any continuation are the same with every earlier lookup removed *)
Theorem history_lookups_transparent qs s1 s2 :
  snd (fhist_run qs (s1 ++ s2)) = snd (fhist_run qs s1) ++ snd (fhist_run (fhist_state qs s1) s2) /\
  fhist_state qs (filter (fun s => negb (is_lookup (snd s))) s1) = fhist_state qs s1 /\
  snd (fhist_run (fhist_state qs (filter (fun s => negb (is_lookup (snd s))) s1)) s2) = snd (fhist_run (fhist_state qs s1) s2).
Proof.
  assert (H2 : forall s qs0, fhist_state qs0 (filter (fun s => negb (is_lookup (snd s))) s) = fhist_state qs0 s).
  { induction s as [|[obj st] r IH]; intros qs0; cbn; [reflexivity|].
    destruct (is_lookup st) eqn:E; cbn.
    - rewrite (lookup_keeps_state qs0 obj st E). apply IH.
    - apply IH. }
  split; [|split; [apply H2|rewrite H2; reflexivity]].
  revert qs. induction s1 as [|[obj st] r IH]; intros qs; cbn; [reflexivity|].
  destruct (fstep_run qs obj st) as [[ok v] qs'] eqn:E. cbn.
  specialize (IH qs').
  destruct (fhist_run qs' (r ++ s2)) as [ok1 vs1]. destruct (fhist_run qs' r) as [ok2 vs2].
  cbn in *. rewrite IH. reflexivity.
Qed.

(* ------------------------------------------------------------------ sorting a sorted list, add_fts *)
Lemma sort_gen_sorted_id {A} (lt : A -> A -> bool) l : StronglySorted (le_of lt) l -> sort_gen lt l = l.
Proof.
  induction l as [|x t IH]; intros Hs; [reflexivity|].
  inversion Hs as [|x' t' Hst Hall]; subst.
  change (sort_gen lt (x :: t)) with (insert_gen lt x (sort_gen lt t)). rewrite (IH Hst).
  destruct t as [|y r]; [reflexivity|]. cbn.
  inversion Hall as [|y' r' Hy _]; subst. unfold le_of in Hy. rewrite Hy. reflexivity.
Qed.
(* fts.sort() twice is fts.sort() once; seq.add_fts(new) is the stable position sort of the old list followed by the new features:
   a permutation of both, and the type-name lookup afterwards obeys C06_get_after_sort on old ++ new *)
Theorem sort_idempotent_add_fts l fs r :
  fts_sort [0] false (fts_sort [0] false l) = fts_sort [0] false l /\
  (build_fts fs = Ok r ->
   fedit_run l (EAddFts fs) = (true, VNone, fts_sort [0] false (l ++ r)) /\
   Permutation (snd (fedit_run l (EAddFts fs))) (l ++ r)).
Proof.
  split.
  - change (fts_sort [0] false) with (sort_gen ft_pos_lt).
    apply sort_gen_sorted_id, sort_gen_sorted; [apply ft_pos_lt_asym|apply ft_pos_lt_nt].
  - intros H. cbn. rewrite H. split; [reflexivity|]. cbn. apply (sort_gen_perm ft_pos_lt).
Qed.

(* ------------------------------------------------------------------ the shape of every in-place edit *)
Lemma list_set_length {A} (l : list A) k x : (k < length l)%nat -> length (list_set l k x) = length l.
Proof.
  intros H. unfold list_set. rewrite app_length, firstn_length. cbn [length]. rewrite skipn_length. lia.
Qed.
Lemma norm_idx_lt len i k : norm_idx (Z.of_nat len) i = Some k -> (k < len)%nat.
Proof. unfold norm_idx. destruct (i <? 0) eqn:E; destruct (_ || _) eqn:F; intros [= <-]; lia. Qed.
(* sort / reverse re-order (a permutation); item assignment, swap, changing the type or the locations of a feature keep the number
   of features; pop / remove take exactly one feature away unless they raise; insert / append add exactly one; an edit that
   raises leaves the list as it was *)
Theorem fedit_shape l e :
  let r := snd (fedit_run l e) in
  match e with
  | ESort _ _ | EReverse => Permutation r l
  | ESetItem _ _ | ESwap _ _ | ESetType _ _ | ESetLocs _ _ => length r = length l
  | EPop _ | ERemove _ => r = l \/ S (length r) = length l
  | EInsert _ _ | EAppend _ => r = l \/ length r = S (length l)
  | EExtend _ | EAddFts _ => (length l <= length r)%nat
  | EClear => r = []
  end.
Proof.
  destruct e as [keys reverse| |i f|i f|f|fs|i|i|i t|i ls|i j| |fs]; cbn.
  - apply fts_sort_keys.
  - apply Permutation_sym, Permutation_rev.
  - destruct (build_ft f); [|reflexivity]. destruct (norm_idx _ i) as [k|] eqn:E; [|reflexivity].
    cbn. apply list_set_length, (norm_idx_lt _ _ _ E).
  - destruct (build_ft f); [|left; reflexivity]. right. cbn. unfold list_ins.
    rewrite app_length, firstn_length. cbn [length]. rewrite skipn_length. lia.
  - destruct (build_ft f); [|left; reflexivity]. right. cbn. rewrite app_length. cbn. lia.
  - destruct (build_fts fs); cbn; [rewrite app_length|]; lia.
  - destruct (norm_idx _ i) as [k|] eqn:E; [|left; reflexivity].
    destruct (nth_error l k) eqn:F; [|left; reflexivity]. right. cbn.
    apply (list_edit_spec l k f), (norm_idx_lt _ _ _ E).
  - destruct (norm_idx _ i) as [k|] eqn:E; [|left; reflexivity].
    destruct (nth_error l k) as [f|] eqn:F; [|left; reflexivity].
    pose proof (remove_first_spec f l) as H. destruct (remove_first f l) as [r|]; [|left; reflexivity].
    right. cbn. destruct H as (pre & y & post & -> & -> & _). rewrite !app_length. cbn. lia.
  - destruct (norm_idx _ i) as [k|] eqn:E; [|reflexivity].
    destruct (nth_error l k) eqn:F; [|reflexivity]. cbn. apply list_set_length, (norm_idx_lt _ _ _ E).
  - destruct (build_locs ls) as [ls1|]; [|reflexivity].
    destruct (norm_idx _ i) as [k|] eqn:E; [|reflexivity].
    destruct (nth_error l k) eqn:F; [|reflexivity].
    destruct (mk_loctuple ls1); [|reflexivity]. cbn. apply list_set_length, (norm_idx_lt _ _ _ E).
  - destruct (norm_idx _ j) as [kj|] eqn:Ej; [|reflexivity].
    destruct (norm_idx _ i) as [ki|] eqn:Ei; [|reflexivity].
    destruct (nth_error l kj) eqn:Fj; [|reflexivity]. destruct (nth_error l ki) eqn:Fi; [|reflexivity]. cbn.
    pose proof (norm_idx_lt _ _ _ Ej). pose proof (norm_idx_lt _ _ _ Ei).
    rewrite list_set_length; rewrite list_set_length; lia.
  - reflexivity.
  - destruct (build_fts fs) as [r|]; cbn; [|lia].
    rewrite (Permutation_length (sort_gen_perm ft_pos_lt (l ++ r))), app_length. lia.
Qed.

(* ------------------------------------------------------------------ the in-place str methods of the history language *)
Lemma lstrip_chars_spec chars s :
  exists pre, s = pre ++ lstrip_chars chars s /\ forallb (fun c => has c chars) pre = true /\
              match lstrip_chars chars s with c :: _ => has c chars = false | [] => True end.
Proof.
  induction s as [|c r IH]; cbn.
  - exists []. repeat split.
  - destruct (has c chars) eqn:E.
    + destruct IH as (pre & Hs & Hp & Hh). exists (c :: pre). cbn. rewrite E. repeat split; [f_equal; exact Hs|exact Hp|exact Hh].
    + exists []. repeat split. exact E.
Qed.
(* upper / lower / swapcase keep the length (so the features stay where they were); replacing a character by a character is a map;
   replacing an absent character changes nothing; lstrip / rstrip remove exactly the longest prefix / suffix made of chars *)
Theorem str_methods_spec chars c new s :
  (length (upper s) = length s /\ length (lower s) = length s /\ length (map swap1 s) = length s) /\
  (forall d, replace1 c [d] s = map (fun x => if byte_eqb x c then d else x) s) /\
  (has c s = false -> replace1 c new s = s) /\
  (exists pre, s = pre ++ lstrip_chars chars s /\ forallb (fun x => has x chars) pre = true /\
               match lstrip_chars chars s with x :: _ => has x chars = false | [] => True end) /\
  (exists suf, s = rstrip_chars chars s ++ suf /\ forallb (fun x => has x chars) suf = true /\
               match rev (rstrip_chars chars s) with x :: _ => has x chars = false | [] => True end).
Proof.
  split; [unfold upper, lower; rewrite !map_length; repeat split|].
  split; [intros d; unfold replace1; induction s as [|x r IH]; cbn; [reflexivity|rewrite IH; destruct (byte_eqb x c); reflexivity]|].
  split.
  { unfold replace1, has. induction s as [|x r IH]; cbn; [reflexivity|].
    intros H. apply orb_false_iff in H as [H1 H2]. rewrite (IH H2).
    destruct (byte_eqb x c) eqn:E; [|reflexivity].
    apply byte_eqb_eq in E. subst x. rewrite (proj2 (byte_eqb_eq c c) eq_refl) in H1. discriminate. }
  split; [apply lstrip_chars_spec|].
  unfold rstrip_chars. destruct (lstrip_chars_spec chars (rev s)) as (pre & Hs & Hp & Hh).
  exists (rev pre). split; [|split].
  - rewrite <- rev_app_distr, <- Hs, rev_involutive. reflexivity.
  - rewrite forallb_forall in *. intros x Hx. apply Hp, in_rev, Hx.
  - rewrite rev_involutive. exact Hh.
Qed.

(* ------------------------------------------------------------------ lookups over all objects of a basket *)
Fixpoint first_some {A} (l : list (option A)) : option A :=
  match l with
  | [] => None
  | Some x :: _ => Some x
  | None :: r => first_some r
  end.
(* BioBasket(objs).fts.get(name): the answer of the first sequence, in basket order, that has a feature of the type;
   .select(name): the selections of the sequences one after the other *)
Theorem get_all_objects name qs :
  fts_get name (flat_map sfts qs) = first_some (map (fun q => fts_get name (sfts q)) qs) /\
  fts_select name (flat_map sfts qs) = flat_map (fun q => fts_select name (sfts q)) qs.
Proof.
  split.
  - induction qs as [|q r IH]; cbn; [reflexivity|]. rewrite fts_get_app, IH. destruct (fts_get name (sfts q)); reflexivity.
  - unfold fts_select. induction qs as [|q r IH]; cbn; [reflexivity|]. rewrite filter_app, IH. reflexivity.
Qed.
