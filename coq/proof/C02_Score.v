(* C02 proofs, part 6: a canonical score literal is a float literal without blanks, tabs or escapes. *)
From Coq Require Import List ZArith NArith Bool Lia.
From Coq.Strings Require Import Byte.
Import ListNotations.
From SV Require Import Text G_gff C02_Model C02_Lemmas C02_Line.

Lemma split1_spec c s a b : split1 c s = Some (a, b) -> s = a ++ c :: b /\ has c a = false.
Proof.
  revert a b. induction s as [|x s IH]; intros a b; cbn [split1]; [discriminate|].
  destruct (byte_eqb x c) eqn:E.
  - intros H. inversion H; subst. apply byte_eqb_eq in E. subst. split; reflexivity.
  - destruct (split1 c s) as [[a' b']|] eqn:S; [|discriminate]. intros H. inversion H; subst.
    destruct (IH a' b eq_refl) as [E1 E2]. subst s. split; [reflexivity|].
    cbn [has existsb]. rewrite byte_eqb_sym, E. exact E2.
Qed.
Lemma split1_none c s : has c s = false -> split1 c s = None.
Proof.
  induction s as [|x s IH]; [reflexivity|]. intros H. apply has_cons_false in H. destruct H as [H1 H2].
  cbn [split1]. rewrite H1, (IH H2). reflexivity.
Qed.
Definition fchar (c : byte) : bool := is_digit c || byte_eqb c "."%byte.
Lemma digit_props : forall c, is_digit c = true ->
  plainc c = true /\ byte_eqb c "e"%byte = false /\ byte_eqb c "E"%byte = false /\ byte_eqb c "-"%byte = false /\ byte_eqb c "+"%byte = false
  /\ byte_eqb c "."%byte = false.
Proof. intros c; destruct c; vm_compute; intros H; try discriminate H; repeat split; reflexivity. Qed.
Lemma digits_plain s : all_digits s = true -> forallb plainc s = true /\ has "e"%byte s = false /\ has "E"%byte s = false.
Proof.
  induction s as [|c s IH]; [cbn; auto|]. unfold all_digits. cbn [forallb]. intros H. apply andb_prop in H. destruct H as [Hc Hs].
  destruct (IH Hs) as [A [B C]]. destruct (digit_props c Hc) as [P1 [P2 [P3 _]]].
  unfold has in *. cbn [existsb]. rewrite (byte_eqb_sym "e"%byte c), (byte_eqb_sym "E"%byte c), P1, P2, P3, A, B, C. auto.
Qed.

Theorem canon_fixed_ok : forall t, canon_fixed t = true ->
  forallb plainc t = true /\ float_ok t = true /\ str_eqb t dot = false.
Proof.
  intros t H. unfold canon_fixed in H.
  set (s := match t with c :: r => if byte_eqb c "-"%byte then r else t | [] => [] end) in *.
  destruct (split1 "."%byte s) as [[a b]|] eqn:S; [|discriminate H].
  rewrite !andb_true_iff in H. destruct H as [[[[[[[[Da Db] Na] Nb] _] _] _] _] _].
  destruct (split1_spec _ _ _ _ S) as [Es _].
  destruct (digits_plain a Da) as [Pa [Ea1 Ea2]]. destruct (digits_plain b Db) as [Pb [Eb1 Eb2]].
  assert (forallb plainc s = true) as Ps by (rewrite Es, forallb_app; cbn [forallb]; rewrite Pa, Pb; reflexivity).
  assert (has "e"%byte s = false /\ has "E"%byte s = false) as [Se1 Se2]
    by (rewrite Es, !has_app; cbn [has existsb]; unfold has in *; rewrite Ea1, Ea2, Eb1, Eb2; split; reflexivity).
  assert (s <> []) as Ns by (rewrite Es; destruct a; discriminate).
  assert (exists c0 r0, s = c0 :: r0 /\ is_digit c0 = true) as [c0 [r0 [Es0 Dc0]]].
  { rewrite Es. destruct a as [|c0 a']; [discriminate Na|]. exists c0, (a' ++ "."%byte :: b). split; [reflexivity|].
    unfold all_digits in Da. cbn [forallb] in Da. apply andb_prop in Da. tauto. }
  assert (forallb plainc t = true /\ drop_sign t = s) as [Pt Ds].
  { subst s. destruct t as [|c r]; [exfalso; apply Ns; reflexivity|]. destruct (byte_eqb c "-"%byte) eqn:E.
    - apply byte_eqb_eq in E. subst c. split; [cbn [forallb]; rewrite Ps; reflexivity|reflexivity].
    - split; [exact Ps|]. inversion Es0; subst. destruct (digit_props c0 Dc0) as [_ [_ [_ [M [P _]]]]].
      cbn [drop_sign]. rewrite M, P. reflexivity. }
  split; [exact Pt|]. split.
  - unfold float_ok. destruct (plainc_no _ Pt) as [_ [_ Wt]]. rewrite (strip_nows t Wt), Ds.
    rewrite (split1_none _ _ Se1), (split1_none _ _ Se2). unfold unsigned_dec_ok. rewrite S, Da, Db. cbn [andb].
    destruct a; [discriminate Na|]. reflexivity.
  - destruct (str_eqb t dot) eqn:E; [|reflexivity]. apply str_eqb_eq in E. subst t. subst s. cbn in S. inversion S; subst. cbn in Na. discriminate Na.
Qed.

(* the exponent form *)
Lemma plainc_consts : plainc "."%byte = true /\ plainc "e"%byte = true /\ plainc "-"%byte = true /\ plainc "+"%byte = true.
Proof. repeat split; reflexivity. Qed.
Theorem canon_exp_ok : forall t, canon_exp t = true -> forallb plainc t = true /\ float_ok t = true /\ str_eqb t dot = false.
Proof.
  intros t H. unfold canon_exp in H.
  set (s := match t with c :: r => if byte_eqb c "-"%byte then r else t | [] => [] end) in *.
  destruct (split1 "e"%byte s) as [[m e]|] eqn:S; [|discriminate H].
  apply andb_prop in H. destruct H as [H He]. apply andb_prop in H. destruct H as [Hm _].
  destruct (split1_spec _ _ _ _ S) as [Es _].
  destruct e as [|sg ds]; [discriminate He|]. apply andb_prop in He. destruct He as [Dd He].
  destruct (Z_of_dec ds) as [z|] eqn:Zd; [|discriminate He]. apply andb_prop in He. destruct He as [Hds Hsg].
  assert (Sg : (byte_eqb sg "-"%byte || byte_eqb sg "+"%byte) = true).
  { destruct (byte_eqb sg "-"%byte); [reflexivity|]. apply andb_prop in Hsg. destruct Hsg as [Hsg _]. apply andb_prop in Hsg. exact (proj1 Hsg). }
  assert (Nd : ds <> []) by (intros ->; discriminate Zd).
  destruct (digits_plain ds Dd) as [Pd _].
  (* the mantissa *)
  assert (M : forallb plainc m = true /\ unsigned_dec_ok m = true /\ exists c0 r0, m = c0 :: r0 /\ is_digit c0 = true).
  { unfold unsigned_dec_ok. destruct (split1 "."%byte m) as [[a b]|] eqn:Sm.
    - repeat (apply andb_prop in Hm; destruct Hm as [Hm ?]). destruct (split1_spec _ _ _ _ Sm) as [Em _].
      destruct (digits_plain a) as [Pa _]; [assumption|]. destruct (digits_plain b) as [Pb _]; [assumption|].
      match goal with A : all_digits a = true, B : all_digits b = true |- _ => rewrite A, B end.
      destruct a as [|c0 a']; [discriminate Hm|]. split; [|split].
      + rewrite Em, forallb_app. cbn [forallb] in Pa |- *. rewrite Pa, Pb. reflexivity.
      + reflexivity.
      + exists c0, (a' ++ "."%byte :: b). split; [rewrite Em; reflexivity|].
        match goal with A : all_digits (c0 :: a') = true |- _ => unfold all_digits in A; cbn [forallb] in A; apply andb_prop in A; exact (proj1 A) end.
    - apply andb_prop in Hm. destruct Hm as [Hm _]. apply andb_prop in Hm. destruct Hm as [Hl Dm].
      destruct (digits_plain m Dm) as [Pm _]. rewrite Dm. destruct m as [|c0 r0]; [discriminate Hl|]. split; [exact Pm|]. split; [reflexivity|].
      exists c0, r0. split; [reflexivity|]. unfold all_digits in Dm. cbn [forallb] in Dm. apply andb_prop in Dm. exact (proj1 Dm). }
  destruct M as [Pm [Um [c0 [r0 [Em Dc0]]]]].
  assert (Psg : plainc sg = true) by (destruct (byte_eqb sg "-"%byte) eqn:E1; [apply byte_eqb_eq in E1; subst; reflexivity|];
                                      cbn [orb] in Sg; apply byte_eqb_eq in Sg; subst; reflexivity).
  assert (Ps : forallb plainc s = true) by (rewrite Es, forallb_app; cbn [forallb]; rewrite Pm, Psg, Pd; reflexivity).
  assert (forallb plainc t = true /\ drop_sign t = s) as [Pt Ds].
  { assert (Es0 : s = c0 :: (r0 ++ "e"%byte :: sg :: ds)) by (rewrite Es, Em; reflexivity).
    subst s. destruct t as [|c r]; [discriminate Es0|]. destruct (byte_eqb c "-"%byte) eqn:E.
    - apply byte_eqb_eq in E. subst c. split; [cbn [forallb]; rewrite Ps; reflexivity|reflexivity].
    - split; [exact Ps|]. inversion Es0; subst. destruct (digit_props c0 Dc0) as [_ [_ [_ [M1 [P1 _]]]]].
      cbn [drop_sign]. rewrite M1, P1. reflexivity. }
  split; [exact Pt|]. split.
  - unfold float_ok. destruct (plainc_no _ Pt) as [_ [_ Wt]]. rewrite (strip_nows t Wt), Ds, S, Um.
    cbn [drop_sign]. rewrite Sg, Dd. destruct ds; [congruence|reflexivity].
  - destruct (str_eqb t dot) eqn:E; [|reflexivity]. apply str_eqb_eq in E. subst t. discriminate S.
Qed.
Theorem canon_float_ok : forall t, canon_float t = true ->
  forallb plainc t = true /\ float_ok t = true /\ str_eqb t dot = false.
Proof. intros t H. unfold canon_float in H. apply orb_prop in H. destruct H as [H|H]; [apply canon_fixed_ok|apply canon_exp_ok]; exact H. Qed.
Lemma canon_exp_ex : forallb canon_float (map bs ["1e-05"; "2.5e-07"; "1e+16"; "-1.5e+20"; "1.234e-05"; "1e+100"; "-3e-10"; "12.25"; "0.0001"]%bs) = true
  /\ existsb canon_float (map bs ["1e-5"; "1e-04"; "1e+15"; "10e-05"; "1.0e-05"; "1.50e-07"; "1e16"; "0e-05"; "1E-05"; "1e-005"; "e-05"; "0.00001"; "-0.0"]%bs) = false.
Proof. split; vm_compute; reflexivity. Qed.
