(* C19 round 7: the whole client - decision table of fetch_seq, request counting over arbitrary histories, file content = last
   answer, reader oracle, file names, and the tie of the client's requests to the limiter theorems *)
From Coq Require Import List ZArith Lia Bool Arith NArith.
From Coq.Strings Require Import Byte.
Import ListNotations.
From SV Require Import Text G_entrez C19_Model C19_Lemmas C19_Rate2.
Open Scope Z_scope.

(* ---- decision table of fetch_seq for one id (_entrez.py:35-62) ---- *)
Theorem fetch_one_table s o id a :
  let fn := cache_name o id in let need := need_request (c_fs s) fn (o_ow o) in
  let s' := fst (fetch_one s o id a) in let e := snd (fetch_one s o id a) in
  e_req e = need /\ e_name e = fn /\ e_ow e = o_ow o /\ e_ans e = a_ans a /\ e_key e = o_key o /\
  c_fs s' = (if need then match a_ans a, fn with Ans pl, Some n => fs2_set n pl (c_fs s) | _, _ => c_fs s end else c_fs s) /\
  e_res e = (if need then match a_ans a with
                          | Fail h => RExc h
                          | Ans pl => match fn with None => RHandle pl | Some n => RName n end
                          end
             else match fn with Some n => RName n | None => RHandle [] end) /\
  (need = false -> s' = s) /\
  (need = true -> let c := {| gap := c_pend s; eps := a_eps a; dur := a_dur a |} in
       c_rate s' = stepF (limit (o_key o)) window (c_rate s) c /\ c_pend s' = 0 /\ c_calls s' = (o_key o, c) :: c_calls s /\
       e_start e = hd 0 (hist (c_rate s')) /\ e_slept e = hd 0 (slept (c_rate s'))).
Proof.
  intros fn need s' e. subst s' e need fn. unfold fetch_one.
  destruct (need_request (c_fs s) (cache_name o id) (o_ow o)); [destruct (a_ans a); [destruct (cache_name o id)|]|];
    cbn; repeat split; try reflexivity; try discriminate.
Qed.

(* a request is issued iff: no cache path, or no such file, or an empty file, or overwrite *)
Theorem need_request_iff f fn ow :
  need_request f fn ow = true <->
  (fn = None \/ exists n, fn = Some n /\ (fs2_get n f = None \/ fs2_get n f = Some [] \/ ow = true)).
Proof.
  unfold need_request. destruct fn as [n|]; [|split; auto].
  destruct (fs2_get n f) as [v|] eqn:G.
  - destruct v as [|c v]; simpl.
    + split; [intros _; right; exists n; auto|reflexivity].
    + split.
      * intros H. right. exists n. auto.
      * intros [H|(m & E & [H|[H|H]])]; try discriminate; try exact H.
        all: inversion E; subst; congruence.
  - split; [intros _; right; exists n; auto|reflexivity].
Qed.

(* no cache path iff neither path= nor client.path is a non-empty string ... and client.path is not the empty string either *)
Theorem cache_name_none o id : cache_name o id = None <-> eff_path o = None.
Proof. unfold cache_name. destruct (eff_path o); simpl; split; congruence. Qed.
Theorem eff_path_table o :
  eff_path o = match o_path o with
               | Some (c :: r) => Some (c :: r)                 (* a non-empty path= wins *)
               | _ => o_self o                                  (* path= None or '' -> client.path (None, '' or a directory) *)
               end.
Proof. reflexivity. Qed.

(* ---- files ---- *)
Lemma fs2_get_set_same n v f : fs2_get n (fs2_set n v f) = Some v.
Proof. unfold fs2_set. cbn [fs2_get]. rewrite (proj2 (str_eqb_eq n n) eq_refl). reflexivity. Qed.
Lemma fs2_get_set_other m n v f : str_eqb m n = false -> fs2_get n (fs2_set m v f) = fs2_get n f.
Proof. intros H. unfold fs2_set. cbn [fs2_get]. rewrite H. reflexivity. Qed.

Definition on_name (n : str) (e : ev) : bool := match e_name e with Some m => str_eqb m n | None => false end.
Definition bad_ans (a : answer) : bool := match a with Ans [] => true | Ans _ => false | Fail _ => true end.
Definition is_req (n : str) (e : ev) : bool := e_req e && on_name n e.
Definition is_ow (n : str) (e : ev) : bool := e_ow e && on_name n e.
Definition is_bad (n : str) (e : ev) : bool := e_req e && on_name n e && bad_ans (e_ans e).
Definition cnt (p : ev -> bool) (es : list ev) : nat := length (filter p es).
Definition good2 (n : str) (f : fs2) : bool := match fs2_get n f with Some (_ :: _) => true | _ => false end.
Definition phi (n : str) (f : fs2) : nat := if good2 n f then 0%nat else 1%nat.
Definition b2n (b : bool) : nat := if b then 1%nat else 0%nat.

Lemma cnt_cons p e es : cnt p (e :: es) = (b2n (p e) + cnt p es)%nat.
Proof. unfold cnt. simpl. destruct (p e); reflexivity. Qed.
Lemma cnt_app p a b : cnt p (a ++ b) = (cnt p a + cnt p b)%nat.
Proof. unfold cnt. rewrite filter_app, app_length. reflexivity. Qed.

(* the content of file n after one fetch_seq: the answer if a request for that file succeeded, else unchanged *)
Definition upd (n : str) (e : ev) (c : option str) : option str :=
  if is_req n e then match e_ans e with Ans pl => Some pl | Fail _ => c end else c.

Lemma fetch_one_file n s o id a :
  fs2_get n (c_fs (fst (fetch_one s o id a))) = upd n (snd (fetch_one s o id a)) (fs2_get n (c_fs s)).
Proof.
  destruct (fetch_one_table s o id a) as (Hreq & Hname & _ & Hans & _ & Hfs & _).
  unfold upd, is_req, on_name. rewrite Hreq, Hname, Hans, Hfs.
  destruct (need_request _ _ _); [|reflexivity].
  destruct (cache_name o id) as [m|]; simpl; [|destruct (a_ans a); reflexivity].
  destruct (a_ans a) as [pl|h].
  - destruct (str_eqb m n) eqn:E.
    + apply str_eqb_eq in E. subst m. apply fs2_get_set_same.
    + apply fs2_get_set_other. exact E.
  - destruct (str_eqb m n); reflexivity.
Qed.

Lemma need_true_phi n f ow : need_request f (Some n) ow = true -> (1 <= phi n f + b2n ow)%nat.
Proof.
  unfold need_request, phi, good2. destruct (fs2_get n f) as [[|c v]|]; simpl; try lia.
  intros ->. simpl. lia.
Qed.

Lemma fetch_one_count n s o id a :
  let s' := fst (fetch_one s o id a) in let e := snd (fetch_one s o id a) in
  (b2n (is_req n e) + phi n (c_fs s') <= phi n (c_fs s) + b2n (is_ow n e) + b2n (is_bad n e))%nat.
Proof.
  intros s' e.
  pose proof (fetch_one_file n s o id a) as Hfile. fold s' e in Hfile.
  destruct (fetch_one_table s o id a) as (Hreq & Hname & How & Hans & _). fold e in Hreq, Hname, How, Hans.
  assert (Hphi': phi n (c_fs s') = match is_req n e, e_ans e with
                                   | true, Ans (_ :: _) => 0%nat | true, Ans [] => 1%nat | _, _ => phi n (c_fs s) end).
  { unfold phi, good2. rewrite Hfile. unfold upd. destruct (is_req n e); [|reflexivity].
    destruct (e_ans e) as [[|c pl]|h]; reflexivity. }
  rewrite Hphi'. unfold is_bad, is_ow. fold (is_req n e).
  destruct (is_req n e) eqn:Rq.
  - unfold is_req in Rq. apply andb_prop in Rq. destruct Rq as [R1 R2]. rewrite R2, andb_true_r.
    unfold on_name in R2. rewrite Hname in R2. destruct (cache_name o id) as [m|]; [|discriminate].
    apply str_eqb_eq in R2. subst m. rewrite Hreq in R1.
    pose proof (need_true_phi n (c_fs s) (o_ow o) R1) as Hp. rewrite How.
    destruct (e_ans e) as [[|c pl]|h]; simpl; lia.
  - simpl. lia.
Qed.

Lemma fetch_list_count n o : forall ids env s,
  let r := fetch_list s o ids env in
  (cnt (is_req n) (snd r) + phi n (c_fs (fst r)) <= phi n (c_fs s) + cnt (is_ow n) (snd r) + cnt (is_bad n) (snd r))%nat.
Proof.
  induction ids as [|id ids IH]; intros env s; simpl; [unfold cnt; simpl; lia|].
  pose proof (fetch_one_count n s o id (hd attempt0 env)) as H1. simpl in H1.
  destruct (fetch_one s o id (hd attempt0 env)) as [s1 e] eqn:E1. simpl in H1.
  destruct (is_exc (e_res e)).
  - simpl. rewrite !cnt_cons. unfold cnt; simpl. lia.
  - specialize (IH (if e_req e then tl env else env) s1). simpl in IH.
    destruct (fetch_list s1 o ids (if e_req e then tl env else env)) as [s2 es]. simpl in *.
    rewrite !cnt_cons. lia.
Qed.

Lemma do_ops_count n : forall ops s,
  let r := do_ops s ops in let es := concat (snd r) in
  (cnt (is_req n) es + phi n (c_fs (fst r)) <= phi n (c_fs s) + cnt (is_ow n) es + cnt (is_bad n) es)%nat.
Proof.
  induction ops as [|o ops IH]; intros s; simpl; [unfold cnt; simpl; lia|].
  unfold do_op.
  pose proof (fetch_list_count n o (op_ids o) (o_env o)
     {| c_rate := c_rate s; c_pend := c_pend s + o_gap o; c_calls := c_calls s; c_fs := c_fs s |}) as H1. simpl in H1.
  destruct (fetch_list _ o (op_ids o) (o_env o)) as [s1 es]. simpl in H1.
  specialize (IH s1). simpl in IH. destruct (do_ops s1 ops) as [s2 ess]. simpl in *.
  rewrite !cnt_app. lia.
Qed.

(* ANY history of calls (any mix of the four methods, paths, extensions, overwrite, failing requests, empty answers, a server that
   answers differently every time): the number of requests made for the file n is at most
   (1 unless a good file was there before) + (calls on n with overwrite) + (requests for n that failed or were answered empty) *)
Theorem cache_request_bound n ops s :
  let es := concat (snd (do_ops s ops)) in
  (cnt (is_req n) es <= phi n (c_fs s) + cnt (is_ow n) es + cnt (is_bad n) es)%nat.
Proof. intros es. pose proof (do_ops_count n ops s) as H. cbv zeta in H. subst es. lia. Qed.

(* hence: without overwrite, failures and empty answers the file is requested at most once, and never if it was there *)
Theorem cache_once_history n ops s :
  let es := concat (snd (do_ops s ops)) in
  cnt (is_ow n) es = 0%nat -> cnt (is_bad n) es = 0%nat ->
  (cnt (is_req n) es <= 1)%nat /\ (good2 n (c_fs s) = true -> cnt (is_req n) es = 0%nat).
Proof.
  intros es H1 H2. pose proof (cache_request_bound n ops s) as H. cbv zeta in H. subst es. rewrite H1, H2 in H.
  unfold phi in H. split; [destruct (good2 n (c_fs s)); lia|]. intros G. rewrite G in H. lia.
Qed.

(* the file's content after any history is the answer to the last successful request for it (or what was there before) *)
Lemma fetch_list_file n o : forall ids env s,
  let r := fetch_list s o ids env in fs2_get n (c_fs (fst r)) = fold_left (fun c e => upd n e c) (snd r) (fs2_get n (c_fs s)).
Proof.
  induction ids as [|id ids IH]; intros env s; simpl; [reflexivity|].
  pose proof (fetch_one_file n s o id (hd attempt0 env)) as H1.
  destruct (fetch_one s o id (hd attempt0 env)) as [s1 e] eqn:E1. simpl in H1.
  destruct (is_exc (e_res e)).
  - simpl. exact H1.
  - specialize (IH (if e_req e then tl env else env) s1). simpl in IH.
    destruct (fetch_list s1 o ids (if e_req e then tl env else env)) as [s2 es]. simpl in *. rewrite <- H1. exact IH.
Qed.

Theorem file_is_last_answer n : forall ops s,
  let r := do_ops s ops in
  fs2_get n (c_fs (fst r)) = fold_left (fun c e => upd n e c) (concat (snd r)) (fs2_get n (c_fs s)).
Proof.
  induction ops as [|o ops IH]; intros s; simpl; [reflexivity|].
  unfold do_op.
  pose proof (fetch_list_file n o (op_ids o) (o_env o)
     {| c_rate := c_rate s; c_pend := c_pend s + o_gap o; c_calls := c_calls s; c_fs := c_fs s |}) as H1. simpl in H1.
  destruct (fetch_list _ o (op_ids o) (o_env o)) as [s1 es]. simpl in H1.
  specialize (IH s1). simpl in IH. destruct (do_ops s1 ops) as [s2 ess]. simpl in *.
  rewrite fold_left_app, <- H1. exact IH.
Qed.

(* ---- fetch_basket: ids in order, one event per id until the first exception, duplicates are not merged ---- *)
Lemma fetch_list_shape o : forall ids env s,
  let es := snd (fetch_list s o ids env) in
  (length es <= length ids)%nat /\
  (forallb (fun e => negb (is_exc (e_res e))) es = true -> length es = length ids) /\
  map e_name es = firstn (length es) (map (cache_name o) ids).
Proof.
  induction ids as [|id ids IH]; intros env s; simpl; [auto|].
  destruct (fetch_one_table s o id (hd attempt0 env)) as (_ & Hname & _).
  destruct (fetch_one s o id (hd attempt0 env)) as [s1 e] eqn:E1. simpl in Hname.
  destruct (is_exc (e_res e)) eqn:Ex.
  - simpl. rewrite Ex. simpl. repeat split; try lia; try discriminate. rewrite Hname. reflexivity.
  - specialize (IH (if e_req e then tl env else env) s1). simpl in IH.
    destruct (fetch_list s1 o ids (if e_req e then tl env else env)) as [s2 es]. simpl in *.
    destruct IH as (I1 & I2 & I3). rewrite Ex. simpl. repeat split; try lia.
    + intros H. rewrite (I2 H). reflexivity.
    + rewrite Hname, I3. reflexivity.
Qed.

(* without a cache path every id occurrence is requested (duplicates included) *)
Lemma fetch_list_nocache o : eff_path o = None -> forall ids env s,
  forallb e_req (snd (fetch_list s o ids env)) = true.
Proof.
  intros Hp. induction ids as [|id ids IH]; intros env s; simpl; [reflexivity|].
  destruct (fetch_one_table s o id (hd attempt0 env)) as (Hreq & _).
  destruct (fetch_one s o id (hd attempt0 env)) as [s1 e] eqn:E1. simpl in Hreq.
  assert (Hr: e_req e = true).
  { rewrite Hreq. unfold cache_name. rewrite Hp. reflexivity. }
  destruct (is_exc (e_res e)).
  - simpl. rewrite Hr. reflexivity.
  - specialize (IH (if e_req e then tl env else env) s1).
    destruct (fetch_list s1 o ids (if e_req e then tl env else env)) as [s2 es]. simpl in *. rewrite Hr, IH. reflexivity.
Qed.

(* ---- the reader as an oracle: "the sequence returned is what read() parses from the payload, cached or not" ---- *)
Section Reader.
Variable R : Type.
Variable read : str -> option (list R).
Definition first_of (x : option (list R)) : option R := match x with Some (y :: _) => Some y | _ => None end.

(* a call that requests and is answered pl returns the first record of read(pl), with or without a cache directory *)
Theorem get_requested s o id a pl : a_ans a = Ans pl ->
  need_request (c_fs s) (cache_name o id) (o_ow o) = true ->
  get_seq_result R read (c_fs (fst (fetch_one s o id a))) (snd (fetch_one s o id a)).(e_res) = first_of (read pl).
Proof.
  intros Ha Hn. destruct (fetch_one_table s o id a) as (_ & _ & _ & _ & _ & Hfs & Hres & _).
  rewrite Hn, Ha in Hfs, Hres. rewrite Hres, Hfs. unfold get_seq_result.
  destruct (cache_name o id) as [n|]; unfold delivered.
  - rewrite fs2_get_set_same. reflexivity.
  - reflexivity.
Qed.

(* a call that finds the file (content v, not empty, no overwrite) requests nothing and returns the first record of read(v) *)
Theorem get_cached s o id a n v : cache_name o id = Some n -> fs2_get n (c_fs s) = Some v -> v <> [] -> o_ow o = false ->
  fetch_one s o id a = (s, snd (fetch_one s o id a)) /\ (snd (fetch_one s o id a)).(e_req) = false /\
  get_seq_result R read (c_fs s) (snd (fetch_one s o id a)).(e_res) = first_of (read v).
Proof.
  intros Hc Hg Hv Ho. destruct (fetch_one_table s o id a) as (Hreq & _ & _ & _ & _ & _ & Hres & Hsame & _).
  assert (Hn: need_request (c_fs s) (cache_name o id) (o_ow o) = false).
  { rewrite Hc. unfold need_request. rewrite Hg, Ho. destruct v; [contradiction|reflexivity]. }
  rewrite Hn in *. specialize (Hsame eq_refl). split; [|split].
  - rewrite <- Hsame at 2. destruct (fetch_one s o id a); reflexivity.
  - exact Hreq.
  - rewrite Hres, Hc. unfold get_seq_result. simpl. rewrite Hg. reflexivity.
Qed.

(* get_basket: the records of all delivered texts in the order of the id list *)
Theorem read_all_spec f rs : read_all R read f rs =
  fold_right (fun r acc => match delivered f r with
                           | Some c => match read c, acc with Some x, Some y => Some (x ++ y) | _, _ => None end
                           | None => None end) (Some []) rs.
Proof. induction rs as [|r rs IH]; simpl; [reflexivity|]. rewrite IH. reflexivity. Qed.
End Reader.

(* ---- file names ---- *)
Lemma has_byte_app c a b : has_byte c (a ++ b) = has_byte c a || has_byte c b.
Proof. unfold has_byte. apply existsb_app. Qed.

Lemma has_byte_mid c a b : has_byte c (a ++ c :: b) = true.
Proof.
  rewrite has_byte_app. unfold has_byte at 2. cbn [existsb]. rewrite (proj2 (byte_eqb_eq c c) eq_refl). apply orb_true_r.
Qed.

(* (id, ext) -> id.ext is injective when the extensions contain no dot ... *)
Theorem basename_inj i e i' e' : has_byte dot e = false -> has_byte dot e' = false ->
  basename i e = basename i' e' -> i = i' /\ e = e'.
Proof.
  unfold basename. revert i'. induction i as [|c i IH]; intros [|c' i'] He He' H; simpl in H.
  - inversion H. auto.
  - inversion H as [[Hc Hr]]. subst e. rewrite has_byte_mid in He. discriminate.
  - inversion H as [[Hc Hr]]. subst e'. rewrite has_byte_mid in He'. discriminate.
  - inversion H as [[Hc Hr]]. destruct (IH i' He He' Hr) as [-> ->]. auto.
Qed.

(* ... and not otherwise: id AB0001 with ext 1.fasta and id AB0001.1 with ext fasta share a cache file *)
Theorem basename_collision : exists i e i' e', (i, e) <> (i', e') /\ basename i e = basename i' e'.
Proof.
  exists (bs "AB0001"%bs), (bs "1.fasta"%bs), (bs "AB0001.1"%bs), (bs "fasta"%bs). split; [discriminate|reflexivity].
Qed.

Lemma starts_with_slash_basename i e : has_byte slash i = false -> starts_with_slash (basename i e) = false.
Proof.
  unfold basename. destruct i as [|c i]; simpl; [reflexivity|].
  intros H. apply orb_false_elim in H. destruct H as [H _].
  destruct (byte_eqb c slash) eqn:E; [|reflexivity].
  apply byte_eqb_eq in E. subst c. rewrite (proj2 (byte_eqb_eq slash slash) eq_refl) in H. discriminate.
Qed.

(* an id without '/' is stored directly in the cache directory *)
Theorem fname_in_dir p i e : has_byte slash i = false ->
  fname p i e = if (Nat.eqb (length p) 0) || ends_with_slash p then p ++ basename i e else p ++ slash :: basename i e.
Proof. intros H. unfold fname, path_join. rewrite (starts_with_slash_basename i e H). reflexivity. Qed.

(* in one directory, ids without '/' and extensions without '.' never share a file *)
Theorem fname_inj p i e i' e' : has_byte slash i = false -> has_byte slash i' = false ->
  has_byte dot e = false -> has_byte dot e' = false -> fname p i e = fname p i' e' -> i = i' /\ e = e'.
Proof.
  intros Hi Hi' He He' H. rewrite (fname_in_dir p i e Hi), (fname_in_dir p i' e' Hi') in H.
  apply basename_inj; try assumption.
  destruct ((Nat.eqb (length p) 0) || ends_with_slash p).
  - apply app_inv_head in H. exact H.
  - apply app_inv_head in H. inversion H. reflexivity.
Qed.

(* an id that starts with '/' ignores the cache directory altogether (os.path.join drops the first argument) *)
Theorem fname_absolute_id p i e : starts_with_slash i = true -> fname p i e = basename i e.
Proof.
  intros H. unfold fname, path_join, basename. destruct i as [|c i]; [discriminate|]. simpl in *. rewrite H. reflexivity.
Qed.

(* ---- the client's requests are a history of the limiter: the rate theorems hold for the whole client ---- *)
Section Tie.
Variable K : bool -> Prop.

Definition cl_ok (s : cl) : Prop :=
  c_rate s = runF (rev (c_calls s)) /\ Forall (fun kc => call_ok (snd kc) /\ K (fst kc)) (c_calls s) /\ 0 <= c_pend s.

Definition attempt_ok (a : attempt) : Prop := 0 <= a_eps a /\ 0 <= a_dur a.

Lemma fetch_one_ok s o id a : K (o_key o) -> attempt_ok a -> cl_ok s -> cl_ok (fst (fetch_one s o id a)).
Proof.
  intros HK (He & Hd) (Hr & Hc & Hp).
  destruct (fetch_one_table s o id a) as (_ & _ & _ & _ & _ & _ & _ & Hsame & Hneed).
  destruct (need_request (c_fs s) (cache_name o id) (o_ow o)).
  - destruct (Hneed eq_refl) as (H1 & H2 & H3 & _). unfold cl_ok. rewrite H1, H2, H3. split; [|split].
    + simpl. unfold runF. rewrite fold_left_app. simpl. unfold rstepF at 1. simpl. rewrite Hr. reflexivity.
    + constructor; [|exact Hc]. simpl. split; [|exact HK]. unfold call_ok. simpl. lia.
    + lia.
  - rewrite (Hsame eq_refl). split; [|split]; assumption.
Qed.

Lemma fetch_list_ok o : K (o_key o) -> forall ids env s, Forall attempt_ok env -> cl_ok s -> cl_ok (fst (fetch_list s o ids env)).
Proof.
  intros HK. induction ids as [|id ids IH]; intros env s Henv Hs; simpl; [exact Hs|].
  assert (Ha: attempt_ok (hd attempt0 env)).
  { destruct env as [|a env]; simpl; [unfold attempt_ok; simpl; lia|]. inversion Henv; assumption. }
  pose proof (fetch_one_ok s o id (hd attempt0 env) HK Ha Hs) as H1.
  destruct (fetch_one s o id (hd attempt0 env)) as [s1 e]. simpl in H1.
  destruct (is_exc (e_res e)); [exact H1|].
  assert (Henv': Forall attempt_ok (if e_req e then tl env else env)).
  { destruct (e_req e); [|exact Henv]. destruct env as [|a env]; simpl; [constructor|]. inversion Henv; assumption. }
  specialize (IH (if e_req e then tl env else env) s1 Henv' H1).
  destruct (fetch_list s1 o ids (if e_req e then tl env else env)) as [s2 es]. exact IH.
Qed.

Definition op_ok (o : op) : Prop := 0 <= o_gap o /\ Forall attempt_ok (o_env o) /\ K (o_key o).

Lemma do_ops_ok : forall ops s, Forall op_ok ops -> cl_ok s -> cl_ok (fst (do_ops s ops)).
Proof.
  induction ops as [|o ops IH]; intros s Hops Hs; simpl; [exact Hs|].
  inversion Hops as [|o' ops' (Hg & Henv & HK) Hrest]; subst.
  unfold do_op.
  assert (Hs0: cl_ok {| c_rate := c_rate s; c_pend := c_pend s + o_gap o; c_calls := c_calls s; c_fs := c_fs s |}).
  { destruct Hs as (H1 & H2 & H3). split; [|split]; simpl; try assumption. lia. }
  pose proof (fetch_list_ok o HK (op_ids o) (o_env o) _ Henv Hs0) as H1.
  destruct (fetch_list _ o (op_ids o) (o_env o)) as [s1 es]. simpl in H1.
  specialize (IH s1 Hrest H1). destruct (do_ops s1 ops) as [s2 ess]. exact IH.
Qed.

Lemma cl_init_ok f : cl_ok (cl_init f).
Proof. split; [|split]; simpl; [reflexivity|constructor|lia]. Qed.
End Tie.

Lemma okb_ok o : op_okb o = true -> op_ok (fun _ => True) o.
Proof.
  unfold op_okb. rewrite !andb_true_iff. intros (((Hg & Henv) & _) & _). split; [lia|]. split; [|exact I].
  rewrite forallb_forall in Henv. apply Forall_forall. intros a Ha. specialize (Henv a Ha).
  unfold attempt_okb in Henv. apply andb_prop in Henv. unfold attempt_ok. lia.
Qed.

(* every history of public calls on one client (any methods, cache hits in between, failures, key switches): no window with
   more than the larger limit of request starts *)
Theorem client_window_limit f ops x : forallb op_okb ops = true ->
  (count_in_window window x (hist (c_rate (fst (do_ops (cl_init f) ops)))) <= limit true)%nat.
Proof.
  intros H. rewrite forallb_forall in H.
  assert (Hops: Forall (op_ok (fun _ => True)) ops) by (apply Forall_forall; intros o Ho; apply okb_ok, H, Ho).
  destruct (do_ops_ok (fun _ => True) ops (cl_init f) Hops (cl_init_ok _ f)) as (Hr & Hc & _).
  rewrite Hr. apply window_limit_any_key_F. apply Forall_rev. eapply Forall_impl; [|exact Hc]. simpl. tauto.
Qed.

Lemma all_key_map key (l : list (bool * call)) : Forall (fun kc => call_ok (snd kc) /\ fst kc = key) l ->
  l = map (pair key) (map snd l) /\ Forall call_ok (map snd l).
Proof.
  induction 1 as [|[k c] l (Hc1 & Hk1) Hl (IH1 & IH2)]; simpl; [split; [reflexivity|constructor]|].
  simpl in Hk1, Hc1. subst k. split; [f_equal; exact IH1|constructor; assumption].
Qed.

(* ... and with one key setting throughout, no window with more than that setting's limit *)
Theorem client_window_limit_const key f ops x : forallb op_okb ops = true -> Forall (fun o => o_key o = key) ops ->
  (count_in_window window x (hist (c_rate (fst (do_ops (cl_init f) ops)))) <= limit key)%nat.
Proof.
  intros H Hk. rewrite forallb_forall in H.
  assert (Hops: Forall (op_ok (fun k => k = key)) ops).
  { rewrite Forall_forall in *. intros o Ho. destruct (okb_ok o (H o Ho)) as (H1 & H2 & _). split; [exact H1|]. split; [exact H2|]. apply Hk, Ho. }
  destruct (do_ops_ok (fun k => k = key) ops (cl_init f) Hops (cl_init_ok _ f)) as (Hr & Hc & _).
  rewrite Hr.
  apply Forall_rev in Hc. destruct (all_key_map key _ Hc) as (E & Hok).
  rewrite E, (runF_const key _ Hok). apply shipped_window_limit. exact Hok.
Qed.

(* ---- the start times the events report are the limiter's history ---- *)

Definition starts_of (es : list ev) : list Z := map e_start (filter e_req es).
Lemma starts_of_app a b : starts_of (a ++ b) = starts_of a ++ starts_of b.
Proof. unfold starts_of. rewrite filter_app, map_app. reflexivity. Qed.
Lemma starts_of_cons e es : starts_of (e :: es) = (if e_req e then [e_start e] else []) ++ starts_of es.
Proof. unfold starts_of. simpl. destruct (e_req e); reflexivity. Qed.

Lemma fetch_one_starts s o id a :
  let s' := fst (fetch_one s o id a) in let e := snd (fetch_one s o id a) in
  hist (c_rate s') = (if e_req e then [e_start e] else []) ++ hist (c_rate s).
Proof.
  intros s' e. destruct (fetch_one_table s o id a) as (Hreq & _ & _ & _ & _ & _ & _ & Hsame & Hneed).
  fold s' e in Hreq, Hsame, Hneed. rewrite Hreq.
  destruct (need_request (c_fs s) (cache_name o id) (o_ow o)).
  - destruct (Hneed eq_refl) as (H1 & _ & _ & H4 & _). simpl. rewrite H4, H1. apply hist_stepF.
  - rewrite (Hsame eq_refl). reflexivity.
Qed.

Lemma fetch_list_starts o : forall ids env s,
  let r := fetch_list s o ids env in hist (c_rate (fst r)) = rev (starts_of (snd r)) ++ hist (c_rate s).
Proof.
  induction ids as [|id ids IH]; intros env s; simpl; [reflexivity|].
  pose proof (fetch_one_starts s o id (hd attempt0 env)) as H1. simpl in H1.
  destruct (fetch_one s o id (hd attempt0 env)) as [s1 e] eqn:E1. simpl in H1.
  destruct (is_exc (e_res e)).
  - simpl. rewrite starts_of_cons, H1. unfold starts_of; simpl. rewrite app_nil_r. destruct (e_req e); reflexivity.
  - specialize (IH (if e_req e then tl env else env) s1). simpl in IH.
    destruct (fetch_list s1 o ids (if e_req e then tl env else env)) as [s2 es]. simpl in *.
    rewrite IH, H1, starts_of_cons, rev_app_distr, <- app_assoc. f_equal. destruct (e_req e); reflexivity.
Qed.

Lemma do_ops_starts : forall ops s,
  let r := do_ops s ops in hist (c_rate (fst r)) = rev (starts_of (concat (snd r))) ++ hist (c_rate s).
Proof.
  induction ops as [|o ops IH]; intros s; simpl; [reflexivity|].
  unfold do_op.
  pose proof (fetch_list_starts o (op_ids o) (o_env o)
     {| c_rate := c_rate s; c_pend := c_pend s + o_gap o; c_calls := c_calls s; c_fs := c_fs s |}) as H1. simpl in H1.
  destruct (fetch_list _ o (op_ids o) (o_env o)) as [s1 es]. simpl in H1.
  specialize (IH s1). simpl in IH. destruct (do_ops s1 ops) as [s2 ess]. simpl in *.
  rewrite IH, H1, starts_of_app, rev_app_distr, <- app_assoc. reflexivity.
Qed.

(* the start times reported by the events of a history (requests only, failed ones included), oldest first, are exactly the
   limiter's record *)
Theorem client_starts f ops :
  let r := do_ops (cl_init f) ops in starts_of (concat (snd r)) = rev (hist (c_rate (fst r))).
Proof.
  intros r. pose proof (do_ops_starts ops (cl_init f)) as H. cbv zeta in H. fold r in H.
  simpl in H. rewrite app_nil_r in H. rewrite H, rev_involutive. reflexivity.
Qed.

Lemma count_rev W x l : count_in_window W x (rev l) = count_in_window W x l.
Proof.
  unfold count_in_window. induction l as [|a l IH]; simpl; [reflexivity|].
  rewrite filter_app, app_length, IH. simpl. destruct (in_window W x a); simpl; lia.
Qed.

(* hence the property's first sentence for the observable itself: in any history of public calls, no half-open one-second window
   contains more than 10 (with one key setting: that setting's limit) of the request start times *)
Theorem client_starts_window f ops x : forallb op_okb ops = true ->
  (count_in_window window x (starts_of (concat (snd (do_ops (cl_init f) ops)))) <= limit true)%nat.
Proof. intros H. rewrite client_starts, count_rev. apply client_window_limit. exact H. Qed.

Theorem client_starts_window_const key f ops x : forallb op_okb ops = true -> Forall (fun o => o_key o = key) ops ->
  (count_in_window window x (starts_of (concat (snd (do_ops (cl_init f) ops)))) <= limit key)%nat.
Proof. intros H Hk. rewrite client_starts, count_rev. apply client_window_limit_const; assumption. Qed.

(* ---- the deque never shrinks (why removing the key does not bring the limit back down) ---- *)
Theorem deque_never_shrinks N W s c : (0 < N)%nat ->
  (length (dq s) <= length (dq (step N W s c)))%nat /\ (length (dq (step N W s c)) <= max (length (dq s)) N)%nat.
Proof.
  intros HN. unfold step, wait.
  destruct (N <=? length (dq s))%nat eqn:F.
  - apply Nat.leb_le in F. destruct (dq s) as [|prev rest] eqn:E; [simpl in F; lia|].
    destruct (now s + gap c - prev <? W); cbn [dq]; rewrite app_length; simpl length in *; split; try lia; try (apply Nat.max_case_strong; intros; lia).
  - apply Nat.leb_gt in F. cbn [dq]. rewrite app_length. simpl length. split; try lia; try (apply Nat.max_case_strong; intros; lia).
Qed.

(* ---- a request of the client sleeps iff its limiter call does: popleft branch and the popped stamp younger than the window ---- *)
Lemma slept_stepF N W s c :
  hd 0 (slept (stepF N W s c)) = snd (wait N W (dq (trim N s)) (now s + gap c) (eps c)).
Proof. unfold stepF, step. cbn [now trim]. destruct (wait N W (dq (trim N s)) (now s + gap c) (eps c)) as [[d' t'] sl]. reflexivity. Qed.

(* a request of the client sleeps iff, after trimming the record to the last N stamps (N the limit of this call's key), there are
   N of them and the oldest is younger than the window *)
Theorem client_sleep_iff s o id a : 0 <= a_eps a ->
  need_request (c_fs s) (cache_name o id) (o_ow o) = true ->
  let e := snd (fetch_one s o id a) in let t := now (c_rate s) + c_pend s in
  let d := dq (trim (limit (o_key o)) (c_rate s)) in
  e_slept e <> 0 <-> (limit (o_key o) <= length d)%nat /\ exists prev rest, d = prev :: rest /\ t - prev < window.
Proof.
  intros He Hn e t d. destruct (fetch_one_table s o id a) as (_ & _ & _ & _ & _ & _ & _ & _ & Hneed).
  destruct (Hneed Hn) as (H1 & _ & _ & _ & H5). fold e in H5. rewrite H5, H1, slept_stepF. cbn [gap eps].
  apply wait_sleeps_iff. exact He.
Qed.

(* a call that finds its file never sleeps and never touches the limiter *)
Theorem cache_hit_no_sleep s o id a : need_request (c_fs s) (cache_name o id) (o_ow o) = false ->
  fst (fetch_one s o id a) = s /\ e_req (snd (fetch_one s o id a)) = false /\ e_slept (snd (fetch_one s o id a)) = 0.
Proof.
  intros Hn. destruct (fetch_one_table s o id a) as (Hreq & _ & _ & _ & _ & _ & _ & Hsame & _).
  rewrite Hn in *. split; [apply Hsame; reflexivity|]. split; [exact Hreq|].
  unfold fetch_one. rewrite Hn. reflexivity.
Qed.

(* ---- starts paired with the key setting of their request; no window holds more than 3 keyless starts ---- *)
Fixpoint khist (s : st) (cs : list (bool * call)) : list (bool * Z) :=
  match cs with
  | [] => []
  | kc :: r => let s' := rstepF s kc in (fst kc, hd 0 (hist s')) :: khist s' r
  end.
Definition keyless_in_window (x : Z) (l : list (bool * Z)) : nat :=
  length (filter (fun p => negb (fst p) && in_window window x (snd p)) l).

Lemma khist_app a : forall s b, khist s (a ++ b) = khist s a ++ khist (fold_left rstepF a s) b.
Proof. induction a as [|kc a IH]; intros s b; simpl; [reflexivity|]. rewrite IH. reflexivity. Qed.

Lemma khist_times cs : forall s, rev (map snd (khist s cs)) ++ hist s = hist (fold_left rstepF cs s).
Proof.
  induction cs as [|kc cs IH]; intros s; simpl; [reflexivity|].
  rewrite <- IH. rewrite <- app_assoc. simpl. f_equal. unfold rstepF. symmetry. apply hist_stepF.
Qed.

Lemma keyless_le_count x l : (keyless_in_window x l <= count_in_window window x (map snd l))%nat.
Proof.
  unfold keyless_in_window, count_in_window. induction l as [|[k t] l IH]; simpl; [lia|].
  destruct k; simpl; destruct (in_window window x t); simpl; lia.
Qed.

Theorem keyless_window_limit cs x : Forall (fun kc => call_ok (snd kc)) cs ->
  (keyless_in_window x (khist init cs) <= limit false)%nat.
Proof.
  induction cs as [|kc cs IH] using rev_ind; intros H; [unfold keyless_in_window; simpl; lia|].
  pose proof H as H0. apply Forall_app in H. destruct H as [Hcs Hkc].
  rewrite khist_app. cbn [khist]. unfold keyless_in_window. rewrite filter_app, app_length. cbn [filter fst snd].
  fold (keyless_in_window x (khist init cs)).
  set (t := hd 0 (hist (rstepF (fold_left rstepF cs init) kc))).
  specialize (IH Hcs).
  destruct (negb (fst kc) && in_window window x t) eqn:E; cbn [length]; [|lia].
  apply andb_prop in E. destruct E as [Ek Ein]. apply negb_true_iff in Ek.
  (* the new keyless start lies in the window: everything so far in that window is at most limit false *)
  pose proof (window_limit_current_key cs kc x H0) as Hw. cbv zeta in Hw.
  assert (Eh: hist (runF (cs ++ [kc])) = t :: hist (fold_left rstepF cs init)).
  { unfold runF. rewrite fold_left_app. simpl. unfold t, rstepF. apply hist_stepF. }
  rewrite Eh in Hw. simpl in Hw. specialize (Hw Ein). rewrite Ek in Hw.
  pose proof (keyless_le_count x (khist init cs)) as Hle.
  pose proof (khist_times cs init) as Ht. simpl in Ht. rewrite app_nil_r in Ht.
  rewrite <- (count_rev window x (map snd (khist init cs))), Ht in Hle.
  unfold count_in_window in Hw. simpl in Hw. rewrite Ein in Hw. simpl in Hw.
  unfold count_in_window in Hle. change entrez_requests with (limit false) in Hw. lia.
Qed.


(* non-vacuity: the same get_seq call twice with a cache directory - one request, then a hit *)
Definition w_op : op :=
  mk_op (1%N, 0, false, None, Some (bs "R/p0"%bs), [bs "AB0001.1"%bs], bs "fasta"%bs, None, false, [(0, 0, Some (bs ">a"%bs), false)]).
Lemma witness_client :
  forallb op_okb [w_op; w_op] = true /\
  map (map e_req) (snd (do_ops (cl_init []) [w_op; w_op])) = [[true]; [false]] /\
  cnt (is_req (bs "R/p0/AB0001.1.fasta"%bs)) (concat (snd (do_ops (cl_init []) [w_op; w_op]))) = 1%nat.
Proof. vm_compute. repeat split. Qed.
