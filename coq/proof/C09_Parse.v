(* C09 proofs, part 7: the FASTA reader (iter_fasta, first record) on the text the index extracts:
   header line followed by residues and line terminators  ->  (id, header, upper-cased residues). *)
From Coq Require Import List Arith Lia ZArith NArith Bool.
From Coq.Strings Require Import Byte.
Import ListNotations.
From SV Require Import Text C09_Model C09_Lemmas C09_Extract C09_Record.

(* bytes of an extracted region: residues (no white space, not '>' / ';') or CR / LF; a CR only directly before LF or last *)
Definition resb (c : byte) : bool := negb (is_ws_str c) && negb (byte_eqb c GT) && negb (byte_eqb c SEMI).
Definition datab (c : byte) : bool := resb c || byte_eqb c LF || byte_eqb c CR.
Fixpoint cr_ok (s : str) : bool :=
  match s with
  | [] => true
  | c :: r => (if byte_eqb c CR then match r with [] => true | d :: _ => byte_eqb d LF end else true) && cr_ok r
  end.

Lemma cr_ok_skipn : forall s k, cr_ok s = true -> cr_ok (skipn k s) = true.
Proof.
  induction s as [|c s IH]; intros k H; destruct k; try exact H; try reflexivity.
  cbn [skipn]. apply IH. cbn [cr_ok] in H. apply andb_prop in H. apply H.
Qed.
Lemma cr_ok_firstn : forall s k, cr_ok s = true -> cr_ok (firstn k s) = true.
Proof.
  induction s as [|c s IH]; intros k H; destruct k; try reflexivity.
  cbn [firstn cr_ok] in *. apply andb_prop in H. destruct H as [Hc Hs]. rewrite (IH k Hs), andb_true_r.
  destruct (byte_eqb c CR); [|reflexivity]. destruct s as [|d s]; [destruct k; reflexivity|].
  destruct k; [reflexivity|]. exact Hc.
Qed.

Lemma resb_facts c : resb c = true ->
  is_ws_str c = false /\ nonnl c = true /\ byte_eqb c GT = false /\ byte_eqb c SEMI = false /\ byte_eqb c LF = false /\ byte_eqb c CR = false.
Proof. destruct c; vm_compute; intro H; first [repeat split; reflexivity | discriminate H]. Qed.
Lemma datab_facts c : datab c = true -> byte_eqb c GT = false /\ byte_eqb c SEMI = false.
Proof. destruct c; vm_compute; intro H; first [split; reflexivity | discriminate H]. Qed.

(* ---- white space stripping ---- *)
Definition head_nows (x : str) : Prop := match x with [] => True | c :: _ => is_ws_str c = false end.
Lemma lstrip_ws_head x : head_nows x -> lstrip_ws x = x.
Proof. destruct x as [|c x]; [reflexivity|]. cbn. intros ->. reflexivity. Qed.
Lemma lstrip_ws_app x y : lstrip_ws (x ++ y) = match lstrip_ws x with [] => lstrip_ws y | l => l ++ y end.
Proof.
  induction x as [|c x IH]; [cbn; destruct (lstrip_ws y); reflexivity|].
  cbn [app lstrip_ws]. destruct (is_ws_str c); [exact IH|reflexivity].
Qed.
Lemma lstrip_ws_allws x : forallb is_ws_str x = true -> lstrip_ws x = [].
Proof. induction x as [|c x IH]; [reflexivity|]. cbn. intros H. apply andb_prop in H. destruct H as [Hc Hx]. rewrite Hc. apply IH. exact Hx. Qed.
Lemma forallb_rev {A} (p : A -> bool) l : forallb p l = true -> forallb p (rev l) = true.
Proof. intros H. rewrite forallb_forall in *. intros x Hx. apply H. apply in_rev. exact Hx. Qed.
Lemma nows_head x : forallb (fun c => negb (is_ws_str c)) x = true -> head_nows x.
Proof. destruct x as [|c x]; [exact (fun _ => I)|]. cbn. intros H. apply andb_prop in H. destruct H as [H _]. destruct (is_ws_str c); [discriminate|reflexivity]. Qed.

(* a non-empty prefix without white space stays; white space is removed at the end only *)
Lemma strip_pre a b : a <> [] -> forallb (fun c => negb (is_ws_str c)) a = true ->
  strip_ws (a ++ b) = a ++ rev (lstrip_ws (rev b)).
Proof.
  intros Hne Ha. unfold strip_ws.
  rewrite (lstrip_ws_head (a ++ b)) by (destruct a as [|c a]; [congruence|]; exact (nows_head _ Ha)).
  rewrite rev_app_distr, lstrip_ws_app.
  assert (E: lstrip_ws (rev a) = rev a) by (apply lstrip_ws_head, nows_head, forallb_rev; exact Ha).
  destruct (lstrip_ws (rev b)) as [|c l].
  - rewrite E, rev_involutive. cbn [rev]. rewrite app_nil_r. reflexivity.
  - rewrite rev_app_distr, rev_involutive. reflexivity.
Qed.
Lemma strip_core core wsx : forallb (fun c => negb (is_ws_str c)) core = true -> forallb is_ws_str wsx = true ->
  strip_ws (core ++ wsx) = core.
Proof.
  intros Hc Hw. destruct core as [|c core].
  - unfold strip_ws. cbn [app]. rewrite (lstrip_ws_allws _ Hw). reflexivity.
  - rewrite strip_pre by (try discriminate; exact Hc).
    rewrite (lstrip_ws_allws (rev wsx)) by (apply forallb_rev; exact Hw). cbn [rev]. apply app_nil_r.
Qed.
Lemma lstrip_suffix x : exists p, x = p ++ lstrip_ws x.
Proof.
  induction x as [|c x [p IH]]; [exists []; reflexivity|]. cbn [lstrip_ws]. destruct (is_ws_str c).
  - exists (c :: p). cbn [app]. rewrite <- IH. reflexivity.
  - exists []. reflexivity.
Qed.
Lemma rstrip_prefix b : exists z, b = rev (lstrip_ws (rev b)) ++ z.
Proof.
  destruct (lstrip_suffix (rev b)) as [p E]. exists (rev p).
  rewrite <- rev_app_distr, <- E, rev_involutive. reflexivity.
Qed.

(* ---- one line ---- *)
Lemma line_core : forall t x, forallb datab t = true -> forallb notLF t = true -> cr_ok (t ++ x) = true ->
  (x = [] \/ exists rest, x = LF :: rest) ->
  exists core wsx, t = core ++ wsx /\ forallb resb core = true /\ (wsx = [] \/ wsx = [CR]).
Proof.
  induction t as [|c t IH]; intros x Hd Hl Hc Hx.
  - exists [], []. auto.
  - cbn [forallb] in Hd, Hl. apply andb_prop in Hd. destruct Hd as [Hdc Hd]. apply andb_prop in Hl. destruct Hl as [Hlc Hl].
    cbn [app cr_ok] in Hc. apply andb_prop in Hc. destruct Hc as [Hcc Hc].
    unfold datab in Hdc. apply orb_prop in Hdc. destruct Hdc as [Hdc|Hcr].
    + apply orb_prop in Hdc. destruct Hdc as [Hr|Hlf].
      * destruct (IH x Hd Hl Hc Hx) as [core [wsx [E [Hcore Hw]]]].
        exists (c :: core), wsx. rewrite E. cbn [app forallb]. rewrite Hr, Hcore. auto.
      * unfold notLF in Hlc. rewrite Hlf in Hlc. discriminate.
    + rewrite Hcr in Hcc. destruct t as [|d t].
      * exists [], [c]. apply byte_eqb_eq in Hcr. subst c. auto.
      * cbn [app] in Hcc. cbn [forallb] in Hl. apply andb_prop in Hl. destruct Hl as [Hld _]. unfold notLF in Hld.
        rewrite Hcc in Hld. discriminate.
Qed.

Lemma line_strip t x sfx : forallb datab t = true -> forallb notLF t = true -> cr_ok (t ++ x) = true ->
  (x = [] \/ exists rest, x = LF :: rest) -> (sfx = [] \/ sfx = [LF]) ->
  strip_ws (t ++ sfx) = filter nonnl t.
Proof.
  intros Hd Hl Hc Hx Hs. destruct (line_core t x Hd Hl Hc Hx) as [core [wsx [E [Hcore Hw]]]]. subst t.
  assert (Cn: forallb (fun c => negb (is_ws_str c)) core = true).
  { rewrite forallb_forall in *. intros c Hin. destruct (resb_facts c (Hcore c Hin)) as [-> _]. reflexivity. }
  assert (Fc: filter nonnl core = core).
  { apply filter_all. rewrite forallb_forall in *. intros c Hin. apply (resb_facts c (Hcore c Hin)). }
  rewrite <- app_assoc, filter_app, Fc.
  rewrite strip_core; [|exact Cn|].
  - destruct Hw as [-> | ->]; cbn; rewrite ?app_nil_r; reflexivity.
  - destruct Hw as [-> | ->]; destruct Hs as [-> | ->]; reflexivity.
Qed.

(* ---- iteration over lines ---- *)
Lemma lines_keep_line : forall t cur rest, forallb notLF t = true ->
  lines_keep_aux cur (t ++ LF :: rest) = (rev cur ++ t ++ [LF]) :: lines_keep_aux [] rest.
Proof.
  induction t as [|c t IH]; intros cur rest H.
  - cbn [app lines_keep_aux]. rewrite byte_eqb_refl. cbn [rev]. reflexivity.
  - cbn [forallb] in H. apply andb_prop in H. destruct H as [Hc Ht]. unfold notLF in Hc.
    cbn [app lines_keep_aux]. destruct (byte_eqb c LF); [discriminate|].
    rewrite IH by exact Ht. cbn [rev]. rewrite <- app_assoc. reflexivity.
Qed.
Lemma lines_keep_last : forall t cur, forallb notLF t = true ->
  lines_keep_aux cur t = match rev cur ++ t with [] => [] | l => [l] end.
Proof.
  induction t as [|c t IH]; intros cur H.
  - cbn [lines_keep_aux]. rewrite app_nil_r. destruct cur as [|c cur]; [reflexivity|].
    destruct (rev (c :: cur)) eqn:E; [|reflexivity]. apply (f_equal (@length byte)) in E. rewrite rev_length in E. discriminate.
  - cbn [forallb] in H. apply andb_prop in H. destruct H as [Hc Ht]. unfold notLF in Hc.
    cbn [lines_keep_aux]. destruct (byte_eqb c LF); [discriminate|].
    rewrite IH by exact Ht. cbn [rev]. rewrite <- app_assoc. reflexivity.
Qed.
Lemma split_lf : forall s : str, forallb notLF s = true \/ exists t rest, s = t ++ LF :: rest /\ forallb notLF t = true.
Proof.
  induction s as [|c s IH]; [left; reflexivity|].
  destruct (byte_eqb c LF) eqn:E.
  - right. exists [], s. apply byte_eqb_eq in E. subst c. auto.
  - destruct IH as [H | [t [rest [-> H]]]].
    + left. cbn [forallb]. unfold notLF at 1. rewrite E, H. reflexivity.
    + right. exists (c :: t), rest. split; [reflexivity|]. cbn [forallb]. unfold notLF at 1. rewrite E, H. reflexivity.
Qed.

Lemma starts_data l : forallb datab l = true -> starts_with GT l = false /\ starts_with SEMI l = false.
Proof.
  destruct l as [|c l]; [auto|]. cbn [forallb starts_with]. intros H. apply andb_prop in H. destruct H as [H _].
  exact (datab_facts c H).
Qed.

(* the data lines after the header: everything is appended, stripped of its line terminators *)
Lemma fasta_data : forall n (s : str), length s <= n -> forallb datab s = true -> cr_ok s = true ->
  forall h d, fasta_first (lines_keep s) (Some (h, d)) = Ok (h, d ++ filter nonnl s).
Proof.
  induction n as [|n IH]; intros s Hn Hd Hc h d.
  - destruct s; [|simpl in Hn; lia]. cbn. rewrite app_nil_r. reflexivity.
  - destruct (split_lf s) as [Hl | [t [rest [E Hl]]]].
    + unfold lines_keep. rewrite (lines_keep_last s [] Hl). cbn [rev app].
      destruct s as [|c s0] eqn:Es; [cbn; rewrite app_nil_r; reflexivity|]. rewrite <- Es in *.
      cbn [fasta_first]. destruct (starts_data s Hd) as [-> ->].
      assert (S: strip_ws s = filter nonnl s).
      { rewrite <- (app_nil_r s) at 1. apply (line_strip s [] [] Hd Hl); [rewrite app_nil_r; exact Hc|auto|auto]. }
      rewrite S. reflexivity.
    + subst s. unfold lines_keep. rewrite (lines_keep_line t [] rest Hl). cbn [rev app fasta_first].
      rewrite forallb_app in Hd. apply andb_prop in Hd. destruct Hd as [Hdt Hdr]. cbn [forallb] in Hdr.
      apply andb_prop in Hdr. destruct Hdr as [_ Hdr].
      assert (Hdl: forallb datab (t ++ [LF]) = true) by (rewrite forallb_app, Hdt; reflexivity).
      destruct (starts_data _ Hdl) as [-> ->].
      assert (S: strip_ws (t ++ [LF]) = filter nonnl t).
      { apply (line_strip t (LF :: rest) [LF] Hdt Hl Hc); eauto. }
      rewrite S.
      assert (Hcr: cr_ok rest = true).
      { pose proof (cr_ok_skipn _ (length t + 1) Hc) as K.
        replace (t ++ LF :: rest) with ((t ++ [LF]) ++ rest) in K by (rewrite <- app_assoc; reflexivity).
        replace (length t + 1) with (length (t ++ [LF])) in K by (rewrite app_length; reflexivity).
        rewrite skipn_app_len in K. exact K. }
      fold (lines_keep rest). rewrite IH; [|rewrite app_length in Hn; simpl in Hn; lia|exact Hdr|exact Hcr].
      rewrite filter_app. cbn [filter]. change (nonnl LF) with false. cbn iota. rewrite app_assoc. reflexivity.
Qed.

(* ---- the header line ---- *)
Lemma id_char_chs c : id_char c = true -> is_chs c = true /\ is_ws_str c = false /\ byte_eqb c GT = false.
Proof. destruct c; vm_compute; intro H; first [repeat split; reflexivity | discriminate H]. Qed.
Lemma ws_bytes_str c : is_ws_bytes c = true -> is_ws_str c = true.
Proof. destruct c; vm_compute; intro H; first [reflexivity | discriminate H]. Qed.

Lemma take_chs_app a y : forallb is_chs a = true -> (y = [] \/ exists c t, y = c :: t /\ is_ws_str c = true) ->
  take_chs (a ++ y) = a.
Proof.
  intros Ha Hy. induction a as [|c a IH].
  - cbn [app]. destruct Hy as [-> | [c [t [-> Hc]]]]; [reflexivity|]. cbn [take_chs]. unfold is_chs. rewrite Hc. reflexivity.
  - cbn [forallb] in Ha. apply andb_prop in Ha. destruct Ha as [Hc Ha]. cbn [app take_chs]. rewrite Hc, IH by exact Ha. reflexivity.
Qed.

Theorem parse_extracted mode crlf (r : arec) (data : str) :
  wf_rec mode (length (nl_of crlf)) r = true -> forallb datab data = true -> cr_ok data = true ->
  parse_get (header_line (nl_of crlf) r ++ data)
  = Ok (Some (rid r), strip_ws (rid r ++ rdesc r ++ nl_of crlf), upper (filter nonnl data)).
Proof.
  intros Hwf Hd Hc. set (nl := nl_of crlf).
  destruct (wf_rec_facts _ _ _ Hwf) as [_ [H1 [H2 _]]].
  assert (Hid: wf_id (rid r) = true /\ wf_desc (rdesc r) = true).
  { unfold wf_rec in Hwf. apply andb_prop in Hwf. destruct Hwf as [H _]. apply andb_prop in H. destruct H as [H _].
    apply andb_prop in H. destruct H as [H _]. apply andb_prop in H. exact H. }
  destruct Hid as [Hi Hde]. unfold wf_id in Hi. apply andb_prop in Hi. destruct Hi as [Hne Hic].
  destruct (rid r) as [|c0 i0] eqn:Ei; [discriminate|]. rewrite <- Ei in *.
  assert (Hne2: rid r <> []) by (rewrite Ei; discriminate).
  (* the lines: the header line, then the data lines *)
  assert (HL: forallb notLF (rid r ++ rdesc r) = true) by (apply nonnl_notLF; exact H1).
  assert (EL: lines_keep (header_line nl r ++ data) = header_line nl r :: lines_keep data).
  { unfold lines_keep, header_line. destruct crlf; subst nl; cbn [nl_of].
    - replace ((GT :: rid r ++ rdesc r ++ [CR; LF]) ++ data) with ((GT :: (rid r ++ rdesc r) ++ [CR]) ++ LF :: data)
        by (cbn [app]; rewrite <- !app_assoc; reflexivity).
      rewrite lines_keep_line by (cbn [forallb]; rewrite forallb_app, HL; reflexivity).
      cbn [rev app]. rewrite <- !app_assoc. reflexivity.
    - replace ((GT :: rid r ++ rdesc r ++ [LF]) ++ data) with ((GT :: (rid r ++ rdesc r)) ++ LF :: data)
        by (cbn [app]; rewrite <- !app_assoc; reflexivity).
      rewrite lines_keep_line by (cbn [forallb]; rewrite HL; reflexivity).
      cbn [rev app]. rewrite <- !app_assoc. reflexivity. }
  unfold parse_get. rewrite EL. cbn [fasta_first]. unfold header_line at 1. cbn [starts_with]. rewrite byte_eqb_refl.
  assert (LG: lstrip_gt (header_line nl r) = rid r ++ rdesc r ++ nl).
  { unfold header_line. cbn [lstrip_gt]. rewrite byte_eqb_refl. rewrite Ei. cbn [app lstrip_gt].
    assert (byte_eqb c0 GT = false) as ->; [|reflexivity].
    rewrite forallb_forall in Hic. apply (id_char_chs c0). apply Hic. rewrite Ei. left. reflexivity. }
  rewrite LG. rewrite (fasta_data (length data) data (le_n _) Hd Hc). cbn [app].
  f_equal. f_equal. f_equal.
  (* the id *)
  assert (Hnw: forallb (fun c => negb (is_ws_str c)) (rid r) = true).
  { rewrite forallb_forall in *. intros c Hin. destruct (id_char_chs c (Hic c Hin)) as [_ [-> _]]. reflexivity. }
  assert (Hch: forallb is_chs (rid r) = true).
  { rewrite forallb_forall in *. intros c Hin. apply (id_char_chs c (Hic c Hin)). }
  rewrite (strip_pre (rid r) (rdesc r ++ nl) Hne2 Hnw). unfold id_from_header.
  rewrite take_chs_app; [rewrite Ei; reflexivity|exact Hch|].
  destruct (rstrip_prefix (rdesc r ++ nl)) as [z Ez].
  destruct (rev (lstrip_ws (rev (rdesc r ++ nl)))) as [|c y]; [left; reflexivity|right].
  exists c, y. split; [reflexivity|].
  assert (Hd2: exists c' t, rdesc r ++ nl = c' :: t /\ is_ws_bytes c' = true).
  { destruct (rdesc r) as [|c' d'] eqn:Ed.
    - subst nl. destruct crlf; cbn; eauto.
    - unfold wf_desc in Hde. apply andb_prop in Hde. destruct Hde as [Hc' _]. exists c', (d' ++ nl). split; [reflexivity|].
      apply orb_prop in Hc'. destruct Hc' as [Hc'|Hc']; apply byte_eqb_eq in Hc'; subst c'; reflexivity. }
  destruct Hd2 as [c' [t [E2 Hw]]]. rewrite E2 in Ez. cbn [app] in Ez. inversion Ez; subst c'. apply ws_bytes_str. exact Hw.
Qed.
