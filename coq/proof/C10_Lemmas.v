From Coq Require Import List ZArith NArith Bool Lia.
From Coq.Strings Require Import Byte.
Import ListNotations.
From SV Require Import Text G_flags C10_Model.
Local Open Scope Z_scope.

(* ------------------------------------------------------------ wrapped locations *)
Lemma cons_head_concat c l : l <> [] -> concat (cons_head c l) = c :: concat l.
Proof. destruct l as [|h t]; [congruence|reflexivity]. Qed.
Lemma wrap_at_nonempty s w : wrap_at s w <> [].
Proof. destruct w as [|n w]; cbn [wrap_at]; [discriminate|]. destruct ((n =? 0)%nat || (length s <=? n)%nat); discriminate. Qed.
(* P1 wrapped_loc: joining the wrapped pieces (what the reader does with continuation lines) gives the text back *)
Lemma wrap_concat s w : concat (wrap_at s w) = s.
Proof.
  revert s; induction w as [|n w IH]; intros s; cbn [wrap_at]; [cbn; apply app_nil_r|].
  destruct ((n =? 0)%nat || (length s <=? n)%nat); [cbn; apply app_nil_r|].
  cbn [concat]. rewrite IH. apply firstn_skipn.
Qed.

(* ------------------------------------------------------------ induction principle for nested lexp *)
Section lexp_induction.
  Variable P : lexp -> Prop.
  Hypothesis HPos : forall lt gt n, P (LPos lt gt n).
  Hypothesis HRange : forall lt a gt b, P (LRange lt a gt b).
  Hypothesis HDot : forall a b, P (LDot a b).
  Hypothesis HBetween : forall a b, P (LBetween a b).
  Hypothesis HCompl : forall e, P e -> P (LCompl e).
  Hypothesis HJoin : forall es, Forall P es -> P (LJoin es).
  Hypothesis HOrder : forall es, Forall P es -> P (LOrder es).
  Fixpoint lexp_ind2 (e : lexp) : P e :=
    match e with
    | LPos lt gt n => HPos lt gt n
    | LRange lt a gt b => HRange lt a gt b
    | LDot a b => HDot a b
    | LBetween a b => HBetween a b
    | LCompl e => HCompl e (lexp_ind2 e)
    | LJoin es => HJoin es ((fix go (es : list lexp) : Forall P es :=
                               match es with [] => Forall_nil P | x :: r => Forall_cons x (lexp_ind2 x) (go r) end) es)
    | LOrder es => HOrder es ((fix go (es : list lexp) : Forall P es :=
                               match es with [] => Forall_nil P | x :: r => Forall_cons x (lexp_ind2 x) (go r) end) es)
    end.
End lexp_induction.

(* ------------------------------------------------------------ P0 loc_sem: meaning of location expressions *)
Definition good_loc (l : loc) : Prop :=
  0 <= lstart l /\ lstart l < lstop l /\ (lstrand l = plus \/ lstrand l = minus).

Lemma flip_good l : good_loc l -> good_loc (flip l).
Proof.
  intros (H0 & H1 & [H2|H2]); repeat split; cbn; try assumption; rewrite H2; [right|left]; reflexivity.
Qed.
Lemma flip_flip l : (lstrand l = plus \/ lstrand l = minus) -> flip (flip l) = l.
Proof. destruct l as [a b s d]. cbn. intros [H|H]; subst; reflexivity. Qed.

Lemma Forall_flat_map {A B} (P : B -> Prop) (f : A -> list B) l :
  Forall (fun x => Forall P (f x)) l -> Forall P (flat_map f l).
Proof. induction 1; cbn; [constructor|]. apply Forall_app. split; assumption. Qed.

Lemma forallb_Forall_impl {A} (f : A -> bool) (P Q : A -> Prop) l :
  Forall (fun x => P x -> Q x) l -> (forall x, f x = true -> P x) -> forallb f l = true -> Forall Q l.
Proof.
  intros H Hf. induction H as [|x l Hx Hl IH]; cbn; intros E; [constructor|].
  apply andb_prop in E. destruct E as [E1 E2]. constructor; auto.
Qed.

Lemma sem_good e : wf_lexp e = true -> Forall good_loc (sem e).
Proof.
  induction e as [lt gt n|lt a gt b|a b|a b|e IH|es IH|es IH] using lexp_ind2; cbn [wf_lexp sem]; intros W.
  - repeat (apply andb_prop in W; destruct W as [W ?]). constructor; [|constructor].
    unfold good_loc; cbn. split; [lia|]. split; [lia|left; reflexivity].
  - repeat (apply andb_prop in W; destruct W as [W ?]). constructor; [|constructor].
    unfold good_loc; cbn. split; [lia|]. split; [lia|left; reflexivity].
  - repeat (apply andb_prop in W; destruct W as [W ?]). constructor; [|constructor].
    unfold good_loc; cbn. split; [lia|]. split; [lia|left; reflexivity].
  - repeat (apply andb_prop in W; destruct W as [W ?]). constructor; [|constructor].
    unfold good_loc; cbn. split; [lia|]. split; [lia|left; reflexivity].
  - specialize (IH W). clear W. induction IH; cbn; constructor; auto using flip_good.
  - apply andb_prop in W. destruct W as [_ W]. apply Forall_flat_map.
    eapply forallb_Forall_impl; [exact IH| |exact W]. auto.
  - apply andb_prop in W. destruct W as [_ W]. apply Forall_flat_map.
    eapply forallb_Forall_impl; [exact IH| |exact W]. auto.
Qed.

Lemma map_flip_flip ls : Forall good_loc ls -> map flip (map flip ls) = ls.
Proof.
  induction 1 as [|l ls Hl _ IH]; cbn; [reflexivity|]. rewrite IH. f_equal.
  apply flip_flip. apply Hl.
Qed.
Lemma sem_compl_compl e : wf_lexp e = true -> sem (LCompl (LCompl e)) = sem e.
Proof. intros W. cbn [sem]. apply map_flip_flip. apply sem_good. exact W. Qed.

Lemma loc_sem_spec e : wf_lexp e = true ->
  Forall (fun l => 0 <= lstart l /\ lstart l < lstop l /\ (lstrand l = plus \/ lstrand l = minus)) (sem e)
  /\ sem (LCompl e) = map flip (sem e)
  /\ sem (LCompl (LCompl e)) = sem e
  /\ (forall es, sem (LJoin es) = flat_map sem es /\ sem (LOrder es) = flat_map sem es).
Proof.
  intros W. split; [exact (sem_good e W)|]. split; [reflexivity|]. split; [exact (sem_compl_compl e W)|].
  intros es. split; reflexivity.
Qed.

(* ------------------------------------------------------------ the nesting-aware comma split *)
Definition plain (c : byte) : bool := negb (byte_eqb "(" c || byte_eqb ")" c || byte_eqb "," c).
Definition prepend (p : str) (l : list str) : list str :=
  match l with h :: t => (p ++ h) :: t | [] => [p] end.

Lemma split_top_nonempty s d : split_top s d <> [].
Proof.
  revert d; induction s as [|c r IH]; intros d; cbn [split_top]; [discriminate|].
  destruct (byte_eqb "," c && (depth_after c d =? 0)); [discriminate|].
  specialize (IH (depth_after c d)). destruct (split_top r (depth_after c d)); [congruence|discriminate].
Qed.
Lemma cons_head_prepend c p l : l <> [] -> cons_head c (prepend p l) = prepend (c :: p) l.
Proof. destruct l; [congruence|reflexivity]. Qed.
Lemma cons_head_as_prepend c l : l <> [] -> cons_head c l = prepend [c] l.
Proof. destruct l; [congruence|reflexivity]. Qed.
Lemma prepend_nil l : l <> [] -> prepend [] l = l.
Proof. destruct l; [congruence|reflexivity]. Qed.
Lemma prepend_app a b l : l <> [] -> prepend a (prepend b l) = prepend (a ++ b) l.
Proof. destruct l; [congruence|]. cbn. now rewrite app_assoc. Qed.
Lemma prepend_nonempty p l : prepend p l <> [].
Proof. destruct l; discriminate. Qed.

Lemma split_top_plain p rest d : forallb plain p = true ->
  split_top (p ++ rest) d = prepend p (split_top rest d).
Proof.
  induction p as [|c p IH]; cbn [forallb app]; intros H.
  - symmetry. apply prepend_nil, split_top_nonempty.
  - apply andb_prop in H. destruct H as [Hc Hp].
    unfold plain in Hc. apply negb_true_iff in Hc. apply orb_false_iff in Hc. destruct Hc as [Hc H3].
    apply orb_false_iff in Hc. destruct Hc as [H1 H2].
    cbn [split_top]. unfold depth_after. rewrite H1, H2, H3. cbn [andb].
    rewrite IH by exact Hp. apply cons_head_prepend, split_top_nonempty.
Qed.
Lemma split_top_open rest d : split_top ("("%byte :: rest) d = cons_head "("%byte (split_top rest (d + 1)).
Proof. reflexivity. Qed.
Lemma split_top_close rest d : split_top (")"%byte :: rest) d = cons_head ")"%byte (split_top rest (d - 1)).
Proof. reflexivity. Qed.
Lemma split_top_comma rest d : d <> 0 -> split_top (","%byte :: rest) d = cons_head ","%byte (split_top rest d).
Proof.
  intros H. cbn [split_top]. change (depth_after "," d) with d.
  destruct (d =? 0) eqn:E; [lia|]. reflexivity.
Qed.
Lemma split_top_comma0 rest : split_top (","%byte :: rest) 0 = [] :: split_top rest 0.
Proof. reflexivity. Qed.

(* digit strings *)
Lemma digit_plain c : is_digit c = true -> plain c = true.
Proof. destruct c; vm_compute; congruence. Qed.
Lemma all_digits_forall n : all_digits n = true -> forallb is_digit n = true /\ n <> [].
Proof. destruct n; cbn; [discriminate|]. intros H; split; [exact H|discriminate]. Qed.
Lemma forallb_impl {A} (f g : A -> bool) l : (forall x, f x = true -> g x = true) -> forallb f l = true -> forallb g l = true.
Proof. intros H. induction l; cbn; [auto|]. intros E. apply andb_prop in E. destruct E. rewrite H, IHl; auto. Qed.
Lemma digits_plain n : all_digits n = true -> forallb plain n = true.
Proof. intros H. apply all_digits_forall in H. destruct H as [H _]. eapply forallb_impl; [apply digit_plain|exact H]. Qed.
Lemma opt_plain b c : plain c = true -> forallb plain (opt_ch b c) = true.
Proof. destruct b; cbn; [intros ->|]; reflexivity. Qed.

Definition balanced_at (e : lexp) : Prop :=
  forall d rest, 0 <= d -> split_top (print e ++ rest) d = prepend (print e) (split_top rest d).

Lemma join_cons2 (sep x y : str) r : join sep (x :: y :: r) = x ++ sep ++ join sep (y :: r).
Proof. reflexivity. Qed.

Lemma split_top_body es : Forall balanced_at es -> forall d rest, 1 <= d ->
  split_top (join comma (map print es) ++ rest) d = prepend (join comma (map print es)) (split_top rest d).
Proof.
  induction 1 as [|x r Hx Hr IH]; intros d rest Hd.
  - cbn. symmetry. apply prepend_nil, split_top_nonempty.
  - destruct r as [|y r'].
    + cbn [map join]. apply Hx. lia.
    + cbn [map]. rewrite join_cons2. rewrite <- !app_assoc. rewrite Hx by lia.
      unfold comma at 1. cbn [app]. rewrite split_top_comma by lia.
      cbn [map] in IH. rewrite IH by lia.
      rewrite cons_head_prepend by apply split_top_nonempty.
      rewrite prepend_app by apply split_top_nonempty. reflexivity.
Qed.

Lemma compound_balanced kw body : forallb plain kw = true ->
  (forall d rest, 1 <= d -> split_top (body ++ rest) d = prepend body (split_top rest d)) ->
  forall d rest, 0 <= d ->
  split_top ((kw ++ "("%byte :: body ++ [")"%byte]) ++ rest) d = prepend (kw ++ "("%byte :: body ++ [")"%byte]) (split_top rest d).
Proof.
  intros Hk Hb d rest Hd.
  rewrite <- app_assoc. rewrite split_top_plain by exact Hk.
  cbn [app]. rewrite split_top_open. rewrite <- app_assoc. rewrite Hb by lia.
  cbn [app]. rewrite split_top_close. replace (d + 1 - 1) with d by lia.
  pose proof (split_top_nonempty rest d) as HL. set (L := split_top rest d) in *.
  rewrite (cons_head_as_prepend ")"%byte L HL).
  rewrite prepend_app by exact HL.
  rewrite cons_head_prepend by exact HL.
  rewrite prepend_app by exact HL. reflexivity.
Qed.

Lemma wf_balanced e : wf_lexp e = true -> balanced_at e.
Proof.
  induction e as [lt gt n|lt a gt b|a b|a b|e IH|es IH|es IH] using lexp_ind2; cbn [wf_lexp]; intros W; unfold balanced_at.
  - repeat (apply andb_prop in W; destruct W as [W ?]). intros d rest _. apply split_top_plain. cbn [print].
    rewrite !forallb_app, !opt_plain, digits_plain by (assumption || reflexivity). reflexivity.
  - repeat (apply andb_prop in W; destruct W as [W ?]). intros d rest _. apply split_top_plain. cbn [print].
    rewrite !forallb_app, !opt_plain by reflexivity. rewrite (digits_plain a), (digits_plain b) by assumption. reflexivity.
  - repeat (apply andb_prop in W; destruct W as [W ?]). intros d rest _. apply split_top_plain. cbn [print].
    rewrite !forallb_app. rewrite (digits_plain a), (digits_plain b) by assumption. reflexivity.
  - repeat (apply andb_prop in W; destruct W as [W ?]). intros d rest _. apply split_top_plain. cbn [print].
    rewrite !forallb_app. rewrite (digits_plain a), (digits_plain b) by assumption. reflexivity.
  - cbn [print]. apply compound_balanced; [reflexivity|]. intros d rest Hd. apply IH; [exact W|lia].
  - apply andb_prop in W. destruct W as [_ W]. cbn [print]. apply compound_balanced; [reflexivity|].
    apply split_top_body. eapply forallb_Forall_impl; [exact IH| |exact W]. auto.
  - apply andb_prop in W. destruct W as [_ W]. cbn [print]. apply compound_balanced; [reflexivity|].
    apply split_top_body. eapply forallb_Forall_impl; [exact IH| |exact W]. auto.
Qed.

(* key lemma of P1: the arguments of join/order come back exactly *)
Lemma split_top_join es : es <> [] -> forallb wf_lexp es = true ->
  split_top (join comma (map print es)) 0 = map print es.
Proof.
  induction es as [|x r IH]; [congruence|]. intros _ W. cbn [forallb] in W. apply andb_prop in W. destruct W as [Wx Wr].
  destruct r as [|y r'].
  - cbn [map join]. rewrite <- (app_nil_r (print x)) at 1. rewrite (wf_balanced x Wx) by lia. cbn. now rewrite app_nil_r.
  - cbn [map]. rewrite join_cons2. rewrite (wf_balanced x Wx) by lia.
    unfold comma at 1. cbn [app]. rewrite split_top_comma0. cbn [prepend]. rewrite app_nil_r.
    cbn [map] in IH. rewrite IH by (congruence || exact Wr). reflexivity.
Qed.

(* ------------------------------------------------------------ P0 single_loc_spec: one location *)
Lemma has_cons c x s : has c (x :: s) = byte_eqb c x || has c s.
Proof. reflexivity. Qed.
Lemma has_app c a b : has c (a ++ b) = has c a || has c b.
Proof. unfold has. apply existsb_app. Qed.
Lemma digits_has c n : is_digit c = false -> forallb is_digit n = true -> has c n = false.
Proof.
  intros Hc. induction n as [|x n IH]; cbn [forallb]; intros H; [reflexivity|].
  apply andb_prop in H. destruct H as [Hx Hn]. rewrite has_cons, IH by exact Hn.
  destruct (byte_eqb c x) eqn:E; [|reflexivity]. apply byte_eqb_eq in E. subst. congruence.
Qed.
Lemma remove_nohit c s : has c s = false -> remove_char c s = s.
Proof.
  induction s as [|x s IH]; [reflexivity|]. rewrite has_cons. intros H. apply orb_false_iff in H. destruct H as [H1 H2].
  cbn [remove_char filter]. rewrite H1. cbn [negb]. f_equal. apply IH. exact H2.
Qed.
Lemma remove_app c a b : remove_char c (a ++ b) = remove_char c a ++ remove_char c b.
Proof. apply filter_app. Qed.
Lemma nodot_nodotdot s : has "." s = false -> has_dotdot s = false.
Proof.
  induction s as [|c1 r IH]; [reflexivity|]. rewrite has_cons. intros H. apply orb_false_iff in H. destruct H as [H1 H2].
  cbn [has_dotdot]. destruct r as [|c2 r2]; [reflexivity|]. unfold is_dot at 1. rewrite H1. cbn [andb orb]. apply IH. exact H2.
Qed.
Lemma split_char_nohit c s : has c s = false -> split_char c s = [s].
Proof.
  induction s as [|x s IH]; [reflexivity|]. rewrite has_cons. intros H. apply orb_false_iff in H. destruct H as [H1 H2].
  cbn [split_char]. rewrite H1, IH by exact H2. reflexivity.
Qed.
Lemma split_char_app c a b : has c a = false -> split_char c (a ++ c :: b) = a :: split_char c b.
Proof.
  induction a as [|x a IH]; intros H.
  - cbn [app split_char]. now rewrite byte_eqb_refl.
  - rewrite has_cons in H. apply orb_false_iff in H. destruct H as [H1 H2].
    cbn [app split_char]. rewrite H1, IH by exact H2. reflexivity.
Qed.
Lemma split_dotdot_nodot s : has "." s = false -> split_dotdot s = [s].
Proof.
  induction s as [|c1 r IH]; [reflexivity|]. rewrite has_cons. intros H. apply orb_false_iff in H. destruct H as [H1 H2].
  cbn [split_dotdot]. destruct r as [|c2 r2]; [reflexivity|]. unfold is_dot at 1. rewrite H1. cbn [andb].
  rewrite IH by exact H2. reflexivity.
Qed.
Lemma split_dotdot_app a b : has "." a = false ->
  split_dotdot (a ++ "."%byte :: "."%byte :: b) = a :: split_dotdot b.
Proof.
  induction a as [|x a IH]; intros H; [reflexivity|].
  rewrite has_cons in H. apply orb_false_iff in H. destruct H as [H1 H2].
  cbn [app split_dotdot]. specialize (IH H2).
  destruct (a ++ "."%byte :: "."%byte :: b) as [|c2 r2] eqn:E.
  - destruct a; discriminate.
  - unfold is_dot at 1. rewrite H1. cbn [andb]. rewrite IH. reflexivity.
Qed.
Lemma has_dotdot_app a b : has_dotdot (a ++ "."%byte :: "."%byte :: b) = true.
Proof.
  induction a as [|x a IH]; [reflexivity|]. cbn [app has_dotdot].
  destruct (a ++ "."%byte :: "."%byte :: b) as [|c2 r2] eqn:E; [destruct a; discriminate|].
  rewrite IH. apply orb_true_r.
Qed.

(* int() of a digit string is its Horner value *)
Lemma int_body_digits s : forallb is_digit s = true -> forall acc p, (s <> [] \/ p = true) ->
  int_body s acc p = digits_acc s acc.
Proof.
  induction s as [|c r IH]; cbn [forallb]; intros H acc p Hp.
  - destruct Hp as [Hp|Hp]; [congruence|]. subst. reflexivity.
  - apply andb_prop in H. destruct H as [Hc Hr]. cbn [int_body digits_acc].
    unfold is_digit in Hc. destruct (digit_val c) as [d|]; [|discriminate].
    apply IH; [exact Hr|right; reflexivity].
Qed.
Lemma digits_acc_some s : forallb is_digit s = true -> forall acc, exists z, digits_acc s acc = Some z.
Proof.
  induction s as [|c r IH]; cbn [forallb]; intros H acc; [eexists; reflexivity|].
  apply andb_prop in H. destruct H as [Hc Hr]. cbn [digits_acc]. unfold is_digit in Hc.
  destruct (digit_val c) as [d|]; [|discriminate]. apply IH. exact Hr.
Qed.
Lemma digit_not_ws c : is_digit c = true -> is_ws c = false.
Proof. destruct c; vm_compute; congruence. Qed.
Lemma rstrip_no_ws s : forallb (fun c => negb (is_ws c)) s = true -> rstrip s = s.
Proof.
  induction s as [|c r IH]; cbn [forallb]; intros H; [reflexivity|].
  apply andb_prop in H. destruct H as [Hc Hr]. cbn [rstrip]. rewrite IH by exact Hr.
  destruct r; [|reflexivity]. apply negb_true_iff in Hc. now rewrite Hc.
Qed.
Lemma strip_no_ws s : forallb (fun c => negb (is_ws c)) s = true -> strip s = s.
Proof.
  intros H. unfold strip. replace (lstrip s) with s; [apply rstrip_no_ws; exact H|].
  destruct s as [|c r]; [reflexivity|]. cbn [forallb] in H. apply andb_prop in H. destruct H as [Hc _].
  apply negb_true_iff in Hc. cbn [lstrip]. now rewrite Hc.
Qed.
Lemma digits_no_ws n : forallb is_digit n = true -> forallb (fun c => negb (is_ws c)) n = true.
Proof. apply forallb_impl. intros c H. now rewrite digit_not_ws. Qed.
Lemma digit_not_sign c r (X : option Z) (Y : option Z) (F : str -> option Z) : is_digit c = true ->
  match c :: r with
  | "-"%byte :: r' => X
  | "+"%byte :: r' => Y
  | r' => F r'
  end = F (c :: r).
Proof. destruct c; try reflexivity; vm_compute; congruence. Qed.
Lemma py_int_digits n : all_digits n = true -> py_int n = Some (dval n).
Proof.
  intros H. apply all_digits_forall in H. destruct H as [H Hne].
  unfold py_int. rewrite strip_no_ws by (apply digits_no_ws; exact H).
  destruct n as [|c r]; [congruence|].
  assert (Hc : is_digit c = true) by (cbn [forallb] in H; apply andb_prop in H; tauto).
  transitivity (int_body (c :: r) 0 false).
  - destruct c; try reflexivity; vm_compute in Hc; congruence.
  - rewrite int_body_digits by (exact H || (left; discriminate)).
    unfold dval. destruct (digits_acc_some (c :: r) H 0) as [z Hz]. now rewrite Hz.
Qed.

Lemma mk_location_ok a b d : a < b -> mk_location a b d = ROk (mkloc a b plus d).
Proof. intros H. unfold mk_location. destruct (a >=? b) eqn:E; [lia|reflexivity]. Qed.

(* the three stages of _parse_single_loc *)
Definition parse_tail (d2 : N) (s2 : str) : res loc :=
  if has_dotdot s2 then range_of (split_dotdot s2) d2
  else if has "."%byte s2 then range_of (split_char "."%byte s2) (N.lor d2 D_UNKNOWN_SINGLE_BETWEEN)
  else if has "^"%byte s2 then range_of (split_char "^"%byte s2) (N.lor d2 D_BETWEEN_CONSECUTIVE)
  else match py_int s2 with
       | Some n => mk_location (n - 1) n d2
       | None => RErr ValueError
       end.
Definition parse_body (d1 : N) (s1 : str) : res loc :=
  if has ">"%byte s1 then parse_tail (N.lor d1 D_BEYOND_RIGHT) (remove_char ">"%byte s1) else parse_tail d1 s1.
Lemma parse_single_unfold s : parse_single s =
  match s with
  | [] => RErr IndexError
  | c :: r => if byte_eqb "<" c then parse_body D_BEYOND_LEFT r else parse_body D_NONE s
  end.
Proof.
  destruct s as [|c r]; [reflexivity|]. unfold parse_single, parse_body, parse_tail.
  destruct (byte_eqb "<" c); [destruct (has ">" r)|destruct (has ">" (c :: r))]; reflexivity.
Qed.

Lemma nd_gt : is_digit ">" = false. Proof. reflexivity. Qed.
Lemma nd_dot : is_digit "." = false. Proof. reflexivity. Qed.
Lemma nd_caret : is_digit "^" = false. Proof. reflexivity. Qed.
Lemma nd_lt : is_digit "<" = false. Proof. reflexivity. Qed.

Lemma range_of_digits a b d : all_digits a = true -> all_digits b = true -> dval a - 1 < dval b ->
  range_of [a; b] d = ROk (mkloc (dval a - 1) (dval b) plus d).
Proof. intros Ha Hb H. unfold range_of. rewrite (py_int_digits a Ha), (py_int_digits b Hb). apply mk_location_ok. exact H. Qed.

Lemma parse_tail_pos d n : all_digits n = true -> parse_tail d n = mk_location (dval n - 1) (dval n) d.
Proof.
  intros H. pose proof (all_digits_forall n H) as [Hd _]. unfold parse_tail.
  rewrite nodot_nodotdot by (apply digits_has; [exact nd_dot|exact Hd]).
  rewrite (digits_has "." n nd_dot Hd), (digits_has "^" n nd_caret Hd), (py_int_digits n H). reflexivity.
Qed.
Lemma parse_tail_range d a b : all_digits a = true -> all_digits b = true -> dval a - 1 < dval b ->
  parse_tail d (a ++ bs ".."%bs ++ b) = ROk (mkloc (dval a - 1) (dval b) plus d).
Proof.
  intros Ha Hb H. pose proof (all_digits_forall a Ha) as [Hda _]. pose proof (all_digits_forall b Hb) as [Hdb _].
  unfold parse_tail. change (a ++ bs ".."%bs ++ b) with (a ++ "."%byte :: "."%byte :: b).
  rewrite has_dotdot_app, split_dotdot_app by (apply digits_has; [exact nd_dot|exact Hda]).
  rewrite split_dotdot_nodot by (apply digits_has; [exact nd_dot|exact Hdb]).
  apply range_of_digits; assumption.
Qed.
Lemma has_dotdot_single a b : has "." a = false -> has "." b = false -> has_dotdot (a ++ "."%byte :: b) = false.
Proof.
  intros Ha Hb. induction a as [|x a IH].
  - cbn [app has_dotdot]. destruct b as [|c2 r2]; [reflexivity|]. pose proof Hb as Hb'. rewrite has_cons in Hb. apply orb_false_iff in Hb.
    destruct Hb as [Hb1 Hb2]. unfold is_dot at 2. rewrite Hb1, andb_false_r, orb_false_l. apply nodot_nodotdot. exact Hb'.
  - rewrite has_cons in Ha. apply orb_false_iff in Ha. destruct Ha as [Ha1 Ha2]. cbn [app has_dotdot].
    destruct (a ++ "."%byte :: b) as [|c2 r2] eqn:E; [reflexivity|]. unfold is_dot at 1. rewrite Ha1. cbn [andb orb]. apply IH. exact Ha2.
Qed.
Lemma parse_tail_dot d a b : all_digits a = true -> all_digits b = true -> dval a - 1 < dval b ->
  parse_tail d (a ++ bs "."%bs ++ b) = ROk (mkloc (dval a - 1) (dval b) plus (N.lor d D_UNKNOWN_SINGLE_BETWEEN)).
Proof.
  intros Ha Hb H. pose proof (all_digits_forall a Ha) as [Hda _]. pose proof (all_digits_forall b Hb) as [Hdb _].
  unfold parse_tail. change (a ++ bs "."%bs ++ b) with (a ++ "."%byte :: b).
  rewrite has_dotdot_single by (apply digits_has; [exact nd_dot|assumption]).
  rewrite has_app, has_cons, byte_eqb_refl, orb_true_l, orb_true_r.
  rewrite split_char_app by (apply digits_has; [exact nd_dot|exact Hda]).
  rewrite split_char_nohit by (apply digits_has; [exact nd_dot|exact Hdb]).
  apply range_of_digits; assumption.
Qed.
Lemma parse_tail_between d a b : all_digits a = true -> all_digits b = true -> dval a - 1 < dval b ->
  parse_tail d (a ++ bs "^"%bs ++ b) = ROk (mkloc (dval a - 1) (dval b) plus (N.lor d D_BETWEEN_CONSECUTIVE)).
Proof.
  intros Ha Hb H. pose proof (all_digits_forall a Ha) as [Hda _]. pose proof (all_digits_forall b Hb) as [Hdb _].
  unfold parse_tail. change (a ++ bs "^"%bs ++ b) with (a ++ "^"%byte :: b).
  assert (Hnd : has "." (a ++ "^"%byte :: b) = false).
  { rewrite has_app, has_cons, (digits_has "." a nd_dot Hda), (digits_has "." b nd_dot Hdb). reflexivity. }
  rewrite nodot_nodotdot by exact Hnd. rewrite Hnd.
  rewrite has_app, has_cons, byte_eqb_refl, orb_true_l, orb_true_r.
  rewrite split_char_app by (apply digits_has; [exact nd_caret|exact Hda]).
  rewrite split_char_nohit by (apply digits_has; [exact nd_caret|exact Hdb]).
  apply range_of_digits; assumption.
Qed.

Lemma parse_single_lt r : parse_single ("<"%byte :: r) = parse_body D_BEYOND_LEFT r.
Proof. rewrite parse_single_unfold. reflexivity. Qed.
Lemma parse_single_nolt c r : byte_eqb "<" c = false -> parse_single (c :: r) = parse_body D_NONE (c :: r).
Proof. intros H. rewrite parse_single_unfold. now rewrite H. Qed.
Lemma digit_not_lt c : is_digit c = true -> byte_eqb "<" c = false.
Proof. destruct c; vm_compute; congruence. Qed.
Lemma digits_head n : all_digits n = true -> exists c r, n = c :: r /\ is_digit c = true.
Proof.
  destruct n as [|c r]; [discriminate|]. cbn [all_digits forallb]. intros H. apply andb_prop in H. destruct H as [H _].
  exists c, r. split; [reflexivity|exact H].
Qed.
Lemma parse_body_nogt d s : has ">" s = false -> parse_body d s = parse_tail d s.
Proof. intros H. unfold parse_body. now rewrite H. Qed.
Lemma parse_body_gt d s : has ">" s = false -> parse_body d (">"%byte :: s) = parse_tail (N.lor d D_BEYOND_RIGHT) s.
Proof.
  intros H. unfold parse_body. rewrite has_cons, byte_eqb_refl, orb_true_l.
  cbn [remove_char filter]. rewrite byte_eqb_refl. cbn [negb]. fold (remove_char ">" s). now rewrite remove_nohit.
Qed.

Lemma parse_single_pos lt gt n : all_digits n = true -> 1 <= dval n ->
  parse_single (print (LPos lt gt n)) = ROk (mkloc (dval n - 1) (dval n) plus (dflags lt gt)).
Proof.
  intros H H1. pose proof (all_digits_forall n H) as [Hd _].
  pose proof (digits_has ">" n nd_gt Hd) as Hgt.
  destruct (digits_head n H) as (c & r & En & Hc).
  cbn [print]. destruct lt, gt; cbn [opt_ch app].
  - rewrite parse_single_lt, parse_body_gt, parse_tail_pos by assumption. apply mk_location_ok. lia.
  - rewrite parse_single_lt, parse_body_nogt, parse_tail_pos by assumption. apply mk_location_ok. lia.
  - rewrite parse_single_nolt by reflexivity. rewrite parse_body_gt, parse_tail_pos by assumption. apply mk_location_ok. lia.
  - rewrite En at 1. rewrite parse_single_nolt by (apply digit_not_lt; exact Hc). rewrite <- En.
    rewrite parse_body_nogt, parse_tail_pos by assumption. apply mk_location_ok. lia.
Qed.

Lemma has_gt_range a b : all_digits a = true -> all_digits b = true -> has ">" (a ++ bs ".."%bs ++ b) = false.
Proof.
  intros Ha Hb. pose proof (all_digits_forall a Ha) as [Hda _]. pose proof (all_digits_forall b Hb) as [Hdb _].
  rewrite !has_app, (digits_has ">" a nd_gt Hda), (digits_has ">" b nd_gt Hdb). reflexivity.
Qed.
Lemma parse_body_range d a gt b : all_digits a = true -> all_digits b = true -> dval a - 1 < dval b ->
  parse_body d (a ++ bs ".."%bs ++ opt_ch gt ">"%byte ++ b) =
  ROk (mkloc (dval a - 1) (dval b) plus (N.lor d (if gt then D_BEYOND_RIGHT else D_NONE))).
Proof.
  intros Ha Hb H. pose proof (all_digits_forall a Ha) as [Hda _]. pose proof (all_digits_forall b Hb) as [Hdb _].
  destruct gt; cbn [opt_ch app].
  - unfold parse_body.
    assert (E : has ">" (a ++ bs ".."%bs ++ ">"%byte :: b) = true).
    { rewrite !has_app, has_cons, byte_eqb_refl. rewrite !orb_true_r. reflexivity. }
    rewrite E. rewrite !remove_app. rewrite (remove_nohit ">" a) by (apply digits_has; [exact nd_gt|exact Hda]).
    cbn [remove_char filter]. rewrite byte_eqb_refl. cbn [negb]. fold (remove_char ">" b).
    rewrite (remove_nohit ">" b) by (apply digits_has; [exact nd_gt|exact Hdb]).
    change (remove_char ">" (bs ".."%bs)) with (bs ".."%bs).
    apply parse_tail_range; assumption.
  - rewrite parse_body_nogt by (apply has_gt_range; assumption).
    rewrite parse_tail_range by assumption. rewrite N.lor_0_r. reflexivity.
Qed.
Lemma parse_single_range lt a gt b : all_digits a = true -> all_digits b = true -> 1 <= dval a -> dval a <= dval b ->
  parse_single (print (LRange lt a gt b)) = ROk (mkloc (dval a - 1) (dval b) plus (dflags lt gt)).
Proof.
  intros Ha Hb H1 H2. destruct (digits_head a Ha) as (c & r & Ea & Hc).
  cbn [print]. destruct lt; cbn [opt_ch app].
  - rewrite parse_single_lt, parse_body_range by (assumption || lia). reflexivity.
  - rewrite Ea at 1. cbn [app]. rewrite parse_single_nolt by (apply digit_not_lt; exact Hc).
    change (c :: r ++ bs ".."%bs ++ opt_ch gt ">"%byte ++ b) with ((c :: r) ++ bs ".."%bs ++ opt_ch gt ">"%byte ++ b).
    rewrite <- Ea. rewrite parse_body_range by (assumption || lia). reflexivity.
Qed.
Lemma parse_single_dot a b : all_digits a = true -> all_digits b = true -> 1 <= dval a -> dval a < dval b ->
  parse_single (print (LDot a b)) = ROk (mkloc (dval a - 1) (dval b) plus D_UNKNOWN_SINGLE_BETWEEN).
Proof.
  intros Ha Hb H1 H2. destruct (digits_head a Ha) as (c & r & Ea & Hc).
  pose proof (all_digits_forall a Ha) as [Hda _]. pose proof (all_digits_forall b Hb) as [Hdb _].
  cbn [print]. rewrite Ea at 1. cbn [app]. rewrite parse_single_nolt by (apply digit_not_lt; exact Hc).
  change (c :: r ++ bs "."%bs ++ b) with ((c :: r) ++ bs "."%bs ++ b). rewrite <- Ea.
  rewrite parse_body_nogt.
  - rewrite parse_tail_dot by (assumption || lia). reflexivity.
  - rewrite !has_app, (digits_has ">" a nd_gt Hda), (digits_has ">" b nd_gt Hdb). reflexivity.
Qed.
Lemma parse_single_between a b : all_digits a = true -> all_digits b = true -> 1 <= dval a -> dval a < dval b ->
  parse_single (print (LBetween a b)) = ROk (mkloc (dval a - 1) (dval b) plus D_BETWEEN_CONSECUTIVE).
Proof.
  intros Ha Hb H1 H2. destruct (digits_head a Ha) as (c & r & Ea & Hc).
  pose proof (all_digits_forall a Ha) as [Hda _]. pose proof (all_digits_forall b Hb) as [Hdb _].
  cbn [print]. rewrite Ea at 1. cbn [app]. rewrite parse_single_nolt by (apply digit_not_lt; exact Hc).
  change (c :: r ++ bs "^"%bs ++ b) with ((c :: r) ++ bs "^"%bs ++ b). rewrite <- Ea.
  rewrite parse_body_nogt.
  - rewrite parse_tail_between by (assumption || lia). reflexivity.
  - rewrite !has_app, (digits_has ">" a nd_gt Hda), (digits_has ">" b nd_gt Hdb). reflexivity.
Qed.

(* P0 single_loc_spec *)
Lemma single_loc_spec :
  (forall lt gt n, all_digits n = true -> 1 <= dval n ->
     parse_single (print (LPos lt gt n)) = ROk (mkloc (dval n - 1) (dval n) plus (dflags lt gt)))
  /\ (forall lt a gt b, all_digits a = true -> all_digits b = true -> 1 <= dval a -> dval a <= dval b ->
     parse_single (print (LRange lt a gt b)) = ROk (mkloc (dval a - 1) (dval b) plus (dflags lt gt)))
  /\ (forall a b, all_digits a = true -> all_digits b = true -> 1 <= dval a -> dval a < dval b ->
     parse_single (print (LDot a b)) = ROk (mkloc (dval a - 1) (dval b) plus D_UNKNOWN_SINGLE_BETWEEN))
  /\ (forall a b, all_digits a = true -> all_digits b = true -> 1 <= dval a -> dval a < dval b ->
     parse_single (print (LBetween a b)) = ROk (mkloc (dval a - 1) (dval b) plus D_BETWEEN_CONSECUTIVE)).
Proof.
  split; [exact parse_single_pos|]. split; [exact parse_single_range|]. split; [exact parse_single_dot|exact parse_single_between].
Qed.

(* ------------------------------------------------------------ P1 parse_print_loc *)
Definition loc_alphabet : str := bs "<>.^(),joinordercomplement"%bs.
Lemma has_forallb (P : byte -> bool) l c : forallb P l = true -> has c l = true -> P c = true.
Proof.
  intros H Hc. unfold has in Hc. apply existsb_exists in Hc. destruct Hc as (x & Hx & E). apply byte_eqb_eq in E. subst x.
  rewrite forallb_forall in H. apply H. exact Hx.
Qed.
Lemma forallb_sub (P : byte -> bool) l s : forallb P l = true -> forallb (fun c => has c l) s = true -> forallb P s = true.
Proof. intros H. apply forallb_impl. intros c Hc. eapply has_forallb; eassumption. Qed.

Section print_chars.
  Variable P : byte -> bool.
  Hypothesis Pdigit : forall c, is_digit c = true -> P c = true.
  Hypothesis Palpha : forallb P loc_alphabet = true.
  Lemma P_digits n : all_digits n = true -> forallb P n = true.
  Proof. intros H. apply all_digits_forall in H. destruct H as [H _]. eapply forallb_impl; [exact Pdigit|exact H]. Qed.
  Lemma P_lit s : forallb (fun c => has c loc_alphabet) s = true -> forallb P s = true.
  Proof. apply forallb_sub. exact Palpha. Qed.
  Lemma P_opt b c : has c loc_alphabet = true -> forallb P (opt_ch b c) = true.
  Proof. intros H. destruct b; [|reflexivity]. cbn. rewrite (has_forallb P loc_alphabet c Palpha H). reflexivity. Qed.
  Lemma P_join es : Forall (fun e => forallb P (print e) = true) es -> forallb P (join comma (map print es)) = true.
  Proof.
    induction 1 as [|x r Hx Hr IH]; [reflexivity|]. destruct r as [|y r'].
    - exact Hx.
    - cbn [map]. rewrite join_cons2. rewrite !forallb_app. rewrite Hx. cbn [map] in IH. rewrite IH.
      rewrite (P_lit comma) by reflexivity. reflexivity.
  Qed.
  Lemma print_forallb e : wf_lexp e = true -> forallb P (print e) = true.
  Proof.
    induction e as [lt gt n|lt a gt b|a b|a b|e IH|es IH|es IH] using lexp_ind2; cbn [wf_lexp print]; intros W.
    - repeat (apply andb_prop in W; destruct W as [W ?]).
      rewrite !forallb_app, !P_opt, (P_digits n) by (assumption || reflexivity). reflexivity.
    - repeat (apply andb_prop in W; destruct W as [W ?]).
      rewrite !forallb_app, !P_opt, (P_digits a), (P_digits b), (P_lit (bs ".."%bs)) by (assumption || reflexivity). reflexivity.
    - repeat (apply andb_prop in W; destruct W as [W ?]).
      rewrite !forallb_app, (P_digits a), (P_digits b), (P_lit (bs "."%bs)) by (assumption || reflexivity). reflexivity.
    - repeat (apply andb_prop in W; destruct W as [W ?]).
      rewrite !forallb_app, (P_digits a), (P_digits b), (P_lit (bs "^"%bs)) by (assumption || reflexivity). reflexivity.
    - change (kw_complement ++ "("%byte :: print e ++ [")"%byte]) with (kw_complement ++ bs "("%bs ++ print e ++ bs ")"%bs).
      rewrite !forallb_app, (IH W), (P_lit kw_complement), (P_lit (bs "("%bs)), (P_lit (bs ")"%bs)) by reflexivity. reflexivity.
    - apply andb_prop in W. destruct W as [_ W].
      change (kw_join ++ "("%byte :: join comma (map print es) ++ [")"%byte]) with (kw_join ++ bs "("%bs ++ join comma (map print es) ++ bs ")"%bs).
      rewrite !forallb_app, (P_lit kw_join), (P_lit (bs "("%bs)), (P_lit (bs ")"%bs)) by reflexivity.
      rewrite P_join; [reflexivity|]. eapply forallb_Forall_impl; [exact IH| |exact W]. auto.
    - apply andb_prop in W. destruct W as [_ W].
      change (kw_order ++ "("%byte :: join comma (map print es) ++ [")"%byte]) with (kw_order ++ bs "("%bs ++ join comma (map print es) ++ bs ")"%bs).
      rewrite !forallb_app, (P_lit kw_order), (P_lit (bs "("%bs)), (P_lit (bs ")"%bs)) by reflexivity.
      rewrite P_join; [reflexivity|]. eapply forallb_Forall_impl; [exact IH| |exact W]. auto.
  Qed.
End print_chars.

Lemma print_strip e : wf_lexp e = true -> strip (print e) = print e.
Proof.
  intros W. apply strip_no_ws. apply print_forallb; [|reflexivity|exact W].
  intros c H. now rewrite digit_not_ws.
Qed.

Lemma not_compound c r : is_digit c = true \/ c = "<"%byte \/ c = ">"%byte -> is_compound (c :: r) = false.
Proof.
  intros H. destruct c; try reflexivity; exfalso; destruct H as [H|[H|H]]; (discriminate H || (vm_compute in H; discriminate H)).
Qed.

Lemma rindex_last c s : rindex_of c (s ++ [c]) = Some (length s).
Proof.
  induction s as [|x s IH]; cbn [app rindex_of length].
  - now rewrite byte_eqb_refl.
  - now rewrite IH.
Qed.
Lemma firstn_length_app {A} (a b : list A) : firstn (length a) (a ++ b) = a.
Proof. induction a; cbn; [reflexivity|]. now rewrite IHa. Qed.

Lemma compound_inner kw body : has "(" kw = false ->
  index_of "(" (kw ++ "("%byte :: body ++ [")"%byte]) = Some (length kw)
  /\ rindex_of ")" (kw ++ "("%byte :: body ++ [")"%byte]) = Some (length kw + 1 + length body)%nat
  /\ slice (S (length kw)) (length kw + 1 + length body) (kw ++ "("%byte :: body ++ [")"%byte]) = body.
Proof.
  intros Hk. split; [|split].
  - induction kw as [|x kw IH]; [reflexivity|]. rewrite has_cons in Hk. apply orb_false_iff in Hk. destruct Hk as [H1 H2].
    cbn [app index_of length]. rewrite H1, IH by exact H2. reflexivity.
  - replace (kw ++ "("%byte :: body ++ [")"%byte]) with ((kw ++ "("%byte :: body) ++ [")"%byte]) by (rewrite <- app_assoc; reflexivity).
    rewrite rindex_last. rewrite app_length. cbn [length]. f_equal. lia.
  - unfold slice. replace (kw ++ "("%byte :: body ++ [")"%byte]) with ((kw ++ ["("%byte]) ++ body ++ [")"%byte]) by (rewrite <- app_assoc; reflexivity).
    replace (S (length kw)) with (length (kw ++ ["("%byte])) by (rewrite app_length; cbn; lia).
    rewrite skipn_app, skipn_all, Nat.sub_diag. cbn [skipn app].
    replace (length kw + 1 + length body - length (kw ++ ["("%byte]))%nat with (length body) by (rewrite app_length; cbn; lia).
    apply firstn_length_app.
Qed.

Lemma parse_all_map f es : Forall (fun e => parse_locs f (print e) = ROk (sem e)) es ->
  parse_all (parse_locs f) (map print es) = ROk (flat_map sem es).
Proof. induction 1 as [|x r Hx _ IH]; cbn [map parse_all flat_map]; [reflexivity|]. now rewrite Hx, IH. Qed.

Lemma split_top_one e : wf_lexp e = true -> split_top (print e) 0 = [print e].
Proof.
  intros W. rewrite <- (app_nil_r (print e)) at 1. rewrite (wf_balanced e W) by lia. cbn. now rewrite app_nil_r.
Qed.

Definition max_depth (es : list lexp) : nat := fold_right (fun e n => Nat.max (depth e) n) O es.

Lemma parse_locs_compound f kw body :
  has "(" kw = false -> is_compound (kw ++ "("%byte :: body ++ [")"%byte]) = true ->
  strip (kw ++ "("%byte :: body ++ [")"%byte]) = kw ++ "("%byte :: body ++ [")"%byte] ->
  parse_locs (S f) (kw ++ "("%byte :: body ++ [")"%byte]) =
  match parse_all (parse_locs f) (split_top body 0) with
  | RErr k => RErr k
  | ROk ls => ROk (if startswith kw_complement (kw ++ "("%byte :: body ++ [")"%byte]) then map flip ls else ls)
  end.
Proof.
  intros Hk Hc Hs. cbn [parse_locs]. rewrite Hs, Hc.
  destruct (compound_inner kw body Hk) as (E1 & E2 & E3). rewrite E1, E2, E3. reflexivity.
Qed.

Lemma parse_print_loc e : wf_lexp e = true -> forall fuel, (depth e < fuel)%nat ->
  parse_locs fuel (print e) = ROk (sem e).
Proof.
  induction e as [lt gt n|lt a gt b|a b|a b|e IH|es IH|es IH] using lexp_ind2; intros W fuel Hf;
    (destruct fuel as [|f]; [lia|]).
  - pose proof W as W'. cbn [wf_lexp] in W'. repeat (apply andb_prop in W'; destruct W' as [W' ?]).
    cbn [parse_locs]. rewrite (print_strip _ W).
    destruct (digits_head n W') as (c & r & En & Hc).
    assert (Hnc : is_compound (print (LPos lt gt n)) = false).
    { cbn [print]. destruct lt, gt; cbn [opt_ch app]; try (apply not_compound; auto). rewrite En. apply not_compound; auto. }
    rewrite Hnc. rewrite parse_single_pos by (assumption || lia). reflexivity.
  - pose proof W as W'. cbn [wf_lexp] in W'. repeat (apply andb_prop in W'; destruct W' as [W' ?]).
    cbn [parse_locs]. rewrite (print_strip _ W).
    destruct (digits_head a W') as (c & r & En & Hc).
    assert (Hnc : is_compound (print (LRange lt a gt b)) = false).
    { cbn [print]. destruct lt; cbn [opt_ch app]; try (apply not_compound; auto). rewrite En. apply not_compound; auto. }
    rewrite Hnc. rewrite parse_single_range by (assumption || lia). reflexivity.
  - pose proof W as W'. cbn [wf_lexp] in W'. repeat (apply andb_prop in W'; destruct W' as [W' ?]).
    cbn [parse_locs]. rewrite (print_strip _ W).
    destruct (digits_head a W') as (c & r & En & Hc).
    assert (Hnc : is_compound (print (LDot a b)) = false).
    { cbn [print]. rewrite En. apply not_compound; auto. }
    rewrite Hnc. rewrite parse_single_dot by (assumption || lia). reflexivity.
  - pose proof W as W'. cbn [wf_lexp] in W'. repeat (apply andb_prop in W'; destruct W' as [W' ?]).
    cbn [parse_locs]. rewrite (print_strip _ W).
    destruct (digits_head a W') as (c & r & En & Hc).
    assert (Hnc : is_compound (print (LBetween a b)) = false).
    { cbn [print]. rewrite En. apply not_compound; auto. }
    rewrite Hnc. rewrite parse_single_between by (assumption || lia). reflexivity.
  - pose proof (print_strip _ W) as Hs. cbn [print] in Hs |- *. cbn [wf_lexp] in W. cbn [depth] in Hf.
    rewrite parse_locs_compound by (reflexivity || exact Hs).
    rewrite (split_top_one e W). cbn [parse_all]. rewrite (IH W f) by lia.
    rewrite app_nil_r. reflexivity.
  - pose proof (print_strip _ W) as Hs. cbn [print] in Hs |- *. cbn [wf_lexp] in W. cbn [depth] in Hf.
    apply andb_prop in W. destruct W as [Wne W].
    rewrite parse_locs_compound by (reflexivity || exact Hs).
    rewrite split_top_join by (exact W || (destruct es; [discriminate|congruence])).
    rewrite parse_all_map; [reflexivity|].
    fold (max_depth es) in Hf. clear Hs Wne.
    induction IH as [|x r Hx _ IHr]; constructor.
    + cbn [forallb] in W. apply andb_prop in W. apply Hx; [tauto|]. cbn [max_depth fold_right] in Hf. lia.
    + cbn [forallb] in W. apply andb_prop in W. apply IHr; [tauto|]. cbn [max_depth fold_right] in Hf. fold (max_depth r) in Hf. lia.
  - pose proof (print_strip _ W) as Hs. cbn [print] in Hs |- *. cbn [wf_lexp] in W. cbn [depth] in Hf.
    apply andb_prop in W. destruct W as [Wne W].
    rewrite parse_locs_compound by (reflexivity || exact Hs).
    rewrite split_top_join by (exact W || (destruct es; [discriminate|congruence])).
    rewrite parse_all_map; [reflexivity|].
    fold (max_depth es) in Hf. clear Hs Wne.
    induction IH as [|x r Hx _ IHr]; constructor.
    + cbn [forallb] in W. apply andb_prop in W. apply Hx; [tauto|]. cbn [max_depth fold_right] in Hf. lia.
    + cbn [forallb] in W. apply andb_prop in W. apply IHr; [tauto|]. cbn [max_depth fold_right] in Hf. fold (max_depth r) in Hf. lia.
Qed.

(* fuel used by the reader, S (length text), is enough *)
Lemma join_length_ge sep x r : (length x <= length (join sep (x :: r)))%nat /\ (length (join sep r) <= length (join sep (x :: r)))%nat.
Proof.
  destruct r as [|y r']; [cbn; lia|]. rewrite join_cons2, !app_length. split; [lia|].
  rewrite Nat.add_assoc. apply Nat.le_add_l.
Qed.
Lemma depth_le_length e : (depth e <= length (print e))%nat.
Proof.
  induction e as [lt gt n|lt a gt b|a b|a b|e IH|es IH|es IH] using lexp_ind2; cbn [depth print]; try lia.
  - rewrite app_length. cbn [length]. rewrite app_length. cbn [length]. lia.
  - rewrite app_length. cbn [length]. rewrite app_length. cbn [length]. fold (max_depth es).
    assert (max_depth es <= length (join comma (map print es)))%nat; [|lia].
    induction IH as [|x r Hx _ IHr]; [cbn; lia|]. cbn [max_depth fold_right map]. fold (max_depth r).
    destruct (join_length_ge comma (print x) (map print r)) as [H1 H2].
    apply Nat.max_lub; [exact (Nat.le_trans _ _ _ Hx H1)|exact (Nat.le_trans _ _ _ IHr H2)].
  - rewrite app_length. cbn [length]. rewrite app_length. cbn [length]. fold (max_depth es).
    assert (max_depth es <= length (join comma (map print es)))%nat; [|lia].
    induction IH as [|x r Hx _ IHr]; [cbn; lia|]. cbn [max_depth fold_right map]. fold (max_depth r).
    destruct (join_length_ge comma (print x) (map print r)) as [H1 H2].
    apply Nat.max_lub; [exact (Nat.le_trans _ _ _ Hx H1)|exact (Nat.le_trans _ _ _ IHr H2)].
Qed.
Lemma parse_print_loc_str e : wf_lexp e = true -> parse_locs_str (print e) = ROk (sem e).
Proof. intros W. apply parse_print_loc; [exact W|]. pose proof (depth_le_length e). lia. Qed.

(* what Feature(...) makes of a printed location: LocationTuple of the meaning, ordered along the strand *)
Lemma mk_loctuple_sem ls : one_strand ls = true -> mk_loctuple ls = ROk (sort_locs ls).
Proof. destruct ls as [|l0 r]; [discriminate|]. unfold one_strand, mk_loctuple, sort_locs. intros H. now rewrite H. Qed.
Lemma feature_locs e : wf_lexp e = true -> one_strand (sem e) = true ->
  match parse_locs_str (print e) with ROk ls => mk_loctuple ls | RErr k => RErr k end = ROk (sort_locs (sem e)).
Proof. intros W H. rewrite (parse_print_loc_str e W). apply mk_loctuple_sem. exact H. Qed.
(* mixed strands are rejected: join() of plus and minus pieces is outside the domain *)
Lemma mixed_strands_rejected ls : ls <> [] -> one_strand ls = false -> mk_loctuple ls = RErr ValueError.
Proof. destruct ls as [|l0 r]; [congruence|]. unfold one_strand, mk_loctuple. intros _ H. now rewrite H. Qed.

(* the stable insertion sorts only reorder *)
From Coq Require Import Permutation Sorted.
Lemma insert_asc_perm x l : Permutation (insert_asc x l) (x :: l).
Proof.
  induction l as [|y r IH]; cbn [insert_asc]; [reflexivity|].
  destruct (lstart x <=? lstart y); [reflexivity|]. rewrite IH. apply perm_swap.
Qed.
Lemma insert_desc_perm x l : Permutation (insert_desc x l) (x :: l).
Proof.
  induction l as [|y r IH]; cbn [insert_desc]; [reflexivity|].
  destruct (lstop x >=? lstop y); [reflexivity|]. rewrite IH. apply perm_swap.
Qed.
Lemma sort_locs_perm ls : Permutation (sort_locs ls) ls.
Proof.
  assert (A : forall l, Permutation (sort_asc l) l).
  { induction l as [|x r IH]; [reflexivity|]. cbn. rewrite insert_asc_perm. now constructor. }
  assert (D : forall l, Permutation (sort_desc l) l).
  { induction l as [|x r IH]; [reflexivity|]. cbn. rewrite insert_desc_perm. now constructor. }
  destruct ls as [|l0 r]; [reflexivity|]. unfold sort_locs. destruct (byte_eqb (lstrand l0) minus); [apply D|apply A].
Qed.
Lemma insert_asc_sorted x l : StronglySorted (fun a b => lstart a <= lstart b) l ->
  StronglySorted (fun a b => lstart a <= lstart b) (insert_asc x l).
Proof.
  induction 1 as [|y r Hr IH Hy]; cbn [insert_asc]; [repeat constructor|].
  destruct (lstart x <=? lstart y) eqn:E.
  - constructor; [constructor; assumption|]. constructor; [lia|]. eapply Forall_impl; [|exact Hy]. cbn. intros; lia.
  - constructor; [exact IH|]. eapply Permutation_Forall; [symmetry; apply insert_asc_perm|]. constructor; [lia|exact Hy].
Qed.
Lemma insert_desc_sorted x l : StronglySorted (fun a b => lstop a >= lstop b) l ->
  StronglySorted (fun a b => lstop a >= lstop b) (insert_desc x l).
Proof.
  induction 1 as [|y r Hr IH Hy]; cbn [insert_desc]; [repeat constructor|].
  destruct (lstop x >=? lstop y) eqn:E.
  - constructor; [constructor; assumption|]. constructor; [lia|]. eapply Forall_impl; [|exact Hy]. cbn. intros; lia.
  - constructor; [exact IH|]. eapply Permutation_Forall; [symmetry; apply insert_desc_perm|]. constructor; [lia|exact Hy].
Qed.
Lemma sort_asc_sorted l : StronglySorted (fun a b => lstart a <= lstart b) (sort_asc l).
Proof. induction l; cbn; [constructor|]. now apply insert_asc_sorted. Qed.
Lemma sort_desc_sorted l : StronglySorted (fun a b => lstop a >= lstop b) (sort_desc l).
Proof. induction l; cbn; [constructor|]. now apply insert_desc_sorted. Qed.
Lemma sort_locs_spec ls :
  Permutation (sort_locs ls) ls /\
  match ls with
  | [] => True
  | l0 :: _ => if byte_eqb (lstrand l0) minus
               then StronglySorted (fun a b => lstop a >= lstop b) (sort_locs ls)
               else StronglySorted (fun a b => lstart a <= lstart b) (sort_locs ls)
  end.
Proof.
  split; [apply sort_locs_perm|]. destruct ls as [|l0 r]; [exact I|]. unfold sort_locs.
  destruct (byte_eqb (lstrand l0) minus); [apply sort_desc_sorted|apply sort_asc_sorted].
Qed.

(* ------------------------------------------------------------ P2 read_render on a finite box; defect witness *)
Lemma read_render_box : forall excl rs, In excl box_excl -> In rs box_files -> box_ok excl rs = true.
Proof.
  assert (H : forallb (fun excl => forallb (box_ok excl) box_files) box_excl = true) by (vm_compute; reflexivity).
  intros excl rs He Hr. rewrite forallb_forall in H. specialize (H excl He). rewrite forallb_forall in H. exact (H rs Hr).
Qed.
Lemma box_size : length box_files = 324%nat /\ length box_excl = 7%nat.
Proof. split; reflexivity. Qed.

Definition ex_file : list arec := box_file [20%nat; 3%nat] (LCompl (LJoin [LRange false (d "1") false (d "5"); LRange true (d "7") true (d "10")])).
Lemma ex_read_render :
  wf_C10 [] ex_file = true
  /\ iter_genbank [] (render_gb ex_file) = ROk (view [] ex_file)
  /\ read_fts_genbank [k_translation] (render_gb ex_file) = ROk (view_fts [k_translation] ex_file)
  /\ map (fun r => option_map (map flocs) (rfts r)) (view [] ex_file) =
     [Some [[mkloc 0 70 plus 0]; [mkloc 6 10 minus 12; mkloc 0 5 minus 0]]; Some [[mkloc 6 10 minus 12; mkloc 0 5 minus 0]]].
Proof. vm_compute. repeat split; reflexivity. Qed.

(* exclude=('fts',) (defect exclude_fts, fixed in /repo da56cff): the features are dropped, ids and residues stay *)
Lemma ex_exclude_fts :
  wf_C10 [k_fts] ex_file = true
  /\ iter_genbank [k_fts] (render_gb ex_file) = ROk (view [k_fts] ex_file)
  /\ map rid (view [k_fts] ex_file) = map rid (view [] ex_file)
  /\ map rseq (view [k_fts] ex_file) = map rseq (view [] ex_file)
  /\ map rfts (view [k_fts] ex_file) = [None; None]
  /\ read_fts_genbank [k_fts] (render_gb ex_file) = ROk []
  /\ match iter_genbank [k_fts; k_seq] (render_gb ex_file) with ROk l => map (fun r => (rid r, rseq r, rfts r)) l | RErr _ => [] end
     = [(bs "AB000001"%bs, [], None); ([], [], None)].
Proof. vm_compute. repeat split; reflexivity. Qed.
