(* C03 proofs, part 7: the recursion of _resolve_fname over a file-system oracle. *)
From Coq Require Import List ZArith NArith Bool Lia.
From Coq.Strings Require Import Byte.
Import ListNotations.
From SV Require Import Text G_c03 C03_Model C03_Lemmas.

(* ------------------------------------------------------------------ the decision with the _isglob flag *)
Lemma resolve_g_true : forall dd ex f a, resolve_g true dd ex f a = resolve dd ex f a.
Proof. intros dd ex f a. destruct f; reflexivity. Qed.

(* the name decision as a first-match table: stdin > URL > pattern > archive > gzip > plain *)
Definition data_name (dd name0 : str) : str :=
  if startswith (bs "!data/"%bs) name0 then dd ++ [slash] ++ removeprefix (bs "!data/"%bs) name0 else name0.
Definition is_url (name : str) : bool := contains (bs "://"%bs) (firstn 10 name).
Definition wants_archive (a : archive_arg) (name : str) : bool :=
  archive_requested a || existsb (fun ext => endswith (dot :: ext) name) ARCHIVE_EXTS.
Definition wants_gz (a : archive_arg) (name : str) : bool := is_gz_arg a || endswith (bs ".gz"%bs) name.
Definition arch_fmt (a : archive_arg) : option str := match a with AStr s => Some s | _ => None end.
Definition resolve_rows (isglob : bool) (a : archive_arg) (name : str) : list (bool * decision) :=
  [ (str_eqb name (bs "-"%bs), DStdin);
    (is_url name, DUrl (url_basename name)
                    (if wants_archive a (url_basename name)
                     then if has_magic (url_basename name) then UArchiveGlob else UArchiveUnpack (arch_fmt a)
                     else if wants_gz a (url_basename name) then UGz else UData));
    (isglob && has_magic name, DGlob name);
    (wants_archive a name, DArchive name (arch_fmt a));
    (wants_gz a name, DGz name);
    (true, DPlain name) ].
Fixpoint first_row (rows : list (bool * decision)) : decision :=
  match rows with [] => DErrBytes | (c, d) :: r => if c then d else first_row r end.
Lemma resolve_is_table : forall isglob dd ex s a,
  resolve_g isglob dd ex (FStr s) a = first_row (resolve_rows isglob a (data_name dd s)).
Proof.
  intros isglob dd ex s a. unfold resolve_g, resolve_rows, first_row, data_name, is_url, wants_archive, wants_gz, arch_fmt.
  destruct (startswith (bs "!data/"%bs) s);
    repeat match goal with |- context [if ?c then _ else _] => destruct c end; reflexivity.
Qed.
(* a URL is downloaded whatever wildcard characters, archive or gzip extensions its text contains, and whatever _isglob says *)
Lemma resolve_url_first : forall isglob dd ex s a,
  startswith (bs "!data/"%bs) s = false -> str_eqb s (bs "-"%bs) = false -> is_url s = true ->
  exists sub, resolve_g isglob dd ex (FStr s) a = DUrl (url_basename s) sub.
Proof.
  intros isglob dd ex s a Hd Hs Hu. rewrite resolve_is_table. unfold data_name. rewrite Hd. unfold resolve_rows, first_row.
  rewrite Hs, Hu. eexists. reflexivity.
Qed.
(* a name found by a pattern is never expanded again: with _isglob=False no name is a pattern *)
Lemma matched_name_never_globbed : forall dd ex f a pat, resolve_g false dd ex f a <> DGlob pat.
Proof.
  intros dd ex f a pat. destruct f as [| | |s|s]; try (cbn; discriminate).
  - unfold resolve_g. cbn [andb].
    repeat match goal with |- context [if ?c then _ else _] => destruct c end; discriminate.
  - unfold resolve_g. cbn [andb].
    repeat match goal with |- context [if ?c then _ else _] => destruct c end; discriminate.
  - unfold resolve_g. cbn [andb].
    repeat match goal with |- context [if ?c then _ else _] => destruct c end; discriminate.
Qed.

(* ------------------------------------------------------------------ fuel *)
Lemma rconcat_ok : forall rs l, rconcat rs = ROk l ->
  exists ls, rs = map ROk ls /\ l = concat ls.
Proof.
  induction rs as [|r t IH]; intros l H.
  - cbn in H. inversion H. exists []. split; reflexivity.
  - cbn [rconcat] in H. destruct r as [| |a]; try discriminate H.
    + destruct (rconcat t); discriminate H.
    + destruct (rconcat t) as [| |b] eqn:E; try discriminate H. inversion H. subst l.
      destruct (IH b eq_refl) as [ls [E1 E2]]. exists (a :: ls). subst. split; reflexivity.
Qed.
Lemma rconcat_map_ok : forall ls, rconcat (map ROk ls) = ROk (concat ls).
Proof. induction ls as [|a t IH]; [reflexivity|]. cbn [map rconcat concat]. rewrite IH. reflexivity. Qed.
Lemma rconcat_nofuel : forall rs, rconcat rs <> RFuel -> Forall (fun r => r <> RFuel) rs.
Proof.
  induction rs as [|r t IH]; intros H; [constructor|]. cbn [rconcat] in H.
  destruct r as [| |a]; [exfalso; apply H; reflexivity| |];
    (constructor; [discriminate|apply IH; intros E; rewrite E in H; apply H; reflexivity]).
Qed.
Lemma resolve_run_step : forall k fs dd ex g name a, resolve_run k fs dd ex g name a <> RFuel ->
  resolve_run (S k) fs dd ex g name a = resolve_run k fs dd ex g name a.
Proof.
  induction k as [|k IH]; intros fs dd ex g name a H; [exfalso; apply H; reflexivity|].
  cbn [resolve_run] in H. cbn [resolve_run].
  destruct (resolve_g g dd ex (FStr name) a) as [| | |b sub|pat|n fmt|n|n]; try reflexivity.
  - destruct (fs_get fs (resolved_name dd name)) as [payload|]; [|reflexivity].
    destruct sub; try reflexivity; apply IH; exact H.
  - destruct (filter (fun n => negb (fs_isdir fs n)) (fs_glob fs pat)) as [|n0 names] eqn:Eg; [reflexivity|].
    f_equal. apply map_ext_in. intros n Hn. apply IH.
    apply rconcat_nofuel in H. rewrite Forall_forall in H. apply H. apply in_map_iff. exists n. split; [reflexivity|exact Hn].
  - destruct (fs_unpack fs n fmt) as [tmp|]; [|reflexivity]. apply IH. exact H.
Qed.
(* once the recursion has finished, more fuel changes nothing *)
Lemma resolve_run_fuel : forall j k fs dd ex g name a, resolve_run k fs dd ex g name a <> RFuel ->
  resolve_run (k + j) fs dd ex g name a = resolve_run k fs dd ex g name a.
Proof.
  induction j as [|j IH]; intros k fs dd ex g name a H; [rewrite Nat.add_0_r; reflexivity|].
  rewrite Nat.add_succ_r. rewrite resolve_run_step; [apply IH; exact H|]. rewrite IH; exact H.
Qed.
Lemma resolve_run_le : forall k k' fs dd ex g name a, k <= k' -> resolve_run k fs dd ex g name a <> RFuel ->
  resolve_run k' fs dd ex g name a = resolve_run k fs dd ex g name a.
Proof. intros k k' fs dd ex g name a Hle H. replace k' with (k + (k' - k)) by lia. apply resolve_run_fuel. exact H. Qed.

(* the files a pattern finds: what glob reports, minus directories *)
Definition glob_files (fs : fsys) (pat : str) : list str := filter (fun n => negb (fs_isdir fs n)) (fs_glob fs pat).
(* ------------------------------------------------------------------ the four branches, with the scope of the archive option *)
Lemma resolve_run_branches : forall k fs dd ex g name a,
  (forall n, resolve_g g dd ex (FStr name) a = DPlain n -> resolve_run (S k) fs dd ex g name a = ROk [LFile n]) /\
  (forall n d, resolve_g g dd ex (FStr name) a = DGz n -> fs_gunzip fs n = Some d -> resolve_run (S k) fs dd ex g name a = ROk [LData d]) /\
  (* the content of an archive: the pattern <tmpdir>/**/*.*, expanded, WITHOUT the archive option *)
  (forall n fmt tmp, resolve_g g dd ex (FStr name) a = DArchive n fmt -> fs_unpack fs n fmt = Some tmp ->
     resolve_run (S k) fs dd ex g name a = resolve_run k fs dd ex true (tmp ++ glob_tail) ANone) /\
  (* the files found by a pattern: each resolved again, never expanded again, WITH the caller's archive option *)
  (forall pat, resolve_g g dd ex (FStr name) a = DGlob pat -> glob_files fs pat <> [] ->
     resolve_run (S k) fs dd ex g name a = rconcat (map (fun n => resolve_run k fs dd ex false n a) (glob_files fs pat))) /\
  (forall pat, resolve_g g dd ex (FStr name) a = DGlob pat -> glob_files fs pat = [] -> resolve_run (S k) fs dd ex g name a = RErr).
Proof.
  intros k fs dd ex g name a. repeat split.
  - intros n H. cbn [resolve_run]. rewrite H. reflexivity.
  - intros n d H Hg. cbn [resolve_run]. rewrite H, Hg. reflexivity.
  - intros n fmt tmp H Hu. cbn [resolve_run]. rewrite H, Hu. reflexivity.
  - intros pat H Hn. cbn [resolve_run]. rewrite H. unfold glob_files in *.
    destruct (filter (fun n => negb (fs_isdir fs n)) (fs_glob fs pat)); [congruence|reflexivity].
  - intros pat H Hn. cbn [resolve_run]. rewrite H. unfold glob_files in Hn. rewrite Hn. reflexivity.
Qed.

(* the download branch: data, gzip data decompressed in memory, or an archive saved as <prefix><bname> and resolved again
   with the caller's archive option *)
Lemma resolve_run_url : forall k fs dd ex g name a b sub payload,
  resolve_g g dd ex (FStr name) a = DUrl b sub -> fs_get fs (resolved_name dd name) = Some payload ->
  resolve_run (S k) fs dd ex g name a =
    match sub with
    | UData => ROk [LData payload]
    | UGz => match fs_gzdec fs payload with None => RErr | Some d => ROk [LData d] end
    | _ => resolve_run k fs dd ex true (fs_dlprefix fs ++ b) a
    end.
Proof. intros k fs dd ex g name a b sub payload Hd Hg. cbn [resolve_run]. rewrite Hd, Hg. destruct sub; reflexivity. Qed.

Lemma startswith_app_r : forall p s x, startswith p s = true -> startswith p (s ++ x) = true.
Proof.
  induction p as [|a p IH]; intros s x H; [reflexivity|]. destruct s as [|b s]; [discriminate H|].
  cbn [startswith app] in *. apply andb_prop in H. destruct H as [H1 H2]. rewrite H1. cbn [andb]. apply IH. exact H2.
Qed.
Lemma endswith_app_l : forall p x s, endswith p s = true -> endswith p (x ++ s) = true.
Proof. intros p x s H. unfold endswith in *. rewrite rev_app_distr. apply startswith_app_r. exact H. Qed.
(* what the URL row announces for an archive download (unpack with the given type) is what happens to the saved file:
   its name ends like the URL's base name, so it is an archive by the same test *)
Lemma url_saved_archive : forall dd ex prefix b a,
  plain_name (prefix ++ b) = true -> wants_archive a b = true ->
  resolve_g true dd ex (FStr (prefix ++ b)) a = DArchive (prefix ++ b) (arch_fmt a).
Proof.
  intros dd ex prefix b a Hp Hw. rewrite resolve_g_true, (resolve_spec dd ex (prefix ++ b) a Hp).
  assert (E : archive_requested a || has_archive_ext (prefix ++ b) = true).
  { unfold wants_archive in Hw. apply orb_true_iff in Hw. apply orb_true_iff. destruct Hw as [Hw|Hw]; [left; exact Hw|right].
    unfold has_archive_ext. apply existsb_exists in Hw. destruct Hw as [e [He1 He2]]. apply existsb_exists. exists e.
    split; [exact He1|apply endswith_app_l; exact He2]. }
  rewrite E. reflexivity.
Qed.

(* names that need nothing: no stdin / URL / example prefix, no archive or gzip extension *)
Definition simple_name (dd ex : str) (a : archive_arg) (n : str) : bool :=
  match resolve_g false dd ex (FStr n) a with DPlain m => str_eqb m n | _ => false end.
Lemma simple_name_run : forall k fs dd ex a n, simple_name dd ex a n = true -> resolve_run (S k) fs dd ex false n a = ROk [LFile n].
Proof.
  intros k fs dd ex a n H. unfold simple_name in H. cbn [resolve_run].
  destruct (resolve_g false dd ex (FStr n) a); try discriminate H. apply str_eqb_eq in H. subst. reflexivity.
Qed.
Lemma rconcat_simple : forall k fs dd ex a names, forallb (simple_name dd ex a) names = true ->
  rconcat (map (fun n => resolve_run (S k) fs dd ex false n a) names) = ROk (map LFile names).
Proof.
  intros k fs dd ex a names. induction names as [|n t IH]; intros H; [reflexivity|].
  cbn [forallb] in H. apply andb_prop in H. destruct H as [Hn Ht]. cbn [map rconcat].
  rewrite (simple_name_run k fs dd ex a n Hn), (IH Ht). reflexivity.
Qed.
(* a pattern over simple files: every match is read, in the order glob reports them *)
Lemma resolve_run_glob_concat : forall k fs dd ex g pat a,
  resolve_g g dd ex (FStr pat) a = DGlob pat -> glob_files fs pat <> [] ->
  forallb (simple_name dd ex a) (glob_files fs pat) = true ->
  resolve_run (S (S k)) fs dd ex g pat a = ROk (map LFile (glob_files fs pat)).
Proof.
  intros k fs dd ex g pat a Hd Hn Hs.
  destruct (resolve_run_branches (S k) fs dd ex g pat a) as [_ [_ [_ [Hg _]]]].
  rewrite (Hg pat Hd Hn). apply rconcat_simple. exact Hs.
Qed.
(* a flat archive: every member is read exactly once, in glob order *)
Lemma resolve_run_flat_archive : forall k fs dd ex g name a n fmt tmp,
  resolve_g g dd ex (FStr name) a = DArchive n fmt -> fs_unpack fs n fmt = Some tmp ->
  resolve_g true dd ex (FStr (tmp ++ glob_tail)) ANone = DGlob (tmp ++ glob_tail) ->
  glob_files fs (tmp ++ glob_tail) <> [] ->
  forallb (simple_name dd ex ANone) (glob_files fs (tmp ++ glob_tail)) = true ->
  resolve_run (S (S (S k))) fs dd ex g name a = ROk (map LFile (glob_files fs (tmp ++ glob_tail))).
Proof.
  intros k fs dd ex g name a n fmt tmp Hd Hu Hg Hn Hs.
  destruct (resolve_run_branches (S (S k)) fs dd ex g name a) as [_ [_ [Ha _]]].
  rewrite (Ha n fmt tmp Hd Hu). apply resolve_run_glob_concat; assumption.
Qed.

(* ------------------------------------------------------------------ the declarative reading, for any nesting depth *)
Inductive resolves (fs : fsys) (dd ex : str) : bool -> str -> archive_arg -> list leaf -> Prop :=
| R_plain : forall g name a n, resolve_g g dd ex (FStr name) a = DPlain n -> resolves fs dd ex g name a [LFile n]
| R_gz : forall g name a n d, resolve_g g dd ex (FStr name) a = DGz n -> fs_gunzip fs n = Some d -> resolves fs dd ex g name a [LData d]
| R_stdin : forall g name a, resolve_g g dd ex (FStr name) a = DStdin -> resolves fs dd ex g name a [LStdin]
| R_url_data : forall g name a b payload, resolve_g g dd ex (FStr name) a = DUrl b UData ->
    fs_get fs (resolved_name dd name) = Some payload -> resolves fs dd ex g name a [LData payload]
| R_url_gz : forall g name a b payload d, resolve_g g dd ex (FStr name) a = DUrl b UGz ->
    fs_get fs (resolved_name dd name) = Some payload -> fs_gzdec fs payload = Some d -> resolves fs dd ex g name a [LData d]
| R_url_archive : forall g name a b sub payload l, resolve_g g dd ex (FStr name) a = DUrl b sub ->
    (sub = UArchiveGlob \/ exists f, sub = UArchiveUnpack f) -> fs_get fs (resolved_name dd name) = Some payload ->
    resolves fs dd ex true (fs_dlprefix fs ++ b) a l -> resolves fs dd ex g name a l
| R_archive : forall g name a n fmt tmp l, resolve_g g dd ex (FStr name) a = DArchive n fmt -> fs_unpack fs n fmt = Some tmp ->
    resolves fs dd ex true (tmp ++ glob_tail) ANone l -> resolves fs dd ex g name a l
| R_glob : forall g name a pat ls, resolve_g g dd ex (FStr name) a = DGlob pat -> glob_files fs pat <> [] ->
    resolves_all fs dd ex (glob_files fs pat) a ls -> resolves fs dd ex g name a (concat ls)
with resolves_all (fs : fsys) (dd ex : str) : list str -> archive_arg -> list (list leaf) -> Prop :=
| RA_nil : forall a, resolves_all fs dd ex [] a []
| RA_cons : forall n t a l ls, resolves fs dd ex false n a l -> resolves_all fs dd ex t a ls -> resolves_all fs dd ex (n :: t) a (l :: ls).
Scheme resolves_mind := Minimality for resolves Sort Prop
  with resolves_all_mind := Minimality for resolves_all Sort Prop.

Lemma resolve_run_sound : forall k fs dd ex g name a l,
  resolve_run k fs dd ex g name a = ROk l -> resolves fs dd ex g name a l.
Proof.
  induction k as [|k IH]; intros fs dd ex g name a l H; [discriminate H|].
  cbn [resolve_run] in H.
  destruct (resolve_g g dd ex (FStr name) a) as [| | |b sub|pat|n fmt|n|n] eqn:Ed; try discriminate H.
  - inversion H. apply R_stdin. exact Ed.
  - destruct (fs_get fs (resolved_name dd name)) as [payload|] eqn:Eget; [|discriminate H].
    destruct sub as [|f| |].
    + eapply R_url_archive; [exact Ed|left; reflexivity|exact Eget|apply IH; exact H].
    + eapply R_url_archive; [exact Ed|right; exists f; reflexivity|exact Eget|apply IH; exact H].
    + destruct (fs_gzdec fs payload) as [d|] eqn:Ez; [|discriminate H]. inversion H. eapply R_url_gz; [exact Ed|exact Eget|exact Ez].
    + inversion H. eapply R_url_data; [exact Ed|exact Eget].
  - destruct (filter (fun n => negb (fs_isdir fs n)) (fs_glob fs pat)) as [|n0 names] eqn:Eg; [discriminate H|].
    apply rconcat_ok in H. destruct H as [ls [E1 E2]]. subst l.
    eapply R_glob; [exact Ed|unfold glob_files; rewrite Eg; discriminate|]. unfold glob_files. rewrite Eg.
    clear Eg Ed. revert ls E1. generalize (n0 :: names) as ns.
    induction ns as [|x t IHt]; intros ls E1; destruct ls as [|y ys]; try discriminate E1; [constructor|].
    cbn [map] in E1. inversion E1. constructor; [apply IH; assumption|apply IHt; assumption].
  - destruct (fs_unpack fs n fmt) as [tmp|] eqn:Eu; [|discriminate H].
    eapply R_archive; [exact Ed|exact Eu|]. apply IH. exact H.
  - destruct (fs_gunzip fs n) as [d|] eqn:Eg; [|discriminate H]. inversion H. eapply R_gz; [exact Ed|exact Eg].
  - inversion H. apply R_plain. exact Ed.
Qed.

Lemma resolve_run_complete : forall fs dd ex g name a l,
  resolves fs dd ex g name a l -> exists k, forall k', k <= k' -> resolve_run k' fs dd ex g name a = ROk l.
Proof.
  intros fs dd ex.
  apply (resolves_mind fs dd ex
    (fun g name a l => exists k, forall k', k <= k' -> resolve_run k' fs dd ex g name a = ROk l)
    (fun names a ls => exists k, forall k', k <= k' -> map (fun n => resolve_run k' fs dd ex false n a) names = map ROk ls)).
  - intros g name a n Ed. exists 1. intros [|k'] Hk; [lia|]. cbn [resolve_run]. rewrite Ed. reflexivity.
  - intros g name a n d Ed Eg. exists 1. intros [|k'] Hk; [lia|]. cbn [resolve_run]. rewrite Ed, Eg. reflexivity.
  - intros g name a Ed. exists 1. intros [|k'] Hk; [lia|]. cbn [resolve_run]. rewrite Ed. reflexivity.
  - intros g name a b payload Ed Eget. exists 1. intros [|k'] Hk; [lia|]. cbn [resolve_run]. rewrite Ed, Eget. reflexivity.
  - intros g name a b payload d Ed Eget Ez. exists 1. intros [|k'] Hk; [lia|]. cbn [resolve_run]. rewrite Ed, Eget, Ez. reflexivity.
  - intros g name a b sub payload l Ed Hsub Eget _ [k Hk]. exists (S k). intros [|k'] Hle; [lia|]. cbn [resolve_run]. rewrite Ed, Eget.
    destruct Hsub as [->|[f ->]]; apply Hk; lia.
  - intros g name a n fmt tmp l Ed Eu _ [k Hk]. exists (S k). intros [|k'] Hle; [lia|]. cbn [resolve_run]. rewrite Ed, Eu.
    apply Hk. lia.
  - intros g name a pat ls Ed Hn _ [k Hk]. exists (S k). intros [|k'] Hle; [lia|]. cbn [resolve_run]. rewrite Ed.
    unfold glob_files in *.
    destruct (filter (fun n => negb (fs_isdir fs n)) (fs_glob fs pat)) as [|n0 names] eqn:Eg; [congruence|]. rewrite (Hk k') by lia. apply rconcat_map_ok.
  - intros a. exists 0. intros k' _. reflexivity.
  - intros n t a l ls _ [k1 H1] _ [k2 H2]. exists (Nat.max k1 k2). intros k' Hle. cbn [map].
    rewrite (H1 k') by lia. rewrite (H2 k') by lia. reflexivity.
Qed.

Lemma resolves_deterministic : forall fs dd ex g name a l1 l2,
  resolves fs dd ex g name a l1 -> resolves fs dd ex g name a l2 -> l1 = l2.
Proof.
  intros fs dd ex g name a l1 l2 H1 H2.
  destruct (resolve_run_complete _ _ _ _ _ _ _ H1) as [k1 K1].
  destruct (resolve_run_complete _ _ _ _ _ _ _ H2) as [k2 K2].
  specialize (K1 (Nat.max k1 k2) (Nat.le_max_l _ _)). specialize (K2 (Nat.max k1 k2) (Nat.le_max_r _ _)). congruence.
Qed.

(* non-vacuity: a pattern over a plain file, a gzip file, a file whose name contains wildcard characters and an archive that
   holds a gzip file and a nested archive; archive= applies to the outer level only *)
Definition demo_fs : fsys :=
  fsys_of [ (bs "d/*"%bs, [bs "d/a.fa"%bs; bs "d/b.fa.gz"%bs; bs "d/c[1].fa"%bs; bs "d/sub.d"%bs; bs "d/x.zip"%bs]);
            (bs "<d/x.zip>/**/*"%bs, [bs "<d/x.zip>/m.fa.gz"%bs; bs "<d/x.zip>/in.tar"%bs]);
            (bs "<<d/x.zip>/in.tar>/**/*"%bs, [bs "<<d/x.zip>/in.tar>/v1.0"%bs; bs "<<d/x.zip>/in.tar>/v1.0/deep"%bs]);
            (bs "<blob>/**/*"%bs, [bs "<blob>/x.zip"%bs]) ]
          [ bs "d/sub.d"%bs; bs "<<d/x.zip>/in.tar>/v1.0"%bs ]
          [ (bs "d/x.zip"%bs, (None, Some (bs "<d/x.zip>"%bs))); (bs "<d/x.zip>/in.tar"%bs, (None, Some (bs "<<d/x.zip>/in.tar>"%bs)));
            (bs "blob"%bs, (Some (bs "zip"%bs), Some (bs "<blob>"%bs))); (bs "<blob>/x.zip"%bs, (None, None)) ]
          [ (bs "d/b.fa.gz"%bs, bs "B"%bs); (bs "<d/x.zip>/m.fa.gz"%bs, bs "M"%bs) ].
Definition demo_url_fs : fsys :=
  fsys_url [ (bs "<dl>x.zip/**/*"%bs, [bs "<dl>x.zip/m.fa"%bs]) ] []       (* the unpack directory is named like the archive here *)
           [ (bs "<dl>x.zip"%bs, (None, Some (bs "<dl>x.zip"%bs))) ] []
           [ (bs "http://h/p/x.zip?dl=1"%bs, bs "PK"%bs); (bs "http://h/a.fa.gz"%bs, bs "GZ"%bs); (bs "http://h/a.fa"%bs, bs ">a"%bs) ]
           [ (bs "GZ"%bs, bs ">z"%bs) ] (bs "<dl>"%bs).
Lemma witness_resolve_url :
  resolve_run 5 demo_url_fs [] [] true (bs "http://h/p/x.zip?dl=1"%bs) ANone = ROk [LFile (bs "<dl>x.zip/m.fa"%bs)] /\
  resolve_run 5 demo_url_fs [] [] true (bs "http://h/a.fa.gz"%bs) ANone = ROk [LData (bs ">z"%bs)] /\
  resolve_run 5 demo_url_fs [] [] true (bs "http://h/a.fa"%bs) ANone = ROk [LData (bs ">a"%bs)] /\
  resolve_run 5 demo_url_fs [] [] true (bs "http://h/a.fa"%bs) (AStr (bs "gz"%bs)) = RErr /\
  resolve_run 5 demo_url_fs [] [] true (bs "http://h/missing"%bs) ANone = RErr.
Proof. vm_compute. repeat split; reflexivity. Qed.
Lemma witness_resolve_run :
  resolve_run 6 demo_fs [] [] true (bs "d/*"%bs) ANone =
    ROk [LFile (bs "d/a.fa"%bs); LData (bs "B"%bs); LFile (bs "d/c[1].fa"%bs); LData (bs "M"%bs); LFile (bs "<<d/x.zip>/in.tar>/v1.0/deep"%bs)] /\
  resolve_run 3 demo_fs [] [] true (bs "d/*"%bs) ANone = RFuel /\
  resolve_run 9 demo_fs [] [] true (bs "blob"%bs) (AStr (bs "zip"%bs)) = RErr /\
  resolve_run 9 demo_fs [] [] true (bs "nothing*"%bs) ANone = RErr /\
  simple_name [] [] ANone (bs "d/c[1].fa"%bs) = true.
Proof. vm_compute. repeat split; reflexivity. Qed.
