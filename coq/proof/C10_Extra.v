(* C10, round 7: the qualifier dict, header metadata, totality of the location parser, error classes outside the
   one-strand / ORIGIN domain, strand orderings. *)
From Coq Require Import List ZArith NArith Bool Lia Permutation Sorted.
From Coq.Strings Require Import Byte.
Import ListNotations.
From SV Require Import Text G_flags C10_Model C10_Lemmas C10_Table C10_Reader.

(* ------------------------------------------------------------ the qualifier dict *)
Lemma aget_aset {V} k k' (v : V) m : aget k' (aset k v m) = if str_eqb k k' then Some v else aget k' m.
Proof.
  destruct (str_eqb k k') eqn:E.
  - apply str_eqb_eq in E. subst. apply aget_aset_same.
  - apply aget_aset_other. exact E.
Qed.
Lemma mem_keys_aget {V} k (m : list (str * V)) : mem k (map fst m) = match aget k m with Some _ => true | None => false end.
Proof.
  induction m as [|[a w] m IH]; [reflexivity|]. cbn [map fst mem existsb aget]. rewrite (str_eqb_sym k a).
  destruct (str_eqb a k); [reflexivity|]. exact IH.
Qed.
Lemma keys_aset {V} k (v : V) m : map fst (aset k v m) = add_key (map fst m) k.
Proof.
  unfold add_key. induction m as [|[a w] m IH]; [reflexivity|]. cbn [aset map fst mem existsb]. rewrite (str_eqb_sym k a).
  destruct (str_eqb a k) eqn:E; [reflexivity|]. cbn [map fst orb]. rewrite IH. fold (mem k (map fst m)).
  destruct (mem k (map fst m)); reflexivity.
Qed.

Lemma qd_aget k qs : str_eqb k k_misc = false -> forall m,
  aget k (fold_left apply_qual qs m) = last_val k qs (aget k m).
Proof.
  intros Hk. induction qs as [|q r IH]; intros m; [reflexivity|]. cbn [fold_left last_val]. rewrite IH. f_equal.
  destruct q as [k0 cs|k0 d|k0 v|f]; cbn [apply_qual qassign]; try apply aget_aset.
  destruct (aget k_misc m) as [[x|z|xs]|]; try reflexivity; rewrite aget_aset, (str_eqb_sym k_misc k), Hk; reflexivity.
Qed.
Definition cur_misc (m : list (str * qv)) : list str := match aget k_misc m with Some (QL xs) => xs | _ => [] end.
Lemma qd_misc qs : keys_ok qs -> forall m, misc_ok m ->
  aget k_misc (fold_left apply_qual qs m) =
  match flag_names qs with [] => aget k_misc m | fl => Some (QL (cur_misc m ++ fl)) end.
Proof.
  induction 1 as [|q r Hq Hr IH]; intros m Hm; [reflexivity|]. cbn [fold_left].
  destruct q as [k0 cs|k0 d|k0 v|f].
  1-3: destruct Hq as [Hq|Hq]; [discriminate Hq|]; cbn [qkey] in Hq; cbn [apply_qual]; rewrite IH by (apply misc_ok_other; assumption);
       unfold cur_misc; rewrite aget_aset_other by exact Hq; reflexivity.
  assert (E : apply_qual m (QFlag f) = aset k_misc (QL (cur_misc m ++ [f])) m).
  { unfold misc_ok in Hm. unfold cur_misc. cbn [apply_qual]. destruct (aget k_misc m) as [[x|z|xs]|]; try contradiction; reflexivity. }
  rewrite E, IH by (unfold misc_ok; rewrite aget_aset_same; exact I).
  change (flag_names (QFlag f :: r)) with (f :: flag_names r).
  assert (C : cur_misc (aset k_misc (QL (cur_misc m ++ [f])) m) = cur_misc m ++ [f]) by (unfold cur_misc at 1; now rewrite aget_aset_same).
  rewrite C, aget_aset_same. destruct (flag_names r); [reflexivity|]. now rewrite <- app_assoc.
Qed.
Lemma qd_keys qs : forall m, map fst (fold_left apply_qual qs m) = fold_left add_key (map dkey qs) (map fst m).
Proof.
  induction qs as [|q r IH]; intros m; [reflexivity|]. cbn [fold_left map]. rewrite IH. f_equal.
  destruct q as [k0 cs|k0 d|k0 v|f]; cbn [apply_qual dkey]; try apply keys_aset.
  destruct (aget k_misc m) as [[x|z|xs]|] eqn:E; try apply keys_aset.
  all: unfold add_key; rewrite mem_keys_aget, E; reflexivity.
Qed.

(* C10_quals_dict *)
Lemma quals_dict_spec qs : forallb wf_qual qs = true ->
  (forall k, str_eqb k k_misc = false -> aget k (quals_dict qs) = last_val k qs None)
  /\ aget k_misc (quals_dict qs) = (match flag_names qs with [] => None | fl => Some (QL fl) end)
  /\ map fst (quals_dict qs) = first_use (map dkey qs)
  /\ (distinct (map qkey (filter nonflag qs)) = true -> quals_dict qs = view_quals qs (flag_names qs) false).
Proof.
  intros W. pose proof (wf_qual_keys_ok qs W) as K. unfold quals_dict. split; [|split; [|split]].
  - intros k Hk. apply (qd_aget k qs Hk []).
  - rewrite (qd_misc qs K [] I). reflexivity.
  - apply (qd_keys qs []).
  - apply fold_view. exact W.
Qed.

(* ------------------------------------------------------------ header metadata *)
Lemma add_cont_join x ts : add_cont x ts = join [sp] (x :: ts).
Proof.
  revert x. induction ts as [|t r IH]; intros x; [reflexivity|]. cbn [add_cont fold_left]. fold (add_cont (x ++ sp :: t) r).
  rewrite IH, join_cons2. destruct r as [|y r']; [reflexivity|]. rewrite !join_cons2, <- app_assoc. reflexivity.
Qed.
Lemma lines_val_join ls : lines_val ls = join [sp] ls.
Proof. destruct ls as [|l r]; [reflexivity|apply add_cont_join]. Qed.
Lemma view_hdr_snoc hs h : view_hdr (hs ++ [h]) = aset (lower (hk h)) (field_val h) (view_hdr hs).
Proof. unfold view_hdr. rewrite fold_left_app. reflexivity. Qed.
Lemma view_id_snoc hd ft sq bl og fe h :
  view_id (mkarec (hd ++ [h]) ft sq bl og fe) = acc_step (view_id (mkarec hd ft sq bl og fe)) h.
Proof. unfold view_id. cbn [ahdr]. rewrite fold_left_app. reflexivity. Qed.

Definition id_of_hdr (a : list (str * hv)) : option str :=
  match aget k_accession a with Some (HS v) => first_word v | _ => None end.
Lemma id_from_accession hs : forallb wf_hfield hs = true -> fold_left acc_step hs None = id_of_hdr (view_hdr hs).
Proof.
  induction hs as [|h pre IH] using rev_ind; [reflexivity|]. intros W.
  rewrite forallb_app in W. apply andb_prop in W. destruct W as [Wp Wh]. cbn [forallb] in Wh. rewrite andb_true_r in Wh.
  rewrite fold_left_app, view_hdr_snoc. cbn [fold_left]. rewrite (IH Wp). unfold id_of_hdr, acc_step.
  unfold wf_hfield in Wh.
  apply andb_prop in Wh. destruct Wh as [Wh W8]. apply andb_prop in Wh. destruct Wh as [Wh W7]. apply andb_prop in Wh. destruct Wh as [Wh W6].
  apply andb_prop in Wh. destruct Wh as [Wh _]. apply andb_prop in Wh. destruct Wh as [Wh W4]. apply andb_prop in Wh. destruct Wh as [Wh W3].
  apply andb_prop in Wh. destruct Wh as [W1 W2].
  destruct (str_eqb (hk h) k_ACCESSION) eqn:E.
  - apply str_eqb_eq in E. apply andb_prop in W8. destruct W8 as [W81 W82]. apply negb_true_iff in W82.
    destruct (hsubs h) as [|p r] eqn:Eh; [|discriminate W82]. destruct (hlines h) as [|l r] eqn:El; [discriminate W81|].
    rewrite E. change (lower k_ACCESSION) with k_accession. rewrite aget_aset_same.
    unfold field_val, main_val. rewrite Eh, El, E. cbn [fold_left]. change (str_eqb (lower k_ACCESSION) k_locus) with false. cbv iota.
    cbn [forallb] in W6. apply andb_prop in W6. destruct W6 as [Wl _]. destruct (wf_text_facts l Wl) as (L1 & L2 & _).
    symmetry. apply first_word_add_cont. apply first_word_nonblank; assumption.
  - rewrite aget_aset_other by (apply lower_accession; assumption). reflexivity.
Qed.

(* C10_header_attrs *)
Lemma header_attrs_spec :
  (forall hs h, view_hdr (hs ++ [h]) = aset (lower (hk h)) (field_val h) (view_hdr hs))
  /\ view_hdr [] = []
  /\ (forall h, field_val h = fold_left sub_val (hsubs h) (HS (main_val h)))
  /\ (forall h, main_val h = match hlines h with
                             | [] => []
                             | l :: r => join [sp] ((if str_eqb (lower (hk h)) k_locus then join (bs ", "%bs) (split_ws l) else l) :: r)
                             end)
  /\ (forall V p, sub_val V p = HA (aset (lower (fst p)) (HS (join [sp] (snd p))) [(k_id, V)]))
  /\ (forall r, forallb wf_hfield (ahdr r) = true -> view_id r = id_of_hdr (view_hdr (ahdr r)))
  /\ (forall excl r, afeatures r = true -> rhdr (view_rec excl r) = adel k_reference (view_hdr (ahdr r))).
Proof.
  split; [exact view_hdr_snoc|]. split; [reflexivity|]. split; [reflexivity|]. split; [|split; [|split; [|intros excl r E; unfold view_rec; cbn [rhdr]; rewrite E, andb_false_r; reflexivity]]].
  - intros h. unfold main_val. destruct (hlines h); [reflexivity|apply add_cont_join].
  - intros V p. unfold sub_val. now rewrite lines_val_join.
  - intros r W. apply id_from_accession. exact W.
Qed.

(* ------------------------------------------------------------ the location parser is total: a result or a documented error class *)
Definition err_ok (k : str) : Prop := k = ValueError \/ k = IndexError.
Definition res_ok (r : res (list loc)) : Prop := match r with RErr k => err_ok k | ROk l => l <> [] end.

Lemma mk_location_err a b d k : mk_location a b d = RErr k -> err_ok k.
Proof. unfold mk_location. destruct (a >=? b)%Z; [intros H; inversion H; left; reflexivity|discriminate]. Qed.
Lemma range_of_err ps d k : range_of ps d = RErr k -> err_ok k.
Proof.
  unfold range_of. destruct ps as [|a [|b [|c t]]]; try (intros H; inversion H; left; reflexivity).
  destruct (py_int a); [|intros H; inversion H; left; reflexivity].
  destruct (py_int b); [|intros H; inversion H; left; reflexivity]. apply mk_location_err.
Qed.
Lemma parse_single_err s k : parse_single s = RErr k -> err_ok k.
Proof.
  unfold parse_single. destruct s as [|c r]; [intros H; inversion H; right; reflexivity|].
  assert (T : forall d2 s2, (if has_dotdot s2 then range_of (split_dotdot s2) d2
      else if has "."%byte s2 then range_of (split_char "."%byte s2) (N.lor d2 D_UNKNOWN_SINGLE_BETWEEN)
      else if has "^"%byte s2 then range_of (split_char "^"%byte s2) (N.lor d2 D_BETWEEN_CONSECUTIVE)
      else match py_int s2 with Some n => mk_location (n - 1) n d2 | None => RErr ValueError end) = RErr k -> err_ok k).
  { intros d2 s2. destruct (has_dotdot s2); [apply range_of_err|]. destruct (has "." s2); [apply range_of_err|].
    destruct (has "^" s2); [apply range_of_err|].
    destruct (py_int s2); [apply mk_location_err|intros H; inversion H; left; reflexivity]. }
  destruct (byte_eqb "<" c); [destruct (has ">" r)|destruct (has ">" (c :: r))]; apply T.
Qed.
Lemma parse_all_ok rc ps : (forall p, In p ps -> res_ok (rc p)) -> ps <> [] -> res_ok (parse_all rc ps).
Proof.
  induction ps as [|p r IH]; [congruence|]. intros H _. cbn [parse_all]. pose proof (H p (or_introl eq_refl)) as Hp.
  destruct (rc p) as [l|k]; [|exact Hp]. destruct r as [|q r'].
  - cbn [parse_all]. cbn in Hp |- *. rewrite app_nil_r. exact Hp.
  - assert (R : res_ok (parse_all rc (q :: r'))) by (apply IH; [intros x Hx; apply H; right; exact Hx|discriminate]).
    destruct (parse_all rc (q :: r')) as [l2|k2]; [|exact R]. cbn in Hp |- *. destruct l; [congruence|discriminate].
Qed.
Lemma lstrip_len s : (length (lstrip s) <= length s)%nat.
Proof. induction s as [|c r IH]; [reflexivity|]. cbn [lstrip]. destruct (is_ws c); cbn [length]; lia. Qed.
Lemma rstrip_len s : (length (rstrip s) <= length s)%nat.
Proof.
  induction s as [|c r IH]; [reflexivity|]. cbn [rstrip]. destruct (rstrip r) as [|x t]; [destruct (is_ws c); cbn; lia|cbn [length] in *; lia].
Qed.
Lemma strip_len s : (length (strip s) <= length s)%nat.
Proof. unfold strip. pose proof (rstrip_len (lstrip s)). pose proof (lstrip_len s). lia. Qed.
Lemma split_top_len s : forall d p, In p (split_top s d) -> (length p <= length s)%nat.
Proof.
  induction s as [|ch r IH]; intros d p Hin.
  - cbn in Hin. destruct Hin as [<-|[]]. reflexivity.
  - cbn [split_top] in Hin. set (d' := depth_after ch d) in *.
    destruct (byte_eqb "," ch && (d' =? 0)%Z).
    + destruct Hin as [<-|Hin]; [cbn; lia|]. specialize (IH d' p Hin). cbn [length]. lia.
    + pose proof (split_top_nonempty r d') as Hne. destruct (split_top r d') as [|h t] eqn:E; [congruence|].
      cbn [cons_head] in Hin. destruct Hin as [<-|Hin].
      * specialize (IH d' h). rewrite E in IH. specialize (IH (or_introl eq_refl)). cbn [length]. lia.
      * specialize (IH d' p). rewrite E in IH. specialize (IH (or_intror Hin)). cbn [length]. lia.
Qed.
Lemma compound_nonempty s : is_compound s = true -> s <> [].
Proof. intros H E. subst. discriminate H. Qed.
Lemma slice_len i j (s : str) : s <> [] -> (length (slice (S i) j s) < length s)%nat.
Proof.
  intros H. unfold slice. pose proof (firstn_length (j - S i) (skipn (S i) s)) as L.
  pose proof (skipn_length (S i) s) as K. destruct s; [congruence|]. cbn [length] in K |- *. lia.
Qed.
Lemma parse_locs_total : forall f s, (length s < f)%nat -> res_ok (parse_locs f s).
Proof.
  induction f as [|f IH]; intros s L; [lia|]. cbn [parse_locs]. pose proof (strip_len s) as Ls.
  destruct (is_compound (strip s)) eqn:C.
  - destruct (index_of "(" (strip s)) as [i|]; [|left; reflexivity]. destruct (rindex_of ")" (strip s)) as [j|]; [|left; reflexivity].
    pose proof (slice_len i j (strip s) (compound_nonempty _ C)) as Li.
    assert (R : res_ok (parse_all (parse_locs f) (split_top (slice (S i) j (strip s)) 0))).
    { apply parse_all_ok; [|apply split_top_nonempty]. intros p Hp. apply IH. pose proof (split_top_len _ _ _ Hp). lia. }
    destruct (parse_all (parse_locs f) (split_top (slice (S i) j (strip s)) 0)) as [ls|k]; [|exact R].
    unfold res_ok in R |- *. destruct (startswith kw_complement (strip s)); [|exact R]. destruct ls; [congruence|discriminate].
  - destruct (parse_single (strip s)) as [l|k] eqn:E; [cbn; discriminate|]. apply (parse_single_err _ _ E).
Qed.
(* C10_parse_total: on ANY text the parser with the fuel the reader model uses returns a non-empty list of locations or stops with
   ValueError / IndexError - it never runs out of fuel; and the LocationTuple construction that follows adds only ValueError *)
Lemma parse_total s :
  (exists ls, ls <> [] /\ parse_locs_str s = ROk ls) \/ parse_locs_str s = RErr ValueError \/ parse_locs_str s = RErr IndexError.
Proof.
  pose proof (parse_locs_total (S (length s)) s (Nat.lt_succ_diag_r _)) as R. unfold parse_locs_str.
  destruct (parse_locs (S (length s)) s) as [ls|k]; [left; exists ls; split; [exact R|reflexivity]|].
  destruct R as [->| ->]; [right; left|right; right]; reflexivity.
Qed.
Lemma loctuple_total ls : ls <> [] -> (exists lt, mk_loctuple ls = ROk lt /\ Permutation lt ls) \/ mk_loctuple ls = RErr ValueError.
Proof.
  intros H. unfold mk_loctuple. destruct ls as [|l0 r]; [congruence|].
  destruct (forallb (fun l => byte_eqb (lstrand l) (lstrand l0)) (l0 :: r)); [|right; reflexivity].
  left. eexists. split; [reflexivity|]. pose proof (sort_locs_perm (l0 :: r)) as P. unfold sort_locs in P. exact P.
Qed.

(* ------------------------------------------------------------ error classes outside the one-strand / ORIGIN domain *)
Lemma mk_loctuple_mixed ls : one_strand ls = false -> mk_loctuple ls = RErr ValueError.
Proof. destruct ls as [|l0 r]; [reflexivity|]. unfold one_strand, mk_loctuple. intros H. now rewrite H. Qed.

Lemma records_prefix excl rs : forallb (wf_arec excl) rs = true -> forall rest k2 acc,
  exists k2', run_lines excl (flat_map render_rec rs ++ rest) (st0 k2) acc = run_lines excl rest (st0 k2') (rev (view excl rs) ++ acc).
Proof.
  induction rs as [|r rs IH]; cbn [forallb flat_map]; intros W rest k2 acc.
  - exists k2. reflexivity.
  - apply andb_prop in W. destruct W as [Wr Wrs]. rewrite <- app_assoc.
    destruct (record_lines excl r (flat_map render_rec rs ++ rest) k2 acc Wr) as (k2' & E). rewrite E.
    destruct (IH Wrs rest k2' (view_rec excl r :: acc)) as (k3 & E3). exists k3. rewrite E3.
    cbn [view map rev]. now rewrite <- app_assoc.
Qed.

(* header, FEATURES line, well-formed features fs1 and the lines of one more feature f: f is pending (not yet built) *)
Lemma pending_state excl hd fs1 f k2 : mem k_fts excl = false -> forallb wf_hfield hd = true -> forallb wf_afeat fs1 = true ->
  wf_afeat_pre f = true ->
  Forall okline (flat_map render_hfield hd ++ [feat_header] ++ flat_map render_feat fs1 ++ render_feat f) /\
  exists sc, steps_any excl (st0 k2) (flat_map render_hfield hd ++ [feat_header] ++ flat_map render_feat fs1 ++ render_feat f) = ROk sc
    /\ mode sc = PFts /\ fttype sc = Some (akey f) /\ locs sc = Some (print (aloc f)).
Proof.
  intros He Wh W1 Wf.
  destruct (table_steps excl (mkarec hd fs1 [] false true true) k2 Wh (wf_afeat_all_pre _ W1) (fun _ => W1)) as (F & s2 & S2 & M2 & _ & _ & _ & _ & P2).
  cbn [ahdr afts] in F, S2, P2. rewrite He in P2. destruct P2 as (s3 & Fl & _ & Ht & Hfr).
  destruct (feature_pre excl He f s2 s3 M2 Fl Ht Hfr Wf) as (Ff & sc & Sc & Mc & _ & _ & Et & El & _).
  split.
  - rewrite !app_assoc. apply Forall_app. split; [|exact Ff]. rewrite <- !app_assoc. exact F.
  - exists sc. split; [|repeat split; assumption].
    rewrite !app_assoc. rewrite steps_any_app. rewrite <- !app_assoc. rewrite S2. exact Sc.
Qed.

Lemma step_flush_err excl s l k : mode s = PFts -> mem k_fts excl = false -> is_blank (firstn 20 l) = false -> flush s = RErr k ->
  step excl s l = RErr k.
Proof. intros Hm He Hb Hf. unfold step. rewrite Hm. unfold step_fts. rewrite He, Hb. cbn [negb]. now rewrite Hf. Qed.

Lemma first_line_feat f : wf_afeat_pre f = true ->
  exists l more, render_feat f = l :: more /\ okline l /\ is_blank (firstn 20 l) = false.
Proof.
  intros W. unfold wf_afeat_pre in W.
  apply andb_prop in W. destruct W as [W Wq].
  apply andb_prop in W. destruct W as [W We]. apply andb_prop in W. destruct W as [W Wor]. apply andb_prop in W. destruct W as [W Wlen].
  apply andb_prop in W. destruct W as [Wne Wch].
  apply nonempty_ne in Wne. apply Nat.leb_le in Wlen. pose proof (keych_nows _ Wch) as Hkn.
  rewrite render_feat_split.
  pose proof (wrapped_chunks_good (aloc f) (awrap f) We) as Hgood.
  pose proof (wrap_at_nonempty (print (aloc f)) (awrap f)) as Hne.
  destruct (wrap_at (print (aloc f)) (awrap f)) as [|c0 cr]; [congruence|].
  cbn [forallb] in Hgood. apply andb_prop in Hgood. destruct Hgood as [Hg0 _].
  destruct (good_chunk_facts c0 Hg0) as (Hc1 & Hc2 & _).
  cbn [loc_lines app]. eexists. eexists. split; [reflexivity|]. split; [apply okline_key_line; assumption|].
  rewrite (firstn20_L0 (akey f) c0 Wlen). apply (blank_A (akey f) c0 Wne Hkn). exact Wlen.
Qed.

Lemma strand_scan_split fs : strand_scan fs = true ->
  exists fs1 f fs2, fs = fs1 ++ f :: fs2 /\ forallb wf_afeat fs1 = true /\ wf_afeat_pre f = true
    /\ one_strand (sem (aloc f)) = false /\ forallb wf_afeat_pre fs2 = true.
Proof.
  induction fs as [|f r IH]; [discriminate|]. cbn [strand_scan]. destruct (wf_afeat f) eqn:E.
  - intros H. destruct (IH H) as (fs1 & g & fs2 & E1 & H1 & H2 & H3 & H4). exists (f :: fs1), g, fs2.
    split; [rewrite E1; reflexivity|]. cbn [forallb]. rewrite E, H1. repeat split; assumption.
  - intros H. apply andb_prop in H. destruct H as [H1 H2]. unfold bad_strand in H1. apply andb_prop in H1. destruct H1 as [H1 H3].
    exists [], f, r. apply negb_true_iff in H3. repeat split; assumption.
Qed.

Lemma run_lines_err excl ls rest s acc k : Forall okline ls -> steps_any excl s ls = RErr k -> run_lines excl (ls ++ rest) s acc = RErr k.
Proof. intros F S. rewrite run_lines_steps by exact F. now rewrite S. Qed.

(* one record that is not well-formed, of the two kinds err_rec knows: the reader stops with that error class *)
Lemma bad_record_lines excl r rest k2 acc k : err_rec excl r = Some k -> run_lines excl (render_rec r ++ rest) (st0 k2) acc = RErr k.
Proof.
  unfold err_rec. destruct (mem k_fts excl) eqn:He; [discriminate|]. cbn [orb].
  destruct (forallb wf_hfield (ahdr r)) eqn:Wh; [|discriminate]. cbn [negb orb].
  destruct (afeatures r) eqn:Ef; [|discriminate]. cbn [negb]. unfold render_rec. rewrite Ef.
  destruct (aorigin r) eqn:Eo.
  - destruct (strand_scan (afts r)) eqn:Sc; [|discriminate]. intros K. inversion K; subst k. clear K.
    destruct (strand_scan_split _ Sc) as (fs1 & f & fs2 & E & W1 & Wf & Hone & W2). rewrite E.
    destruct (pending_state excl (ahdr r) fs1 f k2 He Wh W1 Wf) as (F & sc & S & Mc & Et & El).
    assert (We : wf_lexp (aloc f) = true).
    { unfold wf_afeat_pre in Wf. apply andb_prop in Wf. destruct Wf as [Wf _]. apply andb_prop in Wf. destruct Wf as [_ Wf]. exact Wf. }
    assert (Hfl : flush sc = RErr ValueError).
    { unfold flush. rewrite Et, El, (parse_print_loc_str _ We), (mk_loctuple_mixed _ Hone). reflexivity. }
    assert (N : exists l more, flat_map render_feat fs2 ++ [origin_line] ++ render_origin (aseq r) = l :: more
                 /\ okline l /\ is_blank (firstn 20 l) = false).
    { destruct fs2 as [|f2 fr].
      - eexists. eexists. split; [reflexivity|]. split; [apply okline_concrete|reflexivity].
      - cbn [forallb] in W2. apply andb_prop in W2. destruct W2 as [W2 _]. destruct (first_line_feat f2 W2) as (l & more & E2 & O & B).
        cbn [flat_map]. rewrite E2. eexists. eexists. split; [reflexivity|]. split; assumption. }
    destruct N as (l & more & EN & O & B).
    rewrite flat_map_app. cbn [flat_map].
    replace (flat_map render_hfield (ahdr r) ++ ([feat_header] ++ flat_map render_feat fs1 ++ render_feat f ++ flat_map render_feat fs2) ++
             ([origin_line] ++ render_origin (aseq r)) ++ [sl2] ++ (if ablank r then [[]] else []))
      with ((flat_map render_hfield (ahdr r) ++ [feat_header] ++ flat_map render_feat fs1 ++ render_feat f) ++
            (flat_map render_feat fs2 ++ [origin_line] ++ render_origin (aseq r)) ++ [sl2] ++ (if ablank r then [[]] else []))
      by (rewrite <- !app_assoc; reflexivity).
    rewrite EN. set (P := flat_map render_hfield (ahdr r) ++ [feat_header] ++ flat_map render_feat fs1 ++ render_feat f) in *.
    rewrite <- (app_assoc P). rewrite run_lines_steps by exact F. rewrite S.
    cbn [app]. rewrite run_lines_cons by exact O. rewrite (step_flush_err excl sc l ValueError Mc He B Hfl). reflexivity.
  - destruct (negb (is_nil (afts r)) && forallb wf_afeat (afts r)) eqn:Wn; [|discriminate]. intros K. inversion K; subst k. clear K.
    apply andb_prop in Wn. destruct Wn as [Wn Wa].
    assert (Hne : afts r <> []) by (destruct (afts r); [discriminate Wn|discriminate]).
    destruct (exists_last Hne) as (l & x & Efl). rewrite Efl in Wa |- *.
    rewrite forallb_app in Wa. apply andb_prop in Wa. destruct Wa as [W1 Wf]. cbn [forallb] in Wf. rewrite andb_true_r in Wf.
    unfold wf_afeat in Wf. apply andb_prop in Wf. destruct Wf as [Wf _].
    destruct (pending_state excl (ahdr r) l x k2 He Wh W1 Wf) as (F & sc & S & Mc & Et & El).
    rewrite flat_map_app. cbn [flat_map]. rewrite app_nil_r.
    replace (flat_map render_hfield (ahdr r) ++ ([feat_header] ++ flat_map render_feat l ++ render_feat x) ++ [] ++ [sl2] ++ (if ablank r then [[]] else []))
      with ((flat_map render_hfield (ahdr r) ++ [feat_header] ++ flat_map render_feat l ++ render_feat x) ++ [sl2] ++ (if ablank r then [[]] else []))
      by (rewrite <- !app_assoc; reflexivity).
    set (P := flat_map render_hfield (ahdr r) ++ [feat_header] ++ flat_map render_feat l ++ render_feat x) in *.
    rewrite <- (app_assoc P). rewrite run_lines_steps by exact F. rewrite S.
    cbn [app]. cbn [run_lines]. change (is_blank (rstrip sl2)) with false. change (str_eqb (strip (rstrip sl2)) sl2) with true. cbv iota.
    unfold finish. rewrite Et. reflexivity.
Qed.

Lemma err_class_split excl rs k : err_class excl rs = Some k ->
  exists rs1 r rs2, rs = rs1 ++ r :: rs2 /\ forallb (wf_arec excl) rs1 = true /\ err_rec excl r = Some k.
Proof.
  induction rs as [|r rs IH]; [discriminate|]. cbn [err_class]. destruct (wf_arec excl r) eqn:E.
  - intros H. destruct (IH H) as (rs1 & r0 & rs2 & E1 & W & K). exists (r :: rs1), r0, rs2.
    split; [rewrite E1; reflexivity|]. cbn [forallb]. rewrite E, W. split; [reflexivity|exact K].
  - intros H. exists [], r, rs. repeat split. exact H.
Qed.

Lemma err_class_seq excl rs : err_class (k_seq :: excl) rs = err_class excl rs.
Proof.
  induction rs as [|r rs IH]; [reflexivity|]. cbn [err_class]. rewrite IH.
  change (wf_arec (k_seq :: excl) r) with (wf_arec excl r). change (err_rec (k_seq :: excl) r) with (err_rec excl r). reflexivity.
Qed.

(* C10_read_errors *)
Lemma read_errors excl rs k : no_nl rs = true -> err_class excl rs = Some k ->
  iter_genbank excl (render_gb rs) = RErr k /\ read_fts_genbank excl (render_gb rs) = RErr k.
Proof.
  intros Hn.
  assert (A : forall ex, err_class ex rs = Some k -> iter_genbank ex (render_gb rs) = RErr k).
  { intros ex He. destruct (err_class_split ex rs k He) as (rs1 & r & rs2 & E & W & K).
    unfold iter_genbank, render_gb. unfold no_nl in Hn. rewrite (file_lines_render _ Hn). rewrite E.
    rewrite flat_map_app. cbn [flat_map]. rewrite <- !app_assoc.
    destruct (records_prefix ex rs1 W ((render_rec r ++ flat_map render_rec rs2) ++ [[]]) None []) as (k2 & R).
    rewrite <- app_assoc in R. rewrite R. apply bad_record_lines. exact K. }
  intros He. split; [apply A; exact He|]. unfold read_fts_genbank. rewrite (A (k_seq :: excl)); [reflexivity|].
  rewrite err_class_seq. exact He.
Qed.

Lemma err_rec_spec excl r k : err_rec excl r = Some k ->
  mem k_fts excl = false /\ forallb wf_hfield (ahdr r) = true
  /\ (k = ValueError /\ aorigin r = true /\ (exists fs1 f fs2, afts r = fs1 ++ f :: fs2 /\ forallb wf_afeat fs1 = true
         /\ wf_afeat_pre f = true /\ one_strand (sem (aloc f)) = false /\ forallb wf_afeat_pre fs2 = true)
      \/ k = AssertionError /\ aorigin r = false /\ afts r <> [] /\ forallb wf_afeat (afts r) = true).
Proof.
  unfold err_rec. destruct (mem k_fts excl); [discriminate|]. destruct (forallb wf_hfield (ahdr r)); [|discriminate]. cbn [orb negb].
  destruct (afeatures r); [|discriminate]. cbn [negb].
  intros H. split; [reflexivity|]. split; [reflexivity|]. destruct (aorigin r).
  - destruct (strand_scan (afts r)) eqn:S; [|discriminate]. inversion H. left. split; [reflexivity|]. split; [reflexivity|].
    apply strand_scan_split. exact S.
  - destruct (negb (is_nil (afts r)) && forallb wf_afeat (afts r)) eqn:W; [|discriminate]. inversion H. right.
    apply andb_prop in W. destruct W as [W1 W2]. repeat split; try assumption. destruct (afts r); [discriminate W1|discriminate].
Qed.
Lemma err_class_spec excl rs k : err_class excl rs = Some k ->
  exists rs1 r rs2, rs = rs1 ++ r :: rs2 /\ forallb (wf_arec excl) rs1 = true /\ err_rec excl r = Some k
    /\ mem k_fts excl = false /\ forallb wf_hfield (ahdr r) = true
    /\ (k = ValueError /\ aorigin r = true /\ (exists fs1 f fs2, afts r = fs1 ++ f :: fs2 /\ forallb wf_afeat fs1 = true
           /\ wf_afeat_pre f = true /\ one_strand (sem (aloc f)) = false /\ forallb wf_afeat_pre fs2 = true)
        \/ k = AssertionError /\ aorigin r = false /\ afts r <> [] /\ forallb wf_afeat (afts r) = true).
Proof.
  intros H. destruct (err_class_split excl rs k H) as (rs1 & r & rs2 & E & W & K). exists rs1, r, rs2.
  split; [exact E|]. split; [exact W|]. split; [exact K|]. apply err_rec_spec. exact K.
Qed.

Definition ex_mixed : list arec :=
  [mkarec box_hdr [mkafeat (d "gene") (LRange false (d "1") false (d "9")) [] [];
                   mkafeat (d "CDS") (LJoin [LRange false (d "1") false (d "5"); LCompl (LRange false (d "7") false (d "10"))]) [8%nat] [QFlag (d "pseudo")];
                   mkafeat (d "exon") (LRange false (d "2") false (d "3")) [] []] (d "acgtacgtacgt") false true true].
Definition ex_noorigin : list arec :=
  [mkarec box_hdr [] (d "acgt") false true true;
   mkarec box_hdr [mkafeat (d "gene") (LRange false (d "1") false (d "9")) [] []] [] false false true].
Lemma ex_errors :
  err_class [] ex_mixed = Some ValueError /\ no_nl ex_mixed = true /\ iter_genbank [] (render_gb ex_mixed) = RErr ValueError
  /\ wf_C10 [k_fts] ex_mixed = true
  /\ err_class [] ex_noorigin = Some AssertionError /\ no_nl ex_noorigin = true /\ read_fts_genbank [] (render_gb ex_noorigin) = RErr AssertionError
  /\ wf_C10 [k_fts] ex_noorigin = true.
Proof. vm_compute. repeat split; reflexivity. Qed.
Local Open Scope Z_scope.
(* ------------------------------------------------------------ strand orderings *)
Lemma sem_compl_join es : sem (LCompl (LJoin es)) = sem (LJoin (map LCompl es)) /\ sem (LCompl (LOrder es)) = sem (LOrder (map LCompl es)).
Proof.
  assert (A : map flip (flat_map sem es) = flat_map sem (map LCompl es)).
  { induction es as [|e r IH]; [reflexivity|]. cbn [flat_map map sem]. rewrite map_app, IH. reflexivity. }
  split; exact A.
Qed.
Lemma sorted_perm_eq (R : loc -> loc -> Prop) : (forall a, R a a) -> forall l1 l2,
  StronglySorted R l1 -> StronglySorted R l2 -> Permutation l1 l2 ->
  (forall a b, In a l1 -> In b l1 -> R a b -> R b a -> a = b) -> l1 = l2.
Proof.
  intros Rr. induction l1 as [|a t1 IH]; intros l2 S1 S2 P An.
  - apply Permutation_nil in P. now subst.
  - destruct l2 as [|b t2]; [apply Permutation_sym, Permutation_nil in P; discriminate|].
    apply StronglySorted_inv in S1. destruct S1 as [S1 F1]. apply StronglySorted_inv in S2. destruct S2 as [S2 F2].
    rewrite Forall_forall in F1, F2.
    assert (Hb : In b (a :: t1)) by (eapply Permutation_in; [apply Permutation_sym; exact P|left; reflexivity]).
    assert (Ha : In a (b :: t2)) by (eapply Permutation_in; [exact P|left; reflexivity]).
    assert (Rab : R a b) by (destruct Hb as [<-|Hb]; [apply Rr|apply F1; exact Hb]).
    assert (Rba : R b a) by (destruct Ha as [<-|Ha]; [apply Rr|apply F2; exact Ha]).
    assert (E : a = b) by (apply An; [left; reflexivity|exact Hb|exact Rab|exact Rba]). subst b.
    f_equal. apply IH; try assumption.
    + eapply Permutation_cons_inv. exact P.
    + intros x y Hx Hy. apply An; right; assumption.
Qed.
Lemma NoDup_map_inj {A B} (f : A -> B) l a b : NoDup (map f l) -> In a l -> In b l -> f a = f b -> a = b.
Proof.
  induction l as [|x t IH]; [intros _ []|]. cbn [map]. intros N Ha Hb E. inversion N as [|? ? Hn Nt]; subst.
  destruct Ha as [<-|Ha], Hb as [<-|Hb]; [reflexivity| | |apply IH; assumption].
  - exfalso. apply Hn. rewrite E. apply in_map. exact Hb.
  - exfalso. apply Hn. rewrite <- E. apply in_map. exact Ha.
Qed.
Lemma sort_asc_perm l : Permutation (sort_asc l) l.
Proof. induction l as [|x r IH]; [reflexivity|]. cbn. rewrite insert_asc_perm. now constructor. Qed.
Lemma sort_desc_perm l : Permutation (sort_desc l) l.
Proof. induction l as [|x r IH]; [reflexivity|]. cbn. rewrite insert_desc_perm. now constructor. Qed.
Lemma one_strand_all l : one_strand l = true -> forall x, In x l -> lstrand x = lstrand (hd x l).
Proof.
  destruct l as [|l0 r]; [discriminate|]. unfold one_strand. intros H x Hx. rewrite forallb_forall in H. specialize (H x Hx).
  apply byte_eqb_eq in H. exact H.
Qed.
(* the LocationTuple of a one-strand feature depends only on the SET of its locations when their starts and stops are pairwise
   different: any two ways of writing the same parts (complement(join(a,b)) and join(complement(b),complement(a))) give the same tuple *)
Lemma sort_locs_perm_eq l l' : Permutation l l' -> one_strand l = true -> NoDup (map lstart l) -> NoDup (map lstop l) ->
  sort_locs l = sort_locs l'.
Proof.
  intros P O N1 N2. pose proof (one_strand_all l O) as Hs.
  destruct l as [|a t]; [discriminate O|]. destruct l' as [|b t']; [apply Permutation_sym, Permutation_nil in P; discriminate|].
  assert (Hb : In b (a :: t)) by (eapply Permutation_in; [apply Permutation_sym; exact P|left; reflexivity]).
  assert (Eb : lstrand b = lstrand a) by (apply (Hs b Hb)).
  unfold sort_locs. rewrite Eb. destruct (byte_eqb (lstrand a) minus).
  - apply (sorted_perm_eq (fun x y => lstop x >= lstop y)); [intros; lia|apply sort_desc_sorted|apply sort_desc_sorted| |].
    + rewrite !sort_desc_perm. exact P.
    + intros x y Hx Hy R1 R2. apply (NoDup_map_inj lstop (a :: t)); [exact N2| | |lia];
        (eapply Permutation_in; [apply sort_desc_perm|]); assumption.
  - apply (sorted_perm_eq (fun x y => lstart x <= lstart y)); [intros; lia|apply sort_asc_sorted|apply sort_asc_sorted| |].
    + rewrite !sort_asc_perm. exact P.
    + intros x y Hx Hy R1 R2. apply (NoDup_map_inj lstart (a :: t)); [exact N1| | |lia];
        (eapply Permutation_in; [apply sort_asc_perm|]); assumption.
Qed.
Lemma flat_map_rev_perm {A B} (f : A -> list B) l : Permutation (flat_map f (rev l)) (flat_map f l).
Proof.
  induction l as [|x r IH]; [reflexivity|]. cbn [rev flat_map]. rewrite flat_map_app. cbn [flat_map]. rewrite app_nil_r.
  rewrite IH. apply Permutation_app_comm.
Qed.
(* C10_strand_order *)
Lemma strand_order es :
  sem (LCompl (LJoin es)) = sem (LJoin (map LCompl es))
  /\ (one_strand (sem (LCompl (LJoin es))) = true ->
      NoDup (map lstart (sem (LCompl (LJoin es)))) -> NoDup (map lstop (sem (LCompl (LJoin es)))) ->
      sort_locs (sem (LCompl (LJoin es))) = sort_locs (sem (LJoin (map LCompl (rev es))))
      /\ sort_locs (sem (LCompl (LJoin es))) = sort_locs (sem (LCompl (LJoin (rev es)))))
  /\ (forall e, one_strand (sem e) = true -> Forall (fun l => lstrand l = minus) (sem e) ->
      StronglySorted (fun a b => lstop a >= lstop b) (sort_locs (sem e))).
Proof.
  split; [apply sem_compl_join|]. split.
  - intros O N1 N2. split.
    + apply sort_locs_perm_eq; try assumption. rewrite (proj1 (sem_compl_join es)). cbn [sem]. rewrite map_rev.
      apply Permutation_sym. apply flat_map_rev_perm.
    + apply sort_locs_perm_eq; try assumption. cbn [sem]. apply Permutation_map. apply Permutation_sym. apply flat_map_rev_perm.
  - intros e O F. destruct (sem e) as [|l0 r] eqn:E; [discriminate O|]. unfold sort_locs.
    inversion F as [|? ? H0 _]; subst. rewrite H0. change (byte_eqb minus minus) with true. cbv iota. apply sort_desc_sorted.
Qed.

(* ------------------------------------------------------------ remote locations (accession:location) are rejected *)
Definition colon : byte := ":"%byte.
Lemma int_body_colon s : has colon s = true -> forall acc p, int_body s acc p = None.
Proof.
  induction s as [|c r IH]; [discriminate|]. intros H acc p. rewrite has_cons in H. cbn [int_body].
  destruct (digit_val c) as [dv|] eqn:D.
  - apply IH. destruct (byte_eqb colon c) eqn:E; [|exact H]. apply byte_eqb_eq in E. subst c. discriminate D.
  - destruct (byte_eqb "_" c && p) eqn:U; [|reflexivity]. destruct r as [|c2 r2]; [reflexivity|].
    destruct (is_digit c2); [|reflexivity]. apply IH.
    destruct (byte_eqb colon c) eqn:E; [|exact H]. apply byte_eqb_eq in E. subst c. discriminate U.
Qed.
Lemma has_lstrip x s : is_ws x = false -> has x (lstrip s) = has x s.
Proof.
  intros Hx. induction s as [|c r IH]; [reflexivity|]. cbn [lstrip]. destruct (is_ws c) eqn:E; [|reflexivity].
  rewrite IH, has_cons. destruct (byte_eqb x c) eqn:E2; [|reflexivity]. apply byte_eqb_eq in E2. subst. congruence.
Qed.
Lemma has_rstrip x s : is_ws x = false -> has x (rstrip s) = has x s.
Proof.
  intros Hx. induction s as [|c r IH]; [reflexivity|]. cbn [rstrip]. rewrite has_cons, <- IH.
  destruct (rstrip r) as [|y t] eqn:E.
  - destruct (is_ws c) eqn:Ec.
    + cbn. destruct (byte_eqb x c) eqn:E2; [|reflexivity]. apply byte_eqb_eq in E2. subst. congruence.
    + cbn. now rewrite orb_false_r.
  - rewrite has_cons. reflexivity.
Qed.
Lemma py_int_colon s : has colon s = true -> py_int s = None.
Proof.
  intros H. unfold py_int. assert (Hs : has colon (strip s) = true) by (unfold strip; rewrite has_rstrip, has_lstrip by reflexivity; exact H).
  destruct (strip s) as [|c r]; [discriminate|].
  assert (Hr : byte_eqb colon c = false -> has colon r = true) by (intros E; rewrite has_cons, E in Hs; exact Hs).
  destruct c; try (apply int_body_colon; exact Hs); rewrite (int_body_colon r (Hr eq_refl)); reflexivity.
Qed.
Lemma range_of_colon ps d : existsb (has colon) ps = true -> range_of ps d = RErr ValueError.
Proof.
  intros H. unfold range_of. destruct ps as [|a [|b [|c t]]]; try reflexivity. cbn [existsb] in H. rewrite orb_false_r in H.
  destruct (has colon a) eqn:Ea.
  - now rewrite (py_int_colon a Ea).
  - cbn [orb] in H. rewrite (py_int_colon b H). destruct (py_int a); reflexivity.
Qed.
Lemma existsb_cons_head x y l : existsb (has x) (cons_head y l) = byte_eqb x y || existsb (has x) l.
Proof. destruct l as [|h t]; cbn [cons_head existsb]; rewrite has_cons; [cbn; now rewrite !orb_false_r|now rewrite orb_assoc]. Qed.
Lemma split_char_has c x s : byte_eqb x c = false -> has x s = true -> existsb (has x) (split_char c s) = true.
Proof.
  intros Hc. induction s as [|y r IH]; [discriminate|]. rewrite has_cons. cbn [split_char]. destruct (byte_eqb c y) eqn:E.
  - apply byte_eqb_eq in E. subst y. rewrite Hc. cbn [orb existsb]. intros H. now rewrite IH.
  - rewrite existsb_cons_head. destruct (byte_eqb x y); [reflexivity|]. cbn [orb]. exact IH.
Qed.
Lemma split_dotdot_has x : byte_eqb x "." = false -> forall n s, (length s <= n)%nat -> has x s = true ->
  existsb (has x) (split_dotdot s) = true.
Proof.
  intros Hd. induction n as [|n IH]; intros s L H.
  - destruct s; [discriminate H|cbn in L; lia].
  - destruct s as [|c1 r]; [discriminate H|]. cbn [split_dotdot]. destruct r as [|c2 r2].
    + cbn [existsb]. rewrite orb_false_r. exact H.
    + destruct (is_dot c1 && is_dot c2) eqn:E.
      * apply andb_prop in E. destruct E as [E1 E2]. unfold is_dot in E1, E2. apply byte_eqb_eq in E1, E2. subst c1 c2.
        rewrite !has_cons, Hd in H. cbn [orb] in H. cbn [existsb]. rewrite (IH r2); [apply orb_true_r| |exact H]. cbn [length] in L. lia.
      * rewrite existsb_cons_head. rewrite has_cons in H. destruct (byte_eqb x c1); [reflexivity|]. cbn [orb] in H |- *.
        apply IH; [cbn [length] in L |- *; lia|exact H].
Qed.
(* C10_remote_rejected: a single location whose text contains ':' (a remote reference, accession:location) is rejected with ValueError *)
Lemma remote_single s : has colon s = true -> parse_single s = RErr ValueError.
Proof.
  intros H. unfold parse_single. destruct s as [|c r]; [discriminate|].
  assert (T : forall d2 s2, has colon s2 = true ->
     (if has_dotdot s2 then range_of (split_dotdot s2) d2
      else if has "."%byte s2 then range_of (split_char "."%byte s2) (N.lor d2 D_UNKNOWN_SINGLE_BETWEEN)
      else if has "^"%byte s2 then range_of (split_char "^"%byte s2) (N.lor d2 D_BETWEEN_CONSECUTIVE)
      else match py_int s2 with Some n => mk_location (n - 1) n d2 | None => RErr ValueError end) = RErr ValueError).
  { intros d2 s2 H2. destruct (has_dotdot s2); [apply range_of_colon; apply (split_dotdot_has colon eq_refl (length s2)); [lia|exact H2]|].
    destruct (has "." s2); [apply range_of_colon; apply split_char_has; [reflexivity|exact H2]|].
    destruct (has "^" s2); [apply range_of_colon; apply split_char_has; [reflexivity|exact H2]|].
    now rewrite (py_int_colon s2 H2). }
  assert (G : forall t, has colon t = true -> has colon (remove_char ">" t) = true).
  { induction t as [|y t IH]; [discriminate|]. rewrite has_cons. unfold remove_char. cbn [filter]. destruct (byte_eqb ">" y) eqn:E.
    - apply byte_eqb_eq in E. subst y. cbn [negb orb]. exact IH.
    - cbn [negb]. rewrite has_cons. destruct (byte_eqb colon y); [reflexivity|]. cbn [orb]. exact IH. }
  destruct (byte_eqb "<" c) eqn:E.
  - apply byte_eqb_eq in E. subst c. rewrite has_cons in H. cbn [orb] in H. change (byte_eqb colon "<") with false in H. cbn [orb] in H.
    destruct (has ">" r); apply T; [apply G|]; exact H.
  - destruct (has ">" (c :: r)); apply T; [apply G|]; exact H.
Qed.
Lemma remote_rejected s : has colon s = true -> is_compound (strip s) = false -> parse_locs_str s = RErr ValueError.
Proof.
  intros H C. unfold parse_locs_str. cbn [parse_locs]. rewrite C. rewrite remote_single; [reflexivity|].
  unfold strip. rewrite has_rstrip, has_lstrip by reflexivity. exact H.
Qed.

Lemma ex_quotes :
  wf_qual (QText (d "note") [unhex (bs "73617920222268692222206e6f77"%bs)]) = true
  /\ wf_qual (QText (d "note") [unhex (bs "736179202222686922222222"%bs)]) = false
  /\ strip_char dq (unhex (bs "22736179202222686922222222"%bs)) = unhex (bs "7361792022226869"%bs).
Proof. vm_compute. repeat split; reflexivity. Qed.

Definition ex_nofeatures : list arec := [mkarec box_hdr [] (d "acgtacgtacgt") false true false].
Lemma ex_nofeat :
  wf_C10 [] ex_nofeatures = true
  /\ iter_genbank [] (render_gb ex_nofeatures) = ROk (view [] ex_nofeatures)
  /\ map (fun r => (rid r, rseq r, rfts r)) (view [] ex_nofeatures) = [(bs "AB000001"%bs, [], None)]
  /\ map (fun r => aget k_origin (rhdr r)) (view [] ex_nofeatures)
     = [Some (HA [(k_id, HS []); (bs "1 ac"%bs, HS (bs "acgtacgtac gt"%bs))])].
Proof. vm_compute. repeat split; reflexivity. Qed.
