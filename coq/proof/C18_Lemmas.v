(* C18 proofs, value-level model (Attr/Meta mapping laws). *)
From Coq Require Import List ZArith NArith Bool Lia.
From Coq.Strings Require Import Byte.
Import ListNotations.
From SV Require Import Text G_attr C18_Model.

(* ---- induction principle for the rose tree ---- *)
Section TreeInd.
  Variable P : tree -> Prop.
  Hypothesis HNull : P TNull.
  Hypothesis HBool : forall b, P (TBool b).
  Hypothesis HInt : forall z, P (TInt z).
  Hypothesis HStr : forall s, P (TStr s).
  Hypothesis HList : forall l, Forall P l -> P (TList l).
  Hypothesis HMap : forall g kvs, Forall (fun kv => P (snd kv)) kvs -> P (TMap g kvs).
  Fixpoint tree_ind' (t : tree) : P t :=
    match t with
    | TNull => HNull | TBool b => HBool b | TInt z => HInt z | TStr s => HStr s
    | TList l => HList l ((fix go (l : list tree) : Forall P l :=
                             match l with [] => Forall_nil _ | x :: r => Forall_cons _ (tree_ind' x) (go r) end) l)
    | TMap g kvs => HMap g kvs ((fix go (l : list (str * tree)) : Forall (fun kv => P (snd kv)) l :=
                             match l with [] => Forall_nil _ | x :: r => Forall_cons _ (tree_ind' (snd x)) (go r) end) kvs)
    end.
End TreeInd.

Lemma str_eqb_false_neq a b : str_eqb a b = false <-> a <> b.
Proof.
  split.
  - intros H E. subst. rewrite str_eqb_refl in H. discriminate.
  - intros H. destruct (str_eqb a b) eqn:E; [apply str_eqb_eq in E; contradiction|reflexivity].
Qed.
Lemma str_eqb_sym a b : str_eqb a b = str_eqb b a.
Proof.
  destruct (str_eqb a b) eqn:E.
  - apply str_eqb_eq in E. subst. symmetry. apply str_eqb_refl.
  - symmetry. apply str_eqb_false_neq. apply str_eqb_false_neq in E. congruence.
Qed.

(* ---- association lists ---- *)
Section Assoc.
  Context {A : Type}.
  Implicit Types (m : list (str * A)) (k : str) (v : A).

  Lemma aget_aset_same k v m : aget k (aset k v m) = Some v.
  Proof.
    induction m as [|[k' v'] r IH]; cbn.
    - rewrite str_eqb_refl. reflexivity.
    - destruct (str_eqb k' k) eqn:E; cbn; rewrite E; auto.
  Qed.

  Lemma aget_aset_other k k' v m : k <> k' -> aget k' (aset k v m) = aget k' m.
  Proof.
    intros N. induction m as [|[k2 v2] r IH]; cbn.
    - apply str_eqb_false_neq in N. rewrite N. reflexivity.
    - destruct (str_eqb k2 k) eqn:E; cbn.
      + apply str_eqb_eq in E. subst k2. apply str_eqb_false_neq in N. rewrite N. reflexivity.
      + destruct (str_eqb k2 k'); auto.
  Qed.

  Definition inkeys k m : bool := existsb (str_eqb k) (map fst m).

  Lemma aget_none_inkeys k m : aget k m = None <-> inkeys k m = false.
  Proof.
    unfold inkeys. induction m as [|[k' v'] r IH]; cbn; [tauto|].
    rewrite (str_eqb_sym k k'). destruct (str_eqb k' k); cbn; [split; discriminate|exact IH].
  Qed.
  Lemma amem_inkeys k m : amem k m = inkeys k m.
  Proof.
    unfold amem. destruct (aget k m) eqn:E.
    - destruct (inkeys k m) eqn:F; [reflexivity|]. apply aget_none_inkeys in F. congruence.
    - symmetry. apply aget_none_inkeys. exact E.
  Qed.

  Lemma aset_fresh k v m : inkeys k m = false -> aset k v m = m ++ [(k, v)].
  Proof.
    unfold inkeys. induction m as [|[k' v'] r IH]; cbn; [reflexivity|].
    intros H. apply orb_false_elim in H. destruct H as [H1 H2].
    rewrite str_eqb_sym, H1. rewrite IH; auto.
  Qed.

  (* keys: an existing key keeps its position, a new key goes to the end *)
  Lemma akeys_aset k v m : akeys (aset k v m) = if inkeys k m then akeys m else akeys m ++ [k].
  Proof.
    unfold akeys, inkeys. induction m as [|[k' v'] r IH]; cbn; [reflexivity|].
    rewrite (str_eqb_sym k k'). destruct (str_eqb k' k) eqn:E; cbn; [reflexivity|].
    rewrite IH. destruct (existsb (str_eqb k) (map fst r)); reflexivity.
  Qed.
  Lemma length_aset k v m : length (aset k v m) = if inkeys k m then length m else S (length m).
  Proof.
    pose proof (f_equal (@length _) (akeys_aset k v m)) as H. unfold akeys in H. rewrite map_length in H.
    rewrite H. destruct (inkeys k m); rewrite ?app_length, ?map_length; cbn; lia.
  Qed.

  Lemma existsb_app_single k (l : list str) k2 :
    existsb (str_eqb k) (l ++ [k2]) = existsb (str_eqb k) l || str_eqb k k2.
  Proof. rewrite existsb_app. cbn. rewrite orb_false_r. reflexivity. Qed.

  Lemma nodupb_app_single (l : list str) k : nodupb l = true -> existsb (str_eqb k) l = false -> nodupb (l ++ [k]) = true.
  Proof.
    induction l as [|x r IH]; cbn; intros H1 H2; [reflexivity|].
    apply andb_prop in H1. destruct H1 as [H1 H1']. apply orb_false_elim in H2. destruct H2 as [H2 H2'].
    rewrite existsb_app_single. rewrite IH; auto. rewrite andb_true_r.
    apply negb_true_iff in H1. rewrite H1. cbn. rewrite str_eqb_sym, H2. reflexivity.
  Qed.

  (* unique keys are preserved by assignment *)
  Lemma nodup_aset k v m : nodupb (akeys m) = true -> nodupb (akeys (aset k v m)) = true.
  Proof.
    intros H. rewrite akeys_aset. destruct (inkeys k m) eqn:E; [exact H|].
    apply nodupb_app_single; auto.
  Qed.

  Lemma adel_inkeys k m : adel k m = None <-> inkeys k m = false.
  Proof.
    unfold inkeys. induction m as [|[k' v'] r IH]; cbn; [tauto|].
    rewrite (str_eqb_sym k k'). destruct (str_eqb k' k); cbn; [split; discriminate|].
    destruct (adel k r); cbn; [split; [discriminate|]|tauto].
    intros H. apply IH in H. discriminate.
  Qed.

  (* deletion removes the key (unique keys) and nothing else *)
  Lemma aget_adel_same k m m' : nodupb (akeys m) = true -> adel k m = Some m' -> aget k m' = None.
  Proof.
    revert m'. induction m as [|[k' v'] r IH]; cbn; intros m' ND H; [discriminate|].
    apply andb_prop in ND. destruct ND as [ND1 ND2].
    destruct (str_eqb k' k) eqn:E.
    - inversion H; subst. apply str_eqb_eq in E. subst k'. apply aget_none_inkeys. unfold inkeys.
      apply negb_true_iff in ND1. exact ND1.
    - destruct (adel k r) eqn:D; cbn in H; [|discriminate]. inversion H; subst. cbn. rewrite E. apply IH; auto.
  Qed.
  Lemma aget_adel_other k k' m m' : k <> k' -> adel k m = Some m' -> aget k' m' = aget k' m.
  Proof.
    intros N. revert m'. induction m as [|[k2 v2] r IH]; cbn; intros m' H; [discriminate|].
    destruct (str_eqb k2 k) eqn:E.
    - inversion H; subst. apply str_eqb_eq in E. subst k2. apply str_eqb_false_neq in N. rewrite N. reflexivity.
    - destruct (adel k r) eqn:D; cbn in H; [|discriminate]. inversion H; subst. cbn.
      destruct (str_eqb k2 k'); auto.
  Qed.
End Assoc.

(* ---- conversion ---- *)
Lemma conv_dict kvs : conv (TMap TgDict kvs) = TMap TgAttr (attr_update [] kvs).
Proof.
  cbn [conv]. f_equal. unfold attr_update. generalize (@nil (str * tree)) as acc.
  induction kvs as [|[k x] r IH]; intros acc; cbn [fold_left fst snd]; [reflexivity|]. apply IH.
Qed.
Lemma conv_other t : (forall kvs, t <> TMap TgDict kvs) -> conv t = t.
Proof. destruct t as [| | | | |g kvs]; try reflexivity. destruct g; try reflexivity. intros H. exfalso. eapply H. reflexivity. Qed.
Lemma conv_idem t : conv (conv t) = conv t.
Proof.
  destruct t as [| | | | |g kvs]; try reflexivity. destruct g; reflexivity.
Qed.

(* with unique keys Attr(d) keeps the items of d in order, converting each value *)
Lemma attr_update_nodup kvs : forall acc,
  nodupb (map fst kvs) = true ->
  forallb (fun kv => negb (inkeys (fst kv) acc)) kvs = true ->
  attr_update acc kvs = acc ++ map (fun kv => (fst kv, conv (snd kv))) kvs.
Proof.
  unfold attr_update.
  induction kvs as [|[k x] r IH]; intros acc ND DJ; cbn [fold_left map fst snd]; [rewrite app_nil_r; reflexivity|].
  cbn in ND, DJ. apply andb_prop in ND. destruct ND as [ND1 ND2]. apply andb_prop in DJ. destruct DJ as [DJ1 DJ2].
  apply negb_true_iff in DJ1, ND1.
  rewrite aset_fresh by exact DJ1.
  rewrite IH; auto.
  - rewrite <- app_assoc. reflexivity.
  - apply forallb_forall. intros [k2 x2] Hin. cbn.
    rewrite forallb_forall in DJ2. specialize (DJ2 _ Hin). cbn in DJ2.
    unfold inkeys in *. rewrite map_app, existsb_app. cbn. apply negb_true_iff in DJ2. rewrite DJ2. cbn.
    rewrite orb_false_r. apply negb_true_iff.
    destruct (str_eqb k2 k) eqn:E; [|reflexivity]. apply str_eqb_eq in E. subst k2.
    exfalso. assert (existsb (str_eqb k) (map fst r) = true) as T.
    { apply existsb_exists. exists k. split; [apply in_map_iff; exists (k, x2); auto|apply str_eqb_refl]. }
    congruence.
Qed.
Lemma attr_init_nodup g kvs : nodupb (map fst kvs) = true ->
  attr_init g kvs = TMap g (map (fun kv => (fst kv, conv (snd kv))) kvs).
Proof.
  intros ND. unfold attr_init. rewrite attr_update_nodup; auto.
  apply forallb_forall. intros; reflexivity.
Qed.

(* ---- to_dict (of_dict d) = d ---- *)
Lemma wf_lit_map g kvs : wf_lit (TMap g kvs) = true ->
  g = TgDict /\ nodupb (map fst kvs) = true /\ forallb (fun kv => negb (reserved (fst kv))) kvs = true
  /\ forallb (fun kv => wf_lit (snd kv)) kvs = true.
Proof.
  destruct g; cbn; try discriminate. intros H.
  apply andb_prop in H. destruct H as [H H3]. apply andb_prop in H. destruct H as [H1 H2]. auto.
Qed.

Lemma to_dict_pure t : wf_lit t = true -> to_dict t = t.
Proof.
  induction t as [| | | |l IH|g kvs IH] using tree_ind'; intros W; try reflexivity.
  - cbn in *. f_equal. induction l as [|x r IHr]; [reflexivity|].
    cbn in W. apply andb_prop in W. destruct W as [W1 W2]. inversion IH; subst. cbn. f_equal; auto.
  - apply wf_lit_map in W. destruct W as (-> & _ & _ & W). cbn. f_equal.
    induction kvs as [|[k x] r IHr]; [reflexivity|].
    cbn in W. apply andb_prop in W. destruct W as [W1 W2]. inversion IH; subst. cbn in *. f_equal; auto.
    f_equal; auto.
Qed.

Lemma to_dict_conv t : wf_lit t = true -> to_dict (conv t) = t.
Proof.
  induction t as [| | | |l IH|g kvs IH] using tree_ind'; intros W; try reflexivity.
  - change (conv (TList l)) with (TList l). apply to_dict_pure. exact W.
  - apply wf_lit_map in W. destruct W as (-> & ND & _ & W).
    rewrite conv_dict. fold (attr_init TgAttr kvs). rewrite attr_init_nodup by exact ND. cbn. f_equal.
    clear ND. induction kvs as [|[k x] r IHr]; [reflexivity|].
    cbn in W. apply andb_prop in W. destruct W as [W1 W2]. inversion IH; subst. cbn in *. f_equal; auto.
    f_equal; auto.
Qed.

(* ---- equality with the equivalent dict ---- *)
Lemma aget_map_conv k kvs : aget k (map (fun kv => (fst kv, conv (snd kv))) kvs) = option_map conv (aget k kvs).
Proof. induction kvs as [|[k' x] r IH]; cbn; [reflexivity|]. destruct (str_eqb k' k); auto. Qed.


(* the loop of Mapping.__eq__ over the items of the left operand *)
Definition eq_items (ka kb : list (str * tree)) : bool :=
  (fix go (l : list (str * tree)) : bool :=
     match l with
     | [] => true
     | (k, x) :: r => match aget k kb with Some y => py_eq x y | None => false end && go r
     end) ka.
Lemma py_eq_map g1 g2 ka kb : py_eq (TMap g1 ka) (TMap g2 kb) = Nat.eqb (length ka) (length kb) && eq_items ka kb.
Proof. reflexivity. Qed.
Definition eq_list (la lb : list tree) : bool :=
  (fix go (la lb : list tree) : bool :=
     match la, lb with
     | [], [] => true
     | x :: ra, y :: rb => py_eq x y && go ra rb
     | _, _ => false
     end) la lb.
Lemma py_eq_list la lb : py_eq (TList la) (TList lb) = eq_list la lb.
Proof. reflexivity. Qed.

(* items of [f-mapped ka] against kb, when kb extends the un-mapped list by a prefix with other keys *)
Lemma eq_items_mapped (f : tree -> tree) ka : forall pre,
  nodupb (map fst (pre ++ ka)) = true ->
  Forall (fun kv => py_eq (f (snd kv)) (snd kv) = true) ka ->
  eq_items (map (fun kv => (fst kv, f (snd kv))) ka) (pre ++ ka) = true.
Proof.
  induction ka as [|[k x] r IH]; intros pre ND HF; [reflexivity|].
  inversion HF as [|? ? Hx Hr]; subst. cbn in Hx.
  cbn [map fst snd]. unfold eq_items. fold (eq_items (map (fun kv => (fst kv, f (snd kv))) r) (pre ++ (k, x) :: r)).
  assert (aget k (pre ++ (k, x) :: r) = Some x) as G.
  { clear - ND. induction pre as [|[k' v'] p IHp]; cbn.
    - rewrite str_eqb_refl. reflexivity.
    - cbn in ND. apply andb_prop in ND. destruct ND as [N1 N2].
      destruct (str_eqb k' k) eqn:E.
      + apply str_eqb_eq in E. subst k'. apply negb_true_iff in N1.
        rewrite map_app, existsb_app in N1. cbn in N1. rewrite str_eqb_refl in N1. cbn in N1.
        rewrite orb_true_r in N1. discriminate.
      + apply IHp. exact N2. }
  rewrite G, Hx. cbn.
  replace (pre ++ (k, x) :: r) with ((pre ++ [(k, x)]) ++ r) by (rewrite <- app_assoc; reflexivity).
  apply IH; auto. rewrite <- app_assoc. exact ND.
Qed.

Lemma py_eq_refl_wf t : wf_lit t = true -> py_eq t t = true.
Proof.
  induction t as [|b|z|s|l IH|g kvs IH] using tree_ind'; intros W; try reflexivity.
  - destruct b; reflexivity.
  - cbn. apply Z.eqb_refl.
  - cbn. apply str_eqb_refl.
  - rewrite py_eq_list. cbn in W. induction l as [|x r IHr]; [reflexivity|].
    cbn in W. apply andb_prop in W. destruct W as [W1 W2]. inversion IH; subst. cbn. rewrite H1 by exact W1. cbn.
    apply IHr; auto.
  - apply wf_lit_map in W. destruct W as (-> & ND & _ & W).
    rewrite py_eq_map, Nat.eqb_refl. cbn [andb].
    pose proof (eq_items_mapped (fun x => x) kvs [] ND) as H. cbn [app] in H.
    replace (map (fun kv : str * tree => (fst kv, snd kv)) kvs) with kvs in H.
    + apply H. rewrite Forall_forall in *. intros kv Hin. apply IH; auto.
      rewrite forallb_forall in W. apply W. exact Hin.
    + clear. induction kvs as [|[k x] r IHr]; cbn; congruence.
Qed.

(* Attr(d) == d, for every well-formed literal (recursively converted or not) *)
Lemma py_eq_conv t : wf_lit t = true -> py_eq (conv t) t = true.
Proof.
  induction t as [|b|z|s|l IH|g kvs IH] using tree_ind'; intros W;
    try (apply py_eq_refl_wf; exact W).
  apply wf_lit_map in W. destruct W as (-> & ND & _ & W).
  rewrite conv_dict. fold (attr_init TgAttr kvs). rewrite attr_init_nodup by exact ND.
  rewrite py_eq_map, map_length, Nat.eqb_refl. cbn [andb].
  apply (eq_items_mapped conv kvs [] ND).
  rewrite Forall_forall in *. intros kv Hin. apply IH; auto.
  rewrite forallb_forall in W. apply W. exact Hin.
Qed.
Lemma py_eq_meta_init g kvs : wf_lit (TMap TgDict kvs) = true -> py_eq (attr_init g kvs) (TMap TgDict kvs) = true.
Proof.
  intros W. pose proof (py_eq_conv _ W) as H. rewrite conv_dict in H. exact H.
Qed.

(* ---- recursive conversion: an Attr never directly holds a plain dict ---- *)
Definition plain_dict (t : tree) : bool := match t with TMap TgDict _ => true | _ => false end.
Fixpoint closed (t : tree) : bool :=
  match t with
  | TMap g kvs =>
      if is_attr g then
        (fix go (l : list (str * tree)) : bool :=
           match l with [] => true | (_, x) :: r => negb (plain_dict x) && closed x && go r end) kvs
      else true
  | _ => true
  end.
Definition closed_items (l : list (str * tree)) : bool :=
  forallb (fun kv => negb (plain_dict (snd kv)) && closed (snd kv)) l.
Lemma closed_map g kvs : closed (TMap g kvs) = if is_attr g then closed_items kvs else true.
Proof.
  cbn [closed]. destruct (is_attr g); [|reflexivity]. unfold closed_items.
  induction kvs as [|[k x] r IH]; [reflexivity|]. cbn [forallb snd]. rewrite IH. reflexivity.
Qed.
Lemma closed_items_aset k v m : closed_items m = true -> plain_dict v = false -> closed v = true ->
  closed_items (aset k v m) = true.
Proof.
  unfold closed_items. intros H P C. induction m as [|[k' v'] r IH]; cbn.
  - rewrite P, C. reflexivity.
  - cbn in H. apply andb_prop in H. destruct H as [H1 H2].
    destruct (str_eqb k' k); cbn; [rewrite P, C, H2|rewrite H1, IH]; auto.
Qed.
Lemma conv_closed t : wf_lit t = true -> plain_dict (conv t) = false /\ closed (conv t) = true.
Proof.
  induction t as [| | | |l IH|g kvs IH] using tree_ind'; intros W; try (split; reflexivity).
  apply wf_lit_map in W. destruct W as (-> & _ & _ & W).
  rewrite conv_dict. split; [reflexivity|]. rewrite closed_map. cbn [is_attr].
  unfold attr_update.
  assert (closed_items [] = true) as H0 by reflexivity. revert H0. generalize (@nil (str * tree)) as acc.
  induction kvs as [|[k x] r IHr]; intros acc Hacc; cbn [fold_left fst snd]; [exact Hacc|].
  inversion IH as [|? ? Hx Hr]; subst. cbn in Hx.
  cbn in W. apply andb_prop in W. destruct W as [W1 W2].
  apply IHr; auto. destruct (Hx W1) as [P C]. apply closed_items_aset; auto.
Qed.

(* ---- attribute access is key access on an Attr/Meta (meta.py:59-66) ---- *)
Lemma getattr_is_getitem g kvs k : is_attr g = true ->
  apply_op (OGetAttr [] k) (TMap g kvs) =
  match apply_op (OGetItem [] k) (TMap g kvs) with inr EKey => inr EAttr | r => r end.
Proof. intros H. cbn. rewrite H. destruct (aget k kvs); reflexivity. Qed.
Lemma setattr_is_setitem g kvs k v : is_attr g = true ->
  apply_op (OSetAttr [] k v) (TMap g kvs) = apply_op (OSetItem [] k v) (TMap g kvs).
Proof. intros H. cbn. rewrite H. reflexivity. Qed.
Lemma delattr_is_delitem g kvs k : is_attr g = true ->
  apply_op (ODelAttr [] k) (TMap g kvs) = apply_op (ODelItem [] k) (TMap g kvs).
Proof. intros H. cbn. rewrite H. reflexivity. Qed.

(* get after set, through the public operations, on an Attr/Meta *)
Lemma get_set_same g kvs k v : is_attr g = true ->
  exists t', apply_op (OSetItem [] k v) (TMap g kvs) = inl (t', VNone) /\
             apply_op (OGetItem [] k) t' = inl (t', enc (conv v)) /\
             apply_op (OGetAttr [] k) t' = inl (t', enc (conv v)).
Proof.
  intros H. eexists. split; [reflexivity|]. cbn. unfold map_set. rewrite H, aget_aset_same. split; reflexivity.
Qed.
Lemma get_set_other g kvs k k' v : k <> k' ->
  exists t', apply_op (OSetItem [] k v) (TMap g kvs) = inl (t', VNone) /\
             forall r, apply_op (OGetItem [] k') t' = inl (t', r) <-> apply_op (OGetItem [] k') (TMap g kvs) = inl (TMap g kvs, r).
Proof.
  intros N. eexists. split; [reflexivity|]. intros r. cbn. unfold map_set. rewrite aget_aset_other by exact N.
  destruct (aget k' kvs); split; intros E; inversion E; subst; reflexivity.
Qed.

(* ---- not_inplace_pure, value level: the reading operations return the object unchanged ---- *)
Lemma aset_same {A} k (c : A) m : aget k m = Some c -> aset k c m = m.
Proof.
  induction m as [|[k' v'] r IH]; cbn; [discriminate|].
  destruct (str_eqb k' k) eqn:E; intros H; [inversion H; subst; reflexivity|rewrite IH; auto].
Qed.
Lemma set_nth_same {A} (l : list A) : forall n c, nth_error l n = Some c -> set_nth l n c = l.
Proof.
  induction l as [|y r IH]; intros [|n] c H; cbn in *; try discriminate; [inversion H; reflexivity|rewrite IH; auto].
Qed.
Lemma set_py_same {A} (l : list A) i c : nth_py l i = Some c -> set_py l i c = l.
Proof.
  unfold nth_py, set_py. destruct (_ || _); [discriminate|]. apply set_nth_same.
Qed.
Lemma put_same t e c : step t e = inl c -> put t e c = t.
Proof.
  destruct t as [| | |s|l|g kvs]; destruct e as [k|i]; cbn; try discriminate; try reflexivity.
  - destruct (nth_py l i) as [x|] eqn:N; [|discriminate]. intros H. inversion H; subst. rewrite set_py_same; auto.
  - destruct (aget k kvs) as [x|] eqn:N; [|discriminate]. intros H. inversion H; subst. rewrite aset_same; auto.
Qed.
Lemma upd_same {R} (f : tree -> (tree * R) + err) : (forall t t' r, f t = inl (t', r) -> t' = t) ->
  forall p t t' r, upd p f t = inl (t', r) -> t' = t.
Proof.
  intros Hf. induction p as [|e p IH]; intros t t' r H; cbn in H; [eapply Hf; eauto|].
  destruct (step t e) as [c|x] eqn:S; [|discriminate]. destruct (upd p f c) as [[c' r']|x] eqn:U; [|discriminate].
  inversion H; subst. rewrite (IH _ _ _ U). apply put_same. exact S.
Qed.
Definition is_read (o : op) : bool :=
  match o with
  | OGetItem _ _ | OGetAttr _ _ | OGet _ _ _ | OLen _ | OKeys _ | OContains _ _ | OEq _ _ => true
  | _ => false
  end.
Lemma read_not_inplace o t t' r : is_read o = true -> apply_op o t = inl (t', r) -> t' = t.
Proof.
  destruct o; cbn [is_read]; try discriminate; intros _ H; cbn [apply_op] in H;
    (eapply upd_same; [|exact H]); clear; intros t t' r H; cbn beta in H; unfold ret in H.
  - destruct (step t (PK k)); inversion H; reflexivity.
  - destruct t as [| | | | |g kvs]; try discriminate. destruct (is_attr g); [|discriminate].
    destruct (aget k kvs); inversion H; reflexivity.
  - destruct t as [| | | | |g kvs]; try discriminate. inversion H; reflexivity.
  - destruct t as [| | |s|l|g kvs]; try discriminate; inversion H; reflexivity.
  - destruct t as [| | | | |g kvs]; try discriminate. inversion H; reflexivity.
  - destruct t as [| | | | |g kvs]; try discriminate. inversion H; reflexivity.
  - inversion H; reflexivity.
Qed.
(* a failing operation has no effect either: histories skip it with the object unchanged (run_ops) -- by definition.
   A whole history of reading operations returns the object it started from *)
Lemma run_reads ops : forall t okd acc, forallb is_read ops = true -> snd (run_ops ops t okd acc) = t.
Proof.
  induction ops as [|o r IH]; intros t okd acc A; cbn; [reflexivity|].
  cbn in A. apply andb_prop in A. destruct A as [A1 A2].
  destruct (apply_op o t) as [[t' v]|e] eqn:E.
  - rewrite (read_not_inplace _ _ _ _ A1 E). apply IH. exact A2.
  - destruct e; apply IH; exact A2.
Qed.
