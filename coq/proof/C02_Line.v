(* C02 proofs, part 3: one written GFF3 line is read back as the same type, seqid, source, score, phase, strand,
   0-based half-open location and ordered attribute dict. *)
From Coq Require Import List ZArith NArith Bool Lia.
From Coq.Strings Require Import Byte.
Import ListNotations.
From SV Require Import Text G_gff C02_Model C02_Lemmas.
Local Open Scope Z_scope.

Definition T : str := [c_tab].
Definition line9 (c1 c2 c3 c4 c5 c6 c7 c8 a : str) : str :=
  c1 ++ T ++ c2 ++ T ++ c3 ++ T ++ c4 ++ T ++ c5 ++ T ++ c6 ++ T ++ c7 ++ T ++ c8 ++ T ++ a.
Definition notab (s : str) : bool := negb (has c_tab s).

Lemma starts_ok_app a b : a <> [] -> starts_ok (a ++ b) = starts_ok a.
Proof. destruct a; [congruence|reflexivity]. Qed.
Lemma ends_ok_app a b : b <> [] -> ends_ok (a ++ b) = ends_ok b.
Proof.
  intros H. unfold ends_ok. rewrite rev_app_distr. apply starts_ok_app.
  intros E. apply (f_equal (@rev byte)) in E. rewrite rev_involutive in E. cbn in E. congruence.
Qed.
Lemma ends_ok_all s : forallb nws s = true -> ends_ok s = true.
Proof. intros H. unfold ends_ok. apply starts_ok_all. rewrite forallb_rev. exact H. Qed.

Lemma split_line9 c1 c2 c3 c4 c5 c6 c7 c8 a :
  notab c1 = true -> notab c2 = true -> notab c3 = true -> notab c4 = true -> notab c5 = true -> notab c6 = true ->
  notab c7 = true -> notab c8 = true -> notab a = true ->
  c1 <> [] -> starts_ok c1 = true -> a <> [] -> forallb nws a = true ->
  split_on c_tab (strip (line9 c1 c2 c3 c4 c5 c6 c7 c8 a)) = [c1; c2; c3; c4; c5; c6; c7; c8; a].
Proof.
  unfold notab. intros H1 H2 H3 H4 H5 H6 H7 H8 H9 N1 S1 Na Sa.
  apply negb_true_iff in H1, H2, H3, H4, H5, H6, H7, H8, H9.
  rewrite strip_id.
  - unfold line9, T. cbn [app].
    rewrite split_on_app by exact H1. rewrite split_on_app by exact H2. rewrite split_on_app by exact H3.
    rewrite split_on_app by exact H4. rewrite split_on_app by exact H5. rewrite split_on_app by exact H6.
    rewrite split_on_app by exact H7. rewrite split_on_app by exact H8. rewrite split_on_nosep by exact H9. reflexivity.
  - unfold line9. rewrite starts_ok_app by exact N1. exact S1.
  - unfold line9. rewrite !app_assoc. rewrite ends_ok_app by exact Na. apply ends_ok_all. exact Sa.
Qed.

Lemma unquote_nopct s : has "%"%byte s = false -> unquote s = s.
Proof.
  induction s as [|c s IH]; intros H; [reflexivity|]. apply has_cons_false in H. destruct H as [H1 H2].
  cbn [unquote]. rewrite H1, (IH H2). reflexivity.
Qed.
Definition plainc (c : byte) : bool := nws c && negb (byte_eqb c "%"%byte) && negb (byte_eqb c c_tab).
Lemma plainc_no s : forallb plainc s = true -> has "%"%byte s = false /\ has c_tab s = false /\ forallb nws s = true.
Proof.
  induction s as [|c s IH]; [cbn; auto|]. cbn [forallb]. intros H. apply andb_prop in H. destruct H as [Hc Hs].
  destruct (IH Hs) as [A [B C]]. unfold plainc in Hc. apply andb_prop in Hc. destruct Hc as [Hc H3]. apply andb_prop in Hc. destruct Hc as [H1 H2].
  apply negb_true_iff in H2, H3. unfold has in *. cbn [existsb forallb].
  rewrite (byte_eqb_sym "%"%byte c), (byte_eqb_sym c_tab c), H1, H2, H3, A, B, C. auto.
Qed.
Lemma digit_plainc : forall c, is_digit_byte c = true -> plainc c = true.
Proof. intros c; destruct c; cbn; intros H; try discriminate H; reflexivity. Qed.
Lemma dec_plain z : forallb plainc (dec_of_Z z) = true.
Proof.
  destruct z as [|p|p]; unfold dec_of_Z; cbn [Z.to_int]; [reflexivity| |cbn [forallb]; rewrite andb_true_iff; split; [reflexivity|]];
    apply (forallb_impl is_digit_byte); auto using digit_plainc, uint_bytes_digits.
Qed.
Lemma typec_plainc : forall c, type_char_ok c = true -> plainc c = true.
Proof. intros c; destruct c; vm_compute; intros H; try discriminate H; reflexivity. Qed.
Lemma strand_plainc : forall c, strand_ok c = true -> plainc c = true.
Proof. intros c; destruct c; vm_compute; intros H; try discriminate H; reflexivity. Qed.
Lemma qchars_notab s : forallb qchar_ok s = true -> notab s = true.
Proof. intros H. unfold notab. rewrite (qchars_no c_tab s H); reflexivity. Qed.
Lemma quote_nonempty s : s <> [] -> quote s <> [].
Proof. destruct s as [|c s]; [congruence|]. intros _. rewrite quote_cons. unfold quote1. destruct (is_unreserved c); discriminate. Qed.
Lemma ichar_notab s : forallb ichar s = true -> notab s = true.
Proof.
  intros H. unfold notab. apply negb_true_iff. apply has_false_forall. intros x Hx E. subst x.
  rewrite forallb_forall in H. specialize (H _ Hx). discriminate H.
Qed.
Definition achar (c : byte) : bool := ichar c || byte_eqb c ";"%byte.
Lemma achar_props : forall c, achar c = true -> nws c = true /\ byte_eqb c c_tab = false.
Proof. intros c; destruct c; vm_compute; intros H; try discriminate H; split; reflexivity. Qed.
Lemma attr_text_chars d : plain_entries d = true -> forallb achar (join (bs ";"%bs) (map item_text d)) = true.
Proof.
  intros P. apply forallb_join; [reflexivity|]. induction d as [|kv d IH]; [reflexivity|].
  cbn [plain_entries forallb] in P. apply andb_prop in P. destruct P as [P1 P2]. cbn [map forallb].
  rewrite (IH P2), andb_true_r. apply (forallb_impl ichar); [intros x Hx; unfold achar; rewrite Hx; reflexivity|apply item_chars; exact P1].
Qed.
Lemma achars_ok s : forallb achar s = true -> notab s = true /\ forallb nws s = true.
Proof.
  induction s as [|c s IH]; [auto|]. cbn [forallb]. intros H. apply andb_prop in H. destruct H as [Hc Hs].
  destruct (IH Hs) as [A B]. destruct (achar_props c Hc) as [C D]. unfold notab in *. cbn [has existsb forallb].
  rewrite (byte_eqb_sym c_tab c), D, C, B. apply negb_true_iff in A. unfold has in A. rewrite A. auto.
Qed.

(* attribute column text is never empty and, for a non-empty dict, differs from "." *)
Lemma attrstr_props d a : plain_entries d = true -> attrstr d = Some a -> a <> [] /\ notab a = true /\ forallb nws a = true.
Proof.
  intros P H. destruct d as [|kv d].
  - inversion H; subst. repeat split; discriminate.
  - unfold attrstr in H. rewrite (render_attrs_plain _ P) in H. cbn [option_map] in H. assert (a = join (bs ";"%bs) (map item_text (kv :: d))) as E0 by congruence. subst a. clear H.
    destruct (achars_ok _ (attr_text_chars _ P)) as [A B]. split; [|split; assumption].
    assert (has "="%byte (join (bs ";"%bs) (map item_text (kv :: d))) = true) as Heq.
    { cbn [map]. destruct (map item_text d) as [|y mm]; [cbn [join]|rewrite join_cons2, has_app];
        unfold item_text; rewrite !has_app; cbn; rewrite ?orb_true_r; reflexivity. }
    intros E. rewrite E in Heq. discriminate Heq.
Qed.

(* a quoted column that is either absent ('.') or the percent-encoding of a non-empty string other than "." *)
Definition colq (o : option str) : str := match o with Some s => quote s | None => dot end.
Definition colv_ok (o : option str) : Prop := match o with Some s => s <> [] /\ str_eqb s dot = false | None => True end.
Definition opt_entry (k : str) (o : option aval) : adict := match o with Some v => [(k, v)] | None => [] end.
(* the attribute dict the reader builds from one line *)
Definition attrs_back (d : adict) (sid src sc : option str) (ph : option Z) : adict :=
  d ++ opt_entry k_seqid (option_map AS sid) ++ opt_entry k_source (option_map AS src)
    ++ opt_entry k_score (option_map AF sc) ++ opt_entry k_phase (option_map AI ph).
Definition sid_back (sid : option str) : str := match sid with Some s => s | None => dot end.

Lemma colq_props o : colv_ok o ->
  notab (colq o) = true /\ colq o <> [] /\ starts_ok (colq o) = true /\
  unquote (colq o) = sid_back o /\ str_eqb (sid_back o) dot = match o with Some _ => false | None => true end.
Proof.
  destruct o as [s|]; cbn [colq colv_ok sid_back].
  - intros [N D]. repeat split.
    + apply qchars_notab, quote_chars. + apply quote_nonempty; exact N.
    + apply starts_ok_all, qchars_nws, quote_chars. + apply unquote_quote. + exact D.
  - intros _. repeat split. discriminate.
Qed.

Section Line.
  Variables (sid src ty : option str) (l : loc) (d m : adict) (sc : option str) (ph : option Z).
  Hypothesis Hsid : colv_ok sid.
  Hypothesis Hsrc : colv_ok src.
  Hypothesis Hty : match ty with Some t => forallb type_char_ok t = true /\ t <> [] /\ str_eqb t dot = false | None => True end.
  Hypothesis Hloc : lstart l < lstop l /\ strand_ok (lstrand l) = true.
  Hypothesis Hd : plain_entries d = true /\ keys_unique d = true /\ forallb (fun k => negb (in_keys k d)) col_keys = true.
  Hypothesis Hsc : aget k_score m = option_map AF sc /\
                   match sc with Some t => forallb plainc t = true /\ float_ok t = true /\ str_eqb t dot = false | None => True end.
  Hypothesis Hph : aget k_phase m = option_map AI ph.

  Definition line_text (a : str) : str :=
    line9 (colq sid) (colq src) (sid_back ty) (dec_of_Z (lstart l + 1)) (dec_of_Z (lstop l))
          (sid_back sc) [lstrand l] (match ph with Some p => dec_of_Z p | None => dot end) a.

  Theorem line_roundtrip :
    exists a, attrstr d = Some a /\
      write_line (colq sid) (colq src) (sid_back ty) l d m = Some (line_text a ++ nl) /\
      parse_line (line_text a) = Some (mkLine ty (sid_back sid) (mkLoc (lstart l) (lstop l) (lstrand l) None)
                                             (attrs_back d sid src sc ph)).
  Proof.
    destruct Hloc as [Ll Sl], Hd as [Pd [Ud Kd]], Hsc as [Gs Cs].
    destruct (attrs_roundtrip d Pd Ud) as [a [Ha Hp]].
    destruct (attrstr_props d a Pd Ha) as [Na [Ta Wa]].
    destruct (colq_props sid Hsid) as [T1 [N1 [S1 [U1 D1]]]].
    destruct (colq_props src Hsrc) as [T2 [_ [_ [U2 D2]]]].
    set (cs := sid_back sc). set (cp := match ph with Some p => dec_of_Z p | None => dot end).
    exists a. split; [exact Ha|]. split.
    - unfold write_line, col_or_dot, line_text. rewrite Gs, Hph, Ha.
      destruct sc, ph; cbn [option_map py_str sid_back]; unfold line9, T; rewrite <- ?app_assoc; reflexivity.
    - assert (forallb plainc cs = true) as Pcs by (unfold cs; destruct sc; [tauto|reflexivity]).
      assert (forallb plainc cp = true) as Pcp by (unfold cp; destruct ph; [apply dec_plain|reflexivity]).
      assert (forallb plainc (sid_back ty) = true) as Pty
        by (destruct ty; [apply (forallb_impl type_char_ok); [apply typec_plainc|tauto]|reflexivity]).
      assert (forallb plainc [lstrand l] = true) as Pst by (cbn; rewrite (strand_plainc _ Sl); reflexivity).
      pose proof (dec_plain (lstart l + 1)) as P4. pose proof (dec_plain (lstop l)) as P5.
      destruct (plainc_no _ Pcs) as [Q6 [T6 _]]. destruct (plainc_no _ Pcp) as [Q8 [T8 _]].
      destruct (plainc_no _ Pty) as [Q3 [T3 _]]. destruct (plainc_no _ Pst) as [Q7 [T7 _]].
      destruct (plainc_no _ P4) as [Q4 [T4 _]]. destruct (plainc_no _ P5) as [Q5 [T5 _]].
      unfold parse_line, line_text. fold cs. fold cp.
      rewrite split_line9; unfold notab; rewrite ?T3, ?T4, ?T5, ?T6, ?T7, ?T8; try reflexivity;
        try exact T1; try exact T2; try exact N1; try exact S1; try exact Ta; try exact Na; try exact Wa.
      cbv beta iota zeta.
      rewrite U1, U2, (unquote_nopct _ Q3), (unquote_nopct _ Q4), (unquote_nopct _ Q5), (unquote_nopct cs Q6),
        (unquote_nopct _ Q7), (unquote_nopct cp Q8).
      rewrite !py_int_dec. replace (lstart l + 1 - 1) with (lstart l) by lia.
      apply Z.ltb_lt in Ll. rewrite Ll, Sl. cbn [andb]. rewrite Hp, D1, D2.
      cbn [forallb col_keys] in Kd. rewrite !andb_true_iff, !negb_true_iff in Kd. destruct Kd as [K1 [K2 [K3 [K4 [K5 _]]]]].
      assert (str_eqb (sid_back ty) dot = match ty with Some _ => false | None => true end) as D3
        by (destruct ty; [tauto|reflexivity]).
      rewrite D3. unfold attrs_back, cs, cp.
      assert (forall p, str_eqb (dec_of_Z p) dot = false) as Dp.
      { intros p. destruct (str_eqb (dec_of_Z p) dot) eqn:E; [|reflexivity]. apply str_eqb_eq in E.
        pose proof (py_int_dec p) as Q. rewrite E in Q. discriminate Q. }
      destruct sid as [s1|], src as [s2|], ty as [t3|]; cbn [sid_back option_map opt_entry app];
        (destruct sc as [t|]; [destruct Cs as [_ [Fs Dsc]]; cbn [sid_back]; rewrite Dsc, Fs; cbn [negb andb]
                              |cbn [sid_back]; change (str_eqb dot dot) with true; cbn [negb andb]]);
        (destruct ph as [p|]; [rewrite Dp, py_int_dec|change (str_eqb dot dot) with true]);
        cbn [option_map opt_entry app];
        rewrite ?(aset_notin k_seqid) by exact K1;
        rewrite ?(aset_notin k_source) by (rewrite ?in_keys_app, K2; reflexivity);
        rewrite ?(aset_notin k_score) by (rewrite ?in_keys_app, K3; reflexivity);
        rewrite ?(aset_notin k_phase) by (rewrite ?in_keys_app, K4; reflexivity);
        rewrite <- ?app_assoc; rewrite ?app_nil_r; reflexivity.
  Qed.
End Line.
