(* C01 proofs, part 1: character facts, FASTA write -> read, append, re-wrapping, header line. *)
From Coq Require Import List ZArith NArith Bool Lia.
From Coq.Strings Require Import Byte.
Import ListNotations.
From SV Require Import Text C01_Lines G_codes G_c01_io C01_Model.

(* the hand-written matcher is for exactly this pattern text *)
Lemma idpattern_pinned : FASTA_IDPATTERN_CANON = IDPATTERN_PINNED.
Proof. reflexivity. Qed.

(* ---------------------------------------------------------------- characters *)
Lemma residue_facts c : is_residue c = true ->
  is_ws c = false /\ byte_eqb c GT = false /\ byte_eqb c SEMI = false /\ byte_eqb c nl = false /\ byte_eqb c cr = false
  /\ byte_eqb c HASH = false.
Proof. destruct c; vm_compute; intros H; try discriminate; repeat split. Qed.
Lemma graph_facts c : is_graph c = true ->
  is_ws c = false /\ byte_eqb c nl = false /\ byte_eqb c cr = false.
Proof. destruct c; vm_compute; intros H; try discriminate; repeat split. Qed.
Lemma print_facts c : is_print_or_tab c = true -> byte_eqb c nl = false /\ byte_eqb c cr = false.
Proof. destruct c; vm_compute; intros H; try discriminate; repeat split. Qed.
Lemma chs_not_ws c : chs c = true -> is_ws c = false.
Proof. destruct c; vm_compute; intros H; try discriminate; reflexivity. Qed.
Lemma ws_not_chs c : is_ws c = true -> chs c = false.
Proof. destruct c; vm_compute; intros H; try discriminate; reflexivity. Qed.
Lemma SP_ws : is_ws SP = true. Proof. reflexivity. Qed.

Lemma forallb_imp {A} (p q : A -> bool) l : (forall x, p x = true -> q x = true) -> forallb p l = true -> forallb q l = true.
Proof.
  intros H. induction l as [|x l IH]; [reflexivity|]. cbn. intros E. apply andb_prop in E. destruct E as [E1 E2].
  rewrite (H _ E1). cbn. apply IH. exact E2.
Qed.

Lemma residues_non_ws d : residues_ok d = true -> all_non_ws d = true.
Proof. apply forallb_imp. intros x H. unfold non_ws. destruct (residue_facts x H) as [E _]. rewrite E. reflexivity. Qed.
Lemma residues_no c d : (c = nl \/ c = cr) -> residues_ok d = true -> no_byte c d = true.
Proof.
  intros Hc. apply forallb_imp. intros x H. destruct (residue_facts x H) as (_ & _ & _ & E1 & E2 & _).
  destruct Hc; subst; [rewrite E1|rewrite E2]; reflexivity.
Qed.
Lemma graph_non_ws d : forallb is_graph d = true -> all_non_ws d = true.
Proof. apply forallb_imp. intros x H. unfold non_ws. destruct (graph_facts x H) as [E _]. rewrite E. reflexivity. Qed.
Lemma graph_no c d : (c = nl \/ c = cr) -> forallb is_graph d = true -> no_byte c d = true.
Proof.
  intros Hc. apply forallb_imp. intros x H. destruct (graph_facts x H) as (_ & E1 & E2).
  destruct Hc; subst; [rewrite E1|rewrite E2]; reflexivity.
Qed.
Lemma print_no c d : (c = nl \/ c = cr) -> forallb is_print_or_tab d = true -> no_byte c d = true.
Proof.
  intros Hc. apply forallb_imp. intros x H. destruct (print_facts x H) as (E1 & E2).
  destruct Hc; subst; [rewrite E1|rewrite E2]; reflexivity.
Qed.

(* predicates on all characters survive the trimming functions *)
Lemma forallb_lstrip p s : forallb p s = true -> forallb p (lstrip s) = true.
Proof.
  induction s as [|c s IH]; [reflexivity|]. cbn [lstrip]. destruct (is_ws c); [|tauto].
  cbn. intros H. apply andb_prop in H. apply IH. tauto.
Qed.
Lemma forallb_rstrip p s : forallb p s = true -> forallb p (rstrip s) = true.
Proof.
  induction s as [|c s IH]; [reflexivity|]. cbn [rstrip forallb]. intros H. apply andb_prop in H. destruct H as [Hc Hs].
  specialize (IH Hs). destruct (rstrip s).
  - destruct (is_ws c); [reflexivity|]. cbn. rewrite Hc. reflexivity.
  - cbn [forallb]. rewrite Hc. exact IH.
Qed.
Lemma forallb_removeprefix p q s : forallb p s = true -> forallb p (removeprefix q s) = true.
Proof.
  unfold removeprefix. destruct (strip_prefix q s) as [r|] eqn:E; [|tauto].
  apply strip_prefix_some in E. subst. rewrite forallb_app. intros H. apply andb_prop in H. tauto.
Qed.

(* ---------------------------------------------------------------- rstrip / strip of composed lines *)
Lemma rstrip_app_nonblank a b : rstrip b <> [] -> rstrip (a ++ b) = a ++ rstrip b.
Proof.
  intros H. induction a as [|x a IH]; [reflexivity|].
  cbn [app]. rewrite rstrip_cons_nonblank; [rewrite IH; reflexivity|].
  rewrite IH. destruct a; cbn; [exact H|discriminate].
Qed.
Lemma rstrip_non_ws_head c r : is_ws c = false -> exists r', rstrip (c :: r) = c :: r'.
Proof. intros H. cbn [rstrip]. destruct (rstrip r); [rewrite H|]; eauto. Qed.
Lemma rstrip_non_ws_head_ne c r : is_ws c = false -> rstrip (c :: r) <> [].
Proof. intros H. destruct (rstrip_non_ws_head c r H) as [r' E]. rewrite E. discriminate. Qed.

(* shape of the header suffix written by append_fasta *)
Definition suffix_of (id_ h : str) : str := rstrip (SP :: lstrip (removeprefix id_ h)).
Lemma suffix_shape id_ h :
  suffix_of id_ h = [] \/ exists c r, suffix_of id_ h = SP :: c :: r /\ is_ws c = false /\ rstrip (c :: r) = c :: r.
Proof.
  unfold suffix_of. destruct (lstrip (removeprefix id_ h)) as [|c x] eqn:E.
  - left. reflexivity.
  - right. pose proof (lstrip_head_non_ws _ _ _ E) as W.
    destruct (rstrip_non_ws_head c x W) as [r' Er].
    exists c, r'. rewrite rstrip_cons_nonblank by (rewrite Er; discriminate).
    rewrite Er. split; [reflexivity|]. split; [exact W|]. rewrite <- Er. apply rstrip_idem.
Qed.
(* writing the header that was read back reproduces the same suffix *)
Lemma suffix_idem id_ h : suffix_of id_ (id_ ++ suffix_of id_ h) = suffix_of id_ h.
Proof.
  destruct (suffix_shape id_ h) as [E|(c & r & E & W & R)].
  - rewrite E. rewrite app_nil_r. unfold suffix_of. rewrite <- (app_nil_r id_) at 2. rewrite removeprefix_app. reflexivity.
  - rewrite E. unfold suffix_of at 1. rewrite removeprefix_app.
    change (lstrip (SP :: c :: r)) with (lstrip (c :: r)). rewrite (lstrip_non_ws c r W).
    rewrite rstrip_cons_nonblank by (rewrite R; discriminate). rewrite R. reflexivity.
Qed.
Lemma suffix_head id_ h : suffix_of id_ h = [] \/ exists r, suffix_of id_ h = SP :: r.
Proof. destruct (suffix_shape id_ h) as [E|(c & r & E & _)]; [left; exact E|right; eauto]. Qed.
Lemma suffix_rstrip id_ h : rstrip (suffix_of id_ h) = suffix_of id_ h.
Proof. apply rstrip_idem. Qed.

Lemma header_suffix_eq id_ s : header_suffix id_ s = match b_header s with Some h => suffix_of id_ h | None => [] end.
Proof. reflexivity. Qed.
Lemma header_suffix_shape id_ s :
  header_suffix id_ s = [] \/ exists c r, header_suffix id_ s = SP :: c :: r /\ is_ws c = false /\ rstrip (c :: r) = c :: r.
Proof. rewrite header_suffix_eq. destruct (b_header s); [apply suffix_shape|left; reflexivity]. Qed.

(* id ++ suffix is a fixed point of strip, for a non-empty id without whitespace *)
Lemma strip_id_suffix i suf : i <> [] -> all_non_ws i = true ->
  (suf = [] \/ exists c r, suf = SP :: c :: r /\ is_ws c = false /\ rstrip (c :: r) = c :: r) ->
  strip (i ++ suf) = i ++ suf.
Proof.
  intros Hne Hi Hs. destruct i as [|a i]; [contradiction|].
  assert (Wa : is_ws a = false).
  { cbn in Hi. apply andb_prop in Hi. destruct Hi as [Ha _]. unfold non_ws in Ha. apply negb_true_iff in Ha. exact Ha. }
  unfold strip. cbn [app]. rewrite (lstrip_non_ws a _ Wa).
  destruct Hs as [E|(c & r & E & W & R)].
  - subst. rewrite app_nil_r. apply (rstrip_all_non_ws (a :: i) Hi).
  - subst. replace (a :: i ++ SP :: c :: r) with ((a :: i ++ [SP]) ++ c :: r) by (cbn [app]; rewrite <- app_assoc; reflexivity).
    rewrite rstrip_app_nonblank by (rewrite R; discriminate). rewrite R. reflexivity.
Qed.

(* ---------------------------------------------------------------- the id extractor only looks at the whitespace-free prefix *)
Lemma match_idpattern_prefix i suf : forallb chs i = true -> (suf = [] \/ exists r, suf = SP :: r) ->
  match_idpattern (i ++ suf) = match_idpattern i.
Proof.
  intros Hi Hs. unfold match_idpattern.
  assert (Hn : forallb non_ws i = true).
  { revert Hi. apply forallb_imp. intros x H. unfold non_ws. rewrite (chs_not_ws x H). reflexivity. }
  assert (E1 : takewhile non_ws (i ++ suf) = i /\ chs_run (i ++ suf) = i).
  { destruct Hs as [E|[r E]]; subst.
    - rewrite app_nil_r. unfold chs_run. rewrite !takewhile_all; auto.
    - unfold chs_run. rewrite !takewhile_app_stop; auto. }
  destruct E1 as [E1 E2]. rewrite E1, E2.
  unfold chs_run. rewrite !takewhile_all by assumption. reflexivity.
Qed.
Lemma id_from_header_prefix i suf : i <> [] -> forallb chs i = true -> (suf = [] \/ exists r, suf = SP :: r) ->
  id_from_header (i ++ suf) = id_from_header i.
Proof.
  intros Hne Hi Hs. unfold id_from_header. rewrite (match_idpattern_prefix i suf Hi Hs).
  destruct i; [contradiction|]. reflexivity.
Qed.

(* ---------------------------------------------------------------- FASTA write -> read *)
Lemma id_fasta_ok_facts i : id_fasta_ok i = true ->
  i <> [] /\ forallb is_graph i = true /\ forallb chs i = true /\ head_is GT i = false /\ id_from_header i = Some i.
Proof.
  unfold id_fasta_ok, id_plain. intros H.
  apply andb_prop in H. destruct H as [H H4]. apply andb_prop in H. destruct H as [H H3].
  apply andb_prop in H. destruct H as [H1 H2].
  destruct i as [|a i]; [discriminate|].
  split; [discriminate|]. split; [exact H1|]. split; [exact H2|]. split; [apply negb_true_iff; exact H3|].
  destruct (id_from_header (a :: i)) as [j|]; [|discriminate]. apply str_eqb_eq in H4. congruence.
Qed.

Lemma wfb_common_facts s : wfb_common s = true ->
  residues_ok (b_data s) = true /\ upper (b_data s) = b_data s /\ b_nt s = infer_nt (b_data s).
Proof.
  unfold wfb_common. intros H. apply andb_prop in H. destruct H as [H H3]. apply andb_prop in H. destruct H as [H1 H2].
  split; [exact H1|]. split; [apply str_eqb_eq; exact H2|]. apply eqb_prop. exact H3.
Qed.

Lemma head_is_residues c d : residues_ok d = true -> (c = GT \/ c = SEMI) -> head_is c d = false.
Proof.
  destruct d as [|x d]; [reflexivity|]. cbn [residues_ok forallb head_is]. intros H Hc. apply andb_prop in H. destruct H as [H _].
  destruct (residue_facts x H) as (_ & E1 & E2 & _). destruct Hc; subst; assumption.
Qed.

(* header line of a sequence in the domain *)
Lemma lstrip_ch_no_head c s : head_is c s = false -> lstrip_ch c s = s.
Proof. destruct s as [|x s]; [reflexivity|]. cbn. intros H. rewrite H. reflexivity. Qed.
Lemma head_is_app c a b : a <> [] -> head_is c (a ++ b) = head_is c a.
Proof. destruct a; [contradiction|reflexivity]. Qed.

Lemma one_record st s rest : wfb_fasta s = true ->
  iter_fasta st (append_fasta_lines s ++ rest) =
  bind (iter_fasta (Some (b_id s, id_or_empty s ++ header_suffix (id_or_empty s) s, b_data s)) rest)
       (fun r => Ok (flush st ++ r)).
Proof.
  intros H. unfold wfb_fasta in H. apply andb_prop in H. destruct H as [H Hh]. apply andb_prop in H. destruct H as [Hi Hc].
  destruct (b_id s) as [i|] eqn:Ei; [|discriminate].
  destruct (id_fasta_ok_facts i Hi) as (Hne & Hg & Hchs & Hgt & Hid).
  destruct (wfb_common_facts s Hc) as (Hres & _ & _).
  unfold append_fasta_lines, fasta_header_line, id_or_empty. rewrite Ei.
  cbn [app iter_fasta head_is]. rewrite byte_eqb_refl.
  cbn [lstrip_ch]. rewrite byte_eqb_refl.
  assert (Hhd : head_is GT (i ++ header_suffix i s) = false) by (rewrite head_is_app by exact Hne; exact Hgt).
  destruct (i ++ header_suffix i s) as [|x0 y0] eqn:Eline; [destruct i; [contradiction|discriminate]|].
  cbn [head_is] in Hhd. rewrite (byte_eqb_sym x0 GT) in Hhd. cbn [lstrip_ch]. rewrite byte_eqb_sym, Hhd. rewrite <- Eline.
  rewrite (strip_id_suffix i _ Hne (graph_non_ws i Hg) (header_suffix_shape i s)).
  assert (Hsuf : header_suffix i s = [] \/ exists r, header_suffix i s = SP :: r).
  { destruct (header_suffix_shape i s) as [E|(c & r & E & _)]; [left; exact E|right; eauto]. }
  rewrite (id_from_header_prefix i _ Hne Hchs Hsuf). rewrite Hid.
  rewrite (head_is_residues GT _ Hres (or_introl eq_refl)). rewrite (head_is_residues SEMI _ Hres (or_intror eq_refl)).
  cbn [app]. rewrite (strip_all_non_ws _ (residues_non_ws _ Hres)). reflexivity.
Qed.

Lemma create_norm s : wfb_common s = true ->
  create_bioseq (b_id s, id_or_empty s ++ header_suffix (id_or_empty s) s, b_data s) =
  mk_bseq (b_data s) (b_id s) (b_nt s) (Some (id_or_empty s ++ header_suffix (id_or_empty s) s)) None.
Proof.
  intros H. destruct (wfb_common_facts s H) as (_ & Hu & Hn).
  unfold create_bioseq, bioseq, set_header. cbn. rewrite Hu, Hn. reflexivity.
Qed.

Definition pre_norm (s : bseq) : bseq :=
  mk_bseq (b_data s) (b_id s) (b_nt s) (Some (id_or_empty s ++ header_suffix (id_or_empty s) s)) None.

Lemma wfb_fasta_common s : wfb_fasta s = true -> wfb_common s = true.
Proof. unfold wfb_fasta. intros H. apply andb_prop in H. destruct H as [H _]. apply andb_prop in H. tauto. Qed.

Lemma iter_fasta_written b : forall st, forallb wfb_fasta b = true ->
  iter_fasta st (write_fasta_lines b) = Ok (flush st ++ map pre_norm b).
Proof.
  induction b as [|s b IH]; intros st H.
  - cbn. rewrite app_nil_r. reflexivity.
  - cbn [forallb] in H. apply andb_prop in H. destruct H as [Hs Hb].
    unfold write_fasta_lines. cbn [map concat]. fold (write_fasta_lines b).
    rewrite (one_record st s _ Hs). rewrite (IH _ Hb). cbn [bind flush].
    rewrite (create_norm s (wfb_fasta_common s Hs)). reflexivity.
Qed.

(* the written lines contain no line terminators *)
Lemma fasta_lines_clean b c : (c = nl \/ c = cr) -> forallb wfb_fasta b = true ->
  forallb (no_byte c) (write_fasta_lines b) = true.
Proof.
  intros Hc. induction b as [|s b IH]; intros H; [reflexivity|].
  cbn [forallb] in H. apply andb_prop in H. destruct H as [Hs Hb].
  unfold write_fasta_lines. cbn [map concat]. fold (write_fasta_lines b).
  unfold append_fasta_lines. cbn [app forallb]. rewrite (IH Hb), andb_true_r.
  pose proof (wfb_fasta_common s Hs) as Hcm. destruct (wfb_common_facts s Hcm) as (Hres & _ & _).
  rewrite (residues_no c _ Hc Hres), andb_true_r.
  unfold wfb_fasta in Hs. apply andb_prop in Hs. destruct Hs as [Hs Hh]. apply andb_prop in Hs. destruct Hs as [Hi _].
  destruct (b_id s) as [i|] eqn:Ei; [|discriminate].
  destruct (id_fasta_ok_facts i Hi) as (_ & Hg & _).
  unfold fasta_header_line, id_or_empty. rewrite Ei.
  cbn [no_byte forallb]. fold (no_byte c (i ++ header_suffix i s)). rewrite no_byte_app.
  rewrite (graph_no c i Hc Hg). cbn [andb].
  assert (Hgt : negb (byte_eqb GT c) = true) by (destruct Hc; subst; reflexivity). rewrite Hgt. cbn [andb].
  rewrite header_suffix_eq. destruct (b_header s) as [h|]; [|reflexivity].
  unfold suffix_of, no_byte. apply forallb_rstrip. cbn [forallb].
  assert (Hsp : negb (byte_eqb SP c) = true) by (destruct Hc; subst; reflexivity). rewrite Hsp. cbn [andb].
  apply forallb_lstrip. apply forallb_removeprefix. apply (print_no c h Hc). exact Hh.
Qed.

Lemma text_lines_unlines ls : forallb (no_byte nl) ls = true -> forallb (no_byte cr) ls = true ->
  text_lines (unlines ls) = ls.
Proof.
  intros H1 H2. unfold text_lines. rewrite univ_nl_id; [apply pylines_unlines; exact H1|].
  apply no_byte_unlines; [reflexivity|exact H2].
Qed.

Lemma concat_append_fasta b : concat (map append_fasta b) = unlines (write_fasta_lines b).
Proof.
  induction b as [|s b IH]; [reflexivity|]. unfold write_fasta_lines. cbn [map concat]. fold (write_fasta_lines b).
  rewrite unlines_app. rewrite IH. reflexivity.
Qed.

Lemma write_w_fasta b : write_w Fasta b = Ok (CText (unlines (write_fasta_lines b))).
Proof. unfold write_w, write_file, write_dispatch. cbn. rewrite concat_append_fasta. reflexivity. Qed.

Lemma map_set_fmt_pre_norm f b : map (set_fmt f) (map pre_norm b) = map (norm_fasta f) b.
Proof. rewrite map_map. reflexivity. Qed.

Theorem fasta_roundtrip b : forallb wfb_fasta b = true ->
  exists t, write_w Fasta b = Ok t /\ read_content Fasta t = Ok (map (norm_fasta Fasta) b).
Proof.
  intros H. eexists. split; [apply write_w_fasta|].
  unfold read_content. rewrite text_lines_unlines by (apply fasta_lines_clean; auto).
  unfold read_fasta_lines. rewrite (iter_fasta_written b None H). cbn [flush app bind].
  rewrite map_set_fmt_pre_norm. reflexivity.
Qed.

Lemma norm_fasta_obs f b :
  length (map (norm_fasta f) b) = length b /\ map b_id (map (norm_fasta f) b) = map b_id b
  /\ map b_data (map (norm_fasta f) b) = map b_data b.
Proof. rewrite map_length, !map_map. repeat split. Qed.
