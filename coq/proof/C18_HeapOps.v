(* C18 proofs, heap model: the well-formedness / separation invariant composed through EVERY modelled operation
   (hop_step), and copy isolation over arbitrary lists of modelled operations. *)
From Coq Require Import List ZArith NArith Bool Lia.
From Coq.Strings Require Import Byte.
Import ListNotations.
From SV Require Import Text G_attr C18_Model C18_Heap C18_Lemmas C18_HeapLemmas.

(* A two-colouring of locations: [side l].  A value is fine for colour b if it is a scalar or an in-bounds reference
   to a cell of colour b.  The invariant says: every cell refers only to cells of its own colour, and register k
   refers to colour [R k].  With R = side = (fun _ => true) this is exactly "no dangling references". *)
Definition okv (side : nat -> bool) (n : nat) (b : bool) (v : hval) : Prop :=
  match v with HRef l => l < n /\ side l = b | _ => True end.
Definition cell_ok side n b (c : cell) : Prop := Forall (okv side n b) (cell_vals c).
Definition cells_inv side (h : heap) : Prop := forall l c, nth_error h l = Some c -> cell_ok side (length h) (side l) c.
Definition inv side (R : nat -> bool) (s : state) : Prop :=
  cells_inv side (fst s) /\ forall k, okv side (length (fst s)) (R k) (reg s k).
(* cells allocated from now on get the colour of the operating side (true) *)
Definition fresh_true (side : nat -> bool) (n : nat) : Prop := forall l, n <= l -> side l = true.

Lemma okv_mono side n m b v : n <= m -> okv side n b v -> okv side m b v.
Proof. destruct v; cbn; auto. intros L [H1 H2]. split; [lia|exact H2]. Qed.
Lemma cell_ok_mono side n m b c : n <= m -> cell_ok side n b c -> cell_ok side m b c.
Proof. intros L H. unfold cell_ok in *. eapply Forall_impl; [|exact H]. intros v. apply okv_mono. exact L. Qed.
Lemma fresh_true_mono side n m : n <= m -> fresh_true side n -> fresh_true side m.
Proof. intros L H l Hl. apply H. lia. Qed.

Lemma okv_new side n m v : fresh_true side n -> vref_ge n v -> vref_lt m v -> okv side m true v.
Proof. destruct v; cbn; auto. Qed.

(* allocation of cells that refer to fresh cells only *)
Lemma cells_inv_app_new side h ex : fresh_true side (length h) -> cells_inv side h ->
  cells_ge (length h) ex -> cells_lt (length (h ++ ex)) ex -> cells_inv side (h ++ ex).
Proof.
  intros F I G L l c E. destruct (Nat.lt_ge_cases l (length h)) as [Hl|Hl].
  - rewrite nth_error_app1 in E by exact Hl. eapply cell_ok_mono; [|apply (I l c E)]. rewrite app_length. lia.
  - rewrite nth_error_app2 in E by exact Hl. rewrite (F l Hl).
    apply nth_error_In in E. unfold cells_ge, cells_lt in *. rewrite Forall_forall in G, L.
    specialize (G c E). specialize (L c E). unfold cell_ok. rewrite Forall_forall in *.
    intros v Hv. eapply okv_new; eauto.
Qed.
(* allocation of one cell whose values are fine for colour true *)
Lemma cells_inv_app_one side h c : fresh_true side (length h) -> cells_inv side h ->
  cell_ok side (length h) true c -> cells_inv side (h ++ [c]).
Proof.
  intros F I C l c' E. destruct (Nat.lt_ge_cases l (length h)) as [Hl|Hl].
  - rewrite nth_error_app1 in E by exact Hl. eapply cell_ok_mono; [|apply (I l c' E)]. rewrite app_length. lia.
  - rewrite nth_error_app2 in E by exact Hl. rewrite (F l Hl).
    destruct (l - length h) as [|d] eqn:D; cbn in E; [|destruct d; discriminate].
    inversion E; subst. eapply cell_ok_mono; [|exact C]. rewrite app_length. lia.
Qed.
Lemma cells_inv_write side h l c : cells_inv side h -> cell_ok side (length h) (side l) c -> cells_inv side (hwrite h l c).
Proof.
  intros I C l' c' E. unfold hwrite in *. rewrite length_set_nth.
  destruct (Nat.eq_dec l l') as [->|N].
  - destruct (Nat.lt_ge_cases l' (length h)) as [Hl|Hl].
    + rewrite nth_error_set_nth_same in E by exact Hl. inversion E; subst. exact C.
    + assert (nth_error (set_nth h l' c) l' = None) as X by (apply nth_error_None; rewrite length_set_nth; exact Hl).
      congruence.
  - rewrite nth_error_set_nth_other in E by exact N. apply (I l' c' E).
Qed.

Lemma build_inv side t h h' v : fresh_true side (length h) -> cells_inv side h -> build t h = (h', v) ->
  (exists ex, h' = h ++ ex) /\ cells_inv side h' /\ okv side (length h') true v.
Proof.
  intros F I B. destruct (build_spec t _ _ _ B) as (ex & -> & G & L & C & D & _).
  split; [eexists; reflexivity|]. split; [apply cells_inv_app_new; auto|]. eapply okv_new; eauto.
Qed.

(* children of a cell of colour b *)
Lemma cell_child side h l c x b : cells_inv side h -> nth_error h l = Some c -> side l = b -> In x (cell_vals c) ->
  okv side (length h) b x.
Proof.
  intros I E S Hin. specialize (I l c E). rewrite S in I. unfold cell_ok in I. rewrite Forall_forall in I. auto.
Qed.
Lemma aget_in {A} k (m : list (str * A)) x : aget k m = Some x -> In x (map snd m).
Proof.
  induction m as [|[k' v'] r IH]; cbn; [discriminate|]. destruct (str_eqb k' k); intros E; [inversion E; auto|auto].
Qed.
Lemma nth_py_in {A} (l : list A) i x : nth_py l i = Some x -> In x l.
Proof.
  unfold nth_py. destruct (_ || _); [discriminate|]. apply nth_error_In.
Qed.
Lemma hstep_inv side h v e x b : cells_inv side h -> okv side (length h) b v -> hstep h v e = inl x -> okv side (length h) b x.
Proof.
  intros I O E. destruct v as [| | |s|l]; cbn in E; try discriminate; [destruct e; discriminate|].
  destruct O as [Hl S]. destruct (nth_error h l) as [[g kvs|vs]|] eqn:C; [| |destruct e; discriminate].
  - destruct e as [k|i]; [|discriminate]. destruct (aget k kvs) as [y|] eqn:A; [|discriminate]. inversion E; subst.
    eapply cell_child; eauto. cbn. eapply aget_in; eauto.
  - destruct e as [k|i]; [discriminate|]. destruct (nth_py vs i) as [y|] eqn:A; [|discriminate]. inversion E; subst.
    eapply cell_child; eauto. cbn. eapply nth_py_in; eauto.
Qed.
Lemma hnav_inv side h p : forall v x b, cells_inv side h -> okv side (length h) b v -> hnav h v p = inl x -> okv side (length h) b x.
Proof.
  induction p as [|e p IH]; intros v x b I O E; cbn in E; [inversion E; subst; exact O|].
  destruct (hstep h v e) as [y|] eqn:Hs; [|discriminate]. apply (IH y x b I); [eapply hstep_inv; eauto|exact E].
Qed.

Lemma okv_aset side n b k v (m : list (str * hval)) :
  Forall (okv side n b) (map snd m) -> okv side n b v -> Forall (okv side n b) (map snd (aset k v m)).
Proof.
  intros H O. induction m as [|[k' v'] r IH]; cbn; [constructor; auto|].
  cbn in H. inversion H; subst. destruct (str_eqb k' k); cbn; constructor; auto.
Qed.
Lemma okv_adel side n b k (m m' : list (str * hval)) :
  Forall (okv side n b) (map snd m) -> adel k m = Some m' -> Forall (okv side n b) (map snd m').
Proof.
  revert m'. induction m as [|[k' v'] r IH]; cbn; intros m' H E; [discriminate|].
  inversion H; subst. destruct (str_eqb k' k); [inversion E; subst; auto|].
  destruct (adel k r) as [r'|]; cbn in E; [|discriminate]. inversion E; subst. cbn. constructor; auto.
Qed.

(* Attr.__setitem__ conversion on the heap keeps the invariant; the result is fine for the operating colour *)
Lemma hconv_inv side n : forall h v h' v', fresh_true side (length h) -> cells_inv side h -> okv side (length h) true v ->
  hconv n h v = Some (h', v') -> (exists ex, h' = h ++ ex) /\ cells_inv side h' /\ okv side (length h') true v'.
Proof.
  induction n as [|n IH]; intros h v h' v' F I O E.
  - destruct v as [| | | |l]; cbn in E; try (inversion E; subst; split; [exists []; rewrite app_nil_r; reflexivity|auto]).
    destruct (nth_error h l) as [[[| |] kvs|vs]|]; try discriminate;
      inversion E; subst; split; try (exists []; rewrite app_nil_r; reflexivity); auto.
  - destruct v as [| | | |l]; cbn in E; try (inversion E; subst; split; [exists []; rewrite app_nil_r; reflexivity|auto]).
    destruct (nth_error h l) as [[g kvs|vs]|] eqn:C;
      try (inversion E; subst; split; [exists []; rewrite app_nil_r; reflexivity|auto]).
    destruct g; try (inversion E; subst; split; [exists []; rewrite app_nil_r; reflexivity|auto]).
    destruct O as [Hl Sl].
    assert (Forall (okv side (length h) true) (map snd kvs)) as K.
    { specialize (I l _ C). rewrite Sl in I. exact I. }
    clear C.
    (* the loop over the items *)
    assert (forall kvs h0 acc h1 acc1, fresh_true side (length h0) -> cells_inv side h0 ->
              Forall (okv side (length h0) true) (map snd kvs) -> Forall (okv side (length h0) true) (map snd acc) ->
              (fix go (kvs : list (str * hval)) (h : heap) (acc : list (str * hval)) : option (heap * list (str * hval)) :=
                 match kvs with
                 | [] => Some (h, acc)
                 | (k, x) :: r => match hconv n h x with Some (h1, x') => go r h1 (aset k x' acc) | None => None end
                 end) kvs h0 acc = Some (h1, acc1) ->
              (exists ex, h1 = h0 ++ ex) /\ cells_inv side h1 /\ Forall (okv side (length h1) true) (map snd acc1)) as LOOP.
    { clear - IH. induction kvs as [|[k x] r IHr]; intros h0 acc h1 acc1 F0 I0 K0 A0 G.
      - inversion G; subst. split; [exists []; rewrite app_nil_r; reflexivity|auto].
      - destruct (hconv n h0 x) as [[ha x']|] eqn:Hx; [|discriminate].
        cbn in K0. inversion K0 as [|? ? Kx Kr]; subst.
        destruct (IH _ _ _ _ F0 I0 Kx Hx) as ([ex1 ->] & I1 & O1).
        assert (length h0 <= length (h0 ++ ex1)) as LE by (rewrite app_length; lia).
        destruct (IHr (h0 ++ ex1) (aset k x' acc) h1 acc1) as ([ex2 ->] & I2 & A2); auto.
        + eapply fresh_true_mono; eauto.
        + eapply Forall_impl; [|exact Kr]. intros a. apply okv_mono. exact LE.
        + apply okv_aset; auto. eapply Forall_impl; [|exact A0]. intros a. apply okv_mono. exact LE.
        + split; [exists (ex1 ++ ex2); rewrite app_assoc; reflexivity|auto]. }
    match type of E with match ?G with _ => _ end = _ => destruct G as [[h1 acc]|] eqn:GG; [|discriminate] end.
    inversion E; subst. clear E.
    destruct (LOOP kvs h [] h1 acc F I K (Forall_nil _) GG) as ([ex ->] & I1 & A1).
    split; [exists (ex ++ [CMap TgAttr acc]); rewrite app_assoc; reflexivity|].
    assert (fresh_true side (length (h ++ ex))) as F1 by (eapply fresh_true_mono; [|exact F]; rewrite app_length; lia).
    split; [apply cells_inv_app_one; auto|].
    cbn. split; [rewrite !app_length; cbn; lia|apply F1; lia].
Qed.

Lemma hupdate_inv side n kvs : forall h acc h1 acc1, fresh_true side (length h) -> cells_inv side h ->
  Forall (okv side (length h) true) (map snd kvs) -> Forall (okv side (length h) true) (map snd acc) ->
  hupdate n h acc kvs = Some (h1, acc1) ->
  (exists ex, h1 = h ++ ex) /\ cells_inv side h1 /\ Forall (okv side (length h1) true) (map snd acc1).
Proof.
  induction kvs as [|[k x] r IHr]; intros h0 acc h1 acc1 F0 I0 K0 A0 G; cbn in G.
  - inversion G; subst. split; [exists []; rewrite app_nil_r; reflexivity|auto].
  - destruct (hconv n h0 x) as [[ha x']|] eqn:Hx; [|discriminate].
    cbn in K0. inversion K0 as [|? ? Kx Kr]; subst.
    destruct (hconv_inv side n _ _ _ _ F0 I0 Kx Hx) as ([ex1 ->] & I1 & O1).
    assert (length h0 <= length (h0 ++ ex1)) as LE by (rewrite app_length; lia).
    destruct (IHr (h0 ++ ex1) (aset k x' acc) h1 acc1) as ([ex2 ->] & I2 & A2); auto.
    + eapply fresh_true_mono; eauto.
    + eapply Forall_impl; [|exact Kr]. intros a. apply okv_mono. exact LE.
    + apply okv_aset; auto. eapply Forall_impl; [|exact A0]. intros a. apply okv_mono. exact LE.
    + split; [exists (ex1 ++ ex2); rewrite app_assoc; reflexivity|auto].
Qed.

(* registers *)
Lemma nth_set_nth {A} (l : list A) : forall i k x d, nth k (set_nth l i x) d = if Nat.eqb k i && Nat.ltb i (length l) then x else nth k l d.
Proof.
  induction l as [|y r IH]; intros i k x d; cbn.
  - destruct i, k; cbn; rewrite ?andb_false_r; reflexivity.
  - destruct i, k; cbn; auto. rewrite IH. reflexivity.
Qed.

Definition regs_in (R : nat -> bool) (o : hop) : bool :=
  match o with
  | HNew i _ | HSetLit i _ _ _ | HDel i _ _ | HAppendLit i _ _ => R i
  | HCopy i j | HWrap i j _ | HSetRef i _ _ j _ | HAppendRef i _ j _ | HIs i _ j _ => R i && R j
  end.

(* what one modelled operation by the R-side does *)
Record step_ok side (R : nat -> bool) (s s' : state) : Prop := {
  so_inv : inv side R s';
  so_len : length (fst s) <= length (fst s');
  so_old : forall l, l < length (fst s) -> side l = false -> nth_error (fst s') l = nth_error (fst s) l;
  so_regs : forall k, R k = false -> reg s' k = reg s k }.

Lemma inv_set_reg side R (h : heap) (regs : list hval) (h' : heap) i v : cells_inv side h' -> length h <= length h' ->
  (forall k, okv side (length h) (R k) (nth k regs HNull)) -> okv side (length h') (R i) v ->
  forall k, okv side (length h') (R k) (nth k (set_nth regs i v) HNull).
Proof.
  intros I L Rg O k. rewrite nth_set_nth. destruct (Nat.eqb k i && Nat.ltb i (length regs)) eqn:E.
  - apply andb_prop in E. destruct E as [E _]. apply Nat.eqb_eq in E. subst. exact O.
  - eapply okv_mono; [exact L|apply Rg].
Qed.
Lemma reg_set_other (s : state) i v h' k : k <> i -> reg (set_reg s i v h') k = reg s k.
Proof.
  intros N. unfold reg, set_reg. cbn. rewrite nth_set_nth. destruct (Nat.eqb k i) eqn:E; [apply Nat.eqb_eq in E; contradiction|reflexivity].
Qed.

Lemma app_old {A} (h ex : list A) l : l < length h -> nth_error (h ++ ex) l = nth_error h l.
Proof. intros H. apply nth_error_app1. exact H. Qed.

Lemma R_false_neq (R : nat -> bool) i k : R i = true -> R k = false -> k <> i.
Proof. intros A B E. subst. congruence. Qed.

Theorem hop_step_ok side R s o s' r : fresh_true side (length (fst s)) -> inv side R s -> regs_in R o = true ->
  hop_step o s = inl (s', r) -> step_ok side R s s'.
Proof.
  intros F [I Rg] RI E. destruct s as [h regs]. cbn [fst snd] in *.
  destruct o as [i d|i j|i j q|i p k t|i p k j q|i p k|i p t|i p j q|i p j q]; cbn [regs_in] in RI; cbn [hop_step fst snd] in E.
  - (* HNew *)
    destruct d as [| | | | |g kvs]; try discriminate. destruct g; try discriminate.
    destruct (build (attr_init TgMeta kvs) h) as [h' v] eqn:B. inversion E; subst. clear E.
    destruct (build_inv side _ _ _ _ F I B) as ([ex ->] & I' & O).
    assert (length h <= length (h ++ ex)) as LE by (rewrite app_length; lia).
    constructor; cbn [fst snd].
    + split; [exact I'|]. cbn [fst]. unfold reg. cbn [snd]. apply (inv_set_reg side R h); auto. rewrite RI. exact O.
    + exact LE.
    + intros l Hl _. apply app_old. exact Hl.
    + intros k0 Hk. apply reg_set_other. eapply R_false_neq; eauto.
  - (* HCopy *)
    apply andb_prop in RI. destruct RI as [Ri Rj].
    unfold reg in E. cbn [snd] in E. destruct (nth j regs HNull) as [| | | |l] eqn:Nj; try discriminate.
    destruct (tree_shaped _ _ _); [|discriminate].
    unfold deepcopy in E. destruct (snap _ h (HRef l)) as [t|]; [|discriminate].
    destruct (build t h) as [h' v] eqn:B. inversion E; subst. clear E.
    destruct (build_inv side _ _ _ _ F I B) as ([ex ->] & I' & O).
    assert (length h <= length (h ++ ex)) as LE by (rewrite app_length; lia).
    constructor; cbn [fst snd].
    + split; [exact I'|]. cbn [fst]. unfold reg. cbn [snd]. apply (inv_set_reg side R h); auto. rewrite Ri. exact O.
    + exact LE.
    + intros l0 Hl _. apply app_old. exact Hl.
    + intros k0 Hk. apply reg_set_other. eapply R_false_neq; eauto.
  - (* HWrap *)
    apply andb_prop in RI. destruct RI as [Ri Rj].
    unfold reg in E. cbn [snd] in E.
    destruct (hnav h (nth j regs HNull) q) as [x|] eqn:Nv; [|discriminate].
    assert (okv side (length h) true x) as Ox.
    { apply (hnav_inv side h q (nth j regs HNull) x true I); [|exact Nv]. specialize (Rg j). unfold reg in Rg. cbn in Rg. rewrite Rj in Rg. exact Rg. }
    destruct x as [| | | |l]; try discriminate. destruct Ox as [Hl Sl].
    destruct (nth_error h l) as [[g kvs|vs]|] eqn:C; try discriminate.
    destruct (hupdate _ h [] kvs) as [[h1 acc]|] eqn:U; [|discriminate]. inversion E; subst. clear E.
    assert (Forall (okv side (length h) true) (map snd kvs)) as K.
    { specialize (I l _ C). rewrite Sl in I. exact I. }
    destruct (hupdate_inv side _ kvs h [] h1 acc F I K (Forall_nil _) U) as ([ex ->] & I1 & A1).
    assert (fresh_true side (length (h ++ ex))) as F1 by (eapply fresh_true_mono; [|exact F]; rewrite app_length; lia).
    assert (length h <= length ((h ++ ex) ++ [CMap TgMeta acc])) as LE by (rewrite !app_length; lia).
    constructor; cbn [fst snd].
    + split; [apply cells_inv_app_one; auto|]. cbn [fst]. unfold reg. cbn [snd]. apply (inv_set_reg side R h); auto.
      * apply cells_inv_app_one; auto.
      * rewrite Ri. cbn. split; [rewrite !app_length; cbn; lia|apply F1; lia].
    + exact LE.
    + intros l0 Hl0 _. rewrite <- app_assoc. apply app_old. exact Hl0.
    + intros k0 Hk. apply reg_set_other. eapply R_false_neq; eauto.
  - (* HSetLit *)
    unfold reg in E. cbn [snd] in E.
    destruct (hnav h (nth i regs HNull) p) as [x|] eqn:Nv; [|discriminate].
    assert (okv side (length h) true x) as Ox.
    { apply (hnav_inv side h p (nth i regs HNull) x true I); [|exact Nv]. specialize (Rg i). unfold reg in Rg. cbn in Rg. rewrite RI in Rg. exact Rg. }
    destruct x as [| | | |l]; try discriminate. destruct Ox as [Hl Sl].
    destruct (nth_error h l) as [[g kvs|vs]|] eqn:C; try discriminate.
    destruct (build _ h) as [h1 v] eqn:B. inversion E; subst. clear E.
    destruct (build_inv side _ _ _ _ F I B) as ([ex ->] & I1 & O).
    assert (length h <= length (h ++ ex)) as LE by (rewrite app_length; lia).
    assert (Forall (okv side (length (h ++ ex)) true) (map snd kvs)) as K.
    { specialize (I l _ C). rewrite Sl in I. eapply Forall_impl; [|exact I]. intros a. apply okv_mono. exact LE. }
    constructor; cbn [fst snd].
    + split.
      * apply cells_inv_write; auto. rewrite Sl. unfold cell_ok. cbn. apply okv_aset; auto.
      * intros k0. cbn [fst]. unfold hwrite. rewrite length_set_nth. eapply okv_mono; [exact LE|apply Rg].
    + unfold hwrite. rewrite length_set_nth. exact LE.
    + intros l0 Hl0 S0. unfold hwrite. rewrite nth_error_set_nth_other by congruence. apply app_old. exact Hl0.
    + reflexivity.
  - (* HSetRef *)
    apply andb_prop in RI. destruct RI as [Ri Rj].
    unfold reg in E. cbn [snd] in E.
    destruct (hnav h (nth i regs HNull) p) as [x|] eqn:Nv; [|discriminate].
    assert (okv side (length h) true x) as Ox.
    { apply (hnav_inv side h p (nth i regs HNull) x true I); [|exact Nv]. specialize (Rg i). unfold reg in Rg. cbn in Rg. rewrite Ri in Rg. exact Rg. }
    destruct x as [| | | |l]; try (destruct (hnav h (nth j regs HNull) q); discriminate).
    destruct (hnav h (nth j regs HNull) q) as [v|] eqn:Nq; [|discriminate].
    assert (okv side (length h) true v) as Ov.
    { apply (hnav_inv side h q (nth j regs HNull) v true I); [|exact Nq]. specialize (Rg j). unfold reg in Rg. cbn in Rg. rewrite Rj in Rg. exact Rg. }
    destruct Ox as [Hl Sl].
    destruct (nth_error h l) as [[g kvs|vs]|] eqn:C; try discriminate.
    destruct (occurs h l v); [discriminate|].
    assert (Forall (okv side (length h) true) (map snd kvs)) as K.
    { specialize (I l _ C). rewrite Sl in I. exact I. }
    destruct (is_attr g).
    + destruct (hconv _ h v) as [[h1 v']|] eqn:Hc; [|discriminate]. inversion E; subst. clear E.
      destruct (hconv_inv side _ _ _ _ _ F I Ov Hc) as ([ex ->] & I1 & O1).
      assert (length h <= length (h ++ ex)) as LE by (rewrite app_length; lia).
      constructor; cbn [fst snd].
      * split.
        -- apply cells_inv_write; auto. rewrite Sl. unfold cell_ok. cbn. apply okv_aset; auto.
           eapply Forall_impl; [|exact K]. intros a. apply okv_mono. exact LE.
        -- intros k0. cbn [fst]. unfold hwrite. rewrite length_set_nth. eapply okv_mono; [exact LE|apply Rg].
      * unfold hwrite. rewrite length_set_nth. exact LE.
      * intros l0 Hl0 S0. unfold hwrite. rewrite nth_error_set_nth_other by congruence. apply app_old. exact Hl0.
      * reflexivity.
    + inversion E; subst. clear E. constructor; cbn [fst snd].
      * split.
        -- apply cells_inv_write; auto. rewrite Sl. unfold cell_ok. cbn. apply okv_aset; auto.
        -- intros k0. cbn [fst]. unfold hwrite. rewrite length_set_nth. apply Rg.
      * unfold hwrite. rewrite length_set_nth. lia.
      * intros l0 Hl0 S0. unfold hwrite. rewrite nth_error_set_nth_other by congruence. reflexivity.
      * reflexivity.
  - (* HDel *)
    unfold reg in E. cbn [snd] in E.
    destruct (hnav h (nth i regs HNull) p) as [x|] eqn:Nv; [|discriminate].
    assert (okv side (length h) true x) as Ox.
    { apply (hnav_inv side h p (nth i regs HNull) x true I); [|exact Nv]. specialize (Rg i). unfold reg in Rg. cbn in Rg. rewrite RI in Rg. exact Rg. }
    destruct x as [| | | |l]; try discriminate. destruct Ox as [Hl Sl].
    destruct (nth_error h l) as [[g kvs|vs]|] eqn:C; try discriminate.
    destruct (adel k kvs) as [kvs'|] eqn:D; [|discriminate]. inversion E; subst. clear E.
    assert (Forall (okv side (length h) true) (map snd kvs)) as K.
    { specialize (I l _ C). rewrite Sl in I. exact I. }
    constructor; cbn [fst snd].
    + split.
      * apply cells_inv_write; auto. rewrite Sl. unfold cell_ok. cbn. eapply okv_adel; eauto.
      * intros k0. cbn [fst]. unfold hwrite. rewrite length_set_nth. apply Rg.
    + unfold hwrite. rewrite length_set_nth. lia.
    + intros l0 Hl0 S0. unfold hwrite. rewrite nth_error_set_nth_other by congruence. reflexivity.
    + reflexivity.
  - (* HAppendLit *)
    unfold reg in E. cbn [snd] in E.
    destruct (hnav h (nth i regs HNull) p) as [x|] eqn:Nv; [|discriminate].
    assert (okv side (length h) true x) as Ox.
    { apply (hnav_inv side h p (nth i regs HNull) x true I); [|exact Nv]. specialize (Rg i). unfold reg in Rg. cbn in Rg. rewrite RI in Rg. exact Rg. }
    destruct x as [| | | |l]; try discriminate. destruct Ox as [Hl Sl].
    destruct (nth_error h l) as [[g kvs|vs]|] eqn:C; try discriminate.
    destruct (build t h) as [h1 v] eqn:B. inversion E; subst. clear E.
    destruct (build_inv side _ _ _ _ F I B) as ([ex ->] & I1 & O).
    assert (length h <= length (h ++ ex)) as LE by (rewrite app_length; lia).
    assert (Forall (okv side (length (h ++ ex)) true) vs) as K.
    { specialize (I l _ C). rewrite Sl in I. eapply Forall_impl; [|exact I]. intros a. apply okv_mono. exact LE. }
    constructor; cbn [fst snd].
    + split.
      * apply cells_inv_write; auto. rewrite Sl. unfold cell_ok. cbn. apply Forall_app. split; auto.
      * intros k0. cbn [fst]. unfold hwrite. rewrite length_set_nth. eapply okv_mono; [exact LE|apply Rg].
    + unfold hwrite. rewrite length_set_nth. exact LE.
    + intros l0 Hl0 S0. unfold hwrite. rewrite nth_error_set_nth_other by congruence. apply app_old. exact Hl0.
    + reflexivity.
  - (* HAppendRef *)
    apply andb_prop in RI. destruct RI as [Ri Rj].
    unfold reg in E. cbn [snd] in E.
    destruct (hnav h (nth i regs HNull) p) as [x|] eqn:Nv; [|discriminate].
    assert (okv side (length h) true x) as Ox.
    { apply (hnav_inv side h p (nth i regs HNull) x true I); [|exact Nv]. specialize (Rg i). unfold reg in Rg. cbn in Rg. rewrite Ri in Rg. exact Rg. }
    destruct x as [| | | |l]; try (destruct (hnav h (nth j regs HNull) q); discriminate).
    destruct (hnav h (nth j regs HNull) q) as [v|] eqn:Nq; [|discriminate].
    assert (okv side (length h) true v) as Ov.
    { apply (hnav_inv side h q (nth j regs HNull) v true I); [|exact Nq]. specialize (Rg j). unfold reg in Rg. cbn in Rg. rewrite Rj in Rg. exact Rg. }
    destruct Ox as [Hl Sl].
    destruct (nth_error h l) as [[g kvs|vs]|] eqn:C; try discriminate.
    destruct (occurs h l v); [discriminate|]. inversion E; subst. clear E.
    assert (Forall (okv side (length h) true) vs) as K.
    { specialize (I l _ C). rewrite Sl in I. exact I. }
    constructor; cbn [fst snd].
    + split.
      * apply cells_inv_write; auto. rewrite Sl. unfold cell_ok. cbn. apply Forall_app. split; auto.
      * intros k0. cbn [fst]. unfold hwrite. rewrite length_set_nth. apply Rg.
    + unfold hwrite. rewrite length_set_nth. lia.
    + intros l0 Hl0 S0. unfold hwrite. rewrite nth_error_set_nth_other by congruence. reflexivity.
    + reflexivity.
  - (* HIs *)
    unfold reg in E. cbn [snd] in E.
    destruct (hnav h (nth i regs HNull) p) as [[| | | |la]|]; destruct (hnav h (nth j regs HNull) q) as [[| | | |lb]|]; try discriminate.
    inversion E; subst. constructor; cbn [fst snd]; auto. split; auto.
Qed.

(* ---- running histories: a failing operation leaves the state unchanged (as run_hops does) ---- *)
Definition exec1 (o : hop) (s : state) : state := match hop_step o s with inl (s', _) => s' | inr _ => s end.
Definition exec (ops : list hop) (s : state) : state := fold_left (fun s o => exec1 o s) ops s.

Lemma exec_cons o r s : exec (o :: r) s = exec r (exec1 o s).
Proof. reflexivity. Qed.
Lemma run_hops_exec ops : forall s okd acc, snd (run_hops ops s okd acc) = exec ops s.
Proof.
  induction ops as [|o r IH]; intros s okd acc; [reflexivity|]. rewrite exec_cons. cbn [run_hops]. unfold exec1.
  destruct (hop_step o s) as [[s' v]|e]; [apply IH|]. destruct e; apply IH.
Qed.

(* everything reachable from register k is in bounds and has the colour of k *)
Lemma okv_reach side h v b l : cells_inv side h -> okv side (length h) b v -> Reach h v l -> l < length h /\ side l = b.
Proof.
  intros I O R. induction R as [l0|l0 c x l' E Hin R IH]; [exact O|].
  apply IH. destruct O as [Hl S]. eapply cell_child; eauto.
Qed.

(* one operation of the R-side changes nothing observable through a register of the other side *)
Lemma step_frame side R s s' k n : inv side R s -> step_ok side R s s' -> R k = false ->
  snap n (fst s') (reg s' k) = snap n (fst s) (reg s k).
Proof.
  intros [I Rg] SO Rk. rewrite (so_regs _ _ _ _ SO k Rk). apply snap_ext. intros l Rch.
  destruct (okv_reach side _ _ _ _ I (Rg k) Rch) as [Hl S]. rewrite Rk in S. apply (so_old _ _ _ _ SO); auto.
Qed.

Theorem exec_frame side R ops : forall s, fresh_true side (length (fst s)) -> inv side R s ->
  forallb (regs_in R) ops = true ->
  inv side R (exec ops s) /\ fresh_true side (length (fst (exec ops s))) /\
  forall k n, R k = false -> snap n (fst (exec ops s)) (reg (exec ops s) k) = snap n (fst s) (reg s k).
Proof.
  induction ops as [|o r IH]; intros s F I A; [cbn; auto|].
  cbn [forallb] in A. apply andb_prop in A. destruct A as [A1 A2]. rewrite exec_cons. unfold exec1.
  destruct (hop_step o s) as [[s' v]|e] eqn:E.
  - pose proof (hop_step_ok side R s o s' v F I A1 E) as SO.
    assert (fresh_true side (length (fst s'))) as F' by (eapply fresh_true_mono; [apply (so_len _ _ _ _ SO)|exact F]).
    destruct (IH s' F' (so_inv _ _ _ _ SO) A2) as (I2 & F2 & Fr).
    split; [exact I2|]. split; [exact F2|]. intros k n Rk. rewrite Fr by exact Rk. eapply step_frame; eauto.
  - apply IH; auto.
Qed.

(* ---- (a) no dangling references, composed through every modelled operation from the empty heap ---- *)
Definition all_true : nat -> bool := fun _ => true.
Lemma regs_in_all o : regs_in all_true o = true.
Proof. destruct o; reflexivity. Qed.
Lemma inv_init : inv all_true all_true init_state.
Proof.
  split.
  - intros l c E. destruct l; discriminate.
  - intros k. unfold reg, init_state, nregs. cbn. do 5 (destruct k as [|k]; cbn; auto).
Qed.
Lemma inv_all_heap_ok s : inv all_true all_true s -> heap_ok (fst s) /\ forall k, vref_lt (length (fst s)) (reg s k).
Proof.
  intros [I Rg]. split.
  - unfold heap_ok. apply Forall_forall. intros c Hin. apply In_nth_error in Hin. destruct Hin as [l E].
    specialize (I l c E). unfold cell_ok in I. eapply Forall_impl; [|exact I]. intros v O. destruct v; cbn in *; auto. tauto.
  - intros k. specialize (Rg k). destruct (reg s k); cbn in *; auto. tauto.
Qed.
Theorem reachable_ok ops : let s := exec ops init_state in
  inv all_true all_true s /\ heap_ok (fst s) /\ forall k, vref_lt (length (fst s)) (reg s k).
Proof.
  cbn zeta. destruct (exec_frame all_true all_true ops init_state) as (I & _ & _).
  - intros l _. reflexivity.
  - exact inv_init.
  - apply forallb_forall. intros o _. apply regs_in_all.
  - split; [exact I|apply inv_all_heap_ok; exact I].
Qed.

(* ---- (b) copy isolation over arbitrary histories of modelled operations ---- *)
Definition only (i : nat) : nat -> bool := fun k => Nat.eqb k i.
Definition except (i : nat) : nat -> bool := fun k => negb (Nat.eqb k i).

Lemma hop_step_regs_len o s s' r : hop_step o s = inl (s', r) -> length (snd s') = length (snd s).
Proof.
  destruct s as [h regs]. destruct o; cbn [hop_step fst snd]; unfold set_reg; cbn [fst snd]; intros E;
    repeat match type of E with
           | context [match ?x with _ => _ end] => destruct x; try discriminate
           | context [if ?x then _ else _] => destruct x; try discriminate
           end;
    inversion E; subst; cbn; rewrite ?length_set_nth; reflexivity.
Qed.
Lemma exec_regs_len ops : forall s, length (snd (exec ops s)) = length (snd s).
Proof.
  induction ops as [|o r IH]; intros s; [reflexivity|]. rewrite exec_cons, IH. unfold exec1.
  destruct (hop_step o s) as [[s' v]|e] eqn:E; [|reflexivity]. eapply hop_step_regs_len; eauto.
Qed.

Definition side_copy (n : nat) : nat -> bool := fun l => Nat.leb n l.
Definition side_rest (n n' : nat) : nat -> bool := fun l => Nat.ltb l n || Nat.leb n' l.

Theorem copy_isolation_ops pre i j s1 r : i < nregs ->
  hop_step (HCopy i j) (exec pre init_state) = inl (s1, r) ->
  let s0 := exec pre init_state in
  (* the copy has the snapshot of the original, which is untouched *)
  (exists t m, snap (fuel_of (fst s0)) (fst s0) (reg s0 j) = Some t /\ snap m (fst s1) (reg s1 i) = Some t /\
               (i <> j -> snap (fuel_of (fst s0)) (fst s1) (reg s1 j) = Some t)) /\
  (* any history that works on the copy only leaves every other variable unchanged *)
  (forall ops, forallb (regs_in (only i)) ops = true -> forall k n, k <> i ->
     snap n (fst (exec ops s1)) (reg (exec ops s1) k) = snap n (fst s1) (reg s1 k)) /\
  (* and any history that does not mention the copy leaves the copy unchanged *)
  (forall ops, forallb (regs_in (except i)) ops = true -> forall n,
     snap n (fst (exec ops s1)) (reg (exec ops s1) i) = snap n (fst s1) (reg s1 i)).
Proof.
  intros Li E. cbn zeta.
  destruct (reachable_ok pre) as (I0 & OK0 & Rg0).
  pose proof (exec_regs_len pre init_state) as RL. cbn [snd init_state] in RL. rewrite repeat_length in RL.
  destruct (exec pre init_state) as [h regs] eqn:S0. cbn [fst snd] in *. cbn [hop_step fst snd] in E.
  unfold reg in E. cbn [snd] in E. destruct (nth j regs HNull) as [| | | |l] eqn:Nj; try discriminate.
  destruct (tree_shaped _ _ _); [|discriminate].
  destruct (deepcopy (fuel_of h) h (HRef l)) as [[h' y]|] eqn:D; [|discriminate]. inversion E; subst s1 r. clear E.
  assert (vref_lt (length h) (HRef l)) as Ll by (specialize (Rg0 j); unfold reg in Rg0; cbn in Rg0; rewrite Nj in Rg0; exact Rg0).
  destruct (deepcopy_disjoint _ _ _ _ _ OK0 Ll D) as (t & ex & -> & Sx & Sx' & Sy & _ & _).
  unfold deepcopy in D. rewrite Sx in D. inversion D as [B]. clear D.
  destruct (build_spec t _ _ _ B) as (ex' & EQ & G & L & C & Dl & _).
  apply app_inv_head in EQ. subst ex'.
  set (s1 := set_reg (h, regs) i y (h ++ ex)).
  assert (reg s1 i = y) as Ri.
  { assert (Nat.ltb i (length regs) = true) as X by (apply Nat.ltb_lt; rewrite RL; exact Li).
    unfold s1, reg, set_reg. cbn [snd]. rewrite nth_set_nth, Nat.eqb_refl, X. reflexivity. }
  assert (forall k, k <> i -> reg s1 k = nth k regs HNull) as Rk by (intros k N; apply (reg_set_other (h, regs)); exact N).
  assert (forall k, vref_lt (length h) (nth k regs HNull)) as RgL by (intros k; apply (Rg0 k)).
  assert (length h <= length (h ++ ex)) as LE by (rewrite app_length; lia).
  assert (forall l0 c, nth_error (h ++ ex) l0 = Some c -> l0 < length h -> Forall (vref_lt (length h)) (cell_vals c)) as OLD.
  { intros l0 c E Hl. rewrite nth_error_app1 in E by exact Hl. unfold heap_ok in OK0. rewrite Forall_forall in OK0.
    apply OK0. eapply nth_error_In; eauto. }
  assert (forall l0 c, nth_error (h ++ ex) l0 = Some c -> length h <= l0 ->
            Forall (fun v => vref_ge (length h) v /\ vref_lt (length (h ++ ex)) v) (cell_vals c)) as NEW.
  { intros l0 c E Hl. rewrite nth_error_app2 in E by exact Hl. apply nth_error_In in E.
    unfold cells_ge, cells_lt in *. rewrite Forall_forall in C, Dl. specialize (C c E). specialize (Dl c E).
    rewrite Forall_forall in *. intros v Hv. split; auto. }
  split; [|split].
  - destruct Sy as [m Sy]. exists t, m. split; [unfold reg; cbn [snd]; rewrite Nj; exact Sx|]. split; [rewrite Ri; exact Sy|].
    intros N. rewrite Rk by auto. rewrite Nj. exact Sx'.
  - (* colouring 1: the cells of the copy are the operating side *)
    intros ops A k n N.
    assert (inv (side_copy (length h)) (only i) s1) as I1.
    { split.
      - intros l0 c E. cbn [fst s1 set_reg] in *. unfold side_copy at 2.
        destruct (Nat.leb (length h) l0) eqn:Q.
        + apply Nat.leb_le in Q. specialize (NEW l0 c E Q). unfold cell_ok. eapply Forall_impl; [|exact NEW].
          intros v [Hg Hl]. destruct v; cbn in *; auto. split; [exact Hl|]. unfold side_copy. apply Nat.leb_le. exact Hg.
        + apply Nat.leb_gt in Q. specialize (OLD l0 c E Q). unfold cell_ok. eapply Forall_impl; [|exact OLD].
          intros v Hl. destruct v; cbn in *; auto. split; [lia|]. unfold side_copy. apply Nat.leb_gt. exact Hl.
      - intros k0. cbn [fst s1 set_reg]. unfold only. destruct (Nat.eqb k0 i) eqn:Q.
        + apply Nat.eqb_eq in Q. subst k0. rewrite Ri. destruct y; cbn in *; auto. split; [exact L|]. unfold side_copy. apply Nat.leb_le. exact G.
        + apply Nat.eqb_neq in Q. rewrite Rk by exact Q. specialize (RgL k0). destruct (nth k0 regs HNull); cbn in *; auto.
          split; [lia|]. unfold side_copy. apply Nat.leb_gt. exact RgL. }
    assert (fresh_true (side_copy (length h)) (length (fst s1))) as F1.
    { intros l0 Hl0. unfold side_copy. apply Nat.leb_le. cbn [fst s1 set_reg] in Hl0. lia. }
    destruct (exec_frame _ _ ops s1 F1 I1 A) as (_ & _ & Fr). apply Fr. unfold only. apply Nat.eqb_neq. exact N.
  - (* colouring 2: everything except the cells of the copy is the operating side *)
    intros ops A n.
    assert (inv (side_rest (length h) (length (h ++ ex))) (except i) s1) as I2.
    { split.
      - intros l0 c E. cbn [fst s1 set_reg] in *. unfold side_rest at 2.
        destruct (Nat.leb (length h) l0) eqn:Q.
        + apply Nat.leb_le in Q. assert (l0 < length (h ++ ex)) as Hb by (apply nth_error_Some; congruence).
          replace (Nat.ltb l0 (length h) || Nat.leb (length (h ++ ex)) l0) with false
            by (symmetry; apply orb_false_intro; [apply Nat.ltb_ge; lia|apply Nat.leb_gt; lia]).
          specialize (NEW l0 c E Q). unfold cell_ok. eapply Forall_impl; [|exact NEW].
          intros v [Hg Hl]. destruct v; cbn in *; auto. split; [exact Hl|]. unfold side_rest.
          apply orb_false_intro; [apply Nat.ltb_ge; lia|apply Nat.leb_gt; lia].
        + apply Nat.leb_gt in Q.
          replace (Nat.ltb l0 (length h) || Nat.leb (length (h ++ ex)) l0) with true
            by (symmetry; apply orb_true_intro; left; apply Nat.ltb_lt; lia).
          specialize (OLD l0 c E Q). unfold cell_ok. eapply Forall_impl; [|exact OLD].
          intros v Hl. destruct v; cbn in *; auto. split; [lia|]. unfold side_rest.
          apply orb_true_intro. left. apply Nat.ltb_lt. exact Hl.
      - intros k0. cbn [fst s1 set_reg]. unfold except. destruct (Nat.eqb k0 i) eqn:Q; cbn [negb].
        + apply Nat.eqb_eq in Q. subst k0. rewrite Ri. destruct y; cbn in *; auto. split; [exact L|]. unfold side_rest.
          apply orb_false_intro; [apply Nat.ltb_ge; lia|apply Nat.leb_gt; lia].
        + apply Nat.eqb_neq in Q. rewrite Rk by exact Q. specialize (RgL k0). destruct (nth k0 regs HNull); cbn in *; auto.
          split; [lia|]. unfold side_rest. apply orb_true_intro. left. apply Nat.ltb_lt. exact RgL. }
    assert (fresh_true (side_rest (length h) (length (h ++ ex))) (length (fst s1))) as F2.
    { intros l0 Hl0. unfold side_rest. cbn [fst s1 set_reg] in Hl0. apply orb_true_intro. right. apply Nat.leb_le. exact Hl0. }
    destruct (exec_frame _ _ ops s1 F2 I2 A) as (_ & _ & Fr). apply Fr. unfold except. rewrite Nat.eqb_refl. reflexivity.
Qed.

(* non-vacuity of copy_isolation_ops: a prefix, a successful copy, and a non-trivial history on the copy only *)
Lemma demo_copy_ops :
  let pre := [HNew 0 (TMap TgDict [(bs "a"%bs, TMap TgDict [(bs "b"%bs, TInt 1)]); (bs "l"%bs, TList [TMap TgDict []])]); HWrap 2 0 []] in
  let ops := [HSetLit 1 [PK (bs "a"%bs)] (bs "b"%bs) (TInt 2); HDel 1 [] (bs "l"%bs); HSetRef 1 [] (bs "z"%bs) 1 [PK (bs "a"%bs)]] in
  exists s1, hop_step (HCopy 1 0) (exec pre init_state) = inl (s1, VNone) /\ 1 < nregs /\
             forallb (regs_in (only 1)) ops = true /\
             snap 9 (fst (exec ops s1)) (reg (exec ops s1) 1) <> snap 9 (fst s1) (reg s1 1) /\
             snap 9 (fst (exec ops s1)) (reg (exec ops s1) 0) = snap 9 (fst s1) (reg s1 0).
Proof.
  cbn zeta. eexists. split; [vm_compute; reflexivity|]. split; [unfold nregs; lia|]. split; [reflexivity|].
  split; [vm_compute; discriminate|vm_compute; reflexivity].
Qed.

(* ---- not_inplace_pure, heap level: Meta(d), x.copy(), Meta(x) and "is" only allocate; every existing cell and every
        variable except the destination is unchanged, hence every deep read of every operand is unchanged ---- *)
Lemma hconv_ext n : forall h v h' v', hconv n h v = Some (h', v') -> exists ex, h' = h ++ ex.
Proof.
  induction n as [|n IH]; intros h v h' v' E.
  - destruct v as [| | | |l]; cbn in E; try (inversion E; subst; exists []; rewrite app_nil_r; reflexivity).
    destruct (nth_error h l) as [[[| |] kvs|vs]|]; try discriminate; inversion E; subst; exists []; rewrite app_nil_r; reflexivity.
  - destruct v as [| | | |l]; cbn in E; try (inversion E; subst; exists []; rewrite app_nil_r; reflexivity).
    destruct (nth_error h l) as [[g kvs|vs]|];
      try (inversion E; subst; exists []; rewrite app_nil_r; reflexivity).
    destruct g; try (inversion E; subst; exists []; rewrite app_nil_r; reflexivity).
    assert (forall kvs h0 acc h1 acc1,
              (fix go (kvs : list (str * hval)) (h : heap) (acc : list (str * hval)) : option (heap * list (str * hval)) :=
                 match kvs with
                 | [] => Some (h, acc)
                 | (k, x) :: r => match hconv n h x with Some (h1, x') => go r h1 (aset k x' acc) | None => None end
                 end) kvs h0 acc = Some (h1, acc1) -> exists ex, h1 = h0 ++ ex) as LOOP.
    { clear - IH. induction kvs as [|[k x] r IHr]; intros h0 acc h1 acc1 G.
      - inversion G; subst. exists []. rewrite app_nil_r. reflexivity.
      - destruct (hconv n h0 x) as [[ha x']|] eqn:Hx; [|discriminate].
        destruct (IH _ _ _ _ Hx) as [ex1 ->]. destruct (IHr _ _ _ _ G) as [ex2 ->].
        exists (ex1 ++ ex2). rewrite app_assoc. reflexivity. }
    match type of E with match ?G with _ => _ end = _ => destruct G as [[h1 acc]|] eqn:GG; [|discriminate] end.
    inversion E; subst. destruct (LOOP _ _ _ _ _ GG) as [ex ->]. exists (ex ++ [CMap TgAttr acc]). rewrite app_assoc. reflexivity.
Qed.
Lemma hupdate_ext n kvs : forall h acc h1 acc1, hupdate n h acc kvs = Some (h1, acc1) -> exists ex, h1 = h ++ ex.
Proof.
  induction kvs as [|[k x] r IHr]; intros h0 acc h1 acc1 G; cbn in G.
  - inversion G; subst. exists []. rewrite app_nil_r. reflexivity.
  - destruct (hconv n h0 x) as [[ha x']|] eqn:Hx; [|discriminate].
    destruct (hconv_ext _ _ _ _ _ Hx) as [ex1 ->]. destruct (IHr _ _ _ _ G) as [ex2 ->].
    exists (ex1 ++ ex2). rewrite app_assoc. reflexivity.
Qed.

Definition pure_hop (o : hop) : option (option nat) :=      (* Some (Some i): not in-place, result stored in variable i *)
  match o with
  | HNew i _ | HCopy i _ | HWrap i _ _ => Some (Some i)
  | HIs _ _ _ _ => Some None
  | _ => None
  end.
Theorem hop_not_inplace o s s' r dest : pure_hop o = Some dest -> hop_step o s = inl (s', r) ->
  (exists ex, fst s' = fst s ++ ex) /\
  (forall k, Some k <> dest -> reg s' k = reg s k) /\
  (forall k n t, Some k <> dest -> snap n (fst s) (reg s k) = Some t -> snap n (fst s') (reg s' k) = Some t).
Proof.
  intros P E.
  assert ((exists ex, fst s' = fst s ++ ex) /\ (forall k, Some k <> dest -> reg s' k = reg s k)) as [[ex EX] RK].
  { destruct s as [h regs]. destruct o as [i d|i j|i j q| | | | | |i p j q]; cbn in P; inversion P; subst dest; cbn [hop_step fst snd] in E.
    - destruct d as [| | | | |g kvs]; try discriminate. destruct g; try discriminate.
      destruct (build (attr_init TgMeta kvs) h) as [h' v] eqn:B. inversion E; subst.
      destruct (build_spec _ _ _ _ B) as (ex & -> & _). split; [exists ex; reflexivity|].
      intros k N. apply reg_set_other. congruence.
    - unfold reg in E. cbn [snd] in E. destruct (nth j regs HNull) as [| | | |l]; try discriminate.
      destruct (tree_shaped _ _ _); [|discriminate]. unfold deepcopy in E.
      destruct (snap _ h (HRef l)) as [t|]; [|discriminate]. destruct (build t h) as [h' v] eqn:B. inversion E; subst.
      destruct (build_spec _ _ _ _ B) as (ex & -> & _). split; [exists ex; reflexivity|].
      intros k N. apply reg_set_other. congruence.
    - unfold reg in E. cbn [snd] in E. destruct (hnav h (nth j regs HNull) q) as [[| | | |l]|]; try discriminate.
      destruct (nth_error h l) as [[g kvs|vs]|]; try discriminate.
      destruct (hupdate _ h [] kvs) as [[h1 acc]|] eqn:U; [|discriminate]. inversion E; subst.
      destruct (hupdate_ext _ _ _ _ _ _ U) as [ex ->]. split; [exists (ex ++ [CMap TgMeta acc]); cbn; rewrite app_assoc; reflexivity|].
      intros k N. apply reg_set_other. congruence.
    - unfold reg in E. cbn [snd] in E.
      destruct (hnav h (nth i regs HNull) p) as [[| | | |la]|]; destruct (hnav h (nth j regs HNull) q) as [[| | | |lb]|]; try discriminate.
      inversion E; subst. split; [exists []; cbn; rewrite app_nil_r; reflexivity|reflexivity]. }
  split; [exists ex; exact EX|]. split; [exact RK|].
  intros k n t N Sn. rewrite RK by exact N. rewrite EX. apply snap_app. exact Sn.
Qed.

(* in-place operations return the receiver: they write into existing cells (or allocate the new value) but never re-bind a
   variable -- every variable, in particular the receiver, still holds the SAME address, so every other reference to the
   receiver sees the update *)
Definition inplace_hop (o : hop) : bool :=
  match o with HSetLit _ _ _ _ | HSetRef _ _ _ _ _ | HDel _ _ _ | HAppendLit _ _ _ | HAppendRef _ _ _ _ => true | _ => false end.
Lemma inplace_keeps_vars o s s' r : inplace_hop o = true -> hop_step o s = inl (s', r) -> snd s' = snd s.
Proof.
  destruct s as [h regs]. destruct o; cbn [inplace_hop]; try discriminate; intros _; cbn [hop_step fst snd]; intros E;
    repeat match type of E with
           | context [match ?x with _ => _ end] => destruct x; try discriminate
           | context [if ?x then _ else _] => destruct x; try discriminate
           end;
    inversion E; subst; reflexivity.
Qed.
