(* C10: the general (unbounded) read_render statement, piece by piece.
   Part A: bridge run_lines <-> step function; line hygiene.   Part B: ORIGIN block.   Part C: qualifier lines.
   Part D: header fields.   Part E: records and files. *)
From Coq Require Import List ZArith NArith Bool Lia.
From Coq.Strings Require Import Byte.
Import ListNotations.
From SV Require Import Text G_flags C10_Model C10_Lemmas C10_Table.

(* ------------------------------------------------------------ Part A *)
Definition step (excl : list str) (s : st) (line : str) : res st :=
  match mode s with
  | PHeader => step_header s line
  | PFts => step_fts excl s line
  | POrigin => step_origin excl s line
  end.
Fixpoint steps_any (excl : list str) (s : st) (ls : list str) : res st :=
  match ls with
  | [] => ROk s
  | l :: r => match step excl s l with ROk s' => steps_any excl s' r | RErr k => RErr k end
  end.
Definition okline (l : str) : Prop := rstrip l = l /\ is_blank l = false /\ str_eqb (strip l) sl2 = false.

Lemma run_lines_cons excl raw rest s acc : okline raw ->
  run_lines excl (raw :: rest) s acc = match step excl s raw with RErr k => RErr k | ROk s' => run_lines excl rest s' acc end.
Proof.
  intros (H1 & H2 & H3). cbn [run_lines]. rewrite H1, H2, H3. unfold step. destruct (mode s); reflexivity.
Qed.
Lemma run_lines_steps excl ls rest s acc : Forall okline ls ->
  run_lines excl (ls ++ rest) s acc =
  match steps_any excl s ls with RErr k => RErr k | ROk s' => run_lines excl rest s' acc end.
Proof.
  intros H. revert s. induction H as [|l r Hl _ IH]; intros s; [reflexivity|].
  cbn [app steps_any]. rewrite run_lines_cons by exact Hl. destruct (step excl s l); [apply IH|reflexivity].
Qed.
Lemma steps_any_app excl a b s :
  steps_any excl s (a ++ b) = match steps_any excl s a with ROk s' => steps_any excl s' b | RErr k => RErr k end.
Proof. revert s. induction a as [|l r IH]; intros s; [reflexivity|]. cbn [app steps_any]. destruct (step excl s l); [apply IH|reflexivity]. Qed.
Lemma run_lines_blank excl rest s acc : run_lines excl ([] :: rest) s acc = run_lines excl rest s acc.
Proof. reflexivity. Qed.

(* a line "spaces n ++ body" whose body starts and ends with a non-blank character *)
Lemma rstrip_head c r : is_ws c = false -> exists t, rstrip (c :: r) = c :: t.
Proof. intros H. cbn [rstrip]. destruct (rstrip r); [rewrite H|]; eauto. Qed.
Lemma blank_false_head c r : is_ws c = false -> is_blank (c :: r) = false.
Proof. intros H. unfold is_blank. cbn [lstrip]. now rewrite H. Qed.
Lemma okline_body n body a g : body = a ++ g -> g <> [] -> nows g = true ->
  is_ws (hd sp body) = false -> str_eqb body sl2 = false ->
  okline (spaces n ++ body) /\ strip (spaces n ++ body) = body /\ strip body = body.
Proof.
  intros E Hg Hn Hh Hs.
  assert (Hb : body <> []) by (rewrite E; destruct a; [exact Hg|discriminate]).
  destruct body as [|c r]; [congruence|]. cbn [hd] in Hh.
  assert (R : rstrip (c :: r) = c :: r) by (rewrite E; apply rstrip_app_nows; assumption).
  assert (S1 : strip (spaces n ++ c :: r) = c :: r) by (unfold strip; rewrite lstrip_spaces, lstrip_head by exact Hh; exact R).
  assert (S2 : strip (c :: r) = c :: r) by (unfold strip; rewrite lstrip_head by exact Hh; exact R).
  split; [|split; assumption]. split; [|split].
  - rewrite E, app_assoc. apply rstrip_app_nows; assumption.
  - unfold is_blank. rewrite lstrip_spaces, lstrip_head by exact Hh. reflexivity.
  - rewrite S1. exact Hs.
Qed.
Lemma neq_sl2_head c r : byte_eqb c "/" = false -> str_eqb (c :: r) sl2 = false.
Proof. intros H. cbn. now rewrite H. Qed.
Lemma okline_plain body a g : body = a ++ g -> g <> [] -> nows g = true ->
  is_ws (hd sp body) = false -> str_eqb body sl2 = false -> okline body /\ strip body = body.
Proof. intros. destruct (okline_body 0 body a g) as (A & B & C); try assumption. split; assumption. Qed.

(* ------------------------------------------------------------ Part B: ORIGIN block *)
Lemma groups_concat n f s : (0 < n)%nat -> (length s <= f * n)%nat -> concat (groups f n s) = s.
Proof.
  intros Hn. revert s. induction f as [|f IH]; intros s H.
  - destruct s; [reflexivity|cbn in H; lia].
  - cbn [groups]. destruct s as [|c r]; [reflexivity|]. cbn [concat]. rewrite IH.
    + apply firstn_skipn.
    + rewrite skipn_length. cbn [length] in *. lia.
Qed.
Lemma groups_nonempty n f s : (0 < n)%nat -> Forall (fun g => g <> []) (groups f n s).
Proof.
  intros Hn. revert s. induction f as [|f IH]; intros s; [constructor|]. cbn [groups]. destruct s as [|c r]; [constructor|].
  constructor; [|apply IH]. destruct n; [lia|discriminate].
Qed.
Lemma groups_sub (P : byte -> bool) n f s : forallb P s = true -> Forall (fun g => forallb P g = true) (groups f n s).
Proof.
  revert s. induction f as [|f IH]; intros s H; [constructor|]. cbn [groups]. destruct s as [|c r]; [constructor|].
  rewrite <- (firstn_skipn n (c :: r)) in H. rewrite forallb_app in H. apply andb_prop in H. destruct H as [H1 H2].
  constructor; [exact H1|apply IH; exact H2].
Qed.
Lemma groups_len_le n f s : Forall (fun g => (length g <= n)%nat) (groups f n s).
Proof.
  revert s. induction f as [|f IH]; intros s; [constructor|]. cbn [groups]. destruct s as [|c r]; [constructor|].
  constructor; [apply firstn_le_length|apply IH].
Qed.
Lemma alpha_not_ws c : is_alpha c = true -> is_ws c = false.
Proof. destruct c; vm_compute; congruence. Qed.
Lemma alpha_not_sp c : is_alpha c = true -> negb (byte_eqb sp c) = true.
Proof. destruct c; vm_compute; congruence. Qed.
Lemma alpha_nows s : forallb is_alpha s = true -> nows s = true.
Proof. apply forallb_impl. intros c H. now rewrite alpha_not_ws. Qed.
Lemma remove_sp_alpha s : forallb is_alpha s = true -> remove_char sp s = s.
Proof.
  induction s as [|c r IH]; cbn [forallb]; intros H; [reflexivity|]. apply andb_prop in H. destruct H as [Hc Hr].
  cbn [remove_char filter]. rewrite (alpha_not_sp c Hc). f_equal. apply IH. exact Hr.
Qed.
Lemma remove_sp_join gs : Forall (fun g => forallb is_alpha g = true) gs -> remove_char sp (join [sp] gs) = concat gs.
Proof.
  induction 1 as [|g r Hg Hr IH]; [reflexivity|]. destruct r as [|g2 r'].
  - cbn. rewrite app_nil_r. apply remove_sp_alpha. exact Hg.
  - rewrite join_cons2. rewrite !remove_app. cbn [concat]. rewrite (remove_sp_alpha g Hg). f_equal.
    change (remove_char sp [sp]) with (@nil byte). cbn [app]. exact IH.
Qed.
Lemma join_last_part sep gs : gs <> [] -> exists a g, join sep gs = a ++ g /\ In g gs.
Proof.
  induction gs as [|x r IH]; [congruence|]. intros _. destruct r as [|y r'].
  - exists [], x. split; [reflexivity|left; reflexivity].
  - destruct IH as (a & g & E & Hin); [discriminate|]. rewrite join_cons2, E. exists (x ++ sep ++ a), g.
    split; [now rewrite <- !app_assoc|right; exact Hin].
Qed.

Lemma skipn_len_app {A} (a b : list A) n : length a = n -> skipn n (a ++ b) = b.
Proof. intros <-. rewrite skipn_app, skipn_all, Nat.sub_diag. reflexivity. Qed.
Definition origin_line_of (pos : nat) (l : str) : str := pad_left 9 (dec_of_nat pos) ++ sp :: join [sp] (groups 7 10 l).
Lemma digit_not_slash c : is_digit c = true -> byte_eqb c "/" = false.
Proof. destruct c; vm_compute; congruence. Qed.
Lemma alpha_not_slash c : is_alpha c = true -> byte_eqb c "/" = false.
Proof. destruct c; vm_compute; congruence. Qed.

Lemma origin_line_facts pos l :
  all_digits (dec_of_nat pos) = true -> (length (dec_of_nat pos) <= 9)%nat ->
  l <> [] -> (length l <= 60)%nat -> forallb is_alpha l = true ->
  okline (origin_line_of pos l) /\ (10 < length (origin_line_of pos l))%nat
  /\ remove_char sp (skipn 10 (origin_line_of pos l)) = l.
Proof.
  intros Hd Hlen Hl H60 Ha. set (dg := dec_of_nat pos) in *.
  assert (Hgs : groups 7 10 l <> []) by (destruct l; [congruence|discriminate]).
  pose proof (groups_sub is_alpha 10 7 l Ha) as Hsub.
  pose proof (groups_nonempty 10 7 l ltac:(lia)) as Hne.
  destruct (join_last_part [sp] (groups 7 10 l) Hgs) as (a & g & EJ & Hin).
  rewrite Forall_forall in Hsub, Hne. specialize (Hsub g Hin). specialize (Hne g Hin).
  destruct (all_digits_forall dg Hd) as [Hdd Hdn]. destruct dg as [|d0 dr] eqn:Edg; [congruence|].
  assert (Hd0 : is_digit d0 = true) by (cbn in Hdd; apply andb_prop in Hdd; tauto).
  unfold origin_line_of, pad_left. fold dg. rewrite Edg.
  assert (J : remove_char sp (join [sp] (groups 7 10 l)) = l).
  { rewrite remove_sp_join by (apply groups_sub; exact Ha). apply groups_concat; lia. }
  split; [|split].
  - rewrite <- app_assoc.
    destruct (okline_body (9 - length (d0 :: dr)) ((d0 :: dr) ++ sp :: join [sp] (groups 7 10 l)) ((d0 :: dr) ++ sp :: a) g) as (O & _).
    + rewrite EJ. now rewrite <- app_assoc.
    + exact Hne.
    + apply alpha_nows. exact Hsub.
    + cbn. apply digit_not_ws. exact Hd0.
    + cbn [app]. apply neq_sl2_head. apply digit_not_slash. exact Hd0.
    + exact O.
  - rewrite !app_length, spaces_length. cbn [length]. rewrite EJ, app_length.
    cbn [length] in Hlen. destruct g; [congruence|]. cbn [length]. lia.
  - replace (spaces (9 - length (d0 :: dr)) ++ d0 :: dr) with ((spaces (9 - length (d0 :: dr)) ++ d0 :: dr)) by reflexivity.
    rewrite <- app_assoc.
    replace (spaces (9 - length (d0 :: dr)) ++ (d0 :: dr) ++ sp :: join [sp] (groups 7 10 l))
      with ((spaces (9 - length (d0 :: dr)) ++ (d0 :: dr) ++ [sp]) ++ join [sp] (groups 7 10 l)) by (rewrite <- !app_assoc; reflexivity).
    rewrite (skipn_len_app (spaces (9 - length (d0 :: dr)) ++ (d0 :: dr) ++ [sp]) (join [sp] (groups 7 10 l)) 10); [exact J|].
    rewrite !app_length, spaces_length. cbn [length] in *. lia.
Qed.

Fixpoint origin_go (ls : list str) (pos : nat) : list str :=
  match ls with
  | [] => []
  | l :: r => origin_line_of pos l :: origin_go r (pos + 60)
  end.
Lemma render_origin_eq s : render_origin s = origin_go (groups (S (length s)) 60 s) 1.
Proof. reflexivity. Qed.
Fixpoint pos_list (pos n : nat) : list nat :=
  match n with O => [] | S n' => pos :: pos_list (pos + 60) n' end.
Lemma pos_list_map p n : map (fun i => (p + 60 * i)%nat) (List.seq 0 n) = pos_list p n.
Proof.
  revert p. induction n as [|n IH]; intros p; [reflexivity|]. cbn [List.seq map pos_list].
  f_equal; [lia|]. rewrite <- seq_shift, map_map. rewrite <- IH. apply map_ext. intros i. lia.
Qed.
Definition pos_ok (p : nat) : bool := all_digits (dec_of_nat p) && (length (dec_of_nat p) <=? 9)%nat.
Definition chunk_ok (l : str) : Prop := l <> [] /\ (length l <= 60)%nat /\ forallb is_alpha l = true.

Lemma set_seq_mode s x : mode (set_seq s x) = mode s. Proof. reflexivity. Qed.

Lemma origin_block excl ls : Forall chunk_ok ls -> forall pos s0,
  forallb pos_ok (pos_list pos (length ls)) = true -> mode s0 = POrigin ->
  (mem k_seq excl = true -> seq s0 = []) ->
  Forall okline (origin_go ls pos) /\
  steps_any excl s0 (origin_go ls pos) = ROk (set_seq s0 (if mem k_seq excl then [] else seq s0 ++ concat ls)).
Proof.
  induction 1 as [|l r Hl Hr IH]; intros pos s0 Hp Hm Hs.
  - split; [constructor|]. cbn [origin_go steps_any concat]. rewrite app_nil_r.
    destruct (mem k_seq excl) eqn:E; [rewrite <- (Hs eq_refl)|]; destruct s0; reflexivity.
  - cbn [length pos_list forallb] in Hp. apply andb_prop in Hp. destruct Hp as [Hp0 Hp].
    unfold pos_ok in Hp0. apply andb_prop in Hp0. destruct Hp0 as [Hd Hlen]. apply Nat.leb_le in Hlen.
    destruct Hl as (Hl1 & Hl2 & Hl3).
    destruct (origin_line_facts pos l Hd Hlen Hl1 Hl2 Hl3) as (Ok & Hlong & Hrem).
    cbn [origin_go steps_any]. unfold step at 1. rewrite Hm. unfold step_origin.
    destruct (mem k_seq excl) eqn:E.
    + destruct (IH (pos + 60)%nat (set_seq s0 []) Hp Hm (fun _ => eq_refl)) as [F S]. split; [constructor; assumption|].
      rewrite S. reflexivity.
    + apply Nat.ltb_lt in Hlong. rewrite Hlong, Hrem.
      destruct (IH (pos + 60)%nat (set_seq s0 (seq s0 ++ l)) Hp Hm (fun H => match Bool.diff_false_true H with end)) as [F S].
      split; [constructor; assumption|]. rewrite S. cbn [seq set_seq concat]. rewrite <- app_assoc. reflexivity.
Qed.

Lemma groups_chunk_ok s : forallb is_alpha s = true -> Forall chunk_ok (groups (S (length s)) 60 s).
Proof.
  intros H. pose proof (groups_nonempty 60 (S (length s)) s ltac:(lia)) as A.
  pose proof (groups_len_le 60 (S (length s)) s) as B. pose proof (groups_sub is_alpha 60 (S (length s)) s H) as C.
  rewrite Forall_forall in *. intros g Hg. split; [apply A|split; [apply B|apply C]]; exact Hg.
Qed.

(* ORIGIN block of a record: residues come back exactly (or not at all with 'seq' excluded) *)
Lemma origin_render excl s0 sq :
  forallb is_alpha sq = true -> forallb pos_ok (origin_positions sq) = true ->
  mode s0 = POrigin -> seq s0 = [] ->
  Forall okline (render_origin sq) /\
  steps_any excl s0 (render_origin sq) = ROk (set_seq s0 (if mem k_seq excl then [] else sq)).
Proof.
  intros Ha Hp Hm Hs. rewrite render_origin_eq.
  unfold origin_positions in Hp. rewrite pos_list_map in Hp.
  destruct (origin_block excl _ (groups_chunk_ok sq Ha) 1%nat s0 Hp Hm (fun _ => Hs)) as [F S]. split; [exact F|].
  rewrite S, Hs. cbn [app]. rewrite groups_concat by lia. reflexivity.
Qed.

(* ------------------------------------------------------------ Part C: qualifier lines *)
Lemma aget_aset_same {V} k (v : V) m : aget k (aset k v m) = Some v.
Proof.
  induction m as [|[a w] r IH]; cbn [aset aget]; [now rewrite str_eqb_refl|].
  destruct (str_eqb a k) eqn:E; cbn [aget]; rewrite E; [reflexivity|exact IH].
Qed.
Lemma aget_aset_other {V} k k' (v : V) m : str_eqb k k' = false -> aget k' (aset k v m) = aget k' m.
Proof.
  intros H. induction m as [|[a w] r IH]; cbn [aset aget].
  - destruct (str_eqb k k') eqn:E; [congruence|reflexivity].
  - destruct (str_eqb a k) eqn:E; cbn [aget].
    + apply str_eqb_eq in E. subst a. rewrite H. reflexivity.
    + destruct (str_eqb a k'); [reflexivity|exact IH].
Qed.
Lemma aset_aset {V} k (v1 v2 : V) m : aset k v2 (aset k v1 m) = aset k v2 m.
Proof.
  induction m as [|[a w] r IH]; cbn [aset]; [now rewrite str_eqb_refl|].
  destruct (str_eqb a k) eqn:E; cbn [aset]; rewrite E; [reflexivity|now rewrite IH].
Qed.
Lemma aset_absent {V} k (v : V) m : aget k m = None -> aset k v m = m ++ [(k, v)].
Proof.
  induction m as [|[a w] r IH]; cbn [aset aget app]; [reflexivity|]. destruct (str_eqb a k); [discriminate|].
  intros H. now rewrite IH.
Qed.

Lemma aset_same_val {V} k (v : V) m : aget k m = Some v -> aset k v m = m.
Proof.
  induction m as [|[a w] m IH]; cbn; [discriminate|]. destruct (str_eqb a k) eqn:E.
  - intros H. inversion H. reflexivity.
  - intros H. now rewrite IH.
Qed.
Lemma has_false_cons c x s : has c (x :: s) = false -> byte_eqb c x = false /\ has c s = false.
Proof. rewrite has_cons. apply orb_false_iff. Qed.
Lemma break_at_app c k v : has c k = false -> break_at c (k ++ c :: v) = (k, v).
Proof.
  induction k as [|x k IH]; intros H; cbn [app break_at]; [now rewrite byte_eqb_refl|].
  apply has_false_cons in H. destruct H as [H1 H2]. rewrite H1, IH by exact H2. reflexivity.
Qed.
Lemma lstrip_char_nohit c s : has c s = false -> lstrip_char c s = s.
Proof. destruct s as [|x s]; [reflexivity|]. intros H. apply has_false_cons in H. destruct H as [H _]. cbn. now rewrite H. Qed.
Lemma rstrip_char_nohit c s : has c s = false -> rstrip_char c s = s.
Proof.
  induction s as [|x s IH]; [reflexivity|]. intros H. apply has_false_cons in H. destruct H as [H1 H2].
  cbn [rstrip_char]. rewrite IH by exact H2. destruct s; [now rewrite H1|reflexivity].
Qed.
Lemma rstrip_char_snoc c s : rstrip_char c (s ++ [c]) = rstrip_char c s.
Proof.
  induction s as [|x s IH]; cbn [app rstrip_char]; [now rewrite byte_eqb_refl|]. now rewrite IH.
Qed.
Lemma noq_facts s : noq_ends s = true -> byte_eqb dq (hd sp s) = false /\ byte_eqb dq (last s sp) = false.
Proof. unfold noq_ends. intros H. apply andb_prop in H. destruct H as [H1 H2]. split; now apply negb_true_iff. Qed.
Lemma lstrip_char_hd s : byte_eqb dq (hd sp s) = false -> lstrip_char dq s = s.
Proof. destruct s as [|x s]; [reflexivity|]. cbn. intros H. now rewrite H. Qed.
Lemma rstrip_char_last s : byte_eqb dq (last s sp) = false -> rstrip_char dq s = s.
Proof.
  induction s as [|x s IH]; [reflexivity|]. destruct s as [|y t].
  - cbn. intros H. now rewrite H.
  - intros H. change (last (x :: y :: t) sp) with (last (y :: t) sp) in H. cbn [rstrip_char] in IH |- *. rewrite (IH H). reflexivity.
Qed.
Lemma strip_char_plain s : noq_ends s = true -> strip_char dq s = s.
Proof. intros H. destruct (noq_facts s H) as [H1 H2]. unfold strip_char. rewrite lstrip_char_hd by exact H1. apply rstrip_char_last. exact H2. Qed.
Lemma strip_char_open s : noq_ends s = true -> strip_char dq (dq :: s) = s.
Proof. intros H. unfold strip_char. cbn [lstrip_char]. rewrite byte_eqb_refl. fold (strip_char dq s). apply strip_char_plain. exact H. Qed.
Lemma strip_char_close s : noq_ends s = true -> strip_char dq (s ++ [dq]) = s.
Proof.
  intros H. destruct (noq_facts s H) as [H1 H2]. unfold strip_char. destruct s as [|x s].
  - reflexivity.
  - cbn [hd] in H1. cbn [app lstrip_char]. rewrite H1.
    change (x :: s ++ [dq]) with ((x :: s) ++ [dq]). rewrite rstrip_char_snoc. apply rstrip_char_last. exact H2.
Qed.
Lemma strip_char_both s : noq_ends s = true -> strip_char dq (dq :: s ++ [dq]) = s.
Proof.
  intros H. unfold strip_char. cbn [lstrip_char]. rewrite byte_eqb_refl. fold (strip_char dq (s ++ [dq])). apply strip_char_close. exact H.
Qed.

Definition ind : str := spaces 21.
Definition qvalue (v : str) : qv :=
  if negb (startswith [dq] v) then match py_int v with Some n => QI n | None => QS v end else QS (strip_char dq v).
Definition tail_ok (body : str) : Prop := exists a g, body = a ++ g /\ g <> [] /\ nows g = true.
Definition is_wordstr (k : str) : Prop := k <> [] /\ forallb is_word k = true.
Lemma word_facts c : is_word c = true -> is_ws c = false /\ byte_eqb c "/" = false /\ byte_eqb "=" c = false /\ byte_eqb "/" c = false.
Proof. destruct c; vm_compute; intros H; try discriminate H; repeat split; reflexivity. Qed.
Lemma wordstr_no_eq k : forallb is_word k = true -> has "=" k = false.
Proof.
  induction k as [|c k IH]; cbn [forallb]; intros H; [reflexivity|]. apply andb_prop in H. destruct H as [Hc Hk].
  rewrite has_cons, IH by exact Hk. destruct (word_facts c Hc) as (_ & _ & E & _). now rewrite E.
Qed.
Lemma wordstr_nows k : forallb is_word k = true -> nows k = true.
Proof. apply forallb_impl. intros c H. destruct (word_facts c H) as (E & _). now rewrite E. Qed.

(* a qualifier line "/k..." : common part *)
Lemma qual_line_common k rest : is_wordstr k -> tail_ok ("/"%byte :: k ++ rest) ->
  okline (ind ++ "/"%byte :: k ++ rest) /\ strip (ind ++ "/"%byte :: k ++ rest) = "/"%byte :: k ++ rest
  /\ is_blank (firstn 20 (ind ++ "/"%byte :: k ++ rest)) = true.
Proof.
  intros [Hk1 Hk2] (a & g & E & Hg & Hn).
  destruct k as [|c k']; [congruence|]. cbn [forallb] in Hk2. apply andb_prop in Hk2. destruct Hk2 as [Hc _].
  destruct (word_facts c Hc) as (_ & Hs & _).
  destruct (okline_body 21 _ a g E Hg Hn) as (O & S & _); [reflexivity| |].
  - cbn. now rewrite Hs.
  - split; [exact O|]. split; [exact S|]. unfold ind. rewrite firstn20_cont. reflexivity.
Qed.

Section qual_steps.
  Variable excl : list str.
  Hypothesis Hex : mem k_fts excl = false.

  Lemma step_qual_kv s m k v : ftmeta s = Some m -> is_wordstr k -> tail_ok ("/"%byte :: k ++ "="%byte :: v) ->
    okline (ind ++ "/"%byte :: k ++ "="%byte :: v) /\
    step_fts excl s (ind ++ "/"%byte :: k ++ "="%byte :: v) =
      ROk (set_ft s (fts s) (fttype s) (Some (aset k (qvalue v) m)) (Some (Some k)) (locs s)).
  Proof.
    intros Hm Hk Ht. destruct (qual_line_common k ("="%byte :: v) Hk Ht) as (O & S & B). split; [exact O|].
    unfold step_fts. rewrite Hex, B. cbn [negb]. rewrite S. cbn [byte_eqb Byte.eqb]. 
    change (byte_eqb "/" "/") with true. cbv iota.
    assert (He : has "=" (k ++ "="%byte :: v) = true) by (rewrite has_app, has_cons, byte_eqb_refl; apply orb_true_r).
    rewrite He. rewrite break_at_app by (apply wordstr_no_eq; apply Hk). rewrite Hm. reflexivity.
  Qed.
  Lemma step_qual_flag s m k : ftmeta s = Some m -> is_wordstr k ->
    okline (ind ++ "/"%byte :: k) /\
    step_fts excl s (ind ++ "/"%byte :: k) =
      match aget k_misc m with
      | None => ROk (set_ft s (fts s) (fttype s) (Some (aset k_misc (QL [k]) m)) (key2 s) (locs s))
      | Some (QL xs) => ROk (set_ft s (fts s) (fttype s) (Some (aset k_misc (QL (xs ++ [k])) m)) (key2 s) (locs s))
      | Some _ => RErr AttributeError
      end.
  Proof.
    intros Hm Hk. assert (Ht : tail_ok ("/"%byte :: k ++ [])).
    { exists ["/"%byte], k. rewrite app_nil_r. split; [reflexivity|]. split; [apply Hk|apply wordstr_nows; apply Hk]. }
    destruct (qual_line_common k [] Hk Ht) as (O & S & B). rewrite app_nil_r in *. split; [exact O|].
    unfold step_fts. rewrite Hex, B. cbn [negb]. rewrite S. change (byte_eqb "/" "/") with true. cbv iota.
    rewrite (wordstr_no_eq k) by apply Hk. rewrite Hm. reflexivity.
  Qed.
  Lemma step_qual_cont s m k x c : ftmeta s = Some m -> key2 s = Some (Some k) -> aget k m = Some (QS x) ->
    tail_ok c -> is_ws (hd sp c) = false -> byte_eqb "/" (hd sp c) = false -> c <> [] ->
    okline (ind ++ c) /\
    step_fts excl s (ind ++ c) = ROk (set_ft s (fts s) (fttype s) (Some (aset k (QS (x ++ strip_char dq c)) m)) (key2 s) (locs s)).
  Proof.
    intros Hm Hk2 Hg (a & g & E & Hgn & Hgw) Hh Hs Hc.
    destruct c as [|c0 cr]; [congruence|]. cbn [hd] in *.
    assert (Hs2 : str_eqb (c0 :: cr) sl2 = false).
    { apply neq_sl2_head. destruct (byte_eqb c0 "/") eqn:E2; [|reflexivity]. apply byte_eqb_eq in E2. subst. discriminate Hs. }
    destruct (okline_body 21 (c0 :: cr) a g E Hgn Hgw Hh Hs2) as (O & S & _). split; [exact O|].
    unfold step_fts. rewrite Hex. unfold ind. rewrite firstn20_cont. change (is_blank (spaces 20)) with true. cbn [negb].
    rewrite S, Hs, Hk2, Hm, Hg. reflexivity.
  Qed.
End qual_steps.

Definition fts_frame (s s' : st) : Prop :=
  mode s' = mode s /\ attrs s' = attrs s /\ key s' = key s /\ subkey s' = subkey s /\ seq s' = seq s /\ mfts s' = mfts s
  /\ fts s' = fts s /\ fttype s' = fttype s /\ locs s' = locs s.
Lemma fts_frame_refl s : fts_frame s s. Proof. repeat split. Qed.
Lemma fts_frame_trans a b c : fts_frame a b -> fts_frame b c -> fts_frame a c.
Proof. unfold fts_frame. intros (?&?&?&?&?&?&?&?&?) (?&?&?&?&?&?&?&?&?). repeat split; congruence. Qed.
Lemma fts_frame_set s m k2 : fts_frame s (set_ft s (fts s) (fttype s) m k2 (locs s)).
Proof. repeat split. Qed.

Definition misc_ok (m : list (str * qv)) : Prop :=
  match aget k_misc m with Some (QS _) | Some (QI _) => False | _ => True end.

Fixpoint qtext_go (first : str) (r : list str) : list str :=
  match r with
  | [] => [first ++ [dq]]
  | c2 :: r' => first :: qtext_go (ind ++ c2) r'
  end.
Lemma render_qtext k c r : render_qual (QText k (c :: r)) = qtext_go (ind ++ "/"%byte :: k ++ "="%byte :: dq :: c) r.
Proof. reflexivity. Qed.

(* post-condition of a group of qualifier lines *)
Definition qpost (excl : list str) (s : st) (lines : list str) (m' : list (str * qv)) : Prop :=
  Forall okline lines /\ exists s', steps_any excl s lines = ROk s' /\ ftmeta s' = Some m' /\ fts_frame s s'.

Lemma step_is_fts excl s l : mode s = PFts -> step excl s l = step_fts excl s l.
Proof. intros H. unfold step. now rewrite H. Qed.

Definition mchunk (c : str) : Prop := c <> [] /\ (is_ws (hd sp c) = false /\ is_ws (last c sp) = false) /\ noq_ends c = true.
Lemma mchunk_hd c : mchunk c -> is_ws (hd sp c) = false.
Proof. intros (_ & (H & _) & _). exact H. Qed.
Lemma mchunk_tail c : mchunk c -> tail_ok c.
Proof.
  intros (H1 & (_ & H2) & _). exists (removelast c), [last c sp]. split; [apply app_removelast_last; exact H1|].
  split; [discriminate|]. cbn. now rewrite H2.
Qed.

Section qual_groups.
  Variable excl : list str.
  Hypothesis Hex : mem k_fts excl = false.

  Lemma cont_go k : forall r c s m x,
    mode s = PFts -> ftmeta s = Some m -> key2 s = Some (Some k) -> aget k m = Some (QS x) ->
    Forall mchunk (c :: r) -> Forall (fun c => byte_eqb "/" (hd sp c) = false) (c :: r) ->
    qpost excl s (qtext_go (ind ++ c) r) (aset k (QS (x ++ concat (c :: r))) m).
  Proof.
    induction r as [|c2 r' IH]; intros c s m x Hmo Hm Hk2 Hg Hc Hsl.
    - inversion Hc as [|? ? Hc1 _]; subst. inversion Hsl as [|? ? Hs1 _]; subst. destruct Hc1 as (C1 & C2 & C3).
      cbn [qtext_go concat]. rewrite app_nil_r. rewrite <- app_assoc.
      destruct (step_qual_cont excl Hex s m k x (c ++ [dq]) Hm Hk2 Hg) as (O & S).
      + exists c, [dq]. repeat split. discriminate.
      + destruct c; [congruence|]. cbn. apply C2.
      + destruct c; [congruence|]. exact Hs1.
      + destruct c; discriminate.
      + split; [constructor; [exact O|constructor]|]. eexists. split; [|split].
        * cbn [steps_any]. rewrite step_is_fts by exact Hmo. rewrite S. reflexivity.
        * cbn. rewrite strip_char_close by exact C3. reflexivity.
        * apply fts_frame_set.
    - inversion Hc as [|? ? Hc1 Hcr]; subst. inversion Hsl as [|? ? Hs1 Hsr]; subst. pose proof Hc1 as (C1 & C2 & C3).
      cbn [qtext_go].
      destruct (step_qual_cont excl Hex s m k x c Hm Hk2 Hg) as (O & S).
      + apply mchunk_tail. exact Hc1.
      + apply mchunk_hd. exact Hc1.
      + exact Hs1.
      + exact C1.
      + rewrite strip_char_plain in S by exact C3.
        set (s1 := set_ft s (fts s) (fttype s) (Some (aset k (QS (x ++ c)) m)) (key2 s) (locs s)) in *.
        destruct (IH c2 s1 (aset k (QS (x ++ c)) m) (x ++ c)) as (F & s' & S' & M' & Fr); try assumption; try reflexivity.
        * apply aget_aset_same.
        * split; [constructor; assumption|]. exists s'. split; [|split].
          -- cbn [steps_any]. rewrite step_is_fts by exact Hmo. rewrite S. exact S'.
          -- rewrite M', aset_aset. cbn [concat]. now rewrite <- app_assoc.
          -- eapply fts_frame_trans; [apply fts_frame_set|exact Fr].
  Qed.
End qual_groups.

Lemma nonempty_ne {A} (l : list A) : nonempty l = true -> l <> [].
Proof. destruct l; [discriminate|discriminate]. Qed.
Lemma wf_qkey_facts k : wf_qkey k = true -> is_wordstr k /\ str_eqb k k_misc = false.
Proof.
  unfold wf_qkey. intros H. repeat (apply andb_prop in H; destruct H as [H ?]).
  split; [split; [apply nonempty_ne; assumption|assumption]|]. now apply negb_true_iff.
Qed.
Lemma slash_hd c : negb (startswith ["/"%byte] c) = true -> byte_eqb "/" (hd sp c) = false.
Proof. destruct c as [|x t]; [reflexivity|]. cbn. rewrite andb_true_r. apply negb_true_iff. Qed.
Lemma digits_nows d : all_digits d = true -> d <> [] /\ nows d = true.
Proof. intros H. destruct (all_digits_forall d H) as [A B]. split; [exact B|apply digits_no_ws; exact A]. Qed.
Lemma misc_ok_other m k v : misc_ok m -> str_eqb k k_misc = false -> misc_ok (aset k v m).
Proof. unfold misc_ok. intros H E. now rewrite aget_aset_other. Qed.

Section qual_lines.
  Variable excl : list str.
  Hypothesis Hex : mem k_fts excl = false.

  Lemma qual_lines q s m : wf_qual q = true -> mode s = PFts -> ftmeta s = Some m -> misc_ok m ->
    qpost excl s (render_qual q) (apply_qual m q) /\ misc_ok (apply_qual m q).
  Proof.
    intros W Hmo Hm Hmi. destruct q as [k cs|k d|k v|k]; cbn [wf_qual] in W.
    - (* quoted text *)
      apply andb_prop in W. destruct W as [W W3]. apply andb_prop in W. destruct W as [Wk W2].
      destruct (wf_qkey_facts k Wk) as [Hk Hkm]. split; [|apply misc_ok_other; assumption].
      destruct cs as [|c0 [|c1 r]].
      + cbn [render_qual apply_qual concat]. fold ind.
        destruct (step_qual_kv excl Hex s m k [dq; dq] Hm Hk) as (O & S).
        { exists ("/"%byte :: k ++ ["="%byte; dq]), [dq]. split; [cbn [app]; rewrite <- app_assoc; reflexivity|split; [discriminate|reflexivity]]. }
        split; [constructor; [exact O|constructor]|]. eexists. split; [|split].
        * cbn [steps_any]. rewrite step_is_fts by exact Hmo. rewrite S. reflexivity.
        * reflexivity.
        * apply fts_frame_set.
      + cbn [forallb] in W2. apply andb_prop in W2. destruct W2 as [W2 _]. apply andb_prop in W2. destruct W2 as [_ Hdq].
        rewrite render_qtext. cbn [qtext_go apply_qual concat]. rewrite app_nil_r.
        replace ((ind ++ "/"%byte :: k ++ "="%byte :: dq :: c0) ++ [dq]) with (ind ++ "/"%byte :: k ++ "="%byte :: (dq :: c0 ++ [dq]))
          by (rewrite <- app_assoc; cbn [app]; rewrite <- app_assoc; reflexivity).
        destruct (step_qual_kv excl Hex s m k (dq :: c0 ++ [dq]) Hm Hk) as (O & S).
        { exists ("/"%byte :: k ++ "="%byte :: dq :: c0), [dq]. split; [|split; [discriminate|reflexivity]].
          cbn [app]. rewrite <- app_assoc. reflexivity. }
        assert (Q1 : qvalue (dq :: c0 ++ [dq]) = QS c0).
        { unfold qvalue. cbn [startswith]. rewrite byte_eqb_refl. cbn [andb negb]. now rewrite strip_char_both. }
        rewrite Q1 in S.
        split; [constructor; [exact O|constructor]|]. eexists. split; [|split].
        * cbn [steps_any]. rewrite step_is_fts by exact Hmo. rewrite S. reflexivity.
        * reflexivity.
        * apply fts_frame_set.
      + apply andb_prop in W3. destruct W3 as [Wne Wsl].
        assert (Hch : Forall mchunk (c0 :: c1 :: r)).
        { apply Forall_forall. intros c Hin. rewrite forallb_forall in Wne, W2. specialize (Wne c Hin). specialize (W2 c Hin).
          apply andb_prop in Wne. apply andb_prop in W2. destruct Wne as [N1 N2b], W2 as [_ N3]. apply andb_prop in N1. destruct N1 as [N1 N2a].
          split; [apply nonempty_ne; exact N1|split; [split; now apply negb_true_iff|exact N3]]. }
        assert (Hsl : Forall (fun c => byte_eqb "/" (hd sp c) = false) (c1 :: r)).
        { apply Forall_forall. intros c Hin. rewrite forallb_forall in Wsl. apply slash_hd. apply Wsl. exact Hin. }
        inversion Hch as [|? ? H0 Hrest]; subst. pose proof H0 as (C1 & C2 & C3).
        rewrite render_qtext. cbn [qtext_go apply_qual].
        destruct (step_qual_kv excl Hex s m k (dq :: c0) Hm Hk) as (O & S).
        { destruct (mchunk_tail c0 H0) as (a0 & g0 & E0 & G1 & G2).
          exists ("/"%byte :: k ++ "="%byte :: dq :: a0), g0. split; [|split; assumption].
          rewrite E0. cbn [app]. rewrite <- app_assoc. reflexivity. }
        assert (Q0 : qvalue (dq :: c0) = QS c0).
        { unfold qvalue. cbn [startswith]. rewrite byte_eqb_refl. cbn [andb negb]. now rewrite strip_char_open. }
        rewrite Q0 in S.
        set (s1 := set_ft s (fts s) (fttype s) (Some (aset k (QS c0) m)) (Some (Some k)) (locs s)) in *.
        destruct (cont_go excl Hex k r c1 s1 (aset k (QS c0) m) c0) as (F & s' & S' & M' & Fr); try assumption; try reflexivity.
        { apply aget_aset_same. }
        split; [constructor; assumption|]. exists s'. split; [|split].
        * cbn [steps_any]. rewrite step_is_fts by exact Hmo. rewrite S. exact S'.
        * rewrite M', aset_aset. reflexivity.
        * eapply fts_frame_trans; [apply fts_frame_set|exact Fr].
    - (* number *)
      apply andb_prop in W. destruct W as [Wk Wd]. destruct (wf_qkey_facts k Wk) as [Hk Hkm]. split; [|apply misc_ok_other; assumption].
      destruct (digits_nows d Wd) as [D1 D2]. cbn [render_qual apply_qual]. fold ind.
      destruct (step_qual_kv excl Hex s m k d Hm Hk) as (O & S).
      { exists ("/"%byte :: k ++ ["="%byte]), d. split; [|split; assumption]. cbn [app]. rewrite <- app_assoc. reflexivity. }
      split; [constructor; [exact O|constructor]|]. eexists. split; [|split].
      * cbn [steps_any]. rewrite step_is_fts by exact Hmo. rewrite S. reflexivity.
      * cbn. unfold qvalue. rewrite (py_int_digits d Wd).
        destruct (digits_head d Wd) as (c & t & E & Hc). rewrite E. cbn [startswith].
        assert (byte_eqb dq c = false) as -> by (destruct c; try reflexivity; vm_compute in Hc; discriminate Hc). reflexivity.
      * apply fts_frame_set.
    - (* unquoted word *)
      apply andb_prop in W. destruct W as [W Hnd].
      apply andb_prop in W. destruct W as [W Hnw]. apply andb_prop in W. destruct W as [W Hpr].
      apply andb_prop in W. destruct W as [W Hne].
      destruct (wf_qkey_facts k W) as [Hk Hkm]. split; [|apply misc_ok_other; assumption].
      cbn [render_qual apply_qual]. fold ind.
      destruct (step_qual_kv excl Hex s m k v Hm Hk) as (O & S).
      { exists ("/"%byte :: k ++ ["="%byte]), v. split; [|split; [apply nonempty_ne; exact Hne|exact Hnw]].
        cbn [app]. rewrite <- app_assoc. reflexivity. }
      split; [constructor; [exact O|constructor]|]. eexists. split; [|split].
      * cbn [steps_any]. rewrite step_is_fts by exact Hmo. rewrite S. reflexivity.
      * cbn [ftmeta set_ft]. unfold qvalue, raw_val.
        assert (Hst : startswith [dq] v = false).
        { destruct v as [|c t]; [discriminate Hne|]. cbn [startswith].
          apply negb_true_iff in Hnd. apply has_false_cons in Hnd. destruct Hnd as [Hnd _]. now rewrite Hnd. }
        rewrite Hst. reflexivity.
      * apply fts_frame_set.
    - (* flag *)
      apply andb_prop in W. destruct W as [W1 W2]. assert (Hk : is_wordstr k) by (split; [apply nonempty_ne; exact W1|exact W2]).
      cbn [render_qual apply_qual]. fold ind.
      destruct (step_qual_flag excl Hex s m k Hm Hk) as (O & S).
      unfold misc_ok in *. destruct (aget k_misc m) as [[x|z|xs]|] eqn:E; try contradiction.
      + split; [|rewrite aget_aset_same; exact I].
        split; [constructor; [exact O|constructor]|]. eexists. split; [|split].
        * cbn [steps_any]. rewrite step_is_fts by exact Hmo. rewrite S. reflexivity.
        * reflexivity.
        * apply fts_frame_set.
      + split; [|rewrite aget_aset_same; exact I].
        split; [constructor; [exact O|constructor]|]. eexists. split; [|split].
        * cbn [steps_any]. rewrite step_is_fts by exact Hmo. rewrite S. reflexivity.
        * reflexivity.
        * apply fts_frame_set.
  Qed.

  (* all qualifier lines of a feature *)
  Lemma quals_lines qs : forall s m, forallb wf_qual qs = true -> mode s = PFts -> ftmeta s = Some m -> misc_ok m ->
    qpost excl s (flat_map render_qual qs) (fold_left apply_qual qs m).
  Proof.
    induction qs as [|q r IH]; intros s m W Hmo Hm Hmi.
    - split; [constructor|]. exists s. split; [reflexivity|split; [exact Hm|apply fts_frame_refl]].
    - cbn [forallb] in W. apply andb_prop in W. destruct W as [Wq Wr].
      destruct (qual_lines q s m Wq Hmo Hm Hmi) as ((F1 & s1 & S1 & M1 & Fr1) & Hmi1).
      assert (Hmo1 : mode s1 = PFts) by (destruct Fr1 as (E & _); congruence).
      destruct (IH s1 (apply_qual m q) Wr Hmo1 M1 Hmi1) as (F2 & s2 & S2 & M2 & Fr2).
      cbn [flat_map fold_left]. split; [apply Forall_app; split; assumption|]. exists s2. split; [|split].
      + rewrite steps_any_app, S1. exact S2.
      + exact M2.
      + eapply fts_frame_trans; eassumption.
  Qed.
End qual_lines.

(* ---- list level: what the reader accumulates is the view of the qualifiers *)
Definition has_flag (qs : list qual) : bool := existsb is_flag qs.
Definition nonflag (q : qual) : bool := negb (is_flag q).
Definition keys_ok (qs : list qual) : Prop := Forall (fun q => is_flag q = true \/ str_eqb (qkey q) k_misc = false) qs.

Lemma str_eqb_sym a b : str_eqb a b = str_eqb b a.
Proof.
  destruct (str_eqb a b) eqn:E.
  - apply str_eqb_eq in E. subst. symmetry. apply str_eqb_refl.
  - destruct (str_eqb b a) eqn:E2; [|reflexivity]. apply str_eqb_eq in E2. subst. rewrite str_eqb_refl in E. discriminate.
Qed.
Lemma vq_seen_true qs f f' : view_quals qs f true = view_quals qs f' true.
Proof. induction qs as [|[k cs|k d|k v|k] r IH]; cbn [view_quals]; congruence. Qed.
Lemma vq_app a b f seen : view_quals (a ++ b) f seen = view_quals a f seen ++ view_quals b f (seen || has_flag a).
Proof.
  revert seen. induction a as [|[k cs|k d|k v|k] r IH]; intros seen; cbn [app view_quals has_flag existsb is_flag orb].
  - now rewrite orb_false_r.
  - fold (has_flag r). now rewrite IH.
  - fold (has_flag r). now rewrite IH.
  - fold (has_flag r). now rewrite IH.
  - rewrite orb_true_r. destruct seen; rewrite IH; reflexivity.
Qed.
Lemma vq_noflag qs f f' seen : has_flag qs = false -> view_quals qs f seen = view_quals qs f' seen.
Proof.
  induction qs as [|[k cs|k d|k v|k] r IH]; cbn [view_quals has_flag existsb is_flag orb]; intros H; try (rewrite (IH H); reflexivity); [reflexivity|discriminate].
Qed.
Lemma vq_aget_fresh k qs f seen : str_eqb k k_misc = false -> mem k (map qkey (filter nonflag qs)) = false ->
  aget k (view_quals qs f seen) = None.
Proof.
  intros Hm. revert seen. induction qs as [|q r IH]; intros seen H; [reflexivity|].
  destruct q as [k0 cs|k0 d|k0 v|k0]; cbn [filter nonflag is_flag negb map qkey mem existsb] in H; cbn [view_quals aget].
  1-3: apply orb_false_iff in H; destruct H as [H1 H2]; rewrite str_eqb_sym, H1; apply IH; exact H2.
  destruct seen; [apply IH; exact H|]. cbn [aget]. rewrite str_eqb_sym, Hm. apply IH. exact H.
Qed.
Lemma vq_aget_misc qs f : keys_ok qs ->
  aget k_misc (view_quals qs f true) = None /\
  aget k_misc (view_quals qs f false) = if has_flag qs then Some (QL f) else None.
Proof.
  induction 1 as [|q r Hq Hr IH]; [split; reflexivity|]. destruct IH as [IH1 IH2].
  destruct q as [k0 cs|k0 d|k0 v|k0]; cbn [view_quals aget has_flag existsb is_flag orb]; fold (has_flag r).
  1-3: destruct Hq as [Hq|Hq]; [discriminate Hq|]; cbn [qkey] in Hq; rewrite Hq; split; assumption.
  split; [exact IH1|]. cbn [aget]. now rewrite str_eqb_refl.
Qed.
Lemma vq_set_misc qs f f' : keys_ok qs -> has_flag qs = true ->
  aset k_misc (QL f') (view_quals qs f false) = view_quals qs f' false.
Proof.
  induction 1 as [|q r Hq Hr IH]; [discriminate|]. 
  destruct q as [k0 cs|k0 d|k0 v|k0]; cbn [view_quals aset has_flag existsb is_flag orb]; fold (has_flag r); intros Hf.
  1-3: destruct Hq as [Hq|Hq]; [discriminate Hq|]; cbn [qkey] in Hq; rewrite Hq; rewrite (IH Hf); reflexivity.
  rewrite str_eqb_refl. f_equal. apply vq_seen_true.
Qed.

Lemma distinct_app_one l k : distinct (l ++ [k]) = true -> distinct l = true /\ mem k l = false.
Proof.
  induction l as [|x r IH]; cbn [app distinct]; intros H; [split; reflexivity|].
  apply andb_prop in H. destruct H as [H1 H2]. destruct (IH H2) as [D M]. apply negb_true_iff in H1.
  unfold mem in H1. rewrite existsb_app in H1. apply orb_false_iff in H1. destruct H1 as [H1 H3]. cbn in H3. rewrite orb_false_r in H3.
  split; [unfold mem; rewrite H1; exact D|]. unfold mem in *. cbn [existsb]. rewrite str_eqb_sym, H3. exact M.
Qed.
Lemma wf_qual_keys_ok qs : forallb wf_qual qs = true -> keys_ok qs.
Proof.
  intros H. apply Forall_forall. intros q Hin. rewrite forallb_forall in H. specialize (H q Hin).
  destruct q as [k cs|k d|k v|k]; [right|right|right|left; reflexivity]; cbn [wf_qual qkey] in *.
  - apply andb_prop in H. destruct H as [H _]. apply andb_prop in H. destruct H as [H _]. apply wf_qkey_facts in H. tauto.
  - apply andb_prop in H. destruct H as [H _]. apply wf_qkey_facts in H. tauto.
  - do 4 (apply andb_prop in H; destruct H as [H _]). apply wf_qkey_facts in H. tauto.
Qed.
Lemma flag_names_noflag qs : has_flag qs = false -> flag_names qs = [].
Proof.
  induction qs as [|[k cs|k d|k v|k] r IH]; cbn [has_flag existsb is_flag orb flag_names flat_map app]; intros H; try (apply IH; exact H); [reflexivity|discriminate].
Qed.
Lemma flag_names_app a b : flag_names (a ++ b) = flag_names a ++ flag_names b.
Proof. apply flat_map_app. Qed.

Lemma fold_view qs : forallb wf_qual qs = true -> distinct (map qkey (filter nonflag qs)) = true ->
  fold_left apply_qual qs [] = view_quals qs (flag_names qs) false.
Proof.
  induction qs as [|q pre IH] using rev_ind; [reflexivity|]. intros W D.
  rewrite forallb_app in W. apply andb_prop in W. destruct W as [Wp Wq]. cbn [forallb] in Wq. rewrite andb_true_r in Wq.
  rewrite filter_app, map_app in D. pose proof (wf_qual_keys_ok pre Wp) as Kp.
  rewrite fold_left_app. cbn [fold_left]. rewrite flag_names_app, vq_app. cbn [orb].
  assert (NF : forall k val, q = QText k [] \/ True -> is_flag q = false -> qkey q = k ->
               str_eqb k k_misc = false -> view_quals [q] (flag_names pre ++ flag_names [q]) (has_flag pre) = [(k, val)] ->
               flag_names [q] = [] -> apply_qual (fold_left apply_qual pre []) q = aset k val (fold_left apply_qual pre []) ->
               apply_qual (fold_left apply_qual pre []) q =
               view_quals pre (flag_names pre ++ flag_names [q]) false ++ view_quals [q] (flag_names pre ++ flag_names [q]) (has_flag pre)).
  { intros k val _ Hf Hk Hm Hv Hn Ha. rewrite Ha, Hv, Hn, app_nil_r.
    assert (Dn : filter nonflag [q] = [q]) by (cbn; unfold nonflag; rewrite Hf; reflexivity).
    rewrite Dn in D. cbn [map] in D. rewrite Hk in D. destruct (distinct_app_one _ _ D) as [Dp Mk].
    rewrite (IH Wp Dp). apply aset_absent. apply vq_aget_fresh; assumption. }
  destruct q as [k cs|k d|k v|k].
  - cbn [wf_qual] in Wq. apply andb_prop in Wq. destruct Wq as [Wq _]. apply andb_prop in Wq. destruct Wq as [Wq _].
    destruct (wf_qkey_facts k Wq) as [_ Hm]. apply (NF k (QS (concat cs))); auto.
  - cbn [wf_qual] in Wq. apply andb_prop in Wq. destruct Wq as [Wq _].
    destruct (wf_qkey_facts k Wq) as [_ Hm]. apply (NF k (QI (dval d))); auto.
  - cbn [wf_qual] in Wq. do 4 (apply andb_prop in Wq; destruct Wq as [Wq _]).
    destruct (wf_qkey_facts k Wq) as [_ Hm]. apply (NF k (raw_val v)); auto.
  - clear NF. cbn [filter nonflag is_flag negb map] in D. rewrite app_nil_r in D. rewrite (IH Wp D).
    cbn [apply_qual flag_names flat_map app]. destruct (vq_aget_misc pre (flag_names pre) Kp) as [_ Hg]. rewrite Hg.
    destruct (has_flag pre) eqn:Hf.
    + rewrite vq_set_misc by assumption. cbn [view_quals]. now rewrite app_nil_r.
    + rewrite (flag_names_noflag pre Hf). cbn [app view_quals].
      rewrite aset_absent.
      * f_equal. apply vq_noflag. exact Hf.
      * destruct (vq_aget_misc pre [] Kp) as [_ Hg2]. rewrite Hf in Hg2. exact Hg2.
Qed.

(* ------------------------------------------------------------ Part C': whole features in the feature table *)
Definition hframe (s s' : st) : Prop :=
  mode s' = mode s /\ attrs s' = attrs s /\ key s' = key s /\ subkey s' = subkey s /\ seq s' = seq s /\ mfts s' = mfts s.
Lemma hframe_refl s : hframe s s. Proof. repeat split. Qed.
Lemma hframe_trans a b c : hframe a b -> hframe b c -> hframe a c.
Proof. unfold hframe. intros (?&?&?&?&?&?) (?&?&?&?&?&?). repeat split; congruence. Qed.
Lemma fts_frame_h s s' : fts_frame s s' -> hframe s s'.
Proof. unfold fts_frame, hframe. intros (?&?&?&?&?&?&_). repeat split; assumption. Qed.
Lemma hframe_set_ft s a b c d e : hframe s (set_ft s a b c d e).
Proof. repeat split. Qed.

Lemma flush_pending s ty e m : fttype s = Some ty -> locs s = Some (print e) -> ftmeta s = Some m ->
  wf_lexp e = true -> one_strand (sem e) = true ->
  flush s = ROk (set_ft s (fts s ++ [mkfeat ty (sort_locs (sem e)) m None]) None (ftmeta s) (key2 s) (locs s)).
Proof.
  intros H1 H2 H3 W O. unfold flush. rewrite H1, H2, (parse_print_loc_str e W), (mk_loctuple_sem _ O), H3. reflexivity.
Qed.
Lemma flush_none s : fttype s = None -> flush s = ROk s.
Proof. intros H. unfold flush. now rewrite H. Qed.

Lemma keych_facts c : is_keych c = true -> is_ws c = false /\ byte_eqb c "/" = false.
Proof. destruct c; vm_compute; intros H; try discriminate H; split; reflexivity. Qed.
Lemma keych_nows k : forallb is_keych k = true -> nows k = true.
Proof. apply forallb_impl. intros c H. destruct (keych_facts c H) as [E _]. now rewrite E. Qed.

Lemma step_key_line_flush key c0 excl s s1 :
  key <> [] -> nows key = true -> (length key <= 15)%nat -> c0 <> [] -> nows c0 = true ->
  mem k_fts excl = false -> flush s = ROk s1 -> str_eqb (lower key) k_origin = false ->
  step_fts excl s (spaces 5 ++ pad_right 16 key ++ c0) = ROk (set_ft s1 (fts s1) (Some key) (Some []) (Some None) (Some c0)).
Proof.
  intros Hk1 Hk2 Hk3 Hc1 Hc2 He Hf Ho. unfold step_fts. rewrite He.
  rewrite (firstn20_L0 key c0 Hk3), (blank_A key c0 Hk1 Hk2). cbn [negb]. rewrite Hf.
  rewrite (strip_A key Hk1 Hk2), (first_word_key key c0 Hk1 Hk2), Ho, (rest_L0 key c0 Hk1 Hk2 Hk3 Hc1 Hc2). reflexivity.
  all: exact Hk3.
Qed.
Lemma okline_key_line key c0 : key <> [] -> forallb is_keych key = true -> c0 <> [] -> nows c0 = true ->
  okline (spaces 5 ++ pad_right 16 key ++ c0).
Proof.
  intros Hk1 Hk2 Hc1 Hc2. destruct key as [|c k]; [congruence|]. cbn [forallb] in Hk2. apply andb_prop in Hk2. destruct Hk2 as [Hc _].
  destruct (keych_facts c Hc) as [E1 E2].
  destruct (okline_body 5 (pad_right 16 (c :: k) ++ c0) (pad_right 16 (c :: k)) c0 eq_refl Hc1 Hc2) as (O & _).
  - exact E1.
  - unfold pad_right. cbn [app]. apply neq_sl2_head. exact E2.
  - exact O.
Qed.
Lemma good_chunk_facts c : good_chunk c = true -> c <> [] /\ nows c = true /\ byte_eqb "/" (hd sp c) = false.
Proof.
  unfold good_chunk. intros H. apply andb_prop in H. destruct H as [H H3]. apply andb_prop in H. destruct H as [H1 H2].
  split; [apply nonempty_ne; exact H1|]. split; [exact H2|]. destruct c; [reflexivity|]. now apply negb_true_iff.
Qed.
Lemma okline_cont c : good_chunk c = true -> okline (spaces 21 ++ c).
Proof.
  intros H. destruct (good_chunk_facts c H) as (H1 & H2 & H3). destruct (nows_head c H1 H2) as (x & t & E & Hx). subst c.
  destruct (okline_body 21 (x :: t) [] (x :: t) eq_refl H1 H2 Hx) as (O & _); [|exact O].
  apply neq_sl2_head. cbn in H3. destruct (byte_eqb x "/") eqn:E; [|reflexivity]. apply byte_eqb_eq in E. subst. discriminate H3.
Qed.
Lemma steps_any_cont excl cs : mem k_fts excl = false -> forallb good_chunk cs = true ->
  forall s lc, mode s = PFts -> key2 s = Some None -> locs s = Some lc ->
  Forall okline (map (fun x => spaces 21 ++ x) cs) /\
  steps_any excl s (map (fun x => spaces 21 ++ x) cs) = ROk (set_ft s (fts s) (fttype s) (ftmeta s) (key2 s) (Some (lc ++ concat cs))).
Proof.
  intros He. induction cs as [|c r IH]; cbn [forallb map steps_any concat]; intros Hg s lc Hmo Hk Hl.
  - split; [constructor|]. rewrite app_nil_r. destruct s; cbn in *. subst. reflexivity.
  - apply andb_prop in Hg. destruct Hg as [Hc Hr]. rewrite step_is_fts by exact Hmo.
    rewrite (step_cont_line excl s lc c He Hk Hl Hc).
    destruct (IH Hr (set_ft s (fts s) (fttype s) (ftmeta s) (key2 s) (Some (lc ++ c))) (lc ++ c)) as [F S]; try (cbn; (assumption || reflexivity)).
    split; [constructor; [apply okline_cont; exact Hc|exact F]|]. rewrite S. cbn. now rewrite <- app_assoc.
Qed.

Definition feat0 (f : afeat) : feat :=
  mkfeat (akey f) (sort_locs (sem (aloc f))) (quals_dict (aquals f)) None.
Definition pend_view (s : st) (F : list feat) : Prop :=
  exists s1, flush s = ROk s1 /\ fts s1 = F /\ fttype s1 = None /\ hframe s s1.

Lemma origin_prefix_neq k : startswith k_origin (lower k) = false -> str_eqb (lower k) k_origin = false.
Proof.
  intros H. destruct (str_eqb (lower k) k_origin) eqn:E; [|reflexivity]. apply str_eqb_eq in E. rewrite E in H. discriminate H.
Qed.

Section feature_lines.
  Variable excl : list str.
  Hypothesis Hex : mem k_fts excl = false.

  (* key line, location lines and qualifier lines of one feature: the feature is pending afterwards (not yet built) *)
  Lemma feature_pre f s s1 : mode s = PFts -> flush s = ROk s1 -> fttype s1 = None -> hframe s s1 -> wf_afeat_pre f = true ->
    Forall okline (render_feat f) /\ exists sc, steps_any excl s (render_feat f) = ROk sc /\ mode sc = PFts /\ hframe s sc
      /\ fts sc = fts s1 /\ fttype sc = Some (akey f) /\ locs sc = Some (print (aloc f))
      /\ ftmeta sc = Some (quals_dict (aquals f)).
  Proof.
    intros Hmo Hfl Hty Hfr W. unfold wf_afeat_pre in W.
    apply andb_prop in W. destruct W as [W Wq].
    apply andb_prop in W. destruct W as [W We]. apply andb_prop in W. destruct W as [W Wor]. apply andb_prop in W. destruct W as [W Wlen].
    apply andb_prop in W. destruct W as [Wne Wch].
    apply nonempty_ne in Wne. apply Nat.leb_le in Wlen. apply negb_true_iff in Wor.
    pose proof (keych_nows _ Wch) as Hkn.
    rewrite render_feat_split.
    pose proof (wrapped_chunks_good (aloc f) (awrap f) We) as Hgood.
    pose proof (wrap_concat (print (aloc f)) (awrap f)) as Hcat.
    destruct (wrap_at (print (aloc f)) (awrap f)) as [|c0 cr] eqn:Ew.
    { exfalso. cbn in Hcat. pose proof (parse_print_loc_str _ We) as P. rewrite <- Hcat in P. vm_compute in P. discriminate P. }
    cbn [forallb] in Hgood. apply andb_prop in Hgood. destruct Hgood as [Hg0 Hgr].
    destruct (good_chunk_facts c0 Hg0) as (Hc1 & Hc2 & _).
    cbn [loc_lines].
    pose proof (step_key_line_flush (akey f) c0 excl s s1 Wne Hkn Wlen Hc1 Hc2 Hex Hfl (origin_prefix_neq _ Wor)) as S0.
    set (sa := set_ft s1 (fts s1) (Some (akey f)) (Some []) (Some None) (Some c0)) in *.
    assert (Hmo1 : mode s1 = PFts) by (destruct Hfr as (E & _); congruence).
    destruct (steps_any_cont excl cr Hex Hgr sa c0 Hmo1 eq_refl eq_refl) as [Fc Sc].
    set (sb := set_ft sa (fts sa) (fttype sa) (ftmeta sa) (key2 sa) (Some (c0 ++ concat cr))) in *.
    destruct (quals_lines excl Hex (aquals f) sb [] Wq Hmo1 eq_refl I) as (Fq & sc & Sq & Mq & Frq).
    split.
    - cbn [app]. constructor; [apply okline_key_line; assumption|]. apply Forall_app. split; assumption.
    - exists sc. split; [|split; [|split]].
      + cbn [app steps_any]. rewrite step_is_fts by exact Hmo. rewrite S0. rewrite steps_any_app.
        match goal with |- match ?X with _ => _ end = _ => replace X with (ROk sb) by (symmetry; exact Sc) end. exact Sq.
      + destruct Frq as (E & _). rewrite E. exact Hmo1.
      + eapply hframe_trans; [exact Hfr|]. eapply hframe_trans; [|apply fts_frame_h; exact Frq]. repeat split.
      + destruct Frq as (_&_&_&_&_&_&Ef&Et&El). split; [rewrite Ef; reflexivity|]. split; [rewrite Et; reflexivity|].
        split; [rewrite El; cbn; cbn [concat] in Hcat; now rewrite Hcat|exact Mq].
  Qed.

  Lemma feature_lines f s F : mode s = PFts -> pend_view s F -> wf_afeat f = true ->
    Forall okline (render_feat f) /\ exists s2, steps_any excl s (render_feat f) = ROk s2 /\ mode s2 = PFts /\ hframe s s2
      /\ pend_view s2 (F ++ [feat0 f]).
  Proof.
    intros Hmo (s1 & Hfl & HF & Hty & Hfr) W. unfold wf_afeat in W. apply andb_prop in W. destruct W as [W Wone].
    destruct (feature_pre f s s1 Hmo Hfl Hty Hfr W) as (Fo & sc & Sc & Mc & Frc & Ef & Et & El & Mq).
    split; [exact Fo|]. exists sc. split; [exact Sc|]. split; [exact Mc|]. split; [exact Frc|].
    assert (We : wf_lexp (aloc f) = true).
    { unfold wf_afeat_pre in W. apply andb_prop in W. destruct W as [W _]. apply andb_prop in W. destruct W as [_ W]. exact W. }
    eexists. split; [apply (flush_pending sc _ _ _ Et El Mq We Wone)|]. split; [|split; [reflexivity|apply hframe_set_ft]].
    cbn [fts set_ft]. rewrite Ef, HF. reflexivity.
  Qed.

  Lemma features_lines fs : forall s F, mode s = PFts -> pend_view s F -> forallb wf_afeat fs = true ->
    Forall okline (flat_map render_feat fs) /\ exists s2, steps_any excl s (flat_map render_feat fs) = ROk s2 /\ mode s2 = PFts
      /\ hframe s s2 /\ pend_view s2 (F ++ map feat0 fs).
  Proof.
    induction fs as [|f r IH]; intros s F Hmo Hp W.
    - split; [constructor|]. exists s. rewrite app_nil_r. repeat split; assumption.
    - cbn [forallb] in W. apply andb_prop in W. destruct W as [Wf Wr].
      destruct (feature_lines f s F Hmo Hp Wf) as (F1 & s1 & S1 & M1 & Fr1 & P1).
      destruct (IH s1 (F ++ [feat0 f]) M1 P1 Wr) as (F2 & s2 & S2 & M2 & Fr2 & P2).
      cbn [flat_map map]. split; [apply Forall_app; split; assumption|]. exists s2. split; [|split; [|split]].
      + rewrite steps_any_app, S1. exact S2.
      + exact M2.
      + eapply hframe_trans; eassumption.
      + rewrite <- app_assoc in P2. exact P2.
  Qed.
End feature_lines.

(* ------------------------------------------------------------ Part D: header fields *)
Definition rest_frame (s s' : st) : Prop :=
  mode s' = mode s /\ fts s' = fts s /\ fttype s' = fttype s /\ ftmeta s' = ftmeta s /\ key2 s' = key2 s /\ locs s' = locs s
  /\ seq s' = seq s /\ mfts s' = mfts s.
Lemma rest_frame_refl s : rest_frame s s. Proof. repeat split. Qed.
Lemma rest_frame_trans a b c : rest_frame a b -> rest_frame b c -> rest_frame a c.
Proof. unfold rest_frame. intros (?&?&?&?&?&?&?&?) (?&?&?&?&?&?&?&?). repeat split; congruence. Qed.
Lemma rest_frame_set s a k sk : rest_frame s (set_hdr s a k sk). Proof. repeat split. Qed.

Definition shape (V : hv) (sko : option str) : Prop :=
  match sko with
  | None => exists x, V = HS x
  | Some sk => sk <> [] /\ exists l x, V = HA l /\ aget sk l = Some (HS x)
  end.
Definition hstate (s : st) (k : str) (V : hv) (sko : option str) : Prop :=
  mode s = PHeader /\ key s = Some k /\ aget k (attrs s) = Some V /\ subkey s = sko /\ shape V sko.

Lemma upper_facts c : is_upper c = true ->
  is_ws c = false /\ is_ws (lower1 c) = false /\ byte_eqb c "/" = false /\ byte_eqb sp c = false /\ upper1 (lower1 c) = c.
Proof. destruct c; vm_compute; intros H; try discriminate H; repeat split; reflexivity. Qed.
Lemma lower_spaces n : lower (spaces n) = spaces n.
Proof. induction n; [reflexivity|]. cbn. f_equal. exact IHn. Qed.
Lemma lower_app a b : lower (a ++ b) = lower a ++ lower b.
Proof. apply map_app. Qed.
Lemma lower_upper_nows k : forallb is_upper k = true -> nows (lower k) = true /\ nows k = true.
Proof.
  induction k as [|c k IH]; cbn [forallb]; intros H; [split; reflexivity|]. apply andb_prop in H. destruct H as [Hc Hk].
  destruct (upper_facts c Hc) as (E1 & E2 & _). destruct (IH Hk) as [I1 I2]. cbn. rewrite E1, E2. cbn. split; assumption.
Qed.
Lemma upper_lower_id k : forallb is_upper k = true -> upper (lower k) = k.
Proof.
  induction k as [|c k IH]; cbn [forallb]; intros H; [reflexivity|]. apply andb_prop in H. destruct H as [Hc Hk].
  destruct (upper_facts c Hc) as (_ & _ & _ & _ & E). cbn. rewrite E. f_equal. apply IH. exact Hk.
Qed.
Lemma strip_padded a w b : w <> [] -> nows w = true -> strip (spaces a ++ w ++ spaces b) = w.
Proof.
  intros H1 H2. unfold strip. rewrite lstrip_spaces. destruct (nows_head w H1 H2) as (c & r & E & Hc). rewrite E at 1. cbn [app].
  rewrite lstrip_head by exact Hc. change (c :: r ++ spaces b) with ((c :: r) ++ spaces b). rewrite <- E.
  rewrite rstrip_app_spaces. apply rstrip_no_ws. exact H2.
Qed.
Lemma firstn_all_short {A} (l : list A) n : (length l <= n)%nat -> firstn n l = l.
Proof. apply firstn_all2. Qed.
Lemma take_word_snoc_ws a c t : is_ws c = true -> take_word (a ++ c :: t) = take_word a.
Proof. intros H. induction a as [|x a IH]; cbn [app take_word]; [now rewrite H|]. destruct (is_ws x); [reflexivity|now rewrite IH]. Qed.
Lemma first_word_app_ws v c t : is_ws c = true -> first_word v <> None -> first_word (v ++ c :: t) = first_word v.
Proof.
  intros Hc Hv. unfold first_word in *. 
  assert (E : lstrip (v ++ c :: t) = lstrip v ++ c :: t).
  { induction v as [|x v IH]; [cbn in Hv; congruence|]. cbn [app lstrip]. destruct (is_ws x) eqn:Ex; [|reflexivity].
    apply IH. cbn [lstrip] in Hv. now rewrite Ex in Hv. }
  rewrite E, take_word_snoc_ws by exact Hc. reflexivity.
Qed.
Lemma wf_text_facts t : wf_text t = true ->
  t <> [] /\ is_ws (hd sp t) = false /\ (exists a g, t = a ++ g /\ g <> [] /\ nows g = true) /\ str_eqb t sl2 = false.
Proof.
  unfold wf_text. intros H. apply andb_prop in H. destruct H as [H H5]. apply andb_prop in H. destruct H as [H H4].
  apply andb_prop in H. destruct H as [H H3]. apply andb_prop in H. destruct H as [_ H2].
  apply nonempty_ne in H2. apply negb_true_iff in H3, H4, H5. split; [exact H2|]. split; [exact H3|]. split; [|exact H5].
  exists (removelast t), [last t sp]. split; [apply app_removelast_last; exact H2|]. split; [discriminate|]. cbn. now rewrite H4.
Qed.

(* continuation lines "            text" *)
Lemma cont_line_facts t : wf_text t = true ->
  okline (spaces 12 ++ t) /\ strip (spaces 12 ++ t) = t /\ startswith [sp] (spaces 12 ++ t) = true /\ startswith (spaces 12) (spaces 12 ++ t) = true.
Proof.
  intros W. destruct (wf_text_facts t W) as (H1 & H2 & (a & g & E & Hg & Hn) & H5).
  destruct (okline_body 12 t a g E Hg Hn H2 H5) as (O & S & _). split; [exact O|]. split; [exact S|]. split; reflexivity.
Qed.

Lemma hdr_cont_lines excl ts : forallb wf_text ts = true -> forall s k V sko, hstate s k V sko ->
  Forall okline (map (fun x => spaces 12 ++ x) ts) /\
  exists s' V', steps_any excl s (map (fun x => spaces 12 ++ x) ts) = ROk s' /\ hstate s' k V' sko
    /\ attrs s' = aset k V' (attrs s) /\ rest_frame s s'
    /\ (forall x, sko = None -> V = HS x -> V' = HS (add_cont x ts))
    /\ (forall sk l x, sko = Some sk -> V = HA l -> aget sk l = Some (HS x) -> V' = HA (aset sk (HS (add_cont x ts)) l)).
Proof.
  induction ts as [|t r IH]; cbn [forallb map]; intros W s k V sko Hs.
  - split; [constructor|]. exists s, V. split; [reflexivity|]. split; [exact Hs|]. split; [|split; [apply rest_frame_refl|split]].
    + destruct Hs as (_ & _ & Hg & _). clear - Hg. revert Hg. generalize (attrs s). intros m. induction m as [|[a w] m IH]; cbn; [discriminate|].
      destruct (str_eqb a k) eqn:E; [intros H; inversion H; reflexivity|]. intros H. now rewrite <- IH.
    + intros x _ E. exact E.
    + intros sk l x _ E G. subst V. f_equal. cbn [add_cont fold_left]. symmetry. apply aset_same_val. exact G.
  - apply andb_prop in W. destruct W as [Wt Wr]. destruct (cont_line_facts t Wt) as (O & S & B1 & B2).
    destruct Hs as (Hmo & Hk & Hg & Hsk & Hsh).
    assert (exists s1 V1, step excl s (spaces 12 ++ t) = ROk s1 /\ hstate s1 k V1 sko /\ attrs s1 = aset k V1 (attrs s) /\ rest_frame s s1
             /\ (forall x, sko = None -> V = HS x -> V1 = HS (x ++ sp :: t))
             /\ (forall sk l x, sko = Some sk -> V = HA l -> aget sk l = Some (HS x) -> V1 = HA (aset sk (HS (x ++ sp :: t)) l)))
      as (s1 & V1 & S1 & H1 & A1 & F1 & X1 & Y1).
    { unfold step. rewrite Hmo. unfold step_header. rewrite B1. cbn [negb]. rewrite B2, Hk, Hg, Hsk, S.
      destruct sko as [sk|].
      - destruct Hsh as (Hne & l & x & EV & El). destruct sk as [|c sk']; [congruence|]. subst V. rewrite El.
        eexists. eexists. split; [reflexivity|]. split; [|split; [reflexivity|split; [apply rest_frame_set|split; [intros; discriminate|]]]].
        + split; [exact Hmo|]. split; [reflexivity|]. split; [apply aget_aset_same|]. split; [reflexivity|].
          split; [discriminate|]. eexists. eexists. split; [reflexivity|apply aget_aset_same].
        + intros sk2 l2 x2 E1 E2 G. inversion E1; subst sk2. inversion E2; subst l2. rewrite El in G. inversion G; subst x2. reflexivity.
      - destruct Hsh as (x & EV). subst V.
        eexists. eexists. split; [reflexivity|]. split; [|split; [reflexivity|split; [apply rest_frame_set|split]]].
        + split; [exact Hmo|]. split; [reflexivity|]. split; [apply aget_aset_same|]. split; [reflexivity|]. eexists. reflexivity.
        + intros x' _ E. inversion E. reflexivity.
        + intros; discriminate. }
    destruct (IH Wr s1 k V1 sko H1) as (F & s' & V' & S' & H' & A' & Fr' & X' & Y').
    split; [constructor; assumption|]. exists s', V'. split; [|split; [exact H'|split; [|split; [|split]]]].
    + cbn [steps_any]. rewrite S1. exact S'.
    + rewrite A', A1, aset_aset. reflexivity.
    + eapply rest_frame_trans; eassumption.
    + intros x E1 E2. cbn [add_cont fold_left]. apply (X' (x ++ sp :: t) E1). apply (X1 x E1 E2).
    + intros sk l x E1 E2 G. cbn [add_cont fold_left]. rewrite (Y' sk (aset sk (HS (x ++ sp :: t)) l) (x ++ sp :: t) E1).
      * now rewrite aset_aset.
      * apply (Y1 sk l x E1 E2 G).
      * apply aget_aset_same.
Qed.

Section name_line.
  Variables (p m : nat) (name : str).
  Hypothesis Hn1 : name <> [].
  Hypothesis Hn2 : forallb is_upper name = true.
  Hypothesis Hlen : (p + length name + m = 12)%nat.
  Hypothesis Hm : (1 <= m)%nat.

  Lemma name_nows : nows name = true /\ nows (lower name) = true /\ lower name <> [].
  Proof.
    destruct (lower_upper_nows name Hn2) as [A B]. split; [exact B|split; [exact A|]]. destruct name; [congruence|discriminate].
  Qed.
  Lemma name_head : is_ws (hd sp name) = false /\ byte_eqb (hd sp name) "/" = false /\ byte_eqb sp (hd sp name) = false.
  Proof.
    destruct name as [|c r]; [congruence|]. cbn [forallb] in Hn2. apply andb_prop in Hn2. destruct Hn2 as [Hc _].
    destruct (upper_facts c Hc) as (A & _ & B & C & _). cbn. repeat split; assumption.
  Qed.
  Lemma line0_facts :
    okline (spaces p ++ name) /\ strip (lower (firstn 12 (spaces p ++ name))) = lower name /\ value_of (spaces p ++ name) = []
    /\ rstrip (spaces p ++ name ++ spaces m) = spaces p ++ name.
  Proof.
    destruct name_nows as (N1 & N2 & N3). destruct name_head as (H1 & H2 & _).
    destruct (okline_body p name [] name eq_refl Hn1 N1 H1) as (O & S & _).
    { destruct name; [congruence|]. apply neq_sl2_head. exact H2. }
    split; [exact O|]. split; [|split].
    - rewrite firstn_all_short by (rewrite app_length, spaces_length; lia).
      rewrite lower_app, lower_spaces. pose proof (strip_padded p (lower name) 0 N3 N2) as SP.
      cbn [spaces repeat] in SP. rewrite app_nil_r in SP. exact SP.
    - unfold value_of. rewrite S. unfold rest_after_first.
      destruct (nows_head name Hn1 N1) as (c & r & E & Hc). rewrite E at 1. rewrite lstrip_head by exact Hc. rewrite <- E.
      destruct (take_word_app name [] N1 eq_refl) as [_ D]. rewrite app_nil_r in D. rewrite D. reflexivity.
    - rewrite app_assoc. rewrite rstrip_app_spaces. apply rstrip_app_nows; assumption.
  Qed.
  Lemma line1_facts l : wf_text l = true ->
    okline (spaces p ++ name ++ spaces m ++ l) /\ strip (lower (firstn 12 (spaces p ++ name ++ spaces m ++ l))) = lower name
    /\ value_of (spaces p ++ name ++ spaces m ++ l) = l.
  Proof.
    intros W. destruct (wf_text_facts l W) as (L1 & L2 & (a & g & E & Hg & Hgn) & _).
    destruct name_nows as (N1 & N2 & N3). destruct name_head as (H1 & H2 & _).
    destruct (okline_body p (name ++ spaces m ++ l) (name ++ spaces m ++ a) g) as (O & S & _); try assumption.
    { rewrite E. now rewrite <- !app_assoc. }
    { destruct name; [congruence|]. exact H1. }
    { destruct name; [congruence|]. cbn [app]. apply neq_sl2_head. exact H2. }
    split; [exact O|]. split.
    - replace (spaces p ++ name ++ spaces m ++ l) with ((spaces p ++ name ++ spaces m) ++ l) by (now rewrite <- !app_assoc).
      replace 12%nat with (length (spaces p ++ name ++ spaces m)) by (rewrite !app_length, !spaces_length; lia).
      rewrite firstn_length_app. rewrite !lower_app, !lower_spaces. apply strip_padded; assumption.
    - unfold value_of. rewrite S. unfold rest_after_first.
      destruct (nows_head name Hn1 N1) as (c & r & En & Hc). rewrite En at 1. cbn [app]. rewrite lstrip_head by exact Hc.
      change (c :: r ++ spaces m ++ l) with ((c :: r) ++ spaces m ++ l). rewrite <- En.
      assert (Hs : (match spaces m ++ l with [] => true | c :: _ => is_ws c end) = true) by (destruct m; [lia|reflexivity]).
      destruct (take_word_app name _ N1 Hs) as [_ D]. rewrite D. rewrite lstrip_spaces.
      destruct l as [|x t]; [congruence|]. cbn [hd] in L2. rewrite lstrip_head by exact L2. reflexivity.
  Qed.
End name_line.

Lemma first_word_add_cont x ts : first_word x <> None -> first_word (add_cont x ts) = first_word x.
Proof.
  revert x. induction ts as [|t r IH]; intros x H; [reflexivity|]. cbn [add_cont fold_left].
  fold (add_cont (x ++ sp :: t) r). rewrite IH; rewrite first_word_app_ws by (reflexivity || exact H); [reflexivity|exact H].
Qed.
Lemma first_word_nonblank l : l <> [] -> is_ws (hd sp l) = false -> first_word l <> None.
Proof.
  destruct l as [|c r]; [congruence|]. cbn [hd]. intros _ H. unfold first_word. rewrite lstrip_head by exact H. cbn [take_word]. rewrite H. discriminate.
Qed.

Section header_fields.
  Variable excl : list str.

  Lemma key_field_lines name ls s :
    name <> [] -> forallb is_upper name = true -> (length name <= 10)%nat -> str_eqb (lower name) k_features = false ->
    forallb wf_text ls = true -> mode s = PHeader ->
    Forall okline (render_field_lines (pad_right 12 name) ls) /\
    exists s' x, steps_any excl s (render_field_lines (pad_right 12 name) ls) = ROk s' /\ hstate s' (lower name) (HS x) None
      /\ attrs s' = aset (lower name) (HS x) (attrs s) /\ rest_frame s s'
      /\ (str_eqb (lower name) k_locus = false -> forall l r, ls = l :: r -> first_word x = first_word l /\ first_word l <> None)
      /\ x = match ls with [] => [] | l :: r => add_cont (if str_eqb (lower name) k_locus then join (bs ", "%bs) (split_ws l) else l) r end.
  Proof.
    intros Hn1 Hn2 Hn3 Hnf W Hmo. unfold pad_right.
    assert (Hlen : (0 + length name + (12 - length name) = 12)%nat) by lia.
    assert (Hm : (1 <= 12 - length name)%nat) by lia.
    destruct (name_head _ _ name Hn1 Hn2 Hlen) as (_ & _ & Hsp).
    assert (Hst : forall t, startswith [sp] (name ++ t) = false).
    { intros t. destruct name as [|c r]; [congruence|]. cbn in *. now rewrite Hsp. }
    destruct ls as [|l r].
    - destruct (line0_facts 0 (12 - length name) name Hn1 Hn2 Hlen Hm) as (O & K & V & R). cbn [spaces repeat app] in O, K, V, R.
      cbn [render_field_lines]. rewrite R. split; [constructor; [exact O|constructor]|].
      exists (set_hdr s (aset (lower name) (HS (if str_eqb (lower name) k_locus then join (bs ", "%bs) (split_ws []) else [])) (attrs s)) (Some (lower name)) None), [].
      assert (E0 : (if str_eqb (lower name) k_locus then join (bs ", "%bs) (split_ws []) else []) = []) by (destruct (str_eqb (lower name) k_locus); reflexivity).
      rewrite E0. split; [|split; [|split; [|split; [|split]]]].
      + cbn [steps_any]. unfold step. rewrite Hmo. unfold step_header.
        rewrite <- (app_nil_r name) at 1. rewrite Hst. cbn [negb]. rewrite K, Hnf, V, E0. reflexivity.
      + split; [exact Hmo|]. split; [reflexivity|]. split; [apply aget_aset_same|]. split; [reflexivity|]. eexists. reflexivity.
      + reflexivity.
      + apply rest_frame_set.
      + intros _ l r E. discriminate E.
      + reflexivity.
    - cbn [forallb] in W. apply andb_prop in W. destruct W as [Wl Wr].
      destruct (line1_facts 0 (12 - length name) name Hn1 Hn2 Hlen Hm l Wl) as (O & K & V). cbn [spaces repeat app] in O, K, V.
      cbn [render_field_lines]. rewrite <- app_assoc.
      set (v := if str_eqb (lower name) k_locus then join (bs ", "%bs) (split_ws l) else l).
      set (s1 := set_hdr s (aset (lower name) (HS v) (attrs s)) (Some (lower name)) None).
      assert (S1 : step excl s (name ++ spaces (12 - length name) ++ l) = ROk s1).
      { unfold step. rewrite Hmo. unfold step_header. rewrite Hst. cbn [negb]. rewrite K, Hnf, V. reflexivity. }
      assert (H1 : hstate s1 (lower name) (HS v) None).
      { split; [exact Hmo|]. split; [reflexivity|]. split; [apply aget_aset_same|]. split; [reflexivity|]. eexists. reflexivity. }
      destruct (hdr_cont_lines excl r Wr s1 _ _ _ H1) as (F & s' & V' & S' & H' & A' & Fr' & X' & _).
      specialize (X' v eq_refl eq_refl). subst V'.
      split; [constructor; assumption|]. exists s', (add_cont v r). split; [|split; [exact H'|split; [|split; [|split; [|reflexivity]]]]].
      + cbn [steps_any]. rewrite S1. exact S'.
      + rewrite A'. unfold s1. cbn [attrs set_hdr]. apply aset_aset.
      + eapply rest_frame_trans; [apply rest_frame_set|exact Fr'].
      + intros Hl l0 r0 E. inversion E; subst l0 r0. unfold v. rewrite Hl.
        destruct (wf_text_facts l Wl) as (L1 & L2 & _). pose proof (first_word_nonblank l L1 L2) as Hfw.
        split; [apply first_word_add_cont; exact Hfw|exact Hfw].
  Qed.

  Lemma sub_field_lines name ls s k V sko :
    name <> [] -> forallb is_upper name = true -> (length name <= 9)%nat ->
    forallb wf_text ls = true -> hstate s k V sko ->
    Forall okline (render_field_lines (spaces 2 ++ pad_right 10 name) ls) /\
    exists s' V', steps_any excl s (render_field_lines (spaces 2 ++ pad_right 10 name) ls) = ROk s'
      /\ hstate s' k V' (Some (lower name)) /\ attrs s' = aset k V' (attrs s) /\ rest_frame s s' /\ V' = sub_val V (name, ls).
  Proof.
    intros Hn1 Hn2 Hn3 W (Hmo & Hk & Hg & Hsk & Hsh). unfold pad_right.
    assert (Hlen : (2 + length name + (10 - length name) = 12)%nat) by lia.
    assert (Hm : (1 <= 10 - length name)%nat) by lia.
    destruct (name_head _ _ name Hn1 Hn2 Hlen) as (_ & _ & Hsp). destruct (name_nows _ _ name Hn1 Hn2 Hlen) as (_ & _ & Hlne).
    assert (Hst : forall t, startswith [sp] (spaces 2 ++ name ++ t) = true /\ startswith (spaces 12) (spaces 2 ++ name ++ t) = false).
    { intros t. destruct name as [|c r]; [congruence|]. cbn in *. now rewrite Hsp. }
    assert (Hstep : forall X v, startswith [sp] X = true -> startswith (spaces 12) X = false ->
              strip (lower (firstn 12 X)) = lower name -> value_of X = v ->
              exists s1, step excl s X = ROk s1 /\ hstate s1 k (HA (aset (lower name) (HS v) [(k_id, V)])) (Some (lower name))
                /\ attrs s1 = aset k (HA (aset (lower name) (HS v) [(k_id, V)])) (attrs s) /\ rest_frame s s1).
    { intros X v B1 B2 K Vv. unfold step. rewrite Hmo. unfold step_header. rewrite B1. cbn [negb]. rewrite B2, K, Vv, Hk, Hg.
      eexists. split; [reflexivity|]. split; [|split; [reflexivity|apply rest_frame_set]].
      split; [exact Hmo|]. split; [reflexivity|]. split; [apply aget_aset_same|]. split; [reflexivity|].
      split; [exact Hlne|]. eexists. eexists. split; [reflexivity|apply aget_aset_same]. }
    destruct ls as [|l r].
    - destruct (line0_facts 2 (10 - length name) name Hn1 Hn2 Hlen Hm) as (O & K & Vv & R).
      cbn [render_field_lines]. rewrite R. split; [constructor; [exact O|constructor]|].
      destruct (Hst []) as [B1 B2]. rewrite app_nil_r in B1, B2.
      destruct (Hstep _ _ B1 B2 K Vv) as (s1 & S1 & H1 & A1 & F1).
      exists s1. eexists. split; [cbn [steps_any]; now rewrite S1|]. split; [exact H1|split; [exact A1|split; [exact F1|reflexivity]]].
    - cbn [forallb] in W. apply andb_prop in W. destruct W as [Wl Wr].
      destruct (line1_facts 2 (10 - length name) name Hn1 Hn2 Hlen Hm l Wl) as (O & K & Vv).
      cbn [render_field_lines]. rewrite <- !app_assoc.
      destruct (Hst (spaces (10 - length name) ++ l)) as [B1 B2].
      destruct (Hstep _ _ B1 B2 K Vv) as (s1 & S1 & H1 & A1 & F1).
      destruct (hdr_cont_lines excl r Wr s1 _ _ _ H1) as (F & s' & V' & S' & H' & A' & Fr' & _ & Y').
      specialize (Y' (lower name) _ l eq_refl eq_refl (aget_aset_same _ _ _)). rewrite aset_aset in Y'.
      split; [constructor; assumption|]. exists s', V'. split; [|split; [exact H'|split; [|split]]].
      + cbn [steps_any]. rewrite S1. exact S'.
      + rewrite A', A1. apply aset_aset.
      + eapply rest_frame_trans; eassumption.
      + exact Y'.
  Qed.
End header_fields.

Definition acc_ok (a : list (str * hv)) (o : option str) : Prop :=
  match o with
  | None => aget k_accession a = None
  | Some w => exists v, aget k_accession a = Some (HS v) /\ first_word v = Some w
  end.
Definition wf_sub (p : str * list str) : bool :=
  nonempty (fst p) && forallb is_upper (fst p) && (length (fst p) <=? 9)%nat && negb (mem (lower (fst p)) reserved) && forallb wf_text (snd p).

Section header_all.
  Variable excl : list str.

  Lemma subs_lines subs : forallb wf_sub subs = true -> forall s k V sko, hstate s k V sko ->
    Forall okline (flat_map (fun p => render_field_lines (spaces 2 ++ pad_right 10 (fst p)) (snd p)) subs) /\
    exists s' V' sko', steps_any excl s (flat_map (fun p => render_field_lines (spaces 2 ++ pad_right 10 (fst p)) (snd p)) subs) = ROk s'
      /\ hstate s' k V' sko' /\ attrs s' = aset k V' (attrs s) /\ rest_frame s s' /\ V' = fold_left sub_val subs V.
  Proof.
    induction subs as [|[nm ls] r IH]; cbn [forallb flat_map]; intros W s k V sko Hs.
    - split; [constructor|]. exists s, V, sko. split; [reflexivity|]. split; [exact Hs|]. split; [|split; [apply rest_frame_refl|reflexivity]].
      destruct Hs as (_ & _ & Hg & _). clear - Hg. revert Hg. generalize (attrs s). intros m. induction m as [|[a w] m IH]; cbn; [discriminate|].
      destruct (str_eqb a k) eqn:E; [intros H; inversion H; reflexivity|]. intros H. now rewrite <- IH.
    - apply andb_prop in W. destruct W as [Wp Wr]. unfold wf_sub in Wp. cbn [fst snd] in Wp.
      apply andb_prop in Wp. destruct Wp as [Wp W5]. apply andb_prop in Wp. destruct Wp as [Wp _].
      apply andb_prop in Wp. destruct Wp as [Wp W3]. apply andb_prop in Wp. destruct Wp as [W1 W2].
      apply nonempty_ne in W1. apply Nat.leb_le in W3. cbn [fst snd].
      destruct (sub_field_lines excl nm ls s k V sko W1 W2 W3 W5 Hs) as (F1 & s1 & V1 & S1 & H1 & A1 & Fr1 & E1).
      destruct (IH Wr s1 k V1 _ H1) as (F2 & s2 & V2 & sko2 & S2 & H2 & A2 & Fr2 & E2).
      split; [apply Forall_app; split; assumption|]. exists s2, V2, sko2. split; [|split; [exact H2|split; [|split]]].
      + rewrite steps_any_app, S1. exact S2.
      + rewrite A2, A1. apply aset_aset.
      + eapply rest_frame_trans; eassumption.
      + cbn [fold_left]. rewrite E2, E1. reflexivity.
  Qed.

  Lemma lower_accession k : forallb is_upper k = true -> str_eqb k k_ACCESSION = false -> str_eqb (lower k) k_accession = false.
  Proof.
    intros Hu Hn. destruct (str_eqb (lower k) k_accession) eqn:E; [|reflexivity]. apply str_eqb_eq in E.
    pose proof (upper_lower_id k Hu) as U. rewrite E in U. change (upper k_accession) with k_ACCESSION in U. subst k.
    rewrite str_eqb_refl in Hn. discriminate.
  Qed.

  Lemma field_lines h s o : wf_hfield h = true -> mode s = PHeader -> acc_ok (attrs s) o ->
    Forall okline (render_hfield h) /\
    exists s', steps_any excl s (render_hfield h) = ROk s' /\ mode s' = PHeader /\ rest_frame s s' /\ acc_ok (attrs s') (acc_step o h)
      /\ attrs s' = hdr_step (attrs s) h.
  Proof.
    intros W Hmo Ha. unfold wf_hfield in W.
    apply andb_prop in W. destruct W as [W W8]. apply andb_prop in W. destruct W as [W W7]. apply andb_prop in W. destruct W as [W W6].
    apply andb_prop in W. destruct W as [W _]. apply andb_prop in W. destruct W as [W W4]. apply andb_prop in W. destruct W as [W W3].
    apply andb_prop in W. destruct W as [W1 W2]. apply nonempty_ne in W1. apply Nat.leb_le in W3. apply negb_true_iff in W4.
    unfold render_hfield.
    destruct (key_field_lines excl (hk h) (hlines h) s W1 W2 W3 W4 W6 Hmo) as (F1 & s1 & x & S1 & H1 & A1 & Fr1 & X1 & Ex).
    destruct (subs_lines (hsubs h) W7 s1 _ _ _ H1) as (F2 & s2 & V2 & sko2 & S2 & H2 & A2 & Fr2 & EV).
    split; [apply Forall_app; split; assumption|]. exists s2. split; [|split; [|split; [|split]]].
    - rewrite steps_any_app, S1. exact S2.
    - destruct H2 as (E & _). exact E.
    - eapply rest_frame_trans; eassumption.
    - shelve.
    - rewrite A2, A1, aset_aset. unfold hdr_step, field_val, main_val. rewrite EV, Ex. reflexivity.
    Unshelve.
      rewrite A2, A1, aset_aset. unfold acc_step. destruct (str_eqb (hk h) k_ACCESSION) eqn:E.
      + apply str_eqb_eq in E. apply andb_prop in W8. destruct W8 as [W81 W82]. apply negb_true_iff in W82.
        destruct (hsubs h) as [|p r] eqn:Eh; [|discriminate W82].
        destruct (hlines h) as [|l r] eqn:El; [discriminate W81|].
        cbn [flat_map steps_any] in S2. inversion S2; subst s2. rewrite A1 in A2.
        destruct H1 as (_ & _ & G1 & _). destruct H2 as (_ & _ & G2 & _). rewrite G1 in G2. inversion G2; subst V2.
        rewrite E in *. change (lower k_ACCESSION) with k_accession in *.
        destruct (X1 eq_refl l r eq_refl) as [Xa Xb]. destruct (first_word l) as [w|] eqn:Ew; [|congruence].
        cbn [acc_ok]. exists x. split; [apply aget_aset_same|exact Xa].
      + pose proof (lower_accession _ W2 E) as Hne.
        unfold acc_ok in *. destruct o as [w|].
        * destruct Ha as (v & G & Fw). exists v. split; [|exact Fw]. rewrite aget_aset_other by exact Hne. exact G.
        * rewrite aget_aset_other by exact Hne. exact Ha.
  Qed.

  Lemma fields_lines hs : forallb wf_hfield hs = true -> forall s o, mode s = PHeader -> acc_ok (attrs s) o ->
    Forall okline (flat_map render_hfield hs) /\
    exists s', steps_any excl s (flat_map render_hfield hs) = ROk s' /\ mode s' = PHeader /\ rest_frame s s'
      /\ acc_ok (attrs s') (fold_left acc_step hs o) /\ attrs s' = fold_left hdr_step hs (attrs s).
  Proof.
    induction hs as [|h r IH]; cbn [forallb flat_map fold_left]; intros W s o Hmo Ha.
    - split; [constructor|]. exists s. split; [reflexivity|]. split; [exact Hmo|]. split; [apply rest_frame_refl|split; [exact Ha|reflexivity]].
    - apply andb_prop in W. destruct W as [Wh Wr].
      destruct (field_lines h s o Wh Hmo Ha) as (F1 & s1 & S1 & M1 & Fr1 & A1 & E1).
      destruct (IH Wr s1 _ M1 A1) as (F2 & s2 & S2 & M2 & Fr2 & A2 & E2).
      split; [apply Forall_app; split; assumption|]. exists s2. split; [|split; [exact M2|split; [|split; [exact A2|]]]].
      + rewrite steps_any_app, S1. exact S2.
      + eapply rest_frame_trans; eassumption.
      + rewrite E2, E1. reflexivity.
  Qed.
End header_all.

(* ------------------------------------------------------------ Part E: records and files *)
Lemma okline_concrete :
  okline feat_header /\ okline origin_line.
Proof. split; (split; [|split]); vm_compute; reflexivity. Qed.
Lemma step_feat_header excl s : mode s = PHeader ->
  step excl s feat_header = ROk (set_hdr (set_mode s PFts) (attrs s) None None).
Proof. intros H. unfold step. rewrite H. reflexivity. Qed.
Lemma step_origin_line excl s s1 : mode s = PFts -> mem k_fts excl = false -> flush s = ROk s1 ->
  step excl s origin_line =
  ROk (mkst POrigin (attrs s1) (Some origin_line) (subkey s1) (fts s1) (fttype s1) (ftmeta s1) (key2 s1) (locs s1) (seq s1) (Some (fts s1))).
Proof.
  intros Hm He Hf. unfold step. rewrite Hm. unfold step_fts. rewrite He.
  change (is_blank (firstn 20 origin_line)) with false. cbn [negb]. rewrite Hf. reflexivity.
Qed.
Lemma step_origin_line_excl excl s : mode s = PFts -> mem k_fts excl = true ->
  step excl s origin_line = ROk (set_mode s POrigin).
Proof. intros Hm He. unfold step. rewrite Hm. unfold step_fts. rewrite He. reflexivity. Qed.

(* with 'fts' excluded every line of the feature table is skipped *)
Definition skipped (l : str) : Prop := startswith k_origin (lower (strip (firstn 20 l))) = false.
Lemma skipped_ind x : skipped (spaces 21 ++ x).
Proof. unfold skipped. rewrite firstn20_cont. reflexivity. Qed.
Lemma qtext_go_skipped r : forall a, Forall skipped (qtext_go (ind ++ a) r).
Proof.
  induction r as [|c r IH]; intros a; cbn [qtext_go].
  - constructor; [|constructor]. rewrite <- app_assoc. apply skipped_ind.
  - constructor; [apply skipped_ind|apply IH].
Qed.
Lemma render_qual_skipped q : Forall skipped (render_qual q).
Proof.
  destruct q as [k [|c r]|k d|k v|k]; try (cbn [render_qual]; constructor; [apply skipped_ind|constructor]).
  rewrite render_qtext. apply qtext_go_skipped.
Qed.
Lemma render_feat_skipped f : wf_afeat_pre f = true -> Forall skipped (render_feat f).
Proof.
  intros W. unfold wf_afeat_pre in W.
  apply andb_prop in W. destruct W as [W _].
  apply andb_prop in W. destruct W as [W _].
  apply andb_prop in W. destruct W as [W Wor]. apply andb_prop in W. destruct W as [W Wlen].
  apply andb_prop in W. destruct W as [Wne Wch].
  apply nonempty_ne in Wne. apply Nat.leb_le in Wlen. apply negb_true_iff in Wor. pose proof (keych_nows _ Wch) as Hkn.
  rewrite render_feat_split. apply Forall_app. split.
  - destruct (wrap_at (print (aloc f)) (awrap f)) as [|c0 cr]; [constructor|]. cbn [loc_lines]. constructor.
    + unfold skipped. rewrite (firstn20_L0 (akey f) c0 Wlen). rewrite (strip_A (akey f) Wne Hkn) by exact Wlen. exact Wor.
    + apply Forall_forall. intros l Hin. apply in_map_iff in Hin. destruct Hin as (x & E & _). subst l. apply skipped_ind.
  - apply Forall_forall. intros l Hin. apply in_flat_map in Hin. destruct Hin as (q & _ & Hl).
    pose proof (render_qual_skipped q) as Hq. rewrite Forall_forall in Hq. apply Hq. exact Hl.
Qed.
Lemma steps_skipped excl ls s : mode s = PFts -> mem k_fts excl = true -> Forall skipped ls -> steps_any excl s ls = ROk s.
Proof.
  intros Hm He. induction 1 as [|l r Hl _ IH]; [reflexivity|]. cbn [steps_any]. unfold step. rewrite Hm. unfold step_fts. rewrite He.
  unfold skipped in Hl. rewrite Hl. exact IH.
Qed.

Lemma upper_idem s : upper (upper s) = upper s.
Proof. unfold upper. rewrite map_map. apply map_ext. intros c. destruct c; reflexivity. Qed.

Definition dummy_fts : st := set_mode (st0 None) PFts.

Lemma features_oklines fs : forallb wf_afeat_pre fs = true -> Forall okline (flat_map render_feat fs).
Proof.
  induction fs as [|f r IH]; cbn [forallb flat_map]; intros W; [constructor|]. apply andb_prop in W. destruct W as [Wf Wr].
  apply Forall_app. split; [|apply IH; exact Wr].
  destruct (feature_pre [] eq_refl f dummy_fts dummy_fts eq_refl eq_refl eq_refl (hframe_refl _) Wf) as [F _]. exact F.
Qed.
Lemma wf_afeat_all_pre fs : forallb wf_afeat fs = true -> forallb wf_afeat_pre fs = true.
Proof. apply forallb_impl. intros f H. unfold wf_afeat in H. apply andb_prop in H. tauto. Qed.

(* ---- a record without a FEATURES line: the ORIGIN block is read as header lines *)
Lemma startswith_app_same a b c : startswith (a ++ b) (a ++ c) = startswith b c.
Proof. induction a as [|x a IH]; [reflexivity|]. cbn [app startswith]. now rewrite byte_eqb_refl, IH. Qed.
Lemma origin_hdr_line pos l : all_digits (dec_of_nat pos) = true -> (length (dec_of_nat pos) <= 8)%nat ->
  startswith [sp] (origin_line_of pos l) = true /\ startswith (spaces 12) (origin_line_of pos l) = false.
Proof.
  intros Hd Hlen. unfold origin_line_of, pad_left. set (dg := dec_of_nat pos) in *.
  destruct (all_digits_forall dg Hd) as [Hdd Hdn]. destruct dg as [|d0 dr] eqn:Edg; [congruence|].
  assert (Hd0 : is_digit d0 = true) by (cbn in Hdd; apply andb_prop in Hdd; tauto).
  assert (Hsp : byte_eqb sp d0 = false) by (destruct d0; try reflexivity; vm_compute in Hd0; discriminate Hd0).
  set (n := (9 - length (d0 :: dr))%nat). assert (Hn : (1 <= n <= 8)%nat) by (unfold n; cbn [length] in *; lia).
  rewrite <- !app_assoc. split.
  - destruct n as [|n']; [lia|]. reflexivity.
  - replace 12%nat with (n + (12 - n))%nat by lia. unfold spaces at 1. rewrite repeat_app. fold (spaces n). fold (spaces (12 - n)).
    rewrite startswith_app_same. destruct (12 - n)%nat as [|m] eqn:E; [lia|]. cbn [spaces repeat app startswith]. now rewrite Hsp.
Qed.
Definition pos_ok8 (p : nat) : bool := all_digits (dec_of_nat p) && (length (dec_of_nat p) <=? 8)%nat.
Definition hdr_sub_step (V : hv) (l : str) : hv := HA (aset (strip (lower (firstn 12 l))) (HS (value_of l)) [(k_id, V)]).
Lemma origin_hdr_block excl ls : Forall chunk_ok ls -> forall pos s k V,
  forallb pos_ok8 (pos_list pos (length ls)) = true -> mode s = PHeader -> key s = Some k -> aget k (attrs s) = Some V ->
  Forall okline (origin_go ls pos) /\
  exists s', steps_any excl s (origin_go ls pos) = ROk s' /\ mode s' = PHeader /\ rest_frame s s'
    /\ attrs s' = aset k (fold_left hdr_sub_step (origin_go ls pos) V) (attrs s).
Proof.
  induction 1 as [|l r Hl Hr IH]; intros pos s k V Hp Hm Hk Hg.
  - split; [constructor|]. exists s. split; [reflexivity|]. split; [exact Hm|]. split; [apply rest_frame_refl|].
    cbn [origin_go fold_left]. symmetry. apply aset_same_val. exact Hg.
  - cbn [length pos_list forallb] in Hp. apply andb_prop in Hp. destruct Hp as [Hp0 Hp].
    unfold pos_ok8 in Hp0. apply andb_prop in Hp0. destruct Hp0 as [Hd Hlen]. apply Nat.leb_le in Hlen.
    destruct Hl as (Hl1 & Hl2 & Hl3).
    destruct (origin_line_facts pos l Hd ltac:(lia) Hl1 Hl2 Hl3) as (Ok & _ & _).
    destruct (origin_hdr_line pos l Hd Hlen) as [B1 B2].
    cbn [origin_go steps_any fold_left]. set (ln := origin_line_of pos l) in *.
    assert (S1 : step excl s ln = ROk (set_hdr s (aset k (hdr_sub_step V ln) (attrs s)) (key s) (Some (strip (lower (firstn 12 ln)))))).
    { unfold step. rewrite Hm. unfold step_header. rewrite B1. cbn [negb]. rewrite B2, Hk, Hg. reflexivity. }
    rewrite S1. set (s1 := set_hdr s (aset k (hdr_sub_step V ln) (attrs s)) (key s) (Some (strip (lower (firstn 12 ln))))) in *.
    destruct (IH (pos + 60)%nat s1 k (hdr_sub_step V ln) Hp Hm Hk (aget_aset_same _ _ _)) as (F & s' & S' & M' & Fr' & A').
    split; [constructor; assumption|]. exists s'. split; [exact S'|]. split; [exact M'|]. split.
    + eapply rest_frame_trans; [apply rest_frame_set|exact Fr'].
    + rewrite A'. unfold s1. cbn [attrs set_hdr]. apply aset_aset.
Qed.
Lemma origin_hdr_val_eq lines : origin_hdr_val lines = fold_left hdr_sub_step lines (HS []).
Proof. reflexivity. Qed.

Definition rec_pre (r : arec) : list str :=
  flat_map render_hfield (ahdr r) ++ (if afeatures r then [feat_header] ++ flat_map render_feat (afts r) else [])
  ++ (if aorigin r then [origin_line] ++ render_origin (aseq r) else []).

Lemma finish_view excl r s5 :
  fttype s5 = None -> acc_ok (attrs s5) (view_id r) ->
  attrs s5 = (if aorigin r && negb (afeatures r) then aset k_origin (origin_hdr_val (render_origin (aseq r))) (view_hdr (ahdr r))
              else view_hdr (ahdr r)) ->
  seq s5 = (if mem k_seq excl || negb (in_table r) then [] else aseq r) ->
  mfts s5 = (if mem k_fts excl || negb (in_table r) then None else Some (map feat0 (afts r))) ->
  finish excl s5 = ROk (view_rec excl r).
Proof.
  intros Ht Ha Hh Hs Hm. unfold finish, view_rec. rewrite Ht, Hs, Hm, <- Hh.
  assert (U : upper (upper (if mem k_seq excl || negb (in_table r) then [] else aseq r))
              = (if mem k_seq excl || negb (in_table r) then [] else upper (aseq r))).
  { destruct (mem k_seq excl || negb (in_table r)); [reflexivity|apply upper_idem]. }
  rewrite U. unfold acc_ok in Ha. unfold view_feat. destruct (view_id r) as [w|].
  - destruct Ha as (v & G & Fw). rewrite G, Fw. destruct (mem k_fts excl || negb (in_table r)); [destruct (mem k_translation excl); reflexivity|].
    destruct (mem k_translation excl); cbn [option_map]; rewrite ?map_map; reflexivity.
  - rewrite Ha. destruct (mem k_fts excl || negb (in_table r)); [destruct (mem k_translation excl); reflexivity|].
    destruct (mem k_translation excl); cbn [option_map]; rewrite ?map_map; reflexivity.
Qed.

(* header and feature-table lines of a record, up to the point where the ORIGIN line or '//' comes *)
Lemma table_steps excl r k2 : forallb wf_hfield (ahdr r) = true -> forallb wf_afeat_pre (afts r) = true ->
  (mem k_fts excl = false -> forallb wf_afeat (afts r) = true) ->
  Forall okline (flat_map render_hfield (ahdr r) ++ [feat_header] ++ flat_map render_feat (afts r)) /\
  exists s2, steps_any excl (st0 k2) (flat_map render_hfield (ahdr r) ++ [feat_header] ++ flat_map render_feat (afts r)) = ROk s2
    /\ mode s2 = PFts /\ acc_ok (attrs s2) (view_id r) /\ attrs s2 = view_hdr (ahdr r) /\ seq s2 = [] /\ mfts s2 = None
    /\ (if mem k_fts excl then fttype s2 = None else pend_view s2 (map feat0 (afts r))).
Proof.
  intros Whdr Wfts Wfull.
  destruct (fields_lines excl (ahdr r) Whdr (st0 k2) None eq_refl eq_refl) as (F1 & sh & S1 & M1 & Fr1 & A1 & E1).
  destruct Fr1 as (_ & R2 & R3 & R4 & R5 & R6 & R7 & R8). cbn in R2, R3, R4, R5, R6, R7, R8.
  set (sf := set_hdr (set_mode sh PFts) (attrs sh) None None).
  destruct okline_concrete as [Ofh Ool].
  pose proof (features_oklines (afts r) Wfts) as F2.
  split. { apply Forall_app. split; [exact F1|]. constructor; [exact Ofh|]. exact F2. }
  destruct (mem k_fts excl) eqn:He.
  - assert (S2 : steps_any excl sf (flat_map render_feat (afts r)) = ROk sf).
    { apply steps_skipped; [reflexivity|exact He|]. apply Forall_forall. intros l Hin. apply in_flat_map in Hin.
      destruct Hin as (f & Hf & Hl). rewrite forallb_forall in Wfts. pose proof (render_feat_skipped f (Wfts f Hf)) as Q.
      rewrite Forall_forall in Q. apply Q. exact Hl. }
    exists sf. split; [|repeat split; try assumption; reflexivity].
    rewrite steps_any_app, S1. cbn [app steps_any]. rewrite step_feat_header by exact M1. fold sf. exact S2.
  - assert (P0 : pend_view sf []) by (exists sf; split; [apply flush_none; exact R3|]; split; [exact R2|]; split; [exact R3|apply hframe_refl]).
    destruct (features_lines excl He (afts r) sf [] eq_refl P0 (Wfull eq_refl)) as (_ & s2 & S2 & M2 & Fr2 & P2).
    destruct Fr2 as (_ & B2 & _ & _ & B5 & B6). cbn in B2, B5, B6.
    exists s2. split; [|split; [exact M2|split; [rewrite B2; exact A1|split; [rewrite B2; exact E1|split; [congruence|split; [congruence|exact P2]]]]]].
    rewrite steps_any_app, S1. cbn [app steps_any]. rewrite step_feat_header by exact M1. fold sf. exact S2.
Qed.

Lemma record_steps excl r k2 : wf_arec excl r = true ->
  Forall okline (rec_pre r) /\ exists s5, steps_any excl (st0 k2) (rec_pre r) = ROk s5 /\ finish excl s5 = ROk (view_rec excl r).
Proof.
  intros W. unfold wf_arec in W.
  apply andb_prop in W. destruct W as [W Wft].
  apply andb_prop in W. destruct W as [W Wor]. apply andb_prop in W. destruct W as [W Wpos]. apply andb_prop in W. destruct W as [W Wseq].
  apply andb_prop in W. destruct W as [W Wfts]. apply andb_prop in W. destruct W as [Whdr _].
  destruct okline_concrete as [Ofh Ool].
  unfold rec_pre. destruct (afeatures r) eqn:Ef.
  - (* with a FEATURES line *)
    assert (Wpre : forallb wf_afeat_pre (afts r) = true).
    { eapply forallb_impl; [|exact Wfts]. intros f H. apply andb_prop in H. tauto. }
    assert (Wfull : mem k_fts excl = false -> forallb wf_afeat (afts r) = true).
    { intros He. eapply forallb_impl; [|exact Wfts]. intros f H. rewrite He in H. cbn [orb] in H. exact H. }
    destruct (table_steps excl r k2 Whdr Wpre Wfull) as (F & s2 & S2 & M2 & A2 & E2 & Q2 & N2 & P2).
    rewrite !app_assoc. rewrite <- (app_assoc _ [feat_header]).
    destruct (aorigin r) eqn:Eo.
    + destruct (mem k_fts excl) eqn:He.
      * set (so := set_mode s2 POrigin).
        destruct (origin_render excl so (aseq r) Wseq Wpos eq_refl Q2) as [F4 S4].
        split. { apply Forall_app. split; [exact F|]. constructor; assumption. }
        eexists. split.
        -- rewrite steps_any_app, S2. cbn [app steps_any]. rewrite step_origin_line_excl by (exact M2 || exact He). fold so. exact S4.
        -- apply finish_view; unfold in_table; try rewrite He; try rewrite Eo; try rewrite Ef; cbn [orb negb andb]; rewrite ?orb_false_r; try assumption; try reflexivity.
      * destruct P2 as (s3 & Fl & HF & Ht & Hfr3). destruct Hfr3 as (_ & C2 & _ & _ & C5 & _).
        set (so := mkst POrigin (attrs s3) (Some origin_line) (subkey s3) (fts s3) (fttype s3) (ftmeta s3) (key2 s3) (locs s3) (seq s3) (Some (fts s3))).
        assert (Hseq : seq so = []) by (cbn; congruence).
        destruct (origin_render excl so (aseq r) Wseq Wpos eq_refl Hseq) as [F4 S4].
        split. { apply Forall_app. split; [exact F|]. constructor; assumption. }
        eexists. split.
        -- rewrite steps_any_app, S2. cbn [app steps_any]. rewrite (step_origin_line excl s2 s3 M2 He Fl). fold so. exact S4.
        -- apply finish_view; unfold in_table; try rewrite He; try rewrite Eo; try rewrite Ef; cbn [orb negb andb]; rewrite ?orb_false_r.
           ++ exact Ht.
           ++ cbn [attrs set_seq so]. rewrite C2. exact A2.
           ++ cbn [attrs set_seq so]. rewrite C2. exact E2.
           ++ reflexivity.
           ++ cbn [mfts set_seq so]. rewrite HF. reflexivity.
    + rewrite app_nil_r. split; [exact F|]. exists s2. split; [exact S2|].
      cbn [orb] in Wor.
      apply finish_view; unfold in_table; try rewrite Eo; try rewrite Ef; cbn [andb negb]; rewrite ?orb_true_r; try assumption.
      destruct (mem k_fts excl) eqn:He; [exact P2|]. cbn [orb] in Wor.
      destruct (afts r); [|discriminate Wor]. destruct P2 as (s3 & Fl & HF & Ht & _).
      unfold flush in Fl. destruct (fttype s2); [|reflexivity]. exfalso.
      destruct (locs s2); [|discriminate Fl]. destruct (parse_locs_str s0); [|discriminate Fl]. destruct (mk_loctuple a); [|discriminate Fl].
      inversion Fl; subst s3. cbn in HF. destruct (fts s2); discriminate HF.
  - (* without a FEATURES line: header state throughout *)
    cbn [orb] in Wft. apply andb_prop in Wft. destruct Wft as [Wnil W8].
    destruct (fields_lines excl (ahdr r) Whdr (st0 k2) None eq_refl eq_refl) as (F1 & sh & S1 & M1 & Fr1 & A1 & E1).
    pose proof Fr1 as (_ & R2 & R3 & R4 & R5 & R6 & R7 & R8). cbn in R2, R3, R4, R5, R6, R7, R8. cbn [app].
    destruct (aorigin r) eqn:Eo.
    + (* the ORIGIN line is a header field, the residue lines its sub-fields *)
      change (origin_line :: render_origin (aseq r)) with (render_field_lines (pad_right 12 (bs "ORIGIN"%bs)) [] ++ render_origin (aseq r)).
      destruct (key_field_lines excl (bs "ORIGIN"%bs) [] sh ltac:(discriminate) eq_refl ltac:(cbn; lia) eq_refl eq_refl M1)
        as (F2 & s2 & x & S2 & H2 & A2 & Fr2 & _ & Ex). cbn in Ex. subst x.
      destruct H2 as (M2 & K2 & G2 & _ & _). change (lower (bs "ORIGIN"%bs)) with k_origin in *.
      assert (Hp8 : forallb pos_ok8 (pos_list 1 (length (groups (S (length (aseq r))) 60 (aseq r)))) = true).
      { unfold origin_positions in Wpos, W8. rewrite pos_list_map in Wpos, W8. unfold pos_ok8.
        rewrite forallb_forall in Wpos, W8 |- *. intros p Hp. specialize (Wpos p Hp). specialize (W8 p Hp).
        apply andb_prop in Wpos. destruct Wpos as [Wd _]. now rewrite Wd, W8. }
      rewrite render_origin_eq.
      destruct (origin_hdr_block excl _ (groups_chunk_ok (aseq r) Wseq) 1%nat s2 k_origin (HS []) Hp8 M2 K2 G2) as (F3 & s3 & S3 & M3 & Fr3 & A3).
      split. { apply Forall_app. split; [exact F1|]. apply Forall_app. split; assumption. }
      exists s3. split.
      * rewrite steps_any_app, S1, steps_any_app, S2. exact S3.
      * destruct Fr2 as (_ & P2 & P3 & P4 & P5 & P6 & P7 & P8). destruct Fr3 as (_ & Q2 & Q3 & Q4 & Q5 & Q6 & Q7 & Q8).
        apply finish_view; unfold in_table; try rewrite Eo; try rewrite Ef; cbn [andb negb]; rewrite ?orb_true_r.
        -- congruence.
        -- rewrite A3, A2. rewrite aset_aset. unfold acc_ok, view_id in *. destruct (fold_left acc_step (ahdr r) None) as [w|].
           ++ destruct A1 as (v & G & Fw). exists v. split; [|exact Fw]. rewrite aget_aset_other by reflexivity. exact G.
           ++ rewrite aget_aset_other by reflexivity. exact A1.
        -- rewrite A3, A2, aset_aset, E1. rewrite origin_hdr_val_eq, render_origin_eq. reflexivity.
        -- congruence.
        -- congruence.
    + rewrite app_nil_r. split; [exact F1|]. exists sh. split; [exact S1|].
      apply finish_view; unfold in_table; try rewrite Eo; try rewrite Ef; cbn [andb negb]; rewrite ?orb_true_r; try assumption.
Qed.

Lemma record_lines excl r rest k2 acc : wf_arec excl r = true ->
  exists k2', run_lines excl (render_rec r ++ rest) (st0 k2) acc = run_lines excl rest (st0 k2') (view_rec excl r :: acc).
Proof.
  intros W. destruct (record_steps excl r k2 W) as (F & s5 & S & Fi). exists (key2 s5).
  unfold render_rec.
  replace (flat_map render_hfield (ahdr r) ++ (if afeatures r then [feat_header] ++ flat_map render_feat (afts r) else []) ++ (if aorigin r then [origin_line] ++ render_origin (aseq r) else []) ++ [sl2] ++ (if ablank r then [[]] else []))
    with (rec_pre r ++ [sl2] ++ (if ablank r then [[]] else [])) by (unfold rec_pre; rewrite <- !app_assoc; reflexivity).
  rewrite <- app_assoc. rewrite run_lines_steps by exact F. rewrite S.
  cbn [app]. cbn [run_lines]. change (is_blank (rstrip sl2)) with false. change (str_eqb (strip (rstrip sl2)) sl2) with true. cbv iota.
  rewrite Fi. destruct (ablank r); reflexivity.
Qed.

Lemma records_lines excl rs : forallb (wf_arec excl) rs = true -> forall k2 acc,
  run_lines excl (flat_map render_rec rs ++ [[]]) (st0 k2) acc = ROk (rev acc ++ view excl rs).
Proof.
  induction rs as [|r rs IH]; cbn [forallb flat_map]; intros W k2 acc.
  - cbn. now rewrite app_nil_r.
  - apply andb_prop in W. destruct W as [Wr Wrs]. rewrite <- app_assoc.
    destruct (record_lines excl r (flat_map render_rec rs ++ [[]]) k2 acc Wr) as (k2' & E). rewrite E.
    rewrite (IH Wrs). cbn [rev view map]. now rewrite <- app_assoc.
Qed.

Lemma file_lines_render ls : forallb (fun l => negb (has nl l)) ls = true ->
  file_lines (flat_map (fun l => l ++ [nl]) ls) = ls ++ [[]].
Proof.
  unfold file_lines. induction ls as [|l r IH]; cbn [forallb flat_map]; intros H; [reflexivity|].
  apply andb_prop in H. destruct H as [Hl Hr]. apply negb_true_iff in Hl.
  rewrite <- app_assoc. cbn [app]. rewrite split_char_app by exact Hl. rewrite (IH Hr). reflexivity.
Qed.

(* P2 read_render, general: reading a rendered file gives the view, for every wf record list and every exclude tuple *)
Lemma read_render_iter excl rs : wf_C10 excl rs = true -> iter_genbank excl (render_gb rs) = ROk (view excl rs).
Proof.
  intros W. unfold wf_C10 in W. apply andb_prop in W. destruct W as [W Wnl]. apply andb_prop in W. destruct W as [_ Wr].
  unfold iter_genbank, render_gb. rewrite (file_lines_render _ Wnl). apply (records_lines excl rs Wr None []).
Qed.
Lemma wf_C10_excl excl rs : wf_C10 (k_seq :: excl) rs = wf_C10 excl rs.
Proof. reflexivity. Qed.
Lemma read_render_fts excl rs : wf_C10 excl rs = true -> read_fts_genbank excl (render_gb rs) = ROk (view_fts excl rs).
Proof.
  intros W. rewrite <- wf_C10_excl in W. unfold read_fts_genbank. rewrite (read_render_iter (k_seq :: excl) rs W). unfold view_fts.
  generalize (view (k_seq :: excl) rs). intros l. induction l as [|r l IH]; [reflexivity|].
  cbn [flat_map]. destruct (rfts r) as [fl|].
  - rewrite IH. reflexivity.
  - rewrite IH. reflexivity.
Qed.
Lemma read_render excl rs : wf_C10 excl rs = true ->
  iter_genbank excl (render_gb rs) = ROk (view excl rs) /\ read_fts_genbank excl (render_gb rs) = ROk (view_fts excl rs).
Proof. intros W. split; [apply read_render_iter|apply read_render_fts]; exact W. Qed.

(* ------------------------------------------------------------ the clauses of the property, on the view *)
Definition feats_of (r : rec) : list feat := match rfts r with Some l => l | None => [] end.
Lemma view_fts_agrees excl rs : view_fts excl rs = flat_map feats_of (view excl rs).
Proof.
  unfold view_fts, view. rewrite !flat_map_concat_map, !map_map. reflexivity.
Qed.
Lemma exclude_exact excl r :
  view_rec excl r =
  mkrec (rid (view_rec [] r))
        (if mem k_seq excl then [] else rseq (view_rec [] r))
        (if mem k_fts excl then None
         else option_map (map (fun f => if mem k_translation excl then del_translation f else f)) (rfts (view_rec [] r)))
        (rhdr (view_rec [] r)).
Proof.
  unfold view_rec. cbn [rid rseq rfts rhdr mem existsb orb]. f_equal.
  - destruct (mem k_seq excl), (in_table r); reflexivity.
  - destruct (mem k_fts excl); [reflexivity|]. cbn [orb]. destruct (in_table r); [|reflexivity]. cbn [negb option_map]. f_equal.
    rewrite map_map. apply map_ext. intros f. unfold view_feat. cbn [mem existsb]. destruct (mem k_translation excl); reflexivity.
Qed.
(* names other than 'seq', 'fts', 'translation' in the exclude tuple have no effect *)
Lemma exclude_unknown excl r :
  mem k_seq excl = false -> mem k_fts excl = false -> mem k_translation excl = false -> view_rec excl r = view_rec [] r.
Proof.
  intros H1 H2 H3. rewrite exclude_exact, H1, H2, H3. destruct (view_rec [] r) as [a b [c|] d]; cbn; [|reflexivity].
  f_equal. f_equal. apply map_id.
Qed.
Lemma view_spec excl rs :
  length (view excl rs) = length rs
  /\ Forall2 (fun r v =>
       rid v = match view_id r with Some i => i | None => [] end
       /\ (afeatures r = true -> rhdr v = adel k_reference (view_hdr (ahdr r)))
       /\ (mem k_seq excl = false -> aorigin r = true -> afeatures r = true -> rseq v = upper (aseq r))
       /\ (aorigin r = false \/ afeatures r = false -> rseq v = [] /\ rfts v = None)
       /\ (aorigin r = true -> afeatures r = false ->
           rhdr v = adel k_reference (aset k_origin (origin_hdr_val (render_origin (aseq r))) (view_hdr (ahdr r))))
       /\ (mem k_fts excl = false -> aorigin r = true -> afeatures r = true ->
           exists fl, rfts v = Some fl /\
             Forall2 (fun f g => ftype g = akey f /\ flocs g = sort_locs (sem (aloc f)) /\ fseqid g = view_id r
                        /\ (mem k_translation excl = false -> fquals g = quals_dict (aquals f))) (afts r) fl))
     rs (view excl rs).
Proof.
  split; [apply map_length|]. unfold view. induction rs as [|r rs IH]; [constructor|]. cbn [map]. constructor; [|exact IH].
  unfold view_rec, in_table. cbn [rid rseq rfts rhdr]. split; [reflexivity|].
  split; [intros ->; rewrite andb_false_r; reflexivity|]. split; [intros -> -> ->; reflexivity|].
  split; [intros [-> | ->]; rewrite ?andb_false_r; cbn [andb negb]; rewrite !orb_true_r; split; reflexivity|].
  split; [intros -> ->; reflexivity|]. intros -> -> ->.
  eexists. split; [reflexivity|]. induction (afts r) as [|f fs IHf]; [constructor|]. cbn [map]. constructor; [|exact IHf].
  unfold view_feat. cbn. repeat split. intros ->. reflexivity.
Qed.
