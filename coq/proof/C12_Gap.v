(* C12 proofs, part 2: gapped sequences correspond one-to-one to their degapped sequence *)
From Coq Require Import List ZArith NArith Bool Lia ZifyBool Sorted.
From Coq.Strings Require Import Byte.
Import ListNotations.
From SV Require Import Text C05_Model C05_Lemmas C12_Model C12_Lemmas.
Local Open Scope Z_scope.

(* ---- a word with gap-tolerant matching matches iff it is a prefix of the degapped text ---------------------------- *)
Fixpoint prefix (w d : str) : bool :=
  match w, d with
  | [], _ => true
  | c :: w', x :: d' => byte_eqb x c && prefix w' d'
  | _ :: _, [] => false
  end.

Definition nongap_word (w : str) : Prop := forall c, In c w -> is_gap c = false.

Lemma degap_cons_gap x s : is_gap x = true -> degap (x :: s) = degap s.
Proof. intros G. unfold degap. cbn [filter]. rewrite G. reflexivity. Qed.
Lemma degap_cons_res x s : is_gap x = false -> degap (x :: s) = x :: degap s.
Proof. intros G. unfold degap. cbn [filter]. rewrite G. reflexivity. Qed.
Lemma degap_gapfree s : gapfree (degap s) = true.
Proof. unfold gapfree, degap. apply forallb_forall. intros c H. apply filter_In in H. tauto. Qed.

Lemma mw_gapfree_prefix : forall d sk w n, gapfree d = true ->
  mw sk w d n = if prefix w d then Some (n + length w)%nat else None.
Proof.
  induction d as [|x d IH]; intros sk w n G; destruct w as [|c w]; cbn [mw prefix length]; try (f_equal; lia); try reflexivity.
  cbn in G. apply andb_prop in G. destruct G as [Gx Gd]. apply negb_true_iff in Gx.
  destruct (byte_eqb x c); cbn [andb].
  - rewrite IH by exact Gd. destruct (prefix w d); [f_equal; lia|reflexivity].
  - rewrite Gx, andb_false_r. reflexivity.
Qed.

Lemma mw_true_prefix : forall s w n, nongap_word w -> is_some (mw true w s n) = prefix w (degap s).
Proof.
  induction s as [|x s IH]; intros w n Hw; destruct w as [|c w]; try reflexivity.
  assert (Hw' : nongap_word w) by (intros c' Hc'; apply Hw; right; exact Hc').
  cbn [mw]. destruct (byte_eqb x c) eqn:B.
  - apply byte_eqb_eq in B. subst x. rewrite degap_cons_res by (apply Hw; left; reflexivity).
    cbn [prefix]. rewrite byte_eqb_refl. cbn [andb]. apply IH. exact Hw'.
  - cbn [andb]. destruct (is_gap x) eqn:G.
    + rewrite degap_cons_gap by exact G. apply (IH (c :: w) (S n) Hw).
    + rewrite degap_cons_res by exact G. cbn [prefix is_some]. rewrite B. reflexivity.
Qed.

Lemma mw_false_prefix x s w n : nongap_word w -> is_gap x = false ->
  is_some (mw false w (x :: s) n) = prefix w (degap (x :: s)).
Proof.
  intros Hw G. rewrite degap_cons_res by exact G. destruct w as [|c w]; [reflexivity|]. cbn [mw prefix].
  destruct (byte_eqb x c); cbn [andb is_some]; [|reflexivity].
  apply mw_true_prefix. intros c' Hc'. apply Hw. right; exact Hc'.
Qed.

Lemma mw_head_gap x s w n : nongap_word w -> w <> [] -> is_gap x = true -> mw false w (x :: s) n = None.
Proof.
  intros Hw Hne G. destruct w as [|c w]; [congruence|]. cbn [mw].
  destruct (byte_eqb x c) eqn:B; [|reflexivity].
  apply byte_eqb_eq in B. subst x. rewrite (Hw c (or_introl eq_refl)) in G. discriminate.
Qed.

Lemma letters_ok_word ws w : letters_ok ws -> In w ws -> nongap_word w.
Proof. intros Lo Hw c Hc. apply (Lo w c Hw Hc). Qed.
Lemma letters_ok_tail w ws : letters_ok (w :: ws) -> letters_ok ws.
Proof. intros Lo w' c Hw' Hc. apply (Lo w' c); [right; exact Hw'|exact Hc]. Qed.

Lemma match_any_head_gap : forall ws x s, letters_ok ws -> nonempty_words ws -> is_gap x = true ->
  match_any ws (x :: s) = None.
Proof.
  induction ws as [|w ws IH]; intros x s Lo NE G; cbn [match_any]; [reflexivity|].
  inversion NE as [|? ? Hw Hws]; subst.
  rewrite mw_head_gap; auto; [|eapply letters_ok_word; eauto; left; reflexivity].
  apply IH; auto. eapply letters_ok_tail; eauto.
Qed.

Lemma match_any_degap : forall ws x s, letters_ok ws -> is_gap x = false ->
  match match_any ws (x :: s) with
  | Some len => match_any ws (degap (x :: s)) = Some (nres (firstn len (x :: s)))
  | None => match_any ws (degap (x :: s)) = None
  end.
Proof.
  induction ws as [|w ws IH]; intros x s Lo G; cbn [match_any]; [reflexivity|].
  assert (Hw : nongap_word w) by (eapply letters_ok_word; eauto; left; reflexivity).
  pose proof (mw_false_prefix x s w 0%nat Hw G) as P.
  rewrite (mw_gapfree_prefix (degap (x :: s)) false w 0 (degap_gapfree _)).
  destruct (mw false w (x :: s) 0) as [m|] eqn:E; cbn [is_some] in P; rewrite <- P.
  - f_equal. cbn [Nat.add]. symmetry. replace m with (m - 0)%nat by lia. eapply mw_residues; eauto.
  - apply IH; auto. eapply letters_ok_tail; eauto.
Qed.

(* ---- finditer: the matches on the gapped text are, in residue coordinates, the matches on the degapped text ------- *)
Definition ren (s : str) (pos r : nat) (p : nat) : nat := (r + nres (firstn (p - pos) s))%nat.
Definition ren_pair (s : str) (pos r : nat) (m : nat * nat) : nat * nat := (ren s pos r (fst m), ren s pos r (snd m)).

Lemma nres_cons x s : nres (x :: s) = ((if is_gap x then 0 else 1) + nres s)%nat.
Proof. unfold nres. cbn [filter]. destruct (is_gap x); reflexivity. Qed.

Lemma ren_tail x s pos r p : (S pos <= p)%nat ->
  ren (x :: s) pos r p = ren s (S pos) (r + (if is_gap x then 0 else 1)) p.
Proof.
  intros H. unfold ren. replace (p - pos)%nat with (S (p - S pos)) by lia. cbn [firstn]. rewrite nres_cons. lia.
Qed.

Lemma map_ren_tail ws x s pos r sk : nonempty_words ws ->
  map (ren_pair (x :: s) pos r) (finditer ws s (S pos) sk) =
  map (ren_pair s (S pos) (r + (if is_gap x then 0 else 1))) (finditer ws s (S pos) sk).
Proof.
  intros NE. apply map_ext_in. intros [i e] H. apply finditer_bound in H; auto.
  unfold ren_pair. cbn [fst snd]. rewrite !ren_tail by lia. reflexivity.
Qed.

Lemma finditer_degap_gen ws : letters_ok ws -> nonempty_words ws ->
  forall s pos sk r sk', (sk <= length s)%nat -> nres (firstn sk s) = sk' ->
  map (ren_pair s pos r) (finditer ws s pos sk) = finditer ws (degap s) r sk'.
Proof.
  intros Lo NE. induction s as [|x s IH]; intros pos sk r sk' Hsk Hn.
  - cbn in Hsk. assert (sk = 0)%nat by lia. subst sk. cbn in Hn. subst sk'. reflexivity.
  - cbn [finditer]. destruct sk as [|k].
    + cbn in Hn. subst sk'. destruct (is_gap x) eqn:G.
      * rewrite match_any_head_gap by auto. rewrite degap_cons_gap by exact G.
        rewrite map_ren_tail by exact NE. rewrite G, Nat.add_0_r. apply IH; [lia|reflexivity].
      * pose proof (match_any_degap ws x s Lo G) as MD. rewrite degap_cons_res in * by exact G.
        destruct (match_any ws (x :: s)) as [len|] eqn:M.
        -- pose proof (match_any_bound _ _ _ NE M) as B. cbn [length] in B.
           cbn [finditer]. rewrite MD. cbn [map]. f_equal.
           ++ unfold ren_pair, ren. cbn [fst snd]. rewrite Nat.sub_diag. cbn [firstn].
              replace (pos + len - pos)%nat with len by lia. unfold nres at 1. cbn. f_equal; lia.
           ++ rewrite map_ren_tail by exact NE. rewrite G.
              replace (r + 1)%nat with (S r) by lia. apply IH; [lia|].
              destruct len as [|l]; [lia|]. cbn [firstn Nat.pred]. rewrite nres_cons, G. cbn. reflexivity.
        -- cbn [finditer]. rewrite MD. rewrite map_ren_tail by exact NE. rewrite G.
           replace (r + 1)%nat with (S r) by lia. apply IH; [lia|reflexivity].
    + cbn [length] in Hsk. cbn [firstn] in Hn. rewrite nres_cons in Hn.
      rewrite map_ren_tail by exact NE. destruct (is_gap x) eqn:G.
      * rewrite degap_cons_gap by exact G. rewrite Nat.add_0_r. apply IH; [lia|]. cbn in Hn. exact Hn.
      * rewrite degap_cons_res by exact G. subst sk'. cbn [finditer Nat.add].
        replace (r + 1)%nat with (S r) by lia. apply IH; [lia|reflexivity].
Qed.

Theorem finditer_degap ws t : letters_ok ws -> nonempty_words ws ->
  map (fun m => (rb t (fst m), rb t (snd m))) (finditer ws t 0 0) = finditer ws (degap t) 0 0.
Proof.
  intros Lo NE. rewrite <- (finditer_degap_gen ws Lo NE t 0 0 0 0)%nat; [|lia|reflexivity].
  apply map_ext. intros [i e]. unfold ren_pair, ren, rb, nres. cbn [fst snd]. rewrite !Nat.sub_0_r. reflexivity.
Qed.

(* ---- strands and frames of the degapped sequence ------------------------------------------------------------------- *)
Lemma filter_rev' {A} (p : A -> bool) : forall l, filter p (rev l) = rev (filter p l).
Proof.
  induction l as [|x l IH]; [reflexivity|]. cbn [rev filter]. rewrite filter_app, IH. cbn [filter].
  destruct (p x); [reflexivity|]. rewrite app_nil_r. reflexivity.
Qed.

Lemma degap_map (g : byte -> byte) : (forall c, is_gap (g c) = is_gap c) -> forall l, degap (map g l) = map g (degap l).
Proof.
  intros Hg. induction l as [|x l IH]; [reflexivity|]. cbn [map]. destruct (is_gap x) eqn:G.
  - rewrite !degap_cons_gap by (rewrite ?Hg; exact G). exact IH.
  - rewrite !degap_cons_res by (rewrite ?Hg; exact G). cbn [map]. rewrite IH. reflexivity.
Qed.

Lemma has_degap : forall s, has cU (degap s) = has cU s.
Proof.
  induction s as [|x s IH]; [reflexivity|]. destruct (is_gap x) eqn:G.
  - rewrite degap_cons_gap by exact G. unfold has in *. cbn [existsb]. rewrite IH.
    destruct (byte_eqb cU x) eqn:B; [|reflexivity]. apply byte_eqb_eq in B. subst x. vm_compute in G. discriminate.
  - rewrite degap_cons_res by exact G. unfold has in *. cbn [existsb]. rewrite IH. reflexivity.
Qed.

Lemma rc_as_map s : rc s = map (cc (has cU (rev s))) (rev s).
Proof. destruct (rc_defs s) as [E _]. rewrite E. apply complement_as_map. Qed.

Lemma rc_degap s : rc (degap s) = degap (rc s).
Proof.
  rewrite !rc_as_map. rewrite degap_map by (intros c; apply cc_gap).
  unfold degap at 1 2. rewrite <- filter_rev'. fold (degap (rev s)). rewrite has_degap. reflexivity.
Qed.

Lemma strand_degap s f : strand_str (degap s) f = degap (strand_str s f).
Proof. unfold strand_str. destruct (f >=? 0); [reflexivity|apply rc_degap]. Qed.

Lemma filter_map_comm {A B} (g : A -> B) (p : A -> bool) (q : B -> bool) : forall l,
  (forall x, In x l -> q (g x) = p x) -> filter q (map g l) = map g (filter p l).
Proof.
  induction l as [|x l IH]; intros H; [reflexivity|]. cbn [map filter]. rewrite (H x (or_introl eq_refl)).
  rewrite IH by (intros y Hy; apply H; right; exact Hy). destruct (p x); reflexivity.
Qed.

Definition rb_pair (t : str) (m : nat * nat) : nat * nat := (rb t (fst m), rb t (snd m)).

Theorem hits_degap ws s f : letters_ok ws -> nonempty_words ws ->
  hits ws (degap s) f = map (rb_pair (strand_str s f)) (hits ws s f).
Proof.
  intros Lo NE. unfold hits. rewrite strand_degap. rewrite <- (finditer_degap ws _ Lo NE).
  apply filter_map_comm. intros [i e] H. cbn [fst]. apply finditer_bound in H; auto. cbn [Nat.add] in H.
  rewrite frame_of_gapfree by apply degap_gapfree. rewrite frame_of_rb by lia. reflexivity.
Qed.

(* positions as Z *)
Definition rbZ (t : str) (z : Z) : Z := Z.of_nat (rb t (Z.to_nat z)).

Lemma frame_starts_degap s f : frame_starts (degap s) f = map (rbZ (strand_str s f)) (frame_starts s f).
Proof.
  unfold frame_starts. rewrite hits_degap by (apply start_letters_ok || apply start_words_nonempty).
  rewrite !map_map. apply map_ext. intros [i e]. unfold rbZ, rb_pair. cbn [fst]. rewrite Nat2Z.id. reflexivity.
Qed.
Lemma frame_stops_degap s f : frame_stops (degap s) f = map (rbZ (strand_str s f)) (frame_stops s f).
Proof.
  unfold frame_stops. rewrite hits_degap by (apply stop_letters_ok || apply stop_words_nonempty).
  rewrite !map_map. apply map_ext. intros [i e]. unfold rbZ, rb_pair. cbn [snd]. rewrite Nat2Z.id. reflexivity.
Qed.

Lemma rb_mono t p q : (p <= q)%nat -> (rb t p <= rb t q)%nat.
Proof. intros H. replace q with (p + (q - p))%nat by lia. rewrite rb_add. lia. Qed.
Lemma rbZ_mono t x y : 0 <= x <= y -> rbZ t x <= rbZ t y.
Proof. intros H. unfold rbZ. pose proof (rb_mono t (Z.to_nat x) (Z.to_nat y)). lia. Qed.
Lemma rbZ_0 t : rbZ t 0 = 0.
Proof. reflexivity. Qed.

Lemma rb_S_res t i c : nth_error t i = Some c -> is_gap c = false -> rb t (S i) = S (rb t i).
Proof.
  intros H G. unfold rb. rewrite (firstn_S_nth _ _ _ H), filter_app, app_length. cbn [filter]. rewrite G. cbn. lia.
Qed.

(* a start codon begins on a residue column *)
Definition res_col (t : str) (a : Z) : Prop := 0 <= a /\ rbZ t (a + 1) = rbZ t a + 1.
Lemma frame_starts_res_col s f : Forall (res_col (strand_str s f)) (frame_starts s f).
Proof.
  apply Forall_forall. intros a H. unfold frame_starts in H. apply in_map_iff in H.
  destruct H as [[i e] [E H]]. cbn in E. subst a. unfold hits in H. apply filter_In in H. destruct H as [H _].
  destruct (finditer_head _ _ _ _ _ _ start_words_nonempty H) as [_ [c [w [Hw Hn]]]]. rewrite Nat.sub_0_r in Hn.
  assert (G : is_gap c = false) by (apply (start_letters_ok (c :: w) c Hw); left; reflexivity).
  split; [lia|]. unfold rbZ. replace (Z.to_nat (Z.of_nat i + 1)) with (S i) by lia.
  rewrite Nat2Z.id, (rb_S_res _ _ _ Hn G). lia.
Qed.

(* ---- default mode: the pairing commutes with the renaming ----------------------------------------------------------- *)
Lemma find_map {A B} (g : A -> B) (p : A -> bool) (q : B -> bool) : forall l,
  (forall x, In x l -> q (g x) = p x) -> find q (map g l) = option_map g (find p l).
Proof.
  induction l as [|x l IH]; intros H; [reflexivity|]. cbn [map find]. rewrite (H x (or_introl eq_refl)).
  destruct (p x); [reflexivity|]. apply IH. intros y Hy. apply H. right; exact Hy.
Qed.

Definition ren2 (rho : Z -> Z) (p : Z * Z) : Z * Z := (rho (fst p), rho (snd p)).

Lemma spec_default_rename (rho : Z -> Z) starts :
  (forall x y, 0 <= x <= y -> rho x <= rho y) ->
  Forall (fun a => 0 <= a /\ rho (a + 1) = rho a + 1) starts ->
  forall stops prev, Forall (fun e => 0 <= e) stops -> 0 <= prev ->
  spec_default (map rho starts) (map rho stops) (rho prev) = map (ren2 rho) (spec_default starts stops prev).
Proof.
  intros Hmono Hst. induction stops as [|e r IH]; intros prev He Hp; [reflexivity|].
  inversion He as [|? ? He0 Her]; subst. cbn [map spec_default].
  rewrite (find_map rho (fun a => (prev <=? a) && (a <? e))).
  - destruct (find (fun a => (prev <=? a) && (a <? e)) starts) as [a|]; cbn [option_map map].
    + rewrite IH by auto. reflexivity.
    + apply IH; auto.
  - intros a Ha. rewrite Forall_forall in Hst. destruct (Hst a Ha) as [Ha0 Ha1].
    assert (M1 : prev <= a -> rho prev <= rho a) by (intros; apply Hmono; lia).
    assert (M2 : a + 1 <= prev -> rho a + 1 <= rho prev) by (intros; rewrite <- Ha1; apply Hmono; lia).
    assert (M3 : a + 1 <= e -> rho a + 1 <= rho e) by (intros; rewrite <- Ha1; apply Hmono; lia).
    assert (M4 : e <= a -> rho e <= rho a) by (intros; apply Hmono; lia).
    destruct (Z.leb_spec prev a), (Z.ltb_spec a e), (Z.leb_spec (rho prev) (rho a)), (Z.ltb_spec (rho a) (rho e));
      try reflexivity; lia.
Qed.

(* ---- sequence coordinates: mirrored intervals of backward frames -------------------------------------------------- *)
Definition ren_orf (s : str) (o : orf) : orf := mkorf (rbZ s (o_start o)) (rbZ s (o_stop o)) (o_plus o) (o_rf o).

Lemma nres_app a b : nres (a ++ b) = (nres a + nres b)%nat.
Proof. unfold nres. rewrite filter_app, app_length. reflexivity. Qed.
Lemma nres_rev l : nres (rev l) = nres l.
Proof. unfold nres. rewrite filter_rev', rev_length. reflexivity. Qed.
Lemma nres_map (g : byte -> byte) : (forall c, is_gap (g c) = is_gap c) -> forall l, nres (map g l) = nres l.
Proof.
  intros Hg. induction l as [|x l IH]; [reflexivity|]. cbn [map]. rewrite !nres_cons, Hg, IH. reflexivity.
Qed.
Lemma nres_degap s : length (degap s) = nres s.
Proof. reflexivity. Qed.

Lemma rb_rc s p : rb (rc s) p = rb (rev s) p.
Proof.
  unfold rb. fold (nres (firstn p (rc s))). fold (nres (firstn p (rev s))).
  rewrite rc_as_map, firstn_map. apply nres_map. intros c. apply cc_gap.
Qed.

Lemma rb_mirror s p : (p <= length s)%nat -> (rb s (length s - p) + rb (rc s) p = nres s)%nat.
Proof.
  intros H. rewrite rb_rc. unfold rb. fold (nres (firstn (length s - p) s)). fold (nres (firstn p (rev s))).
  rewrite firstn_rev, nres_rev. rewrite <- nres_app, firstn_skipn. reflexivity.
Qed.

Lemma rb_full s : rb s (length s) = nres s.
Proof. unfold rb, nres. rewrite firstn_all. reflexivity. Qed.

Lemma mk_orf_ren s f a e : 0 <= a <= Z.of_nat (length s) -> 0 <= e <= Z.of_nat (length s) ->
  mk_orf f (Z.of_nat (length (degap s))) (ren2 (rbZ (strand_str s f)) (a, e)) =
  ren_orf s (mk_orf f (Z.of_nat (length s)) (a, e)).
Proof.
  intros Ha He. unfold mk_orf, ren_orf, ren2, strand_str. cbn [fst snd]. destruct (f >=? 0); cbn; [reflexivity|].
  rewrite nres_degap. unfold rbZ.
  pose proof (rb_mirror s (Z.to_nat e)) as Me. pose proof (rb_mirror s (Z.to_nat a)) as Ma.
  replace (Z.to_nat (Z.of_nat (length s) - e)) with (length s - Z.to_nat e)%nat by lia.
  replace (Z.to_nat (Z.of_nat (length s) - a)) with (length s - Z.to_nat a)%nat by lia.
  f_equal; lia.
Qed.

Lemma filter_all {A} (p : A -> bool) l : (forall x, In x l -> p x = true) -> filter p l = l.
Proof.
  induction l as [|x l IH]; intros H; [reflexivity|]. cbn. rewrite (H x (or_introl eq_refl)). f_equal.
  apply IH. intros y Hy. apply H. right; exact Hy.
Qed.

Lemma frame_default_min0 s f :
  frame_orfs NSAlways true 0 s f =
  ROk (map (mk_orf f (Z.of_nat (length s))) (spec_default (frame_starts s f) (frame_stops s f) 0)).
Proof.
  rewrite frame_default_spec. unfold spec_orfs. f_equal. apply filter_all.
  intros o Ho. apply in_map_iff in Ho. destruct Ho as [[a e] [E H]]. apply spec_default_members in H.
  destruct H as (_ & _ & Hlt). subst o. unfold long_enough, mk_orf. cbn [fst snd]. destruct (f >=? 0); cbn; lia.
Qed.

(* default mode, one frame: ORFs of the degapped sequence = renamed ORFs of the gapped sequence *)
Theorem frame_default_bijection s f :
  exists l, frame_orfs NSAlways true 0 s f = ROk l /\ frame_orfs NSAlways true 0 (degap s) f = ROk (map (ren_orf s) l).
Proof.
  eexists. split; [apply frame_default_min0|]. rewrite frame_default_min0.
  rewrite frame_starts_degap, frame_stops_degap. rewrite <- (rbZ_0 (strand_str s f)) at 1.
  rewrite (spec_default_rename (rbZ (strand_str s f))).
  - f_equal. rewrite !map_map. apply map_ext_in. intros [a e] H. apply spec_default_members in H.
    destruct H as (Ha & He & _).
    pose proof (frame_starts_bound s f) as BS. pose proof (frame_stops_bound s f) as BE.
    rewrite Forall_forall in BS, BE. specialize (BS _ Ha). specialize (BE _ He). unfold start_in, stop_in in *.
    apply mk_orf_ren; lia.
  - intros x y H. apply rbZ_mono. exact H.
  - apply frame_starts_res_col.
  - eapply Forall_impl; [|apply frame_stops_bound]. intros e He. unfold stop_in in He. lia.
  - lia.
Qed.

(* lifting a per-frame correspondence to the whole call (any mode) *)
Lemma orfs_frames_bijection ns need_stop s : forall frames,
  (forall f, In f frames -> exists l, frame_orfs ns need_stop 0 s f = ROk l /\
                                      frame_orfs ns need_stop 0 (degap s) f = ROk (map (ren_orf s) l)) ->
  exists l, orfs_frames ns need_stop 0 s frames = ROk l /\
            orfs_frames ns need_stop 0 (degap s) frames = ROk (map (ren_orf s) l).
Proof.
  induction frames as [|f fr IH]; intros H; cbn [orfs_frames].
  - exists []. split; reflexivity.
  - destruct (H f (or_introl eq_refl)) as [l1 [E1 D1]].
    destruct IH as [l2 [E2 D2]]; [intros g Hg; apply H; right; exact Hg|].
    rewrite E1, E2, D1, D2. cbn. exists (l1 ++ l2). rewrite map_app. split; reflexivity.
Qed.

Theorem default_gap_bijection rf s :
  exists l, find_orfs rf NSAlways true 0 s = ROk l /\
            find_orfs rf NSAlways true 0 (degap s) = ROk (map (ren_orf s) l).
Proof. unfold find_orfs. apply orfs_frames_bijection. intros f _. apply frame_default_bijection. Qed.

(* ---- every mode: the pairing loop commutes with a monotone renaming of positions -------------------------------- *)
Section LoopRenaming.
  Variable rho : Z -> Z.
  Variables L L' last frame : Z.
  Hypothesis Hmono : forall x y, 0 <= x <= y -> rho x <= rho y.
  Hypothesis Hbound : forall x, 0 <= x -> rho x <= L'.
  Hypothesis HL : rho L = L'.
  Hypothesis HlastL : last <= L.
  Hypothesis Hlast : forall x, 0 <= x -> (x < last <-> rho x < L').

  Definition startlike (a : Z) : Prop := 0 <= a /\ rho (a + 1) = rho a + 1.
  Definition stoplike (e : Z) : Prop := 0 < e <= L /\ rho (e - 1) = rho e - 1.

  Lemma startlike_lt a p : startlike a -> 0 <= p -> (a < p <-> rho a < rho p).
  Proof.
    intros [Ha0 Ha1] Hp. split; intros H.
    - assert (rho (a + 1) <= rho p) by (apply Hmono; lia). lia.
    - destruct (Z.lt_ge_cases a p) as [|G]; [assumption|]. assert (rho p <= rho a) by (apply Hmono; lia). lia.
  Qed.
  Lemma startlike_last a : startlike a -> a < last.
  Proof. intros [Ha0 Ha1]. apply Hlast; [lia|]. pose proof (Hbound (a + 1)). lia. Qed.
  Lemma stoplike_gt e i1 : stoplike e -> 0 <= i1 -> (i1 < e <-> rho i1 < rho e).
  Proof.
    intros [He0 He1] Hi. split; intros H.
    - assert (rho i1 <= rho (e - 1)) by (apply Hmono; lia). lia.
    - destruct (Z.lt_ge_cases i1 e) as [|G]; [assumption|]. assert (rho e <= rho i1) by (apply Hmono; lia). lia.
  Qed.

  Lemma next_stop_map : forall stops i1, Forall stoplike stops -> 0 <= i1 ->
    next_stop (rho i1) (map rho stops) =
    match next_stop i1 stops with Some (e, r) => Some (rho e, map rho r) | None => None end.
  Proof.
    induction stops as [|d r IH]; intros i1 Hs Hi; [reflexivity|]. inversion Hs as [|? ? Hd Hr]; subst.
    cbn [map next_stop]. pose proof (stoplike_gt d i1 Hd Hi) as C.
    destruct (d >? i1) eqn:E1; destruct (rho d >? rho i1) eqn:E2; try lia; [reflexivity|]. apply IH; auto.
  Qed.

  Definition sim (r r' : result) : Prop :=
    exists ps, r = ROk (map (mk_orf frame L) ps) /\ r' = ROk (map (mk_orf frame L') (map (ren2 rho) ps)) /\
               Forall (fun p => 0 <= fst p <= L /\ 0 <= snd p <= L) ps.

  Lemma sim_nil : sim (ROk []) (ROk []).
  Proof. exists []. repeat split; constructor. Qed.

  Lemma sim_cons i1 e e' r r' : e' = rho e -> 0 <= i1 <= L -> 0 <= e <= L -> sim r r' ->
    sim (cons_res true (mk_orf frame L (i1, e)) r) (cons_res true (mk_orf frame L' (rho i1, e')) r').
  Proof.
    intros Ee Hi He [ps [E [E' B]]]. subst r r' e'. exists ((i1, e) :: ps). cbn. repeat split; auto.
  Qed.

  Lemma keep0 f l p : fst p < snd p -> (o_stop (mk_orf f l p) - o_start (mk_orf f l p) >=? 0) = true.
  Proof. intros H. unfold mk_orf. destruct (f >=? 0); cbn; lia. Qed.

  Lemma loop_body_sim rec rec' need_stop i1 starts' stops i2 :
    0 <= i1 < last -> Forall stoplike stops ->
    (forall p, i2 = Some p -> 0 <= p /\ (i1 < p <-> rho i1 < rho p)) ->
    (forall p, i2 = Some p -> i1 < p -> sim (rec starts' stops i2) (rec' (map rho starts') (map rho stops) (option_map rho i2))) ->
    (forall e r, next_stop i1 stops = Some (e, r) -> e <> L -> rho e <> L' ->
                 sim (rec starts' r (Some e)) (rec' (map rho starts') (map rho r) (Some (rho e)))) ->
    (forall e r, next_stop i1 stops = Some (e, r) -> e <> L -> rho e = L' -> rec starts' r (Some e) = ROk []) ->
    sim (loop_body rec need_stop 0 L frame i1 starts' stops i2)
        (loop_body rec' need_stop 0 L' frame (rho i1) (map rho starts') (map rho stops) (option_map rho i2)).
  Proof.
    intros Hi Hst Hp Hc Hn Hd. unfold loop_body.
    assert (Ccont : match option_map rho i2 with Some p => rho i1 <? p | None => false end =
                    match i2 with Some p => i1 <? p | None => false end).
    { destruct i2 as [p|]; [|reflexivity]. cbn. destruct (Hp p eq_refl) as [_ C].
      destruct (i1 <? p) eqn:E1; destruct (rho i1 <? rho p) eqn:E2; try reflexivity; lia. }
    rewrite Ccont. destruct (match i2 with Some p => i1 <? p | None => false end) eqn:C.
    - destruct i2 as [p|]; [|discriminate]. apply (Hc p eq_refl). lia.
    - rewrite next_stop_map by (auto; lia).
      destruct (next_stop i1 stops) as [[e r]|] eqn:N.
      + pose proof (next_stop_some _ _ _ _ N) as (N1 & N2 & _).
        rewrite Forall_forall in Hst. pose proof (Hst _ N2) as He. pose proof He as [[He0 He1] _].
        assert (Hlt : rho i1 < rho e) by (apply (stoplike_gt e i1 He); lia).
        rewrite !inds2orf_mk by assumption. rewrite !keep0 by (cbn; assumption).
        destruct (e =? L) eqn:EL.
        * assert (e = L) by lia. subst e. assert (EL' : rho L =? L' = true) by lia. rewrite EL'.
          apply sim_cons; [reflexivity|lia|lia|apply sim_nil].
        * destruct (rho e =? L') eqn:EL'.
          -- rewrite (Hd e r eq_refl); [|lia|lia]. apply sim_cons; [reflexivity|lia|lia|apply sim_nil].
          -- apply sim_cons; [reflexivity|lia|lia|]. apply Hn; auto; lia.
      + destruct need_stop; [apply sim_nil|].
        assert (Hlt : rho i1 < L') by (apply Hlast; lia).
        rewrite !inds2orf_mk by lia. rewrite !keep0 by (cbn; lia). rewrite !Z.eqb_refl.
        apply sim_cons; [lia|lia|lia|apply sim_nil].
  Qed.

  (* after a stop that ends at or behind the last residue nothing more is reported *)
  Lemma loop_dead : forall fuel ns need_stop fs starts stops p, last <= p ->
    Forall (fun a => a < last) starts -> (length starts < fuel)%nat ->
    frame_loop fuel ns need_stop 0 L frame fs last starts stops (Some p) = ROk [].
  Proof.
    induction fuel as [|fuel IH]; intros ns need_stop fs starts stops p Hp Hs Hf; [lia|].
    cbn [frame_loop]. destruct (loop_cond ns starts (Some p)) eqn:C; cbn [negb]; [|reflexivity].
    destruct ns; cbn [choose_i1 loop_cond fst snd] in *.
    - destruct starts as [|a ss]; [discriminate|]. cbn [pop_start fst snd]. inversion Hs as [|? ? Ha Hss]; subst.
      assert (E : a >=? last = false) by lia. rewrite E. unfold loop_body.
      assert (E2 : a <? p = true) by lia. rewrite E2. apply IH; auto. cbn [length] in Hf. lia.
    - assert (E : p >=? last = true) by lia. rewrite E. reflexivity.
    - assert (E : p >=? last = true) by lia. rewrite E. reflexivity.
  Qed.

  Lemma frame_loop_sim : forall fuel fuel' ns need_stop fs fs' starts stops i2,
    Forall startlike starts -> Forall stoplike stops ->
    (forall p, i2 = Some p -> stoplike p /\ p < L) ->
    (0 <= fs /\ ((fs < last /\ fs' = rho fs) \/ (last <= fs /\ L' <= fs'))) ->
    (length starts + length stops < fuel)%nat -> (length starts + length stops < fuel')%nat ->
    sim (frame_loop fuel ns need_stop 0 L frame fs last starts stops i2)
        (frame_loop fuel' ns need_stop 0 L' frame fs' L' (map rho starts) (map rho stops) (option_map rho i2)).
  Proof.
    induction fuel as [|fuel IH]; intros fuel' ns need_stop fs fs' starts stops i2 Hs He Hp Hfs Hf Hf'; [lia|].
    destruct fuel' as [|fuel']; [lia|]. cbn [frame_loop].
    assert (Econd : loop_cond ns (map rho starts) (option_map rho i2) = loop_cond ns starts i2).
    { destruct ns; cbn; destruct starts, i2; reflexivity. }
    rewrite Econd. destruct (loop_cond ns starts i2) eqn:C; cbn [negb]; [|apply sim_nil].
    (* the recursive calls *)
    assert (Hrec : forall st' e r, Forall startlike st' -> (length st' <= length starts)%nat ->
              forall i1, next_stop i1 stops = Some (e, r) -> e <> L ->
              sim (frame_loop fuel ns need_stop 0 L frame fs last st' r (Some e))
                  (frame_loop fuel' ns need_stop 0 L' frame fs' L' (map rho st') (map rho r) (Some (rho e)))).
    { intros st' e r Hst' Hlen i1 N NL. pose proof (next_stop_some _ _ _ _ N) as (N1 & N2 & N3 & N4).
      apply (IH fuel' ns need_stop fs fs' st' r (Some e)); auto; try lia.
      - eapply Forall_incl; eauto.
      - intros p Ep. inversion Ep; subst p. rewrite Forall_forall in He. pose proof (He _ N2) as X. split; [exact X|].
        destruct X as [[? ?] _]. lia. }
    assert (Hdead : forall st' e r, Forall startlike st' -> (length st' <= length starts)%nat ->
              forall i1, next_stop i1 stops = Some (e, r) -> e <> L -> rho e = L' ->
              frame_loop fuel ns need_stop 0 L frame fs last st' r (Some e) = ROk []).
    { intros st' e r Hst' Hlen i1 N NL HrL. pose proof (next_stop_some _ _ _ _ N) as (N1 & N2 & N3 & N4).
      apply loop_dead; [| |lia].
      - rewrite Forall_forall in He. destruct (He _ N2) as [[? ?] _].
        destruct (Z.lt_ge_cases e last) as [Hl|]; [|lia]. apply Hlast in Hl; lia.
      - eapply Forall_impl; [|exact Hst']. intros a Ha. apply startlike_last. exact Ha. }
    destruct ns; cbn [choose_i1] in *.
    - (* always *)
      destruct starts as [|a ss]; [discriminate|].
      cbn [map pop_start fst snd]. inversion Hs as [|? ? Ha Hss]; subst.
      pose proof (startlike_last a Ha) as Hal. pose proof Ha as [Ha0 _].
      assert (E1 : a >=? last = false) by lia. assert (E2 : rho a >=? L' = false) by (apply Hlast in Hal; lia).
      rewrite E1, E2. apply loop_body_sim; auto; try lia.
      + intros p Ep. destruct (Hp p Ep) as [[[? ?] _] _]. split; [lia|]. apply startlike_lt; [exact Ha|lia].
      + intros p Ep Hlt. apply IH; auto; cbn [length] in *; lia.
      + intros e r N NL _. apply (Hrec ss e r Hss) with (i1 := a); auto. cbn. lia.
      + intros e r N NL HrL. apply (Hdead ss e r Hss) with (i1 := a); auto. cbn. lia.
    - (* once *)
      destruct i2 as [p|]; cbn [option_map fst snd] in *.
      + destruct (Hp p eq_refl) as [Hsl HpL]. pose proof Hsl as [[Hp0 _] _].
        destruct (p >=? last) eqn:E1.
        * assert (E2 : rho p >=? L' = true).
          { destruct (Z.lt_ge_cases (rho p) L') as [Hl|]; [|lia]. apply Hlast in Hl; lia. }
          rewrite E2. apply sim_nil.
        * assert (E2 : rho p >=? L' = false) by (assert (p < last) by lia; apply Hlast in H; lia).
          rewrite E2. apply loop_body_sim; auto; try lia.
          -- intros p' Ep. inversion Ep; subst p'. split; lia.
          -- intros p' Ep Hlt. inversion Ep; subst p'. lia.
          -- intros e r N NL _. apply (Hrec starts e r Hs) with (i1 := p); auto.
          -- intros e r N NL HrL. apply (Hdead starts e r Hs) with (i1 := p); auto.
      + destruct starts as [|a ss]; [discriminate|]. cbn [map pop_start fst snd]. inversion Hs as [|? ? Ha Hss]; subst.
        pose proof (startlike_last a Ha) as Hal. pose proof Ha as [Ha0 _].
        assert (E1 : a >=? last = false) by lia. assert (E2 : rho a >=? L' = false) by (apply Hlast in Hal; lia).
        rewrite E1, E2. apply (loop_body_sim _ _ need_stop a ss stops None); auto; try lia.
        * intros p Ep. discriminate.
        * intros p Ep. discriminate.
        * intros e r N NL _. apply (Hrec ss e r Hss) with (i1 := a); auto. cbn. lia.
        * intros e r N NL HrL. apply (Hdead ss e r Hss) with (i1 := a); auto. cbn. lia.
    - (* never *)
      destruct i2 as [p|]; cbn [option_map fst snd] in *.
      + destruct (Hp p eq_refl) as [Hsl HpL]. pose proof Hsl as [[Hp0 _] _].
        destruct (p >=? last) eqn:E1.
        * assert (E2 : rho p >=? L' = true).
          { destruct (Z.lt_ge_cases (rho p) L') as [Hl|]; [|lia]. apply Hlast in Hl; lia. }
          rewrite E2. apply sim_nil.
        * assert (E2 : rho p >=? L' = false) by (assert (p < last) by lia; apply Hlast in H; lia).
          rewrite E2. apply loop_body_sim; auto; try lia.
          -- intros p' Ep. inversion Ep; subst p'. split; lia.
          -- intros p' Ep Hlt. inversion Ep; subst p'. lia.
          -- intros e r N NL _. apply (Hrec starts e r Hs) with (i1 := p); auto.
          -- intros e r N NL HrL. apply (Hdead starts e r Hs) with (i1 := p); auto.
      + destruct Hfs as [Hfs0 [[Hfl Hfe]|[Hfl Hfe]]].
        * subst fs'. assert (E1 : fs >=? last = false) by lia.
          assert (E2 : rho fs >=? L' = false) by (apply Hlast in Hfl; lia).
          rewrite E1, E2. apply (loop_body_sim _ _ need_stop fs starts stops None); auto; try lia.
          -- intros p Ep. discriminate.
          -- intros p Ep. discriminate.
          -- intros e r N NL _. apply (Hrec starts e r Hs) with (i1 := fs); auto.
          -- intros e r N NL HrL. apply (Hdead starts e r Hs) with (i1 := fs); auto.
        * assert (E1 : fs >=? last = true) by lia. assert (E2 : fs' >=? L' = true) by lia.
          rewrite E1, E2. apply sim_nil.
  Qed.
End LoopRenaming.

(* ---- instantiation: rho = residues before a column of the strand that is read ------------------------------------- *)
Lemma mw_last : forall s sk w n m, nongap_word w -> w <> [] -> mw sk w s n = Some m ->
  exists c, nth_error s (m - n - 1) = Some c /\ is_gap c = false.
Proof.
  induction s as [|x s IH]; intros sk w n m Hw Hne H; destruct w as [|c w]; try congruence; cbn [mw] in H; [discriminate|].
  assert (Hw' : nongap_word w) by (intros c' Hc'; apply Hw; right; exact Hc').
  destruct (byte_eqb x c) eqn:B.
  - apply byte_eqb_eq in B. subst x. destruct w as [|c2 w].
    + destruct s; cbn in H; inversion H; subst; replace (S n - n - 1)%nat with 0%nat by lia;
        exists c; (split; [reflexivity|apply Hw; left; reflexivity]).
    + pose proof (mw_bound _ _ _ _ _ H) as (_ & _ & B3). specialize (B3 ltac:(discriminate)).
      destruct (IH true (c2 :: w) (S n) m Hw' ltac:(discriminate) H) as [c0 [N G]].
      exists c0. split; [|exact G]. replace (m - n - 1)%nat with (S (m - S n - 1)) by lia. exact N.
  - destruct (sk && is_gap x) eqn:G; [|discriminate].
    pose proof (mw_bound _ _ _ _ _ H) as (_ & _ & B3). specialize (B3 ltac:(discriminate)).
    destruct (IH true (c :: w) (S n) m Hw ltac:(discriminate) H) as [c0 [N G0]].
    exists c0. split; [|exact G0]. replace (m - n - 1)%nat with (S (m - S n - 1)) by lia. exact N.
Qed.

Lemma match_any_last : forall ws s m, letters_ok ws -> nonempty_words ws -> match_any ws s = Some m ->
  exists c, nth_error s (m - 1) = Some c /\ is_gap c = false.
Proof.
  induction ws as [|w ws IH]; intros s m Lo NE H; cbn in H; [discriminate|].
  inversion NE as [|? ? Hw Hws]; subst.
  destruct (mw false w s 0) eqn:E.
  - inversion H; subst. replace (m - 1)%nat with (m - 0 - 1)%nat by lia.
    eapply mw_last; eauto. eapply letters_ok_word; eauto. left; reflexivity.
  - apply IH; auto. eapply letters_ok_tail; eauto.
Qed.

Lemma finditer_last : forall ws s pos sk i e, letters_ok ws -> nonempty_words ws ->
  In (i, e) (finditer ws s pos sk) -> (pos < e)%nat /\ exists c, nth_error s (e - pos - 1) = Some c /\ is_gap c = false.
Proof.
  intros ws s. induction s as [|x s IH]; intros pos sk i e Lo NE H; cbn [finditer] in H; [contradiction|].
  assert (Htail : forall sk', In (i, e) (finditer ws s (S pos) sk') ->
            (pos < e)%nat /\ exists c, nth_error (x :: s) (e - pos - 1) = Some c /\ is_gap c = false).
  { intros sk' H'. pose proof (finditer_bound _ _ _ _ _ _ NE H') as (B1 & B2 & _).
    destruct (IH _ _ _ _ Lo NE H') as [Hlt [c [N G]]]. split; [lia|]. exists c. split; [|exact G].
    replace (e - pos - 1)%nat with (S (e - S pos - 1)) by lia. exact N. }
  destruct sk as [|k]; [|eauto].
  destruct (match_any ws (x :: s)) as [len|] eqn:M; [|eauto].
  destruct H as [H|H]; [|eauto].
  inversion H; subst. pose proof (match_any_bound _ _ _ NE M) as B.
  destruct (match_any_last _ _ _ Lo NE M) as [c [N G]]. split; [lia|]. exists c. split; [|exact G].
  replace (i + len - i - 1)%nat with (len - 1)%nat by lia. exact N.
Qed.

Lemma rb_le_nres t x : (rb t x <= nres t)%nat.
Proof.
  rewrite <- (firstn_skipn x t) at 2. rewrite nres_app. unfold rb. fold (nres (firstn x t)). lia.
Qed.

Lemma last_res_rb : forall t x, (x < last_res t)%nat <-> (rb t x < nres t)%nat.
Proof.
  induction t as [|c r IH]; intros x.
  - cbn. unfold rb, nres. rewrite firstn_nil. cbn. lia.
  - destruct x as [|x].
    + specialize (IH 0%nat). unfold rb in *. cbn [firstn filter length] in *. rewrite nres_cons. cbn [last_res].
      destruct (last_res r); destruct (is_gap c); lia.
    + specialize (IH x). rewrite rb_cons, nres_cons. cbn [last_res]. destruct (last_res r); destruct (is_gap c); lia.
Qed.

Lemma rb_gapfree : forall d i, gapfree d = true -> (i <= length d)%nat -> rb d i = i.
Proof.
  intros d i G H. unfold rb. rewrite filter_all; [apply firstn_length_le; exact H|].
  intros c Hc. unfold gapfree in G. rewrite forallb_forall in G. apply G.
  rewrite <- (firstn_skipn i d). apply in_or_app. left; exact Hc.
Qed.

Lemma last_res_gapfree : forall d, gapfree d = true -> last_res d = length d.
Proof.
  induction d as [|c r IH]; intros G; [reflexivity|]. cbn in G. apply andb_prop in G. destruct G as [Gc Gr].
  apply negb_true_iff in Gc. cbn [last_res length]. rewrite (IH Gr), Gc. destruct (length r); reflexivity.
Qed.

Lemma strand_data_degap s f : strand_data (degap s) f = degap (strand_data s f).
Proof. unfold strand_data. destruct (f >=? 0); [reflexivity|]. unfold degap. symmetry. apply filter_rev'. Qed.

Lemma rb_strand s f p : rb (strand_str s f) p = rb (strand_data s f) p.
Proof. unfold strand_str, strand_data. destruct (f >=? 0); [reflexivity|apply rb_rc]. Qed.

Lemma nres_strand s f : nres (strand_str s f) = nres s.
Proof.
  unfold strand_str. destruct (f >=? 0); [reflexivity|]. rewrite rc_as_map, nres_map by (intros c; apply cc_gap).
  apply nres_rev.
Qed.

Lemma frame_start_degap data k :
  let i := frame_start_from data k 0 in let i' := frame_start_from (degap data) k 0 in
  ((i < last_res data)%nat /\ i' = rb data i) \/ ((last_res data <= i)%nat /\ (length (degap data) <= i')%nat).
Proof.
  intros i i'. destruct (frame_start_from_spec data k 0) as (I1 & I2 & I3). fold i in I1, I2, I3.
  destruct (frame_start_from_spec (degap data) k 0) as (J1 & J2 & J3). fold i' in J1, J2, J3.
  rewrite Nat.sub_0_r in I2, J2. cbn [Nat.add] in *.
  pose proof (degap_gapfree data) as G. assert (EL : length (degap data) = nres data) by reflexivity.
  assert (En : nres (degap data) = nres data).
  { unfold nres. rewrite filter_all; [reflexivity|]. intros c Hc. apply filter_In in Hc. tauto. }
  destruct (Nat.lt_ge_cases i (length data)) as [Hlt|Hge].
  - destruct (I2 Hlt) as [R [c [N Gc]]]. left. split; [eapply last_res_nth; eauto|].
    pose proof (rb_S_res _ _ _ N Gc) as RS. pose proof (rb_le_nres data (S i)) as Bn.
    destruct (Nat.lt_ge_cases i' (length (degap data))) as [Hlt'|Hge'].
    + destruct (J2 Hlt') as [R' _]. rewrite rb_gapfree in R' by (auto; lia). lia.
    + assert (E' : i' = length (degap data)) by lia. specialize (J3 E'). lia.
  - assert (E : i = length data) by lia. specialize (I3 E). right. split; [pose proof (last_res_le data); lia|].
    destruct (Nat.lt_ge_cases i' (length (degap data))) as [Hlt'|Hge']; [|lia].
    destruct (J2 Hlt') as [R' _]. rewrite rb_gapfree in R' by (auto; lia). lia.
Qed.

Lemma frame_stops_stoplike s f :
  Forall (stoplike (rbZ (strand_str s f)) (Z.of_nat (length s))) (frame_stops s f).
Proof.
  apply Forall_forall. intros z H. pose proof (frame_stops_bound s f) as B. rewrite Forall_forall in B.
  specialize (B _ H). unfold stop_in in B. split; [lia|].
  unfold frame_stops in H. apply in_map_iff in H. destruct H as [[i e] [E H]]. cbn in E. subst z.
  unfold hits in H. apply filter_In in H. destruct H as [H _].
  destruct (finditer_last _ _ _ _ _ _ stop_letters_ok stop_words_nonempty H) as [Hlt [c [N G]]].
  rewrite Nat.sub_0_r in N. unfold rbZ. replace (Z.to_nat (Z.of_nat e - 1)) with (e - 1)%nat by lia.
  rewrite Nat2Z.id. pose proof (rb_S_res _ _ _ N G) as RS. replace (S (e - 1)) with e in RS by lia. lia.
Qed.

(* every mode, one frame *)
Theorem frame_gap_bijection ns need_stop s f :
  exists l, frame_orfs ns need_stop 0 s f = ROk l /\ frame_orfs ns need_stop 0 (degap s) f = ROk (map (ren_orf s) l).
Proof.
  set (t := strand_str s f).
  assert (S : sim (rbZ t) (Z.of_nat (length s)) (Z.of_nat (length (degap s))) f
                (frame_orfs ns need_stop 0 s f) (frame_orfs ns need_stop 0 (degap s) f)).
  { unfold frame_orfs. rewrite frame_starts_degap, frame_stops_degap, !map_length. fold t.
    rewrite strand_data_degap, (last_res_gapfree _ (degap_gapfree _)).
    assert (ELd : length (degap (strand_data s f)) = length (degap s)).
    { rewrite !nres_degap. unfold strand_data. destruct (f >=? 0); [reflexivity|apply nres_rev]. }
    rewrite ELd.
    change (@None Z) with (option_map (rbZ t) None) at 2.
    apply frame_loop_sim.
    - intros x y H. apply rbZ_mono. exact H.
    - intros x Hx. unfold rbZ. pose proof (rb_le_nres t (Z.to_nat x)). unfold t in *. rewrite nres_strand in H.
      rewrite nres_degap. lia.
    - unfold rbZ. rewrite Nat2Z.id. unfold t.
      replace (length s) with (length (strand_str s f)) by apply strand_str_length. rewrite rb_full, nres_strand.
      rewrite nres_degap. reflexivity.
    - pose proof (last_res_le (strand_data s f)).
      assert (length (strand_data s f) = length s) by (unfold strand_data; destruct (f >=? 0); [reflexivity|apply rev_length]).
      lia.
    - intros x Hx. rewrite <- last_res_strand. fold t. unfold rbZ. rewrite nres_degap, <- (nres_strand s f). fold t.
      pose proof (last_res_rb t (Z.to_nat x)). lia.
    - eapply Forall_impl; [|apply frame_starts_res_col]. intros a Ha. exact Ha.
    - apply frame_stops_stoplike.
    - intros p Ep. discriminate.
    - split; [lia|]. unfold frame_start.
      pose proof (frame_start_degap (strand_data s f) (Z.to_nat (if f >=? 0 then f else - f - 1))) as FD.
      cbn zeta in FD. destruct FD as [[F1 F2]|[F1 F2]].
      + left. split; [lia|]. rewrite F2. unfold rbZ, t. rewrite Nat2Z.id, rb_strand. reflexivity.
      + right. split; [lia|]. rewrite ELd in F2. lia.
    - lia.
    - lia. }
  destruct S as [ps [E [E' B]]]. exists (map (mk_orf f (Z.of_nat (length s))) ps). split; [exact E|].
  rewrite E'. f_equal. rewrite !map_map. apply map_ext_in. intros [a e] Hin.
  rewrite Forall_forall in B. specialize (B _ Hin). cbn [fst snd] in B.
  apply (mk_orf_ren s f a e); lia.
Qed.

(* P2: every mode, both strands *)
Theorem gap_bijection rf ns need_stop s :
  exists l, find_orfs rf ns need_stop 0 s = ROk l /\
            find_orfs rf ns need_stop 0 (degap s) = ROk (map (ren_orf s) l).
Proof. unfold find_orfs. apply orfs_frames_bijection. intros f _. apply frame_gap_bijection. Qed.

(* ---- minlen is a pure filter on the result for minlen = 0 ----------------------------------------------------------- *)
Definition res_filter (m : Z) (r : result) : result :=
  match r with ROk l => ROk (filter (long_enough m) l) | e => e end.

Lemma inds2orf_pos i1 e f L o : inds2orf i1 e f L = Some o -> o_start o < o_stop o.
Proof.
  unfold inds2orf. destruct (f >=? 0).
  - destruct (i1 <? e) eqn:C; [|discriminate]. intros H. inversion H; subst. cbn. lia.
  - destruct (L - e <? L - i1) eqn:C; [|discriminate]. intros H. inversion H; subst. cbn. lia.
Qed.

Lemma cons_res_filter m o r0 : o_start o < o_stop o ->
  cons_res (o_stop o - o_start o >=? m) o (res_filter m r0) = res_filter m (cons_res (o_stop o - o_start o >=? 0) o r0).
Proof.
  intros H. assert (E : o_stop o - o_start o >=? 0 = true) by lia. rewrite E.
  destruct r0 as [l| |]; cbn [res_filter cons_res filter]; [|reflexivity|reflexivity].
  change (long_enough m o) with (o_stop o - o_start o >=? m).
  destruct (o_stop o - o_start o >=? m); reflexivity.
Qed.

Lemma loop_body_minlen rec rec0 need_stop m L f i1 starts' stops i2 :
  (forall a b c, rec a b c = res_filter m (rec0 a b c)) ->
  loop_body rec need_stop m L f i1 starts' stops i2 = res_filter m (loop_body rec0 need_stop 0 L f i1 starts' stops i2).
Proof.
  intros Hrec. unfold loop_body.
  destruct (match i2 with Some p => i1 <? p | None => false end); [apply Hrec|].
  destruct (next_stop i1 stops) as [[e r]|].
  - destruct (inds2orf i1 e f L) as [o|] eqn:Eo; [|reflexivity].
    rewrite <- cons_res_filter by (eapply inds2orf_pos; eauto). f_equal.
    destruct (e =? L); [reflexivity|apply Hrec].
  - destruct need_stop; [reflexivity|].
    destruct (inds2orf i1 L f L) as [o|] eqn:Eo; [|reflexivity].
    rewrite <- cons_res_filter by (eapply inds2orf_pos; eauto). rewrite Z.eqb_refl. reflexivity.
Qed.

Lemma frame_loop_minlen : forall fuel ns need_stop m L f fs last starts stops i2,
  frame_loop fuel ns need_stop m L f fs last starts stops i2 =
  res_filter m (frame_loop fuel ns need_stop 0 L f fs last starts stops i2).
Proof.
  induction fuel as [|fuel IH]; intros; cbn [frame_loop]; [reflexivity|].
  destruct (negb (loop_cond ns starts i2)); [reflexivity|].
  destruct (fst (choose_i1 ns fs starts i2) >=? last); [reflexivity|].
  apply loop_body_minlen. intros a b c. apply IH.
Qed.

Lemma orfs_frames_minlen ns need_stop m s : forall frames,
  orfs_frames ns need_stop m s frames = res_filter m (orfs_frames ns need_stop 0 s frames).
Proof.
  induction frames as [|f fr IH]; cbn [orfs_frames]; [reflexivity|].
  rewrite IH. unfold frame_orfs. rewrite frame_loop_minlen.
  destruct (frame_loop _ ns need_stop 0 _ f _ _ _ _ None) as [l1| |];
    destruct (orfs_frames ns need_stop 0 s fr) as [l2| |]; cbn; try reflexivity.
  rewrite filter_app. reflexivity.
Qed.

Theorem minlen_filter rf ns need_stop m s :
  exists l, find_orfs rf ns need_stop 0 s = ROk l /\
            find_orfs rf ns need_stop m s = ROk (filter (fun o => o_stop o - o_start o >=? m) l).
Proof.
  destruct (orf_invariants rf ns need_stop 0 s) as [l [E _]]. exists l. split; [exact E|].
  unfold find_orfs in *. rewrite orfs_frames_minlen, E. reflexivity.
Qed.

(* ---- the codon locator finds every occurrence (start/stop codons cannot overlap one another) ---------------------- *)
Definition word_at (ws : list str) (s : str) : bool := existsb (fun w => prefix w s) ws.
Fixpoint occs (ws : list str) (s : str) (pos : nat) : list (nat * nat) :=
  match s with
  | [] => []
  | _ :: s' => (if word_at ws s then [(pos, (pos + 3)%nat)] else []) ++ occs ws s' (S pos)
  end.
Definition no_overlap (ws : list str) : bool :=
  forallb (fun w1 => forallb (fun w2 => negb (prefix (tl w1) w2) && negb (prefix (tl (tl w1)) w2)) ws) ws.

Lemma match_any_gapfree_word : forall ws d, gapfree d = true -> codon_words ws ->
  match_any ws d = if word_at ws d then Some 3%nat else None.
Proof.
  induction ws as [|w ws IH]; intros d G C; [reflexivity|]. inversion C as [|? ? Cw Cws]; subst.
  cbn [match_any word_at existsb]. rewrite mw_gapfree_prefix by exact G. destruct (prefix w d); cbn [orb].
  - rewrite Cw. reflexivity.
  - apply IH; assumption.
Qed.

Lemma prefix_common : forall u v d, prefix u d = true -> prefix v d = true -> (length u <= length v)%nat -> prefix u v = true.
Proof.
  induction u as [|a u IH]; intros v d Hu Hv Hl; [reflexivity|].
  destruct v as [|b v]; [cbn in Hl; lia|]. destruct d as [|x d]; [discriminate|].
  cbn [prefix] in *. apply andb_prop in Hu. destruct Hu as [Hu1 Hu2]. apply andb_prop in Hv. destruct Hv as [Hv1 Hv2].
  apply byte_eqb_eq in Hu1, Hv1. subst a b. rewrite byte_eqb_refl. cbn [andb]. eapply IH; eauto. cbn in Hl. lia.
Qed.
Lemma prefix_tl w x s : prefix w (x :: s) = true -> prefix (tl w) s = true.
Proof. destruct w as [|c w]; [reflexivity|]. cbn. intros H. apply andb_prop in H. tauto. Qed.

Lemma word_at_no_overlap ws x s : codon_words ws -> no_overlap ws = true -> word_at ws (x :: s) = true ->
  word_at ws s = false /\ word_at ws (skipn 1 s) = false.
Proof.
  intros C NO H. unfold word_at in H. apply existsb_exists in H. destruct H as [w1 [Hw1 P1]].
  unfold codon_words in C. rewrite Forall_forall in C. pose proof (C _ Hw1) as L1.
  unfold no_overlap in NO. rewrite forallb_forall in NO. specialize (NO _ Hw1). rewrite forallb_forall in NO.
  pose proof (prefix_tl _ _ _ P1) as T1.
  split.
  - destruct (word_at ws s) eqn:E; [|reflexivity]. unfold word_at in E. apply existsb_exists in E.
    destruct E as [w2 [Hw2 P2]]. specialize (NO _ Hw2). apply andb_prop in NO. destruct NO as [NO1 _].
    assert (prefix (tl w1) w2 = true).
    { eapply prefix_common; eauto. rewrite (C _ Hw2). destruct w1; cbn in *; lia. }
    rewrite H in NO1. discriminate.
  - destruct (word_at ws (skipn 1 s)) eqn:E; [|reflexivity]. unfold word_at in E. apply existsb_exists in E.
    destruct E as [w2 [Hw2 P2]]. specialize (NO _ Hw2). apply andb_prop in NO. destruct NO as [_ NO2].
    assert (prefix (tl (tl w1)) w2 = true).
    { destruct s as [|y s'].
      - cbn in P2. destruct w2; [pose proof (C _ Hw2) as X; cbn in X; lia|discriminate].
      - cbn [skipn] in P2. eapply prefix_common; [eapply prefix_tl; exact T1|exact P2|].
        rewrite (C _ Hw2). destruct w1 as [|? [|? ?]]; cbn in *; lia. }
    rewrite H in NO2. discriminate.
Qed.

Lemma finditer_occs ws : codon_words ws -> no_overlap ws = true ->
  forall s pos sk, gapfree s = true -> (forall j, (j < sk)%nat -> word_at ws (skipn j s) = false) ->
  finditer ws s pos sk = occs ws s pos.
Proof.
  intros C NO. induction s as [|x s IH]; intros pos sk G Hsk; [reflexivity|].
  assert (Gs : gapfree s = true) by (cbn in G; apply andb_prop in G; tauto).
  cbn [finditer occs]. destruct sk as [|k].
  - rewrite match_any_gapfree_word by assumption. destruct (word_at ws (x :: s)) eqn:W; cbn [app].
    + f_equal. destruct (word_at_no_overlap ws x s C NO W) as [N1 N2]. apply IH; auto.
      intros j Hj. cbn in Hj. destruct j as [|[|j]]; [exact N1|exact N2|lia].
    + apply IH; auto. intros j Hj. lia.
  - pose proof (Hsk 0%nat ltac:(lia)) as W0. cbn [skipn] in W0. rewrite W0. cbn [app]. apply IH; auto.
    intros j Hj. apply (Hsk (S j)). lia.
Qed.

Lemma occs_in ws : forall s pos i e, In (i, e) (occs ws s pos) <->
  (pos <= i)%nat /\ (i < pos + length s)%nat /\ e = (i + 3)%nat /\ word_at ws (skipn (i - pos) s) = true.
Proof.
  induction s as [|x s IH]; intros pos i e; cbn [occs length].
  - split; [contradiction|]. intros (? & ? & _). lia.
  - rewrite in_app_iff, IH. split.
    + intros [H|H].
      * destruct (word_at ws (x :: s)) eqn:W; [|contradiction]. destruct H as [H|[]]. inversion H; subst.
        rewrite Nat.sub_diag. cbn [skipn]. repeat split; auto; lia.
      * destruct H as (H1 & H2 & H3 & H4). repeat split; try lia.
        replace (i - pos)%nat with (S (i - S pos)) by lia. exact H4.
    + intros (H1 & H2 & H3 & H4). destruct (Nat.eq_dec i pos) as [E|NE].
      * subst i. rewrite Nat.sub_diag in H4. cbn [skipn] in H4. rewrite H4. left. left. subst e. reflexivity.
      * right. repeat split; try lia. replace (i - pos)%nat with (S (i - S pos)) in H4 by lia. exact H4.
Qed.

Lemma start_no_overlap : no_overlap START_WORDS = true.
Proof. vm_compute. reflexivity. Qed.
Lemma stop_no_overlap : no_overlap STOP_WORDS = true.
Proof. vm_compute. reflexivity. Qed.

(* gap-free sequence: the codon lists of a frame are exactly the in-frame occurrences of the codons on the strand *)
Theorem hits_gapfree_char ws s f : codon_words ws -> no_overlap ws = true -> gapfree s = true ->
  forall i e, In (i, e) (hits ws s f) <->
    (i < length s)%nat /\ e = (i + 3)%nat /\ Z.of_nat i mod 3 = frame_key f /\ word_at ws (skipn i (strand_str s f)) = true.
Proof.
  intros C NO G i e. pose proof (gapfree_strand s f G) as Gt. unfold hits. rewrite filter_In. cbn [fst].
  rewrite (finditer_occs ws C NO (strand_str s f) 0 0 Gt) by (intros j Hj; lia).
  rewrite occs_in, strand_str_length, Nat.sub_0_r, frame_of_gapfree by exact Gt. cbn [Nat.add]. split.
  - intros [(H1 & H2 & H3 & H4) H5]. repeat split; auto. lia.
  - intros (H1 & H2 & H3 & H4). repeat split; auto; lia.
Qed.

Theorem codons_gapfree_complete s f : gapfree s = true -> forall i e,
  (In (i, e) (hits START_WORDS s f) <->
     (i < length s)%nat /\ e = (i + 3)%nat /\ Z.of_nat i mod 3 = frame_key f /\
     word_at START_WORDS (skipn i (strand_str s f)) = true) /\
  (In (i, e) (hits STOP_WORDS s f) <->
     (i < length s)%nat /\ e = (i + 3)%nat /\ Z.of_nat i mod 3 = frame_key f /\
     word_at STOP_WORDS (skipn i (strand_str s f)) = true).
Proof.
  intros G i e. split.
  - apply hits_gapfree_char; auto using start_words_codons, start_no_overlap.
  - apply hits_gapfree_char; auto using stop_words_codons, stop_no_overlap.
Qed.

Theorem codon_lists_degap s f :
  frame_starts (degap s) f = map (rbZ (strand_str s f)) (frame_starts s f) /\
  frame_stops (degap s) f = map (rbZ (strand_str s f)) (frame_stops s f) /\
  strand_str (degap s) f = degap (strand_str s f).
Proof. split; [apply frame_starts_degap|split; [apply frame_stops_degap|apply strand_degap]]. Qed.
