(* C02 proofs, part 10: "keep what differs from the base" is idempotent through an update; the text written for
   the feature that was read back is the text that was read (second cycle byte-identical). *)
From Coq Require Import List ZArith NArith Bool Lia.
From Coq.Strings Require Import Byte.
Import ListNotations.
From SV Require Import Text G_gff C02_Model C02_Lemmas C02_Line C02_Dict C02_Feat C02_Read C02_Upd.
Local Open Scope Z_scope.

Definition keep (b d : adict) : adict := filter (differs b) d.

Lemma filter_none {A} (p : A -> bool) l : (forall x, In x l -> p x = false) -> filter p l = [].
Proof. induction l as [|x l IH]; [reflexivity|]. intros H. cbn. rewrite (H x (or_introl eq_refl)). apply IH. intros y Hy. apply H. right. exact Hy. Qed.
Lemma filter_all {A} (p : A -> bool) l : (forall x, In x l -> p x = true) -> filter p l = l.
Proof. induction l as [|x l IH]; [reflexivity|]. intros H. cbn. rewrite (H x (or_introl eq_refl)). f_equal. apply IH. intros y Hy. apply H. right. exact Hy. Qed.
Lemma in_map_ov_key E b kv : In kv (map (ov E) b) -> in_keys (fst kv) b = true.
Proof.
  intros H. apply in_map_iff in H. destruct H as [[k v] [<- Hin]]. cbn [ov fst]. apply existsb_exists. exists (k, v). split; [exact Hin|apply str_eqb_refl].
Qed.
Lemma newk_differs b kv : newk b kv = true -> differs b kv = true.
Proof. unfold newk, differs. intros H. apply negb_true_iff in H. apply aget_none_in_keys in H. rewrite H. reflexivity. Qed.

Lemma keep_struct b E : keys_unique b = true -> keys_unique E = true ->
  keep b (aupdate b E) = filter (differs b) (map (ov E) b) ++ filter (newk b) E.
Proof.
  intros Ub Ue. unfold keep. rewrite (aupdate_struct E b Ub Ue), filter_app. f_equal.
  apply filter_all. intros kv H. apply filter_In in H. apply newk_differs. tauto.
Qed.

Theorem keep_idem b E : keys_unique b = true -> keys_unique E = true ->
  aupdate b (keep b (aupdate b E)) = aupdate b E.
Proof.
  intros Ub Ue. set (F := keep b (aupdate b E)).
  assert (keys_unique (aupdate b E) = true) as Uu by (apply keys_unique_aupdate; exact Ub).
  assert (keys_unique F = true) as Uf by (apply keys_unique_filter; exact Uu).
  rewrite (aupdate_struct F b Ub Uf), (aupdate_struct E b Ub Ue). f_equal.
  - apply map_ext_in. intros [k v0] Hin. unfold ov. cbn [fst snd]. f_equal.
    unfold F, keep. rewrite (aget_filter _ k _ Uu). rewrite (aget_aupdate k E b Ue). rewrite (In_aget k v0 b Ub Hin).
    destruct (aget k E) as [v|] eqn:Ge.
    + unfold differs. cbn [fst snd]. rewrite (In_aget k v0 b Ub Hin). cbn [opt_aval_eqb].
      destruct (aval_eqb v0 v) eqn:Ev; cbn [negb]; [apply aval_eqb_eq in Ev; congruence|reflexivity].
    + unfold differs. cbn [fst snd]. rewrite (In_aget k v0 b Ub Hin). cbn [opt_aval_eqb].
      rewrite (proj2 (aval_eqb_eq v0 v0) eq_refl). reflexivity.
  - unfold F. rewrite (keep_struct b E Ub Ue), filter_app.
    rewrite (filter_none (newk b) (filter (differs b) (map (ov E) b))).
    + cbn [app]. apply filter_all. intros kv H. apply filter_In in H. tauto.
    + intros kv H. apply filter_In in H. destruct H as [H _]. unfold newk. rewrite (in_map_ov_key E b kv H). reflexivity.
Qed.

(* ------------------------------------------------------------------ attrs_back as successive assignments *)
Definition oaset (k : str) (o : option aval) (d : adict) : adict := match o with Some v => aset k v d | None => d end.
Definition asets (d : adict) (v1 v2 v3 v4 : option aval) : adict :=
  oaset k_phase v4 (oaset k_score v3 (oaset k_source v2 (oaset k_seqid v1 d))).
Lemma nocol_keys d : forallb (fun k => negb (in_keys k d)) col_keys = true ->
  in_keys k_seqid d = false /\ in_keys k_source d = false /\ in_keys k_score d = false /\ in_keys k_phase d = false /\ in_keys k_type d = false.
Proof. cbn [forallb col_keys]. rewrite !andb_true_iff, !negb_true_iff. tauto. Qed.
Lemma back_asets d v1 v2 v3 v4 : forallb (fun k => negb (in_keys k d)) col_keys = true ->
  d ++ opt_entry k_seqid v1 ++ opt_entry k_source v2 ++ opt_entry k_score v3 ++ opt_entry k_phase v4 = asets d v1 v2 v3 v4.
Proof.
  intros K. destruct (nocol_keys d K) as [K1 [K2 [K3 [K4 _]]]]. unfold asets.
  destruct v1, v2, v3, v4; cbn [oaset opt_entry app];
    rewrite ?(aset_notin k_seqid) by exact K1;
    rewrite ?(aset_notin k_source) by (rewrite ?in_keys_app, K2; reflexivity);
    rewrite ?(aset_notin k_score) by (rewrite ?in_keys_app, K3; reflexivity);
    rewrite ?(aset_notin k_phase) by (rewrite ?in_keys_app, K4; reflexivity);
    rewrite <- ?app_assoc; rewrite ?app_nil_r; reflexivity.
Qed.
Lemma attrs_back_eq d sid src sc ph :
  attrs_back d sid src sc ph =
  d ++ opt_entry k_seqid (option_map AS sid) ++ opt_entry k_source (option_map AS src) ++ opt_entry k_score (option_map AF sc) ++ opt_entry k_phase (option_map AI ph).
Proof. reflexivity. Qed.
Lemma keys_unique_oaset k o d : keys_unique d = true -> keys_unique (oaset k o d) = true.
Proof. destruct o; [apply keys_unique_aset|auto]. Qed.
Lemma mentries_oaset k o d : (forall v, o = Some v -> mentry_ok (k, v) = true) -> forallb mentry_ok d = true -> forallb mentry_ok (oaset k o d) = true.
Proof.
  intros H M. destruct o as [v|]; [|exact M]. cbn [oaset]. apply forallb_aset; [|exact M].
  intros k' E. apply str_eqb_eq in E. subst k'. apply H. reflexivity.
Qed.
Lemma aget_oaset_same k o d : aget k (oaset k o d) = match o with Some v => Some v | None => aget k d end.
Proof. destruct o; [apply aget_aset_same|reflexivity]. Qed.
Lemma aget_oaset_other k k' o d : str_eqb k k' = false -> aget k' (oaset k o d) = aget k' d.
Proof. intros N. destruct o; [apply aget_aset_other; exact N|reflexivity]. Qed.

(* the dict of the first line, as the reader stores it, and the merged dict of the feature read back *)
Definition A0_of (g : adict) : adict :=
  asets (pop5 g) (aget k_seqid g) (aget k_source g) (aget k_score g) (aget k_phase g).
Definition g1_of (g : adict) : adict := oaset k_type (aget k_type g) (A0_of g).

Lemma pop5_aget_col g : keys_unique g = true ->
  aget k_seqid (pop5 g) = None /\ aget k_source (pop5 g) = None /\ aget k_score (pop5 g) = None /\ aget k_phase (pop5 g) = None /\ aget k_type (pop5 g) = None.
Proof.
  intros U. destruct (nocol_keys _ (pop5_nocol g U)) as [K1 [K2 [K3 [K4 K5]]]]. rewrite !aget_none_in_keys. tauto.
Qed.
Lemma aget_pop5_other k g : is_col_key k = false -> aget k (pop5 g) = aget k g.
Proof.
  unfold is_col_key, col_keys. cbn [existsb]. rewrite !orb_false_iff. intros [A [B [C [D [E _]]]]].
  unfold pop5, pop3. rewrite !aget_apop_other by (rewrite str_eqb_sym; assumption). reflexivity.
Qed.
(* as a map, the merged dict read back is the merged dict written *)
Theorem aget_g1 g k : keys_unique g = true -> aget k (g1_of g) = aget k g.
Proof.
  intros U. destruct (pop5_aget_col g U) as [P1 [P2 [P3 [P4 P5]]]]. unfold g1_of, A0_of, asets.
  destruct (str_eqb k_type k) eqn:E5; [apply str_eqb_eq in E5; subst k; rewrite aget_oaset_same;
    destruct (aget k_type g); [reflexivity|]; rewrite !aget_oaset_other by reflexivity; exact P5|].
  rewrite (aget_oaset_other _ _ _ _ E5).
  destruct (str_eqb k_phase k) eqn:E4; [apply str_eqb_eq in E4; subst k; rewrite aget_oaset_same;
    destruct (aget k_phase g); [reflexivity|]; rewrite !aget_oaset_other by reflexivity; exact P4|].
  rewrite (aget_oaset_other _ _ _ _ E4).
  destruct (str_eqb k_score k) eqn:E3; [apply str_eqb_eq in E3; subst k; rewrite aget_oaset_same;
    destruct (aget k_score g); [reflexivity|]; rewrite !aget_oaset_other by reflexivity; exact P3|].
  rewrite (aget_oaset_other _ _ _ _ E3).
  destruct (str_eqb k_source k) eqn:E2; [apply str_eqb_eq in E2; subst k; rewrite aget_oaset_same;
    destruct (aget k_source g); [reflexivity|]; rewrite !aget_oaset_other by reflexivity; exact P2|].
  rewrite (aget_oaset_other _ _ _ _ E2).
  destruct (str_eqb k_seqid k) eqn:E1; [apply str_eqb_eq in E1; subst k; rewrite aget_oaset_same;
    destruct (aget k_seqid g); [reflexivity|]; exact P1|].
  rewrite (aget_oaset_other _ _ _ _ E1).
  apply aget_pop5_other. unfold is_col_key, col_keys. cbn [existsb]. rewrite !(str_eqb_sym k), E1, E2, E3, E4, E5. reflexivity.
Qed.
Lemma g1_ok g : mdict_ok g = true -> mdict_ok (g1_of g) = true.
Proof.
  intros Mg. pose proof Mg as Mg'. unfold mdict_ok in Mg'. apply andb_prop in Mg'. destruct Mg' as [M U].
  unfold mdict_ok, g1_of, A0_of, asets. apply andb_true_intro. split.
  - repeat (apply mentries_oaset; [intros v Hv; apply (mdict_entry g _ _ Mg Hv)|]). apply pop5_mentries. exact M.
  - repeat apply keys_unique_oaset. apply keys_unique_pop5. exact U.
Qed.

Definition col_tail (g : adict) : adict :=
  (opt_entry k_seqid (aget k_seqid g) ++ opt_entry k_source (aget k_source g) ++ opt_entry k_score (aget k_score g)
   ++ opt_entry k_phase (aget k_phase g)) ++ opt_entry k_type (aget k_type g).
Lemma g1_app g : keys_unique g = true -> g1_of g = pop5 g ++ col_tail g.
Proof.
  intros U. pose proof (pop5_nocol g U) as K. destruct (nocol_keys _ K) as [_ [_ [_ [_ K5]]]].
  unfold g1_of, A0_of, col_tail. rewrite <- (back_asets _ _ _ _ _ K).
  destruct (aget k_type g) as [v|]; cbn [oaset opt_entry]; [|rewrite !app_nil_r; reflexivity].
  rewrite aset_notin; [rewrite <- !app_assoc; reflexivity|].
  rewrite in_keys_app, K5. destruct (aget k_seqid g), (aget k_source g), (aget k_score g), (aget k_phase g); reflexivity.
Qed.
Lemma apop_app_notin k a t : in_keys k a = false -> apop k (a ++ t) = a ++ apop k t.
Proof.
  induction a as [|[k' v'] a IH]; [reflexivity|]. cbn [in_keys existsb fst app apop]. intros H. apply orb_false_elim in H. destruct H as [H1 H2].
  rewrite H1. f_equal. apply IH. exact H2.
Qed.
Lemma pop5_app_nocol b t : forallb (fun k => negb (in_keys k b)) col_keys = true -> pop5 (b ++ t) = b ++ pop5 t.
Proof.
  intros K. destruct (nocol_keys _ K) as [K1 [K2 [K3 [K4 K5]]]]. unfold pop5, pop3.
  rewrite (apop_app_notin _ _ _ K1), (apop_app_notin _ _ _ K2), (apop_app_notin _ _ _ K5), (apop_app_notin _ _ _ K3), (apop_app_notin _ _ _ K4).
  reflexivity.
Qed.
Lemma pop5_col_tail g : pop5 (col_tail g) = [].
Proof. unfold col_tail. destruct (aget k_seqid g), (aget k_source g), (aget k_score g), (aget k_phase g), (aget k_type g); reflexivity. Qed.
Theorem pop5_g1 g : keys_unique g = true -> pop5 (g1_of g) = pop5 g.
Proof.
  intros U. rewrite (g1_app g U), (pop5_app_nocol _ _ (pop5_nocol g U)), pop5_col_tail. apply app_nil_r.
Qed.

(* ------------------------------------------------------------------ pop commutes with update *)
Definition notk (k : str) (kv : str * aval) : bool := negb (str_eqb (fst kv) k).
Lemma apop_aset_same k v d : keys_unique d = true -> apop k (aset k v d) = apop k d.
Proof.
  induction d as [|[k' v'] d IH]; cbn [keys_unique aset apop]; [intros _; rewrite str_eqb_refl; reflexivity|].
  intros U. apply andb_prop in U. destruct U as [_ U]. destruct (str_eqb k' k) eqn:E; cbn [apop]; rewrite E; [reflexivity|].
  rewrite (IH U). reflexivity.
Qed.
Lemma apop_aset_other k k' v d : str_eqb k' k = false -> apop k (aset k' v d) = aset k' v (apop k d).
Proof.
  intros N. induction d as [|[k2 v2] d IH]; cbn [aset apop].
  - rewrite N. reflexivity.
  - destruct (str_eqb k2 k') eqn:E1; destruct (str_eqb k2 k) eqn:E2; cbn [aset apop]; rewrite ?E1, ?E2; try reflexivity.
    + apply str_eqb_eq in E1. apply str_eqb_eq in E2. subst. rewrite str_eqb_refl in N. discriminate.
    + rewrite IH. reflexivity.
Qed.
Lemma apop_aupdate k e : forall d, keys_unique d = true -> apop k (aupdate d e) = aupdate (apop k d) (filter (notk k) e).
Proof.
  induction e as [|[k' v'] e IH]; intros d U; [reflexivity|]. rewrite aupdate_cons, (IH _ (keys_unique_aset k' v' d U)).
  cbn [filter]. unfold notk at 2. cbn [fst]. destruct (str_eqb k' k) eqn:E; cbn [negb].
  - apply str_eqb_eq in E. subst k'. rewrite (apop_aset_same k v' d U). reflexivity.
  - rewrite (apop_aset_other k k' v' d E). rewrite aupdate_cons. reflexivity.
Qed.
Definition noncol (e : adict) : adict := filter (fun kv => negb (is_col_key (fst kv))) e.
Lemma filter_filter {A} (p q : A -> bool) l : filter p (filter q l) = filter (fun x => q x && p x) l.
Proof. induction l as [|x l IH]; [reflexivity|]. cbn. destruct (q x); cbn; [destruct (p x); rewrite IH; reflexivity|exact IH]. Qed.
Theorem pop5_aupdate d e : keys_unique d = true -> pop5 (aupdate d e) = aupdate (pop5 d) (noncol e).
Proof.
  intros U. unfold pop5, pop3.
  pose proof (keys_unique_apop k_seqid d U) as U1. pose proof (keys_unique_apop k_source _ U1) as U2.
  pose proof (keys_unique_apop k_type _ U2) as U3. pose proof (keys_unique_apop k_score _ U3) as U4.
  rewrite (apop_aupdate k_seqid e d U), (apop_aupdate k_source _ _ U1), (apop_aupdate k_type _ _ U2),
    (apop_aupdate k_score _ _ U3), (apop_aupdate k_phase _ _ U4).
  f_equal. rewrite !filter_filter. unfold noncol. apply filter_ext. intros [k v]. unfold notk, is_col_key, col_keys. cbn [fst existsb].
  destruct (str_eqb k k_seqid), (str_eqb k k_source), (str_eqb k k_type), (str_eqb k k_score), (str_eqb k k_phase); reflexivity.
Qed.

(* ------------------------------------------------------------------ the per-location difference dict *)
Lemma diff_attrs_acc attrs fg : forall acc, keys_unique attrs = true ->
  (forall kv, In kv attrs -> in_keys (fst kv) acc = false) ->
  diff_attrs attrs fg acc = acc ++ filter (differs fg) attrs.
Proof.
  induction attrs as [|[k v] attrs IH]; intros acc U D; [cbn; rewrite app_nil_r; reflexivity|].
  cbn [keys_unique] in U. apply andb_prop in U. destruct U as [Uk U]. apply negb_true_iff in Uk. change (in_keys k attrs = false) in Uk.
  cbn [diff_attrs filter]. unfold differs at 1. cbn [fst snd]. destruct (opt_aval_eqb (aget k fg) v); cbn [negb].
  - apply IH; [exact U|]. intros kv H. apply D. right. exact H.
  - rewrite IH; [|exact U|].
    + rewrite (aset_notin k v acc (D (k, v) (or_introl eq_refl))). rewrite <- app_assoc. reflexivity.
    + intros kv H. rewrite in_keys_aset, (D kv (or_intror H)). cbn [orb]. rewrite str_eqb_sym. apply (in_keys_false_In k attrs kv Uk H).
Qed.
Lemma diff_filter attrs fg : keys_unique attrs = true -> diff_attrs attrs fg [] = filter (differs fg) attrs.
Proof. intros U. rewrite (diff_attrs_acc attrs fg [] U); [reflexivity|intros; reflexivity]. Qed.

Lemma back_form g m d : mdict_ok g = true -> mdict_ok m = true ->
  attrs_back d (ocol k_seqid g) (ocol k_source m) (oscore m) (ophase m) =
  d ++ opt_entry k_seqid (aget k_seqid g) ++ opt_entry k_source (aget k_source m) ++ opt_entry k_score (aget k_score m) ++ opt_entry k_phase (aget k_phase m).
Proof.
  intros Mg Mm. destruct (m_seqid g Mg) as [E1 _]. destruct (m_source m Mm) as [E2 _]. destruct (m_score m Mm) as [E3 _]. pose proof (m_phase m Mm) as E4.
  rewrite attrs_back_eq, <- E1, <- E2, <- E3, <- E4. reflexivity.
Qed.
Lemma A0_form g l0 : mdict_ok g = true -> loc_meta g l0 = g -> g_attrs (gl_of g (pop5 g) l0) = A0_of g.
Proof.
  intros Mg E. unfold gl_of. cbn [g_attrs]. rewrite E, (back_form g g _ Mg Mg). unfold A0_of.
  apply back_asets. apply pop5_nocol. unfold mdict_ok in Mg. apply andb_prop in Mg. tauto.
Qed.
Lemma aget_A0_noncol g k : is_col_key k = false -> aget k (A0_of g) = aget k (pop5 g).
Proof.
  unfold is_col_key, col_keys. cbn [existsb]. rewrite !orb_false_iff. intros [A [B [C [D [E _]]]]].
  unfold A0_of, asets. rewrite !aget_oaset_other by (rewrite str_eqb_sym; assumption). reflexivity.
Qed.
Lemma aget_A0_col g k : keys_unique g = true -> existsb (str_eqb k) [k_seqid; k_source; k_score; k_phase] = true -> aget k (A0_of g) = aget k g.
Proof.
  intros U H. rewrite <- (aget_g1 g k U). unfold g1_of. symmetry. apply aget_oaset_other.
  cbn [existsb] in H. rewrite !orb_true_iff in H. destruct H as [H|[H|[H|[H|H]]]]; try discriminate H; apply str_eqb_eq in H; subst k; reflexivity.
Qed.

Definition loc_plain (l : loc) : bool := loc_no_cols l.
Definition lg (l : loc) : adict := match lgff l with Some d => d | None => [] end.
Lemma loc_meta_lg g l : loc_meta g l = aupdate g (lg l).
Proof. unfold loc_meta, lg. destruct (lgff l); reflexivity. Qed.
Lemma loc_plain_keys l : loc_plain l = true ->
  aget k_seqid (lg l) = None /\ aget k_type (lg l) = None /\ aget k_ID (lg l) = None.
Proof.
  unfold loc_plain, loc_no_cols, lg. destruct (lgff l) as [d|]; [|auto]. intros H. apply negb_true_iff in H.
  assert (forall k, (forall kv : str * aval, str_eqb (fst kv) k = true -> (str_eqb (fst kv) k_seqid || str_eqb (fst kv) k_type || str_eqb (fst kv) k_ID) = true) -> aget k d = None) as Q.
  { intros k Hk. apply aget_none_in_keys. destruct (in_keys k d) eqn:E; [|reflexivity]. apply existsb_exists in E. destruct E as [kv [E1 E2]].
    assert (existsb (fun kv => str_eqb (fst kv) k_seqid || str_eqb (fst kv) k_type || str_eqb (fst kv) k_ID) d = true) as T
      by (apply existsb_exists; exists kv; split; [exact E1|apply Hk; exact E2]). congruence. }
  repeat split; apply Q; intros kv E; rewrite E; rewrite ?orb_true_r; reflexivity.
Qed.
Lemma lg_unique l : loc_ok l = true -> keys_unique (lg l) = true.
Proof.
  unfold loc_ok, lg. destruct (lgff l) as [d|]; [|reflexivity]. rewrite !andb_true_iff. unfold gff_ok. rewrite andb_true_iff. tauto.
Qed.

Lemma keep_self b : keys_unique b = true -> keep b b = [].
Proof.
  intros U. unfold keep. apply filter_none. intros [k v] H. unfold differs. cbn [fst snd]. rewrite (In_aget k v b U H). cbn [opt_aval_eqb].
  rewrite (proj2 (aval_eqb_eq v v) eq_refl). reflexivity.
Qed.
Lemma write_line_ext c1 c2 c3 l l' d m m' :
  lstart l = lstart l' -> lstop l = lstop l' -> lstrand l = lstrand l' ->
  aget k_score m = aget k_score m' -> aget k_phase m = aget k_phase m' ->
  write_line c1 c2 c3 l d m = write_line c1 c2 c3 l' d m'.
Proof. intros E1 E2 E3 E4 E5. unfold write_line, col_or_dot. rewrite E1, E2, E3, E4, E5. reflexivity. Qed.

Lemma opt_aval_eqb_true o v : opt_aval_eqb o v = true -> o = Some v.
Proof. destruct o as [x|]; cbn; [|discriminate]. intros H. apply aval_eqb_eq in H. congruence. Qed.
Definition three (o0 o1 o2 : option aval) : adict := opt_entry k_source o0 ++ opt_entry k_score o1 ++ opt_entry k_phase o2.
Definition kept (A : adict) (k : str) (o : option aval) : option aval :=
  match o with Some v => if differs A (k, v) then Some v else None | None => None end.
Lemma aget_source_three A o0 o1 o2 : aget k_source (filter (differs A) (three o0 o1 o2)) = kept A k_source o0.
Proof.
  unfold three, kept. destruct o0 as [u|], o1 as [v|], o2 as [w|]; cbn [opt_entry app filter];
    repeat (match goal with |- context [differs A ?x] => destruct (differs A x) end); reflexivity.
Qed.
Lemma aget_score_three A o0 o1 o2 : aget k_score (filter (differs A) (three o0 o1 o2)) = kept A k_score o1.
Proof.
  unfold three, kept. destruct o0 as [u|], o1 as [v|], o2 as [w|]; cbn [opt_entry app filter];
    repeat (match goal with |- context [differs A ?x] => destruct (differs A x) end); reflexivity.
Qed.
Lemma aget_phase_three A o0 o1 o2 : aget k_phase (filter (differs A) (three o0 o1 o2)) = kept A k_phase o2.
Proof.
  unfold three, kept. destruct o0 as [u|], o1 as [v|], o2 as [w|]; cbn [opt_entry app filter];
    repeat (match goal with |- context [differs A ?x] => destruct (differs A x) end); reflexivity.
Qed.
Lemma aget_other_three A k o0 o1 o2 : existsb (str_eqb k) [k_seqid; k_type] = true -> aget k (filter (differs A) (three o0 o1 o2)) = None.
Proof.
  intros Hk. cbn [existsb] in Hk. rewrite !orb_true_iff in Hk.
  unfold three. destruct o0 as [u|], o1 as [v|], o2 as [w|]; cbn [opt_entry app filter];
    repeat (match goal with |- context [differs A ?x] => destruct (differs A x) end);
    destruct Hk as [H|[H|H]]; try discriminate H; apply str_eqb_eq in H; subst k; reflexivity.
Qed.
Lemma qcol_ext k a b : aget k a = aget k b -> qcol k a = qcol k b.
Proof. intros E. unfold qcol. rewrite E. reflexivity. Qed.

Section Loc.
  Variables (g : adict) (l : loc) (idv : aval).
  Hypothesis Mg : mdict_ok g = true.
  Hypothesis Hl : loc_ok l = true.
  Hypothesis Hp : loc_plain l = true.
  Hypothesis Hid : aget k_ID g = Some idv.

  Let b := pop5 g.
  Let M := loc_meta g l.
  Let F := keep b (pop5 M).
  Let Ai := attrs_back (dline_i g idv l) (ocol k_seqid g) (ocol k_source M) (oscore M) (ophase M).
  Let D := diff_attrs Ai (A0_of g) [].
  Let S := filter (differs (A0_of g)) (three (aget k_source M) (aget k_score M) (aget k_phase M)).

  Lemma Ug : keys_unique g = true. Proof. unfold mdict_ok in Mg. apply andb_prop in Mg. tauto. Qed.
  Lemma Ub : keys_unique b = true. Proof. apply keys_unique_pop5, Ug. Qed.
  Lemma Mm : mdict_ok M = true. Proof. apply locmeta_ok; assumption. Qed.
  Lemma popM : pop5 M = aupdate b (noncol (lg l)).
  Proof. unfold M. rewrite loc_meta_lg. apply pop5_aupdate, Ug. Qed.
  Lemma U_noncol : keys_unique (noncol (lg l)) = true.
  Proof. apply keys_unique_filter, lg_unique, Hl. Qed.
  Lemma aget_M k : aget k M = match aget k (lg l) with Some v => Some v | None => aget k g end.
  Proof. unfold M. rewrite loc_meta_lg. apply aget_aupdate, lg_unique, Hl. Qed.

  Lemma F_noID : in_keys k_ID F = false.
  Proof.
    apply aget_none_in_keys. unfold F, keep. rewrite aget_filter by (apply keys_unique_pop5; pose proof Mm as Q; unfold mdict_ok in Q; apply andb_prop in Q; tauto).
    rewrite (aget_pop5_other k_ID M eq_refl), aget_M. destruct (loc_plain_keys l Hp) as [_ [_ N]]. rewrite N, Hid.
    unfold differs. cbn [fst snd]. unfold b. rewrite (aget_pop5_other k_ID g eq_refl), Hid. cbn [opt_aval_eqb].
    rewrite (proj2 (aval_eqb_eq idv idv) eq_refl). reflexivity.
  Qed.
  Lemma dline_form : dline_i g idv l = F ++ [(k_ID, idv)].
  Proof. unfold dline_i. apply aset_notin. exact F_noID. Qed.

  Lemma F_nocol kv : In kv F -> is_col_key (fst kv) = false.
  Proof.
    intros H. unfold F, keep in H. apply filter_In in H. destruct H as [H _].
    pose proof Mm as Q. unfold mdict_ok in Q. apply andb_prop in Q. destruct Q as [_ Q]. pose proof (pop5_nocol M Q) as K.
    unfold is_col_key. destruct (existsb (str_eqb (fst kv)) col_keys) eqn:E; [|reflexivity].
    apply existsb_exists in E. destruct E as [k [Hk E]]. apply str_eqb_eq in E. subst k.
    rewrite forallb_forall in K. specialize (K _ Hk). apply negb_true_iff in K.
    pose proof (in_keys_false_In _ _ kv K H) as N. rewrite str_eqb_refl in N. discriminate N.
  Qed.
  Lemma F_differsA0 kv : In kv F -> differs (A0_of g) kv = true.
  Proof.
    intros H. pose proof (F_nocol kv H) as N. unfold F, keep in H. apply filter_In in H. destruct H as [_ H].
    unfold differs in *. rewrite (aget_A0_noncol g _ N). exact H.
  Qed.

  Lemma Ai_form : Ai = F ++ [(k_ID, idv)] ++ opt_entry k_seqid (aget k_seqid g) ++ three (aget k_source M) (aget k_score M) (aget k_phase M).
  Proof. unfold Ai. rewrite (back_form g M _ Mg Mm), dline_form, <- app_assoc. reflexivity. Qed.
  Lemma Ai_unique : keys_unique Ai = true.
  Proof.
    unfold Ai. rewrite (back_form g M _ Mg Mm). destruct (dline_i_ok g idv l Mg Hl Hid) as [_ [U K]].
    rewrite (back_asets _ _ _ _ _ K). unfold asets. repeat apply keys_unique_oaset. exact U.
  Qed.
  Lemma D_form : D = F ++ S.
  Proof.
    unfold D. rewrite (diff_filter _ _ Ai_unique), Ai_form, !filter_app.
    rewrite (filter_all _ F F_differsA0). f_equal.
    assert (filter (differs (A0_of g)) [(k_ID, idv)] = []) as E1.
    { cbn [filter]. unfold differs. cbn [fst snd]. rewrite (aget_A0_noncol g k_ID eq_refl). fold b. unfold b.
      rewrite (aget_pop5_other k_ID g eq_refl), Hid. cbn [opt_aval_eqb]. rewrite (proj2 (aval_eqb_eq idv idv) eq_refl). reflexivity. }
    assert (forall k, existsb (str_eqb k) [k_seqid; k_source; k_score; k_phase] = true ->
                      filter (differs (A0_of g)) (opt_entry k (aget k g)) = []) as E2.
    { intros k Hk. destruct (aget k g) as [v|] eqn:G; [|reflexivity]. cbn [opt_entry filter]. unfold differs. cbn [fst snd].
      rewrite (aget_A0_col g k Ug Hk), G. cbn [opt_aval_eqb]. rewrite (proj2 (aval_eqb_eq v v) eq_refl). reflexivity. }
    rewrite E1, (E2 k_seqid eq_refl). cbn [app]. reflexivity.
  Qed.
  Lemma S_col kv : In kv S -> is_col_key (fst kv) = true.
  Proof.
    unfold S, three. intros H. apply filter_In in H. destruct H as [H _].
    destruct (aget k_source M), (aget k_score M), (aget k_phase M); cbn in H;
      repeat (destruct H as [<-|H]; [reflexivity|]); contradiction.
  Qed.
  Lemma noncol_D : noncol D = F.
  Proof.
    rewrite D_form. unfold noncol. rewrite filter_app.
    rewrite (filter_all _ F) by (intros kv H; rewrite (F_nocol kv H); reflexivity).
    rewrite (filter_none _ S) by (intros kv H; rewrite (S_col kv H); reflexivity). apply app_nil_r.
  Qed.
  Lemma D_unique : keys_unique D = true.
  Proof. unfold D. rewrite (diff_filter _ _ Ai_unique). apply keys_unique_filter, Ai_unique. Qed.

  (* the location as the reader rebuilds it *)
  Definition l1 : loc := merge_loc (A0_of g) (gl_of g (dline_i g idv l) l).
  Lemma l1_meta : loc_meta (g1_of g) l1 = aupdate (g1_of g) D.
  Proof.
    unfold l1, merge_loc, loc_meta. cbn [lgff g_attrs gl_of]. fold M. fold Ai. fold D. unfold ometa. destruct D; reflexivity.
  Qed.
  Lemma U1 : keys_unique (g1_of g) = true.
  Proof. pose proof (g1_ok g Mg) as Q. unfold mdict_ok in Q. apply andb_prop in Q. tauto. Qed.

  Theorem dline_same : dline_i (g1_of g) idv l1 = dline_i g idv l.
  Proof.
    unfold dline_i. rewrite l1_meta, (pop5_aupdate _ _ U1), (pop5_g1 g Ug), noncol_D.
    fold b. unfold F at 1. rewrite popM. rewrite (keep_idem b _ Ub U_noncol). rewrite <- popM. reflexivity.
  Qed.

  Lemma aget_S k : existsb (str_eqb k) [k_source; k_score; k_phase] = true ->
    match aget k D with Some v => Some v | None => aget k g end = aget k M.
  Proof.
    intros Hk.
    assert (is_col_key k = true) as Ck by (cbn [existsb] in Hk; rewrite !orb_true_iff in Hk; destruct Hk as [H|[H|[H|H]]]; try discriminate H; apply str_eqb_eq in H; subst k; reflexivity).
    assert (aget k F = None) as NF.
    { apply aget_none_in_keys. destruct (in_keys k F) eqn:E; [|reflexivity]. apply existsb_exists in E. destruct E as [kv [E1 E2]].
      apply str_eqb_eq in E2. subst k. rewrite (F_nocol kv E1) in Ck. discriminate Ck. }
    assert (aget k (A0_of g) = aget k g) as GA
      by (apply (aget_A0_col g k Ug); cbn [existsb] in *; rewrite !orb_true_iff in *; tauto).
    assert (aget k M = None -> aget k g = None) as MN by (rewrite aget_M; destruct (aget k (lg l)); [discriminate|auto]).
    rewrite D_form, aget_app, NF. unfold S.
    assert (match kept (A0_of g) k (aget k M) with Some v => Some v | None => aget k g end = aget k M) as Q.
    { unfold kept. destruct (aget k M) as [v|] eqn:GM; [|apply MN; reflexivity].
      unfold differs. cbn [fst snd]. rewrite GA. destruct (opt_aval_eqb (aget k g) v) eqn:E; cbn [negb]; [|reflexivity].
      apply opt_aval_eqb_true. exact E. }
    cbn [existsb] in Hk. rewrite !orb_true_iff in Hk. destruct Hk as [H|[H|[H|H]]]; try discriminate H; apply str_eqb_eq in H; subst k.
    - rewrite aget_source_three. exact Q.
    - rewrite aget_score_three. exact Q.
    - rewrite aget_phase_three. exact Q.
  Qed.

  (* effective attributes of the location are kept, key by key *)
  Theorem aget_eff k : match aget k D with Some v => Some v | None => aget k g end = aget k M.
  Proof.
    assert (aget k M = None -> aget k g = None) as MN by (rewrite aget_M; destruct (aget k (lg l)); [discriminate|auto]).
    destruct (is_col_key k) eqn:Ck.
    - unfold is_col_key, col_keys in Ck. cbn [existsb] in Ck. rewrite !orb_true_iff in Ck.
      assert (forall k', existsb (str_eqb k') [k_seqid; k_type] = true -> aget k' (lg l) = None ->
                match aget k' D with Some v => Some v | None => aget k' g end = aget k' M) as Q.
      { intros k' Hk' NL. rewrite aget_M, NL. rewrite D_form, aget_app.
        assert (aget k' F = None) as NF.
        { apply aget_none_in_keys. destruct (in_keys k' F) eqn:E; [|reflexivity]. apply existsb_exists in E. destruct E as [kv [E1 E2]].
          apply str_eqb_eq in E2. subst k'. pose proof (F_nocol kv E1) as N. unfold is_col_key, col_keys in N. cbn [existsb] in *.
          rewrite !orb_false_iff in N. rewrite !orb_true_iff in Hk'. destruct N as [N1 [N2 [_ [_ [N5 _]]]]].
          destruct Hk' as [H|[H|H]]; try discriminate H; apply str_eqb_eq in H; rewrite H in *; rewrite str_eqb_refl in *; discriminate. }
        rewrite NF. unfold S. rewrite (aget_other_three _ _ _ _ _ Hk'). reflexivity. }
      destruct (loc_plain_keys l Hp) as [L1 [L3 _]].
      destruct Ck as [H|[H|[H|[H|[H|H]]]]]; try discriminate H; apply str_eqb_eq in H; subst k.
      + apply Q; [reflexivity|exact L1]. + apply aget_S. reflexivity.
      + apply aget_S. reflexivity. + apply aget_S. reflexivity.
      + apply Q; [reflexivity|exact L3].
    - rewrite D_form, aget_app.
      assert (aget k S = None) as NS.
      { apply aget_none_in_keys. destruct (in_keys k S) eqn:E; [|reflexivity]. apply existsb_exists in E. destruct E as [kv [E1 E2]].
        apply str_eqb_eq in E2. subst k. rewrite (S_col kv E1) in Ck. discriminate Ck. }
      unfold F, keep. rewrite aget_filter by (apply keys_unique_pop5; pose proof Mm as Q; unfold mdict_ok in Q; apply andb_prop in Q; tauto).
      rewrite (aget_pop5_other k M Ck). destruct (aget k M) as [v|] eqn:GM.
      + unfold differs. cbn [fst snd]. unfold b. rewrite (aget_pop5_other k g Ck).
        destruct (opt_aval_eqb (aget k g) v) eqn:E; cbn [negb]; [|reflexivity]. rewrite NS. apply opt_aval_eqb_true. exact E.
      + rewrite NS. apply MN. reflexivity.
  Qed.

  Theorem line_same c1 c3 :
    write_line_s c1 c3 l1 (dline_i (g1_of g) idv l1) (loc_meta (g1_of g) l1) =
    write_line_s c1 c3 l (dline_i g idv l) (loc_meta g l).
  Proof.
    assert (forall k, existsb (str_eqb k) [k_source; k_score; k_phase] = true -> aget k (loc_meta (g1_of g) l1) = aget k (loc_meta g l)) as Q.
    { intros k Hk. rewrite l1_meta, (aget_aupdate _ _ _ D_unique), (aget_g1 g _ Ug). apply aget_S. exact Hk. }
    unfold write_line_s. rewrite (qcol_ext k_source _ _ (Q k_source eq_refl)). destruct (qcol k_source (loc_meta g l)); [|reflexivity].
    rewrite dline_same. apply write_line_ext; try reflexivity; rewrite !aget_pop3 by reflexivity; apply Q; reflexivity.
  Qed.
End Loc.
