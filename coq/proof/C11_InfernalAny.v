(* C11 round 7: ANY text handed to the Infernal reader. The first line that contains "--" while no columns are known is the
   ruler (whatever else it is): its number of blank-separated groups selects the table and the split limit; before it only
   comment and blank lines are accepted (a data line without columns is a KeyError: there are no default Infernal columns);
   after it every line that is no comment is a row. *)
From Coq Require Import List ZArith NArith Bool Lia.
From Coq.Strings Require Import Byte.
Import ListNotations.
From SV Require Import Text G_tab C11_Model C11_Lemmas C11_TextLemmas C11_FileLemmas C11_BlocksLemmas C11_AnyLemmas.

(* the columns and split limit a ruler line announces, core.py:279-282 *)
Definition ruler_columns (l : str) : res (list hdr * nat) :=
  let n := length (split_ws (lstrip_ch "#"%byte l)) in
  match infernal_headers n with
  | Ok hs => Ok (hs, Nat.pred n)
  | Err e => Err e
  end.

Fixpoint inf_any (ftype : option str) (cur : option (list hdr * nat)) (ls : list str) : res (list feat) :=
  match ls with
  | [] => Ok []
  | l :: r =>
      match cur with
      | None =>
          if contains (bs "--"%bs) l then
            match ruler_columns l with Err e => Err e | Ok c => inf_any ftype (Some c) r end
          else if skip_any l then inf_any ftype None r
          else Err eKey
      | Some (hs, ms) =>
          if skip_any l then inf_any ftype cur r
          else match row_feature Infernal ftype hs (line_toks None (Some ms) l) with
               | Err e => Err e
               | Ok f => match inf_any ftype cur r with Ok fs => Ok (f :: fs) | Err e => Err e end
               end
      end
  end.

Definition st_cur (st : state) : option (list hdr * nat) :=
  match s_headers st, s_maxsplit st with
  | Some hs, Some ms => Some (hs, ms)
  | _, _ => None
  end.

Lemma default_infernal_none : assoc (dialect_name Infernal) DEFAULT_OUTFMT = None.
Proof. vm_compute. reflexivity. Qed.

Lemma run_inf_any ftype : forall ls st,
  (s_headers st = None \/ exists hs ms, s_headers st = Some hs /\ s_maxsplit st = Some ms) ->
  match inf_any ftype (st_cur st) ls with
  | Ok fs => exists st', run Infernal None true ftype st ls = Ok st' /\ s_fts st' = rev fs ++ s_fts st
  | Err e => run Infernal None true ftype st ls = Err e
  end.
Proof.
  induction ls as [|l r IH]; intros st INV; cbn [inf_any run].
  - destruct (st_cur st) as [[hs ms]|]; exists st; split; reflexivity.
  - unfold step. cbn [andb].
    destruct INV as [HN|(hs & ms & HS & MS)].
    + (* no columns yet *)
      unfold st_cur. rewrite HN. cbn [andb].
      destruct (contains (bs "--"%bs) l) eqn:C.
      * unfold ruler_columns, infernal_headers.
        destruct (zassoc (Z.of_nat (length (split_ws (lstrip_ch "#"%byte l)))) INFERNAL_NCOLS) as [v|]; cbn [snd]; [|reflexivity].
        destruct (assoc (dialect_name Infernal ++ "_"%byte :: v) DEFAULT_OUTFMT) as [names|]; cbn [snd]; [|reflexivity].
        destruct (headers_from false Infernal names) as [hs|e]; cbn [snd]; [|reflexivity].
        specialize (IH (mkState (Some hs) (Some (Nat.pred (length (split_ws (lstrip_ch "#"%byte l))))) (s_fts st))).
        unfold st_cur in IH. cbn [s_headers s_maxsplit s_fts] in IH. apply IH. right. eauto.
      * unfold skip_any, blank. destruct (starts_with (bs "#"%bs) l || match strip_ws l with [] => true | _ :: _ => false end); cbn [snd].
        -- specialize (IH st (or_introl HN)). unfold st_cur in IH. rewrite HN in IH. exact IH.
        -- rewrite default_infernal_none. reflexivity.
    + (* columns known *)
      assert (SC : st_cur st = Some (hs, ms)) by (unfold st_cur; rewrite HS, MS; reflexivity).
      rewrite SC, HS, MS. cbn [andb].
      unfold skip_any, blank. destruct (starts_with (bs "#"%bs) l || match strip_ws l with [] => true | _ :: _ => false end); cbn [snd].
      * specialize (IH st (or_intror (ex_intro _ hs (ex_intro _ ms (conj HS MS))))). rewrite SC in IH. exact IH.
      * unfold line_toks. destruct (row_feature Infernal ftype hs (py_split None (Some ms) (strip_ws l))) as [f|e]; cbn [snd]; [|reflexivity].
        specialize (IH (mkState (Some hs) (Some ms) (f :: s_fts st))). unfold st_cur in IH. cbn [s_headers s_maxsplit s_fts] in IH.
        specialize (IH (or_intror (ex_intro _ hs (ex_intro _ ms (conj eq_refl eq_refl))))).
        destruct (inf_any ftype (Some (hs, ms)) r) as [fs|e]; [|exact IH].
        destruct IH as (st' & R & S). exists st'. split; [exact R|]. rewrite S. cbn [rev]. rewrite <- app_assoc. reflexivity.
Qed.

Lemma read_infernal_text sep outfmt ftype univ content :
  snd (read_content Infernal sep outfmt ftype univ content) = inf_any ftype None (content_lines univ content).
Proof.
  unfold read_content. fold (content_lines univ content). cbn [eff_sep]. rewrite read_lines_run.
  pose proof (run_inf_any ftype (content_lines univ content) (mkState None None []) (or_introl eq_refl)) as R.
  unfold st_cur in R. cbn [s_headers s_maxsplit s_fts] in R.
  destruct (inf_any ftype None (content_lines univ content)) as [fs|e].
  - destruct R as (st' & -> & S). rewrite S, app_nil_r, rev_involutive. reflexivity.
  - rewrite R. reflexivity.
Qed.

(* a data line before any ruler: KeyError, whatever follows *)
Lemma infernal_row_before_ruler ftype l r : contains (bs "--"%bs) l = false -> skip_any l = false ->
  inf_any ftype None (l :: r) = Err eKey.
Proof. intros C S. cbn [inf_any]. rewrite C, S. reflexivity. Qed.

(* non-vacuity: a hit line handed to the Infernal reader without the two header lines; a description holding "--" makes the
   first hit line the ruler (the known behaviour behind the double-hyphen finding): the file below reads to ONE feature *)
Definition ex5_row (s e : str) (desc : str) : str :=
  join " "%byte [bs "chrA"%bs; bs "-"%bs; bs "tRNA5"%bs; bs "-"%bs; bs "cm"%bs; bs "1"%bs; bs "72"%bs; s; e; bs "+"%bs; bs "no"%bs; bs "1"%bs;
                 bs "0.50"%bs; bs "0.0"%bs; bs "12.5"%bs; bs "9.5"%bs; bs "?"%bs; desc].
Lemma witness_infernal_text :
  snd (read_content Infernal None None None false (unlines [ex5_row (bs "5"%bs) (bs "9"%bs) (bs "-"%bs)])) = Err eKey /\
  match snd (read_content Infernal None None None false
               (unlines [ex5_row (bs "5"%bs) (bs "9"%bs) (bs "a--b"%bs); ex5_row (bs "50"%bs) (bs "90"%bs) (bs "-"%bs)])) with
  | Ok [f] => (f_start f, f_stop f) = (49%Z, 90%Z)
  | _ => False
  end.
Proof. split; vm_compute; reflexivity. Qed.
