(* C01 proofs, part 7: reader side. Any FASTA text in the reader domain (wf_text) is read into objects of the writer domain,
   hence read -> write -> read -> write reaches the fixpoint of C01_fasta_roundtrip after the first written text. *)
From Coq Require Import List ZArith NArith Bool Lia.
From Coq.Strings Require Import Byte.
Import ListNotations.
From SV Require Import Text C01_Lines G_codes G_c01_io C01_Model C01_Lemmas C01_Formats C01_IdPattern.

Lemma forallb_lstrip_ch p ch s : forallb p s = true -> forallb p (lstrip_ch ch s) = true.
Proof.
  induction s as [|c s IH]; [reflexivity|]. cbn [lstrip_ch]. destruct (byte_eqb c ch); [|tauto].
  cbn. intros H. apply andb_prop in H. apply IH. tauto.
Qed.
Lemma forallb_strip p s : forallb p s = true -> forallb p (strip s) = true.
Proof. intros H. unfold strip. apply forallb_rstrip, forallb_lstrip. exact H. Qed.

Definition shaped (P : byte -> bool) (s : bseq) : Prop :=
  exists h d, s = create_bioseq (id_from_header h, h, d) /\ forallb P h = true.
Definition st_shaped (P : byte -> bool) (st : fstate) : Prop :=
  match st with Some (i, h, d) => i = id_from_header h /\ forallb P h = true | None => True end.

Lemma iter_fasta_shape P ls : forall st r, forallb (forallb P) ls = true -> st_shaped P st ->
  iter_fasta st ls = Ok r -> Forall (shaped P) r.
Proof.
  induction ls as [|l ls IH]; intros st r Hls Hst H.
  - cbn in H. inversion H; subst. destruct st as [[[i h] d]|]; cbn; [|constructor].
    destruct Hst as [Ei Hh]. subst i. constructor; [|constructor]. exists h, d. auto.
  - cbn [forallb] in Hls. apply andb_prop in Hls. destruct Hls as [Hl Hls].
    cbn [iter_fasta] in H. destruct (head_is GT l).
    + set (h := strip (lstrip_ch GT l)) in *.
      destruct (iter_fasta (Some (id_from_header h, h, [])) ls) as [r0|e] eqn:E; [|discriminate].
      cbn [bind] in H. inversion H; subst r.
      assert (Hh : forallb P h = true) by (apply forallb_strip, forallb_lstrip_ch; exact Hl).
      apply Forall_app. split.
      * destruct st as [[[i h0] d]|]; cbn; [|constructor]. destruct Hst as [Ei Hh0]. subst i.
        constructor; [|constructor]. exists h0, d. auto.
      * apply (IH _ _ Hls) in E; [exact E|]. cbn. auto.
    + destruct (head_is SEMI l); [apply (IH _ _ Hls Hst H)|].
      destruct st as [[[i h] d]|].
      * apply (IH _ _ Hls) in H; [exact H|]. exact Hst.
      * destruct (strip l); [|discriminate]. apply (IH None _ Hls Hst H).
Qed.

(* characters of the lines of a text *)
Definition line_char (c : byte) : bool := is_print_or_tab c.
Lemma pylines_chars s : forallb (fun c => line_char c || byte_eqb c nl) s = true -> forallb (forallb line_char) (pylines s) = true.
Proof.
  induction s as [|c s IH]; [reflexivity|]. cbn [forallb pylines]. intros H. apply andb_prop in H. destruct H as [Hc Hs].
  specialize (IH Hs). destruct (byte_eqb c nl) eqn:E.
  - cbn [forallb]. exact IH.
  - rewrite orb_false_r in Hc. destruct (pylines s) as [|h t].
    + cbn. rewrite Hc. reflexivity.
    + cbn [forallb] in *. rewrite Hc. exact IH.
Qed.
Lemma univ_nl_chars s : forallb text_char_ok s = true -> forallb (fun c => line_char c || byte_eqb c nl) (univ_nl s) = true.
Proof.
  assert (G : forall n s, length s <= n -> forallb text_char_ok s = true ->
                          forallb (fun c => line_char c || byte_eqb c nl) (univ_nl s) = true).
  { induction n as [|n IH]; intros s0 Hn H.
    - destruct s0; [reflexivity|cbn in Hn; lia].
    - destruct s0 as [|c s0]; [reflexivity|]. cbn [forallb] in H. apply andb_prop in H. destruct H as [Hc Hs].
      cbn [length] in Hn. cbn [univ_nl]. destruct (byte_eqb c cr) eqn:E.
      + destruct s0 as [|d s0]; [reflexivity|]. destruct (byte_eqb d nl).
        * cbn [forallb]. rewrite byte_eqb_refl, orb_true_r. cbn [andb]. apply IH; [cbn [length] in Hn; lia|].
          cbn [forallb] in Hs. apply andb_prop in Hs. tauto.
        * cbn [forallb]. rewrite byte_eqb_refl, orb_true_r. cbn [andb]. apply IH; [lia|exact Hs].
      + cbn [forallb]. unfold text_char_ok in Hc. rewrite E, orb_false_r in Hc. unfold line_char. rewrite Hc. cbn [andb].
        apply IH; [lia|exact Hs]. }
  apply (G (length s) s). lia.
Qed.
Lemma text_lines_chars t : forallb text_char_ok t = true -> forallb (forallb line_char) (text_lines t) = true.
Proof. intros H. unfold text_lines. apply pylines_chars, univ_nl_chars. exact H. Qed.

Lemma wfb_fasta_set_fmt f s : wfb_fasta (set_fmt f s) = wfb_fasta s.
Proof. destruct s. reflexivity. Qed.

Lemma shaped_wfb f s : shaped line_char s -> rec_ok Fasta (set_fmt f s) = true -> wfb_fasta s = true.
Proof.
  intros (h & d & E & Hh) Hr. subst s. unfold rec_ok in Hr.
  cbn [create_bioseq set_header set_fmt bioseq b_id b_data b_nt b_header] in Hr.
  apply andb_prop in Hr. destruct Hr as [Hres Hi].
  destruct (id_from_header h) as [i|] eqn:Eid; [|discriminate].
  apply andb_prop in Hi. destruct Hi as [Hp Hgt].
  destruct (id_from_header_idem h i Eid) as (Hc & Hne & Hidem).
  unfold wfb_fasta, wfb_common. cbn [create_bioseq set_header bioseq b_id b_data b_nt b_header].
  unfold id_fasta_ok. rewrite Hp, Hc, Hgt, Hidem, str_eqb_refl. cbn [andb].
  rewrite Hres, upper_idem, str_eqb_refl, eqb_reflx. cbn [andb header_ok]. exact Hh.
Qed.

Theorem fasta_reader_fixpoint t : wf_text Fasta t = true ->
  exists o1 t2, read_content Fasta (CText t) = Ok o1 /\ forallb wfb_fasta o1 = true
    /\ write_w Fasta o1 = Ok t2 /\ read_content Fasta t2 = Ok (map (norm_fasta Fasta) o1)
    /\ write_w Fasta (map (norm_fasta Fasta) o1) = Ok t2.
Proof.
  unfold wf_text. intros H. apply andb_prop in H. destruct H as [H Hr]. apply andb_prop in H. destruct H as [Ht _].
  destruct (read_content Fasta (CText t)) as [o1|e] eqn:E; [|discriminate].
  apply andb_prop in Hr. destruct Hr as [_ Hr].
  assert (Hw : forallb wfb_fasta o1 = true).
  { unfold read_content in E. destruct (read_fasta_lines (text_lines t)) as [r|e] eqn:Er; [|discriminate].
    cbn [bind] in E. inversion E; subst o1. clear E.
    pose proof (iter_fasta_shape line_char _ None r (text_lines_chars t Ht) I Er) as Hs.
    rewrite forallb_forall. intros s Hin. apply in_map_iff in Hin. destruct Hin as (s0 & Es & Hin0). subst s.
    rewrite wfb_fasta_set_fmt. rewrite Forall_forall in Hs. apply (shaped_wfb Fasta s0 (Hs s0 Hin0)).
    rewrite forallb_forall in Hr. apply Hr. apply in_map. exact Hin0. }
  destruct (fasta_cycle o1 Hw) as (t2 & H1 & H2 & H3).
  exists o1, t2. auto 6.
Qed.
