(* C01 proofs, part 7: reader side. Any FASTA text in the reader domain (wf_text) is read into objects of the writer domain,
   hence read -> write -> read -> write reaches the fixpoint of C01_fasta_roundtrip after the first written text. *)
From Coq Require Import List ZArith NArith Bool Lia.
From Coq.Strings Require Import Byte.
Import ListNotations.
From SV Require Import Text C01_Lines G_codes G_c01_io C01_Model C01_Lemmas C01_Formats C01_IdPattern C01_Stockholm C01_Gff.

Lemma forallb_lstrip_ch p ch s : forallb p s = true -> forallb p (lstrip_ch ch s) = true.
Proof.
  induction s as [|c s IH]; [reflexivity|]. cbn [lstrip_ch]. destruct (byte_eqb c ch); [|tauto].
  cbn. intros H. apply andb_prop in H. apply IH. tauto.
Qed.
Lemma forallb_strip p s : forallb p s = true -> forallb p (strip s) = true.
Proof. intros H. unfold strip. apply forallb_rstrip, forallb_lstrip. exact H. Qed.

Definition shaped (P : byte -> bool) (s : bseq) : Prop :=
  exists h d, s = create_bioseq (id_from_header h, h, d) /\ forallb P h = true.
Definition st_shaped (P : byte -> bool) (st : fstate) : Prop :=
  match st with Some (i, h, d) => i = id_from_header h /\ forallb P h = true | None => True end.

Lemma iter_fasta_shape P ls : forall st r, forallb (forallb P) ls = true -> st_shaped P st ->
  iter_fasta st ls = Ok r -> Forall (shaped P) r.
Proof.
  induction ls as [|l ls IH]; intros st r Hls Hst H.
  - cbn in H. inversion H; subst. destruct st as [[[i h] d]|]; cbn; [|constructor].
    destruct Hst as [Ei Hh]. subst i. constructor; [|constructor]. exists h, d. auto.
  - cbn [forallb] in Hls. apply andb_prop in Hls. destruct Hls as [Hl Hls].
    cbn [iter_fasta] in H. destruct (head_is GT l).
    + set (h := strip (lstrip_ch GT l)) in *.
      destruct (iter_fasta (Some (id_from_header h, h, [])) ls) as [r0|e] eqn:E; [|discriminate].
      cbn [bind] in H. inversion H; subst r.
      assert (Hh : forallb P h = true) by (apply forallb_strip, forallb_lstrip_ch; exact Hl).
      apply Forall_app. split.
      * destruct st as [[[i h0] d]|]; cbn; [|constructor]. destruct Hst as [Ei Hh0]. subst i.
        constructor; [|constructor]. exists h0, d. auto.
      * apply (IH _ _ Hls) in E; [exact E|]. cbn. auto.
    + destruct (head_is SEMI l); [apply (IH _ _ Hls Hst H)|].
      destruct st as [[[i h] d]|].
      * apply (IH _ _ Hls) in H; [exact H|]. exact Hst.
      * destruct (strip l); [|discriminate]. apply (IH None _ Hls Hst H).
Qed.

(* characters of the lines of a text *)
Definition line_char (c : byte) : bool := is_print_or_tab c.
Lemma pylines_chars s : forallb (fun c => line_char c || byte_eqb c nl) s = true -> forallb (forallb line_char) (pylines s) = true.
Proof.
  induction s as [|c s IH]; [reflexivity|]. cbn [forallb pylines]. intros H. apply andb_prop in H. destruct H as [Hc Hs].
  specialize (IH Hs). destruct (byte_eqb c nl) eqn:E.
  - cbn [forallb]. exact IH.
  - rewrite orb_false_r in Hc. destruct (pylines s) as [|h t].
    + cbn. rewrite Hc. reflexivity.
    + cbn [forallb] in *. rewrite Hc. exact IH.
Qed.
Lemma univ_nl_chars s : forallb text_char_ok s = true -> forallb (fun c => line_char c || byte_eqb c nl) (univ_nl s) = true.
Proof.
  assert (G : forall n s, length s <= n -> forallb text_char_ok s = true ->
                          forallb (fun c => line_char c || byte_eqb c nl) (univ_nl s) = true).
  { induction n as [|n IH]; intros s0 Hn H.
    - destruct s0; [reflexivity|cbn in Hn; lia].
    - destruct s0 as [|c s0]; [reflexivity|]. cbn [forallb] in H. apply andb_prop in H. destruct H as [Hc Hs].
      cbn [length] in Hn. cbn [univ_nl]. destruct (byte_eqb c cr) eqn:E.
      + destruct s0 as [|d s0]; [reflexivity|]. destruct (byte_eqb d nl).
        * cbn [forallb]. rewrite byte_eqb_refl, orb_true_r. cbn [andb]. apply IH; [cbn [length] in Hn; lia|].
          cbn [forallb] in Hs. apply andb_prop in Hs. tauto.
        * cbn [forallb]. rewrite byte_eqb_refl, orb_true_r. cbn [andb]. apply IH; [lia|exact Hs].
      + cbn [forallb]. unfold text_char_ok in Hc. rewrite E, orb_false_r in Hc. unfold line_char. rewrite Hc. cbn [andb].
        apply IH; [lia|exact Hs]. }
  apply (G (length s) s). lia.
Qed.
Lemma text_lines_chars t : forallb text_char_ok t = true -> forallb (forallb line_char) (text_lines t) = true.
Proof. intros H. unfold text_lines. apply pylines_chars, univ_nl_chars. exact H. Qed.

Lemma wfb_fasta_set_fmt f s : wfb_fasta (set_fmt f s) = wfb_fasta s.
Proof. destruct s. reflexivity. Qed.

Lemma shaped_wfb f0 f s : f0 <> Stockholm -> shaped line_char s -> rec_ok f0 (set_fmt f s) = true -> wfb_fasta s = true.
Proof.
  intros Hf0 (h & d & E & Hh) Hr. subst s.
  assert (Hr' : rec_ok Fasta (set_fmt f (create_bioseq (id_from_header h, h, d))) = true) by (destruct f0; [exact Hr|contradiction|exact Hr|exact Hr]).
  clear Hr. rename Hr' into Hr. unfold rec_ok in Hr.
  cbn [create_bioseq set_header set_fmt bioseq b_id b_data b_nt b_header] in Hr.
  apply andb_prop in Hr. destruct Hr as [Hres Hi].
  destruct (id_from_header h) as [i|] eqn:Eid; [|discriminate].
  apply andb_prop in Hi. destruct Hi as [Hp Hgt].
  destruct (id_from_header_idem h i Eid) as (Hc & Hne & Hidem).
  unfold wfb_fasta, wfb_common. cbn [create_bioseq set_header bioseq b_id b_data b_nt b_header].
  unfold id_fasta_ok. rewrite Hp, Hc, Hgt, Hidem, str_eqb_refl. cbn [andb].
  rewrite Hres, upper_idem, str_eqb_refl, eqb_reflx. cbn [andb header_ok]. exact Hh.
Qed.

Theorem fasta_reader_fixpoint t : wf_text Fasta t = true ->
  exists o1 t2, read_content Fasta (CText t) = Ok o1 /\ forallb wfb_fasta o1 = true
    /\ write_w Fasta o1 = Ok t2 /\ read_content Fasta t2 = Ok (map (norm_fasta Fasta) o1)
    /\ write_w Fasta (map (norm_fasta Fasta) o1) = Ok t2.
Proof.
  unfold wf_text. intros H. apply andb_prop in H. destruct H as [H Hr]. apply andb_prop in H. destruct H as [Ht _].
  destruct (read_content Fasta (CText t)) as [o1|e] eqn:E; [|discriminate].
  apply andb_prop in Hr. destruct Hr as [_ Hr].
  assert (Hw : forallb wfb_fasta o1 = true).
  { unfold read_content in E. destruct (read_fasta_lines (text_lines t)) as [r|e] eqn:Er; [|discriminate].
    cbn [bind] in E. inversion E; subst o1. clear E.
    pose proof (iter_fasta_shape line_char _ None r (text_lines_chars t Ht) I Er) as Hs.
    rewrite forallb_forall. intros s Hin. apply in_map_iff in Hin. destruct Hin as (s0 & Es & Hin0). subst s.
    rewrite wfb_fasta_set_fmt. rewrite Forall_forall in Hs. apply (shaped_wfb Fasta Fasta s0 ltac:(discriminate) (Hs s0 Hin0)).
    rewrite forallb_forall in Hr. apply Hr. apply in_map. exact Hin0. }
  destruct (fasta_cycle o1 Hw) as (t2 & H1 & H2 & H3).
  exists o1, t2. auto 6.
Qed.

(* ---------------------------------------------------------------- GFF3 + ##FASTA, reader side *)
Lemma gff_skip_opt_chars P o ls : forall last rest, forallb (forallb P) ls = true ->
  gff_skip_opt o last ls = Ok rest -> forallb (forallb P) rest = true.
Proof.
  induction ls as [|l ls IH]; intros last rest H E.
  - cbn in E. inversion E. reflexivity.
  - cbn [forallb] in H. apply andb_prop in H. destruct H as [_ H]. cbn [gff_skip_opt] in E.
    destruct (startswith GFF_FASTA l); [inversion E; subst; exact H|].
    destruct (filt_fast_skips o l); [apply (IH _ _ H E)|].
    destruct (head_is HASH l || is_blank l); [apply (IH _ _ H E)|].
    destruct (gff_ft_ok_opt o l); [|discriminate].
    destruct (gff_filtered o l); [apply (IH _ _ H E)|].
    destruct (gff_ft_key o l) as [[k|] st]; [|apply (IH _ _ H E)].
    destruct last as [[k0 st0]|]; [|apply (IH _ _ H E)].
    destruct (ft_key_eqb k k0); [|apply (IH _ _ H E)].
    destruct (str_eqb st st0); [apply (IH _ _ H E)|discriminate].
Qed.
Lemma gff_skip_chars P ls rest : forallb (forallb P) ls = true -> gff_skip ls = Ok rest -> forallb (forallb P) rest = true.
Proof. apply gff_skip_opt_chars. Qed.

Theorem gff_reader_fixpoint t : wf_text Gff t = true ->
  exists o1 t2, read_content Gff (CText t) = Ok o1 /\ forallb wfb_fasta o1 = true
    /\ write_w Gff o1 = Ok t2 /\ read_content Gff t2 = Ok (map (norm_fasta Gff) o1)
    /\ write_w Gff (map (norm_fasta Gff) o1) = Ok t2.
Proof.
  unfold wf_text. intros H. apply andb_prop in H. destruct H as [H Hr]. apply andb_prop in H. destruct H as [Ht _].
  destruct (read_content Gff (CText t)) as [o1|e] eqn:E; [|discriminate].
  apply andb_prop in Hr. destruct Hr as [_ Hr].
  assert (Hw : forallb wfb_fasta o1 = true).
  { unfold read_content, read_gff_lines in E. destruct (gff_skip (text_lines t)) as [rest|e] eqn:Es; [|discriminate].
    cbn [bind] in E. destruct (read_fasta_lines rest) as [r|e] eqn:Er; [|discriminate].
    cbn [bind] in E. inversion E; subst o1. clear E.
    pose proof (gff_skip_chars line_char _ _ (text_lines_chars t Ht) Es) as Hc.
    pose proof (iter_fasta_shape line_char _ None r Hc I Er) as Hs.
    rewrite forallb_forall. intros s Hin. apply in_map_iff in Hin. destruct Hin as (s0 & Es0 & Hin0). subst s.
    rewrite wfb_fasta_set_fmt. rewrite Forall_forall in Hs. apply (shaped_wfb Gff Gff s0 ltac:(discriminate) (Hs s0 Hin0)).
    rewrite forallb_forall in Hr. apply Hr. apply in_map. exact Hin0. }
  destruct (gff_seq_roundtrip o1 Hw) as (t2 & H1 & H2 & H3).
  exists o1, t2. auto 6.
Qed.

(* ---------------------------------------------------------------- Stockholm, reader side *)
Lemma keys_dict_append x k v d : existsb (str_eqb x) (map fst (dict_append k v d)) = true ->
  existsb (str_eqb x) (map fst d) = true \/ str_eqb x k = true.
Proof.
  induction d as [|[k0 v0] d IH]; cbn [dict_append map fst existsb].
  - rewrite orb_false_r. auto.
  - destruct (str_eqb k0 k); cbn [map fst existsb]; [auto|].
    intros H. apply orb_true_iff in H. destruct H as [H|H]; [rewrite H; auto|].
    destruct (IH H) as [H1|H1]; [rewrite H1, orb_true_r; auto|auto].
Qed.
Lemma dict_append_distinct k v d : distinct (map fst d) = true -> distinct (map fst (dict_append k v d)) = true.
Proof.
  induction d as [|[k0 v0] d IH]; intros H; [reflexivity|].
  cbn [map fst distinct] in H. apply andb_prop in H. destruct H as [H1 H2].
  cbn [dict_append]. destruct (str_eqb k0 k) eqn:E.
  - cbn [map fst distinct]. rewrite H1. exact H2.
  - cbn [map fst distinct]. rewrite (IH H2), andb_true_r. apply negb_true_iff.
    destruct (existsb (str_eqb k0) (map fst (dict_append k v d))) eqn:Ex; [|reflexivity].
    apply keys_dict_append in Ex. destruct Ex as [Ex|Ex]; [apply negb_true_iff in H1; congruence|congruence].
Qed.
Lemma stk_line_distinct l d d' brk : distinct (map fst d) = true -> stk_line l d = Ok (d', brk) -> distinct (map fst d') = true.
Proof.
  intros H. unfold stk_line. destruct (strip l) as [|c r] eqn:El; [intros E; inversion E; subst; exact H|].
  repeat match goal with
         | |- (if ?b then _ else _) = _ -> _ => destruct b
         | |- Ok _ = Ok _ -> _ => intros E; inversion E; subst; try exact H
         | |- Err _ = Ok _ -> _ => discriminate
         end.
  destruct (split1 (c :: r)) as [k v]. intros E. inversion E; subst. apply dict_append_distinct. exact H.
Qed.
Lemma stk_loop_distinct ls : forall d d', distinct (map fst d) = true -> stk_loop ls d = Ok d' -> distinct (map fst d') = true.
Proof.
  induction ls as [|l ls IH]; intros d d' H E.
  - cbn in E. inversion E; subst. exact H.
  - cbn [stk_loop] in E. destruct (stk_line l d) as [[d1 brk]|e] eqn:El; [|discriminate]. cbn [bind] in E.
    pose proof (stk_line_distinct _ _ _ _ H El) as H1.
    destruct brk; [inversion E; subst; exact H1|]. apply (IH _ _ H1 E).
Qed.

Lemma wfb_stk_set_fmt f s : wfb_stk (set_fmt f s) = wfb_stk s.
Proof. destruct s. reflexivity. Qed.

Theorem stockholm_reader_fixpoint t : wf_text Stockholm t = true ->
  exists o1 t2, read_content Stockholm (CText t) = Ok o1 /\ wf_stk_basket o1 = true
    /\ write_w Stockholm o1 = Ok t2 /\ read_content Stockholm t2 = Ok (map (norm_plain Stockholm) o1)
    /\ write_w Stockholm (map (norm_plain Stockholm) o1) = Ok t2.
Proof.
  unfold wf_text. intros H. apply andb_prop in H. destruct H as [H Hr]. clear H.
  destruct (read_content Stockholm (CText t)) as [o1|e] eqn:E; [|discriminate].
  apply andb_prop in Hr. destruct Hr as [_ Hr].
  assert (Hw : wf_stk_basket o1 = true).
  { unfold read_content, read_stockholm_lines in E. destruct (stk_loop (text_lines t) []) as [d|e] eqn:Ed; [|discriminate].
    cbn [bind] in E. inversion E; subst o1. clear E.
    pose proof (stk_loop_distinct _ [] _ eq_refl Ed) as Hd.
    unfold wf_stk_basket. apply andb_true_intro. split.
    - rewrite forallb_forall. intros s Hin. rewrite forallb_forall in Hr. specialize (Hr s Hin).
      apply in_map_iff in Hin. destruct Hin as (s0 & Es & Hin0). apply in_map_iff in Hin0. destruct Hin0 as ([k v] & Ekv & _).
      subst s s0. unfold rec_ok in Hr. cbn [set_fmt bioseq b_data b_id fst snd] in Hr.
      apply andb_prop in Hr. destruct Hr as [Hres Hi]. apply andb_prop in Hi. destruct Hi as [Hi Hne].
      unfold wfb_stk, wfb_common. cbn [set_fmt bioseq b_data b_id b_nt fst snd].
      rewrite Hi, Hres, upper_idem, str_eqb_refl, eqb_reflx. cbn [andb]. exact Hne.
    - unfold ids_of. rewrite !map_map. cbn [set_fmt bioseq id_or_empty b_id fst]. exact Hd. }
  destruct (stockholm_roundtrip o1 Hw) as (t2 & H1 & H2 & H3).
  exists o1, t2. auto 6.
Qed.
