(* C09 proofs, part 9: index_get_spec for files with AND without final newline (any number of files). *)
From Coq Require Import List Arith Lia ZArith NArith Bool.
From Coq.Strings Require Import Byte.
Import ListNotations.
From SV Require Import Text C09_Model C09_Lemmas C09_Extract C09_Record C09_Unterm C09_Box C09_Scan C09_Parse C09_Get.

(* ------------------------------------------------------------------ facts about ids and headers *)
Lemma wf_id_facts mode nllen r : wf_rec mode nllen r = true ->
  rid r <> [] /\ forallb (fun c => negb (is_ws_str c)) (rid r) = true /\ (exists c i, rid r = c :: i /\ byte_eqb c GT = false).
Proof.
  intros Hwf. destruct (wf_rec_id_desc _ _ _ Hwf) as [Hi _]. unfold wf_id in Hi. apply andb_prop in Hi. destruct Hi as [Hne Hic].
  destruct (rid r) as [|c i] eqn:E; [discriminate|]. split; [discriminate|]. split.
  - rewrite forallb_forall in *. intros x Hx. destruct (id_char_chs x (Hic x Hx)) as [_ [-> _]]. reflexivity.
  - exists c, i. split; [reflexivity|]. rewrite forallb_forall in Hic. apply (id_char_chs c). apply Hic. left. reflexivity.
Qed.

Lemma nl_allws crlf : forallb is_ws_str (nl_of crlf) = true.
Proof. destruct crlf; reflexivity. Qed.

(* the stripped header does not depend on the line terminator being there *)
Lemma hdr_nonl mode crlf r : wf_rec mode (length (nl_of crlf)) r = true -> strip_ws (rid r ++ rdesc r) = hdr crlf r.
Proof.
  intros Hwf. destruct (wf_id_facts _ _ _ Hwf) as [Hne [Hnw _]]. unfold hdr.
  rewrite (strip_pre (rid r) (rdesc r) Hne Hnw), (strip_pre (rid r) (rdesc r ++ nl_of crlf) Hne Hnw).
  rewrite rev_app_distr, lstrip_ws_app, (lstrip_ws_allws (rev (nl_of crlf))) by (apply forallb_rev, nl_allws). reflexivity.
Qed.

Lemma id_hdr mode crlf r : wf_rec mode (length (nl_of crlf)) r = true -> id_from_header (hdr crlf r) = Some (rid r).
Proof.
  intros Hwf. pose proof (parse_extracted mode crlf r [] Hwf eq_refl eq_refl) as P. unfold parse_get in P.
  destruct (fasta_first _ None) as [[h d]|k]; [|discriminate]. inversion P as [[E1 E2 E3]]. unfold hdr. rewrite <- E2. reflexivity.
Qed.

(* a bare header without newline parses to the record with no residues *)
Lemma parse_bare mode crlf r : wf_rec mode (length (nl_of crlf)) r = true ->
  parse_get (GT :: rid r ++ rdesc r) = Ok (Some (rid r), hdr crlf r, []).
Proof.
  intros Hwf. destruct (wf_rec_facts _ _ _ Hwf) as [_ [H1 _]]. destruct (wf_id_facts _ _ _ Hwf) as [_ [_ [c [i [Ei Hc]]]]].
  unfold parse_get, lines_keep.
  rewrite (lines_keep_last (GT :: rid r ++ rdesc r) []) by (cbn [forallb]; rewrite (nonnl_notLF _ H1); reflexivity).
  cbn [rev app fasta_first starts_with]. rewrite byte_eqb_refl. cbn [lstrip_gt]. rewrite byte_eqb_refl.
  rewrite Ei. cbn [app lstrip_gt]. rewrite Hc. rewrite <- Ei.
  change (c :: i ++ rdesc r) with ((c :: i) ++ rdesc r). rewrite <- Ei.
  rewrite (hdr_nonl mode crlf r Hwf), (id_hdr mode crlf r Hwf). reflexivity.
Qed.

(* ------------------------------------------------------------------ what a record of a file has to answer *)
Definition rec_ok (f : str) (ll st : nat) (crlf : bool) (r : arec) (hline txt : str) : Prop :=
  extract f ll st QHeader = Ok hline
  /\ (extract f ll st QFull = Ok txt /\ parse_get txt = Ok (Some (rid r), hdr crlf r, upper (rseq r)))
  /\ forall oi oj : option nat,
       (match oi, oj with Some i, Some j => i <= j | _, _ => True end) ->
       exists t, extract f ll st (QRange (option_map Z.of_nat oi) (option_map Z.of_nat oj)) = Ok t
                 /\ parse_get t = Ok (Some (rid r), hdr crlf r, upper (sl (rseq r) oi oj)).

Lemma rec_ok_terminated mode crlf r pre post : wf_rec mode (length (nl_of crlf)) r = true ->
  (post = [] \/ exists p, post = GT :: p) ->
  rec_ok (pre ++ render_rec (nl_of crlf) r ++ post) (linelen_of crlf r) (length pre) crlf r
         (header_line (nl_of crlf) r) (render_rec (nl_of crlf) r).
Proof.
  intros Hwf Hpost. destruct (wf_rec_facts _ _ _ Hwf) as [Hw [H1 [H2 [H3 H4]]]].
  destruct (get_record mode crlf r pre post Hwf Hpost) as [[t [E P]] HR].
  pose proof (extract_full_rendered crlf r H2 H4 pre post Hpost (linelen_of crlf r)) as EF. unfold the_file in EF.
  split; [|split].
  - apply (extract_header_rendered crlf r H1 pre post).
  - split; [exact EF|]. rewrite EF in E. inversion E; subst t. exact P.
  - exact HR.
Qed.

Lemma rec_ok_unterminated mode crlf r pre : wf_rec mode (length (nl_of crlf)) r = true -> rseq r <> [] ->
  let U := firstn (length (render_rec (nl_of crlf) r) - length (nl_of crlf)) (render_rec (nl_of crlf) r) in
  rec_ok (pre ++ U) (linelen_of crlf r) (length pre) crlf r (header_line (nl_of crlf) r) U.
Proof.
  intros Hwf Hne. cbv zeta. destruct (get_record_unterminated mode crlf r pre Hwf Hne) as [EH [[t [E [Et P]]] HR]].
  split; [exact EH|split; [|exact HR]]. subst t. split; assumption.
Qed.

Lemma sl_nil oi oj : sl [] oi oj = [].
Proof. unfold sl. destruct oj; rewrite ?skipn_nil, ?firstn_nil; reflexivity. Qed.

Lemma rec_ok_degenerate mode crlf r pre : wf_rec mode (length (nl_of crlf)) r = true -> rseq r = [] ->
  rec_ok (pre ++ GT :: rid r ++ rdesc r) (linelen_of crlf r) (length pre) crlf r (GT :: rid r ++ rdesc r) (GT :: rid r ++ rdesc r).
Proof.
  intros Hwf Es. destruct (wf_rec_facts _ _ _ Hwf) as [_ [H1 [H2 _]]].
  assert (LL: linelen_of crlf r = 0) by (unfold linelen_of; rewrite Es; reflexivity). rewrite LL.
  pose proof (parse_bare mode crlf r Hwf) as PB.
  split; [|split].
  - apply (extract_degenerate pre (rid r ++ rdesc r) H1 H2 QHeader); exact I.
  - split; [apply (extract_degenerate pre (rid r ++ rdesc r) H1 H2 QFull); exact I|]. rewrite Es. exact PB.
  - intros oi oj _. exists (GT :: rid r ++ rdesc r). split.
    + apply (extract_degenerate pre (rid r ++ rdesc r) H1 H2); [destruct oi|destruct oj]; cbn [option_map]; try exact I; lia.
    + rewrite Es, sl_nil. exact PB.
Qed.

(* ------------------------------------------------------------------ files with either value of the trailing-newline flag *)
Definition gfile := (bool * bool * list arec)%type.                       (* CRLF?, final newline?, records *)
Definition g_crlf (f : gfile) := fst (fst f).
Definition g_final (f : gfile) := snd (fst f).
Definition g_recs (f : gfile) := snd f.
Definition gfile_bytes (f : gfile) : str := render_file (g_crlf f) (g_final f) (g_recs f).
Definition g_strip (f : gfile) : afile := (g_crlf f, g_recs f).
Definition wf_gfile (mode : N) (f : gfile) : Prop := wf_afile mode (g_strip f).

Lemma scan_gfile mode f k : wf_gfile mode f ->
  scan_file (gfile_bytes f) k = Ok (expected_from (nl_of (g_crlf f)) k 0 (g_recs f)).
Proof.
  intros [Hne Hwf]. unfold gfile_bytes. cbn [g_strip fst snd] in *. destruct (g_final f).
  - apply (scan_index mode); assumption.
  - destruct (exists_last Hne) as [init [r E]]. rewrite E in *. apply (scan_index_unterminated mode). exact Hwf.
Qed.

Lemma scan_gfiles mode (fs : list gfile) : Forall (wf_gfile mode) fs ->
  forall k, scan_files (map gfile_bytes fs) k = Ok (entries_from k (map g_strip fs)).
Proof.
  induction 1 as [|f fs Hf _ IH]; intros k; [reflexivity|].
  cbn [map scan_files entries_from]. rewrite (scan_gfile mode f k Hf), IH. reflexivity.
Qed.

Definition is_nil {A} (l : list A) : bool := match l with [] => true | _ => false end.
(* the text of a record as it stands in the file, and its first line *)
Definition rtext (crlf final : bool) (rs2 : list arec) (r : arec) : str :=
  let rr := render_rec (nl_of crlf) r in
  if final || negb (is_nil rs2) then rr else firstn (length rr - length (nl_of crlf)) rr.
Definition rhline (crlf final : bool) (rs2 : list arec) (r : arec) : str :=
  if final || negb (is_nil rs2) || negb (is_nil (rseq r)) then header_line (nl_of crlf) r else GT :: rid r ++ rdesc r.

Lemma unterm_degenerate crlf r : rseq r = [] ->
  firstn (length (render_rec (nl_of crlf) r) - length (nl_of crlf)) (render_rec (nl_of crlf) r) = GT :: rid r ++ rdesc r.
Proof.
  intros Es. unfold render_rec, body, header_line. rewrite Es. cbn [wrap_from length app].
  assert (M: 0 mod rw r =? 0 = true) by (destruct (rw r); [reflexivity|]; rewrite Nat.mod_0_l by lia; reflexivity).
  rewrite M.
  - rewrite !app_nil_r.
    assert (X: GT :: rid r ++ rdesc r ++ nl_of crlf = (GT :: rid r ++ rdesc r) ++ nl_of crlf) by (cbn [app]; rewrite <- app_assoc; reflexivity).
    rewrite X.
    replace (S (length (rid r ++ rdesc r ++ nl_of crlf)) - length (nl_of crlf)) with (length (GT :: rid r ++ rdesc r))
      by (cbn [length]; rewrite !app_length; lia).
    rewrite firstn_app, Nat.sub_diag, firstn_O, app_nil_r, firstn_all. reflexivity.
Qed.

(* a record followed by more records of a file without final newline: the rest begins with '>' *)
Lemma gfile_split crlf final rs1 r rs2 :
  exists post, render_file crlf final (rs1 ++ r :: rs2)
               = render_recs (nl_of crlf) rs1 ++ (if final || negb (is_nil rs2) then render_rec (nl_of crlf) r ++ post
                                                  else firstn (length (render_rec (nl_of crlf) r) - length (nl_of crlf)) (render_rec (nl_of crlf) r))
               /\ (post = [] \/ exists p, post = GT :: p).
Proof.
  destruct final.
  - exists (render_recs (nl_of crlf) rs2). cbn [orb]. unfold render_file. rewrite render_recs_app, render_recs_cons. split; [reflexivity|].
    destruct rs2; [left; reflexivity|right; apply render_recs_head; discriminate].
  - cbn [orb]. destruct rs2 as [|r2 rs2'].
    + exists []. cbn [is_nil negb]. split; [|left; reflexivity]. apply render_file_unterminated.
    + destruct (@exists_last _ (r2 :: rs2') ltac:(discriminate)) as [init [rl E]]. rewrite E.
      exists (render_recs (nl_of crlf) init ++ firstn (length (render_rec (nl_of crlf) rl) - length (nl_of crlf)) (render_rec (nl_of crlf) rl)).
      assert (NN: negb (is_nil (init ++ [rl])) = true) by (destruct init; reflexivity). rewrite NN. split.
      * replace (rs1 ++ r :: init ++ [rl]) with ((rs1 ++ r :: init) ++ [rl]) by (rewrite <- app_assoc; reflexivity).
        rewrite render_file_unterminated, render_recs_app, render_recs_cons, <- !app_assoc. reflexivity.
      * right. destruct init as [|r3 init'].
        -- cbn [render_recs map concat app]. unfold render_rec, header_line. cbn [app].
           destruct (length (GT :: (rid rl ++ rdesc rl ++ nl_of crlf) ++ body (nl_of crlf) rl) - length (nl_of crlf)) eqn:EL.
           ++ exfalso. cbn [length] in EL. rewrite !app_length in EL. pose proof (nl_of_len crlf). lia.
           ++ cbn [firstn]. eauto.
        -- destruct (render_recs_head (nl_of crlf) (r3 :: init') ltac:(discriminate)) as [p ->]. cbn [app]. eauto.
Qed.

Theorem index_get_spec_all mode (fs : list gfile) :
  (mode = MODE_BINARY \/ (mode = MODE_DB /\ (N.of_nat (length fs) < 65536)%N)) ->
  Forall (wf_gfile mode) fs -> NoDup (all_ids (map g_strip fs)) ->
  let reg := map gfile_bytes fs in
  let es := entries_from 0 (map g_strip fs) in
  scan_files reg 0 = Ok es
  /\ distinct_ids es [] = length (all_ids (map g_strip fs))
  /\ forall k crlf final rs1 r rs2, nth_error fs k = Some (crlf, final, rs1 ++ r :: rs2) ->
     (forall rng, answer mode reg es (Query 2 (rid r) rng) = VS (rhline crlf final rs2 r))
     /\ answer mode reg es (Query 1 (rid r) None) = VS (rtext crlf final rs2 r)
     /\ answer mode reg es (Query 0 (rid r) None) = VL [VS (rid r); VS (hdr crlf r); VS (upper (rseq r))]
     /\ forall oi oj : option nat,
          (match oi, oj with Some i, Some j => i <= j | None, None => False | _, _ => True end) ->
          answer mode reg es (Query 0 (rid r) (Some (option_map Z.of_nat oi, option_map Z.of_nat oj)))
          = VL [VS (rid r); VS (hdr crlf r); VS (upper (sl (rseq r) oi oj))].
Proof.
  intros Hmode Hwf Hnd. cbv zeta.
  pose proof (entries_ids 0 (map g_strip fs)) as EI.
  split; [apply (scan_gfiles mode fs Hwf)|]. split.
  { rewrite distinct_len; [rewrite <- EI, map_length; reflexivity|rewrite EI; exact Hnd|intros e _ []]. }
  intros k crlf final rs1 r rs2 Hk.
  set (nl := nl_of crlf). set (pre := render_recs nl rs1).
  set (e := Entry (rid r) k (linelen_of crlf r) (length pre)).
  rewrite Forall_forall in Hwf. pose proof (Hwf _ (nth_error_In _ _ Hk)) as [_ Hrs]. cbn [g_strip g_crlf g_recs fst snd] in Hrs.
  rewrite Forall_forall in Hrs. assert (Hr: wf_rec mode (length nl) r = true) by (apply Hrs, in_or_app; right; left; reflexivity).
  (* the record in its file *)
  assert (Hrec: rec_ok (nth k (map gfile_bytes fs) []) (linelen_of crlf r) (length pre) crlf r (rhline crlf final rs2 r) (rtext crlf final rs2 r)).
  { rewrite (nth_error_nth _ _ _ (map_nth_error gfile_bytes _ _ Hk)). unfold gfile_bytes. cbn [g_crlf g_final g_recs fst snd].
    destruct (gfile_split crlf final rs1 r rs2) as [post [EF Hpost]]. rewrite EF.
    unfold rhline, rtext. destruct (final || negb (is_nil rs2)) eqn:Eb.
    - cbn [orb]. apply (rec_ok_terminated mode crlf r pre post Hr Hpost).
    - cbn [orb]. destruct (rseq r) as [|c0 s0] eqn:Es.
      + cbn [is_nil negb]. rewrite (unterm_degenerate crlf r Es). apply (rec_ok_degenerate mode crlf r pre Hr Es).
      + cbn [is_nil negb]. apply (rec_ok_unterminated mode crlf r pre Hr). rewrite Es. discriminate. }
  (* the entry *)
  assert (Hk': nth_error (map g_strip fs) k = Some (crlf, rs1 ++ r :: rs2)) by (rewrite (map_nth_error g_strip _ _ Hk); reflexivity).
  assert (Hin: In e (entries_from 0 (map g_strip fs))).
  { apply (entries_in _ 0 k _ Hk'). cbn [fst snd Nat.add]. fold nl. rewrite expected_app. apply in_or_app. right.
    cbn [expected_from]. left. unfold e, linelen_of, pre. rewrite Nat.add_0_l. reflexivity. }
  assert (Hlook: lookup (rid r) (entries_from 0 (map g_strip fs)) None = Some e).
  { apply (lookup_unique _ ltac:(rewrite EI; exact Hnd) e None Hin). }
  assert (Hst: stored mode e = Ok (k, linelen_of crlf r, length pre)).
  { apply (stored_ok mode e). destruct Hmode as [-> | [-> Hlen]]; [left; reflexivity|right]. split; [reflexivity|].
    cbn [e_fn e_linelen e]. split.
    - assert (k < length fs) by (apply nth_error_Some; rewrite Hk; discriminate). lia.
    - apply wf_rec_db_ll. exact Hr. }
  assert (Hans: forall q, q_id q = rid r ->
            answer mode (map gfile_bytes fs) (entries_from 0 (map g_strip fs)) q
            = match extract (nth k (map gfile_bytes fs) []) (linelen_of crlf r) (length pre) (qkind_of q) with
              | Err kd => VE kd
              | Ok txt => if N.eqb (q_api q) 0
                          then match parse_get txt with Ok (id, h, d) => VL [VStrO id; VS h; VS d] | Err kd => VE kd end
                          else VS txt
              end).
  { intros q Hq. unfold answer. rewrite Hq, Hlook, Hst. reflexivity. }
  destruct Hrec as [EH [[EF PF] HR]].
  split; [|split; [|split]].
  - intros rng. rewrite Hans by reflexivity. cbn [qkind_of q_api N.eqb Pos.eqb]. rewrite EH. reflexivity.
  - rewrite Hans by reflexivity. cbn [qkind_of q_api q_rng N.eqb Pos.eqb]. rewrite EF. reflexivity.
  - rewrite Hans by reflexivity. cbn [qkind_of q_api q_rng N.eqb]. rewrite EF, PF. reflexivity.
  - intros oi oj Hij. rewrite Hans by reflexivity. cbn [q_api N.eqb].
    assert (Hq: qkind_of (Query 0 (rid r) (Some (option_map Z.of_nat oi, option_map Z.of_nat oj)))
                = QRange (option_map Z.of_nat oi) (option_map Z.of_nat oj)).
    { unfold qkind_of. cbn [q_api q_rng N.eqb]. destruct oi, oj; try reflexivity. destruct Hij. }
    rewrite Hq.
    destruct (HR oi oj ltac:(destruct oi, oj; auto)) as [txt [E P]]. rewrite E, P. reflexivity.
Qed.
