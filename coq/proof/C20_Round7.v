(* C20 round 7: skipped lines, histories of calls, directories with links, matrices of numbers in any layout *)
From Coq Require Import List ZArith NArith Bool Lia.
From Coq.Strings Require Import Byte.
Import ListNotations.
From SV Require Import Text G_submat_index C20_Model C20_Finite C20_Render C20_Num C20_Lemmas.

(* ================= comment / blank lines are irrelevant wherever they stand ================= *)
Lemma skipped_lines_irrelevant ls1 ls2 st mat :
  filter (fun l => negb (skipped l)) ls1 = filter (fun l => negb (skipped l)) ls2 ->
  parse_lines ls1 st mat = parse_lines ls2 st mat.
Proof. intros H. rewrite (parse_lines_filter ls1), (parse_lines_filter ls2), H. reflexivity. Qed.
Lemma insert_skipped_line a b l st mat : skipped l = true ->
  parse_lines (a ++ l :: b) st mat = parse_lines (a ++ b) st mat.
Proof.
  intros H. apply skipped_lines_irrelevant. rewrite !filter_app. cbn [filter]. rewrite H. reflexivity.
Qed.

(* ================= histories: every call hands out a new object holding the pure result ================= *)
Lemma upd_nth_length {A} i (f : A -> A) l : length (upd_nth i f l) = length l.
Proof. revert i; induction l as [|x l IH]; intros [|i]; cbn; try reflexivity. rewrite IH. reflexivity. Qed.
Lemma upd_nth_other {A} i j (f : A -> A) l : i <> j -> nth_error (upd_nth i f l) j = nth_error l j.
Proof.
  revert i j; induction l as [|x l IH]; intros [|i] [|j] H; cbn; try reflexivity; [congruence|].
  apply IH. congruence.
Qed.
Lemma upd_nth_same {A} i (f : A -> A) l x : nth_error l i = Some x -> nth_error (upd_nth i f l) i = Some (f x).
Proof.
  revert i; induction l as [|y l IH]; intros [|i] H; cbn in *; try discriminate.
  - congruence.
  - apply IH. exact H.
Qed.
Lemma hrun_obs steps : forall heap, fst (hrun steps heap) = obs_spec steps (length heap).
Proof.
  induction steps as [|s steps IH]; intros heap; [reflexivity|].
  destruct s as [name file|i e|]; cbn [hrun obs_spec].
  - specialize (IH (heap ++ [submat_call name file])). destruct (hrun steps (heap ++ [submat_call name file])) as [obs h].
    cbn [fst] in *. rewrite IH, app_length. cbn [length]. replace (length heap + 1)%nat with (S (length heap)) by lia. reflexivity.
  - specialize (IH (upd_nth i (edit_outcome e) heap)). destruct (hrun steps (upd_nth i (edit_outcome e) heap)) as [obs h].
    cbn [fst] in *. rewrite IH, upd_nth_length. reflexivity.
  - specialize (IH heap). destruct (hrun steps heap) as [obs h]. cbn [fst] in *. rewrite IH. reflexivity.
Qed.
(* the objects of a history without edits are the pure results, in call order *)
Fixpoint calls_of (steps : list hstep) : list outcome :=
  match steps with
  | [] => []
  | HCall name file :: r => submat_call name file :: calls_of r
  | _ :: r => calls_of r
  end.
(* the final content of object j: its pure result with exactly the edits addressed to j applied in order *)
Fixpoint edits_for (j : nat) (steps : list hstep) (n : nat) (o : outcome) : outcome :=
  match steps with
  | [] => o
  | HCall _ _ :: r => edits_for j r (S n) o
  | HEdit i e :: r => edits_for j r n (if Nat.eqb i j && Nat.ltb j n then edit_outcome e o else o)
  | HSkip :: r => edits_for j r n o
  end.
Lemma hrun_old_object steps : forall heap j o, nth_error heap j = Some o ->
  nth_error (snd (hrun steps heap)) j = Some (edits_for j steps (length heap) o).
Proof.
  induction steps as [|s steps IH]; intros heap j o H; [exact H|].
  assert (Hj : (j < length heap)%nat) by (apply nth_error_Some; congruence).
  destruct s as [name file|i e|]; cbn [hrun edits_for].
  - specialize (IH (heap ++ [submat_call name file]) j o). destruct (hrun steps (heap ++ [submat_call name file])) as [obs h].
    cbn [snd] in *. rewrite IH by (rewrite nth_error_app1; assumption).
    rewrite app_length. cbn [length]. replace (length heap + 1)%nat with (S (length heap)) by lia. reflexivity.
  - destruct (Nat.eqb_spec i j) as [->|Hij].
    + specialize (IH (upd_nth j (edit_outcome e) heap) j (edit_outcome e o)).
      destruct (hrun steps (upd_nth j (edit_outcome e) heap)) as [obs h]. cbn [snd] in *.
      rewrite IH by (apply upd_nth_same; exact H). rewrite upd_nth_length.
      assert (E : Nat.ltb j (length heap) = true) by (apply Nat.ltb_lt; exact Hj). rewrite E. reflexivity.
    + specialize (IH (upd_nth i (edit_outcome e) heap) j o).
      destruct (hrun steps (upd_nth i (edit_outcome e) heap)) as [obs h]. cbn [snd] in *.
      rewrite IH by (rewrite upd_nth_other; assumption). rewrite upd_nth_length. reflexivity.
  - specialize (IH heap j o H). destruct (hrun steps heap) as [obs h]. cbn [snd] in *. exact IH.
Qed.
(* the cached variant hands out an edited object again: the property fails for it *)
Definition cached_witness : list hstep := [HCall (bs "nuc"%bs) None; HEdit 0 EClear; HCall (bs "nuc"%bs) None].
Lemma cached_refuted : fst (hrun_cached cached_witness [] []) <> obs_spec cached_witness 0.
Proof. vm_compute. discriminate. Qed.
Lemma uncached_witness_ok : fst (hrun cached_witness []) = obs_spec cached_witness 0 /\
  exists m, nth_error (obs_spec cached_witness 0) 2 = Some (Some (1%nat, OMatrix m)) /\ (4 <= length m)%nat.
Proof. split; [apply hrun_obs|]. eexists. split; [vm_compute; reflexivity|]. cbn [length]. lia. Qed.

(* ================= a directory of files, directories and symbolic links ================= *)
Lemma fs_resolution d name :
  (forall c, fs_file max_links d name = Some c -> submat_fs d name = submat_file c) /\
  (fs_file max_links d name = None -> submat_fs d name = submat_name name).
Proof.
  unfold submat_fs. split.
  - intros c H. rewrite H. apply (proj2 (file_wins name c)).
  - intros H. rewrite H. reflexivity.
Qed.
Lemma fs_regular n d name c : dict_get name d = Some (FReg c) -> fs_file (S n) d name = Some c.
Proof. intros H. cbn [fs_file]. rewrite H. reflexivity. Qed.
Lemma fs_directory n d name : dict_get name d = Some FDir -> fs_file n d name = None.
Proof. intros H. destruct n; [reflexivity|]. cbn [fs_file]. rewrite H. reflexivity. Qed.
Lemma fs_missing n d name : dict_get name d = None -> fs_file n d name = None.
Proof. intros H. destruct n; [reflexivity|]. cbn [fs_file]. rewrite H. reflexivity. Qed.
Lemma fs_link n d name t : dict_get name d = Some (FLink t) -> fs_file (S n) d name = fs_file n d t.
Proof. intros H. cbn [fs_file]. rewrite H. reflexivity. Qed.
Lemma fs_dangling n d name t : dict_get name d = Some (FLink t) -> dict_get t d = None -> fs_file n d name = None.
Proof. intros H1 H2. destruct n; [reflexivity|]. rewrite (fs_link n d name t H1). apply fs_missing. exact H2. Qed.
Lemma fs_self_loop n d name : dict_get name d = Some (FLink name) -> fs_file n d name = None.
Proof. intros H. induction n as [|n IH]; [reflexivity|]. rewrite (fs_link n d name name H). exact IH. Qed.
Lemma fs_two_loop n d a b : dict_get a d = Some (FLink b) -> dict_get b d = Some (FLink a) ->
  fs_file n d a = None /\ fs_file n d b = None.
Proof.
  intros Ha Hb. induction n as [|n [IH1 IH2]]; [split; reflexivity|].
  rewrite (fs_link n d a b Ha), (fs_link n d b a Hb). split; assumption.
Qed.

(* ================= numbers: what each reader makes of a canonical literal ================= *)
Lemma span_digits_all ds : forallb is_digit ds = true -> span_digits ds = (ds, []).
Proof.
  induction ds as [|c ds IH]; intros H; [reflexivity|].
  cbn [forallb] in H. apply andb_prop in H. destruct H as [H1 H2].
  cbn [span_digits]. rewrite H1, (IH H2). reflexivity.
Qed.
Lemma udec_digits ds z : forallb is_digit ds = true -> ds <> [] -> digits_acc ds 0%Z = Some z -> udec ds = Some (z, 0%nat).
Proof.
  intros Hd Hne E. unfold udec. rewrite (span_digits_all ds Hd). unfold nat_of_dec.
  destruct ds; [congruence|]. rewrite E. reflexivity.
Qed.
(* float("17") = 17.0: an integer literal inside a row that has a decimal point somewhere *)
Lemma dec_of_token_int z : dec_of_token (dec_of_Z z) = Some (z, 0%nat).
Proof.
  destruct (Z.leb_spec 0 z) as [H|H].
  - destruct (digits_nonneg z H) as (Hd & Hne & E).
    pose proof (udec_digits _ _ Hd Hne E) as U.
    destruct (dec_of_Z z) as [|c r] eqn:Ez; [congruence|].
    cbn [forallb] in Hd. apply andb_prop in Hd. destruct Hd as [Hc _].
    destruct c; cbn in Hc; try discriminate; exact U.
  - destruct z as [|p|p]; try lia.
    assert (Hp : (0 <= Zpos p)%Z) by lia. destruct (digits_nonneg (Zpos p) Hp) as (Hd & Hne & E).
    unfold dec_of_Z in *. cbn [Z.to_int] in *. cbn [dec_of_token].
    rewrite (udec_digits _ _ Hd Hne E). reflexivity.
Qed.
Lemma parse_num_float_render v : parse_num true (render_num v) = Some (as_dec v).
Proof.
  destruct v as [z|m k]; cbn [parse_num render_num as_dec]; unfold py_float.
  - rewrite dec_of_token_int. reflexivity.
  - rewrite dec_of_token_render. reflexivity.
Qed.
Lemma parse_num_int_render z : parse_num false (render_num (NInt z)) = Some (NInt z).
Proof. cbn [parse_num render_num]. unfold py_int. rewrite Z_of_dec_of_Z. reflexivity. Qed.

Lemma row_has_dot vals : existsb has_dot (map render_num vals) = negb (forallb is_int_num vals).
Proof.
  induction vals as [|v vals IH]; [reflexivity|].
  cbn [map existsb forallb]. rewrite IH. destruct v as [z|m k]; cbn [render_num is_int_num].
  - rewrite dec_of_Z_no_dot. reflexivity.
  - rewrite render_dec_has_dot. reflexivity.
Qed.
Lemma parse_vals_float vals : parse_vals true (map render_num vals) = Some (map as_dec vals).
Proof.
  induction vals as [|v vals IH]; [reflexivity|].
  cbn [map parse_vals]. rewrite parse_num_float_render, IH. reflexivity.
Qed.
Lemma parse_vals_int vals : forallb is_int_num vals = true -> parse_vals false (map render_num vals) = Some vals.
Proof.
  induction vals as [|v vals IH]; intros H; [reflexivity|].
  cbn [forallb] in H. apply andb_prop in H. destruct H as [H1 H2].
  destruct v as [z|m k]; [|discriminate].
  cbn [map parse_vals]. rewrite parse_num_int_render, (IH H2). reflexivity.
Qed.
Lemma forallb_firstn' {A} (P : A -> bool) n l : forallb P l = true -> forallb P (firstn n l) = true.
Proof. apply forallb_firstn. Qed.
(* the converter is chosen from the WHOLE rest of the line, then only the first n words are converted *)
Lemma parse_vals_row n vals :
  parse_vals (existsb has_dot (map render_num vals)) (firstn n (map render_num vals)) = Some (firstn n (row_vals vals)).
Proof.
  rewrite row_has_dot. unfold row_vals. rewrite firstn_map.
  destruct (forallb is_int_num vals) eqn:E; cbn [negb].
  - apply parse_vals_int. apply forallb_firstn. exact E.
  - rewrite parse_vals_float, firstn_map. reflexivity.
Qed.
Lemma combine_firstn_l {A B} (a : list A) (b : list B) : combine a (firstn (length a) b) = combine a b.
Proof.
  revert b; induction a as [|x a IH]; intros [|y b]; cbn; try reflexivity. rewrite IH. reflexivity.
Qed.

(* ================= l1, rest = line.split(maxsplit=1) on a line with at least two words ================= *)
Lemma split1_some line a b r : split_ws line = a :: b :: r ->
  exists rest, split1 line = Some (a, rest) /\ split_ws rest = b :: r.
Proof.
  intros H. unfold split1. rewrite <- (split_ws_lstrip line) in H.
  destruct (lstrip line) as [|c s] eqn:E; [discriminate|].
  pose proof (lstrip_head _ _ _ E) as Hc.
  rewrite (split_ws_word s c Hc) in H.
  cbn [span_word]. rewrite Hc. destruct (span_word s) as [w t]. cbn [fst snd] in H.
  injection H as Ha Ht. rewrite <- (split_ws_lstrip t) in Ht.
  destruct (lstrip t) as [|c2 r2] eqn:E2; [discriminate|].
  exists (c2 :: r2). split; [rewrite Ha; reflexivity|]. exact Ht.
Qed.

(* ================= one rendered row ================= *)
Definition row_entry (hs : list str) (vals : list num) : row := dict_of_pairs (combine hs (row_vals vals)).
Lemma row_of_rendered hs lead r cells trail :
  mline_ok (MRow lead r cells trail) = true ->
  row_of hs (render_aline (mline_aline (MRow lead r cells trail))) = Some (r, row_entry hs (map snd cells)).
Proof.
  unfold mline_ok. intros H. apply andb_prop in H. destruct H as [Hok Hne].
  destruct cells as [|[s0 v0] cells]; [discriminate|].
  cbn [mline_aline] in *.
  pose proof (split_ws_words _ _ _ _ Hok) as W.
  rewrite map_map in W. cbn [snd] in W.
  rewrite <- (map_map snd render_num) in W.
  remember (map snd ((s0, v0) :: cells)) as vals eqn:Ev.
  assert (W2 : exists t ts, map render_num vals = t :: ts) by (subst vals; cbn [map snd]; eauto).
  destruct W2 as (t & ts & W2). rewrite W2 in W.
  destruct (split1_some _ _ _ _ W) as (rest & S1 & Wr).
  unfold row_of. rewrite S1. rewrite <- (has_dot_split_ws rest), Wr, <- W2.
  rewrite parse_vals_row. unfold row_entry. rewrite combine_firstn_l. reflexivity.
Qed.

(* ================= the body ================= *)
Fixpoint body_rows (body : list mline) : list (str * list num) :=
  match body with
  | [] => []
  | MRow _ r cells _ :: b => (r, map snd cells) :: body_rows b
  | MSkip _ :: b => body_rows b
  end.
Lemma expected_rows_fold hs body mat :
  fold_left (fun mat ml => match ml with
                           | MRow _ r cells _ => dict_set r (dict_of_pairs (combine hs (row_vals (map snd cells)))) mat
                           | MSkip _ => mat
                           end) body mat
  = set_all (map (fun rv => (fst rv, row_entry hs (snd rv))) (body_rows body)) mat.
Proof.
  revert mat; induction body as [|ml body IH]; intros mat; [reflexivity|].
  cbn [fold_left]. rewrite IH. destruct ml as [l|lead r cells trail]; reflexivity.
Qed.
Lemma filter_words_body body : forallb mline_ok body = true ->
  exists rows, filter is_words (map mline_aline body) = map mline_aline rows /\
    forallb mline_ok rows = true /\ body_rows rows = body_rows body /\
    forallb (fun ml => match ml with MRow _ _ _ _ => true | _ => false end) rows = true.
Proof.
  induction body as [|ml body IH]; intros H; [exists []; repeat split; reflexivity|].
  cbn [forallb] in H. apply andb_prop in H. destruct H as [H1 H2].
  destruct (IH H2) as (rows & E & Hok & Hb & Hr).
  destruct ml as [l|lead r cells trail].
  - exists rows. cbn [map filter mline_aline]. unfold mline_ok in H1. apply andb_prop in H1. destruct H1 as [_ Hn].
    apply negb_true_iff in Hn. rewrite Hn. repeat split; assumption.
  - exists (MRow lead r cells trail :: rows). cbn [map filter mline_aline is_words]. rewrite E.
    split; [reflexivity|]. split; [cbn [forallb]; rewrite H1, Hok; reflexivity|].
    split; [cbn [body_rows]; rewrite Hb; reflexivity|]. cbn [forallb]. exact Hr.
Qed.
Lemma rows_of_rendered hs rows : forallb mline_ok rows = true ->
  forallb (fun ml => match ml with MRow _ _ _ _ => true | _ => false end) rows = true ->
  rows_of hs (map render_aline (map mline_aline rows)) =
  Some (map (fun rv => (fst rv, row_entry hs (snd rv))) (body_rows rows)).
Proof.
  induction rows as [|ml rows IH]; intros H Hr; [reflexivity|].
  cbn [forallb] in H, Hr. apply andb_prop in H. destruct H as [H1 H2]. apply andb_prop in Hr. destruct Hr as [Hr1 Hr2].
  destruct ml as [l|lead r cells trail]; [discriminate|].
  cbn [map rows_of body_rows]. rewrite (row_of_rendered hs _ _ _ _ H1), (IH H2 Hr2). reflexivity.
Qed.
Lemma nonskipped_rendered f : afile_ok f = true ->
  forallb (fun l => negb (skipped l)) (map render_aline (filter is_words f)) = true.
Proof.
  unfold afile_ok. induction f as [|l f IH]; intros H; [reflexivity|].
  cbn [forallb] in H. apply andb_prop in H. destruct H as [H1 H2].
  cbn [filter]. destruct (is_words l) eqn:E; [|apply IH; exact H2].
  cbn [map forallb]. rewrite (skipped_aline l H1), E, (IH H2). reflexivity.
Qed.

Lemma forallb_map' {A B} (f : A -> B) (P : B -> bool) l : forallb P (map f l) = forallb (fun x => P (f x)) l.
Proof. induction l as [|x l IH]; [reflexivity|]. cbn. rewrite IH. reflexivity. Qed.
Lemma mfile_afile_ok mf : mfile_ok mf = true -> afile_ok (to_afile mf) = true.
Proof.
  unfold mfile_ok, to_afile, afile_ok. intros H.
  apply andb_prop in H. destruct H as [H Hb]. apply andb_prop in H. destruct H as [Hp Hh].
  rewrite forallb_app. cbn [forallb]. rewrite Hh.
  assert (E1 : forallb aline_ok (mf_pre mf) = true).
  { apply (forallb_impl (fun l => aline_ok l && negb (is_words l)) aline_ok); [|exact Hp].
    intros x Hx. apply andb_prop in Hx. exact (proj1 Hx). }
  rewrite E1. cbn [andb]. rewrite forallb_map'.
  apply (forallb_impl mline_ok (fun x => aline_ok (mline_aline x))); [|exact Hb].
  intros x Hx. unfold mline_ok in Hx. apply andb_prop in Hx. exact (proj1 Hx).
Qed.
Lemma filter_pre pre : forallb (fun l => aline_ok l && negb (is_words l)) pre = true -> filter is_words pre = [].
Proof.
  induction pre as [|l pre IH]; intros H; [reflexivity|].
  cbn [forallb] in H. apply andb_prop in H. destruct H as [H1 H2]. apply andb_prop in H1. destruct H1 as [_ Hn].
  apply negb_true_iff in Hn. cbn [filter]. rewrite Hn. apply IH. exact H2.
Qed.

(* THE equation: a matrix of numbers of any shape, written in any layout, loads as exactly these numbers *)
Theorem parse_render_matrix e final mf : mfile_ok mf = true ->
  parse (render_with e final (to_afile mf)) = Some (expected_rows (mf_letters mf) (mf_body mf)).
Proof.
  intros H. pose proof (mfile_afile_ok mf H) as Hok.
  unfold parse. rewrite parse_lines_filter.
  change (filter (fun l => negb (skipped l)) (splitlines (universal_nl ?x))) with (content_lines x).
  rewrite (content_lines_render_with e final _ Hok).
  pose proof (nonskipped_rendered _ Hok) as Hns.
  unfold mfile_ok in H. apply andb_prop in H. destruct H as [H Hb]. apply andb_prop in H. destruct H as [Hp Hh].
  unfold to_afile in *. rewrite filter_app, (filter_pre _ Hp) in *. cbn [List.app filter mf_header is_words] in *.
  destruct (filter_words_body _ Hb) as (rows & E & Hrok & Hbr & Hrr). rewrite E in *.
  cbn [map] in *. cbn [forallb] in Hns. apply andb_prop in Hns. destruct Hns as [Hs1 Hs2].
  cbn [parse_lines]. apply negb_true_iff in Hs1. rewrite Hs1.
  fold (mf_header mf). unfold mf_header. rewrite (split_ws_words _ _ _ _ Hh).
  rewrite (parse_lines_rows _ _ _ Hs2).
  fold (mf_letters mf). rewrite (rows_of_rendered (mf_letters mf) rows Hrok Hrr), Hbr.
  unfold expected_rows. rewrite expected_rows_fold. reflexivity.
Qed.

(* with pairwise different letters the result is literally the table: row letters in order, zip(letters, numbers) per row *)
Lemma NoDup_map_fst_combine {B} (hs : list str) (vs : list B) : NoDup hs -> NoDup (map fst (combine hs vs)).
Proof. intros H. rewrite map_fst_combine. apply NoDup_firstn. exact H. Qed.
Corollary parse_render_matrix_nodup e final mf : mfile_ok mf = true ->
  NoDup (mf_letters mf) -> NoDup (map fst (body_rows (mf_body mf))) ->
  parse (render_with e final (to_afile mf)) =
  Some (map (fun rv => (fst rv, combine (mf_letters mf) (row_vals (snd rv)))) (body_rows (mf_body mf))).
Proof.
  intros H Hl Hr. rewrite (parse_render_matrix e final mf H). unfold expected_rows. rewrite expected_rows_fold.
  rewrite set_all_nodup.
  - cbn [List.app]. f_equal. apply map_ext. intros [r vals]. cbn [fst snd]. unfold row_entry.
    rewrite dict_of_pairs_nodup; [reflexivity|]. apply NoDup_map_fst_combine. exact Hl.
  - rewrite map_map. cbn [fst]. exact Hr.
  - intros k _ [].
Qed.
