(* C20 round 7: skipped lines, histories of calls, directories with links, matrices of numbers in any layout,
   the parser as a function of words, repeated letters, ValueError characterisation, row kinds, cell grammar *)
From Coq Require Import List ZArith NArith Bool Lia.
From Coq.Strings Require Import Byte.
Import ListNotations.
From SV Require Import Text G_submat_index C20_Model C20_Finite C20_Render C20_Num C20_Lemmas.


(* ================= comment / blank lines are irrelevant wherever they stand ================= *)
Lemma skipped_lines_irrelevant ls1 ls2 st mat :
  filter (fun l => negb (skipped l)) ls1 = filter (fun l => negb (skipped l)) ls2 ->
  parse_lines ls1 st mat = parse_lines ls2 st mat.
Proof. intros H. rewrite (parse_lines_filter ls1), (parse_lines_filter ls2), H. reflexivity. Qed.
Lemma insert_skipped_line a b l st mat : skipped l = true ->
  parse_lines (a ++ l :: b) st mat = parse_lines (a ++ b) st mat.
Proof.
  intros H. apply skipped_lines_irrelevant. rewrite !filter_app. cbn [filter]. rewrite H. reflexivity.
Qed.

(* ================= histories: every call hands out a new object holding the pure result ================= *)
Lemma upd_nth_length {A} i (f : A -> A) l : length (upd_nth i f l) = length l.
Proof. revert i; induction l as [|x l IH]; intros [|i]; cbn; try reflexivity. rewrite IH. reflexivity. Qed.
Lemma upd_nth_other {A} i j (f : A -> A) l : i <> j -> nth_error (upd_nth i f l) j = nth_error l j.
Proof.
  revert i j; induction l as [|x l IH]; intros [|i] [|j] H; cbn; try reflexivity; [congruence|].
  apply IH. congruence.
Qed.
Lemma upd_nth_same {A} i (f : A -> A) l x : nth_error l i = Some x -> nth_error (upd_nth i f l) i = Some (f x).
Proof.
  revert i; induction l as [|y l IH]; intros [|i] H; cbn in *; try discriminate.
  - congruence.
  - apply IH. exact H.
Qed.
Lemma hrun_obs steps : forall heap, fst (hrun steps heap) = obs_spec steps (length heap).
Proof.
  induction steps as [|s steps IH]; intros heap; [reflexivity|].
  destruct s as [name file|i e|]; cbn [hrun obs_spec].
  - specialize (IH (heap ++ [submat_call name file])). destruct (hrun steps (heap ++ [submat_call name file])) as [obs h].
    cbn [fst] in *. rewrite IH, app_length. cbn [length]. replace (length heap + 1)%nat with (S (length heap)) by lia. reflexivity.
  - specialize (IH (upd_nth i (edit_outcome e) heap)). destruct (hrun steps (upd_nth i (edit_outcome e) heap)) as [obs h].
    cbn [fst] in *. rewrite IH, upd_nth_length. reflexivity.
  - specialize (IH heap). destruct (hrun steps heap) as [obs h]. cbn [fst] in *. rewrite IH. reflexivity.
Qed.
(* the objects of a history without edits are the pure results, in call order *)
Fixpoint calls_of (steps : list hstep) : list outcome :=
  match steps with
  | [] => []
  | HCall name file :: r => submat_call name file :: calls_of r
  | _ :: r => calls_of r
  end.
(* the final content of object j: its pure result with exactly the edits addressed to j applied in order *)
Fixpoint edits_for (j : nat) (steps : list hstep) (n : nat) (o : outcome) : outcome :=
  match steps with
  | [] => o
  | HCall _ _ :: r => edits_for j r (S n) o
  | HEdit i e :: r => edits_for j r n (if Nat.eqb i j && Nat.ltb j n then edit_outcome e o else o)
  | HSkip :: r => edits_for j r n o
  end.
Lemma hrun_old_object steps : forall heap j o, nth_error heap j = Some o ->
  nth_error (snd (hrun steps heap)) j = Some (edits_for j steps (length heap) o).
Proof.
  induction steps as [|s steps IH]; intros heap j o H; [exact H|].
  assert (Hj : (j < length heap)%nat) by (apply nth_error_Some; congruence).
  destruct s as [name file|i e|]; cbn [hrun edits_for].
  - specialize (IH (heap ++ [submat_call name file]) j o). destruct (hrun steps (heap ++ [submat_call name file])) as [obs h].
    cbn [snd] in *. rewrite IH by (rewrite nth_error_app1; assumption).
    rewrite app_length. cbn [length]. replace (length heap + 1)%nat with (S (length heap)) by lia. reflexivity.
  - destruct (Nat.eqb_spec i j) as [->|Hij].
    + specialize (IH (upd_nth j (edit_outcome e) heap) j (edit_outcome e o)).
      destruct (hrun steps (upd_nth j (edit_outcome e) heap)) as [obs h]. cbn [snd] in *.
      rewrite IH by (apply upd_nth_same; exact H). rewrite upd_nth_length.
      assert (E : Nat.ltb j (length heap) = true) by (apply Nat.ltb_lt; exact Hj). rewrite E. reflexivity.
    + specialize (IH (upd_nth i (edit_outcome e) heap) j o).
      destruct (hrun steps (upd_nth i (edit_outcome e) heap)) as [obs h]. cbn [snd] in *.
      rewrite IH by (rewrite upd_nth_other; assumption). rewrite upd_nth_length. reflexivity.
  - specialize (IH heap j o H). destruct (hrun steps heap) as [obs h]. cbn [snd] in *. exact IH.
Qed.
(* the cached variant hands out an edited object again: the property fails for it *)
Definition cached_witness : list hstep := [HCall (bs "nuc"%bs) None; HEdit 0 EClear; HCall (bs "nuc"%bs) None].
Lemma cached_refuted : fst (hrun_cached cached_witness [] []) <> obs_spec cached_witness 0.
Proof. vm_compute. discriminate. Qed.
Lemma uncached_witness_ok : fst (hrun cached_witness []) = obs_spec cached_witness 0 /\
  exists m, nth_error (obs_spec cached_witness 0) 2 = Some (Some (1%nat, OMatrix m)) /\ (4 <= length m)%nat.
Proof. split; [apply hrun_obs|]. eexists. split; [vm_compute; reflexivity|]. cbn [length]. lia. Qed.

(* ================= a directory of files, directories and symbolic links ================= *)
Lemma fs_resolution d name :
  (forall c, fs_file max_links d name = Some c -> submat_fs d name = submat_file c) /\
  (fs_file max_links d name = None -> submat_fs d name = submat_name name).
Proof.
  unfold submat_fs. split.
  - intros c H. rewrite H. apply (proj2 (file_wins name c)).
  - intros H. rewrite H. reflexivity.
Qed.
Lemma fs_regular n d name c : dict_get name d = Some (FReg c) -> fs_file (S n) d name = Some c.
Proof. intros H. cbn [fs_file]. rewrite H. reflexivity. Qed.
Lemma fs_directory n d name : dict_get name d = Some FDir -> fs_file n d name = None.
Proof. intros H. destruct n; [reflexivity|]. cbn [fs_file]. rewrite H. reflexivity. Qed.
Lemma fs_missing n d name : dict_get name d = None -> fs_file n d name = None.
Proof. intros H. destruct n; [reflexivity|]. cbn [fs_file]. rewrite H. reflexivity. Qed.
Lemma fs_link n d name t : dict_get name d = Some (FLink t) -> fs_file (S n) d name = fs_file n d t.
Proof. intros H. cbn [fs_file]. rewrite H. reflexivity. Qed.
Lemma fs_dangling n d name t : dict_get name d = Some (FLink t) -> dict_get t d = None -> fs_file n d name = None.
Proof. intros H1 H2. destruct n; [reflexivity|]. rewrite (fs_link n d name t H1). apply fs_missing. exact H2. Qed.
Lemma fs_self_loop n d name : dict_get name d = Some (FLink name) -> fs_file n d name = None.
Proof. intros H. induction n as [|n IH]; [reflexivity|]. rewrite (fs_link n d name name H). exact IH. Qed.
Lemma fs_two_loop n d a b : dict_get a d = Some (FLink b) -> dict_get b d = Some (FLink a) ->
  fs_file n d a = None /\ fs_file n d b = None.
Proof.
  intros Ha Hb. induction n as [|n [IH1 IH2]]; [split; reflexivity|].
  rewrite (fs_link n d a b Ha), (fs_link n d b a Hb). split; assumption.
Qed.

(* ================= numbers: what each reader makes of a canonical literal ================= *)
Lemma span_digits_all ds : forallb is_digit ds = true -> span_digits ds = (ds, []).
Proof.
  induction ds as [|c ds IH]; intros H; [reflexivity|].
  cbn [forallb] in H. apply andb_prop in H. destruct H as [H1 H2].
  cbn [span_digits]. rewrite H1, (IH H2). reflexivity.
Qed.
Lemma udec_digits ds z : forallb is_digit ds = true -> ds <> [] -> digits_acc ds 0%Z = Some z -> udec ds = Some (z, 0%nat).
Proof.
  intros Hd Hne E. unfold udec. rewrite (span_digits_all ds Hd). unfold nat_of_dec.
  destruct ds; [congruence|]. rewrite E. reflexivity.
Qed.
(* float("17") = 17.0: an integer literal inside a row that has a decimal point somewhere *)
Lemma dec_of_token_int z : dec_of_token (dec_of_Z z) = Some (z, 0%nat).
Proof.
  destruct (Z.leb_spec 0 z) as [H|H].
  - destruct (digits_nonneg z H) as (Hd & Hne & E).
    pose proof (udec_digits _ _ Hd Hne E) as U.
    destruct (dec_of_Z z) as [|c r] eqn:Ez; [congruence|].
    cbn [forallb] in Hd. apply andb_prop in Hd. destruct Hd as [Hc _].
    destruct c; cbn in Hc; try discriminate; exact U.
  - destruct z as [|p|p]; try lia.
    assert (Hp : (0 <= Zpos p)%Z) by lia. destruct (digits_nonneg (Zpos p) Hp) as (Hd & Hne & E).
    unfold dec_of_Z in *. cbn [Z.to_int] in *. cbn [dec_of_token].
    rewrite (udec_digits _ _ Hd Hne E). reflexivity.
Qed.
Lemma parse_num_float_render v : parse_num true (render_num v) = Some (as_dec v).
Proof.
  destruct v as [z|m k]; cbn [parse_num render_num as_dec]; unfold py_float.
  - rewrite dec_of_token_int. reflexivity.
  - rewrite dec_of_token_render. reflexivity.
Qed.
Lemma parse_num_int_render z : parse_num false (render_num (NInt z)) = Some (NInt z).
Proof. cbn [parse_num render_num]. unfold py_int. rewrite Z_of_dec_of_Z. reflexivity. Qed.

Lemma row_has_dot vals : existsb has_dot (map render_num vals) = negb (forallb is_int_num vals).
Proof.
  induction vals as [|v vals IH]; [reflexivity|].
  cbn [map existsb forallb]. rewrite IH. destruct v as [z|m k]; cbn [render_num is_int_num].
  - rewrite dec_of_Z_no_dot. reflexivity.
  - rewrite render_dec_has_dot. reflexivity.
Qed.
Lemma parse_vals_float vals : parse_vals true (map render_num vals) = Some (map as_dec vals).
Proof.
  induction vals as [|v vals IH]; [reflexivity|].
  cbn [map parse_vals]. rewrite parse_num_float_render, IH. reflexivity.
Qed.
Lemma parse_vals_int vals : forallb is_int_num vals = true -> parse_vals false (map render_num vals) = Some vals.
Proof.
  induction vals as [|v vals IH]; intros H; [reflexivity|].
  cbn [forallb] in H. apply andb_prop in H. destruct H as [H1 H2].
  destruct v as [z|m k]; [|discriminate].
  cbn [map parse_vals]. rewrite parse_num_int_render, (IH H2). reflexivity.
Qed.
Lemma forallb_firstn' {A} (P : A -> bool) n l : forallb P l = true -> forallb P (firstn n l) = true.
Proof. apply forallb_firstn. Qed.
(* the converter is chosen from the WHOLE rest of the line, then only the first n words are converted *)
Lemma parse_vals_row n vals :
  parse_vals (existsb has_dot (map render_num vals)) (firstn n (map render_num vals)) = Some (firstn n (row_vals vals)).
Proof.
  rewrite row_has_dot. unfold row_vals. rewrite firstn_map.
  destruct (forallb is_int_num vals) eqn:E; cbn [negb].
  - apply parse_vals_int. apply forallb_firstn. exact E.
  - rewrite parse_vals_float, firstn_map. reflexivity.
Qed.
Lemma combine_firstn_l {A B} (a : list A) (b : list B) : combine a (firstn (length a) b) = combine a b.
Proof.
  revert b; induction a as [|x a IH]; intros [|y b]; cbn; try reflexivity. rewrite IH. reflexivity.
Qed.

(* ================= l1, rest = line.split(maxsplit=1) on a line with at least two words ================= *)
Lemma split1_some line a b r : split_ws line = a :: b :: r ->
  exists rest, split1 line = Some (a, rest) /\ split_ws rest = b :: r.
Proof.
  intros H. unfold split1. rewrite <- (split_ws_lstrip line) in H.
  destruct (lstrip line) as [|c s] eqn:E; [discriminate|].
  pose proof (lstrip_head _ _ _ E) as Hc.
  rewrite (split_ws_word s c Hc) in H.
  cbn [span_word]. rewrite Hc. destruct (span_word s) as [w t]. cbn [fst snd] in H.
  injection H as Ha Ht. rewrite <- (split_ws_lstrip t) in Ht.
  destruct (lstrip t) as [|c2 r2] eqn:E2; [discriminate|].
  exists (c2 :: r2). split; [rewrite Ha; reflexivity|]. exact Ht.
Qed.

(* ================= one rendered row ================= *)
Definition row_entry (hs : list str) (vals : list num) : row := dict_of_pairs (combine hs (row_vals vals)).
Lemma row_of_rendered hs lead r cells trail :
  mline_ok (MRow lead r cells trail) = true ->
  row_of hs (render_aline (mline_aline (MRow lead r cells trail))) = Some (r, row_entry hs (map snd cells)).
Proof.
  unfold mline_ok. intros H. apply andb_prop in H. destruct H as [Hok Hne].
  destruct cells as [|[s0 v0] cells]; [discriminate|].
  cbn [mline_aline] in *.
  pose proof (split_ws_words _ _ _ _ Hok) as W.
  rewrite map_map in W. cbn [snd] in W.
  rewrite <- (map_map snd render_num) in W.
  remember (map snd ((s0, v0) :: cells)) as vals eqn:Ev.
  assert (W2 : exists t ts, map render_num vals = t :: ts) by (subst vals; cbn [map snd]; eauto).
  destruct W2 as (t & ts & W2). rewrite W2 in W.
  destruct (split1_some _ _ _ _ W) as (rest & S1 & Wr).
  unfold row_of. rewrite S1. rewrite <- (has_dot_split_ws rest), Wr, <- W2.
  rewrite parse_vals_row. unfold row_entry. rewrite combine_firstn_l. reflexivity.
Qed.

(* ================= the body ================= *)
Fixpoint body_rows (body : list mline) : list (str * list num) :=
  match body with
  | [] => []
  | MRow _ r cells _ :: b => (r, map snd cells) :: body_rows b
  | MSkip _ :: b => body_rows b
  end.
Lemma expected_rows_fold hs body mat :
  fold_left (fun mat ml => match ml with
                           | MRow _ r cells _ => dict_set r (dict_of_pairs (combine hs (row_vals (map snd cells)))) mat
                           | MSkip _ => mat
                           end) body mat
  = set_all (map (fun rv => (fst rv, row_entry hs (snd rv))) (body_rows body)) mat.
Proof.
  revert mat; induction body as [|ml body IH]; intros mat; [reflexivity|].
  cbn [fold_left]. rewrite IH. destruct ml as [l|lead r cells trail]; reflexivity.
Qed.
Lemma filter_words_body body : forallb mline_ok body = true ->
  exists rows, filter is_words (map mline_aline body) = map mline_aline rows /\
    forallb mline_ok rows = true /\ body_rows rows = body_rows body /\
    forallb (fun ml => match ml with MRow _ _ _ _ => true | _ => false end) rows = true.
Proof.
  induction body as [|ml body IH]; intros H; [exists []; repeat split; reflexivity|].
  cbn [forallb] in H. apply andb_prop in H. destruct H as [H1 H2].
  destruct (IH H2) as (rows & E & Hok & Hb & Hr).
  destruct ml as [l|lead r cells trail].
  - exists rows. cbn [map filter mline_aline]. unfold mline_ok in H1. apply andb_prop in H1. destruct H1 as [_ Hn].
    apply negb_true_iff in Hn. rewrite Hn. repeat split; assumption.
  - exists (MRow lead r cells trail :: rows). cbn [map filter mline_aline is_words]. rewrite E.
    split; [reflexivity|]. split; [cbn [forallb]; rewrite H1, Hok; reflexivity|].
    split; [cbn [body_rows]; rewrite Hb; reflexivity|]. cbn [forallb]. exact Hr.
Qed.
Lemma rows_of_rendered hs rows : forallb mline_ok rows = true ->
  forallb (fun ml => match ml with MRow _ _ _ _ => true | _ => false end) rows = true ->
  rows_of hs (map render_aline (map mline_aline rows)) =
  Some (map (fun rv => (fst rv, row_entry hs (snd rv))) (body_rows rows)).
Proof.
  induction rows as [|ml rows IH]; intros H Hr; [reflexivity|].
  cbn [forallb] in H, Hr. apply andb_prop in H. destruct H as [H1 H2]. apply andb_prop in Hr. destruct Hr as [Hr1 Hr2].
  destruct ml as [l|lead r cells trail]; [discriminate|].
  cbn [map rows_of body_rows]. rewrite (row_of_rendered hs _ _ _ _ H1), (IH H2 Hr2). reflexivity.
Qed.
Lemma nonskipped_rendered f : afile_ok f = true ->
  forallb (fun l => negb (skipped l)) (map render_aline (filter is_words f)) = true.
Proof.
  unfold afile_ok. induction f as [|l f IH]; intros H; [reflexivity|].
  cbn [forallb] in H. apply andb_prop in H. destruct H as [H1 H2].
  cbn [filter]. destruct (is_words l) eqn:E; [|apply IH; exact H2].
  cbn [map forallb]. rewrite (skipped_aline l H1), E, (IH H2). reflexivity.
Qed.

Lemma forallb_map' {A B} (f : A -> B) (P : B -> bool) l : forallb P (map f l) = forallb (fun x => P (f x)) l.
Proof. induction l as [|x l IH]; [reflexivity|]. cbn. rewrite IH. reflexivity. Qed.
Lemma mfile_afile_ok mf : mfile_ok mf = true -> afile_ok (to_afile mf) = true.
Proof.
  unfold mfile_ok, to_afile, afile_ok. intros H.
  apply andb_prop in H. destruct H as [H Hb]. apply andb_prop in H. destruct H as [Hp Hh].
  rewrite forallb_app. cbn [forallb]. rewrite Hh.
  assert (E1 : forallb aline_ok (mf_pre mf) = true).
  { apply (forallb_impl (fun l => aline_ok l && negb (is_words l)) aline_ok); [|exact Hp].
    intros x Hx. apply andb_prop in Hx. exact (proj1 Hx). }
  rewrite E1. cbn [andb]. rewrite forallb_map'.
  apply (forallb_impl mline_ok (fun x => aline_ok (mline_aline x))); [|exact Hb].
  intros x Hx. unfold mline_ok in Hx. apply andb_prop in Hx. exact (proj1 Hx).
Qed.
Lemma filter_pre pre : forallb (fun l => aline_ok l && negb (is_words l)) pre = true -> filter is_words pre = [].
Proof.
  induction pre as [|l pre IH]; intros H; [reflexivity|].
  cbn [forallb] in H. apply andb_prop in H. destruct H as [H1 H2]. apply andb_prop in H1. destruct H1 as [_ Hn].
  apply negb_true_iff in Hn. cbn [filter]. rewrite Hn. apply IH. exact H2.
Qed.

(* THE equation: a matrix of numbers of any shape, written in any layout, loads as exactly these numbers *)
Theorem parse_render_matrix e final mf : mfile_ok mf = true ->
  parse (render_with e final (to_afile mf)) = Some (expected_rows (mf_letters mf) (mf_body mf)).
Proof.
  intros H. pose proof (mfile_afile_ok mf H) as Hok.
  unfold parse. rewrite parse_lines_filter.
  change (filter (fun l => negb (skipped l)) (splitlines (universal_nl ?x))) with (content_lines x).
  rewrite (content_lines_render_with e final _ Hok).
  pose proof (nonskipped_rendered _ Hok) as Hns.
  unfold mfile_ok in H. apply andb_prop in H. destruct H as [H Hb]. apply andb_prop in H. destruct H as [Hp Hh].
  unfold to_afile in *. rewrite filter_app, (filter_pre _ Hp) in *. cbn [List.app filter mf_header is_words] in *.
  destruct (filter_words_body _ Hb) as (rows & E & Hrok & Hbr & Hrr). rewrite E in *.
  cbn [map] in *. cbn [forallb] in Hns. apply andb_prop in Hns. destruct Hns as [Hs1 Hs2].
  cbn [parse_lines]. apply negb_true_iff in Hs1. rewrite Hs1.
  fold (mf_header mf). unfold mf_header. rewrite (split_ws_words _ _ _ _ Hh).
  rewrite (parse_lines_rows _ _ _ Hs2).
  fold (mf_letters mf). rewrite (rows_of_rendered (mf_letters mf) rows Hrok Hrr), Hbr.
  unfold expected_rows. rewrite expected_rows_fold. reflexivity.
Qed.

(* with pairwise different letters the result is literally the table: row letters in order, zip(letters, numbers) per row *)
Lemma NoDup_map_fst_combine {B} (hs : list str) (vs : list B) : NoDup hs -> NoDup (map fst (combine hs vs)).
Proof. intros H. rewrite map_fst_combine. apply NoDup_firstn. exact H. Qed.
Corollary parse_render_matrix_nodup e final mf : mfile_ok mf = true ->
  NoDup (mf_letters mf) -> NoDup (map fst (body_rows (mf_body mf))) ->
  parse (render_with e final (to_afile mf)) =
  Some (map (fun rv => (fst rv, combine (mf_letters mf) (row_vals (snd rv)))) (body_rows (mf_body mf))).
Proof.
  intros H Hl Hr. rewrite (parse_render_matrix e final mf H). unfold expected_rows. rewrite expected_rows_fold.
  rewrite set_all_nodup.
  - cbn [List.app]. f_equal. apply map_ext. intros [r vals]. cbn [fst snd]. unfold row_entry.
    rewrite dict_of_pairs_nodup; [reflexivity|]. apply NoDup_map_fst_combine. exact Hl.
  - rewrite map_map. cbn [fst]. exact Hr.
  - intros k _ [].
Qed.

(* ================= EVERY file that parses, repeated letters included: the last one wins ================= *)
Fixpoint get_last {V} (k : str) (l : list (str * V)) : option V :=
  match l with
  | [] => None
  | (k', v) :: r => match get_last k r with
                    | Some x => Some x
                    | None => if str_eqb k' k then Some v else None
                    end
  end.
Fixpoint find_last {A} (P : A -> bool) (l : list A) : option A :=
  match l with
  | [] => None
  | x :: r => match find_last P r with
              | Some y => Some y
              | None => if P x then Some x else None
              end
  end.
(* what submat(file)[r][c] is, read off the text: the LAST data line whose first word is r; in it the LAST of the first
   min(#letters, #values) columns whose header letter is c; the word there, read by float() if any value word of that line
   contains a "." and by int() otherwise *)
Definition cell_spec (raw : str) (r c : str) : option num :=
  match find_last (fun l => str_eqb (first_word l) r) (data_lines raw) with
  | None => None
  | Some line =>
      match split_ws line with
      | _ :: vs => match get_last c (combine (header_of raw) vs) with
                   | Some tok => parse_num (existsb has_dot vs) tok
                   | None => None
                   end
      | [] => None
      end
  end.

Lemma str_eqb_sym_false a b : str_eqb a b = false -> str_eqb b a = false.
Proof.
  intros H. destruct (str_eqb b a) eqn:E; [|reflexivity]. apply str_eqb_eq in E. subst. rewrite str_eqb_refl in H. discriminate.
Qed.
Lemma dict_get_dict_set {V} k k' (v : V) d :
  dict_get k (dict_set k' v d) = if str_eqb k' k then Some v else dict_get k d.
Proof.
  induction d as [|[k2 v2] d IH]; cbn [dict_set dict_get].
  - reflexivity.
  - destruct (str_eqb k2 k') eqn:E2.
    + apply str_eqb_eq in E2. subst k'. cbn [dict_get]. destruct (str_eqb k2 k); reflexivity.
    + cbn [dict_get]. rewrite IH. destruct (str_eqb k2 k) eqn:E3; [|reflexivity].
      apply str_eqb_eq in E3. subst k. rewrite str_eqb_sym_false by exact E2. reflexivity.
Qed.
Lemma dict_get_set_all {V} k (l : list (str * V)) : forall d,
  dict_get k (set_all l d) = match get_last k l with Some v => Some v | None => dict_get k d end.
Proof.
  induction l as [|[k' v'] l IH]; intros d; [reflexivity|].
  cbn [set_all fold_left fst snd get_last]. change (fold_left _ l ?x) with (set_all l x).
  rewrite IH. destruct (get_last k l); [reflexivity|].
  rewrite dict_get_dict_set. destruct (str_eqb k' k); reflexivity.
Qed.
Lemma dict_get_of_pairs {V} k (l : list (str * V)) : dict_get k (dict_of_pairs l) = get_last k l.
Proof.
  change (dict_of_pairs l) with (set_all l []). rewrite dict_get_set_all. destruct (get_last k l); reflexivity.
Qed.
Lemma dict_set_keys {V} k (v : V) d : NoDup (map fst d) -> NoDup (map fst (dict_set k v d)) /\
  forall x, In x (map fst (dict_set k v d)) <-> x = k \/ In x (map fst d).
Proof.
  induction d as [|[k2 v2] d IH]; intros H.
  - cbn. split; [constructor; [intros []|constructor]|]. intros x. split; [intros [E|[]]; left; congruence|intros [E|[]]; left; congruence].
  - cbn [dict_set]. cbn [map fst] in H. inversion H as [|? ? Hk Hd]; subst.
    destruct (str_eqb k2 k) eqn:E.
    + apply str_eqb_eq in E. subst k2. cbn [map fst]. split; [exact H|].
      intros x. split; [intros Hx; right; exact Hx|intros [Hx|Hx]; [left; congruence|exact Hx]].
    + destruct (IH Hd) as [IH1 IH2]. cbn [map fst]. split.
      * constructor; [|exact IH1]. intros Hin. apply IH2 in Hin. destruct Hin as [Hin|Hin]; [|contradiction].
        subst k2. rewrite str_eqb_refl in E. discriminate.
      * intros x. split.
        -- intros [Hx|Hx]; [right; left; exact Hx|]. apply IH2 in Hx. destruct Hx as [Hx|Hx]; [left; exact Hx|right; right; exact Hx].
        -- intros [Hx|[Hx|Hx]]; [right; apply IH2; left; exact Hx|left; exact Hx|right; apply IH2; right; exact Hx].
Qed.
Lemma set_all_keys {V} (l : list (str * V)) : forall d, NoDup (map fst d) -> NoDup (map fst (set_all l d)) /\
  forall x, In x (map fst (set_all l d)) <-> In x (map fst l) \/ In x (map fst d).
Proof.
  induction l as [|[k v] l IH]; intros d H.
  - cbn. split; [exact H|]. intros x. split; [intros Hx; right; exact Hx|intros [[]|Hx]; exact Hx].
  - cbn [set_all fold_left fst snd]. change (fold_left _ l ?x) with (set_all l x).
    destruct (dict_set_keys k v d H) as [H1 H2]. destruct (IH _ H1) as [I1 I2]. split; [exact I1|].
    intros x. rewrite I2, H2. cbn [map fst In]. split.
    + intros [Hx|[Hx|Hx]]; [left; right; exact Hx|left; left; congruence|right; exact Hx].
    + intros [[Hx|Hx]|Hx]; [right; left; congruence|left; exact Hx|right; right; exact Hx].
Qed.

Lemma get_last_parse c fl (hs : list str) : forall toks vals, parse_vals fl (firstn (length hs) toks) = Some vals ->
  match get_last c (combine hs toks) with
  | Some tok => exists v, parse_num fl tok = Some v /\ get_last c (combine hs vals) = Some v
  | None => get_last c (combine hs vals) = None
  end.
Proof.
  induction hs as [|h hs IH]; intros toks vals H; [reflexivity|].
  destruct toks as [|t toks]; cbn [length firstn parse_vals] in H.
  - inversion H. reflexivity.
  - destruct (parse_num fl t) as [v0|] eqn:E0; [|discriminate].
    destruct (parse_vals fl (firstn (length hs) toks)) as [vals'|] eqn:E1; [|discriminate].
    inversion H; subst. cbn [combine get_last]. specialize (IH toks vals' E1).
    destruct (get_last c (combine hs toks)) as [tok|].
    + destruct IH as (v & Hv & Hg). exists v. rewrite Hg. split; [exact Hv|reflexivity].
    + rewrite IH. destruct (str_eqb h c); [exists v0; split; [exact E0|reflexivity]|reflexivity].
Qed.

(* one line *)
Lemma row_of_cell hs line l1 rw c : row_of hs line = Some (l1, rw) ->
  first_word line = l1 /\
  dict_get c rw = match split_ws line with
                  | _ :: vs => match get_last c (combine hs vs) with
                               | Some tok => parse_num (existsb has_dot vs) tok
                               | None => None
                               end
                  | [] => None
                  end.
Proof.
  intros H. split; [exact (row_of_key hs line (l1, rw) H)|].
  unfold row_of in H. destruct (split1 line) as [[w rest]|] eqn:S1; [|discriminate].
  destruct (parse_vals (has_dot rest) (firstn (length hs) (split_ws rest))) as [vals|] eqn:PV; [|discriminate].
  inversion H; subst. destruct (split1_split_ws _ _ _ S1) as [W _]. rewrite W.
  rewrite dict_get_of_pairs, has_dot_split_ws.
  pose proof (get_last_parse c _ hs _ _ PV) as G.
  destruct (get_last c (combine hs (split_ws rest))) as [tok|].
  - destruct G as (v & Hv & Hg). rewrite Hg, Hv. reflexivity.
  - exact G.
Qed.
Lemma find_last_In {A} (P : A -> bool) l x : find_last P l = Some x -> In x l.
Proof.
  induction l as [|y l IH]; [discriminate|]. cbn [find_last].
  destruct (find_last P l) as [z|].
  - intros H. inversion H; subst. right. apply IH. reflexivity.
  - destruct (P y); [|discriminate]. intros H. inversion H. left. reflexivity.
Qed.

Lemma rows_of_last hs ls rows r : rows_of hs ls = Some rows ->
  get_last r rows = match find_last (fun l => str_eqb (first_word l) r) ls with
                    | Some line => match row_of hs line with Some x => Some (snd x) | None => None end
                    | None => None
                    end.
Proof.
  revert rows; induction ls as [|l ls IH]; intros rows H; cbn [rows_of] in H.
  - inversion H. reflexivity.
  - destruct (row_of hs l) as [[k rw]|] eqn:E; [|discriminate].
    destruct (rows_of hs ls) as [rows'|] eqn:ER; [|discriminate]. inversion H; subst.
    cbn [get_last find_last]. rewrite (IH rows' eq_refl).
    destruct (find_last (fun l0 => str_eqb (first_word l0) r) ls) as [line|] eqn:F.
    + destruct (rows_of_In _ _ _ _ ER (find_last_In _ _ _ F)) as (x & Hx & _). rewrite Hx. reflexivity.
    + rewrite (row_of_key hs l (k, rw) E). cbn [fst]. destruct (str_eqb k r); [rewrite E; reflexivity|reflexivity].
Qed.
(* the parser on every content: the rows, with all rows convertible *)
Lemma parse_rows raw m : parse raw = Some m ->
  match content_lines raw with
  | [] => m = []
  | h :: D => exists rows, rows_of (split_ws h) D = Some rows /\ m = set_all rows []
  end.
Proof.
  unfold parse. rewrite parse_lines_filter. fold (content_lines raw).
  pose proof (content_lines_nonskipped raw) as Hns.
  destruct (content_lines raw) as [|h D]; cbn [parse_lines].
  - intros H. inversion H. reflexivity.
  - cbn [forallb] in Hns. apply andb_prop in Hns. destruct Hns as [Hh HD].
    destruct (skipped h); [discriminate|]. rewrite (parse_lines_rows _ _ _ HD).
    destruct (rows_of (split_ws h) D) as [rows|] eqn:E; [|discriminate].
    intros H. inversion H. exists rows. split; reflexivity.
Qed.

Theorem parse_general raw m : parse raw = Some m ->
  (forall r c, cell m r c = cell_spec raw r c) /\
  NoDup (map fst m) /\
  (forall r, In r (map fst m) <-> In r (map first_word (data_lines raw))).
Proof.
  intros H. pose proof (parse_rows raw m H) as R. unfold cell_spec, header_of, data_lines.
  destruct (content_lines raw) as [|h D].
  - subst m. cbn. split; [reflexivity|]. split; [constructor|]. intros r. split; intros [].
  - destruct R as (rows & E & ->). cbn [tl].
    destruct (set_all_keys rows [] (NoDup_nil _)) as [K1 K2].
    split; [|split; [exact K1|]].
    + intros r c. unfold cell. rewrite dict_get_set_all. cbn [dict_get].
      rewrite (rows_of_last _ _ _ r E).
      destruct (find_last (fun l => str_eqb (first_word l) r) D) as [line|] eqn:F; [|reflexivity].
      pose proof (find_last_In _ _ _ F) as Hin.
      destruct (rows_of_In _ _ _ _ E Hin) as (x & Hx & _).
      rewrite Hx. destruct x as [l1 rw]. cbn [snd].
      exact (proj2 (row_of_cell _ _ _ _ c Hx)).
    + intros r. rewrite K2, (rows_of_keys _ _ _ E). cbn [map In]. tauto.
Qed.

(* ================= symmetry check = the statement, for every parser result ================= *)
Lemma sym_ok_complete (m : matrix) : NoDup (map fst m) ->
  (forall a b va vb, cell m a b = Some va -> cell m b a = Some vb -> num_val_eqb va vb = true) ->
  (forall a rw, In (a, rw) m -> NoDup (map fst rw)) ->
  sym_ok m = true.
Proof.
  intros Hnd H Hrows. unfold sym_ok. apply forallb_forall. intros [a rw] Ha. cbn [fst snd].
  apply forallb_forall. intros [b v] Hb. cbn [fst snd].
  destruct (cell m b a) as [v'|] eqn:E; [|reflexivity].
  apply (H a b v v'); [|exact E].
  assert (G : dict_get a m = Some rw) by (apply dict_get_nodup_In; assumption).
  unfold cell. rewrite G.
  apply dict_get_nodup_In; [exact (Hrows a rw Ha)|exact Hb].
Qed.
Lemma set_all_rows_nodup {V} (P : list (str * V) -> Prop) (l : list (str * list (str * V))) :
  (forall k rw, In (k, rw) l -> P rw) -> forall d, (forall k rw, In (k, rw) d -> P rw) ->
  forall k rw, In (k, rw) (set_all l d) -> P rw.
Proof.
  induction l as [|[k0 rw0] l IH]; intros Hl d Hd k rw Hin; [exact (Hd k rw Hin)|].
  cbn [set_all fold_left fst snd] in Hin. change (fold_left _ l ?x) with (set_all l x) in Hin.
  apply (IH (fun k rw H => Hl k rw (or_intror H)) (dict_set k0 rw0 d)) with (k := k); [|exact Hin].
  intros k1 rw1 H1. clear - H1 Hd Hl.
  induction d as [|[k2 v2] d IHd]; cbn [dict_set] in H1.
  - destruct H1 as [H1|[]]. inversion H1; subst. eapply Hl. left. reflexivity.
  - destruct (str_eqb k2 k0).
    + destruct H1 as [H1|H1]; [inversion H1; subst; eapply Hl; left; reflexivity|].
      apply (Hd k1 rw1). right. exact H1.
    + destruct H1 as [H1|H1]; [apply (Hd k1 rw1); left; exact H1|].
      apply IHd; [|exact H1]. intros k rw H. apply (Hd k rw). right. exact H.
Qed.
Lemma dict_of_pairs_keys_nodup {V} (l : list (str * V)) : NoDup (map fst (dict_of_pairs l)).
Proof. change (dict_of_pairs l) with (set_all l []). apply (set_all_keys l [] (NoDup_nil _)). Qed.
Lemma rows_of_rows_nodup hs ls rows : rows_of hs ls = Some rows -> forall k rw, In (k, rw) rows -> NoDup (map fst rw).
Proof.
  revert rows; induction ls as [|l ls IH]; intros rows H k rw Hin; cbn [rows_of] in H.
  - inversion H; subst. destruct Hin.
  - destruct (row_of hs l) as [[k0 rw0]|] eqn:E; [|discriminate].
    destruct (rows_of hs ls) as [rows'|]; [|discriminate]. inversion H; subst.
    destruct Hin as [Hin|Hin]; [|exact (IH rows' eq_refl k rw Hin)].
    inversion Hin; subst. unfold row_of in E. destruct (split1 l) as [[w rest]|]; [|discriminate].
    destruct (parse_vals (has_dot rest) (firstn (length hs) (split_ws rest))); [|discriminate].
    inversion E. apply dict_of_pairs_keys_nodup.
Qed.
Theorem symmetric_iff raw m : parse raw = Some m ->
  (sym_ok m = true <->
   forall a b va vb, cell m a b = Some va -> cell m b a = Some vb -> num_val_eqb va vb = true).
Proof.
  intros H. split; [apply sym_ok_spec|]. intros S.
  destruct (parse_general raw m H) as (_ & Hnd & _).
  apply sym_ok_complete; [exact Hnd|exact S|].
  pose proof (parse_rows raw m H) as R. destruct (content_lines raw) as [|h D].
  - subst m. intros a rw [].
  - destruct R as (rows & E & ->). intros a rw Hin.
    apply (set_all_rows_nodup (fun rw => NoDup (map fst rw)) rows (rows_of_rows_nodup _ _ _ E) []) with (k := a); [|exact Hin].
    intros k rw0 [].
Qed.
(* "equal" is equality of the denoted rationals m/10^k *)
Lemma pow10_pos k : (0 < pow10 k)%Z.
Proof. unfold pow10. apply Z.pow_pos_nonneg; lia. Qed.
Definition num_q (v : num) : Z * Z := match v with NInt z => (z, 1%Z) | NDec m k => (m, pow10 k) end.
Lemma num_val_eqb_rational a b :
  num_val_eqb a b = true <-> (fst (num_q a) * snd (num_q b) = fst (num_q b) * snd (num_q a))%Z.
Proof.
  destruct a as [x|m k], b as [y|m' k']; cbn [num_val_eqb num_q fst snd]; rewrite Z.eqb_eq; lia.
Qed.

(* ================= exactly when submat(file) raises ValueError ================= *)
Definition is_some {A} (o : option A) : bool := match o with Some _ => true | None => false end.
(* a data line is readable: at least two words, and each of the first min(#letters, #values) value words is a number
   for the reader the row selects (words beyond the header are never converted) *)
Definition line_parses (hs : list str) (line : str) : bool :=
  match split_ws line with
  | _ :: ((_ :: _) as vs) => forallb (fun t => is_some (parse_num (existsb has_dot vs) t)) (firstn (length hs) vs)
  | _ => false
  end.
Lemma parse_vals_some fl toks : is_some (parse_vals fl toks) = forallb (fun t => is_some (parse_num fl t)) toks.
Proof.
  induction toks as [|t toks IH]; [reflexivity|].
  cbn [parse_vals forallb]. destruct (parse_num fl t); cbn [is_some andb]; [|reflexivity].
  rewrite <- IH. destruct (parse_vals fl toks); reflexivity.
Qed.
Lemma row_of_some hs line : is_some (row_of hs line) = line_parses hs line.
Proof.
  unfold row_of, line_parses. destruct (split1 line) as [[l1 rest]|] eqn:S1.
  - destruct (split1_split_ws _ _ _ S1) as [W Hne]. rewrite W.
    destruct (split_ws rest) as [|v vs] eqn:Wr; [congruence|].
    rewrite <- Wr, has_dot_split_ws, <- parse_vals_some.
    destruct (parse_vals (has_dot rest) (firstn (length hs) (split_ws rest))); reflexivity.
  - destruct (split_ws line) as [|a [|b r]] eqn:W; try reflexivity.
    destruct (split1_some line a b r W) as (rest & S2 & _). congruence.
Qed.
Lemma rows_of_some hs ls : is_some (rows_of hs ls) = forallb (line_parses hs) ls.
Proof.
  induction ls as [|l ls IH]; [reflexivity|].
  cbn [rows_of forallb]. rewrite <- row_of_some, <- IH.
  destruct (row_of hs l); cbn [is_some andb]; [|reflexivity]. destruct (rows_of hs ls); reflexivity.
Qed.
Theorem parse_succeeds_iff raw : is_some (parse raw) = forallb (line_parses (header_of raw)) (data_lines raw).
Proof.
  unfold parse, header_of, data_lines. rewrite parse_lines_filter. fold (content_lines raw).
  pose proof (content_lines_nonskipped raw) as Hns.
  destruct (content_lines raw) as [|h D]; cbn [parse_lines tl forallb]; [reflexivity|].
  cbn [forallb] in Hns. apply andb_prop in Hns. destruct Hns as [Hh HD].
  destruct (skipped h); [discriminate|]. rewrite (parse_lines_rows _ _ _ HD), <- rows_of_some.
  destruct (rows_of (split_ws h) D); reflexivity.
Qed.

(* ================= int or float: decided per ROW, not per cell ================= *)
Lemma as_dec_not_int v : is_int_num (as_dec v) = false.
Proof. destruct v; reflexivity. Qed.
Lemma row_vals_kind vals v : In v (row_vals vals) -> is_int_num v = forallb is_int_num vals.
Proof.
  unfold row_vals. destruct (forallb is_int_num vals) eqn:E; intros H.
  - rewrite forallb_forall in E. apply E. exact H.
  - apply in_map_iff in H. destruct H as (x & <- & _). apply as_dec_not_int.
Qed.
Lemma row_vals_length vals : length (row_vals vals) = length vals.
Proof. unfold row_vals. destruct (forallb is_int_num vals); [reflexivity|apply map_length]. Qed.
(* the value is kept: float("17") denotes 17 *)
Lemma as_dec_value v : num_val_eqb (as_dec v) v = true.
Proof.
  destruct v as [z|m k]; cbn [as_dec num_val_eqb].
  - unfold pow10. cbn. apply Z.eqb_eq. lia.
  - apply Z.eqb_refl.
Qed.
Lemma row_vals_nth vals j v : nth_error vals j = Some v ->
  exists v', nth_error (row_vals vals) j = Some v' /\ num_val_eqb v' v = true /\
             is_int_num v' = forallb is_int_num vals.
Proof.
  intros H. unfold row_vals. destruct (forallb is_int_num vals) eqn:E.
  - exists v. split; [exact H|]. split.
    + destruct v as [z|m k]; cbn; [apply Z.eqb_refl|apply Z.eqb_refl].
    + rewrite forallb_forall in E. apply E. apply (nth_error_In _ _ H).
  - exists (as_dec v). split; [rewrite nth_error_map, H; reflexivity|]. split; [apply as_dec_value|apply as_dec_not_int].
Qed.
(* "int iff the cell's own text is an integer literal" is false for mixed rows *)
Lemma per_cell_reading_refuted : exists vals v, In v vals /\ is_int_num v = true /\
  forall v', In v' (row_vals vals) -> is_int_num v' = false.
Proof.
  exists [NInt 0; NDec 15 1], (NInt 0). split; [left; reflexivity|]. split; [reflexivity|].
  intros v' H. rewrite (row_vals_kind _ _ H). reflexivity.
Qed.

(* ================= the parser as a function of the WORDS of the non-skipped lines, for every text ================= *)
Definition wrow_of (hs : list str) (ws : list str) : option (str * row) :=
  match ws with
  | r :: ((_ :: _) as vs) =>
      match parse_vals (existsb has_dot vs) (firstn (length hs) vs) with
      | Some vals => Some (r, dict_of_pairs (combine hs vals))
      | None => None
      end
  | _ => None
  end.
Fixpoint wrows_of (hs : list str) (wls : list (list str)) : option (list (str * row)) :=
  match wls with
  | [] => Some []
  | ws :: r => match wrow_of hs ws with
               | None => None
               | Some x => match wrows_of hs r with None => None | Some xs => Some (x :: xs) end
               end
  end.
(* header words, then rows: a later row with the same letter replaces the earlier one at its place (set_all = dict_set in order) *)
Definition table_of_words (wls : list (list str)) : option matrix :=
  match wls with
  | [] => Some []
  | hs :: rows => match wrows_of hs rows with Some rs => Some (set_all rs []) | None => None end
  end.
Lemma row_of_words hs line : row_of hs line = wrow_of hs (split_ws line).
Proof.
  unfold row_of, wrow_of. destruct (split1 line) as [[l1 rest]|] eqn:S1.
  - destruct (split1_split_ws _ _ _ S1) as [W Hne]. rewrite W.
    destruct (split_ws rest) as [|v vs] eqn:Wr; [congruence|].
    rewrite <- Wr, has_dot_split_ws. reflexivity.
  - destruct (split_ws line) as [|a [|b r]] eqn:W; try reflexivity.
    destruct (split1_some line a b r W) as (rest & S2 & _). congruence.
Qed.
Lemma rows_of_words hs ls : rows_of hs ls = wrows_of hs (map split_ws ls).
Proof.
  induction ls as [|l ls IH]; [reflexivity|]. cbn [rows_of map wrows_of]. rewrite row_of_words, IH. reflexivity.
Qed.
Theorem parse_words raw : parse raw = table_of_words (map split_ws (content_lines raw)).
Proof.
  unfold parse. rewrite parse_lines_filter. fold (content_lines raw).
  pose proof (content_lines_nonskipped raw) as Hns.
  destruct (content_lines raw) as [|h D]; cbn [parse_lines map table_of_words]; [reflexivity|].
  cbn [forallb] in Hns. apply andb_prop in Hns. destruct Hns as [Hh HD].
  destruct (skipped h); [discriminate|]. rewrite (parse_lines_rows _ _ _ HD), rows_of_words. reflexivity.
Qed.
(* files of the layout grammar: the text layer disappears *)
Theorem parse_render_words e final f : afile_ok f = true ->
  parse (render_with e final f) = table_of_words (word_lines f).
Proof. intros H. rewrite parse_words, (words_of_rendered_with e final f H). reflexivity. Qed.

(* ================= the cell grammar: underscores ================= *)
Definition has_us (s : str) : bool := existsb (fun c => byte_eqb c "_"%byte) s.
Lemma strip_us_id s : forall prev, has_us s = false -> byte_eqb prev "_"%byte = false -> strip_us s prev = Some s.
Proof.
  induction s as [|c s IH]; intros prev H Hp; cbn [strip_us].
  - rewrite Hp. reflexivity.
  - unfold has_us in H. cbn [existsb] in H. apply orb_false_iff in H. destruct H as [Hc Hs].
    rewrite Hc, Hp. cbn [andb]. rewrite (IH c Hs Hc). reflexivity.
Qed.
(* words without underscore: int() is the plain [+-]?D+ reader *)
Lemma int_plain tok : has_us tok = false -> py_int tok = Z_of_dec tok.
Proof.
  intros H. unfold py_int. destruct (Z_of_dec tok) eqn:E; [reflexivity|].
  rewrite (strip_us_id tok x00 H eq_refl). exact E.
Qed.
Lemma float_plain tok : has_us tok = false ->
  py_float tok = match dec_of_token tok with
                 | Some (m, k) => Some (NDec m k)
                 | None => match sfloat tok with Some (m, k) => Some (NDec m k) | None => None end
                 end.
Proof. intros H. unfold py_float. rewrite (strip_us_id tok x00 H eq_refl). reflexivity. Qed.

Lemma digit_not_us c : is_digit c = true -> byte_eqb c "_"%byte = false.
Proof. destruct c; cbn; intros H; try reflexivity; discriminate. Qed.
Lemma digits_no_us ds : forallb is_digit ds = true -> has_us ds = false.
Proof.
  induction ds as [|c ds IH]; intros H; [reflexivity|].
  cbn [forallb] in H. apply andb_prop in H. destruct H as [H1 H2].
  unfold has_us. cbn [existsb]. rewrite (digit_not_us c H1). exact (IH H2).
Qed.
(* a run of digits is copied, whatever stood before it *)
Lemma strip_us_digits ds : forallb is_digit ds = true -> ds <> [] -> forall r prev,
  strip_us (ds ++ r) prev = match strip_us r (last ds prev) with Some t => Some (ds ++ t) | None => None end.
Proof.
  induction ds as [|c ds IH]; intros H Hne r prev; [congruence|].
  cbn [forallb] in H. apply andb_prop in H. destruct H as [H1 H2].
  cbn [List.app strip_us]. rewrite (digit_not_us c H1), H1. cbn [negb]. rewrite andb_false_r.
  destruct ds as [|d ds'].
  - cbn [List.app last]. destruct (strip_us r c); reflexivity.
  - rewrite (IH H2 ltac:(discriminate) r c).
    change (last (c :: d :: ds') prev) with (last (d :: ds') prev).
    replace (last (d :: ds') c) with (last (d :: ds') prev); [destruct (strip_us r (last (d :: ds') prev)); reflexivity|].
    clear. revert d. induction ds' as [|e ds' IH]; intros d; [reflexivity|]. cbn [last]. apply (IH e).
Qed.
Lemma last_digit ds prev : forallb is_digit ds = true -> ds <> [] -> is_digit (last ds prev) = true.
Proof.
  induction ds as [|c ds IH]; intros H Hne; [congruence|].
  cbn [forallb] in H. apply andb_prop in H. destruct H as [H1 H2].
  destruct ds as [|d ds']; [exact H1|]. change (last (c :: d :: ds') prev) with (last (d :: ds') prev).
  apply IH; [exact H2|discriminate].
Qed.
Lemma digits_acc_stop a c b : forallb is_digit a = true -> digit_val c = None -> forall acc, digits_acc (a ++ c :: b) acc = None.
Proof.
  induction a as [|d a IH]; intros H Hc acc.
  - cbn [List.app digits_acc]. rewrite Hc. reflexivity.
  - cbn [forallb] in H. apply andb_prop in H. destruct H as [H1 H2].
    cbn [List.app digits_acc]. unfold is_digit in H1. destruct (digit_val d); [|discriminate]. apply (IH H2 Hc).
Qed.
(* int("1_000") = int("1000"): one underscore between two runs of digits *)
Theorem int_underscore a b : all_digits a = true -> all_digits b = true ->
  py_int (a ++ "_"%byte :: b) = Z_of_dec (a ++ b) /\ py_int (a ++ b) = Z_of_dec (a ++ b).
Proof.
  unfold all_digits. intros Ha Hb.
  destruct a as [|a0 a']; [discriminate|]. destruct b as [|b0 b']; [discriminate|].
  set (a := a0 :: a') in *. set (b := b0 :: b') in *.
  assert (Hna : a <> []) by discriminate. assert (Hnb : b <> []) by discriminate.
  split.
  - unfold py_int.
    assert (E : Z_of_dec (a ++ "_"%byte :: b) = None).
    { pose proof Ha as Ha'. unfold a in Ha'. cbn [forallb] in Ha'. apply andb_prop in Ha'. destruct Ha' as [H0 _].
      unfold a at 1. cbn [List.app]. rewrite (digit_not_sign a0 _ H0). unfold nat_of_dec.
      change (a0 :: a' ++ "_"%byte :: b) with (a ++ "_"%byte :: b).
      apply (digits_acc_stop a "_"%byte b Ha eq_refl). }
    rewrite E. rewrite (strip_us_digits a Ha Hna).
    cbn [strip_us]. change (byte_eqb "_" "_") with true. cbv iota.
    rewrite (last_digit a x00 Ha Hna).
    rewrite <- (app_nil_r b) at 1. rewrite (strip_us_digits b Hb Hnb [] "_"%byte).
    cbn [strip_us]. rewrite (digit_not_us _ (last_digit b "_"%byte Hb Hnb)). rewrite app_nil_r. reflexivity.
  - apply int_plain. apply digits_no_us. rewrite forallb_app, Ha, Hb. reflexivity.
Qed.

(* ================= the cell grammar: exponents ================= *)
Lemma has_us_app a b : has_us (a ++ b) = has_us a || has_us b.
Proof. unfold has_us. apply existsb_app. Qed.
Lemma dec_of_Z_no_us z : has_us (dec_of_Z z) = false.
Proof.
  destruct (Z.leb_spec 0 z) as [H|H].
  - apply digits_no_us. exact (proj1 (digits_nonneg z H)).
  - destruct z as [|p|p]; try lia. unfold dec_of_Z. cbn [Z.to_int].
    unfold has_us. cbn [existsb]. apply (digits_no_us _ (uint_bytes_digits _)).
Qed.
Lemma span_digits_stop fp c r : forallb is_digit fp = true -> is_digit c = false ->
  span_digits (fp ++ c :: r) = (fp, c :: r).
Proof.
  induction fp as [|d fp IH]; intros H Hc.
  - cbn [List.app span_digits]. rewrite Hc. reflexivity.
  - cbn [forallb] in H. apply andb_prop in H. destruct H as [H1 H2].
    cbn [List.app span_digits]. rewrite H1, (IH H2 Hc). reflexivity.
Qed.
Definition small_exps : list Z := map (fun n => (Z.of_nat n - 999)%Z) (seq 0 1999).
Lemma exponent_small_all : forallb (fun ex => match exponent (dec_of_Z ex) with Some e => Z.eqb e ex | None => false end) small_exps = true.
Proof. vm_compute. reflexivity. Qed.
Lemma exponent_small ex : (-1000 < ex < 1000)%Z -> exponent (dec_of_Z ex) = Some ex.
Proof.
  intros H. pose proof exponent_small_all as A. rewrite forallb_forall in A.
  assert (Hin : In ex small_exps).
  { unfold small_exps. apply in_map_iff. exists (Z.to_nat (ex + 999)). split; [lia|]. apply in_seq. lia. }
  specialize (A ex Hin). destruct (exponent (dec_of_Z ex)) as [e|]; [|discriminate].
  apply Z.eqb_eq in A. congruence.
Qed.
Lemma ufloat_canonical ds k EX z e : forallb is_digit ds = true -> (k < length ds)%nat ->
  digits_acc ds 0%Z = Some z -> exponent EX = Some e ->
  ufloat (firstn (length ds - k) ds ++ "."%byte :: skipn (length ds - k) ds ++ "e"%byte :: EX) = Some (scale z k e).
Proof.
  intros Hd Hk Hz He. unfold ufloat.
  rewrite (span_digits_dot _ _ (forallb_firstn _ _ _ Hd)). rewrite byte_eqb_refl.
  rewrite (span_digits_stop _ "e"%byte EX (forallb_skipn _ _ _ Hd) eq_refl).
  rewrite firstn_skipn. destruct ds as [|d ds']; [cbn in Hk; lia|]. rewrite Hz.
  change (is_e "e") with true. cbv iota. rewrite He. rewrite skipn_length. f_equal. f_equal. lia.
Qed.
Lemma udec_exp_fails ds k EX : forallb is_digit ds = true ->
  udec (firstn (length ds - k) ds ++ "."%byte :: skipn (length ds - k) ds ++ "e"%byte :: EX) = None.
Proof.
  intros Hd. unfold udec. rewrite (span_digits_dot _ _ (forallb_firstn _ _ _ Hd)). rewrite byte_eqb_refl.
  rewrite forallb_app. cbn [forallb]. change (is_digit "e") with false. rewrite andb_false_r. reflexivity.
Qed.
Lemma scale_opp z k e : scale (- z) k e = (- fst (scale z k e), snd (scale z k e))%Z.
Proof. unfold scale. destruct (Z.leb (Z.of_nat k) e); cbn [fst snd]; [f_equal; lia|reflexivity]. Qed.
(* float("<m/10^k>e<ex>") = m * 10^ex / 10^k, as a decimal again *)
Theorem float_exponent m k ex : (-1000 < ex < 1000)%Z ->
  py_float (render_dec m k ++ "e"%byte :: dec_of_Z ex) = Some (NDec (fst (scale m k ex)) (snd (scale m k ex))).
Proof.
  intros Hex. pose proof (exponent_small ex Hex) as He.
  unfold render_dec. destruct (render_dec_digits m k) as (Hd & Hk & E). cbn zeta in *.
  set (ds := zeros (S k - length (dec_of_Z (Z.abs m))) ++ dec_of_Z (Z.abs m)) in *.
  pose proof (ufloat_canonical ds k (dec_of_Z ex) _ _ Hd Hk E He) as U.
  pose proof (udec_exp_fails ds k (dec_of_Z ex) Hd) as F.
  assert (NU : has_us (firstn (length ds - k) ds ++ "."%byte :: skipn (length ds - k) ds ++ "e"%byte :: dec_of_Z ex) = false).
  { rewrite has_us_app, (digits_no_us _ (forallb_firstn _ _ _ Hd)). unfold has_us at 1. cbn [existsb orb].
    change (byte_eqb "." "_") with false. cbn [orb]. fold (has_us (skipn (length ds - k) ds ++ "e"%byte :: dec_of_Z ex)).
    rewrite has_us_app, (digits_no_us _ (forallb_skipn _ _ _ Hd)). unfold has_us at 1. cbn [existsb orb].
    change (byte_eqb "e" "_") with false. cbn [orb]. apply dec_of_Z_no_us. }
  destruct (Z.ltb_spec m 0) as [Hm|Hm].
  - cbn [List.app]. rewrite <- !app_assoc. cbn [List.app].
    rewrite float_plain by (unfold has_us; cbn [existsb]; change (byte_eqb "-" "_") with false; cbn [orb]; exact NU).
    cbn [dec_of_token sfloat]. rewrite F, U.
    assert (S : scale m k ex = (- fst (scale (Z.abs m) k ex), snd (scale (Z.abs m) k ex))%Z)
      by (rewrite <- scale_opp; f_equal; lia).
    rewrite S. cbn [fst snd]. destruct (scale (Z.abs m) k ex); reflexivity.
  - cbn [List.app]. rewrite <- !app_assoc. cbn [List.app].
    rewrite float_plain by exact NU.
    assert (Hn : (0 < length ds - k)%nat) by lia.
    destruct ds as [|d ds'] eqn:Eds; [cbn in Hk; lia|].
    destruct (length (d :: ds') - k)%nat as [|n] eqn:En; [lia|].
    cbn [firstn List.app] in *. cbn [forallb] in Hd. apply andb_prop in Hd. destruct Hd as [Hd1 _].
    assert (G1 : forall r, dec_of_token (d :: r) = udec (d :: r)) by (intros r; destruct d; cbn in Hd1; try discriminate; reflexivity).
    assert (G2 : forall r, sfloat (d :: r) = ufloat (d :: r)) by (intros r; destruct d; cbn in Hd1; try discriminate; reflexivity).
    rewrite G1, G2, F, U. replace (Z.abs m) with m by lia. destruct (scale m k ex); reflexivity.
Qed.
(* what scale denotes *)
Lemma scale_value m k e : let (m', k') := scale m k e in
  if Z.leb 0 e then (m' * pow10 k = m * Z.pow 10 e * pow10 k')%Z else (m' = m /\ Z.of_nat k' = Z.of_nat k - e)%Z.
Proof.
  unfold scale, pow10. destruct (Z.leb_spec (Z.of_nat k) e) as [H|H].
  - destruct (Z.leb_spec 0 e) as [H0|H0]; [|lia].
    replace e with ((e - Z.of_nat k) + Z.of_nat k)%Z at 2 by lia.
    rewrite Z.pow_add_r by lia. cbn [Z.of_nat]. rewrite Z.pow_0_r. lia.
  - destruct (Z.leb_spec 0 e) as [H0|H0].
    + rewrite Z2Nat.id by lia. rewrite <- Z.mul_assoc, <- Z.pow_add_r by lia. f_equal. f_equal. lia.
    + split; [reflexivity|]. rewrite Z2Nat.id by lia. reflexivity.
Qed.

(* ================= the listing of the FileNotFoundError text ================= *)
Lemma listing_exact : split_cs available [] = submat_names.
Proof. vm_compute. reflexivity. Qed.
Lemma witness_cell_grammar :
  py_int (bs "+00_7"%bs) = Some 7%Z /\ py_int (bs "1__0"%bs) = None /\ py_int (bs "1e5"%bs) = None /\
  py_float (bs "-1_0.5E+0_2"%bs) = Some (NDec (-1050) 0) /\ py_float (bs ".5e-3"%bs) = Some (NDec 5 4) /\
  py_float (bs "1_.5"%bs) = None /\ py_float (bs "1e"%bs) = None /\ py_float (bs "."%bs) = None /\
  line_parses [bs "A"%bs] (bs "r 1e5 x"%bs) = false /\ line_parses [bs "A"%bs] (bs "r 1.e5 x"%bs) = true.
Proof. vm_compute. repeat split; reflexivity. Qed.

(* ================= pathlib.Path arguments ================= *)
Definition no_slash (s : str) : bool := negb (existsb (fun c => byte_eqb c "/"%byte) s).
Lemma split_slash_none s : forall cur, no_slash s = true -> split_slash s cur = [rev cur ++ s].
Proof.
  unfold no_slash. induction s as [|c s IH]; intros cur H.
  - cbn. rewrite app_nil_r. reflexivity.
  - cbn [existsb] in H. rewrite negb_orb in H. apply andb_prop in H. destruct H as [H1 H2].
    apply negb_true_iff in H1. cbn [split_slash]. rewrite H1. rewrite (IH (c :: cur) H2).
    cbn [rev]. rewrite <- app_assoc. reflexivity.
Qed.
(* a bare name (no "/", not empty, not ".") given as a Path is that name: Path objects resolve like strings *)
Lemma path_norm_bare s : no_slash s = true -> path_part s = true -> path_norm s = s.
Proof.
  intros H1 H2. unfold path_norm. rewrite (split_slash_none s [] H1). cbn [rev List.app filter]. rewrite H2.
  cbn [join].
  assert (R : path_root s = []).
  { destruct s as [|c r]; [reflexivity|]. unfold no_slash in H1. cbn [existsb] in H1. rewrite negb_orb in H1.
    apply andb_prop in H1. destruct H1 as [H1 _]. apply negb_true_iff in H1. cbn [path_root]. rewrite H1. reflexivity. }
  rewrite R. cbn [List.app]. destruct s; [discriminate|reflexivity].
Qed.
Lemma split_slash_app a b : no_slash a = true -> forall cur, split_slash (a ++ "/"%byte :: b) cur = (rev cur ++ a) :: split_slash b [].
Proof.
  unfold no_slash. induction a as [|c a IH]; intros H cur.
  - cbn. rewrite app_nil_r. reflexivity.
  - cbn [existsb] in H. rewrite negb_orb in H. apply andb_prop in H. destruct H as [H1 H2].
    apply negb_true_iff in H1. cbn [List.app split_slash]. rewrite H1, (IH H2 (c :: cur)).
    cbn [rev]. rewrite <- app_assoc. reflexivity.
Qed.
(* "./name", "name/" and "name//" are the name too *)
Lemma path_norm_dot_slash s : no_slash s = true -> path_part s = true ->
  path_norm ("."%byte :: "/"%byte :: s) = s /\ path_norm (s ++ [ "/"%byte ]) = s /\ path_norm (s ++ [ "/"%byte; "/"%byte ]) = s.
Proof.
  intros H1 H2.
  assert (Hne : exists c r, s = c :: r /\ byte_eqb c "/"%byte = false).
  { destruct s as [|c r]; [discriminate|]. exists c, r. split; [reflexivity|]. unfold no_slash in H1. cbn [existsb] in H1.
    rewrite negb_orb in H1. apply andb_prop in H1. apply negb_true_iff. exact (proj1 H1). }
  destruct Hne as (c & r & Es & Hc).
  split; [|split].
  - unfold path_norm. change ("."%byte :: "/"%byte :: s) with ([ "."%byte ] ++ "/"%byte :: s).
    rewrite (split_slash_app [ "."%byte ] s eq_refl []). rewrite (split_slash_none s [] H1).
    cbn [rev List.app filter]. change (path_part [ "."%byte ]) with false. cbv iota. rewrite H2. cbn [join path_root].
    change (byte_eqb "." "/") with false. cbv iota. cbn [List.app]. rewrite Es. reflexivity.
  - unfold path_norm. rewrite (split_slash_app s [] H1 []). cbn [split_slash rev List.app filter]. rewrite H2.
    change (path_part []) with false. cbv iota. cbn [join].
    rewrite Es. cbn [List.app path_root]. rewrite Hc. reflexivity.
  - unfold path_norm. rewrite (split_slash_app s [ "/"%byte ] H1 []). cbn [split_slash rev List.app filter].
    change (byte_eqb "/" "/") with true. cbv iota. cbn [split_slash rev filter]. rewrite H2.
    change (path_part []) with false. cbv iota. cbn [join].
    rewrite Es. cbn [List.app path_root]. rewrite Hc. reflexivity.
Qed.
Lemma path_witness : path_norm [] = bs "."%bs /\ path_norm (bs "a//b/./c/"%bs) = bs "a/b/c"%bs /\
  path_norm (bs "//x"%bs) = bs "//x"%bs /\ path_norm (bs "///x/."%bs) = bs "/x"%bs /\ path_norm (bs "./."%bs) = bs "."%bs /\
  path_norm (bs "x/../blosum62"%bs) = bs "x/../blosum62"%bs.
Proof. vm_compute. repeat split; reflexivity. Qed.

(* ================= "exactly the number at that position", cell by cell ================= *)
Theorem matrix_cell e final mf m : mfile_ok mf = true ->
  NoDup (mf_letters mf) -> NoDup (map fst (body_rows (mf_body mf))) ->
  parse (render_with e final (to_afile mf)) = Some m ->
  map fst m = map fst (body_rows (mf_body mf)) /\
  forall r vals, In (r, vals) (body_rows (mf_body mf)) ->
  forall j c v, nth_error (mf_letters mf) j = Some c -> nth_error vals j = Some v ->
  exists v', cell m r c = Some v' /\ num_val_eqb v' v = true /\ is_int_num v' = forallb is_int_num vals.
Proof.
  intros H Hl Hr P. rewrite (parse_render_matrix_nodup e final mf H Hl Hr) in P. inversion P as [Em]. clear P. subst m.
  split; [rewrite map_map; reflexivity|].
  intros r vals Hin j c v Hc Hv.
  destruct (row_vals_nth vals j v Hv) as (v' & Hv' & Hq & Hk).
  exists v'. split; [|split; assumption].
  unfold cell, matrix, row in *.
  match goal with |- match dict_get r ?M with _ => _ end = _ =>
    assert (Hm : dict_get r M = Some (combine (mf_letters mf) (row_vals vals))) end.
  { apply dict_get_nodup_In.
    - rewrite map_map. cbn [fst]. exact Hr.
    - apply in_map_iff. exists (r, vals). split; [reflexivity|exact Hin]. }
  rewrite Hm. apply dict_get_nodup_In.
  - apply NoDup_map_fst_combine. exact Hl.
  - apply (nth_error_combine_In _ _ j); assumption.
Qed.

(* ================= chains of symbolic links: at most 40 are followed ================= *)
Inductive chain (d : fsdir) : str -> nat -> str -> Prop :=
| chain_file x c : dict_get x d = Some (FReg c) -> chain d x 0 c
| chain_link x t n c : dict_get x d = Some (FLink t) -> chain d t n c -> chain d x (S n) c.
Lemma fs_chain d x n c : chain d x n c -> forall fuel, fs_file fuel d x = if Nat.ltb n fuel then Some c else None.
Proof.
  induction 1 as [x c H|x t n c H _ IH]; intros fuel.
  - destruct fuel; [reflexivity|]. cbn [fs_file]. rewrite H. reflexivity.
  - destruct fuel; [reflexivity|]. cbn [fs_file]. rewrite H, IH.
    change (Nat.ltb (S n) (S fuel)) with (Nat.ltb n fuel). reflexivity.
Qed.
Lemma fs_chain_submat d x n c : chain d x n c ->
  submat_fs d x = if Nat.leb n 40 then submat_file c else submat_name x.
Proof.
  intros H. unfold submat_fs. rewrite (fs_chain d x n c H max_links). unfold max_links.
  change (Nat.ltb n 41) with (Nat.leb n 40).
  destruct (Nat.leb n 40); [apply (proj2 (file_wins x c))|reflexivity].
Qed.
Lemma chain_witness :
  chain [(bs "nuc"%bs, FLink (bs "t"%bs)); (bs "t"%bs, FReg (bs "X"%bs))] (bs "nuc"%bs) 1 (bs "X"%bs).
Proof. apply chain_link with (t := bs "t"%bs); [reflexivity|]. apply chain_file. reflexivity. Qed.
